(** Audit A, C04 (c): the residual cryptographic assumption of the FORKID coverage theorem as an
    explicit hypothesis.  [C04_commit_sensitive_forkid_partial] shows that the ten pre-hash fields
    change; three of them enter the preimage through double SHA-256.  Here: if none of these three
    pairs is a SHA-256d collision (resp. a preimage of the all-zero word), the PREIMAGE changes; and if
    the outer double SHA-256 does not collide on the two preimages either, the 32-byte SIGNATURE HASH
    changes. *)
From Coq Require Import List NArith Lia Bool.
From Coq Require Import Strings.Byte.
From GoBT Require Import lib.Bytes lib.VarInt lib.Sha256 spec.DigestSpec spec.CommitSpec proofs.SigHashProofs
  proofs.CommitProofs.
Import ListNotations.
Local Open Scope N_scope.

(** "this pair is not a collision of the inner hash" ([None]: the field is the all-zero word) *)
Definition no_collision (a b : option bytes) : Prop := hash_or_zero a = hash_or_zero b -> a = b.

Lemma hash_or_zero_length o : length (hash_or_zero o) = 32%nat.
Proof.
  destruct o as [b|]; cbn [hash_or_zero]; [unfold hash256; apply sha256_length|].
  unfold uint256_zero. apply repeat_length.
Qed.

Lemma u32_length v : length (u32 v) = 4%nat. Proof. apply le_enc_length. Qed.

(** the preimage determines the ten fields, the three hashed ones up to the hash *)
Lemma assemble_fields v1 v2 : wf_fview v1 -> wf_fview v2 ->
  assemble (components_of v1) = assemble (components_of v2) ->
  let k1 := components_of v1 in let k2 := components_of v2 in
  fc_version k1 = fc_version k2 /\ hash_or_zero (fc_prevouts k1) = hash_or_zero (fc_prevouts k2) /\
  hash_or_zero (fc_sequences k1) = hash_or_zero (fc_sequences k2) /\ fc_outpoint k1 = fc_outpoint k2 /\
  fc_code k1 = fc_code k2 /\ fc_amount k1 = fc_amount k2 /\ fc_sequence k1 = fc_sequence k2 /\
  hash_or_zero (fc_outputs k1) = hash_or_zero (fc_outputs k2) /\ fc_locktime k1 = fc_locktime k2 /\
  fc_type k1 = fc_type k2.
Proof.
  intros (W1 & W2 & W3 & W4 & W5 & W6 & W7 & W8 & W9 & W10) (X1 & X2 & X3 & X4 & X5 & X6 & X7 & X8 & X9 & X10) H.
  unfold assemble, components_of in H.
  cbn [fc_version fc_prevouts fc_sequences fc_outpoint fc_code fc_amount fc_sequence fc_outputs fc_locktime fc_type] in H.
  cbv zeta. unfold components_of.
  cbn [fc_version fc_prevouts fc_sequences fc_outpoint fc_code fc_amount fc_sequence fc_outputs fc_locktime fc_type].
  apply app_inj_len in H; [|rewrite !u32_length; reflexivity]. destruct H as [E1 H].
  apply app_inj_len in H; [|rewrite !hash_or_zero_length; reflexivity]. destruct H as [E2 H].
  apply app_inj_len in H; [|rewrite !hash_or_zero_length; reflexivity]. destruct H as [E3 H].
  apply (pinj_ser_outpoint _ _ _ _ W4 X4) in H. destruct H as [E4 H].
  apply (pinj_ser_script _ _ _ _ W5 X5) in H. destruct H as [E5 H].
  apply (pinj_u64 _ _ _ _ W6 X6) in H. destruct H as [E6 H].
  apply (pinj_u32 _ _ _ _ W7 X7) in H. destruct H as [E7 H].
  apply app_inj_len in H; [|rewrite !hash_or_zero_length; reflexivity]. destruct H as [E8 H].
  apply (pinj_u32 _ _ _ _ W9 X9) in H. destruct H as [E9 H].
  rewrite E4, E5, E6, E7, E9. repeat split; auto.
Qed.

Theorem forkid_preimage_sensitive_mod_collisions v v' : wf_fview v -> wf_fview v' ->
  components_of v' <> components_of v ->
  no_collision (fc_prevouts (components_of v')) (fc_prevouts (components_of v)) ->
  no_collision (fc_sequences (components_of v')) (fc_sequences (components_of v)) ->
  no_collision (fc_outputs (components_of v')) (fc_outputs (components_of v)) ->
  assemble (components_of v') <> assemble (components_of v).
Proof.
  intros W W' Hne N1 N2 N3 E. apply Hne.
  destruct (assemble_fields v' v W' W E) as (E1 & E2 & E3 & E4 & E5 & E6 & E7 & E8 & E9 & E10).
  apply N1 in E2. apply N2 in E3. apply N3 in E8.
  destruct (components_of v') as [a1 a2 a3 a4 a5 a6 a7 a8 a9 a10], (components_of v) as [b1 b2 b3 b4 b5 b6 b7 b8 b9 b10].
  cbn [fc_version fc_prevouts fc_sequences fc_outpoint fc_code fc_amount fc_sequence fc_outputs fc_locktime fc_type] in *.
  congruence.
Qed.

(** ... and the signature hash, when the outer double SHA-256 does not collide on the two preimages *)
Corollary forkid_sighash_sensitive_mod_collisions v v' : wf_fview v -> wf_fview v' ->
  components_of v' <> components_of v ->
  no_collision (fc_prevouts (components_of v')) (fc_prevouts (components_of v)) ->
  no_collision (fc_sequences (components_of v')) (fc_sequences (components_of v)) ->
  no_collision (fc_outputs (components_of v')) (fc_outputs (components_of v)) ->
  (hash256 (assemble (components_of v')) = hash256 (assemble (components_of v)) ->
   assemble (components_of v') = assemble (components_of v)) ->
  hash256 (assemble (components_of v')) <> hash256 (assemble (components_of v)).
Proof.
  intros W W' Hne N1 N2 N3 No E.
  exact (forkid_preimage_sensitive_mod_collisions v v' W W' Hne N1 N2 N3 (No E)).
Qed.

(** * the same on the library model: CalcInputPreimage / CalcInputSignatureHash of the mutated object *)
From GoBT Require Import model.Tx model.SigHash model.SigHashWire model.TxMutate proofs.CommitModelProofs.

Theorem model_commit_sensitive_forkid_mod_collisions t i ht m : ht < 256 ->
  let t' := fst (apply_tx m t i) in let i' := snd (apply_tx m t i) in
  signable t i -> signable t' i' ->
  committed_in AlgForkid ht (sign_ctx_of t i) m = true -> effective m (sign_ctx_of t i) ->
  NoDup (tx_outs t) -> NoDup (tx_outs t') ->
  exists v v',
    fst (calc_input_preimage t (N.of_nat i) ht) = SOk (assemble (components_of v)) /\
    fst (calc_input_preimage t' (N.of_nat i') ht) = SOk (assemble (components_of v')) /\
    components_of v' <> components_of v /\
    (no_collision (fc_prevouts (components_of v')) (fc_prevouts (components_of v)) ->
     no_collision (fc_sequences (components_of v')) (fc_sequences (components_of v)) ->
     no_collision (fc_outputs (components_of v')) (fc_outputs (components_of v)) ->
     fst (calc_input_preimage t' (N.of_nat i') ht) <> fst (calc_input_preimage t (N.of_nat i) ht)).
Proof.
  intros Hht t' i' S S' Hc He Nd Nd'. subst t' i'.
  pose proof (wf_tx_ctx _ i (proj1 S)) as W. pose proof (wf_tx_ctx _ (snd (apply_tx m t i)) (proj1 S')) as W'.
  pose proof (effective_applicable _ _ He) as Ha.
  pose proof (model_forkid_preimage t i ht Hht S) as P. pose proof (model_forkid_preimage _ _ ht Hht S') as P'.
  cbv zeta in P, P'. rewrite forkid_preimage_factors in P, P'.
  pose proof (signable_ctx t i m S Ha) as E. rewrite E in P', W'.
  assert (Hin : exists inp, nth_error (t_vin (sc_tx (sign_ctx_of t i))) (sc_idx (sign_ctx_of t i)) = Some inp).
  { destruct S as (_ & _ & _ & inp & sc & Hinp & Hsc). unfold sign_ctx_of. rewrite Hinp. unfold wire_tx. cbn [sc_tx sc_idx t_vin].
    rewrite nth_error_map, Hinp. cbn [option_map]. eauto. }
  destruct Hin as [winp Hwinp].
  assert (Hht32 : ht < two32) by (unfold two32; lia).
  destruct (commit_sensitive_forkid _ ht m winp Hc He Hwinp W W' Hht32 (ctx_outs_NoDup t i Nd)
              ltac:(rewrite <- E; apply ctx_outs_NoDup; exact Nd')) as (v & v' & Ev & Ev' & Hd).
  pose proof (wf_ctx_fview _ ht v W Hht32 Ev) as Wv. pose proof (wf_ctx_fview _ ht v' W' Hht32 Ev') as Wv'.
  exists v, v'. rewrite Ev in P. rewrite Ev' in P'. cbn [option_map] in P, P'.
  assert (P0 : SOk (assemble (components_of v)) = fst (calc_input_preimage t (N.of_nat i) ht)) by congruence.
  assert (P0' : SOk (assemble (components_of v')) =
                fst (calc_input_preimage (fst (apply_tx m t i)) (N.of_nat (snd (apply_tx m t i))) ht)) by congruence.
  clear P P'. rename P0 into P. rename P0' into P'.
  split; [congruence|]. split; [congruence|]. split; [exact Hd|].
  intros N1 N2 N3 Heq. rewrite <- P, <- P' in Heq.
  assert (Heq' : assemble (components_of v') = assemble (components_of v)) by congruence.
  exact (forkid_preimage_sensitive_mod_collisions v v' Wv Wv' Hd N1 N2 N3 Heq').
Qed.
