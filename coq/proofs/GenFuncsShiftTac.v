(** Lemmas for the equivalence proofs of the two shift handlers (proofs/GenFuncs_opcodeLShift.v, _opcodeRShift.v):
    a printed three-clause loop that fills a buffer position by position, counting upwards from 0 or downwards from
    the end, computes [map g] over the positions it visits and never runs out of fuel; byte equations are decided by
    a sweep over all pairs of bytes. *)
From Coq Require Import List ZArith NArith Bool Lia ZifyN ZifyNat ZifyBool.
From Coq Require Import Strings.Byte.
From GoBT Require Import lib.Bytes lib.GoSem proofs.GenFuncsTac proofs.GenFuncsLoopTac proofs.GenFuncsBytesTac.
Import ListNotations.
Ltac Zify.zify_post_hook ::= Z.div_mod_to_equations.
Local Open Scope Z_scope.

Lemma nth_error_upd_same {A} (l : list A) i v : (i < length l)%nat -> nth_error (upd l i v) i = Some v.
Proof.
  intros H. unfold upd. rewrite nth_error_app2 by (rewrite firstn_length; lia).
  rewrite firstn_length. replace (i - Nat.min i (length l))%nat with 0%nat by lia. reflexivity.
Qed.
Lemma upd_upd {A} (l : list A) i v w : (i < length l)%nat -> upd (upd l i v) i w = upd l i w.
Proof.
  intros H. unfold upd at 1 3.
  assert (Hf : firstn i (upd l i v) = firstn i l).
  { unfold upd. rewrite firstn_app, firstn_firstn, firstn_length. replace (i - Nat.min i (length l))%nat with 0%nat by lia.
    cbn [firstn]. rewrite app_nil_r. f_equal. lia. }
  assert (Hs : skipn (Datatypes.S i) (upd l i v) = skipn (Datatypes.S i) l).
  { unfold upd. rewrite skipn_app, firstn_length. replace (Datatypes.S i - Nat.min i (length l))%nat with 1%nat by lia.
    rewrite skipn_all2 by (rewrite firstn_length; lia). reflexivity. }
  rewrite Hf, Hs. reflexivity.
Qed.

Section FillUp.
  Context {R : Type}.
  Variables (g : nat -> byte) (m L : nat).
  Variables (cond : Z * bytes -> M bool) (body : Z * bytes -> M (ctl (Z * bytes) R)) (post : Z * bytes -> M (Z * bytes)).
  Hypothesis HmL : (m <= L)%nat.
  Hypothesis Hcond : forall i buf, (i <= m)%nat -> length buf = L -> cond (Z.of_nat i, buf) = Val (Nat.ltb i m).
  Hypothesis Hbody : forall i buf, (i < m)%nat -> length buf = L -> body (Z.of_nat i, buf) = Val (Next (Z.of_nat i, upd buf i (g i))).
  Hypothesis Hpost : forall i buf, (i < m)%nat -> length buf = L -> post (Z.of_nat i, buf) = Val (Z.of_nat (Datatypes.S i), buf).
  (** [for i := k; i < m; i++ { buf[i] = g i }] *)
  Lemma go_for_fill_up : forall (fuel k : nat) (done rest : bytes),
    (k <= m)%nat -> length done = k -> length rest = (L - k)%nat -> (m - k <= fuel)%nat ->
    go_for fuel (Z.of_nat k, done ++ rest) cond body post =
    Val (Fall (Z.of_nat m, done ++ map g (seq k (m - k)) ++ skipn (m - k) rest)).
  Proof.
    induction fuel as [|f IH]; intros k done rest Hk Hd Hr Hf.
    - assert (k = m) as -> by lia. cbn [go_for]. rewrite Hcond by (rewrite ?app_length; lia). rewrite Nat.ltb_irrefl. cbn [bind negb].
      rewrite Nat.sub_diag. reflexivity.
    - cbn [go_for]. rewrite Hcond by (rewrite ?app_length; lia). cbn [bind].
      destruct (Nat.ltb k m) eqn:E.
      + apply Nat.ltb_lt in E. cbn [negb].
        destruct rest as [|y rest']; [cbn [length] in Hr; lia|].
        rewrite Hbody by (rewrite ?app_length; cbn [length] in *; lia). cbn [bind].
        rewrite <- Hd at 2. rewrite upd_at.
        rewrite Hpost by (rewrite ?app_length; cbn [length] in *; lia). cbn [bind].
        replace (done ++ g k :: rest') with ((done ++ [g k]) ++ rest') by (rewrite <- app_assoc; reflexivity).
        rewrite (IH (Datatypes.S k)) by (rewrite ?app_length; cbn [length] in *; lia).
        replace (m - k)%nat with (Datatypes.S (m - Datatypes.S k)) by lia.
        cbn [seq map skipn]. rewrite <- app_assoc. reflexivity.
      + apply Nat.ltb_ge in E. assert (k = m) as -> by lia. cbn [negb]. rewrite Nat.sub_diag. reflexivity.
  Qed.
End FillUp.

Section FillDown.
  Context {R : Type}.
  Variables (g : nat -> byte) (lo L : nat).
  Variables (cond : Z * bytes -> M bool) (body : Z * bytes -> M (ctl (Z * bytes) R)) (post : Z * bytes -> M (Z * bytes)).
  Hypothesis HloL : (lo <= L)%nat.
  Hypothesis Hcond : forall k buf, (lo <= k <= L)%nat -> length buf = L -> cond (Z.of_nat k - 1, buf) = Val (Nat.ltb lo k).
  Hypothesis Hbody : forall k buf, (lo < k <= L)%nat -> length buf = L ->
    body (Z.of_nat k - 1, buf) = Val (Next (Z.of_nat k - 1, upd buf (k - 1) (g (k - 1)%nat))).
  Hypothesis Hpost : forall k buf, (lo < k <= L)%nat -> length buf = L -> post (Z.of_nat k - 1, buf) = Val (Z.of_nat (k - 1) - 1, buf).
  (** [for i := k-1; i >= lo; i-- { buf[i] = g i }] *)
  Lemma go_for_fill_down : forall (fuel k : nat) (front done : bytes),
    (lo <= k <= L)%nat -> length front = k -> length done = (L - k)%nat -> (k - lo <= fuel)%nat ->
    go_for fuel (Z.of_nat k - 1, front ++ done) cond body post =
    Val (Fall (Z.of_nat lo - 1, firstn lo front ++ map g (seq lo (k - lo)) ++ done)).
  Proof.
    induction fuel as [|f IH]; intros k front done Hk Hfr Hd Hf.
    - assert (k = lo) as -> by lia. cbn [go_for]. rewrite Hcond by (rewrite ?app_length; lia). rewrite Nat.ltb_irrefl. cbn [bind negb].
      rewrite Nat.sub_diag. cbn [seq map app]. rewrite firstn_all2 by lia. reflexivity.
    - cbn [go_for]. rewrite Hcond by (rewrite ?app_length; lia). cbn [bind].
      destruct (Nat.ltb lo k) eqn:E.
      + apply Nat.ltb_lt in E. cbn [negb].
        destruct (exists_last (l := front)) as [front' [y Hy]]; [intros ->; cbn [length] in Hfr; lia|]. subst front.
        rewrite app_length in Hfr. cbn [length] in Hfr.
        rewrite Hbody by (rewrite ?app_length; cbn [length] in *; lia). cbn [bind].
        rewrite <- app_assoc. cbn [app].
        replace (k - 1)%nat with (length front') by lia. rewrite upd_at.
        replace (length front') with (k - 1)%nat by lia.
        rewrite Hpost by (rewrite ?app_length; cbn [length] in *; lia). cbn [bind].
        rewrite (IH (k - 1)%nat front' (g (k - 1)%nat :: done)) by (cbn [length]; lia).
        replace (k - lo)%nat with (Datatypes.S (k - 1 - lo)) by lia.
        rewrite seq_S, map_app. cbn [map]. rewrite <- !app_assoc. cbn [app].
        replace (lo + (k - 1 - lo))%nat with (k - 1)%nat by lia.
        rewrite firstn_app. replace (lo - length front')%nat with 0%nat by lia. cbn [firstn]. rewrite app_nil_r. reflexivity.
      + apply Nat.ltb_ge in E. assert (k = lo) as -> by lia. cbn [negb]. rewrite Nat.sub_diag. cbn [seq map app].
        rewrite firstn_all2 by lia. reflexivity.
  Qed.
End FillDown.

(** ** byte equations by a sweep over all pairs of bytes *)
Definition every_byte : bytes := map (fun k => n2b (N.of_nat k)) (seq 0 256).
Lemma every_byte_in (b : byte) : In b every_byte.
Proof.
  unfold every_byte. apply in_map_iff. exists (N.to_nat (b2n b)). split.
  - rewrite N2Nat.id. apply n2b_b2n.
  - apply in_seq. pose proof (b2n_lt b). lia.
Qed.
Definition byte_eqb (a b : byte) : bool := (b2n a =? b2n b)%N.
Lemma byte_eqb_true a b : byte_eqb a b = true -> a = b.
Proof. unfold byte_eqb. intros H. apply N.eqb_eq in H. rewrite <- (n2b_b2n a), <- (n2b_b2n b), H. reflexivity. Qed.
Lemma sweep_bytes2 (P : byte -> byte -> bool) :
  forallb (fun a => forallb (P a) every_byte) every_byte = true -> forall a b, P a b = true.
Proof.
  intros H a b. rewrite forallb_forall in H. specialize (H a (every_byte_in a)).
  rewrite forallb_forall in H. exact (H b (every_byte_in b)).
Qed.
Lemma sweep_bytes1 (P : byte -> bool) : forallb P every_byte = true -> forall a, P a = true.
Proof. intros H a. rewrite forallb_forall in H. exact (H a (every_byte_in a)). Qed.

(** close [L = R], an equation between bytes in which [a], [b] are the only variables *)
Ltac byte_sweep2 a b :=
  apply byte_eqb_true;
  match goal with |- ?E = true =>
    let P := eval pattern a, b in E in
    match P with ?F a b => apply (sweep_bytes2 F) end
  end; vm_compute; reflexivity.
Ltac byte_sweep1 a :=
  apply byte_eqb_true;
  match goal with |- ?E = true =>
    let P := eval pattern a in E in
    match P with ?F a => apply (sweep_bytes1 F) end
  end; vm_compute; reflexivity.

Lemma next_upd_eq {R} (z : Z) (buf : bytes) i (v w : byte) :
  v = w -> @Val (ctl (Z * bytes) R) (Next (z, upd buf i v)) = Val (Next (z, upd buf i w)).
Proof. intros ->. reflexivity. Qed.

Lemma nth_error_nth_some {A} (l : list A) i d : (i < length l)%nat -> nth_error l i = Some (nth i l d).
Proof. intros H. apply nth_error_nth'. exact H. Qed.
