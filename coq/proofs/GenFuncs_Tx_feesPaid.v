(** Tx.feesPaid (tx.go), as printed from the Go source, is [fees_paid] of model/Fees.v.  The FeeQuote is modelled as the
    two Fee pointers its map holds for FeeTypeStandard and FeeTypeData (FeeQuote.Fee reads the map under a lock: a TRUSTED
    mapping, lib/GoTx.go_quote_fee; a nil FeeQuote pointer, for which Fee returns ErrFeeQuoteNotInit, is outside).  The two
    products wrap in uint64 and the divisions by a zero Bytes field are Go's integer-divide panic -- [FPanic] in the
    model, [Panic] here.  The int fields of a FeeUnit are converted to uint64 by the code; the model's [rate] holds the
    converted values ([rate_of_go]). *)
From Coq Require Import List ZArith NArith Bool Lia ZifyN ZifyNat ZifyBool.
From Coq Require Import Strings.Byte.
From GoBT Require Import lib.Bytes lib.VarInt lib.GoSem lib.GoTx gen.Funcs proofs.GenFuncsTac proofs.GenFuncsTxTac model.Tx model.Fees spec.FeeSpec.
Import ListNotations.
Ltac Zify.zify_post_hook ::= Z.div_mod_to_equations.
Local Open Scope Z_scope.

Definition rate_of_go (f : go_Fee) : rate :=
  mkRate (Z.to_N (go_conv U64 (Fee_MiningFee_Satoshis f))) (Z.to_N (go_conv U64 (Fee_MiningFee_Bytes f))).
Definition quote_of_go (std data : option go_Fee) : quote := mkQuote (option_map rate_of_go std) (option_map rate_of_go data).
Definition size_of_go (s : go_TxSize) : txsize :=
  mkSize (Z.to_N (TxSize_TotalBytes s)) (Z.to_N (TxSize_TotalStdBytes s)) (Z.to_N (TxSize_TotalDataBytes s)).
Definition fees_to_go (f : txfees) : go_TxFees := mk_go_TxFees (Z.of_N (fee_total f)) (Z.of_N (fee_std f)) (Z.of_N (fee_data f)).
(** the pair of results: pointer to TxFees, error *)
Definition fees_result (o : outcome txfees) : M (option go_TxFees * bool) :=
  match o with
  | FOk f => Val (Some (fees_to_go f), false)
  | FErr _ => Val (None, true)
  | FPanic => Panic
  | FFatal => NoFuel          (* not an outcome of fees_paid *)
  end.
Definition go_size_ok (s : go_TxSize) : Prop := u64 (TxSize_TotalBytes s) /\ u64 (TxSize_TotalStdBytes s) /\ u64 (TxSize_TotalDataBytes s).

(** one fee: n * uint64(Satoshis) / uint64(Bytes) in uint64 *)
Lemma fee_one n (f : go_Fee) : u64 n ->
  go_div U64 (go_mul U64 n (go_conv U64 (Fee_MiningFee_Satoshis f))) (go_conv U64 (Fee_MiningFee_Bytes f)) =
  match fee_of (Z.to_N n) (rate_of_go f) with FOk v => Val (Z.of_N v) | _ => Panic end.
Proof.
  intros Hn. unfold fee_of, rate_of_go, go_div. cbn [r_sat r_bytes].
  set (s := go_conv U64 (Fee_MiningFee_Satoshis f)). set (b := go_conv U64 (Fee_MiningFee_Bytes f)).
  assert (Hs : 0 <= s < 18446744073709551616) by (unfold s, go_conv, go_wrap; lia).
  assert (Hb : 0 <= b < 18446744073709551616) by (unfold b, go_conv, go_wrap; lia).
  destruct (Z.eqb_spec b 0) as [E|E].
  - replace (Z.to_N b =? 0)%N with true by lia. reflexivity.
  - replace (Z.to_N b =? 0)%N with false by lia. apply Val_inj.
    unfold go_mul, go_wrap, two64, u64 in *.
    rewrite N2Z.inj_div, N2Z.inj_mod, N2Z.inj_mul, !Z2N.id by lia.
    change (Z.of_N 18446744073709551616) with 18446744073709551616.
    set (p := (n * s) mod 18446744073709551616).
    assert (Hp : 0 <= p < 18446744073709551616) by (unfold p; apply Z.mod_pos_bound; lia).
    clearbody p.
    rewrite Z.quot_div_nonneg by lia.
    assert (Hq : 0 <= p / b <= p) by (split; [apply Z.div_pos; lia | apply Z.div_le_upper_bound; nia]).
    rewrite Z.mod_small by lia. reflexivity.
Qed.

Lemma Tx_feesPaid_is_model (sz : go_TxSize) (std data : option go_Fee) : go_size_ok sz ->
  Tx_feesPaid (Some sz) std data = fees_result (fees_paid (size_of_go sz) (quote_of_go std data)).
Proof.
  intros (Ht & Hs & Hd). unfold Tx_feesPaid, go_quote_fee, fees_paid, quote_of_go, get_fee, size_of_go.
  cbn [q_std q_data sz_std sz_data].
  destruct std as [sf|]; cbn [go_isnil option_map obind fees_result]; [|reflexivity].
  destruct data as [df|]; cbn [go_isnil option_map obind fees_result]; [|reflexivity].
  cbn [bind go_field].
  repeat match goal with
  | |- context [bind (Val ?v) ?f] => change (bind (Val v) f) with (f v); cbv beta
  end.
  rewrite (fee_one _ sf Hs). destruct (fee_of (Z.to_N (TxSize_TotalStdBytes sz)) (rate_of_go sf)) as [s| | |] eqn:Es;
    cbn [bind obind fees_result]; try reflexivity.
  all: try (unfold fee_of in Es; destruct (_ =? 0)%N in Es; discriminate).
  rewrite (fee_one _ df Hd). destruct (fee_of (Z.to_N (TxSize_TotalDataBytes sz)) (rate_of_go df)) as [d| | |] eqn:Ed;
    cbn [bind obind fees_result go_field go_update]; try reflexivity.
  all: try (unfold fee_of in Ed; destruct (_ =? 0)%N in Ed; discriminate).
  cbn [TxFees_StdFeePaid TxFees_DataFeePaid]. apply Val_inj. f_equal. f_equal.
  unfold set_TxFees_TotalFeePaid, fees_to_go. cbn [TxFees_StdFeePaid TxFees_DataFeePaid fee_total fee_std fee_data]. f_equal.
  unfold add64, go_add, go_wrap, two64. lia.
Qed.
