(** Script.IsMultiSigOut (bscript/script.go), as printed from the Go source (it calls the PRINTED Script.IsData,
    DecodeParts and isSmallIntOp), is [is_multisig_out] of model/Classify.v (C14), panic outcome included.
    Hypothesis (Go's): the script has fewer than 2^63 bytes -- the loop bound [len(parts)-2] is computed in [int].
    The loop [for i := 1; i < len(parts)-2; i++] is compared with a pure step function ([go_for_pure]) that is the model's
    [middle_nonempty]; the rest is brought into the model's vocabulary and split in evaluation order ([parts_auto]). *)
From Coq Require Import List ZArith NArith Bool Lia ZifyN ZifyNat ZifyBool.
From Coq Require Import Strings.Byte.
From GoBT Require Import lib.Bytes lib.GoSem lib.GoTx gen.Funcs proofs.GenFuncsTac proofs.GenFuncsLoopTac proofs.GenFuncsScriptTac proofs.GenFuncsPartsTac
  proofs.GenFuncs_DecodeParts proofs.GenFuncs_Script_IsData proofs.GenFuncs_isSmallIntOp.
From GoBT Require lib.Checked model.Push model.Classify proofs.PushProofs.
Import ListNotations.
Ltac Zify.zify_post_hook ::= Z.div_mod_to_equations.
Local Open Scope Z_scope.

(** DecodeParts returns at most one part per byte *)
Lemma decode_parts_count : forall b parts, Push.decode_parts b = Push.DOk parts -> (length parts <= length b)%nat.
Proof.
  induction b as [b IH] using PushProofs.bytes_len_ind. intros parts H.
  destruct b as [|b0 r]; [injection H as <-; cbn; lia|].
  rewrite PushProofs.decode_parts_cons in H.
  destruct (Push.decode_step_clean (b0 :: r)) as [p rest| |] eqn:E; try discriminate.
  pose proof (PushProofs.decode_step_clean_shorter _ _ _ E) as Hs.
  destruct (Push.decode_parts rest) as [l|l| |] eqn:El; cbn [Push.dcons] in H; try discriminate.
  injection H as <-. specialize (IH rest Hs l El). cbn [length] in *. lia.
Qed.

Section Loop.
  Variable parts : list bytes.
  Let n : Z := Z.of_N (Checked.lenNg parts).
  Definition ms_cond (i : Z) : bool := i <? n - 2.
  Definition ms_body (i : Z) : ctl Z bool :=
    match Checked.idx parts (Z.to_N i) with
    | Some p => if (lenN p <? 1)%N then Return false else Next i
    | None => Return false                                  (* unreachable: i < len(parts) - 2 *)
    end.
  Definition ms_post (i : Z) : Z := i + 1.

  Lemma ms_loop_model : forall (k : nat) (i : Z) (fuel : nat), 1 <= i <= n - 2 -> Z.to_nat (n - 2 - i) = k -> (k <= fuel)%nat ->
    exists v : bool, Classify.middle_nonempty parts (Z.to_N i) k = Checked.Ok v /\
    for_pure ms_cond ms_body ms_post fuel i = if v then Fall (n - 2) else Returned false.
  Proof.
    induction k as [|k IH]; intros i fuel Hi Hk Hf.
    - assert (i = n - 2) by lia. subst i. exists true. split; [reflexivity|].
      destruct fuel; cbn [for_pure]; unfold ms_cond; replace (n - 2 <? n - 2) with false by lia; reflexivity.
    - destruct fuel as [|fuel]; [lia|]. cbn [for_pure Classify.middle_nonempty]. unfold ms_cond at 1.
      replace (i <? n - 2) with true by lia. cbn [negb]. unfold ms_body at 1, Classify.part_len, Checked.chk.
      destruct (Checked.idx parts (Z.to_N i)) as [p|] eqn:Ei.
      + cbn [Checked.obind]. destruct (lenN p <? 1)%N; [exists false; split; reflexivity|].
        change (ms_post i) with (i + 1). destruct (IH (i + 1) fuel) as [v [Hm Hl]]; try lia.
        exists v. replace (Z.to_N i + 1)%N with (Z.to_N (i + 1)) by lia. split; assumption.
      + apply idx_None_len in Ei. unfold n in *. lia.
  Qed.
End Loop.

Ltac extra_step ::=
  match goal with
  | |- context [DecodeParts ?t] => rewrite (DecodeParts_is_model t)
  | |- context [Classify.decoded ?t] => unfold Classify.decoded
  | |- context [of_dres _] => unfold of_dres
  | |- context [isSmallIntOp (Z.of_N (b2n ?a))] => rewrite (isSmallIntOp_is_model (b2n a) (b2n_lt a))
  | |- context [go_index ?l ?k] =>
      first [ rewrite (go_index_idx l k (Checked.lenNg l - 2)) by (unfold go_sub, go_wrap; rewrite ?go_len_lenNg; lia)
            | rewrite (go_index_idx l k (Checked.lenNg l - 1)) by (unfold go_sub, go_wrap; rewrite ?go_len_lenNg; lia) ]
  end.

Lemma Script_IsMultiSigOut_is_model (b : bytes) : (lenN b < 9223372036854775808)%N ->
  to_outcome (Script_IsMultiSigOut b) = Classify.is_multisig_out b.
Proof.
  intros Hb. unfold Script_IsMultiSigOut, Classify.is_multisig_out. cbv zeta.
  rewrite <- (Script_IsData_is_model b). destruct (Script_IsData b) as [d| |]; cbn [bind to_outcome Checked.obind]; try reflexivity.
  destruct d; [reflexivity|].
  rewrite DecodeParts_is_model. unfold Classify.decoded.
  destruct (Push.decode_parts b) as [parts|parts| |] eqn:Ed; cbn [of_dres bind to_outcome Checked.obind]; try reflexivity.
  pose proof (decode_parts_count b parts Ed) as Hn.
  assert (Hlen : (Checked.lenNg parts < 9223372036854775808)%N) by (unfold Checked.lenNg, lenN in *; lia).
  destruct (N.ltb_spec (Checked.lenNg parts) 3) as [E3|E3]; [rewrite go_len_lenNg; go_decide; reflexivity|].
  (* the loop *)
  match goal with |- context [go_for ?f ?s ?c ?bd ?p] =>
    rewrite (go_for_pure (fun i => 1 <= i <= Z.of_N (Checked.lenNg parts) - 2) (fun i => Z.to_nat (Z.of_N (Checked.lenNg parts) - 2 - i))
               c bd p (ms_cond parts) (ms_body parts) ms_post)
  end.
  - match goal with |- context [for_pure _ _ _ ?f ?i] =>
      destruct (ms_loop_model parts (N.to_nat (Checked.lenNg parts - 3)) i f) as [v [Hm Hl]];
        [lia| lia | unfold go_sub, go_wrap; rewrite ?go_len_lenNg; lia | rewrite Hl]
    end.
    change (Z.to_N 1) with 1%N in Hm. rewrite Hm. clear Hm Hl.
    rewrite go_len_lenNg. go_decide.
    parts_auto.
  - (* condition *) intros i Hi. unfold ms_cond. apply Val_inj. unfold go_sub, go_wrap. rewrite ?go_len_lenNg. lia.
  - (* body *) intros i Hi Hc. unfold ms_body, ms_cond in *.
    rewrite (go_index_idx parts i (Z.to_N i)) by lia.
    destruct (Checked.idx parts (Z.to_N i)) as [p|] eqn:Ei; cbn [bind].
    + rewrite go_len_lenN. replace (Z.of_N (lenN p) <? 1) with (lenN p <? 1)%N by lia. destruct (lenN p <? 1)%N; reflexivity.
    + apply idx_None_len in Ei. lia.
  - (* post *) intros i i' Hi Hc Hbd. unfold ms_body, ms_cond, ms_post in *.
    destruct (Checked.idx parts (Z.to_N i)) as [p|]; try discriminate. destruct (lenN p <? 1)%N; try discriminate.
    injection Hbd as <-. split; [|split; lia]. cbv zeta. apply Val_inj. unfold go_add, go_wrap. lia.
  - intros i Hi Hm. unfold ms_cond. lia.
  - lia.
  - unfold go_sub, go_wrap. rewrite ?go_len_lenNg. lia.
Qed.
