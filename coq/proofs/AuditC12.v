(** Audit C additions for C12 (Fund): the forward (predictive) specification of the funding loop. *)
From Coq Require Import List NArith ZArith Lia Bool.
From Coq Require Import Strings.Byte.
From GoBT Require Import lib.Bytes lib.VarInt model.Tx gen.Consts spec.FeeSpec model.Fees model.Fund
  proofs.FeesProofs proofs.FundProofs.
Import ListNotations.
Local Open Scope N_scope.

(* C12-P1: predictive (forward) specification of the loop: the first index k at which the deficit of the
   intermediate transaction is zero, or the supplier stops answering with valid batches, decides everything *)
Definition valid_batch_at (hist : list response) (j : nat) : Prop :=
  exists us, nth_error hist j = Some (Batch us) /\ Forall valid_utxo us.

Lemma fund_loop_forward q : forall hist t d k,
  estimate_deficit t q = FOk d ->
  (forall j, (j < k)%nat -> valid_batch_at hist j /\
     exists dj, estimate_deficit (inter t hist j) q = FOk dj /\ 0 < dj) ->
  forall dk, estimate_deficit (inter t hist k) q = FOk dk ->
  let r := fund_loop q hist t d in
  (dk = 0 -> f_res r = FOk tt /\ f_consumed r = k /\ f_tx r = inter t hist k) /\
  (0 < dk -> (nth_error hist k = Some NoUTXO \/ nth_error hist k = None) ->
     f_res r = FErr ErrInsufficientFunds /\ f_consumed r = S k /\ f_tx r = inter t hist k) /\
  (0 < dk -> nth_error hist k = Some OtherErr ->
     f_res r = FErr ErrSupplier /\ f_consumed r = S k /\ f_tx r = inter t hist k).
Proof.
  induction hist as [|resp rest IH]; intros t d k Hd Hpre dk Hk; cbv zeta.
  - (* empty history *)
    destruct k as [|k].
    + rewrite inter_0 in Hk. rewrite Hd in Hk. injection Hk as ->. cbn [fund_loop].
      destruct (N.eqb_spec dk 0) as [->|Dn]; cbn [f_res f_consumed f_tx]; rewrite ?inter_0.
      * repeat split; intros; try lia; discriminate.
      * split; [intros; lia|]. split; [intros; repeat split|]. intros _ X. discriminate.
    + destruct (Hpre 0%nat ltac:(lia)) as [(us & X & _) _]. discriminate.
  - destruct k as [|k].
    + rewrite inter_0 in Hk. rewrite Hd in Hk. injection Hk as ->. cbn [fund_loop].
      destruct (N.eqb_spec dk 0) as [->|Dn]; cbn [f_res f_consumed f_tx]; rewrite ?inter_0.
      * repeat split; intros; try lia; discriminate.
      * split; [intros; lia|]. cbn [nth_error].
        destruct resp as [us| |]; (split; [intros _ [X|X]; try discriminate; repeat split|intros _ X; try discriminate; repeat split]).
    + destruct (Hpre 0%nat ltac:(lia)) as [(us & X & Vu) (d0 & E0 & P0)]. cbn [nth_error] in X. injection X as ->.
      rewrite inter_0, Hd in E0. injection E0 as <-. cbn [fund_loop].
      destruct (N.eqb_spec d 0) as [->|Dn]; [lia|].
      destruct (from_utxos_spec t us) as [[_ ->]|(pre & u & post & -> & _ & Nv & _)].
      2:{ exfalso. apply Nv. rewrite Forall_forall in Vu. apply Vu. apply in_or_app. right. left. reflexivity. }
      rewrite inter_S in Hk.
      destruct (estimate_deficit (add_all t us) q) as [d1| | |] eqn:E1.
      2-4: exfalso; destruct k as [|k];
           [rewrite inter_0 in Hk; congruence
           |destruct (Hpre 1%nat ltac:(lia)) as [_ (d1 & X & _)]; rewrite inter_S, inter_0 in X; congruence].
      assert (Hpre' : forall j, (j < k)%nat -> valid_batch_at rest j /\
                 exists dj, estimate_deficit (inter (add_all t us) rest j) q = FOk dj /\ 0 < dj).
      { intros j Hj. destruct (Hpre (S j) ltac:(lia)) as [(us' & X & V') (dj & Ej & Pj)].
        split; [exists us'; split; [exact X|exact V']|]. exists dj. rewrite <- inter_S. split; assumption. }
      specialize (IH (add_all t us) d1 k E1 Hpre' dk Hk). cbv zeta in IH.
      destruct IH as (I1 & I2 & I3). cbn [f_res f_consumed f_tx nth_error]. rewrite inter_S.
      split; [intros Z; destruct (I1 Z) as (? & ? & ?); repeat split; congruence|].
      split; [intros Z Y; destruct (I2 Z Y) as (? & ? & ?); repeat split; congruence|].
      intros Z Y; destruct (I3 Z Y) as (? & ? & ?); repeat split; congruence.
Qed.

(** the same for Tx.Fund itself *)
Theorem fund_forward q hist t d k :
  estimate_deficit t q = FOk d ->
  (forall j, (j < k)%nat -> valid_batch_at hist j /\
     exists dj, estimate_deficit (inter t hist j) q = FOk dj /\ 0 < dj) ->
  forall dk, estimate_deficit (inter t hist k) q = FOk dk ->
  let r := fund t q hist in
  (dk = 0 -> f_res r = FOk tt /\ f_consumed r = k /\ f_tx r = inter t hist k) /\
  (0 < dk -> (nth_error hist k = Some NoUTXO \/ nth_error hist k = None) ->
     f_res r = FErr ErrInsufficientFunds /\ f_consumed r = S k /\ f_tx r = inter t hist k) /\
  (0 < dk -> nth_error hist k = Some OtherErr ->
     f_res r = FErr ErrSupplier /\ f_consumed r = S k /\ f_tx r = inter t hist k).
Proof.
  intros Hd Hpre dk Hk. cbv zeta. unfold fund. rewrite Hd.
  exact (fund_loop_forward q hist t d k Hd Hpre dk Hk).
Qed.

(** FromUTXOs stops at the first txid that is not 32 bytes long, keeping what it had appended *)
Lemma from_utxos_invalid : forall pre t u post, Forall valid_utxo pre -> ~ valid_utxo u ->
  from_utxos t (pre ++ u :: post) = (FErr ErrInvalidTxID, add_all t pre).
Proof.
  induction pre as [|a pre IH]; intros t u post Hp Hu; cbn [app from_utxos].
  - unfold valid_utxo in Hu. unfold valid_txid. destruct (Nat.eqb_spec (length (u_txid u)) 32); [contradiction|].
    rewrite add_all_nil. reflexivity.
  - inversion Hp as [|? ? Ha Hp']; subst. unfold valid_utxo in Ha. unfold valid_txid at 1.
    destruct (Nat.eqb_spec (length (u_txid a)) 32); [|contradiction].
    rewrite (IH _ u post Hp' Hu). rewrite add_input_add_all, add_all_app. reflexivity.
Qed.

(** walking over a prefix of valid batches that each leave a positive deficit *)
Lemma fund_loop_skip q : forall hist t d k, estimate_deficit t q = FOk d ->
  (forall j, (j < k)%nat -> valid_batch_at hist j /\
     exists dj, estimate_deficit (inter t hist j) q = FOk dj /\ 0 < dj) ->
  forall dk, estimate_deficit (inter t hist k) q = FOk dk ->
  let r := fund_loop q hist t d in
  let r' := fund_loop q (skipn k hist) (inter t hist k) dk in
  f_res r = f_res r' /\ f_consumed r = (k + f_consumed r')%nat /\ f_tx r = f_tx r' /\
  f_calls r = map (fun j => match estimate_deficit (inter t hist j) q with FOk x => x | _ => 0 end) (seq 0 k) ++ f_calls r'.
Proof.
  induction hist as [|resp rest IH]; intros t d k Hd Hpre dk Hk; cbv zeta.
  - destruct k as [|k].
    + rewrite inter_0 in Hk |- *. rewrite Hd in Hk. injection Hk as ->. cbn [skipn seq map app]. auto.
    + destruct (Hpre 0%nat ltac:(lia)) as [(us & X & _) _]. discriminate.
  - destruct k as [|k].
    + rewrite inter_0 in Hk |- *. rewrite Hd in Hk. injection Hk as ->. cbn [skipn seq map app]. auto.
    + destruct (Hpre 0%nat ltac:(lia)) as [(us & X & Vu) (d0 & E0 & P0)]. cbn [nth_error] in X. injection X as ->.
      rewrite inter_0, Hd in E0. injection E0 as <-. cbn [fund_loop skipn].
      destruct (N.eqb_spec d 0) as [->|Dn]; [lia|].
      destruct (from_utxos_spec t us) as [[_ ->]|(pre & u & post & -> & _ & Nv & _)].
      2:{ exfalso. apply Nv. rewrite Forall_forall in Vu. apply Vu. apply in_or_app. right. left. reflexivity. }
      rewrite inter_S in Hk |- *.
      destruct (estimate_deficit (add_all t us) q) as [d1| | |] eqn:E1.
      2-4: exfalso; destruct k as [|k];
           [rewrite inter_0 in Hk; congruence
           |destruct (Hpre 1%nat ltac:(lia)) as [_ (d1 & X & _)]; rewrite inter_S, inter_0 in X; congruence].
      assert (Hpre' : forall j, (j < k)%nat -> valid_batch_at rest j /\
                 exists dj, estimate_deficit (inter (add_all t us) rest j) q = FOk dj /\ 0 < dj).
      { intros j Hj. destruct (Hpre (S j) ltac:(lia)) as [(us' & X & V') (dj & Ej & Pj)].
        split; [exists us'; split; [exact X|exact V']|]. exists dj. rewrite <- inter_S. split; assumption. }
      specialize (IH (add_all t us) d1 k E1 Hpre' dk Hk). cbv zeta in IH.
      destruct IH as (I1 & I2 & I3 & I4). cbn [f_res f_consumed f_tx f_calls].
      split; [exact I1|]. split; [rewrite I2; reflexivity|]. split; [exact I3|].
      rewrite I4. cbn [seq map app]. rewrite inter_0, Hd. f_equal.
      rewrite <- seq_shift, map_map. f_equal. apply map_ext. intros j. rewrite inter_S. reflexivity.
Qed.

Lemma skipn_nth {A} : forall (l : list A) k x, nth_error l k = Some x -> skipn k l = x :: skipn (S k) l.
Proof.
  induction l as [|a l IH]; intros [|k] x H; try discriminate.
  - injection H as ->. reflexivity.
  - cbn [nth_error] in H. cbn [skipn]. rewrite (IH k x H). reflexivity.
Qed.

(** the fourth way a run can end: a batch with a txid that is not 32 bytes long *)
Theorem fund_forward_invalid_txid q hist t d k pre u post :
  estimate_deficit t q = FOk d ->
  (forall j, (j < k)%nat -> valid_batch_at hist j /\
     exists dj, estimate_deficit (inter t hist j) q = FOk dj /\ 0 < dj) ->
  forall dk, estimate_deficit (inter t hist k) q = FOk dk -> 0 < dk ->
  nth_error hist k = Some (Batch (pre ++ u :: post)) -> Forall valid_utxo pre -> ~ valid_utxo u ->
  let r := fund t q hist in
  f_res r = FErr ErrInvalidTxID /\ f_consumed r = S k /\ f_tx r = add_all (inter t hist k) pre.
Proof.
  intros Hd Hpre dk Hk Pk Hn Vp Nu. cbv zeta. unfold fund. rewrite Hd.
  destruct (fund_loop_skip q hist t d k Hd Hpre dk Hk) as (R1 & R2 & R3 & _). cbv zeta in R1, R2, R3.
  rewrite R1, R2, R3. rewrite (skipn_nth _ _ _ Hn). cbn [fund_loop].
  destruct (N.eqb_spec dk 0) as [->|_]; [lia|].
  rewrite (from_utxos_invalid pre _ u post Vp Nu). cbn [f_res f_consumed f_tx]. repeat split. lia.
Qed.

(** * Fund never aborts or panics on well-formed data with positive byte denominators *)
Definition quote_pos (q : quote) : Prop :=
  (forall f, q_std q = Some f -> r_bytes f <> 0) /\ (forall f, q_data q = Some f -> r_bytes f <> 0).

Lemma estimate_deficit_no_crash t q : wf_tx t -> ~ ambiguous t -> quote_pos q ->
  estimate_deficit t q <> FFatal /\ estimate_deficit t q <> FPanic.
Proof.
  intros W A [Qs Qd]. destruct (estimate_errors t W A) as (_ & _ & NF & NP).
  unfold estimate_deficit, estimate_fees_paid, estimate_size_with_types.
  destruct (estimated_final_tx t) as [te| | |]; cbn [obind]; try (split; discriminate); try contradiction.
  unfold fees_paid, get_fee, fee_of.
  destruct (q_std q) as [sf|]; cbn [obind]; [|split; discriminate].
  destruct (q_data q) as [df|]; cbn [obind]; [|split; discriminate].
  destruct (N.eqb_spec (r_bytes sf) 0) as [E|_]; [exfalso; exact (Qs sf eq_refl E)|]. cbn [obind].
  destruct (N.eqb_spec (r_bytes df) 0) as [E|_]; [exfalso; exact (Qd df eq_refl E)|]. cbn [obind].
  destruct (_ <? _); split; discriminate.
Qed.

Lemma from_utxos_no_crash : forall us t, fst (from_utxos t us) <> FFatal /\ fst (from_utxos t us) <> FPanic.
Proof.
  induction us as [|u us IH]; intros t; cbn [from_utxos]; [split; discriminate|].
  destruct (valid_txid (u_txid u)); [apply IH|split; discriminate].
Qed.

Lemma fund_loop_no_crash q : quote_pos q -> forall hist t d, wf_tx t -> ~ ambiguous t ->
  forallb wf_responseb hist = true ->
  N.of_nat (length (tx_ins t) + length (concat (map batch_utxos hist))) < two64 ->
  f_res (fund_loop q hist t d) <> FFatal /\ f_res (fund_loop q hist t d) <> FPanic.
Proof.
  intros Q. induction hist as [|resp rest IH]; intros t d W A Wh Hn; cbn [fund_loop].
  - destruct (d =? 0); split; discriminate.
  - destruct (d =? 0); [split; discriminate|].
    cbn [forallb] in Wh. apply andb_prop in Wh as [Wr Wrest].
    destruct resp as [us| |]; try (split; discriminate).
    cbn [map concat batch_utxos] in Hn. rewrite app_length in Hn.
    destruct (from_utxos_spec t us) as [[Vu ->]|(pre & u & post & _ & _ & _ & ->)]; [|split; discriminate].
    cbn [wf_responseb] in Wr.
    destruct (wf_add_all t us W A Vu Wr ltac:(lia)) as [W1 A1].
    destruct (estimate_deficit_no_crash (add_all t us) q W1 A1 Q) as [N1 N2].
    destruct (estimate_deficit (add_all t us) q) as [d'|e| |]; try contradiction; [|split; discriminate].
    cbn [f_res]. apply IH; try assumption.
    unfold add_all. cbn [tx_ins]. rewrite app_length, map_length. lia.
Qed.

Theorem fund_no_crash t q hist : quote_pos q -> wf_tx t -> ~ ambiguous t ->
  forallb wf_responseb hist = true ->
  N.of_nat (length (tx_ins t) + length (concat (map batch_utxos hist))) < two64 ->
  f_res (fund t q hist) <> FFatal /\ f_res (fund t q hist) <> FPanic.
Proof.
  intros Q W A Wh Hn. unfold fund.
  destruct (estimate_deficit_no_crash t q W A Q) as [N1 N2].
  destruct (estimate_deficit t q) as [d|e| |]; try contradiction; [|split; discriminate].
  apply fund_loop_no_crash; assumption.
Qed.
