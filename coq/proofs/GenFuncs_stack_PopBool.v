(** stack.PopBool (bscript/interpreter/stack.go), as printed from the Go source: removes the top item and converts it with asBool (the printed asBool; it is [ScriptNum.as_bool] by proofs/GenFuncs_asBool.v).
    The Go stack is [rev d], [d] being the stack of model/Interp.v (top first). *)
From Coq Require Import List ZArith NArith Bool Lia ZifyN ZifyNat ZifyBool.
From Coq Require Import Strings.Byte.
From GoBT Require Import lib.Bytes lib.GoSem lib.GoInterp gen.Funcs proofs.GenFuncsTac proofs.GenFuncsInterpTac proofs.GenFuncs_stack_PopByteArray.
From GoBT Require model.Interp model.ScriptNum.
Import ListNotations.
Ltac Zify.zify_post_hook ::= Z.div_mod_to_equations.
Local Open Scope Z_scope.

Lemma stack_PopBool_spec (d : list bytes) : Interp.lenZ d < 2147483648 ->
  stack_PopBool (rev d) =
  match d with [] => Val (rev [], (false, true)) | x :: r => bind (asBool x) (fun b => Val (rev r, (b, false))) end.
Proof.
  intros Hd. unfold stack_PopBool. rewrite stack_PopByteArray_spec by exact Hd.
  destruct d as [|x r]; [reflexivity|]. stk_beta.
  destruct (asBool x); reflexivity.
Qed.

#[global] Hint Rewrite stack_PopBool_spec using stk_small : stk.
