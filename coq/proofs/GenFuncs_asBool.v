(** asBool (bscript/interpreter/stack.go), as printed from the Go source, is [as_bool] of model/ScriptNum.v.
    The hypothesis is Go's: a slice has fewer than 2^63 elements (the function computes [len(t)-1] in [int]). *)
From Coq Require Import List ZArith NArith Bool Lia ZifyN ZifyNat ZifyBool.
From Coq Require Import Strings.Byte.
From GoBT Require Import lib.Bytes lib.GoSem gen.Funcs proofs.GenFuncsTac proofs.GenFuncsLoopTac.
From GoBT Require model.ScriptNum.
Import ListNotations.
Ltac Zify.zify_post_hook ::= Z.div_mod_to_equations.
Local Open Scope Z_scope.

(** one iteration, in the shape of the model: skip a zero byte; a non-zero byte decides, and it is "false"
    only when it is 0x80 in the last position *)
Definition asBool_step (n : nat) (i : nat) (x : byte) (_ : unit) : ctl unit bool :=
  if (b2n x =? 0)%N then Next tt
  else Return (negb ((Nat.eqb (Datatypes.S i) n) && (b2n x =? 128)%N)).

Lemma asBool_step_model (n : nat) : forall (suf : bytes) (k : nat), (k + length suf = n)%nat ->
  range_pure (asBool_step n) suf k tt = Returned (ScriptNum.as_bool suf) \/
  (range_pure (asBool_step n) suf k tt = Fall tt /\ ScriptNum.as_bool suf = false).
Proof.
  induction suf as [|b r IH]; intros k Hk; [right; split; reflexivity|].
  cbn [range_pure ScriptNum.as_bool].
  assert (Hs : asBool_step n k b tt = if (b2n b =? 0)%N then Next tt
                                      else Return (negb ((Nat.eqb (Datatypes.S k) n) && (b2n b =? 128)%N))) by reflexivity.
  rewrite !Hs. clear Hs. destruct (b2n b =? 0)%N eqn:E0.
  - apply IH. cbn [length] in Hk. lia.
  - left. f_equal. destruct r as [|c r'].
    + cbn [length] in Hk. replace (Nat.eqb (Datatypes.S k) n) with true by (symmetry; apply Nat.eqb_eq; lia). reflexivity.
    + cbn [length] in Hk. replace (Nat.eqb (Datatypes.S k) n) with false by (symmetry; apply Nat.eqb_neq; lia). reflexivity.
Qed.

Lemma asBool_is_model (t : bytes) : (lenN t < 9223372036854775808)%N ->
  asBool t = Val (ScriptNum.as_bool t).
Proof.
  intros Hl. unfold asBool.
  rewrite (go_range_pure (asBool_step (length t))).
  - cbn [bind]. destruct (asBool_step_model (length t) t 0%nat eq_refl) as [H|[H H2]]; rewrite H; [reflexivity|].
    rewrite H2. reflexivity.
  - intros i x s Hi. destruct s.
    assert (Hlt : (i < length t)%nat) by (apply nth_error_Some; congruence).
    unfold go_andthen. rewrite ?go_index_b_nth, ?go_index_nth, ?Hi. unfold asBool_step, go_len, lenN in *.
    go_cases; go_close.
Qed.
