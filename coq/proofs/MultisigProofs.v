(** The m-of-n matching loop of OP_CHECKMULTISIG (model/CheckSig.v, [ms_loop]) decides the monotone
    matching of spec/MultisigSpec.v.  Three layers:
      [ms_loop] (indices, counters, memo list, fuel — as coded)
        = [ms_struct] (structural recursion over the remaining keys)            — the loop invariant
        = [greedy] (a first-fit boolean function) when no hard error can arise
        <-> [monotone_matching]                                                   — exchange argument. *)
From Coq Require Import List NArith ZArith Lia Bool ZifyN ZifyNat ZifyBool.
From Coq Require Import Strings.Byte.
From GoBT Require Import lib.Bytes model.Tx model.SigHash model.ScriptNum model.Interp model.CheckSig
  spec.MultisigSpec proofs.CheckSigProofs.
Import ListNotations.

(** ** facts about the specification *)
Section MM.
Context {S K : Type}.
Variable ok : S -> K -> Prop.
Notation mm := (monotone_matching ok).

Lemma mm_weaken ss k ks : mm ss ks -> mm ss (k :: ks).
Proof. intros H. destruct ss; [constructor|apply mm_skip; exact H]. Qed.

Lemma mm_drop_sig s ss ks : mm (s :: ss) ks -> mm ss ks.
Proof.
  intros H. remember (s :: ss) as l eqn:El. revert s ss El.
  induction H as [ks|s0 ss0 k ks Hok H IH|s0 ss0 k ks H IH]; intros s ss El; inversion El; subst.
  - apply mm_weaken. exact H.
  - apply mm_weaken. eapply IH. reflexivity.
Qed.

Lemma mm_length ss ks : mm ss ks -> length ss <= length ks.
Proof. induction 1; cbn in *; lia. Qed.

(** exchange: if the first signature verifies under the first key, taking it loses nothing *)
Lemma mm_exchange s ss k ks : mm (s :: ss) (k :: ks) -> mm ss ks.
Proof.
  intros H. inversion H; subst; [assumption|]. eapply mm_drop_sig. eassumption.
Qed.

Lemma mm_weaken_left ss ks0 ks : mm ss ks -> mm ss (ks0 ++ ks).
Proof. intros H. induction ks0; cbn; [exact H|apply mm_weaken; exact IHks0]. Qed.

Lemma mm_app a ka b kb : mm a ka -> mm b kb -> mm (a ++ b) (ka ++ kb).
Proof.
  intros Ha Hb. induction Ha; cbn.
  - apply mm_weaken_left. exact Hb.
  - apply mm_take; assumption.
  - apply mm_skip. exact IHHa.
Qed.

Lemma mm_rev_1 ss ks : mm ss ks -> mm (rev ss) (rev ks).
Proof.
  induction 1 as [ks|s ss k ks Hok H IH|s ss k ks H IH].
  - constructor.
  - cbn [rev]. apply mm_app; [exact IH|]. apply mm_take; [exact Hok|constructor].
  - cbn [rev] in *. rewrite <- (app_nil_r (rev ss ++ [s])). apply mm_app; [exact IH|constructor].
Qed.

(** matching in pop order (top of stack first) is matching in script order *)
Lemma mm_rev ss ks : mm (rev ss) (rev ks) <-> mm ss ks.
Proof.
  split; [|apply mm_rev_1]. intros H. apply mm_rev_1 in H. rewrite !rev_involutive in H. exact H.
Qed.

(** the explicit strictly-increasing index map *)
Lemma increasing_from_weaken lo lo' f : lo' <= lo -> increasing_from lo f -> increasing_from lo' f.
Proof. destruct f; cbn; [auto|]. intros Hl [H1 H2]. split; [lia|exact H2]. Qed.

Lemma increasing_shift lo f : increasing_from lo f -> increasing_from (Datatypes.S lo) (map Datatypes.S f).
Proof.
  revert lo. induction f as [|j f IH]; intros lo; cbn; [auto|]. intros [H1 H2]. split; [lia|]. apply IH. exact H2.
Qed.

Lemma mm_to_map ss ks : mm ss ks -> increasing_map ok ss ks.
Proof.
  induction 1 as [ks|s ss k ks Hok H (f & Hinc & Hf)|s ss k ks H (f & Hinc & Hf)].
  - exists []. split; [exact I|constructor].
  - exists (0 :: map Datatypes.S f). split.
    + cbn. split; [lia|]. apply (increasing_shift 0). exact Hinc.
    + constructor; [exists k; split; [reflexivity|exact Hok]|].
      clear -Hf. induction Hf; cbn; constructor; auto.
  - exists (map Datatypes.S f). split.
    + apply (increasing_from_weaken 1 0); [lia|]. apply (increasing_shift 0). exact Hinc.
    + clear -Hf. induction Hf; cbn; constructor; auto.
Qed.

Lemma increasing_lower f : forall lo, increasing_from lo f -> Forall (fun j => lo <= j) f.
Proof.
  induction f as [|j f IH]; intros lo H; constructor; cbn in H; destruct H as [H1 H2]; [exact H1|].
  specialize (IH _ H2). rewrite Forall_forall in *. intros y Hy. specialize (IH y Hy). lia.
Qed.

Lemma increasing_pred f : forall lo, increasing_from (Datatypes.S lo) f -> increasing_from lo (map pred f).
Proof.
  induction f as [|j f IH]; intros lo H; cbn in *; [exact I|]. destruct H as [H1 H2]. split; [lia|].
  replace (Datatypes.S (pred j)) with j by lia. apply IH. exact H2.
Qed.

Lemma map_unshift k0 ks ss f : Forall (fun j => 1 <= j) f ->
  Forall2 (fun s j => exists k, nth_error (k0 :: ks) j = Some k /\ ok s k) ss f ->
  Forall2 (fun s j => exists k, nth_error ks j = Some k /\ ok s k) ss (map pred f).
Proof.
  intros Hall Hf. induction Hf as [|s j ss f (k & Hn & Hok) Hrest IH]; cbn; constructor.
  - inversion Hall; subst. destruct j; [lia|]. cbn in *. eauto.
  - apply IH. inversion Hall; assumption.
Qed.

Lemma map_to_mm ks : forall ss f, increasing_from 0 f ->
  Forall2 (fun s j => exists k, nth_error ks j = Some k /\ ok s k) ss f -> mm ss ks.
Proof.
  induction ks as [|k0 ks IH]; intros ss f Hinc Hf.
  - destruct Hf as [|s j ss f (k & Hn & _) _]; [constructor|]. destruct j; discriminate.
  - destruct Hf as [|s j ss f (k & Hn & Hok) Hrest]; [constructor|].
    cbn in Hinc. destruct Hinc as [_ Hinc].
    destruct j as [|d].
    + cbn in Hn. inversion Hn; subst k. apply mm_take; [exact Hok|].
      apply (IH ss (map pred f)); [apply increasing_pred; exact Hinc|].
      apply (map_unshift k0); [apply (increasing_lower f 1 Hinc)|exact Hrest].
    + apply mm_skip. apply (IH (s :: ss) (map pred (Datatypes.S d :: f))).
      * apply increasing_pred. cbn. split; [lia|exact Hinc].
      * apply (map_unshift k0).
        -- constructor; [lia|]. pose proof (increasing_lower f _ Hinc) as Hl.
           rewrite Forall_forall in *. intros y Hy. specialize (Hl y Hy). lia.
        -- constructor; [exists k; split; assumption|exact Hrest].
Qed.

(** the inductive definition says exactly: a strictly increasing map from signatures to keys under
    which every signature verifies *)
Theorem mm_iff_increasing_map ss ks : mm ss ks <-> increasing_map ok ss ks.
Proof.
  split; [apply mm_to_map|]. intros (f & Hinc & Hf). eapply map_to_mm; eassumption.
Qed.
End MM.

(** ** first-fit decides the matching (for a decidable verification relation) *)
Section Greedy.
Context {S K : Type}.
Variable okb : S -> K -> bool.
Notation mm := (monotone_matching (fun s k => okb s k = true)).

Fixpoint greedy (keys : list K) (sigs : list S) : bool :=
  match sigs with
  | [] => true
  | s :: ss =>
      match keys with
      | [] => false
      | k :: ks =>
          if Nat.ltb (length keys) (length sigs) then false
          else if okb s k then greedy ks ss else greedy ks sigs
      end
  end.

Theorem greedy_spec keys : forall sigs, greedy keys sigs = true <-> mm sigs keys.
Proof.
  induction keys as [|k ks IH]; intros [|s ss]; cbn [greedy].
  - split; [constructor|reflexivity].
  - split; [discriminate|]. intros H. apply mm_length in H. cbn in H. lia.
  - split; [constructor|reflexivity].
  - destruct (Nat.ltb_spec (length (k :: ks)) (length (s :: ss))) as [Hlt|Hge].
    + split; [discriminate|]. intros H. apply mm_length in H. lia.
    + destruct (okb s k) eqn:Eok.
      * rewrite IH. split; [intros H; apply mm_take; assumption|apply mm_exchange].
      * rewrite IH. split; [apply mm_skip|]. intros H. inversion H; subst; [congruence|assumption].
Qed.
End Greedy.

(** ** the loop with structural recursion over the remaining keys *)
Section Struct.
Variable orc : sig_oracle.
Variable t : tx.
Variable in_idx : N.
Variable c : ctx.
Variable script : list pop.

(** [parsed] is the memo of the CURRENT signature (the head of [sigs]) *)
Fixpoint ms_struct (keys : list bytes) (parsed : option bool) (sigs : list bytes) : loop_res :=
  match sigs with
  | [] => LDone true
  | rawSig :: srest =>
      match keys with
      | [] => LDone false
      | pubKey :: krest =>
          if Nat.ltb (length keys) (length sigs) then LDone false else
          match split_last rawSig with
          | None => if negb (check_pubkey_enc c pubKey) then LErr else ms_struct krest parsed sigs
          | Some (sig, hb) =>
              let shf := b2n hb in
              let der := uses_der_parser c in
              let with_parsed (p' : option bool) : loop_res :=
                if negb (orc_parse_pub orc pubKey) then ms_struct krest p' sigs else
                match unparse (sig_code_ops c script (b2n hb)) with
                | None => LPushFalse
                | Some up =>
                    match sighash_for t in_idx up shf with
                    | SOk h =>
                        match orc_verify orc pubKey h sig der with
                        | None => LMiss
                        | Some true => ms_struct krest None srest
                        | Some false => ms_struct krest p' sigs
                        end
                    | SigHash.SErr _ => LPushFalse
                    | SigHash.SPanic | SFatal | SFuel => LPanic
                    end
                end in
              match (match parsed with
                     | None => if negb (check_hash_type c shf) then EncErr else check_sig_enc c sig
                     | Some _ => EncOk
                     end) with
              | EncErr => LErr
              | EncPanic => LPanic
              | EncOk =>
                  if negb (check_pubkey_enc c pubKey) then LErr else
                  match parsed with
                  | None =>
                      let ok := orc_parse_sig orc der sig in
                      if ok then with_parsed (Some ok) else ms_struct krest (Some ok) sigs
                  | Some false => ms_struct krest parsed sigs
                  | Some true => with_parsed parsed
                  end
              end
          end
      end
  end.

(** list facts for the invariant *)
Lemma skipn_cons_nth {A} (l : list A) : forall n x r, skipn n l = x :: r -> nth_error l n = Some x /\ skipn (Datatypes.S n) l = r.
Proof.
  induction l as [|y l IH]; intros n x r H; [destruct n; discriminate|].
  destruct n; cbn in *; [inversion H; auto|]. apply IH. exact H.
Qed.

Lemma nthZ_nat {A} (l : list A) n : nthZ l (Z.of_nat n) = nth_error l n.
Proof.
  unfold nthZ, lenZ. rewrite Nat2Z.id.
  destruct (Z.ltb_spec (Z.of_nat n) 0); [lia|]. cbn [orb].
  destruct (Z.leb_spec (Z.of_nat (length l)) (Z.of_nat n)); [|reflexivity].
  symmetry. apply nth_error_None. lia.
Qed.

Lemma upd_length {A} (l : list A) : forall i x, length (upd l i x) = length l.
Proof. induction l; intros [|i] x; cbn; auto. Qed.
Lemma upd_nth_same {A} (l : list A) : forall i x, (i < length l)%nat -> nth_error (upd l i x) i = Some x.
Proof. induction l; intros [|i] x H; cbn in *; try lia; auto. apply IHl. lia. Qed.
Lemma upd_nth_other {A} (l : list A) : forall i j x, i <> j -> nth_error (upd l i x) j = nth_error l j.
Proof. induction l; intros [|i] [|j] x H; cbn; auto; try congruence. Qed.

Variable pks sigs : list bytes.

(** the loop invariant: [ks] = keys not yet examined, [si] = signatureIdx, memo entries above [si] untouched *)
Lemma ms_loop_struct : forall ks p1 si ml fuel,
  skipn p1 pks = ks -> (si <= length sigs)%nat -> length ml = length sigs ->
  (forall j, (si < j)%nat -> (j < length sigs)%nat -> nth_error ml j = Some None) ->
  (length ks < fuel)%nat ->
  ms_loop orc t in_idx c script pks sigs fuel ml (Z.of_nat p1 - 1) (Z.of_nat (length ks) + 1)
          (Z.of_nat si) (Z.of_nat (length sigs - si))
  = ms_struct ks (nth si ml None) (skipn si sigs).
Proof.
  induction ks as [|pk krest IH]; intros p1 si ml fuel Hks Hsi Hml Habove Hfuel.
  - (* no keys left *)
    destruct fuel as [|f]; [lia|]. cbn [ms_loop length].
    destruct (skipn si sigs) as [|rawSig srest] eqn:Es.
    + assert (length sigs - si = 0)%nat.
      { assert (length (skipn si sigs) = 0%nat) by (rewrite Es; reflexivity). rewrite skipn_length in H. exact H. }
      replace (Z.of_nat (length sigs - si) <=? 0)%Z with true by lia. reflexivity.
    + assert (length sigs - si > 0)%nat.
      { assert (length (skipn si sigs) > 0)%nat by (rewrite Es; cbn; lia). rewrite skipn_length in H. exact H. }
      replace (Z.of_nat (length sigs - si) <=? 0)%Z with false by lia.
      replace (Z.of_nat 0 + 1 - 1 <? Z.of_nat (length sigs - si))%Z with true by lia. reflexivity.
  - destruct fuel as [|f]; [lia|]. cbn [ms_loop].
    destruct (skipn si sigs) as [|rawSig srest] eqn:Es.
    + assert (length sigs - si = 0)%nat.
      { assert (length (skipn si sigs) = 0%nat) by (rewrite Es; reflexivity). rewrite skipn_length in H. exact H. }
      replace (Z.of_nat (length sigs - si) <=? 0)%Z with true by lia. reflexivity.
    + assert (Hlen : length (rawSig :: srest) = (length sigs - si)%nat) by (rewrite <- Es; apply skipn_length).
      replace (Z.of_nat (length sigs - si) <=? 0)%Z with false by (cbn [length] in Hlen; lia).
      cbn [ms_struct].
      replace (Z.of_nat (length (pk :: krest)) + 1 - 1 <? Z.of_nat (length sigs - si))%Z
        with (Nat.ltb (length (pk :: krest)) (length (rawSig :: srest))).
      2:{ rewrite Hlen. destruct (Nat.ltb_spec (length (pk :: krest)) (length sigs - si));
          destruct (Z.ltb_spec (Z.of_nat (length (pk :: krest)) + 1 - 1) (Z.of_nat (length sigs - si))); try reflexivity; lia. }
      destruct (Nat.ltb (length (pk :: krest)) (length (rawSig :: srest))); [reflexivity|].
      destruct (skipn_cons_nth _ _ _ _ Es) as [Hsig Hsrest].
      destruct (skipn_cons_nth _ _ _ _ Hks) as [Hpk Hkrest].
      assert (Hsi' : (si < length sigs)%nat) by (apply nth_error_Some; congruence).
      replace (Z.of_nat p1 - 1 + 1)%Z with (Z.of_nat p1) by lia.
      rewrite !nthZ_nat, Hsig, Hpk.
      assert (Hm : nth_error ml si = Some (nth si ml None)).
      { apply nth_error_nth'. lia. }
      rewrite Hm.
      (* the recursive calls, by the induction hypothesis *)
      assert (Hcont : forall ml', length ml' = length sigs ->
                (forall j, (si < j)%nat -> (j < length sigs)%nat -> nth_error ml' j = Some None) ->
                ms_loop orc t in_idx c script pks sigs f ml' (Z.of_nat p1) (Z.of_nat (length (pk :: krest)) + 1 - 1)
                        (Z.of_nat si) (Z.of_nat (length sigs - si))
                = ms_struct krest (nth si ml' None) (rawSig :: srest)).
      { intros ml' Hl' Ha'. rewrite <- Es.
        replace (Z.of_nat p1) with (Z.of_nat (Datatypes.S p1) - 1)%Z at 1 by lia.
        replace (Z.of_nat (length (pk :: krest)) + 1 - 1)%Z with (Z.of_nat (length krest) + 1)%Z by (cbn [length]; lia).
        apply IH; try assumption. cbn [length] in Hfuel. lia. }
      assert (Hadv : forall ml', length ml' = length sigs ->
                (forall j, (si < j)%nat -> (j < length sigs)%nat -> nth_error ml' j = Some None) ->
                ms_loop orc t in_idx c script pks sigs f ml' (Z.of_nat p1) (Z.of_nat (length (pk :: krest)) + 1 - 1)
                        (Z.of_nat si + 1) (Z.of_nat (length sigs - si) - 1)
                = ms_struct krest None srest).
      { intros ml' Hl' Ha'. rewrite <- Hsrest.
        replace (Z.of_nat p1) with (Z.of_nat (Datatypes.S p1) - 1)%Z at 1 by lia.
        replace (Z.of_nat (length (pk :: krest)) + 1 - 1)%Z with (Z.of_nat (length krest) + 1)%Z by (cbn [length]; lia).
        replace (Z.of_nat si + 1)%Z with (Z.of_nat (Datatypes.S si)) by lia.
        replace (Z.of_nat (length sigs - si) - 1)%Z with (Z.of_nat (length sigs - Datatypes.S si)) by lia.
        rewrite (IH (Datatypes.S p1) (Datatypes.S si) ml' f); try assumption; try lia.
        - f_equal. destruct (Nat.eq_dec (Datatypes.S si) (length sigs)) as [E|E].
          + apply nth_overflow. lia.
          + assert (Hn : nth_error ml' (Datatypes.S si) = Some None) by (apply Ha'; lia).
            apply nth_error_nth with (d := None) in Hn. exact Hn.
        - intros j Hj1 Hj2. apply Ha'; lia.
        - cbn [length] in Hfuel. lia. }
      assert (Hupd : forall v, length (upd ml si v) = length sigs /\
                (forall j, (si < j)%nat -> (j < length sigs)%nat -> nth_error (upd ml si v) j = Some None) /\
                nth si (upd ml si v) None = v).
      { intros v. split; [rewrite upd_length; exact Hml|]. split.
        - intros j Hj1 Hj2. rewrite upd_nth_other by lia. apply Habove; assumption.
        - apply nth_error_nth. apply upd_nth_same. lia. }
      destruct (split_last rawSig) as [[sg hb]|].
      2:{ destruct (negb (check_pubkey_enc c pk)); [reflexivity|]. apply Hcont; assumption. }
      cbv zeta. rewrite Nat2Z.id.
      destruct (nth si ml None) as [[|]|] eqn:Em.
      * (* parsed, valid *)
        destruct (negb (check_pubkey_enc c pk)); [reflexivity|].
        destruct (negb (orc_parse_pub orc pk)); [rewrite Hcont, Em by assumption; reflexivity|].
        destruct (unparse (sig_code_ops c script (b2n hb))); [|reflexivity].
        destruct (sighash_for t in_idx l (b2n hb)); try reflexivity.
        destruct (orc_verify orc pk b sg (uses_der_parser c)) as [[|]|]; [apply Hadv; assumption| |reflexivity].
        rewrite Hcont, Em by assumption. reflexivity.
      * (* parsed, invalid *)
        destruct (negb (check_pubkey_enc c pk)); [reflexivity|].
        rewrite Hcont, Em by assumption. reflexivity.
      * (* not parsed yet *)
        destruct (negb (check_hash_type c (b2n hb))); [reflexivity|].
        destruct (check_sig_enc c sg); try reflexivity.
        destruct (negb (check_pubkey_enc c pk)); [reflexivity|].
        destruct (Hupd (Some (orc_parse_sig orc (uses_der_parser c) sg))) as (U1 & U2 & U3).
        destruct (orc_parse_sig orc (uses_der_parser c) sg) eqn:Eps.
        -- destruct (negb (orc_parse_pub orc pk)); [rewrite Hcont, U3 by assumption; reflexivity|].
           destruct (unparse (sig_code_ops c script (b2n hb))); [|reflexivity].
           destruct (sighash_for t in_idx l (b2n hb)); try reflexivity.
           destruct (orc_verify orc pk b sg (uses_der_parser c)) as [[|]|]; [apply Hadv; assumption| |reflexivity].
           rewrite Hcont, U3 by assumption. reflexivity.
        -- rewrite Hcont, U3 by assumption. reflexivity.
Qed.
End Struct.

(** ** the loop as called by opcodeCheckMultiSig *)
Lemma nth_repeat_none n k : nth k (repeat (@None bool) n) None = None.
Proof. revert k. induction n; intros [|k]; cbn; auto. Qed.

Lemma ms_loop_initial orc t in_idx c script pks sigs :
  ms_loop orc t in_idx c script pks sigs (Datatypes.S (length pks)) (repeat None (length sigs)) (-1)
          (Z.of_nat (length pks) + 1) 0 (Z.of_nat (length sigs))
  = ms_struct orc t in_idx c script pks None sigs.
Proof.
  pose proof (ms_loop_struct orc t in_idx c script pks sigs pks 0 0 (repeat None (length sigs)) (Datatypes.S (length pks))) as H.
  cbn [skipn Z.of_nat] in H. rewrite Nat.sub_0_r, nth_repeat_none in H. change (0 - 1)%Z with (-1)%Z in H.
  apply H; try reflexivity; try lia.
  - apply repeat_length.
  - intros j _ Hj. rewrite nth_error_repeat by exact Hj. reflexivity.
Qed.

(** ** no panic, no fuel exhaustion *)
Lemma ms_struct_no_panic orc t in_idx c script : tx_ctx_ok t in_idx ->
  forall keys parsed sigs, ms_struct orc t in_idx c script keys parsed sigs <> LPanic /\
                           ms_struct orc t in_idx c script keys parsed sigs <> LFuel.
Proof.
  intros Hok. induction keys as [|pk krest IH]; intros parsed [|rawSig srest]; cbn [ms_struct];
    try (split; discriminate).
  destruct (Nat.ltb _ _); [split; discriminate|].
  destruct (split_last rawSig) as [[sg hb]|].
  2:{ destruct (negb (check_pubkey_enc c pk)); [split; discriminate|apply IH]. }
  cbv zeta.
  assert (Hwp : forall p',
    (if negb (orc_parse_pub orc pk) then ms_struct orc t in_idx c script krest p' (rawSig :: srest)
     else match unparse (sig_code_ops c script (b2n hb)) with
          | Some up =>
              match sighash_for t in_idx up (b2n hb) with
              | SOk h =>
                  match orc_verify orc pk h sg (uses_der_parser c) with
                  | Some true => ms_struct orc t in_idx c script krest None srest
                  | Some false => ms_struct orc t in_idx c script krest p' (rawSig :: srest)
                  | None => LMiss
                  end
              | SigHash.SErr _ => LPushFalse
              | _ => LPanic
              end
          | None => LPushFalse
          end) <> LPanic /\
    (if negb (orc_parse_pub orc pk) then ms_struct orc t in_idx c script krest p' (rawSig :: srest)
     else match unparse (sig_code_ops c script (b2n hb)) with
          | Some up =>
              match sighash_for t in_idx up (b2n hb) with
              | SOk h =>
                  match orc_verify orc pk h sg (uses_der_parser c) with
                  | Some true => ms_struct orc t in_idx c script krest None srest
                  | Some false => ms_struct orc t in_idx c script krest p' (rawSig :: srest)
                  | None => LMiss
                  end
              | SigHash.SErr _ => LPushFalse
              | _ => LPanic
              end
          | None => LPushFalse
          end) <> LFuel).
  { intros p'. destruct (negb (orc_parse_pub orc pk)); [apply IH|].
    destruct (unparse (sig_code_ops c script (b2n hb))) as [up|]; [|split; discriminate].
    destruct (sighash_for_total t in_idx up (b2n hb) Hok) as [[h ->]|[e ->]]; [|split; discriminate].
    destruct (orc_verify orc pk h sg (uses_der_parser c)) as [[|]|]; [apply IH|apply IH|split; discriminate]. }
  pose proof (check_sig_enc_no_panic c sg) as Hnp.
  destruct parsed as [[|]|].
  - destruct (negb (check_pubkey_enc c pk)); [split; discriminate|apply Hwp].
  - destruct (negb (check_pubkey_enc c pk)); [split; discriminate|apply IH].
  - destruct (negb (check_hash_type c (b2n hb))); [split; discriminate|].
    destruct (check_sig_enc c sg); [|split; discriminate|congruence].
    destruct (negb (check_pubkey_enc c pk)); [split; discriminate|].
    destruct (orc_parse_sig orc (uses_der_parser c) sg); [apply Hwp|apply IH].
Qed.

(** ** sigops_ok for the C06 instance (needed by the interpreter totality theorem, C07) *)
From GoBT Require Import proofs.InterpTotal.

Definition good (s : st) (o : outcome) : Prop := keeps_cond s o /\ forall s', o <> OReturn s'.

Lemma good_err s : good s OErr.
Proof. split; [apply keeps_err|discriminate]. Qed.
Lemma good_push_bool s s1 b : cond s1 = cond s -> good s (push_bool s1 b).
Proof. intros E. split; [apply keeps_push_bool; exact E|discriminate]. Qed.
Lemma good_finish s vf o : good s o -> good s (finish_verify vf o).
Proof.
  intros [[Hp Hc] Hr]. unfold finish_verify. destruct vf; [|split; [split|]; assumption].
  destruct o as [s1| | |]; try (split; [split|]; assumption).
  assert (E : cond s1 = cond s) by (apply Hc; left; reflexivity).
  split; [apply keeps_verify; exact E|].
  intros s'. unfold verify_top. destruct (ds s1); [discriminate|]. destruct (as_bool l); discriminate.
Qed.

Lemma checksig_good orc t i c s idx vf : tx_ctx_ok t i ->
  good s (match checksig_run orc t i c s idx vf with Some o => o | None => OErr end).
Proof.
  intros Hok. unfold checksig_run.
  destruct (ds s) as [|pk [|full r]]; try apply good_err.
  set (s1 := set_ds s r).
  assert (Hg : forall b, good s (finish_verify vf (push_bool s1 b))).
  { intros b. apply good_finish, good_push_bool. reflexivity. }
  assert (Hge : good s (finish_verify vf OErr)) by (apply good_finish, good_err).
  destruct (split_last full) as [[sg hb]|]; cbn [option_map];
    [|destruct (negb (check_pubkey_enc c pk)); cbn [option_map]; [exact Hge|apply Hg]].
  destruct (negb (check_hash_type c (b2n hb))); cbn [option_map]; [exact Hge|].
  pose proof (check_sig_enc_no_panic c sg) as Hnp.
  destruct (check_sig_enc c sg); cbn [option_map]; [|exact Hge|congruence].
  destruct (negb (check_pubkey_enc c pk)); cbn [option_map]; [exact Hge|].
  destruct (unparse _) as [up|]; cbn [option_map]; [|exact Hge].
  destruct (sighash_for_total t i up (b2n hb) Hok) as [[h ->]|[e ->]]; cbn [option_map]; [|exact Hge].
  assert (Hgf : good s (finish_verify vf (checksig_failed c s1 full))).
  { unfold checksig_failed. destruct (has_flag c F_NULLFAIL && Nat.ltb 0 (length full))%bool; [exact Hge|apply Hg]. }
  destruct (negb (orc_parse_pub orc pk)); cbn [option_map]; [exact Hgf|].
  destruct (negb (orc_parse_sig orc (uses_der_parser c) sg)); cbn [option_map]; [exact Hgf|].
  destruct (orc_verify orc pk h sg (uses_der_parser c)) as [[|]|]; cbn [option_map]; [apply Hg|exact Hgf|apply good_err].
Qed.

Lemma pop_n_length n d a b : (0 <= n)%Z -> pop_n n d = Some (a, b) -> Z.of_nat (length a) = n /\ d = a ++ b.
Proof.
  intros Hn. unfold pop_n, lenZ. destruct (Z.ltb_spec (Z.of_nat (length d)) n); [discriminate|].
  intros H0. inversion H0; subst. split; [rewrite firstn_length; lia|symmetry; apply firstn_skipn].
Qed.

Lemma checkmultisig_good orc t i c s idx vf : tx_ctx_ok t i ->
  good s (match checkmultisig_run orc t i c s idx vf with Some o => o | None => OErr end).
Proof.
  intros Hok. unfold checkmultisig_run.
  destruct (ds s) as [|nk d1]; [apply good_err|].
  destruct (pop_count c nk) as [nkz|]; [|apply good_err]. cbv zeta.
  destruct (Z.ltb_spec (to_int32 nkz) 0) as [|Hnk]; [apply good_err|].
  destruct (max_pubkeys c <? to_int32 nkz)%Z; [apply good_err|].
  destruct (max_ops c <? nops s + to_int32 nkz)%Z; [apply good_err|].
  destruct (pop_n (to_int32 nkz) d1) as [[pks d2]|] eqn:Ep; [|apply good_err].
  destruct d2 as [|ns d3]; [apply good_err|].
  destruct (pop_count c ns) as [nsz|]; [|apply good_err].
  destruct (Z.ltb_spec (to_int32 nsz) 0) as [|Hns]; [apply good_err|].
  destruct (to_int32 nkz <? to_int32 nsz)%Z; [apply good_err|].
  destruct (pop_n (to_int32 nsz) d3) as [[sigs d4]|] eqn:Es; [|apply good_err].
  destruct d4 as [|dummy d5]; [apply good_err|].
  destruct (has_flag c F_STRICTMULTISIG && negb (Nat.eqb (length dummy) 0))%bool; [apply good_err|].
  destruct (pop_n_length _ _ _ _ Hnk Ep) as [Lp _]. destruct (pop_n_length _ _ _ _ Hns Es) as [Ls _].
  rewrite <- Lp, <- Ls, ms_loop_initial.
  destruct (ms_struct_no_panic orc t i c (multisig_code_ops c s sigs) Hok pks None sigs) as [Hnp Hnf].
  destruct (ms_struct orc t i c (multisig_code_ops c s sigs) pks None sigs) as [b| | | | |]; try congruence;
    try apply good_err.
  - destruct (negb b && has_flag c F_NULLFAIL && existsb _ sigs)%bool; [apply good_err|].
    apply good_finish, good_push_bool. reflexivity.
  - apply good_finish, good_push_bool. reflexivity.
Qed.

(** [tx_ctx_ok]: the transaction is well formed (32-byte previous txids, field ranges: what any *bt.Tx
    built through the API satisfies), the input index exists (execOpts.validate) and is below 2^31.
    Without it the statement is false of the faithful model: Tx.Clone log.Fatals on a transaction whose
    serialisation does not re-parse. *)
Theorem sigops_ok_mk orc t i : tx_ctx_ok t i -> sigops_ok (mk_sigops orc t i).
Proof.
  intros Hok c s idx vf. cbn [mk_sigops so_checksig so_checkmultisig].
  destruct (checksig_good orc t i c s idx vf Hok) as [[A1 A2] A3].
  destruct (checkmultisig_good orc t i c s idx vf Hok) as [[B1 B2] B3].
  split; [exact A1|]. split; [exact B1|]. split; [intros s'; split; [apply A3|apply B3]|].
  intros s' [H|[H|[H|H]]]; [apply A2|apply A2|apply B2|apply B2]; auto.
Qed.

(** ** the loop decides the monotone matching *)
Section Decides.
Variable orc : sig_oracle.
Variable t : tx.
Variable in_idx : N.
Variable c : ctx.
Variable script : list pop.

(** "signature raw verifies under key pk": both parse (go-bk) and Verify says yes, for the digest of the
    (already stripped) script code under the signature's own hash type *)
Definition pair_ok (raw pk : bytes) : bool :=
  match split_last raw with
  | None => false
  | Some (sg, hb) =>
      orc_parse_sig orc (uses_der_parser c) sg && orc_parse_pub orc pk &&
      match unparse (sig_code_ops c script (b2n hb)) with
      | Some up =>
          match sighash_for t in_idx up (b2n hb) with
          | SOk h => match orc_verify orc pk h sg (uses_der_parser c) with Some true => true | _ => false end
          | _ => false
          end
      | None => false
      end
  end.

(** no hard error can arise: every non-empty signature passes the hash-type and DER checks that the
    flags enable, every key passes the key-encoding check, the script code unparses and hashes, and the
    oracle answers every Verify query *)
Definition sig_well_encoded (raw : bytes) : Prop :=
  match split_last raw with
  | None => True
  | Some (sg, hb) => check_hash_type c (b2n hb) = true /\ check_sig_enc c sg = EncOk /\
                     exists up h, unparse (sig_code_ops c script (b2n hb)) = Some up /\ sighash_for t in_idx up (b2n hb) = SOk h
  end.
Definition key_well_encoded (pk : bytes) : Prop := check_pubkey_enc c pk = true.
Definition oracle_total : Prop := forall pk h sg der, orc_verify orc pk h sg der <> None.

Definition memo_ok (m : option bool) (sigs : list bytes) : Prop :=
  match m, sigs with
  | Some b, raw :: _ =>
      match split_last raw with Some (sg, _) => b = orc_parse_sig orc (uses_der_parser c) sg | None => True end
  | _, _ => True
  end.

Lemma ms_struct_greedy : oracle_total -> forall keys m sigs,
  Forall key_well_encoded keys -> Forall sig_well_encoded sigs -> memo_ok m sigs ->
  ms_struct orc t in_idx c script keys m sigs = LDone (greedy pair_ok keys sigs).
Proof.
  intros Horc. induction keys as [|pk krest IH]; intros m [|raw srest] Hk Hs Hm; cbn [ms_struct greedy]; try reflexivity.
  destruct (Nat.ltb _ _); [reflexivity|].
  inversion Hk as [|? ? Hpk Hk']; subst. inversion Hs as [|? ? Hraw Hs']; subst.
  unfold pair_ok at 1. unfold sig_well_encoded in Hraw. unfold memo_ok in Hm.
  unfold key_well_encoded in Hpk.
  destruct (split_last raw) as [[sg hb]|] eqn:Esl.
  2:{ rewrite Hpk. cbn [negb]. apply IH; try assumption. unfold memo_ok. destruct m; [rewrite Esl|]; exact I. }
  destruct Hraw as (Hht & Hde & up & h & Hup & Hh).
  cbv zeta. rewrite Hpk, Hup, Hh. cbn [negb].
  assert (Hcont : forall b, b = orc_parse_sig orc (uses_der_parser c) sg ->
            ms_struct orc t in_idx c script krest (Some b) (raw :: srest) = LDone (greedy pair_ok krest (raw :: srest))).
  { intros b Hb. apply IH; try assumption. unfold memo_ok. rewrite Esl. exact Hb. }
  assert (Hadv : ms_struct orc t in_idx c script krest None srest = LDone (greedy pair_ok krest srest)).
  { apply IH; try assumption. exact I. }
  assert (Hwp : orc_parse_sig orc (uses_der_parser c) sg = true ->
     (if negb (orc_parse_pub orc pk) then ms_struct orc t in_idx c script krest (Some true) (raw :: srest)
      else match orc_verify orc pk h sg (uses_der_parser c) with
           | Some true => ms_struct orc t in_idx c script krest None srest
           | Some false => ms_struct orc t in_idx c script krest (Some true) (raw :: srest)
           | None => LMiss
           end)
     = LDone (if true && orc_parse_pub orc pk &&
                 match orc_verify orc pk h sg (uses_der_parser c) with Some true => true | _ => false end
              then greedy pair_ok krest srest else greedy pair_ok krest (raw :: srest))).
  { intros Eps. destruct (orc_parse_pub orc pk); cbn [negb andb]; [|apply Hcont; congruence].
    specialize (Horc pk h sg (uses_der_parser c)).
    destruct (orc_verify orc pk h sg (uses_der_parser c)) as [[|]|]; [exact Hadv|apply Hcont; congruence|congruence]. }
  destruct m as [[|]|].
  - rewrite <- Hm. apply Hwp. congruence.
  - rewrite <- Hm. cbn [andb]. apply Hcont. exact Hm.
  - rewrite Hht, Hde. cbn [negb].
    destruct (orc_parse_sig orc (uses_der_parser c) sg) eqn:Eps; [apply Hwp; reflexivity|].
    cbn [andb]. apply Hcont. congruence.
Qed.

(** the loop as run by opcodeCheckMultiSig (initial counters, fresh memo, fuel = keys + 1) ends normally
    with [true] exactly when the signatures can be matched to the keys in order *)
Theorem ms_loop_decides pks sigs : oracle_total ->
  Forall key_well_encoded pks -> Forall sig_well_encoded sigs ->
  exists b,
    ms_loop orc t in_idx c script pks sigs (Datatypes.S (length pks)) (repeat None (length sigs)) (-1)
            (Z.of_nat (length pks) + 1) 0 (Z.of_nat (length sigs)) = LDone b /\
    (b = true <-> monotone_matching (fun s k => pair_ok s k = true) sigs pks).
Proof.
  intros Horc Hk Hs. exists (greedy pair_ok pks sigs). split.
  - rewrite ms_loop_initial. apply ms_struct_greedy; try assumption. exact I.
  - apply greedy_spec.
Qed.
End Decides.
