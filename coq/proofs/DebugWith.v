(** C19 — the run with an explicit debugger object (model/Debug.v: [debugger], [engine_execute_with],
    [engine_execute_em], [engine_states]).

    1. naturality: the run threaded with ANY emit function is the run of the recording one followed by a replay of
       the recorded trace -- so what the machine computes cannot depend on the debugger;
    2. the recording run returns the verdict and snapshots of the instrumented run [engine_execute_dbg] (hence of
       [engine_execute]) and its callbacks, in order;
    3. for every debugger: verdict and AfterStep snapshots are those of [engine_execute]; the debugger ends in the
       state obtained by showing it the callbacks of [engine_execute_dbg] one after the other, each with the snapshot
       of the state current at that callback. *)
From Coq Require Import List NArith ZArith Lia Bool.
From Coq Require Import Strings.Byte.
From GoBT Require Import lib.Bytes model.ScriptNum model.Interp model.Debug proofs.InterpTotal proofs.DebugProofs.
Import ListNotations.
Local Open Scope Z_scope.

Definition rec : ev -> st -> list (ev * st) -> list (ev * st) := record (fun s => s).
Definition rp {D} (em : ev -> st -> D -> D) (tr : list (ev * st)) (d : D) : D :=
  replay (fun d e s => em e s d) tr d.

Lemma rp_snoc {D} (em : ev -> st -> D -> D) tr e s d : em e s (rp em tr d) = rp em (rec e s tr) d.
Proof. unfold rec, record, rp, replay. rewrite fold_left_app. reflexivity. Qed.
Lemma rp_nil {D} (em : ev -> st -> D -> D) d : rp em [] d = d.
Proof. reflexivity. Qed.

Ltac leaf := cbn [fst snd]; rewrite ?rp_snoc; reflexivity.

(** ** 1. Naturality *)
Section Nat.
  Context {D : Type} (em : ev -> st -> D -> D).

  Lemma run_ops_em_nat so c : forall ops idx s acc l d,
    run_ops_em em so c ops idx s acc (rp em l d) =
    (fst (run_ops_em rec so c ops idx s acc l),
     (fst (snd (run_ops_em rec so c ops idx s acc l)), rp em (snd (snd (run_ops_em rec so c ops idx s acc l))) d)).
  Proof.
    induction ops as [|p rest IH]; intros idx s acc l d; [reflexivity|].
    cbn [run_ops_em].
    destruct (execute_opcode so c p idx s) as [s'|s'| |]; try leaf.
    destruct (max_stack c <? lenZ (ds s') + lenZ (als s')); [leaf|].
    destruct rest as [|q rest2]; [leaf|].
    rewrite !rp_snoc. apply IH.
  Qed.

  Lemma finish_em_nat c s acc l d :
    finish_em em c s acc (rp em l d) = (fst (finish_em rec c s acc l), rp em (snd (finish_em rec c s acc l)) d).
  Proof. unfold finish_em. destruct (check_error_condition c true (ds s)); leaf. Qed.
  Lemma err_em_nat s acc l d :
    err_em em s acc (rp em l d) = (fst (err_em rec s acc l), rp em (snd (err_em rec s acc l)) d).
  Proof. unfold err_em. leaf. Qed.
  Lemma panic_em_nat s acc l d :
    panic_em em s acc (rp em l d) = (fst (panic_em rec s acc l), rp em (snd (panic_em rec s acc l)) d).
  Proof. unfold panic_em. leaf. Qed.

  Ltac use_run_ops :=
    rewrite run_ops_em_nat;
    match goal with |- context [run_ops_em rec ?so ?c ?ops ?i ?s ?acc ?l] =>
      destruct (run_ops_em rec so c ops i s acc l) as [[e acc'] [sl l']] end;
    cbn [fst snd].

  Lemma run_redeem_em_nat so c saved s acc l d :
    run_redeem_em em so c saved s acc (rp em l d) =
    (fst (run_redeem_em rec so c saved s acc l), rp em (snd (run_redeem_em rec so c saved s acc l)) d).
  Proof.
    unfold run_redeem_em.
    destruct (negb (check_error_condition c false (ds s))); [apply err_em_nat|].
    destruct saved as [|script below]; [apply panic_em_nat|].
    destruct (parse_script (c_err_on_checksig c) script) as [ops|]; [|apply err_em_nat].
    cbv zeta. destruct ops as [|p rest]; [rewrite rp_snoc; apply finish_em_nat|].
    rewrite rp_snoc. use_run_ops.
    destruct e as [s2|s2| |]; [| |apply err_em_nat|apply panic_em_nat].
    - destruct (end_script s2); [|apply err_em_nat]. unfold change_em. rewrite !rp_snoc. apply finish_em_nat.
    - unfold change_em. rewrite !rp_snoc. apply finish_em_nat.
  Qed.

  Lemma run_lock_em_nat so c bip16 saved lock s acc l d :
    run_lock_em em so c bip16 saved lock s acc (rp em l d) =
    (fst (run_lock_em rec so c bip16 saved lock s acc l), rp em (snd (run_lock_em rec so c bip16 saved lock s acc l)) d).
  Proof.
    unfold run_lock_em. use_run_ops.
    destruct e as [s2|s2| |]; [| |apply err_em_nat|apply panic_em_nat].
    - destruct (end_script s2); [|apply err_em_nat]. cbv zeta. unfold change_em.
      destruct (bip16 && negb (after_genesis c)); rewrite !rp_snoc; [apply run_redeem_em_nat|apply finish_em_nat].
    - unfold change_em. rewrite !rp_snoc. apply finish_em_nat.
  Qed.

  Lemma execute_em_nat so c bip16 unlock lock l d :
    execute_em em so c bip16 unlock lock (rp em l d) =
    (fst (execute_em rec so c bip16 unlock lock l), rp em (snd (execute_em rec so c bip16 unlock lock l)) d).
  Proof.
    unfold execute_em. destruct unlock as [|u urest].
    - destruct lock as [|lo lrest]; [reflexivity|]. rewrite rp_snoc. apply run_lock_em_nat.
    - rewrite rp_snoc. use_run_ops.
      destruct e as [s1|s1| |]; [| |apply err_em_nat|apply panic_em_nat].
      + destruct (end_script s1) as [s2|]; [|apply err_em_nat]. cbv zeta. unfold change_em.
        destruct lock as [|lo lrest]; rewrite !rp_snoc; [apply finish_em_nat|apply run_lock_em_nat].
      + cbv zeta. unfold change_em.
        destruct lock as [|lo lrest]; rewrite !rp_snoc; [apply finish_em_nat|apply run_lock_em_nat].
  Qed.

  Lemma engine_execute_em_nat so i l d :
    engine_execute_em em so i (rp em l d) =
    (fst (engine_execute_em rec so i l), rp em (snd (engine_execute_em rec so i l)) d).
  Proof.
    unfold engine_execute_em. set (c := mkCtx _ _ _ _ _ _).
    destruct (ei_unlock i) as [|ub ur]; destruct (ei_lock i) as [|lb lr]; [reflexivity| | |];
    (destruct (has_flag c F_CLEANSTACK && negb (has_flag c F_BIP16)); [reflexivity|];
     destruct ((max_script_size c <? _) || (max_script_size c <? _)); [reflexivity|];
     match goal with |- context [match parse_script ?a ?b with _ => _ end] => destruct (parse_script a b) as [u|] end;
       [|reflexivity];
     match goal with |- context [match parse_script ?a ?b with _ => _ end] => destruct (parse_script a b) as [lk|] end;
       [|reflexivity];
     destruct (has_flag c F_SIGPUSHONLY && _); [reflexivity|];
     cbv zeta;
     match goal with |- context [if ?b then _ else _] => destruct b end;
       [reflexivity|]; apply execute_em_nat).
  Qed.
End Nat.

(** ** 2. The recording run against the instrumented run [*_dbg]: same verdict, same snapshots, same callbacks *)
Definition agree (r : verdict * list snapshot * list (ev * st)) (l : list (ev * st)) (q : dres) : Prop :=
  fst r = fst q /\ map fst (snd r) = map fst l ++ snd q.

Lemma map_rec e s l : map fst (rec e s l) = map fst l ++ [e].
Proof. unfold rec, record. rewrite map_app. reflexivity. Qed.

Lemma agree_pre r l l' evs q : agree r l' q -> map fst l' = map fst l ++ evs -> agree r l (pre evs q).
Proof.
  intros [A B] E. destruct q as [[v sn] e]. cbn [pre fst snd] in *. split; [exact A|].
  rewrite B, E, <- app_assoc. reflexivity.
Qed.
Lemma agree_finish c s acc l : agree (finish_em rec c s acc l) l (finish_dbg c (ds s) acc).
Proof.
  unfold finish_em, finish_dbg, agree. destruct (check_error_condition c true (ds s)); cbn [fst snd];
    (split; [reflexivity|]); rewrite !map_rec, <- !app_assoc; reflexivity.
Qed.
Lemma agree_finish' c s acc l d0 : ds s = d0 -> agree (finish_em rec c s acc l) l (finish_dbg c d0 acc).
Proof. intros <-. apply agree_finish. Qed.
Lemma agree_err s acc l l0 evs : map fst l = map fst l0 ++ evs -> agree (err_em rec s acc l) l0 (err_dbg acc evs).
Proof.
  intros E. unfold err_em, err_dbg, agree. cbn [fst snd]. split; [reflexivity|].
  rewrite !map_rec, E, <- !app_assoc. reflexivity.
Qed.
Lemma agree_panic s acc l l0 evs : map fst l = map fst l0 ++ evs -> agree (panic_em rec s acc l) l0 (panic_dbg acc evs).
Proof.
  intros E. unfold panic_em, panic_dbg, agree. cbn [fst snd]. split; [reflexivity|].
  rewrite !map_rec, E, <- !app_assoc. reflexivity.
Qed.

Lemma run_ops_em_dbg so c : forall ops idx s acc l,
  fst (run_ops_em rec so c ops idx s acc l) = fst (run_ops_dbg so c ops idx s acc) /\
  map fst (snd (snd (run_ops_em rec so c ops idx s acc l))) = map fst l ++ snd (run_ops_dbg so c ops idx s acc).
Proof.
  induction ops as [|p rest IH]; intros idx s acc l.
  - cbn. rewrite app_nil_r. split; reflexivity.
  - cbn [run_ops_em run_ops_dbg].
    destruct (execute_opcode so c p idx s) as [s'|s'| |]; cbn [fst snd];
      try (split; [reflexivity|]; rewrite !map_rec, <- !app_assoc; reflexivity).
    destruct (max_stack c <? lenZ (ds s') + lenZ (als s')); cbn [fst snd];
      [split; [reflexivity|]; rewrite !map_rec, <- !app_assoc; reflexivity|].
    destruct rest as [|q rest2]; cbn [fst snd];
      [split; [reflexivity|]; rewrite !map_rec, <- !app_assoc; reflexivity|].
    destruct (IH (S idx) s' (snap s' :: acc) (rec AS s' (rec AO s' (rec BO s (rec BS s l))))) as [A B].
    destruct (run_ops_dbg so c (q :: rest2) (S idx) s' (snap s' :: acc)) as [[e a] evs]. cbn [fst snd] in *.
    split; [exact A|]. rewrite B, !map_rec, <- !app_assoc. reflexivity.
Qed.

Ltac use_run_ops_dbg :=
  match goal with |- context [run_ops_em rec ?so ?c ?ops ?i ?s ?acc ?l] =>
    let A := fresh "A" in let B := fresh "B" in
    destruct (run_ops_em_dbg so c ops i s acc l) as [A B];
    destruct (run_ops_em rec so c ops i s acc l) as [[e acc'] [sl l']];
    destruct (run_ops_dbg so c ops i s acc) as [[e2 acc2] evs];
    cbn [fst snd] in A, B; injection A as <- <-
  end.

Lemma run_redeem_em_dbg so c saved s acc l :
  agree (run_redeem_em rec so c saved s acc l) l (run_redeem_dbg so c saved s acc).
Proof.
  unfold run_redeem_em, run_redeem_dbg.
  destruct (negb (check_error_condition c false (ds s))); [apply agree_err; rewrite app_nil_r; reflexivity|].
  destruct saved as [|script below]; [apply agree_panic; rewrite app_nil_r; reflexivity|].
  destruct (parse_script (c_err_on_checksig c) script) as [ops|]; [|apply agree_err; rewrite app_nil_r; reflexivity].
  cbv zeta. destruct ops as [|p rest].
  { eapply agree_pre; [apply agree_finish'; reflexivity|]. apply map_rec. }
  use_run_ops_dbg. rewrite map_rec, <- app_assoc in B. cbn [app] in B.
  destruct e as [s2|s2| |]; [| |apply agree_err; exact B|apply agree_panic; exact B].
  - destruct (end_script s2) as [s3|]; [|apply agree_err; exact B].
    eapply agree_pre; [apply agree_finish'; reflexivity|]. unfold change_em. rewrite !map_rec, B, <- !app_assoc. reflexivity.
  - eapply agree_pre; [apply agree_finish'; reflexivity|]. unfold change_em. rewrite !map_rec, B, <- !app_assoc. reflexivity.
Qed.

Lemma run_lock_em_dbg so c bip16 saved lock s acc l :
  agree (run_lock_em rec so c bip16 saved lock s acc l) l (run_lock_dbg so c bip16 saved lock s acc).
Proof.
  unfold run_lock_em, run_lock_dbg. use_run_ops_dbg.
  destruct e as [s2|s2| |]; [| |apply agree_err; exact B|apply agree_panic; exact B].
  - destruct (end_script s2) as [s3|]; [|apply agree_err; exact B]. cbv zeta.
    destruct (bip16 && negb (after_genesis c)).
    + eapply agree_pre; [apply run_redeem_em_dbg|]. unfold change_em. rewrite !map_rec, B, <- !app_assoc. reflexivity.
    + eapply agree_pre; [apply agree_finish'; reflexivity|]. unfold change_em. rewrite !map_rec, B, <- !app_assoc. reflexivity.
  - eapply agree_pre; [apply agree_finish'; reflexivity|]. unfold change_em. rewrite !map_rec, B, <- !app_assoc. reflexivity.
Qed.

Lemma execute_em_dbg so c bip16 unlock lock l :
  agree (execute_em rec so c bip16 unlock lock l) l (execute_dbg so c bip16 unlock lock).
Proof.
  unfold execute_em, execute_dbg. destruct unlock as [|u urest].
  - destruct lock as [|lo lrest]; [split; [reflexivity|cbn; rewrite app_nil_r; reflexivity]|].
    eapply agree_pre; [apply run_lock_em_dbg|]. apply map_rec.
  - use_run_ops_dbg. rewrite map_rec, <- app_assoc in B. cbn [app] in B.
    destruct e as [s1|s1| |]; [| |apply agree_err; exact B|apply agree_panic; exact B].
    + destruct (end_script s1) as [s2|]; [|apply agree_err; exact B]. cbv zeta.
      destruct lock as [|lo lrest];
        (eapply agree_pre; [first [apply agree_finish'; reflexivity|apply run_lock_em_dbg]|]);
        unfold change_em; rewrite !map_rec, B, <- !app_assoc; reflexivity.
    + cbv zeta.
      destruct lock as [|lo lrest];
        (eapply agree_pre; [first [apply agree_finish'; reflexivity|apply run_lock_em_dbg]|]);
        unfold change_em; rewrite !map_rec, B, <- !app_assoc; reflexivity.
Qed.

Lemma engine_execute_em_dbg so i l :
  agree (engine_execute_em rec so i l) l (engine_execute_dbg so i).
Proof.
  assert (Hrej : agree (VErr, [], l) l rejected) by (split; [reflexivity|cbn; rewrite app_nil_r; reflexivity]).
  unfold engine_execute_em, engine_execute_dbg. set (c := mkCtx _ _ _ _ _ _).
  destruct (ei_unlock i) as [|ub ur]; destruct (ei_lock i) as [|lb lr]; [exact Hrej| | |];
    (destruct (has_flag c F_CLEANSTACK && negb (has_flag c F_BIP16)); [exact Hrej|];
     destruct ((max_script_size c <? _) || (max_script_size c <? _)); [exact Hrej|];
     match goal with |- context [match parse_script ?a ?b with _ => _ end] => destruct (parse_script a b) as [u|] end;
       [|exact Hrej];
     match goal with |- context [match parse_script ?a ?b with _ => _ end] => destruct (parse_script a b) as [lk|] end;
       [|exact Hrej];
     destruct (has_flag c F_SIGPUSHONLY && _); [exact Hrej|];
     cbv zeta;
     match goal with |- context [if ?b then _ else _] => destruct b end;
       [exact Hrej|]; apply execute_em_dbg).
Qed.

(** ** 3. The theorems *)

(** the trace a debugger is shown: the callbacks with the snapshot of the state current at each *)
Definition engine_trace (so : sigops) (i : exec_input) : list (ev * snapshot) :=
  map (fun es => (fst es, snap (snd es))) (engine_states so i).

Lemma replay_map {D} (f : D -> ev -> snapshot -> D) tr d :
  replay f (map (fun es : ev * st => (fst es, snap (snd es))) tr) d = rp (fun e s d => f d e (snap s)) tr d.
Proof.
  unfold rp, replay. revert d. induction tr as [|x tr IH]; intros d; [reflexivity|]. cbn [map fold_left fst snd]. apply IH.
Qed.

(** for EVERY debugger type, debugger and initial debugger state: the machine's results are those of the plain
    engine, and the debugger ends where a replay of the trace leaves it *)
Theorem engine_execute_with_spec : forall (D : Type) (dbg : debugger D) (d0 : D) so i,
  engine_execute_with dbg d0 so i = (engine_execute so i, replay (on_event dbg) (engine_trace so i) d0).
Proof.
  intros D dbg d0 so i. unfold engine_execute_with, engine_trace, engine_states.
  pose proof (engine_execute_em_nat (fun e s d => on_event dbg d e (snap s)) so i [] d0) as H.
  rewrite rp_nil in H. rewrite H. rewrite replay_map.
  destruct (engine_execute_em_dbg so i []) as [A _]. fold rec. rewrite A, debugger_irrelevant. reflexivity.
Qed.

Corollary debugger_never_changes_the_run : forall (D : Type) (dbg : debugger D) (d0 : D) so i,
  fst (engine_execute_with dbg d0 so i) = engine_execute so i.
Proof. intros. rewrite engine_execute_with_spec. reflexivity. Qed.

Corollary two_debuggers_same_run : forall (D1 D2 : Type) (g1 : debugger D1) (g2 : debugger D2) d1 d2 so i,
  fst (engine_execute_with g1 d1 so i) = fst (engine_execute_with g2 d2 so i).
Proof. intros. rewrite !debugger_never_changes_the_run. reflexivity. Qed.

(** the trace consists of the callbacks of [engine_execute_dbg], in order *)
Theorem engine_trace_events : forall so i, map fst (engine_trace so i) = events_of (engine_execute_dbg so i).
Proof.
  intros so i. unfold engine_trace, engine_states. rewrite map_map. cbn [fst].
  destruct (engine_execute_em_dbg so i []) as [_ B]. fold rec. exact B.
Qed.

(** the recording debugger sees exactly the trace *)
Theorem recorder_sees_the_trace : forall so i,
  snd (engine_execute_with recorder [] so i) = engine_trace so i.
Proof.
  intros so i. rewrite engine_execute_with_spec. cbn [snd]. unfold replay, recorder. cbn [on_event].
  generalize (engine_trace so i). intros tr.
  assert (H : forall l, fold_left (fun d (es : ev * snapshot) => d ++ [(fst es, snd es)]) tr l = l ++ tr).
  { induction tr as [|[e sn] tr IH]; intros l; [rewrite app_nil_r; reflexivity|].
    cbn [fold_left fst snd]. rewrite IH, <- app_assoc. reflexivity. }
  apply (H []).
Qed.

Print Assumptions engine_execute_with_spec.
Print Assumptions engine_trace_events.
