(** The interpreter model (model/Interp.v: one machine stepping through the scripts, as go-bt's thread.Step)
    refines the specification of VerifyScript as a composition of per-script evaluations
    (spec/VerifyScriptSpec.v), at the level of verdicts.

    What has to be shown is that the machine's resets at a script boundary (shiftScript: opcode counter,
    code-separator position, early-return flag; Step: alt stack cleared, condition stack checked empty)
    leave exactly the state a fresh evaluation starts from.  The one component that is NOT reset is the
    else stack; it is empty at every boundary because it always has the height of the condition stack
    (after Genesis) or is never used (before). *)
From Coq Require Import List NArith ZArith Lia Bool.
From Coq Require Import Strings.Byte.
From GoBT Require Import lib.Bytes lib.Ripemd160 model.Tx model.SigHash model.ScriptNum model.Interp model.CheckSig
  proofs.InterpTotal proofs.CheckSigProofs proofs.MultisigProofs spec.VerifyScriptSpec.
Import ListNotations.
Local Open Scope Z_scope.

(** ** What is needed from the signature opcodes in addition to [sigops_ok]: the else stack is left alone *)
Definition sigops_els_ok (so : sigops) : Prop :=
  forall c s idx vf s',
    (so_checksig so c s idx vf = OOk s' \/ so_checksig so c s idx vf = OReturn s' \/
     so_checkmultisig so c s idx vf = OOk s' \/ so_checkmultisig so c s idx vf = OReturn s') ->
    els s' = els s.

Lemma no_sigops_els_ok : sigops_els_ok no_sigops.
Proof. intros c s idx vf s' [H|[H|[H|H]]]; discriminate. Qed.

(** ** Handlers that leave the condition stack and the else stack alone *)
Definition keeps_els (s : st) (o : outcome) : Prop :=
  forall s', (o = OOk s' \/ o = OReturn s') -> cond s' = cond s /\ els s' = els s.

Lemma ke_ok s s' : cond s' = cond s -> els s' = els s -> keeps_els s (OOk s').
Proof. intros Ec Ee s2 [H|H]; inversion H; subst; auto. Qed.
Lemma ke_ret s s' : cond s' = cond s -> els s' = els s -> keeps_els s (OReturn s').
Proof. intros Ec Ee s2 [H|H]; inversion H; subst; auto. Qed.
Lemma ke_err s : keeps_els s OErr.
Proof. intros s2 [H|H]; discriminate. Qed.
Lemma ke_panic s : keeps_els s OPanic.
Proof. intros s2 [H|H]; discriminate. Qed.
Lemma ke_push s s0 x : cond s0 = cond s -> els s0 = els s -> keeps_els s (push s0 x).
Proof. intros Ec Ee. apply ke_ok; assumption. Qed.
Lemma ke_push_num s s0 z : cond s0 = cond s -> els s0 = els s -> keeps_els s (push_num s0 z).
Proof. intros Ec Ee. apply ke_ok; assumption. Qed.
Lemma ke_push_bool s s0 b : cond s0 = cond s -> els s0 = els s -> keeps_els s (push_bool s0 b).
Proof. intros Ec Ee. apply ke_ok; assumption. Qed.
Lemma ke_verify s s0 : cond s0 = cond s -> els s0 = els s -> keeps_els s (verify_top s0).
Proof.
  intros Ec Ee. unfold verify_top. destruct (ds s0) as [|t r]; [apply ke_err|].
  destruct (as_bool t); [apply ke_ok; assumption|apply ke_err].
Qed.
Lemma ke_unary c s f : keeps_els s (unary_num c s f).
Proof.
  unfold unary_num. destruct (ds s) as [|a r]; [apply ke_err|].
  destruct (pop_num c a); [apply ke_push_num; reflexivity|apply ke_err].
Qed.
Lemma ke_binary c s f : keeps_els s (binary_num c s f).
Proof.
  unfold binary_num. destruct (ds s) as [|a [|b r]]; [apply ke_err| |].
  - destruct (pop_num c a); apply ke_err.
  - destruct (pop_num c a) as [v0|]; [|apply ke_err]. destruct (pop_num c b) as [v1|]; [|apply ke_err].
    destruct (f v0 v1); [apply ke_push_num; reflexivity|apply ke_err].
Qed.
Lemma ke_nop c s : keeps_els s (nop_like c s).
Proof. unfold nop_like. destruct (has_flag c F_DISCOURAGE_NOPS); [apply ke_err|apply ke_ok; reflexivity]. Qed.

Lemma ke_trans s s1 o : cond s1 = cond s -> els s1 = els s -> keeps_els s1 o -> keeps_els s o.
Proof. intros Ec Ee Hk s' H. destruct (Hk s' H) as [A B]. split; congruence. Qed.

#[local] Hint Resolve ke_ok ke_ret ke_err ke_panic ke_push ke_push_num ke_push_bool ke_verify
  ke_unary ke_binary ke_nop : kels.

Ltac ke_tac :=
  repeat first
    [ solve [auto with kels]
    | solve [apply ke_ok; reflexivity]
    | solve [apply ke_push; reflexivity]
    | solve [apply ke_push_num; reflexivity]
    | solve [apply ke_push_bool; reflexivity]
    | break_if
    | break_match ].

(** every handler other than the six conditional opcodes *)
Lemma handler_keeps_els so c p idx s :
  sigops_ok so -> sigops_els_ok so ->
  is_conditional (p_val p) = false ->
  keeps_els s (exec_handler so c p idx s).
Proof.
  intros Hso Hse Hnc. unfold exec_handler.
  destruct (negb (p_real p)); [apply ke_panic|].
  unfold is_conditional in Hnc.
  repeat (apply orb_false_iff in Hnc; destruct Hnc as [Hnc ?]).
  assert (Hcs : forall vf, keeps_els s (so_checksig so c s idx vf)).
  { intros vf s' H'. destruct (Hso c s idx vf) as (_ & _ & _ & Hc). split.
    - apply Hc. destruct H' as [H'|H']; auto.
    - apply (Hse c s idx vf). destruct H' as [H'|H']; auto. }
  assert (Hcm : forall vf, keeps_els s (so_checkmultisig so c s idx vf)).
  { intros vf s' H'. destruct (Hso c s idx vf) as (_ & _ & _ & Hc). split.
    - apply Hc. destruct H' as [H'|H']; auto.
    - apply (Hse c s idx vf). destruct H' as [H'|H']; auto. }
  repeat match goal with
  | |- keeps_els _ (if (?v =? ?k)%N then _ else _) => destruct (v =? k)%N eqn:?
  | |- keeps_els _ (if (?v <=? ?k)%N then _ else _) => destruct (v <=? k)%N eqn:?
  | |- keeps_els _ (if ((?v =? ?k)%N || _) then _ else _) => destruct (v =? k)%N eqn:?; cbn [orb]
  | |- keeps_els _ (if (_ || _) then _ else _) => break_if
  end;
  try congruence;
  try solve [apply Hcs]; try solve [apply Hcm];
  try solve [ke_tac].
  (* OP_NUMEQUALVERIFY *)
  pose proof (ke_binary c s (fun v0 v1 : Z => Some (b2z (v0 =? v1)))) as Hk.
  destruct (binary_num c s _) as [s1|s1| |] eqn:E.
  - destruct (Hk s1 (or_introl eq_refl)) as [A B]. apply ke_verify; assumption.
  - destruct (Hk s1 (or_intror eq_refl)) as [A B]. apply ke_ret; assumption.
  - apply ke_err.
  - apply ke_panic.
Qed.

(** ** The invariant tying the else stack to the condition stack *)
Definition els_inv (c : ctx) (s : st) : Prop :=
  if after_genesis c then length (els s) = length (cond s) else els s = [].

Definition pres_inv (c : ctx) (o : outcome) : Prop :=
  forall s', (o = OOk s' \/ o = OReturn s') -> els_inv c s'.

Lemma pi_err c : pres_inv c OErr.
Proof. intros s' [H|H]; discriminate. Qed.
Lemma pi_panic c : pres_inv c OPanic.
Proof. intros s' [H|H]; discriminate. Qed.
Lemma pi_ok c s : els_inv c s -> pres_inv c (OOk s).
Proof. intros Hi s' [H|H]; inversion H; subst; exact Hi. Qed.

Lemma els_inv_same c s s1 : cond s1 = cond s -> els s1 = els s -> els_inv c s -> els_inv c s1.
Proof. unfold els_inv. intros -> ->. auto. Qed.

Lemma pi_keeps c s o : els_inv c s -> keeps_els s o -> pres_inv c o.
Proof. intros Hi Hk s' H. destruct (Hk s' H) as [A B]. eapply els_inv_same; eauto. Qed.

Lemma els_inv_push c s s1 x : cond s1 = cond s -> els s1 = els s -> els_inv c s ->
  els_inv c (set_cond s1 (x :: cond s1) (if after_genesis c then false :: els s1 else els s1)).
Proof.
  unfold els_inv. intros Ec Ee. destruct (after_genesis c); cbn [els cond set_cond length].
  - rewrite Ec, Ee. intros ->. reflexivity.
  - rewrite Ee. auto.
Qed.

Lemma pop_if_bool_keeps c s ok s1 : pop_if_bool c s = Some (ok, s1) -> cond s1 = cond s /\ els s1 = els s.
Proof.
  unfold pop_if_bool. destruct (ds s) as [|b r]; [discriminate|].
  destruct (has_flag c F_MINIMALIF).
  - destruct (Nat.ltb 1 (length b)); [discriminate|].
    destruct b as [|x [|y b']].
    + intros [= _ <-]. split; reflexivity.
    + destruct (b2n x =? 1)%N; [|discriminate]. intros [= _ <-]. split; reflexivity.
    + intros [= _ <-]. split; reflexivity.
  - intros [= _ <-]. split; reflexivity.
Qed.

(** evaluates the comparisons of a literal opcode value against the opcode constants *)
Ltac eval_opc n :=
  repeat match goal with
  | |- context [(n =? ?k)%N] => let r := eval vm_compute in (n =? k)%N in change (n =? k)%N with r
  | |- context [(n <=? ?k)%N] => let r := eval vm_compute in (n <=? k)%N in change (n <=? k)%N with r
  end;
  cbn [orb andb negb].

Lemma is_conditional_cases v : is_conditional v = true ->
  v = 99%N \/ v = 100%N \/ v = 101%N \/ v = 102%N \/ v = 103%N \/ v = 104%N.
Proof.
  unfold is_conditional. intros H.
  repeat (apply orb_true_iff in H; destruct H as [H|H]); apply N.eqb_eq in H; subst v; cbv; tauto.
Qed.

(** OP_IF / OP_NOTIF push on both stacks, OP_ELSE keeps both heights, OP_ENDIF pops both,
    OP_VERIF / OP_VERNOTIF change nothing *)
Lemma handler_conditional_inv so c p idx s :
  is_conditional (p_val p) = true -> els_inv c s -> pres_inv c (exec_handler so c p idx s).
Proof.
  intros Hc Hi. unfold exec_handler.
  destruct (negb (p_real p)); [apply pi_panic|].
  assert (Hif : forall v, pres_inv c
    (if should_exec c s v then
       if branch_executing s then
         match pop_if_bool c s with
         | None => OErr
         | Some (ok, s1) =>
             OOk (set_cond s1 ((if (if (v =? OP_IF)%N then ok else negb ok) then COND_TRUE else COND_FALSE) :: cond s1)
                           (if after_genesis c then false :: els s1 else els s1))
         end
       else OOk (set_cond s (COND_SKIP :: cond s) (if after_genesis c then false :: els s else els s))
     else OOk (set_cond s (COND_FALSE :: cond s) (if after_genesis c then false :: els s else els s)))).
  { intros v. destruct (should_exec c s v).
    - destruct (branch_executing s).
      + destruct (pop_if_bool c s) as [[ok s1]|] eqn:Ep; [|apply pi_err].
        destruct (pop_if_bool_keeps c s ok s1 Ep) as [A B].
        apply pi_ok. apply (els_inv_push c s s1); assumption.
      + apply pi_ok. apply (els_inv_push c s s); auto.
    - apply pi_ok. apply (els_inv_push c s s); auto. }
  destruct (is_conditional_cases _ Hc) as [Hv|[Hv|[Hv|[Hv|[Hv|Hv]]]]]; rewrite Hv.
  - (* OP_IF *) eval_opc 99%N. apply (Hif 99%N).
  - (* OP_NOTIF *) eval_opc 100%N. apply (Hif 100%N).
  - (* OP_VERIF *) eval_opc 101%N. destruct (after_genesis c && _); [apply pi_ok; exact Hi|apply pi_err].
  - (* OP_VERNOTIF *) eval_opc 102%N. destruct (after_genesis c && _); [apply pi_ok; exact Hi|apply pi_err].
  - (* OP_ELSE *) eval_opc 103%N.
    unfold els_inv in Hi. unfold pres_inv, els_inv.
    destruct (cond s) as [|t cr] eqn:Ec; [intros s' [H|H]; discriminate|].
    destruct (after_genesis c).
    + destruct (els s) as [|e er] eqn:Ee; [intros s' [H|H]; discriminate|].
      destruct e; intros s' [H|H]; try discriminate.
      inversion H; subst s'. cbn [els cond set_cond length] in *. exact Hi.
    + intros s' [H|H]; try discriminate.
      inversion H; subst s'. cbn [els cond set_cond]. exact Hi.
  - (* OP_ENDIF *) eval_opc 104%N.
    unfold els_inv in Hi. unfold pres_inv, els_inv.
    destruct (cond s) as [|t cr] eqn:Ec; [intros s' [H|H]; discriminate|].
    destruct (after_genesis c).
    + destruct (els s) as [|e er] eqn:Ee; intros s' [H|H]; try discriminate.
      inversion H; subst s'. cbn [els cond set_cond length] in *. lia.
    + intros s' [H|H]; try discriminate.
      inversion H; subst s'. cbn [els cond set_cond]. exact Hi.
Qed.

(** thread.executeOpcode preserves the invariant *)
Lemma execute_opcode_inv so c p idx s :
  sigops_ok so -> sigops_els_ok so -> els_inv c s -> pres_inv c (execute_opcode so c p idx s).
Proof.
  intros Hso Hse Hi. unfold execute_opcode.
  set (s1 := if (OP_16 <? p_val p)%N then set_nops s (nops s + 1) else s).
  assert (Hi1 : els_inv c s1).
  { subst s1. destruct (OP_16 <? p_val p)%N; [|exact Hi]. eapply els_inv_same; [| |exact Hi]; reflexivity. }
  clearbody s1.
  destruct (max_elem c <? lenZ (p_data p)); [apply pi_err|].
  destruct (is_disabled (p_val p) && _); [apply pi_err|].
  destruct (always_illegal (p_val p) && _); [apply pi_err|].
  destruct ((OP_16 <? p_val p)%N && _); [apply pi_err|].
  destruct (negb (branch_executing s1) && _); [apply pi_ok; exact Hi1|].
  destruct (has_flag c F_MINIMALDATA && _ && _ && _ && _); [apply pi_err|].
  destruct (negb (should_exec c s (p_val p)) && _); [apply pi_ok; exact Hi1|].
  destruct (is_conditional (p_val p)) eqn:Econd.
  - apply handler_conditional_inv; assumption.
  - apply (pi_keeps c s1); [exact Hi1|]. apply handler_keeps_els; assumption.
Qed.

(** ** Along one script *)
Lemma run_ops_inv so c : sigops_ok so -> sigops_els_ok so ->
  forall ops idx s acc, els_inv c s ->
  match fst (run_ops so c ops idx s acc) with
  | SEnd s' | SReturn s' => els_inv c s'
  | SErr | SPanic => True
  end.
Proof.
  intros Hso Hse. induction ops as [|p rest IH]; intros idx s acc Hi; cbn [run_ops].
  - cbn [fst]. exact Hi.
  - pose proof (execute_opcode_inv so c p idx s Hso Hse Hi) as Hp.
    destruct (execute_opcode so c p idx s) as [s1|s1| |] eqn:E; cbn [fst]; try exact I.
    + assert (Hi1 : els_inv c s1) by (apply Hp; left; reflexivity).
      destruct (max_stack c <? lenZ (ds s1) + lenZ (als s1)); [cbn [fst]; exact I|].
      destruct rest as [|q rest2]; [cbn [fst]; exact Hi1|].
      apply IH. exact Hi1.
    + apply Hp. right; reflexivity.
Qed.

(** how a script ends does not depend on the snapshots collected so far *)
Lemma run_ops_fst so c : forall ops idx s acc acc',
  fst (run_ops so c ops idx s acc) = fst (run_ops so c ops idx s acc').
Proof.
  induction ops as [|p rest IH]; intros idx s acc acc'; cbn [run_ops]; [reflexivity|].
  destruct (execute_opcode so c p idx s) as [s1|s1| |]; try reflexivity.
  destruct (max_stack c <? lenZ (ds s1) + lenZ (als s1)); [reflexivity|].
  destruct rest as [|q rest2]; [reflexivity|]. apply IH.
Qed.

Lemma els_inv_start c ops d : els_inv c (set_ds (init_st ops) d).
Proof. unfold els_inv. destruct (after_genesis c); reflexivity. Qed.

Lemma els_inv_nil c s : els_inv c s -> cond s = [] -> els s = [].
Proof.
  unfold els_inv. intros Hi Hc. destruct (after_genesis c); [|exact Hi].
  rewrite Hc in Hi. destruct (els s); [reflexivity|discriminate].
Qed.

(** what the machine's state is at a script boundary: the start state of a fresh evaluation *)
Lemma boundary_state s next : cond s = [] -> els s = [] ->
  shift_script (set_als s []) next = set_ds (init_st next) (ds s).
Proof. intros Hc He. unfold shift_script, set_als, set_ds, init_st. cbn. rewrite Hc, He. reflexivity. Qed.

Lemma boundary_state_redeem s next below : cond s = [] -> els s = [] ->
  set_ds (shift_script (set_als s []) next) below = set_ds (init_st next) below.
Proof. intros Hc He. unfold shift_script, set_als, set_ds, init_st. cbn. rewrite Hc, He. reflexivity. Qed.

(** one script, as the machine runs it from a start state, against [eval_script] *)
Lemma run_script_eval so c p rest d acc :
  sigops_ok so -> sigops_els_ok so ->
  let ops := p :: rest in
  match fst (run_ops so c ops 0 (set_ds (init_st ops) d) acc) with
  | SErr => eval_script so c ops d = EErr
  | SPanic => eval_script so c ops d = EPanic
  | SReturn s => eval_script so c ops d = EOk (ds s) /\ after_genesis c = true /\ cond s = [] /\ els s = []
  | SEnd s => match cond s with
              | [] => eval_script so c ops d = EOk (ds s) /\ els s = []
              | _ :: _ => eval_script so c ops d = EErr
              end
  end.
Proof.
  intros Hso Hse ops. unfold eval_script. subst ops.
  rewrite (run_ops_fst so c (p :: rest) 0 _ [] acc).
  pose proof (run_ops_inv so c Hso Hse (p :: rest) 0%nat (set_ds (init_st (p :: rest)) d) acc
                (els_inv_start c _ d)) as Hinv.
  destruct (run_ops so c (p :: rest) 0 (set_ds (init_st (p :: rest)) d) acc) as [r acc'] eqn:E.
  cbn [fst] in *. destruct r as [s|s| |]; try reflexivity.
  - destruct (cond s) as [|t cr] eqn:Ec; [|reflexivity].
    split; [reflexivity|]. apply (els_inv_nil c); assumption.
  - destruct (run_ops_return so c Hso _ _ _ _ _ _ E) as [Hag Hc].
    split; [reflexivity|]. split; [exact Hag|]. split; [exact Hc|]. apply (els_inv_nil c); assumption.
Qed.

(** ** The three stages of the specification, named *)
Definition redeem_stage (so : sigops) (c : ctx) (d1 d2 : list bytes) : verdict :=
  if negb (check_error_condition c false d2) then VErr
  else match d1 with
       | [] => VPanic
       | script :: below =>
           match parse_script (c_err_on_checksig c) script with
           | None => VErr
           | Some redeem =>
               match eval_script so c redeem below with
               | EErr => VErr
               | EPanic => VPanic
               | EOk d3 => final_verdict c d3
               end
           end
       end.

Definition after_lock (so : sigops) (c : ctx) (bip16 : bool) (d1 : list bytes) (r : eres) : verdict :=
  match r with
  | EErr => VErr
  | EPanic => VPanic
  | EOk d2 => if p2sh_active c bip16 then redeem_stage so c d1 d2 else final_verdict c d2
  end.

Definition after_unlock (so : sigops) (c : ctx) (bip16 : bool) (lock : list pop) (r : eres) : verdict :=
  match r with
  | EErr => VErr
  | EPanic => VPanic
  | EOk d1 => after_lock so c bip16 d1 (eval_script so c lock d1)
  end.

Lemma verify_script_stages so c bip16 unlock lock : (unlock <> [] \/ lock <> []) ->
  verify_script so c bip16 unlock lock = after_unlock so c bip16 lock (eval_script so c unlock []).
Proof.
  intros H. unfold verify_script.
  destruct unlock as [|u ur]; [destruct lock as [|l lr]; [destruct H; congruence|]|]; reflexivity.
Qed.

Lemma fst_finish c d acc : fst (finish c d acc) = final_verdict c d.
Proof. reflexivity. Qed.

(** the redeem script *)
Lemma run_redeem_spec so c saved s acc :
  sigops_ok so -> sigops_els_ok so -> cond s = [] -> els s = [] ->
  fst (run_redeem so c saved (set_als s []) acc) = redeem_stage so c saved (ds s).
Proof.
  intros Hso Hse Hc He. unfold run_redeem, redeem_stage.
  change (ds (set_als s [])) with (ds s).
  destruct (negb (check_error_condition c false (ds s))); [reflexivity|].
  destruct saved as [|script below]; [reflexivity|].
  destruct (parse_script (c_err_on_checksig c) script) as [ops|]; [|reflexivity].
  rewrite (boundary_state_redeem s ops below Hc He).
  destruct ops as [|p rest]; [rewrite fst_finish; reflexivity|].
  pose proof (run_script_eval so c p rest below
                (snap (set_ds (init_st (p :: rest)) below) :: acc) Hso Hse) as Hr.
  cbv zeta in Hr.
  destruct (run_ops so c (p :: rest) 0 (set_ds (init_st (p :: rest)) below) _) as [r acc'].
  cbn [fst] in Hr. destruct r as [s2|s2| |].
  - unfold end_script. destruct (cond s2) as [|t cr].
    + destruct Hr as [-> _]. rewrite fst_finish. reflexivity.
    + rewrite Hr. reflexivity.
  - destruct Hr as [-> _]. rewrite fst_finish. reflexivity.
  - rewrite Hr. reflexivity.
  - rewrite Hr. reflexivity.
Qed.

(** the locking script.  [saved] is the stack the machine recorded for pay-to-script-hash; it only matters
    when that evaluation is in force *)
Lemma run_lock_spec so c bip16 saved p rest d1 acc :
  sigops_ok so -> sigops_els_ok so ->
  (p2sh_active c bip16 = true -> saved = d1) ->
  fst (run_lock so c bip16 saved (p :: rest) (set_ds (init_st (p :: rest)) d1) acc)
  = after_lock so c bip16 d1 (eval_script so c (p :: rest) d1).
Proof.
  intros Hso Hse Hsaved. unfold run_lock.
  pose proof (run_script_eval so c p rest d1 acc Hso Hse) as Hr. cbv zeta in Hr.
  destruct (run_ops so c (p :: rest) 0 (set_ds (init_st (p :: rest)) d1) acc) as [r acc'].
  cbn [fst] in Hr. destruct r as [s2|s2| |].
  - unfold end_script. destruct (cond s2) as [|t cr] eqn:Ec.
    + destruct Hr as [-> He]. unfold after_lock.
      fold (p2sh_active c bip16).
      destruct (p2sh_active c bip16) eqn:Ep.
      * rewrite (Hsaved eq_refl). apply run_redeem_spec; assumption.
      * rewrite fst_finish. reflexivity.
    + rewrite Hr. reflexivity.
  - destruct Hr as (-> & Hag & _ & _). unfold after_lock, p2sh_active.
    rewrite Hag, andb_false_r, fst_finish. reflexivity.
  - rewrite Hr. reflexivity.
  - rewrite Hr. reflexivity.
Qed.

(** ** thread.execute refines VerifyScript.
    The side condition excludes the one combination on which the two differ (see [lock_empty_p2sh_differs]
    below): pay-to-script-hash evaluation requested for an EMPTY locking script.  The entry point never
    produces it, because a pay-to-script-hash locking script has 23 bytes. *)
Theorem execute_refines_verify_script : forall so c bip16 unlock lock,
  sigops_ok so -> sigops_els_ok so ->
  (p2sh_active c bip16 = true -> lock <> []) ->
  fst (execute so c bip16 unlock lock) = verify_script so c bip16 unlock lock.
Proof.
  intros so c bip16 unlock lock Hso Hse Hlock. unfold execute.
  destruct unlock as [|u ur].
  - destruct lock as [|l lr]; [reflexivity|].
    rewrite verify_script_stages by (right; discriminate).
    cbn [eval_script after_unlock].
    change (init_st (l :: lr)) with (set_ds (init_st (l :: lr)) []).
    apply run_lock_spec; auto.
  - rewrite verify_script_stages by (left; discriminate).
    pose proof (run_script_eval so c u ur [] [] Hso Hse) as Hr. cbv zeta in Hr.
    change (set_ds (init_st (u :: ur)) []) with (init_st (u :: ur)) in Hr.
    destruct (run_ops so c (u :: ur) 0 (init_st (u :: ur)) []) as [r acc].
    cbn [fst] in Hr. destruct r as [s1|s1| |].
    + unfold end_script. destruct (cond s1) as [|t cr] eqn:Ec.
      * destruct Hr as [-> He]. cbn [after_unlock].
        rewrite (boundary_state s1 lock Ec He).
        destruct lock as [|l lr].
        -- cbn [eval_script after_lock].
           destruct (p2sh_active c bip16) eqn:Ep; [exfalso; apply (Hlock eq_refl); reflexivity|].
           rewrite fst_finish. reflexivity.
        -- apply run_lock_spec; auto.
      * rewrite Hr. reflexivity.
    + destruct Hr as (-> & Hag & Hc & He). cbn [after_unlock].
      rewrite (boundary_state s1 lock Hc He).
      assert (Ep : p2sh_active c bip16 = false) by (unfold p2sh_active; rewrite Hag, andb_false_r; reflexivity).
      destruct lock as [|l lr].
      * cbn [eval_script after_lock]. rewrite Ep, fst_finish. reflexivity.
      * apply run_lock_spec; auto. rewrite Ep. discriminate.
    + rewrite Hr. reflexivity.
    + rewrite Hr. reflexivity.
Qed.

(** ** The entry point *)
Lemma p2sh_parse_nonempty eoc lock_bytes lock :
  is_p2sh lock_bytes = true -> parse_script eoc lock_bytes = Some lock -> lock <> [].
Proof.
  intros Hp Hparse. unfold is_p2sh in Hp. destruct lock_bytes as [|a [|b r]]; try discriminate.
  apply andb_true_iff in Hp. destruct Hp as [Hp _].
  apply andb_true_iff in Hp. destruct Hp as [Hp _].
  apply andb_true_iff in Hp. destruct Hp as [Ha _].
  apply N.eqb_eq in Ha.
  unfold parse_script in Hparse. cbn [length] in Hparse. rewrite (parse_ops_hash160 _ _ _ _ _ Ha) in Hparse.
  destruct (parse_ops _ eoc (b :: r) 0) as [rest|]; [|discriminate].
  inversion Hparse; subst lock. discriminate.
Qed.

Theorem engine_execute_refines : forall so i,
  sigops_ok so -> sigops_els_ok so -> fst (engine_execute so i) = verify_entry so i.
Proof.
  intros so i Hso Hse. unfold engine_execute, verify_entry. fold (entry_ctx i).
  set (c := entry_ctx i).
  assert (Hbody : forall ubytes lbytes,
    fst (if has_flag c F_CLEANSTACK && negb (has_flag c F_BIP16) then (VErr, [])
         else if (max_script_size c <? lenZ ubytes) || (max_script_size c <? lenZ lbytes) then (VErr, [])
         else match parse_script (c_err_on_checksig c) ubytes with
              | None => (VErr, [])
              | Some u =>
                  match parse_script (c_err_on_checksig c) lbytes with
                  | None => (VErr, [])
                  | Some l =>
                      if has_flag c F_SIGPUSHONLY && negb (is_push_only u) then (VErr, [])
                      else
                        let p2sh := has_flag c F_BIP16 && negb (after_genesis c) && is_p2sh lbytes in
                        if p2sh && negb (is_push_only u) then (VErr, [])
                        else execute so c p2sh u l
                  end
              end)
    = (if has_flag c F_CLEANSTACK && negb (has_flag c F_BIP16) then VErr
       else if (max_script_size c <? lenZ ubytes) || (max_script_size c <? lenZ lbytes) then VErr
       else match parse_script (c_err_on_checksig c) ubytes with
            | None => VErr
            | Some u =>
                match parse_script (c_err_on_checksig c) lbytes with
                | None => VErr
                | Some l =>
                    if has_flag c F_SIGPUSHONLY && negb (is_push_only u) then VErr
                    else
                      let p2sh := has_flag c F_BIP16 && negb (after_genesis c) && is_p2sh lbytes in
                      if p2sh && negb (is_push_only u) then VErr
                      else verify_script so c p2sh u l
                end
            end)).
  { intros ubytes lbytes.
    destruct (has_flag c F_CLEANSTACK && negb (has_flag c F_BIP16)); [reflexivity|].
    destruct ((max_script_size c <? lenZ ubytes) || (max_script_size c <? lenZ lbytes)); [reflexivity|].
    destruct (parse_script (c_err_on_checksig c) ubytes) as [u|]; [|reflexivity].
    destruct (parse_script (c_err_on_checksig c) lbytes) as [l|] eqn:Epl; [|reflexivity].
    destruct (has_flag c F_SIGPUSHONLY && negb (is_push_only u)); [reflexivity|].
    cbv zeta.
    destruct (has_flag c F_BIP16 && negb (after_genesis c) && is_p2sh lbytes && negb (is_push_only u)); [reflexivity|].
    apply execute_refines_verify_script; auto.
    unfold p2sh_active. intros Hb.
    apply andb_true_iff in Hb. destruct Hb as [Hb _]. apply andb_true_iff in Hb. destruct Hb as [_ Hb].
    eapply p2sh_parse_nonempty; eauto. }
  destruct (ei_unlock i) as [|ub ur]; destruct (ei_lock i) as [|lb lr]; try reflexivity; apply Hbody.
Qed.

(** ** The real signature opcodes leave the else stack alone (no side condition needed: the statement is
    about successful outcomes only) *)
Definition kels (s : st) (o : outcome) : Prop :=
  forall s', (o = OOk s' \/ o = OReturn s') -> els s' = els s.

Lemma kels_err s : kels s OErr.
Proof. intros s' [H|H]; discriminate. Qed.
Lemma kels_panic s : kels s OPanic.
Proof. intros s' [H|H]; discriminate. Qed.
Lemma kels_push_bool s s1 b : els s1 = els s -> kels s (push_bool s1 b).
Proof. intros E s' [H|H]; inversion H; subst. exact E. Qed.
Lemma kels_finish s vf o : kels s o -> kels s (finish_verify vf o).
Proof.
  intros Hk. unfold finish_verify. destruct vf; [|exact Hk].
  destruct o as [s1|s1| |]; try exact Hk.
  assert (E : els s1 = els s) by (apply Hk; left; reflexivity).
  unfold verify_top. destruct (ds s1) as [|t r]; [apply kels_err|].
  destruct (as_bool t); [|apply kels_err].
  intros s' [H|H]; inversion H; subst. exact E.
Qed.
Lemma kels_opt s (o : option outcome) :
  (forall x, o = Some x -> kels s x) -> kels s (match o with Some x => x | None => OErr end).
Proof. intros H. destruct o as [x|]; [apply H; reflexivity|apply kels_err]. Qed.

Lemma checksig_kels orc t i c s idx vf :
  kels s (match checksig_run orc t i c s idx vf with Some o => o | None => OErr end).
Proof.
  unfold checksig_run.
  destruct (ds s) as [|pk [|full r]]; try apply kels_err.
  set (s1 := set_ds s r).
  assert (Hg : forall b, kels s (finish_verify vf (push_bool s1 b))).
  { intros b. apply kels_finish, kels_push_bool. reflexivity. }
  assert (Hge : kels s (finish_verify vf OErr)) by (apply kels_finish, kels_err).
  assert (Hgp : kels s (finish_verify vf OPanic)) by (apply kels_finish, kels_panic).
  destruct (split_last full) as [[sg hb]|]; cbn [option_map];
    [|destruct (negb (check_pubkey_enc c pk)); cbn [option_map]; [exact Hge|apply Hg]].
  destruct (negb (check_hash_type c (b2n hb))); cbn [option_map]; [exact Hge|].
  destruct (check_sig_enc c sg); cbn [option_map]; [|exact Hge|exact Hgp].
  destruct (negb (check_pubkey_enc c pk)); cbn [option_map]; [exact Hge|].
  destruct (unparse _) as [up|]; cbn [option_map]; [|exact Hge].
  assert (Hgf : kels s (finish_verify vf (checksig_failed c s1 full))).
  { unfold checksig_failed. destruct (has_flag c F_NULLFAIL && Nat.ltb 0 (length full))%bool; [exact Hge|apply Hg]. }
  destruct (sighash_for t i up (b2n hb)) as [h|e| | |]; cbn [option_map];
    [|exact Hge|exact Hgp|exact Hgp|exact Hgp].
  destruct (negb (orc_parse_pub orc pk)); cbn [option_map]; [exact Hgf|].
  destruct (negb (orc_parse_sig orc (uses_der_parser c) sg)); cbn [option_map]; [exact Hgf|].
  destruct (orc_verify orc pk h sg (uses_der_parser c)) as [[|]|]; cbn [option_map];
    [apply Hg|exact Hgf|apply kels_err].
Qed.

Lemma checkmultisig_kels orc t i c s idx vf :
  kels s (match checkmultisig_run orc t i c s idx vf with Some o => o | None => OErr end).
Proof.
  unfold checkmultisig_run.
  destruct (ds s) as [|nk d1]; [apply kels_err|].
  destruct (pop_count c nk) as [nkz|]; [|apply kels_err]. cbv zeta.
  destruct (to_int32 nkz <? 0); [apply kels_err|].
  destruct (max_pubkeys c <? to_int32 nkz); [apply kels_err|].
  destruct (max_ops c <? nops s + to_int32 nkz); [apply kels_err|].
  destruct (pop_n (to_int32 nkz) d1) as [[pks d2]|]; [|apply kels_err].
  destruct d2 as [|ns d3]; [apply kels_err|].
  destruct (pop_count c ns) as [nsz|]; [|apply kels_err].
  destruct (to_int32 nsz <? 0); [apply kels_err|].
  destruct (to_int32 nkz <? to_int32 nsz); [apply kels_err|].
  destruct (pop_n (to_int32 nsz) d3) as [[sigs d4]|]; [|apply kels_err].
  destruct d4 as [|dummy d5]; [apply kels_err|].
  destruct (has_flag c F_STRICTMULTISIG && negb (Nat.eqb (length dummy) 0))%bool; [apply kels_err|].
  destruct (ms_loop _ _ _ _ _ _ _ _ _ _ _ _ _) as [b| | | | |];
    try apply kels_err; try apply kels_panic.
  - destruct (negb b && has_flag c F_NULLFAIL && existsb _ sigs)%bool; [apply kels_err|].
    apply kels_finish, kels_push_bool. reflexivity.
  - apply kels_finish, kels_push_bool. reflexivity.
Qed.

Theorem sigops_els_ok_mk orc t i : sigops_els_ok (mk_sigops orc t i).
Proof.
  intros c s idx vf s'. cbn [mk_sigops so_checksig so_checkmultisig].
  pose proof (checksig_kels orc t i c s idx vf) as A.
  pose proof (checkmultisig_kels orc t i c s idx vf) as B.
  intros [H|[H|[H|H]]]; [apply A|apply A|apply B|apply B]; auto.
Qed.

(** the loud variant (an unanswered oracle query is a panic) as well *)
Theorem sigops_els_ok_mk_loud orc t i : sigops_els_ok (mk_sigops_loud orc t i).
Proof.
  intros c s idx vf s'. cbn [mk_sigops_loud so_checksig so_checkmultisig].
  pose proof (checksig_kels orc t i c s idx vf) as A.
  pose proof (checkmultisig_kels orc t i c s idx vf) as B.
  destruct (checksig_run orc t i c s idx vf) as [o1|]; destruct (checkmultisig_run orc t i c s idx vf) as [o2|];
    cbn iota in A, B; intros [H|[H|[H|H]]]; try discriminate;
    first [solve [apply A; auto] | solve [apply B; auto]].
Qed.

(** the entry point with the real signature opcodes ([tx_ctx_ok] is the side condition of [sigops_ok_mk]) *)
Corollary engine_execute_refines_mk : forall orc t i inp, tx_ctx_ok t i ->
  fst (engine_execute (mk_sigops orc t i) inp) = verify_entry (mk_sigops orc t i) inp.
Proof. intros orc t i inp Hok. apply engine_execute_refines; [apply sigops_ok_mk; exact Hok|apply sigops_els_ok_mk]. Qed.

(** ** Non-vacuity *)
Definition run_entry (unlock lock : bytes) (flags : N) : verdict :=
  verify_entry no_sigops (mkExecInput unlock lock flags false false 0 0 0).
Definition run_model (unlock lock : bytes) (flags : N) : verdict :=
  fst (engine_execute no_sigops (mkExecInput unlock lock flags false false 0 0 0)).

(** (a) OP_1 | OP_1 OP_EQUAL *)
Example verify_a : run_entry [x51] [x51; x87] 0 = VOk /\ run_model [x51] [x51; x87] 0 = VOk.
Proof. vm_compute. split; reflexivity. Qed.

(** (b) after Genesis: OP_1 OP_TOALTSTACK OP_RETURN | OP_FROMALTSTACK: the alt stack does not survive *)
Example verify_b :
  run_entry [x51; x6b; x6a] [x6c] 16384 = VErr /\ run_model [x51; x6b; x6a] [x6c] 16384 = VErr.
Proof. vm_compute. split; reflexivity. Qed.

(** (c) after Genesis: OP_1 OP_RETURN | empty *)
Example verify_c : run_entry [x51; x6a] [] 16384 = VOk /\ run_model [x51; x6a] [] 16384 = VOk.
Proof. vm_compute. split; reflexivity. Qed.

(** (d) pay-to-script-hash before Genesis: push <OP_1> | OP_HASH160 <hash160 of the redeem script> OP_EQUAL;
    and with the redeem script <OP_0> the hash comparison succeeds but the redeem script leaves false *)
Definition p2sh_lock (redeem : bytes) : bytes := [xa9; x14] ++ hash160 redeem ++ [x87].
Example verify_d :
  is_p2sh (p2sh_lock [x51]) = true /\
  run_entry [x01; x51] (p2sh_lock [x51]) 1 = VOk /\ run_model [x01; x51] (p2sh_lock [x51]) 1 = VOk /\
  run_entry [x01; x00] (p2sh_lock [x00]) 1 = VErr /\ run_model [x01; x00] (p2sh_lock [x00]) 1 = VErr /\
  (* without the BIP16 flag the redeem script is not evaluated *)
  run_entry [x01; x00] (p2sh_lock [x00]) 0 = VOk /\
  (* after Genesis it is not evaluated either *)
  run_entry [x01; x00] (p2sh_lock [x00]) 16385 = VOk.
Proof. vm_compute. repeat split; reflexivity. Qed.

(** directly on parsed scripts *)
Example verify_script_runs :
  let c0 := mkCtx 0 false 0 0 0 true in
  let cg := mkCtx 16384 false 0 0 0 true in
  let op v := mkPop v 1 [] true in
  verify_script no_sigops c0 false [op OP_1] [op OP_1; op OP_EQUAL] = VOk /\
  verify_script no_sigops cg false [op OP_1; op OP_TOALTSTACK; op OP_RETURN] [op OP_FROMALTSTACK] = VErr /\
  verify_script no_sigops cg false [op OP_1; op OP_RETURN] [] = VOk /\
  verify_script no_sigops c0 false [] [] = VErr /\
  (* an unbalanced conditional at the end of the unlocking script *)
  verify_script no_sigops c0 false [op OP_1; op OP_IF] [op OP_ENDIF; op OP_1] = VErr /\
  fst (execute no_sigops c0 false [op OP_1; op OP_IF] [op OP_ENDIF; op OP_1]) = VErr.
Proof. vm_compute. repeat split; reflexivity. Qed.

(** the combination excluded by the side condition of [execute_refines_verify_script]: P2SH evaluation
    requested with an empty locking script, unlocking script "push <OP_RETURN>".  The machine skips the
    zero-length locking script and goes straight to the final check (stack [[0x6a]]: true); the
    specification evaluates the pushed item as the redeem script (OP_RETURN before Genesis: error). *)
Example lock_empty_p2sh_differs :
  let c0 := mkCtx 1 false 0 0 0 true in
  let unlock := [mkPop 1 2 [x6a] true] in
  fst (execute no_sigops c0 true unlock []) = VOk /\ verify_script no_sigops c0 true unlock [] = VErr.
Proof. vm_compute. split; reflexivity. Qed.

Print Assumptions execute_refines_verify_script.
Print Assumptions engine_execute_refines.
Print Assumptions no_sigops_els_ok.
Print Assumptions sigops_els_ok_mk.
Print Assumptions engine_execute_refines_mk.
Print Assumptions sigops_els_ok_mk_loud.
