(** C04 x C20: the signing path of model/Sign.v (unlocker.Simple / Tx.FillInput) under the ordinals flows of
    model/Ord.v.

    (1) REFINEMENT.  model/Ord.v's [fill_input] is written over an abstract unlocker [signer t j flags].  With
        [simple_signer key] - "the bt.Unlocker handed over for input j is an unlocker.Simple around the key
        [key j]" - it IS [Sign.fill_input (Some (key j))] on every in-range index, up to the error code
        ([fill_input_refines]); for the hash types the flows use (all carry FORKID) the only non-success outcome of
        [Sign.fill_input] on an in-range index is an error, never a panic ([sign_fill_input_forkid_outcomes]), so
        nothing but the error code is forgotten.
    (2) WHAT EACH SIGNATURE IS OVER.  [sign_loop_signs] strengthens [sign_loop_spec] of proofs/OrdProofs.v: it
        remembers, for every UTXO of the loop, the transaction, the index and the (defaulted) flags the unlocker was
        called with.  Those transactions differ from the final one in unlocking scripts only, which a FORKID
        digest does not read ([unlocking_script_ignores_unlocks_forkid], from C02's
        forkid_ignores_unlocking_scripts; no well-formedness needed).  Hence in the transaction a flow returns,
        the unlocking script of every input the loop signed is exactly what unlocker.Simple returns when run on
        the RETURNED transaction ([*_inputs_sign_final_tx]), i.e. (with [signer_ok]) push(sig ++ [type]) push(key)
        with sig the key's signature over CalcInputSignatureHash of the returned transaction
        ([*_inputs_signed_over_final_digest]); and the C04 acceptance theorem applies to it
        ([*_input_accepted]).  For the bidder the statement is about the bid transaction, and the SINGLE|FORKID
        signature hash of the library is shown unchanged by the seller's acceptance ([bid_sighash_survives]). *)
From Coq Require Import List NArith ZArith Lia ZifyN ZifyNat ZifyBool Bool.
From Coq Require Import Strings.Byte.
From GoBT Require Import lib.Bytes lib.VarInt lib.Checked lib.Sha256 lib.Ripemd160 model.Tx gen.Consts spec.FeeSpec
  model.Fees model.Change spec.DigestSpec model.SigHash model.SigHashWire model.Push model.Classify model.ScriptNum
  model.Interp model.CheckSig model.Sign model.Ord proofs.TxProofs proofs.SigHashProofs proofs.ClassifyProofs
  proofs.CheckSigProofs proofs.P2PKHProofs proofs.AuditAC04 proofs.AuditASigHash proofs.SignProofs proofs.OrdProofs
  proofs.AuditC20.
Import ListNotations.
Local Open Scope N_scope.
Local Open Scope bool_scope.

Local Opaque hash160 sha256 sha256d.

(** * 1. Ord.fill_input is Sign.fill_input *)

(** the abstract unlocker of model/Ord.v when every input j is handed an unlocker.Simple around [key j]
    (in the Go flows: [*u.Unlocker] of the UTXO at that position, [OrdinalUnlocker] for the ordinal input) *)
Definition simple_signer (key : N -> Sign.signer) : tx -> N -> N -> option bytes :=
  fun t j f => match unlocking_script (key j) t j f with SgOk u => Some u | _ => None end.

(** what model/Ord.v keeps of a FillInput outcome: the transaction, or "the unlocker returned an error" *)
Definition flow_of_sign (r : sign_res tx) : flow tx := match r with SgOk t => Done t | _ => Fail ESign end.

Lemma set_unlock_is_with_unlock i u : set_unlock i u = with_unlock i u.
Proof. reflexivity. Qed.

Lemma mapi_from_id {A} (f : N -> A -> A) : forall l k, (forall i x, k <= i -> f i x = x) -> mapi_from f k l = l.
Proof.
  induction l as [|x r IH]; intros k H; cbn [mapi_from]; [reflexivity|].
  rewrite H by lia. rewrite IH; [reflexivity|]. intros i y Hi. apply H. lia.
Qed.

Lemma mapi_from_set_unlock_at u : forall l k n,
  mapi_from (fun i x => if i =? k + N.of_nat n then set_unlock x u else x) k l = set_unlock_at l n u.
Proof.
  induction l as [|x r IH]; intros k n; cbn [mapi_from set_unlock_at]; [reflexivity|]. destruct n as [|n].
  - replace (k =? k + N.of_nat 0) with true by lia. f_equal.
    apply mapi_from_id. intros i y Hi. replace (i =? k + N.of_nat 0) with false by lia. reflexivity.
  - replace (k =? k + N.of_nat (S n)) with false by lia. f_equal. rewrite <- (IH (k + 1) n).
    apply mapi_from_ext. intros j y. replace (k + 1 + N.of_nat n) with (k + N.of_nat (S n)) by lia. reflexivity.
Qed.

(** Tx.InsertInputUnlockingScript of model/Sign.v and the [set_unlock_at] of model/Ord.v are the same update *)
Lemma with_unlock_at_is_set_unlock_at t j u :
  with_unlock_at t j u = set_ins t (set_unlock_at (tx_ins t) (N.to_nat j) u).
Proof.
  unfold with_unlock_at, set_ins. f_equal. unfold mapi.
  rewrite <- (mapi_from_set_unlock_at u (tx_ins t) 0 (N.to_nat j)).
  apply mapi_from_ext. intros i x. rewrite N.add_0_l, N2Nat.id. reflexivity.
Qed.

Lemma default_type_is_ord_default f : default_type f = (if f =? 0 then 65 else f).
Proof. reflexivity. Qed.

(** THE REFINEMENT: on an index inside the transaction (the only ones the flows pass: [sign_loop] reads
    tx.Inputs[j] first, the other calls follow a length check), model/Ord.v's FillInput over [simple_signer key]
    is model/Sign.v's FillInput with an unlocker.Simple around [key j], success for success with the same
    transaction, every other outcome as [Fail ESign] *)
Theorem fill_input_refines key t j f : j < N.of_nat (length (tx_ins t)) ->
  Ord.fill_input (simple_signer key) t j f = flow_of_sign (Sign.fill_input (Some (key j)) t j f).
Proof.
  intros Hj. unfold Ord.fill_input, Sign.fill_input, fill_input_with, simple_signer. cbn [option_map].
  rewrite <- !default_type_is_ord_default.
  assert (E0 : unlocking_script (key j) t j (default_type f) = unlocking_script (key j) t j f).
  { unfold unlocking_script. rewrite default_type_idem. reflexivity. }
  rewrite E0.
  destruct (unlocking_script (key j) t j f) as [u| | | |]; try reflexivity.
  replace (j <? N.of_nat (length (tx_ins t))) with true by lia.
  unfold insert_input_unlocking_script. rewrite nthN_nth_error.
  destruct (nth_error (tx_ins t) (N.to_nat j)) as [inp|] eqn:Hn.
  - cbn [flow_of_sign]. f_equal. symmetry. apply (with_unlock_at_is_set_unlock_at t j u).
  - apply nth_error_None in Hn. lia.
Qed.

Corollary fill_input_refines_done key t j f t' : j < N.of_nat (length (tx_ins t)) ->
  (Ord.fill_input (simple_signer key) t j f = Done t' <-> Sign.fill_input (Some (key j)) t j f = SgOk t').
Proof.
  intros Hj. rewrite (fill_input_refines key t j f Hj).
  destruct (Sign.fill_input (Some (key j)) t j f); cbn [flow_of_sign]; split; congruence.
Qed.

(** outside the transaction the two differ - Go panics in Simple.UnlockingScript, [simple_signer] answers
    "error": the reason for the range hypothesis above *)
Lemma fill_input_out_of_range key t j f : N.of_nat (length (tx_ins t)) <= j ->
  Sign.fill_input (Some (key j)) t j f = SgPanic /\ Ord.fill_input (simple_signer key) t j f = Fail ESign.
Proof.
  intros Hj.
  assert (Hn : forall ht, unlocking_script (key j) t j ht = SgPanic).
  { intros ht. unfold unlocking_script. rewrite nthN_nth_error.
    replace (nth_error (tx_ins t) (N.to_nat j)) with (@None input); [reflexivity|].
    symmetry. apply nth_error_None. lia. }
  split.
  - unfold Sign.fill_input, fill_input_with. cbn [option_map]. rewrite Hn. reflexivity.
  - unfold Ord.fill_input, simple_signer. rewrite Hn. reflexivity.
Qed.

(** with a FORKID type on an in-range index below 2^31, unlocker.Simple returns a script or an error: the
    outcomes [Fail ESign] stands for are errors, no panic and no log.Fatal is hidden behind it *)
Theorem unlocking_script_forkid_outcomes s t j f : j < N.of_nat (length (tx_ins t)) -> j < 2147483648 ->
  default_type f < 256 -> has_forkid (default_type f) = true ->
  (exists u, unlocking_script s t j f = SgOk u) \/ (exists e, unlocking_script s t j f = SgErr e).
Proof.
  intros Hj Hj31 Hlt Hfk. unfold unlocking_script. rewrite nthN_nth_error.
  destruct (nth_error (tx_ins t) (N.to_nat j)) as [inp|] eqn:Hn; [|apply nth_error_None in Hn; lia].
  destruct (in_script inp) as [prev|]; [|right; eauto].
  destruct (script_type_ok prev) as [ty Hty]. rewrite Hty.
  rewrite (forkid_hash_is_sha256d t j (default_type f) Hlt Hfk).
  destruct (CheckSigProofs.forkid_preimage_total t j (default_type f) Hj31) as (P1 & P2 & P3).
  assert (G : (exists u, match match fst (calc_input_preimage t j (default_type f)) with
                               | SOk p => SOk (sha256 (sha256 p)) | other => other end with
                         | SOk sh => match sg_sign s sh with
                                     | Some sig => new_p2pkh_unlocking_script (sg_pub s) sig (default_type f)
                                     | None => SgErr ESignFailed end
                         | SigHash.SErr e => SgErr (ESigHash e) | SigHash.SPanic => SgPanic | SFatal => SgFatal | SFuel => SgFuel
                         end = SgOk u) \/
               (exists e, match match fst (calc_input_preimage t j (default_type f)) with
                               | SOk p => SOk (sha256 (sha256 p)) | other => other end with
                         | SOk sh => match sg_sign s sh with
                                     | Some sig => new_p2pkh_unlocking_script (sg_pub s) sig (default_type f)
                                     | None => SgErr ESignFailed end
                         | SigHash.SErr e => SgErr (ESigHash e) | SigHash.SPanic => SgPanic | SFatal => SgFatal | SFuel => SgFuel
                         end = SgErr e)).
  { destruct (fst (calc_input_preimage t j (default_type f))) as [p|e| | |]; try congruence; [|right; eauto].
    destruct (sg_sign s (sha256 (sha256 p))) as [sig|]; [|right; eauto].
    unfold new_p2pkh_unlocking_script. destruct (encode_parts _); [left|right]; eauto. }
  destruct ty; try (right; eexists; reflexivity); exact G.
Qed.

Corollary sign_fill_input_forkid_outcomes s t j f : j < N.of_nat (length (tx_ins t)) -> j < 2147483648 ->
  default_type f < 256 -> has_forkid (default_type f) = true ->
  (exists t', Sign.fill_input (Some s) t j f = SgOk t') \/ (exists e, Sign.fill_input (Some s) t j f = SgErr e).
Proof.
  intros Hj Hj31 Hlt Hfk. unfold Sign.fill_input, fill_input_with. cbn [option_map].
  assert (E : unlocking_script s t j (default_type f) = unlocking_script s t j f).
  { unfold unlocking_script. rewrite default_type_idem. reflexivity. }
  rewrite E. destruct (unlocking_script_forkid_outcomes s t j f Hj Hj31 Hlt Hfk) as [(u & ->)|(e & ->)]; [|right; eauto].
  left. unfold insert_input_unlocking_script. rewrite nthN_nth_error.
  destruct (nth_error (tx_ins t) (N.to_nat j)) eqn:Hn; [eauto|apply nth_error_None in Hn; lia].
Qed.

(** * 2. A FORKID unlocker does not read unlocking scripts (no well-formedness needed) *)
Lemma unlocking_script_ignores_unlocks_forkid s t1 t2 j f : default_type f < 256 -> has_forkid (default_type f) = true ->
  erase_unlocks t1 = erase_unlocks t2 ->
  unlocking_script s t1 j f = unlocking_script s t2 j f.
Proof.
  intros Hlt Hfk He. unfold unlocking_script. rewrite !nthN_nth_error.
  assert (Hins : map erase_unlock (tx_ins t1) = map erase_unlock (tx_ins t2)) by (injection He; auto).
  assert (Hn : option_map erase_unlock (nth_error (tx_ins t1) (N.to_nat j))
               = option_map erase_unlock (nth_error (tx_ins t2) (N.to_nat j)))
    by (rewrite <- !nth_error_map, Hins; reflexivity).
  destruct (nth_error (tx_ins t1) (N.to_nat j)) as [i1|], (nth_error (tx_ins t2) (N.to_nat j)) as [i2|];
    try discriminate; [|reflexivity].
  cbn [option_map] in Hn. injection Hn as _ _ _ _ Hsc. rewrite <- Hsc.
  rewrite !(forkid_hash_is_sha256d _ j (default_type f) Hlt Hfk).
  rewrite (forkid_ignores_unlocking_scripts t1 t2 j (default_type f) He). reflexivity.
Qed.

Lemma erase_set_unlock_at : forall ins n u, map erase_unlock (set_unlock_at ins n u) = map erase_unlock ins.
Proof.
  induction ins as [|i r IH]; intros [|n] u; cbn [set_unlock_at map]; try reflexivity.
  rewrite IH. reflexivity.
Qed.

Lemma set_unlock_at_here : forall ins n u a, nth_error ins n = Some a ->
  nth_error (set_unlock_at ins n u) n = Some (with_unlock a u).
Proof.
  induction ins as [|i r IH]; intros [|n] u a H; cbn [set_unlock_at nth_error] in *; try discriminate.
  - injection H as <-. reflexivity.
  - apply IH. exact H.
Qed.

(** * 3. The signing loop, remembering what each signature was made over *)
Definition loop_pos (skip i : N) : N := if skip <=? i then i + 1 else i.
Definition ord_default (flags : N) : N := if flags =? 0 then 65 else flags.

Section Loop.
Variable signer : tx -> N -> N -> option bytes.

Lemma fill_input_signs t j f t' : Ord.fill_input signer t j f = Done t' ->
  erase_unlocks t' = erase_unlocks t /\
  (forall k, k <> N.to_nat j -> nth_error (tx_ins t') k = nth_error (tx_ins t) k) /\
  exists a u, nth_error (tx_ins t) (N.to_nat j) = Some a /\ signer t j (ord_default f) = Some u /\
              nth_error (tx_ins t') (N.to_nat j) = Some (with_unlock a u).
Proof.
  unfold Ord.fill_input, ord_default. destruct (signer t j (if f =? 0 then 65 else f)) as [u|] eqn:Hs; [|discriminate].
  destruct (N.ltb_spec j (N.of_nat (length (tx_ins t)))) as [Hlt|]; [|discriminate]. intros [= <-].
  split; [|split].
  - unfold erase_unlocks, set_ins. cbn [tx_version tx_ins tx_outs tx_lock]. rewrite erase_set_unlock_at. reflexivity.
  - intros k Hk. cbn [set_ins tx_ins]. apply set_unlock_at_other. lia.
  - destruct (nth_error (tx_ins t) (N.to_nat j)) as [a|] eqn:Hn; [|apply nth_error_None in Hn; lia].
    exists a, u. split; [reflexivity|]. split; [reflexivity|]. cbn [set_ins tx_ins]. apply set_unlock_at_here. exact Hn.
Qed.

(** [sign_loop t us i skip flags = Done t']: nothing but unlocking scripts changes; positions before the first
    one visited and position [skip] are untouched; and for the p-th UTXO of the loop, the input at position
    [loop_pos skip (i + p)] carries the script the unlocker returned for THAT index and the defaulted flags on a
    transaction [tm] that differs from [t] (hence from [t']) in unlocking scripts only *)
Lemma sign_loop_signs skip flags : forall us t i t', sign_loop signer t us i skip flags = Done t' ->
  erase_unlocks t' = erase_unlocks t /\
  (forall k, (k < N.to_nat (loop_pos skip i))%nat -> nth_error (tx_ins t') k = nth_error (tx_ins t) k) /\
  nth_error (tx_ins t') (N.to_nat skip) = nth_error (tx_ins t) (N.to_nat skip) /\
  forall p, (p < length us)%nat ->
    let j := loop_pos skip (i + N.of_nat p) in
    exists tm a u, erase_unlocks tm = erase_unlocks t /\ nth_error (tx_ins t) (N.to_nat j) = Some a /\
      signer tm j (ord_default flags) = Some u /\ nth_error (tx_ins t') (N.to_nat j) = Some (with_unlock a u).
Proof.
  induction us as [|u r IH]; intros t i t' H; cbn [sign_loop] in H.
  - injection H as <-. repeat split; try reflexivity. intros p Hp. cbn in Hp. lia.
  - fold (loop_pos skip i) in H. set (j := loop_pos skip i) in *.
    destruct (nth_error (tx_ins t) (N.to_nat j)) as [inp|]; [|discriminate].
    destruct (negb (bytes_eqb (u_txid u) (in_txid inp))); [discriminate|].
    destruct (Ord.fill_input signer t j flags) as [t1| |] eqn:F; cbn [fbind] in H; try discriminate.
    apply fill_input_signs in F as (E1 & K1 & a & sc & Ha & Hs & Hn1).
    apply IH in H as (E2 & K2 & S2 & P2).
    assert (Hmono : j < loop_pos skip (i + 1)) by (unfold j, loop_pos; destruct (N.leb_spec skip i), (N.leb_spec skip (i + 1)); lia).
    assert (Hskip : j <> skip) by (unfold j, loop_pos; destruct (N.leb_spec skip i); lia).
    split; [congruence|]. split; [|split].
    + intros k Hk. rewrite K2 by lia. apply K1. lia.
    + rewrite S2. apply K1. lia.
    + intros [|p] Hp; cbv zeta.
      * rewrite N.add_0_r. fold j. exists t, a, sc. split; [reflexivity|]. split; [exact Ha|]. split; [exact Hs|].
        rewrite K2 by lia. exact Hn1.
      * cbn [length] in Hp. destruct (P2 p ltac:(lia)) as (tm & a' & u' & Em & Ha' & Hs' & Hn').
        replace (i + 1 + N.of_nat p) with (i + N.of_nat (S p)) in * by lia.
        set (j' := loop_pos skip (i + N.of_nat (S p))) in *.
        assert (j < j') by (unfold j, j', loop_pos; destruct (N.leb_spec skip i), (N.leb_spec skip (i + N.of_nat (S p))); lia).
        exists tm, a', u'. split; [congruence|]. split; [|split; assumption].
        rewrite <- Ha'. symmetry. apply K1. lia.
Qed.
End Loop.

(** * 4. What the loop leaves behind, when the unlockers are unlocker.Simple values *)

Lemma loop_pos_inv skip j : j <> skip -> loop_pos skip (if j <? skip then j else j - 1) = j.
Proof.
  intros H. unfold loop_pos. destruct (N.ltb_spec j skip).
  - destruct (N.leb_spec skip j); lia.
  - destruct (N.leb_spec skip (j - 1)); lia.
Qed.

Lemma erase_unlocks_length t1 t2 : erase_unlocks t1 = erase_unlocks t2 -> length (tx_ins t1) = length (tx_ins t2).
Proof. intros H. injection H as _ H _ _. rewrite <- (map_length erase_unlock), H, map_length. reflexivity. Qed.

(** the loop run from i = 0 over a transaction with one input more than there are UTXOs (the one at [skip] belongs to
    somebody else), FORKID flags: in the RETURNED transaction [t'], the unlocking script of every input but
    [skip] is what unlocker.Simple around that position's key returns when run on [t'] itself with the loop's flags *)
Lemma sign_loop_final key skip flags us t t' :
  sign_loop (simple_signer key) t us 0 skip flags = Done t' ->
  default_type flags < 256 -> has_forkid (default_type flags) = true ->
  length (tx_ins t) = S (length us) -> (N.to_nat skip <= length us)%nat ->
  erase_unlocks t' = erase_unlocks t /\
  forall j inp, j <> N.to_nat skip -> nth_error (tx_ins t') j = Some inp ->
    unlocking_script (key (N.of_nat j)) t' (N.of_nat j) flags = SgOk (in_unlock inp).
Proof.
  intros H Hlt Hfk Hlen Hskip. apply sign_loop_signs in H as (E & _ & _ & P). split; [exact E|].
  intros j inp Hj Hn.
  assert (Hjl : (j < S (length us))%nat).
  { rewrite <- Hlen, <- (erase_unlocks_length _ _ E). apply nth_error_Some. congruence. }
  set (jn := N.of_nat j). set (p := if jn <? skip then jn else jn - 1).
  assert (Hp : (N.to_nat p < length us)%nat) by (unfold p, jn; destruct (N.ltb_spec (N.of_nat j) skip); lia).
  destruct (P (N.to_nat p) Hp) as (tm & a & u & Em & Ha & Hs & Hn'). cbv zeta in *.
  rewrite N.add_0_l, N2Nat.id in *. unfold p in *. rewrite (loop_pos_inv skip jn) in * by (unfold jn; lia).
  unfold jn in *. rewrite Nat2N.id in *. rewrite Hn in Hn'. injection Hn' as ->. cbn [with_unlock in_unlock].
  unfold simple_signer in Hs. change (ord_default flags) with (default_type flags) in Hs.
  destruct (unlocking_script (key (N.of_nat j)) tm (N.of_nat j) (default_type flags)) as [u'| | | |] eqn:Hu; try discriminate.
  injection Hs as ->.
  assert (E0 : forall x, unlocking_script (key (N.of_nat j)) x (N.of_nat j) (default_type flags)
                       = unlocking_script (key (N.of_nat j)) x (N.of_nat j) flags).
  { intros x. unfold unlocking_script. rewrite default_type_idem. reflexivity. }
  rewrite E0 in Hu. rewrite <- Hu.
  apply unlocking_script_ignores_unlocks_forkid; try assumption. congruence.
Qed.

(** where the flows call the loop *)
Section Expose.
Variable signer : tx -> N -> N -> option bytes.

Lemma accept_listing_loop listed L us buyer dummy chg q A :
  accept_listing signer listed L us buyer dummy chg q = Done A ->
  exists T us', sign_loop signer T us' 0 1 0 = Done A /\ length (tx_ins T) = S (length us') /\ (1 <= length us')%nat.
Proof.
  unfold accept_listing. destruct (validate_listing listed L); cbn [negb]; [|discriminate].
  destruct (tx_ins L) as [|seller_in ?]; [discriminate|]. destruct (tx_outs L) as [|seller_out ?]; [discriminate|].
  destruct (length us <? 2)%nat; [discriminate|].
  destruct (move_first_above (out_sats seller_out) [] us) as [us'|] eqn:M; [|discriminate].
  destruct (move_first_above_spec _ _ _ _ M) as (u0 & rest & -> & _ & _).
  unfold accept_listing_assemble.
  destruct (from_utxos new_tx [u0]) as [t1| |] eqn:F1; cbn [fbind]; try discriminate.
  apply from_utxos_spec in F1 as [-> _].
  destruct (from_utxos _ rest) as [t2| |] eqn:F2; cbn [fbind]; try discriminate.
  apply from_utxos_spec in F2 as [-> _].
  destruct (change_then_check _ q chg) as [t3| |] eqn:C; cbn [fbind]; try discriminate.
  apply change_then_check_spec in C as (_ & I3 & _).
  intros S. exists t3, (u0 :: rest). split; [exact S|]. rewrite I3.
  cbn [new_tx tx_version tx_ins tx_outs tx_lock map app add_input add_output length].
  rewrite ?app_length, ?map_length. cbn [length]. rewrite ?map_length. lia.
Qed.

Lemma accept_listing_2d_loop listed L us buyer dummy chg q A :
  accept_listing_2d signer listed L us buyer dummy chg q = Done A ->
  exists T, sign_loop signer T us 0 2 0 = Done A /\ length (tx_ins T) = S (length us) /\ (2 <= length us)%nat.
Proof.
  unfold accept_listing_2d. destruct (validate_listing listed L); cbn [negb]; [|discriminate].
  destruct (tx_ins L) as [|seller_in ?]; [discriminate|]. destruct (tx_outs L) as [|seller_out ?]; [discriminate|].
  destruct (length us <? 3)%nat; [discriminate|].
  unfold accept_listing_2d_assemble. destruct us as [|u0 [|u1 rest]]; try discriminate.
  destruct (from_utxos new_tx [u0; u1]) as [t1| |] eqn:F1; cbn [fbind]; try discriminate.
  apply from_utxos_spec in F1 as [-> _].
  destruct (from_utxos _ rest) as [t2| |] eqn:F2; cbn [fbind]; try discriminate.
  apply from_utxos_spec in F2 as [-> _].
  destruct (change_then_check _ q chg) as [t3| |] eqn:C; cbn [fbind]; try discriminate.
  apply change_then_check_spec in C as (_ & I3 & _).
  intros S. exists t3. split; [exact S|]. rewrite I3.
  cbn [new_tx tx_version tx_ins tx_outs tx_lock map app add_input add_output length].
  rewrite ?app_length, ?map_length. cbn [length]. rewrite ?map_length. lia.
Qed.

Lemma make_bid_loop bid otx ov us buyer dummy chg q dprev dpay P :
  make_bid signer bid otx ov us buyer dummy chg q dprev dpay = Done P ->
  exists T us', sign_loop signer T us' 0 1 67 = Done P /\ length (tx_ins T) = S (length us') /\ (1 <= length us')%nat.
Proof.
  unfold make_bid. destruct (length us <? 2)%nat; [discriminate|].
  destruct (move_first_above bid [] us) as [us'|] eqn:M; [|discriminate].
  destruct (move_first_above_spec _ _ _ _ M) as (u0 & rest & -> & _ & _).
  destruct (from_utxos new_tx [u0]) as [t1| |] eqn:F1; cbn [fbind]; try discriminate.
  apply from_utxos_spec in F1 as [-> _].
  destruct (Nat.eqb (length otx) 32); cbn [negb]; [|discriminate].
  destruct (from_utxos _ rest) as [t2| |] eqn:F2; cbn [fbind]; try discriminate.
  apply from_utxos_spec in F2 as [-> _].
  destruct (change_new _ q chg) as [r t3] eqn:C.
  apply change_new_shape in C as (_ & I3 & _).
  destruct r as [has|e| |]; try discriminate.
  intros S. exists t3, (u0 :: rest). split; [exact S|]. rewrite I3.
  cbn [new_tx tx_version tx_ins tx_outs tx_lock map app add_input add_output length].
  rewrite ?app_length, ?map_length. cbn [length]. rewrite ?map_length. lia.
Qed.

Lemma make_bid_2d_loop bid otx ov us buyer dummy chg q dprev dpay P :
  make_bid_2d signer bid otx ov us buyer dummy chg q dprev dpay = Done P ->
  exists T, sign_loop signer T us 0 2 67 = Done P /\ length (tx_ins T) = S (length us) /\ (2 <= length us)%nat.
Proof.
  unfold make_bid_2d. destruct (length us <? 3)%nat; [discriminate|].
  destruct us as [|u0 [|u1 rest]]; try discriminate.
  destruct (from_utxos new_tx [u0; u1]) as [t1| |] eqn:F1; cbn [fbind]; try discriminate.
  apply from_utxos_spec in F1 as [-> _].
  destruct (Nat.eqb (length otx) 32); cbn [negb]; [|discriminate].
  destruct (from_utxos _ rest) as [t2| |] eqn:F2; cbn [fbind]; try discriminate.
  apply from_utxos_spec in F2 as [-> _].
  destruct (change_new _ q chg) as [r t3] eqn:C.
  apply change_new_shape in C as (_ & I3 & _).
  destruct r as [has|e| |]; try discriminate.
  intros S. exists t3. split; [exact S|]. rewrite I3.
  cbn [new_tx tx_version tx_ins tx_outs tx_lock map app add_input add_output length].
  rewrite ?app_length, ?map_length. cbn [length]. rewrite ?map_length. lia.
Qed.
End Expose.

(** * 5. C20 clause 1 for the buyer's / bidder's own inputs *)

(** AcceptOrdinalSaleListing: in the completed transaction [A], the unlocking script of every input but the
    seller's (input 1) is what unlocker.Simple around that input's key returns for that input of [A] ITSELF with
    SigHashFlags 0 (= ALL|FORKID) - although it was produced mid-loop, on a transaction in which the later
    inputs were still unsigned *)
Theorem listing_buyer_inputs_sign_final_tx key listed L us buyer dummy chg q A :
  accept_listing (simple_signer key) listed L us buyer dummy chg q = Done A ->
  forall j inp, j <> 1%nat -> nth_error (tx_ins A) j = Some inp ->
    unlocking_script (key (N.of_nat j)) A (N.of_nat j) 0 = SgOk (in_unlock inp).
Proof.
  intros H. destruct (accept_listing_loop _ _ _ _ _ _ _ _ _ H) as (T & us' & S & Hl & Hs).
  apply (sign_loop_final key 1 0 us' T A S); try assumption; try reflexivity.
Qed.

(** AcceptOrdinalSaleListing2Dummies: the same, the seller's input being input 2 *)
Theorem listing_2d_buyer_inputs_sign_final_tx key listed L us buyer dummy chg q A :
  accept_listing_2d (simple_signer key) listed L us buyer dummy chg q = Done A ->
  forall j inp, j <> 2%nat -> nth_error (tx_ins A) j = Some inp ->
    unlocking_script (key (N.of_nat j)) A (N.of_nat j) 0 = SgOk (in_unlock inp).
Proof.
  intros H. destruct (accept_listing_2d_loop _ _ _ _ _ _ _ _ _ H) as (T & S & Hl & Hs).
  apply (sign_loop_final key 2 0 us T A S); try assumption; try reflexivity.
Qed.

(** MakeBidToBuy1SatOrdinal(2Dummies): in the bid [P], every input but the ordinal placeholder carries what
    unlocker.Simple returns for that input of [P] itself with SINGLE|FORKID (0x43) *)
Theorem bid_bidder_inputs_sign_bid_tx key bid otx ov us buyer dummy chg q dprev dpay P :
  make_bid (simple_signer key) bid otx ov us buyer dummy chg q dprev dpay = Done P ->
  forall j inp, j <> 1%nat -> nth_error (tx_ins P) j = Some inp ->
    unlocking_script (key (N.of_nat j)) P (N.of_nat j) 67 = SgOk (in_unlock inp).
Proof.
  intros H. destruct (make_bid_loop _ _ _ _ _ _ _ _ _ _ _ _ H) as (T & us' & S & Hl & Hs).
  apply (sign_loop_final key 1 67 us' T P S); try assumption; try reflexivity.
Qed.

Theorem bid_2d_bidder_inputs_sign_bid_tx key bid otx ov us buyer dummy chg q dprev dpay P :
  make_bid_2d (simple_signer key) bid otx ov us buyer dummy chg q dprev dpay = Done P ->
  forall j inp, j <> 2%nat -> nth_error (tx_ins P) j = Some inp ->
    unlocking_script (key (N.of_nat j)) P (N.of_nat j) 67 = SgOk (in_unlock inp).
Proof.
  intros H. destruct (make_bid_2d_loop _ _ _ _ _ _ _ _ _ _ _ _ H) as (T & S & Hl & Hs).
  apply (sign_loop_final key 2 67 us T P S); try assumption; try reflexivity.
Qed.

(** * 6. From "the script unlocker.Simple returns on the final transaction" to the digest and to acceptance *)

(** with a go-bk-shaped key: that script is push(sig ++ [type]) push(key), [sig] being the key's signature over
    CalcInputSignatureHash of input [j] of [A] ITSELF for the defaulted type, which is also the type byte
    opcodeCheckSig reads off the script *)
Theorem self_signed_is_signature_over_own_digest s A j f inp : f < 256 -> signer_ok s ->
  unlocking_script s A j f = SgOk (in_unlock inp) ->
  exists sig h, fst (calc_input_signature_hash A j (default_type f)) = SOk h /\ sg_sign s h = Some sig /\
    in_unlock inp = p2pkh_unlock sig (default_type f) (sg_pub s) /\
    carried_signature (in_unlock inp) = Some sig /\ carried_hash_type (in_unlock inp) = Some (default_type f).
Proof.
  intros Hf Hok H.
  destruct (unlocking_script_is_p2pkh_unlock s A j f _ Hok H) as (_ & _ & sig & h & _ & _ & _ & Hh & Hsg & Hu).
  destruct (carried_type_is_digest_type s A j f _ Hf Hok H) as (sig' & h' & Hh' & Hsg' & C1 & C2).
  rewrite Hh in Hh'. injection Hh' as <-. rewrite Hsg in Hsg'. injection Hsg' as <-.
  exists sig, h. repeat split; assumption.
Qed.

Lemma set_unlock_at_self : forall ins n a, nth_error ins n = Some a -> set_unlock_at ins n (in_unlock a) = ins.
Proof.
  induction ins as [|i r IH]; intros [|n] a H; cbn [set_unlock_at nth_error] in *; try discriminate.
  - injection H as <-. destruct i; reflexivity.
  - rewrite (IH n a H). reflexivity.
Qed.

(** FillInput on a transaction whose input already carries what the unlocker returns hands back that transaction *)
Lemma fill_input_self s A j f inp : nth_error (tx_ins A) (N.to_nat j) = Some inp ->
  unlocking_script s A j f = SgOk (in_unlock inp) -> Sign.fill_input (Some s) A j f = SgOk A.
Proof.
  intros Hn H. unfold Sign.fill_input, fill_input_with. cbn [option_map].
  assert (E : unlocking_script s A j (default_type f) = unlocking_script s A j f).
  { unfold unlocking_script. rewrite default_type_idem. reflexivity. }
  rewrite E, H. unfold insert_input_unlocking_script. rewrite nthN_nth_error, Hn. f_equal.
  change (with_unlock_at A j (in_unlock inp) = A).
  rewrite with_unlock_at_is_set_unlock_at, (set_unlock_at_self _ _ _ Hn). destruct A; reflexivity.
Qed.

Section AcceptSelf.
Local Open Scope Z_scope.

(** the C04 acceptance theorem, read on a transaction [A] whose input [idx] carries what unlocker.Simple returns
    on [A] itself, for the standard FORKID types: the interpreter model run on [A] accepts that input.  Residual
    hypotheses as in C04_filled_input_accepted: the spent script pays to the signing key, FORKID is in force,
    flag sanity, size, push-only envelope body, and the oracle hypothesis for the digest of [A] *)
Theorem self_signed_input_accepted_forkid : forall (orc : sig_oracle) (s : Sign.signer) (A : tx) (idx : N) (inp : input)
    (flags ht : N) (body : bytes) (insc : bool) (bops : list pop),
  let ht' := default_type ht in
  let pk := sg_pub s in
  let lock := p2pkh_lock (hash160 pk) ++ (if insc then inscription_suffix body else []) in
  let c := mkCtx (normalise_flags flags) true (Z.of_N (tx_lock A)) (Z.of_N (tx_version A)) (Z.of_N (in_seq inp)) false in
  wf_tx A -> (idx + 1 < two32)%N -> In ht' [0x41; 0x42; 0x43; 0xc1; 0xc2; 0xc3]%N ->
  nthN (tx_ins A) idx = Some inp -> in_script inp = Some lock -> signer_ok s ->
  unlocking_script s A idx ht = SgOk (in_unlock inp) ->
  has_flag c F_FORKID = true ->
  (has_flag c F_CLEANSTACK = true -> has_flag c F_BIP16 = true) ->
  lenZ lock <= max_script_size c ->
  (insc = true -> parse_ops (length body) false body 1 = Some bops /\ is_push_only bops = true /\
                  Forall (fun p => lenZ (p_data p) <= max_elem c) bops) ->
  (forall h, fst (calc_input_signature_hash A idx ht') = SOk h -> oracle_accepts_signer orc c s h) ->
  fst (engine_execute (mk_sigops orc (engine_tx A idx (in_unlock inp) lock (in_sats inp)) idx)
         (mkExecInput (in_unlock inp) lock flags true true (Z.of_N (tx_lock A)) (Z.of_N (tx_version A))
                      (Z.of_N (in_seq inp)))) = VOk.
Proof.
  intros orc s A idx inp flags ht body insc bops ht' pk lock c Hwf Hidx Hin Hn Hsc Hok Hu Hfk Hcs Hsz Hbody Horc.
  assert (Hht : (ht < 256)%N).
  { unfold ht', default_type, sh_all_forkid in Hin. cbn [In] in Hin. destruct (N.eqb_spec ht 0); lia. }
  assert (Hself : Sign.fill_input (Some s) A idx ht = SgOk A).
  { apply (fill_input_self s A idx ht inp); [rewrite <- nthN_nth_error; exact Hn|exact Hu]. }
  destruct (filled_input_accepted orc s A A idx inp flags ht body insc bops Hwf Hidx Hht Hn Hsc Hok Hself Hcs Hsz Hbody)
    as (inp' & Hn' & _ & _ & _ & Hacc).
  - fold c ht'. apply hash_type_ok_forkid; assumption.
  - left. fold c ht'. rewrite Hfk. cbn [andb]. cbn [In] in Hin.
    repeat (destruct Hin as [<-|Hin]; [vm_compute; reflexivity|]). destruct Hin.
  - exact Horc.
  - rewrite Hn in Hn'. injection Hn' as <-. exact Hacc.
Qed.
End AcceptSelf.

(** * 7. The counter-party's signature in the completed transactions: EVERY input *)

(** the bidder's SINGLE|FORKID unlocker returns on the accepted transaction [A] what it returned on the bid [P],
    for every input but the seller's: the library's signature hash is the same (C20_bid_sigs_survive, carried to
    CalcInputSignatureHash through C02's refinement) *)
Lemma keeps_unlocking_script k P A bid ss s j : accepted_keeps k P A bid ss -> j <> k ->
  nth_error (tx_ins A) j = nth_error (tx_ins P) j -> wf_tx P ->
  N.of_nat (length (tx_outs P)) < two31 -> N.of_nat j < two32 ->
  unlocking_script s A (N.of_nat j) 67 = unlocking_script s P (N.of_nat j) 67.
Proof.
  intros K Hj Hn W Ho Hj32. unfold unlocking_script. rewrite !nthN_nth_error, Nat2N.id, Hn.
  destruct (nth_error (tx_ins P) j) as [inp|] eqn:E; [|reflexivity].
  destruct (in_script inp) as [prev|] eqn:Es; [|reflexivity].
  change (default_type 67) with 67.
  assert (X : fst (calc_input_signature_hash A (N.of_nat j) 67) = fst (calc_input_signature_hash P (N.of_nat j) 67));
    [|rewrite X; reflexivity].
  rewrite !(forkid_hash_is_sha256d _ _ 67) by (reflexivity || lia).
  assert (Hne : in_txid inp <> []).
  { pose proof (wf_tx_txid P inp j W E) as H32. intros Z. rewrite Z in H32. discriminate. }
  assert (HoA : N.of_nat (length (tx_outs A)) < two31) by (destruct K as (_ & _ & -> & _); exact Ho).
  pose proof (forkid_preimage_is_spec P (N.of_nat j) 67 inp prev ltac:(lia) Hj32 Ho) as SP.
  pose proof (forkid_preimage_is_spec A (N.of_nat j) 67 inp prev ltac:(lia) Hj32 HoA) as SA.
  rewrite Nat2N.id in SP, SA. specialize (SP E Hne Es). rewrite Hn in SA. specialize (SA eq_refl Hne Es).
  pose proof (keeps_sigs_survive k P A bid ss j prev (in_sats inp) K Hj) as S. change OrdSpec.SINGLE_FORKID with 67 in S.
  rewrite <- S, SP in SA. injection SA as ->. reflexivity.
Qed.

(** MakeBidToBuy1SatOrdinal then AcceptBidToBuy1SatOrdinal (any seller-side unlocker): in the COMPLETED
    transaction [A] every bidder input (all but input 1) carries what the bidder's unlocker.Simple returns on [A]
    itself with SINGLE|FORKID *)
Theorem bid_bidder_inputs_sign_final_tx key seller bid otx ov us buyer dummy chg q dprev dpay P ou eq ss A :
  make_bid (simple_signer key) bid otx ov us buyer dummy chg q dprev dpay = Done P ->
  accept_bid seller ou bid eq P ss = Done A -> wf_tx P -> bid < two64 ->
  N.of_nat (length (tx_outs P)) < two31 -> N.of_nat (length (tx_ins P)) < two32 ->
  forall j inp, j <> 1%nat -> nth_error (tx_ins A) j = Some inp ->
    unlocking_script (key (N.of_nat j)) A (N.of_nat j) 67 = SgOk (in_unlock inp).
Proof.
  intros HM HA W Hb Ho Hi j inp Hj Hn.
  destruct (accept_bid_shape seller _ _ _ _ _ _ HA W Hb _ eq_refl) as (_ & _ & _ & _ & _ & _ & KA & _ & _).
  assert (HnP : nth_error (tx_ins A) j = nth_error (tx_ins P) j).
  { rewrite (KA j Hj). cbn [accepted_unsigned tx_ins]. apply set_in_at_nth_other. exact Hj. }
  assert (Hjl : (j < length (tx_ins P))%nat) by (apply nth_error_Some; congruence).
  rewrite (keeps_unlocking_script 1 P A bid ss _ j (accept_bid_seller_paid seller ou bid eq P ss A HA W Hb) Hj HnP W Ho ltac:(lia)).
  apply (bid_bidder_inputs_sign_bid_tx key _ _ _ _ _ _ _ _ _ _ _ HM j inp Hj). congruence.
Qed.

Theorem bid_2d_bidder_inputs_sign_final_tx key seller bid otx ov us buyer dummy chg q dprev dpay P prevs eq ss A :
  make_bid_2d (simple_signer key) bid otx ov us buyer dummy chg q dprev dpay = Done P ->
  accept_bid_2d seller prevs bid eq P ss = Done A -> wf_tx P -> bid < two64 ->
  N.of_nat (length (tx_outs P)) < two31 -> N.of_nat (length (tx_ins P)) < two32 ->
  forall j inp, j <> 2%nat -> nth_error (tx_ins A) j = Some inp ->
    unlocking_script (key (N.of_nat j)) A (N.of_nat j) 67 = SgOk (in_unlock inp).
Proof.
  intros HM HA W Hb Ho Hi j inp Hj Hn.
  destruct (accept_bid_2d_shape seller _ _ _ _ _ _ HA W Hb) as (ou & _ & HT).
  destruct (HT _ eq_refl) as (_ & _ & _ & _ & _ & _ & KA & _ & _).
  assert (HnP : nth_error (tx_ins A) j = nth_error (tx_ins P) j).
  { rewrite (KA j Hj). cbn [accepted_unsigned tx_ins]. apply set_in_at_nth_other. exact Hj. }
  assert (Hjl : (j < length (tx_ins P))%nat) by (apply nth_error_Some; congruence).
  rewrite (keeps_unlocking_script 2 P A bid ss _ j (accept_bid_2d_seller_paid seller prevs bid eq P ss A HA W Hb) Hj HnP W Ho ltac:(lia)).
  apply (bid_2d_bidder_inputs_sign_bid_tx key _ _ _ _ _ _ _ _ _ _ _ HM j inp Hj). congruence.
Qed.

(** a single FillInput, seen from its result *)
Lemma fill_input_final key t j f t' : Ord.fill_input (simple_signer key) t j f = Done t' ->
  default_type f < 256 -> has_forkid (default_type f) = true ->
  exists inp, nth_error (tx_ins t') (N.to_nat j) = Some inp /\ unlocking_script (key j) t' j f = SgOk (in_unlock inp).
Proof.
  intros H Hlt Hfk. apply fill_input_signs in H as (E & _ & a & u & _ & Hs & Hn).
  exists (with_unlock a u). split; [exact Hn|]. cbn [with_unlock in_unlock].
  unfold simple_signer in Hs. change (ord_default f) with (default_type f) in Hs.
  destruct (unlocking_script (key j) t j (default_type f)) as [u'| | | |] eqn:Hu; try discriminate. injection Hs as ->.
  assert (E0 : unlocking_script (key j) t j (default_type f) = unlocking_script (key j) t j f).
  { unfold unlocking_script. rewrite default_type_idem. reflexivity. }
  rewrite E0 in Hu. rewrite <- Hu. apply unlocking_script_ignores_unlocks_forkid; assumption.
Qed.

(** ListOrdinalForSale with an unlocker.Simple around [sk], then AcceptOrdinalSaleListing: the seller's input
    (input 1 of [A]) carries what the seller's unlocker returns on [A] itself at index 1 with
    SINGLE|ANYONECANPAY|FORKID (0xc3) - the digest half is C20_seller_sig_survives *)
Theorem listing_seller_input_signs_final_tx sk buyer_signer ou so listed L us buyer dummy chg q A :
  list_ordinal (simple_signer (fun _ => sk)) ou so = Done L ->
  accept_listing buyer_signer listed L us buyer dummy chg q = Done A ->
  exists seller_in, nth_error (tx_ins A) 1 = Some seller_in /\ tx_ins L = [seller_in] /\
    unlocking_script sk A 1 195 = SgOk (in_unlock seller_in).
Proof.
  intros HL HA.
  assert (HL' := HL). unfold list_ordinal in HL'.
  destruct (from_utxos new_tx [ou]) as [t0| |]; cbn [fbind] in HL'; try discriminate.
  destruct (fill_input_final (fun _ => sk) _ 0 195 L HL' ltac:(reflexivity) ltac:(reflexivity)) as (si & Hsi & Hu).
  change (N.to_nat 0) with 0%nat in Hsi.
  destruct (list_ordinal_shape _ ou so L HL) as (u & _ & EL & H32).
  assert (EI : tx_ins L = [si]).
  { rewrite EL in Hsi |- *. cbn [tx_ins nth_error] in *. injection Hsi as <-. reflexivity. }
  assert (Hsc : in_script si = Some (u_script ou)) by (rewrite EL in Hsi; cbn in Hsi; injection Hsi as <-; reflexivity).
  assert (Hne : in_txid si <> []).
  { rewrite EL in Hsi; cbn in Hsi; injection Hsi as <-. cbn. intros Z. rewrite Z in H32. discriminate. }
  destruct (seller_sig_survives buyer_signer listed L us buyer dummy chg q A si (u_script ou) HA
              ltac:(rewrite EL; reflexivity) ltac:(rewrite EL; reflexivity) EI Hne Hsc) as (_ & HS & _).
  destruct (seller_output_fixed buyer_signer _ _ _ _ _ _ _ _ HA) as (si' & so' & EI' & _ & _ & I1 & _).
  rewrite EI in EI'. injection EI' as <-.
  exists si. split; [exact I1|]. split; [exact EI|].
  rewrite <- Hu. unfold unlocking_script. rewrite !nthN_nth_error.
  change (N.to_nat 1) with 1%nat. change (N.to_nat 0) with 0%nat. rewrite I1, Hsi, Hsc.
  change (default_type 195) with 195. rewrite HS. reflexivity.
Qed.

Print Assumptions fill_input_refines.
Print Assumptions sign_fill_input_forkid_outcomes.
Print Assumptions listing_buyer_inputs_sign_final_tx.
Print Assumptions bid_bidder_inputs_sign_final_tx.
Print Assumptions self_signed_input_accepted_forkid.
Print Assumptions listing_seller_input_signs_final_tx.

(** * 8. Clause 1 for the buyer's inputs of a listing acceptance, end to end: accepted by the interpreter model
    run on the COMPLETED transaction (relative to the oracle, residual hypotheses of the C04 theorem) *)
Section BuyerAccepted.
Local Open Scope Z_scope.

Theorem listing_buyer_input_accepted : forall (orc : sig_oracle) key listed L us buyer dummy chg q (A : tx)
    (j : nat) (inp : input) (flags : N) (body : bytes) (insc : bool) (bops : list pop),
  let s := key (N.of_nat j) in
  let pk := sg_pub s in
  let lock := p2pkh_lock (hash160 pk) ++ (if insc then inscription_suffix body else []) in
  let c := mkCtx (normalise_flags flags) true (Z.of_N (tx_lock A)) (Z.of_N (tx_version A)) (Z.of_N (in_seq inp)) false in
  accept_listing (simple_signer key) listed L us buyer dummy chg q = Done A ->
  j <> 1%nat -> nth_error (tx_ins A) j = Some inp ->
  wf_tx A -> (N.of_nat j + 1 < two32)%N -> in_script inp = Some lock -> signer_ok s ->
  has_flag c F_FORKID = true ->
  (has_flag c F_CLEANSTACK = true -> has_flag c F_BIP16 = true) ->
  lenZ lock <= max_script_size c ->
  (insc = true -> parse_ops (length body) false body 1 = Some bops /\ is_push_only bops = true /\
                  Forall (fun p => lenZ (p_data p) <= max_elem c) bops) ->
  (forall h, fst (calc_input_signature_hash A (N.of_nat j) 65) = SOk h -> oracle_accepts_signer orc c s h) ->
  fst (engine_execute (mk_sigops orc (engine_tx A (N.of_nat j) (in_unlock inp) lock (in_sats inp)) (N.of_nat j))
         (mkExecInput (in_unlock inp) lock flags true true (Z.of_N (tx_lock A)) (Z.of_N (tx_version A))
                      (Z.of_N (in_seq inp)))) = VOk.
Proof.
  intros orc key listed L us buyer dummy chg q A j inp flags body insc bops s pk lock c H Hj Hn Hwf Hidx Hsc Hok Hfk Hcs Hsz Hb Horc.
  apply (self_signed_input_accepted_forkid orc s A (N.of_nat j) inp flags 0%N body insc bops); try assumption.
  - left. reflexivity.
  - rewrite nthN_nth_error, Nat2N.id. exact Hn.
  - apply (listing_buyer_inputs_sign_final_tx key listed L us buyer dummy chg q A H j inp Hj Hn).
Qed.
End BuyerAccepted.
Print Assumptions listing_buyer_input_accepted.
