(** stack.Depth (bscript/interpreter/stack.go), as printed from the Go source: the number of items.
    The Go stack is [rev d], [d] being the stack of model/Interp.v (top first). *)
From Coq Require Import List ZArith NArith Bool Lia ZifyN ZifyNat ZifyBool.
From Coq Require Import Strings.Byte.
From GoBT Require Import lib.Bytes lib.GoSem lib.GoInterp gen.Funcs proofs.GenFuncsTac proofs.GenFuncsInterpTac.
From GoBT Require model.Interp model.ScriptNum.
Import ListNotations.
Ltac Zify.zify_post_hook ::= Z.div_mod_to_equations.
Local Open Scope Z_scope.

Lemma stack_Depth_spec (d : list bytes) : Interp.lenZ d < 2147483648 ->
  stack_Depth (rev d) = Val (Interp.lenZ d).
Proof.
  intros Hd. pose proof (lenZ_nonneg d). unfold stack_Depth. rewrite go_len_rev. wrap32. reflexivity.
Qed.

#[global] Hint Rewrite stack_Depth_spec using stk_small : stk.
