(** stack.nipN (bscript/interpreter/stack.go), as printed from the Go source: on a stack of fewer than 2^31 items it
    removes the item [idx] places below the top and returns it, or fails without changing the stack
    ([nip_model] of proofs/GenFuncsInterpTac.v, in the model's order: the Go stack is [rev d]).  [Interp.roll_n] is
    this followed by a push (proofs/GenFuncs_stack_RollN.v). *)
From Coq Require Import List ZArith NArith Bool Lia ZifyN ZifyNat ZifyBool.
From Coq Require Import Strings.Byte.
From GoBT Require Import lib.Bytes lib.GoSem lib.GoInterp gen.Funcs proofs.GenFuncsTac proofs.GenFuncsInterpTac.
From GoBT Require model.Interp.
Import ListNotations.
Ltac Zify.zify_post_hook ::= Z.div_mod_to_equations.
Local Open Scope Z_scope.

Lemma stack_nipN_spec (i : Z) (d : list bytes) : Interp.lenZ d < 2147483648 -> in31 i ->
  stack_nipN i (rev d) = Val (go_st (nip_model i d)).
Proof.
  intros Hd Hi. pose proof (lenZ_nonneg d) as Hn. unfold in31 in Hi.
  unfold stack_nipN, nip_model, go_st. rewrite !go_len_rev. cbv zeta.
  wrap32.
  destruct ((i <? 0) || (Interp.lenZ d <=? i)) eqn:Ebad.
  - wrap32. go_decide. reflexivity.
  - wrap32. go_decide.
    rewrite (go_index_rev_at d _ i) by lia. cbn [bind fst snd].
    assert (Hlen : (Z.to_nat i < length d)%nat) by (unfold Interp.lenZ in *; lia).
    destruct (i =? 0) eqn:E0.
    + go_decide. rewrite go_slice_to_rev by lia. cbn [bind].
      replace (Z.to_nat i) with 0%nat by lia. cbn [firstn app].
      repeat f_equal. lia.
    + destruct (i =? Interp.lenZ d - 1) eqn:E1.
      * go_decide. unfold go_make_stack, go_max_alloc. go_decide. cbn [bind]. rewrite go_slice_from_rev by lia. cbn [bind].
        rewrite go_copy_all.
        2:{ rewrite repeat_length, rev_length, firstn_length. unfold Interp.lenZ in *. lia. }
        repeat f_equal.
        rewrite skipn_all2 by (unfold Interp.lenZ in *; lia). rewrite app_nil_r. f_equal. lia.
      * go_decide.
        rewrite go_slice_rev by lia. cbn [bind]. rewrite go_slice_to_rev by lia. cbn [bind].
        rewrite <- rev_app_distr.
        replace (Z.to_nat (Interp.lenZ d - Interp.lenZ d)) with 0%nat by lia. rewrite skipn_O.
        repeat f_equal; lia.
Qed.

#[global] Hint Rewrite stack_nipN_spec using stk_small : stk.
