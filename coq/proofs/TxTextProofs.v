(** Theorems about the text entry points (model/TxText.v): NewTxFromString accepts exactly the hex text of one
    transaction - nothing may follow it, whatever it is - and round-trips with Tx.String. *)
From Coq Require Import List NArith Lia String Ascii.
From Coq Require Import Strings.Byte.
From GoBT Require Import lib.Bytes lib.Hex lib.Parse lib.VarInt model.Tx model.TxText proofs.TxProofs proofs.TxLocal.
Import ListNotations.
Local Open Scope N_scope.

(** two characters at a time *)
Lemma string_ind2 (P : string -> Prop) :
  P EmptyString -> (forall a, P (String a EmptyString)) ->
  (forall a b r, P r -> P (String a (String b r))) -> forall s, P s.
Proof.
  intros H0 H1 H2.
  fix IH 1. intros [|a [|b r]].
  - exact H0.
  - apply H1.
  - apply H2. apply IH.
Qed.

(** decoding a text that continues: the decoded bytes of the front, then the decoded bytes of the continuation;
    undecodable iff the continuation is *)
Lemma hexdecode_app s t b : hexdecode s = Some b ->
  hexdecode (s ++ t) = match hexdecode t with Some c => Some (b ++ c)%list | None => None end.
Proof.
  revert b. induction s as [| a | a c r IH] using string_ind2; intros b H.
  - cbn in H. injection H as <-. cbn [append]. destruct (hexdecode t); reflexivity.
  - discriminate H.
  - cbn [append]. cbn [hexdecode] in *.
    destruct (hexval a) as [x|]; [|discriminate H].
    destruct (hexval c) as [y|]; [|discriminate H].
    destruct (hexdecode r) as [br|] eqn:Er; [|discriminate H].
    injection H as <-. rewrite (IH br eq_refl).
    destruct (hexdecode t); reflexivity.
Qed.

Lemma hexdecode_nil s : hexdecode s = Some [] -> s = EmptyString.
Proof.
  destruct s as [|a [|c r]]; [reflexivity|discriminate|].
  cbn [hexdecode]. destruct (hexval a), (hexval c), (hexdecode r); discriminate.
Qed.

(** accepted text = hex text of bytes that are exactly one transaction *)
Theorem from_string_iff s p :
  tx_from_string s = ROk p <-> exists b, hexdecode s = Some b /\ read_tx b = POk p (lenN b) [].
Proof.
  unfold tx_from_string. split.
  - destruct (hexdecode s) as [b|]; [|discriminate]. intros H. exists b. split; [reflexivity|].
    apply from_bytes_iff. exact H.
  - intros (b & -> & H). apply from_bytes_iff. exact H.
Qed.

Theorem from_string_total s : tx_from_string s <> RFuel.
Proof.
  unfold tx_from_string. destruct (hexdecode s) as [b|]; [|discriminate].
  unfold tx_from_bytes. pose proof (read_tx_never_out_of_fuel b) as K.
  destruct (read_tx b) as [p n r| |]; [destruct (n =? lenN b); discriminate|discriminate|congruence].
Qed.

(** Tx.String then NewTxFromString, and the same for the hex text of the extended serialisation *)
Theorem from_string_roundtrip_std t : wf_tx t -> ~ ambiguous t ->
  tx_from_string (tx_string t) = ROk (mkParsed (strip_tx t) false true).
Proof.
  intros Hwf Ha. unfold tx_from_string, tx_string. rewrite hexdecode_hex_of.
  apply from_bytes_roundtrip_std; assumption.
Qed.

Theorem from_string_roundtrip_ext t : wf_tx t ->
  tx_from_string (hex_of (tx_bytes true t)) = ROk (mkParsed (norm_tx t) true true).
Proof.
  intros Hwf. unfold tx_from_string. rewrite hexdecode_hex_of.
  apply from_bytes_roundtrip_ext; assumption.
Qed.

(** nothing may follow the transaction: an accepted text followed by ANY non-empty text - more hex digits, a second
    transaction, a dangling digit, characters that are not hex digits - is rejected *)
Theorem from_string_trailing_rejected s p suf :
  tx_from_string s = ROk p -> suf <> EmptyString -> tx_from_string (s ++ suf) = RErr.
Proof.
  intros H Hs. apply from_string_iff in H. destruct H as (b & Hb & Hr).
  unfold tx_from_string. rewrite (hexdecode_app _ suf _ Hb).
  destruct (hexdecode suf) as [c|] eqn:Ec; [|reflexivity].
  unfold tx_from_bytes. rewrite (read_tx_extend _ _ _ _ c Hr).
  destruct c as [|c0 cr]; [apply hexdecode_nil in Ec; contradiction|].
  replace (lenN b =? lenN (b ++ c0 :: cr)) with false; [reflexivity|].
  symmetry. apply N.eqb_neq. unfold lenN. rewrite app_length. cbn [List.length]. lia.
Qed.

(** an accepted text whose length prefixes are minimal is the text of the re-serialisation in the format it arrived
    in (up to the case of the digits: the decoded bytes are identical) *)
Theorem from_string_canonical s p : tx_from_string s = ROk p -> p_min p = true ->
  hexdecode s = Some (tx_bytes (p_ext p) (p_tx p)).
Proof.
  intros H Hm. apply from_string_iff in H. destruct H as (b & Hb & Hr).
  rewrite Hb. f_equal. pose proof (read_tx_canonical _ _ _ _ Hr Hm) as E.
  rewrite app_nil_r in E. exact E.
Qed.

(** the JSON [hex] member is the same entry point *)
Theorem from_json_hex_is_from_string s : tx_from_json_hex s = tx_from_string s.
Proof. reflexivity. Qed.
