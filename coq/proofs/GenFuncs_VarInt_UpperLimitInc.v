(** VarInt.UpperLimitInc (varint.go), as printed from the Go source, is [upper_limit_inc] of lib/VarInt.v. *)
From Coq Require Import List ZArith NArith Bool Lia ZifyN ZifyNat ZifyBool.
From GoBT Require Import lib.Bytes lib.VarInt lib.GoSem gen.Funcs proofs.GenFuncsTac.
Ltac Zify.zify_post_hook ::= Z.div_mod_to_equations.
Local Open Scope Z_scope.

Lemma VarInt_UpperLimitInc_is_model (v : N) : (v < 18446744073709551616)%N ->
  VarInt_UpperLimitInc (Z.of_N v) = Val (upper_limit_inc v).
Proof.
  intros Hv. unfold VarInt_UpperLimitInc, upper_limit_inc, go_conv, go_wrap. cbv zeta.
  go_split; try reflexivity; exfalso; lia.
Qed.
