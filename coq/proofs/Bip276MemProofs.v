(** C17 — encoding leaves the memory the payload lives in alone (model/Bip276Mem.v).

    For EVERY buffer and every call whose payload is a slice value into it (a window of any offset, length and
    capacity — also windows that overlap, lie outside the buffer, or have spare capacity over a sibling payload):
    - [encode_mem_read_only]    the buffer afterwards is the buffer before;
    - [encode_mem_value]        the text is the one model/Bip276.v gives for the bytes the window denotes;
    - [encode_seq_mem_texts]    calls one after the other on the same buffer: each text is the text of what its
                                window held BEFORE the first call (no call disturbs a sibling), the buffer is unchanged;
    - [encode_mem_repeatable]   encoding again gives the same text and the same buffer.
    And the statement discriminates: the encoder that appends the checksum to the payload it was handed
    ([encode_mem_appending]) gives the right text for the first of two adjacent payloads while the first four bytes
    of the second are overwritten, and the second then encodes to another text. *)
From Coq Require Import List NArith ZArith Bool String Arith.
From Coq Require Import Strings.Byte.
From GoBT Require Import lib.Bytes lib.Hex lib.Str lib.Sha256 model.Bip276 model.AsmArena model.Bip276Mem.
Import ListNotations.
Local Open Scope string_scope.

Lemma encode_mem_spec h c : encode_mem h c = (h, encode_bip276 (value_of h c)).
Proof.
  unfold encode_mem, encode_bip276, value_of, create_bip276, payload_of.
  cbn [b_prefix b_version b_network b_data].
  destruct ((c_version c <? 1) || (c_version c >? 255) || (c_network c <? 1) || (c_network c >? 255))%Z; reflexivity.
Qed.

Lemma encode_seq_mem_spec h cs :
  encode_seq_mem h cs = (h, map (fun c => encode_bip276 (value_of h c)) cs).
Proof.
  induction cs as [|c r IH]; cbn [encode_seq_mem map]; [reflexivity|].
  rewrite encode_mem_spec, IH. reflexivity.
Qed.

Theorem encode_mem_read_only : forall h c, fst (encode_mem h c) = h.
Proof. intros. now rewrite encode_mem_spec. Qed.

Theorem encode_mem_value : forall h c, snd (encode_mem h c) = encode_bip276 (value_of h c).
Proof. intros. now rewrite encode_mem_spec. Qed.

Theorem encode_seq_mem_texts : forall h cs,
  encode_seq_mem h cs = (h, map (fun c => encode_bip276 (value_of h c)) cs).
Proof. exact encode_seq_mem_spec. Qed.

Theorem encode_mem_repeatable : forall h c, encode_mem (fst (encode_mem h c)) c = encode_mem h c.
Proof. intros. now rewrite encode_mem_read_only. Qed.

(** whatever order the sibling payloads are encoded in, each gets the same text *)
Theorem encode_seq_mem_order_irrelevant : forall h cs c,
  In c cs -> In (encode_bip276 (value_of h c)) (snd (encode_seq_mem h cs)).
Proof.
  intros h cs c Hin. rewrite encode_seq_mem_spec. cbn [snd].
  apply (in_map (fun c => encode_bip276 (value_of h c))), Hin.
Qed.

(** ** the statement is not vacuous *)

(** two payloads next to each other in one buffer, between two guard bytes; the windows as a parser cuts them:
    the capacity of each runs to the end of the buffer *)
Definition demo_buf : bytes := [xee; x76; xa9; x14; x88; xac; x51; x52; x53; x54; x55; xee].
Definition demo_calls : list enc_call :=
  [mkCall "bitcoin-script" 1 1 (Win 1 5 11); mkCall "bitcoin-script" 1 1 (Win 6 5 6)].

Example demo_windows_denote :
  map (fun c => rd demo_buf (c_data c)) demo_calls = [[x76; xa9; x14; x88; xac]; [x51; x52; x53; x54; x55]].
Proof. vm_compute. reflexivity. Qed.

Example encoder_on_demo :
  encode_seq_mem demo_buf demo_calls =
  (demo_buf, [encode_bip276 (mkBip276 "bitcoin-script" 1 1 [x76; xa9; x14; x88; xac]);
              encode_bip276 (mkBip276 "bitcoin-script" 1 1 [x51; x52; x53; x54; x55])]).
Proof. vm_compute. reflexivity. Qed.

(** the appending encoder: the first text is the right one ... *)
Example appending_first_text :
  snd (encode_mem_appending demo_buf (mkCall "bitcoin-script" 1 1 (Win 1 5 11))) =
  encode_bip276 (mkBip276 "bitcoin-script" 1 1 [x76; xa9; x14; x88; xac]).
Proof. vm_compute. reflexivity. Qed.
(** ... the caller's buffer is no longer what it was: the second payload's first four bytes are the checksum ... *)
Example appending_writes :
  fst (encode_mem_appending demo_buf (mkCall "bitcoin-script" 1 1 (Win 1 5 11))) <> demo_buf.
Proof. vm_compute. discriminate. Qed.
Example appending_writes_only_behind_the_payload :
  let h1 := fst (encode_mem_appending demo_buf (mkCall "bitcoin-script" 1 1 (Win 1 5 11))) in
  firstn 6 h1 = firstn 6 demo_buf /\ skipn 10 h1 = skipn 10 demo_buf /\
  hex_of (firstn 4 (skipn 6 h1)) =
  checksum_of ("bitcoin-script:0101" ++ hex_of [x76; xa9; x14; x88; xac]).
Proof. vm_compute. repeat split. Qed.
(** ... and the sibling, encoded next, gets the text of other bytes *)
Example appending_second_text_wrong :
  nth 1 (snd (encode_seq_mem_appending demo_buf demo_calls)) "" <>
  encode_bip276 (mkBip276 "bitcoin-script" 1 1 [x51; x52; x53; x54; x55]).
Proof. vm_compute. discriminate. Qed.
(** with no spare capacity the appending encoder moves to a buffer of its own: the fault needs the capacity *)
Example appending_without_capacity_is_silent :
  encode_mem_appending demo_buf (mkCall "bitcoin-script" 1 1 (Win 1 5 5)) =
  encode_mem demo_buf (mkCall "bitcoin-script" 1 1 (Win 1 5 5)).
Proof. vm_compute. reflexivity. Qed.
(** the same for an EMPTY payload with capacity: nothing of it is read, four bytes are written *)
Example appending_empty_payload_writes :
  snd (encode_mem_appending demo_buf (mkCall "bitcoin-script" 1 1 (Win 6 0 6))) =
  encode_bip276 (mkBip276 "bitcoin-script" 1 1 []) /\
  fst (encode_mem_appending demo_buf (mkCall "bitcoin-script" 1 1 (Win 6 0 6))) <> demo_buf.
Proof. vm_compute. split; [reflexivity | discriminate]. Qed.
