(** Proofs about the public debugger object (model/DebugFanout.v), C19.

    1. the object is a [debugger] of model/Debug.v: attaching it changes neither verdict nor snapshots, and it ends where
       its 14 method loops, run over the engine's callback trace, leave it;
    2. order: per call of a method the handlers registered for THAT event run, in registration order, each once (stated
       with recording handlers: the log is, call by call, the block of labels registered for the call's event);
    3. compositionality: handlers that keep their state to themselves and only READ what they are shown do not influence
       each other - each ends exactly where it ends when attached alone; a handler that WRITES into the State object it
       is shown changes what the later handlers of the same event are shown (refuted example). *)
From Coq Require Import ZArith NArith Lia List Bool.
From Coq Require Import Strings.Byte.
From GoBT Require Import lib.Bytes model.ScriptNum model.Interp model.Debug model.DebugStack model.DebugFanout
  proofs.DebugWith.
Import ListNotations.

(** ** 0. The lists after Attach calls *)

Lemma handlers_of_new {U} r e : handlers_of (@new_debugger U r) e = [].
Proof. destruct e; reflexivity. Qed.

(** an Attach call appends to the list of its event and leaves the other 13 alone *)
Lemma handlers_of_attach {U} (r : reg U) d e :
  handlers_of (attach r d) e =
  if fevent_eqb (reg_event r) e then handlers_of d e ++ [reg_stf r] else handlers_of d e.
Proof. destruct d. destruct r, e; cbn; rewrite ?map_app; reflexivity. Qed.

Lemma handlers_of_attach_all {U} (rs : list (reg U)) : forall d e,
  handlers_of (attach_all rs d) e =
  handlers_of d e ++ map reg_stf (filter (fun r => fevent_eqb (reg_event r) e) rs).
Proof.
  induction rs as [|r rs IH]; intros d e; cbn [attach_all fold_left filter map].
  - rewrite app_nil_r. reflexivity.
  - fold (attach_all rs (attach r d)). rewrite IH, handlers_of_attach.
    destruct (fevent_eqb (reg_event r) e); cbn [map]; rewrite <- ?app_assoc; reflexivity.
Qed.

Lemma keep_len_same data : keep_len data data = data.
Proof. unfold keep_len. rewrite firstn_all, skipn_all, app_nil_r. reflexivity. Qed.

Lemma filter_map_comm {A B} (f : A -> B) (p : B -> bool) l :
  filter p (map f l) = map f (filter (fun x => p (f x)) l).
Proof. induction l as [|x l IH]; [reflexivity|]. cbn [map filter]. destruct (p (f x)); cbn [map]; rewrite IH; reflexivity. Qed.

(** a call of the method of event [e] on an object built by the Attach calls [rs]: the functions passed to the Attach
    method of [e], in the order of the calls, and no other *)
Theorem dispatch_registration_order : forall (U : Type) (rs : list (reg U)) rewind e sn data (u : U),
  dispatch e sn data (attach_all rs (new_debugger rewind)) u =
  snd (run_handlers (map reg_stf (filter (fun r => fevent_eqb (reg_event r) e) rs)) sn data u).
Proof. intros. unfold dispatch. rewrite handlers_of_attach_all, handlers_of_new. reflexivity. Qed.

(** ** 1. The object is a debugger *)

Lemma fan_replay_lifecycle {U} (d : fanout U) tr : forall u,
  replay (on_event (fan_debugger d)) tr u = fan_replay d (lifecycle_calls tr) u.
Proof.
  unfold replay, fan_replay, lifecycle_calls.
  induction tr as [|x tr IH]; intros u; [reflexivity|]. cbn [map fold_left]. rewrite IH. reflexivity.
Qed.

Theorem fanout_is_a_debugger : forall (U : Type) (d : fanout U) (u0 : U) so i,
  engine_execute_with (fan_debugger d) u0 so i =
  (engine_execute so i, fan_replay d (lifecycle_calls (engine_trace so i)) u0).
Proof. intros. rewrite engine_execute_with_spec, fan_replay_lifecycle. reflexivity. Qed.

Corollary fanout_never_changes_the_run : forall (U : Type) (rs : list (reg U)) rewind (u0 : U) so i,
  fst (engine_execute_with (fan_debugger (attach_all rs (new_debugger rewind))) u0 so i) = engine_execute so i.
Proof. intros. apply debugger_never_changes_the_run. Qed.

(** ** 2. Order *)

Lemma rec_reg_event {L} e (l : L) : reg_event (rec_reg e l) = e.
Proof. destruct e; reflexivity. Qed.
Lemma rec_reg_stf {L} e (l : L) sn data u : reg_stf (rec_reg e l) sn data u = (sn, data, u ++ [(e, l)]).
Proof. destruct e; reflexivity. Qed.

Lemma run_recorders {L} (els : list (fevent * L)) : forall sn data u,
  run_handlers (map (fun el => reg_stf (rec_reg (fst el) (snd el))) els) sn data u = (sn, data, u ++ els).
Proof.
  induction els as [|[e l] els IH]; intros sn data u; cbn [map run_handlers].
  - rewrite app_nil_r. reflexivity.
  - cbn [fst snd]. rewrite rec_reg_stf. cbn [fst snd]. rewrite keep_len_same, IH, <- app_assoc. reflexivity.
Qed.

Lemma labels_block {L} e (regs : list (fevent * L)) :
  map (fun l => (e, l)) (labels_for e regs) = filter (fun el => fevent_eqb (fst el) e) regs.
Proof.
  unfold labels_for. induction regs as [|[e' l] regs IH]; [reflexivity|]. cbn [filter fst].
  destruct (fevent_eqb e' e) eqn:E; [|exact IH].
  apply fevent_eqb_spec in E. subst e'. cbn [map snd]. rewrite IH. reflexivity.
Qed.

(** one call: the log grows by the labels registered for the call's event, in registration order *)
Lemma dispatch_recording {L} (regs : list (fevent * L)) e sn data u :
  dispatch e sn data (recording_fanout regs) u = u ++ map (fun l => (e, l)) (labels_for e regs).
Proof.
  unfold dispatch, recording_fanout. rewrite handlers_of_attach_all, handlers_of_new. cbn [app].
  rewrite filter_map_comm, map_map.
  erewrite filter_ext; [|intros el; rewrite rec_reg_event; reflexivity].
  rewrite run_recorders. cbn [snd]. rewrite labels_block. reflexivity.
Qed.

(** any sequence of calls (lifecycle and stack callbacks alike) *)
Theorem fanout_order_calls : forall (L : Type) (regs : list (fevent * L)) (tr : list fcall) u,
  fan_replay (recording_fanout regs) tr u = u ++ expected_log regs (map fc_event tr).
Proof.
  intros L regs tr. unfold fan_replay, expected_log.
  induction tr as [|c tr IH]; intros u; cbn [fold_left map flat_map].
  - rewrite app_nil_r. reflexivity.
  - rewrite IH, dispatch_recording, <- app_assoc. reflexivity.
Qed.

Lemma lifecycle_calls_events tr : map fc_event (lifecycle_calls tr) = map hook_of (map fst tr).
Proof. unfold lifecycle_calls. rewrite !map_map. reflexivity. Qed.

(** the engine's run: the log is, callback by callback of the engine's trace, the block of that callback's handlers *)
Theorem fanout_order : forall (L : Type) (regs : list (fevent * L)) so i,
  engine_execute_with (fan_debugger (recording_fanout regs)) [] so i =
  (engine_execute so i, expected_log regs (map hook_of (map fst (engine_trace so i)))).
Proof.
  intros. rewrite fanout_is_a_debugger, fanout_order_calls, lifecycle_calls_events. reflexivity.
Qed.

(** "each exactly once per occurrence, handlers of other events not at all": the part of the log written by the
    handlers of event [e] is their registration-order block, once per call of [e] *)
Fixpoint count_event (e : fevent) (l : list fevent) : nat :=
  match l with
  | [] => 0
  | x :: r => if fevent_eqb x e then S (count_event e r) else count_event e r
  end.

Lemma filter_block {L} (e x : fevent) (ls : list L) :
  filter (fun el : fevent * L => fevent_eqb (fst el) e) (map (fun l => (x, l)) ls) =
  if fevent_eqb x e then map (fun l => (x, l)) ls else [].
Proof.
  induction ls as [|l ls IH]; cbn [map filter fst]; [destruct (fevent_eqb x e); reflexivity|].
  rewrite IH. destruct (fevent_eqb x e); reflexivity.
Qed.

Theorem expected_log_per_event : forall (L : Type) (regs : list (fevent * L)) events e,
  filter (fun el => fevent_eqb (fst el) e) (expected_log regs events) =
  concat (repeat (map (fun l => (e, l)) (labels_for e regs)) (count_event e events)).
Proof.
  intros L regs events e. unfold expected_log.
  induction events as [|x events IH]; [reflexivity|]. cbn [flat_map count_event].
  rewrite filter_app, IH, filter_block.
  destruct (fevent_eqb x e) eqn:E; [|reflexivity].
  apply fevent_eqb_spec in E. subst x. reflexivity.
Qed.

(** ** 3. Compositionality *)
Section Slots.
  Context {H : Type}.

  Definition reg_read_only (r : reg H) : Prop := read_only (reg_stf r).

  Lemma slot_reg_event k (r : reg H) : reg_event (slot_reg k r) = reg_event r.
  Proof. destruct r; reflexivity. Qed.
  Lemma slot_reg_stf k (r : reg H) : reg_stf (slot_reg k r) = slot_st k (reg_stf r).
  Proof. destruct r; reflexivity. Qed.

  Definition slotf (kh : nat * stf H) : stf (nat -> H) := slot_st (fst kh) (snd kh).

  (** the handlers of one call, each in its slot, all reading only: the State object reaches every one of them as the
      engine handed it out, and slot [j] is touched by the handlers of slot [j] only *)
  Lemma run_slots : forall (sl : list (nat * stf H)) sn data u,
    Forall (fun kh => read_only (snd kh)) sl ->
    fst (run_handlers (map slotf sl) sn data u) = (sn, data) /\
    forall j, snd (run_handlers (map slotf sl) sn data u) j =
              fold_left (fun hv kh => if Nat.eqb (fst kh) j then snd (snd kh sn data hv) else hv) sl (u j).
  Proof.
    induction sl as [|[k h] sl IH]; intros sn data u HF; cbn [map run_handlers].
    - split; reflexivity.
    - inversion HF as [|x l Hh HF']; subst. cbn [snd] in Hh.
      assert (E1 : slotf (k, h) sn data u = (fst (h sn data (u k)), upd k (snd (h sn data (u k))) u)) by reflexivity.
      rewrite E1. cbn [fst snd]. rewrite (Hh sn data (u k)). cbn [fst snd]. rewrite keep_len_same.
      destruct (IH sn data (upd k (snd (h sn data (u k))) u) HF') as [A B]. split; [exact A|].
      intros j. rewrite B. cbn [fold_left fst snd]. unfold upd.
      rewrite (Nat.eqb_sym k j). destruct (Nat.eqb j k) eqn:E; [|reflexivity].
      apply Nat.eqb_eq in E. subst j. reflexivity.
  Qed.

  (** the handlers registered for event [e] among [rs], with their slots (first of [rs] has slot [k]) *)
  Fixpoint ev_slots (e : fevent) (k : nat) (rs : list (reg H)) : list (nat * stf H) :=
    match rs with
    | [] => []
    | r :: rest =>
        if fevent_eqb (reg_event r) e then (k, reg_stf r) :: ev_slots e (S k) rest else ev_slots e (S k) rest
    end.

  Lemma handlers_slot_regs e : forall rs k,
    map reg_stf (filter (fun r => fevent_eqb (reg_event r) e) (slot_regs k rs)) = map slotf (ev_slots e k rs).
  Proof.
    induction rs as [|r rs IH]; intros k; [reflexivity|]. cbn [slot_regs filter ev_slots].
    rewrite slot_reg_event. destruct (fevent_eqb (reg_event r) e); [|apply IH].
    cbn [map]. rewrite IH, slot_reg_stf. reflexivity.
  Qed.

  Lemma ev_slots_read_only e : forall rs k, Forall reg_read_only rs ->
    Forall (fun kh => read_only (snd kh)) (ev_slots e k rs).
  Proof.
    induction rs as [|r rs IH]; intros k HF; [constructor|]. inversion HF; subst. cbn [ev_slots].
    destruct (fevent_eqb (reg_event r) e); [constructor; [assumption|]|]; apply IH; assumption.
  Qed.

  Section Fold.
    Variables (sn : snapshot) (data : bytes) (e : fevent).
    Let F (j : nat) := fun (hv : H) (kh : nat * stf H) => if Nat.eqb (fst kh) j then snd (snd kh sn data hv) else hv.

    Lemma fold_ev_slots_skip : forall rs k j hv, j < k -> fold_left (F j) (ev_slots e k rs) hv = hv.
    Proof.
      induction rs as [|r rs IH]; intros k j hv Hlt; [reflexivity|]. cbn [ev_slots].
      destruct (fevent_eqb (reg_event r) e); [|apply IH; lia].
      cbn [fold_left]. unfold F at 2. cbn [fst]. destruct (Nat.eqb k j) eqn:E; [apply Nat.eqb_eq in E; lia|].
      apply IH. lia.
    Qed.

    Lemma fold_ev_slots_hit : forall rs k j r hv, nth_error rs j = Some r ->
      fold_left (F (k + j)) (ev_slots e k rs) hv =
      if fevent_eqb (reg_event r) e then snd (reg_stf r sn data hv) else hv.
    Proof.
      induction rs as [|r0 rs IH]; intros k j r hv Hn; [destruct j; discriminate|].
      destruct j as [|j]; cbn [nth_error] in Hn.
      - inversion Hn; subst r0. cbn [ev_slots]. rewrite Nat.add_0_r.
        destruct (fevent_eqb (reg_event r) e).
        + cbn [fold_left]. unfold F at 2. cbn [fst snd]. rewrite Nat.eqb_refl. apply fold_ev_slots_skip. lia.
        + apply fold_ev_slots_skip. lia.
      - cbn [ev_slots]. replace (k + S j) with (S k + j) by lia.
        destruct (fevent_eqb (reg_event r0) e); [|apply IH; exact Hn].
        cbn [fold_left]. unfold F at 2. cbn [fst]. destruct (Nat.eqb k (S k + j)) eqn:E; [apply Nat.eqb_eq in E; lia|].
        apply IH. exact Hn.
    Qed.
  End Fold.

  (** one call on the object carrying all of [rs]: slot [j] moves as its own handler moves it *)
  Lemma dispatch_fanout_of rs e sn data u j r :
    Forall reg_read_only rs -> nth_error rs j = Some r ->
    dispatch e sn data (fanout_of rs) u j =
    if fevent_eqb (reg_event r) e then snd (reg_stf r sn data (u j)) else u j.
  Proof.
    intros HF Hn. unfold dispatch, fanout_of.
    rewrite handlers_of_attach_all, handlers_of_new. cbn [app]. rewrite handlers_slot_regs.
    destruct (run_slots (ev_slots e 0 rs) sn data u (ev_slots_read_only e rs 0 HF)) as [_ B].
    rewrite B. exact (fold_ev_slots_hit sn data e rs 0 j r (u j) Hn).
  Qed.

  (** one call on the object carrying only handler [r] (whatever it does to what it is shown) *)
  Lemma dispatch_fanout_alone e sn data u j (r : reg H) :
    dispatch e sn data (fanout_alone j r) u j =
    if fevent_eqb (reg_event r) e then snd (reg_stf r sn data (u j)) else u j.
  Proof.
    unfold dispatch, fanout_alone. rewrite handlers_of_attach, handlers_of_new, slot_reg_event.
    destruct (fevent_eqb (reg_event r) e); [|reflexivity].
    cbn [app run_handlers snd]. rewrite slot_reg_stf. unfold slot_st, upd. cbn [snd]. rewrite Nat.eqb_refl. reflexivity.
  Qed.

  Lemma fan_replay_slot (d : fanout (nat -> H)) (r : reg H) j :
    (forall e sn data u, dispatch e sn data d u j =
                         if fevent_eqb (reg_event r) e then snd (reg_stf r sn data (u j)) else u j) ->
    forall tr u, fan_replay d tr u j = own_replay r tr (u j).
  Proof.
    intros Hd. unfold fan_replay, own_replay.
    induction tr as [|c tr IH]; intros u; [reflexivity|]. cbn [fold_left]. rewrite IH, Hd. reflexivity.
  Qed.

  (** any sequence of calls: with everybody attached, handler [j] ends where it ends when attached alone - which is
      where it gets by being run on the calls of its own event, shown what the engine handed out *)
  Theorem fanout_compositional_calls : forall (rs : list (reg H)) (tr : list fcall) (u0 : nat -> H) j r,
    Forall reg_read_only rs -> nth_error rs j = Some r ->
    fan_replay (fanout_of rs) tr u0 j = fan_replay (fanout_alone j r) tr u0 j /\
    fan_replay (fanout_of rs) tr u0 j = own_replay r tr (u0 j).
  Proof.
    intros rs tr u0 j r HF Hn.
    rewrite (fan_replay_slot (fanout_of rs) r j (fun e sn data u => dispatch_fanout_of rs e sn data u j r HF Hn)).
    rewrite (fan_replay_slot (fanout_alone j r) r j (fun e sn data u => dispatch_fanout_alone e sn data u j r)).
    split; reflexivity.
  Qed.

  (** the engine's run *)
  Theorem fanout_compositional : forall (rs : list (reg H)) (u0 : nat -> H) so i j r,
    Forall reg_read_only rs -> nth_error rs j = Some r ->
    snd (engine_execute_with (fan_debugger (fanout_of rs)) u0 so i) j =
    snd (engine_execute_with (fan_debugger (fanout_alone j r)) u0 so i) j /\
    snd (engine_execute_with (fan_debugger (fanout_of rs)) u0 so i) j =
    own_replay r (lifecycle_calls (engine_trace so i)) (u0 j).
  Proof.
    intros rs u0 so i j r HF Hn. rewrite !fanout_is_a_debugger. cbn [snd].
    apply fanout_compositional_calls; assumption.
  Qed.
End Slots.

(** handlers built with [ro_ts] / [ro_st] are read-only *)
Lemma ro_ts_read_only {U} (f : snapshot -> U -> U) : read_only (lift_ts (ro_ts f)).
Proof. intros sn data u. reflexivity. Qed.
Lemma ro_st_read_only {U} (f : snapshot -> bytes -> U -> U) : read_only (ro_st f).
Proof. intros sn data u. reflexivity. Qed.

(** ** 4. A writing handler is seen by the next handler of the same event.
    OP_1 | OP_1 OP_EQUAL.  Handler 0 on AfterStep empties the data stack of the State object it is shown; handler 1 on
    AfterStep writes down the depth of the data stack it is shown: [1; 2; 1] when attached alone, [0; 0; 0] behind
    handler 0.  (The run itself is untouched: [fanout_never_changes_the_run].) *)
Definition wiper : reg (list nat) := AttachAfterStep (fun sn u => (mkSnap [] (sn_as sn), u)).
Definition depth_reader : reg (list nat) := AttachAfterStep (ro_ts (fun sn u => u ++ [length (sn_ds sn)])).
Definition eq_prog : exec_input := mkExecInput [x51] [x51; x87] 0 false false 0 0 0.

Theorem fanout_compositional_refuted_with_a_writer :
  exists (rs : list (reg (list nat))) j r so i,
    nth_error rs j = Some r /\ reg_read_only r /\
    snd (engine_execute_with (fan_debugger (fanout_of rs)) (fun _ => []) so i) j <>
    snd (engine_execute_with (fan_debugger (fanout_alone j r)) (fun _ => []) so i) j.
Proof.
  exists [wiper; depth_reader], 1, depth_reader, no_sigops, eq_prog.
  split; [reflexivity|]. split; [apply ro_ts_read_only|].
  vm_compute. discriminate.
Qed.

Example writer_seen_by_next_handler :
  snd (engine_execute_with (fan_debugger (fanout_of [wiper; depth_reader])) (fun _ => []) no_sigops eq_prog) 1 = [0; 0; 0] /\
  snd (engine_execute_with (fan_debugger (fanout_alone 1 depth_reader)) (fun _ => []) no_sigops eq_prog) 1 = [1; 2; 1] /\
  (* registered the other way round the reader is first and sees what the engine handed out *)
  snd (engine_execute_with (fan_debugger (fanout_of [depth_reader; wiper])) (fun _ => []) no_sigops eq_prog) 0 = [1; 2; 1] /\
  (* and the run is the plain run *)
  fst (engine_execute_with (fan_debugger (fanout_of [wiper; depth_reader])) (fun _ => []) no_sigops eq_prog) =
    engine_execute no_sigops eq_prog.
Proof. vm_compute. repeat split; reflexivity. Qed.

(** the same for the data argument of a stack callback: bytes written are seen, the length cannot be changed *)
Example data_writer_seen_by_next_handler :
  let w : reg (list bytes) := AttachBeforeStackPush (fun sn data u => (sn, [xdd; xdd; xdd], u)) in
  let r : reg (list bytes) := AttachBeforeStackPush (ro_st (fun _ data u => u ++ [data])) in
  fan_replay (fanout_of [w; r]) [(HBeforeStackPush, mkSnap [] [], [x01; x02])] (fun _ => []) 1 = [[xdd; xdd]] /\
  fan_replay (fanout_of [r; w]) [(HBeforeStackPush, mkSnap [] [], [x01; x02])] (fun _ => []) 0 = [[x01; x02]].
Proof. vm_compute. split; reflexivity. Qed.

(** ** 5. Example: two handlers on AfterStep and one on BeforeStackPush; OP_2 | OP_3 OP_ADD.
    The sequence of calls is the one the engine makes (lifecycle part: the model's [engine_trace]; the stack callbacks
    where model/DebugStack.v allows them, with the States and data the Go engine shows - reproduced on /repo). *)
Definition add_prog : exec_input := mkExecInput [x52] [x53; x93] 0 false false 0 0 0.

Definition add_calls : list fcall :=
  let c (e : fevent) (stk : list bytes) : fcall := (e, mkSnap stk [], []) in
  let cd (e : fevent) (stk : list bytes) (data : bytes) : fcall := (e, mkSnap stk [], data) in
  [ c HBeforeExecute []; c HBeforeStep []; c HBeforeExecuteOpcode [];
    cd HBeforeStackPush [] [x02]; cd HAfterStackPush [[x02]] [x02];
    c HAfterExecuteOpcode [[x02]]; c HBeforeScriptChange [[x02]]; c HAfterScriptChange [[x02]]; c HAfterStep [[x02]];
    c HBeforeStep [[x02]]; c HBeforeExecuteOpcode [[x02]];
    cd HBeforeStackPush [[x02]] [x03]; cd HAfterStackPush [[x02]; [x03]] [x03];
    c HAfterExecuteOpcode [[x02]; [x03]]; c HAfterStep [[x02]; [x03]];
    c HBeforeStep [[x02]; [x03]]; c HBeforeExecuteOpcode [[x02]; [x03]];
    c HBeforeStackPop [[x02]; [x03]]; cd HAfterStackPop [[x02]] [x03];
    c HBeforeStackPop [[x02]]; cd HAfterStackPop [] [x02];
    cd HBeforeStackPush [] [x05]; cd HAfterStackPush [[x05]] [x05];
    c HAfterExecuteOpcode [[x05]]; c HBeforeScriptChange [[x05]]; c HAfterScriptChange [[x05]]; c HAfterStep [[x05]];
    c HAfterExecute [[x05]];
    c HBeforeStackPop [[x05]]; cd HAfterStackPop [] [x05];
    c HAfterSuccess [] ].

Definition is_lifecycle (e : fevent) : bool := Nat.ltb (fevent_idx e) 10.

Definition add_handlers : list (reg (list bytes)) :=
  [ AttachAfterStep (ro_ts (fun sn u => u ++ [concat (sn_ds sn)]));                (* the data stack, flattened *)
    AttachBeforeStackPush (ro_st (fun _ data u => u ++ [data]));                    (* what is about to be pushed *)
    AttachAfterStep (ro_ts (fun sn u => u ++ [repeat x01 (length (sn_ds sn))])) ].  (* its depth, in unary *)

Example fanout_example :
  (* the calls: their lifecycle part is the model's trace, the whole is accepted by the stack-callback automaton *)
  filter (fun c => is_lifecycle (fc_event c)) add_calls = lifecycle_calls (engine_trace no_sigops add_prog) /\
  map fc_event add_calls =
    expand [FL BE; FL BS; FL BO; FPush; FL AO; FL BC; FL AC; FL AS; FL BS; FL BO; FPush; FL AO; FL AS;
            FL BS; FL BO; FPop; FPop; FPush; FL AO; FL BC; FL AC; FL AS; FL AE; FPop; FL EOK] /\
  full_lifecycle_ok false [FL BE; FL BS; FL BO; FPush; FL AO; FL BC; FL AC; FL AS; FL BS; FL BO; FPush; FL AO; FL AS;
            FL BS; FL BO; FPop; FPop; FPush; FL AO; FL BC; FL AC; FL AS; FL AE; FPop; FL EOK] = true /\
  (* the three handlers, each in its slot *)
  fan_replay (fanout_of add_handlers) add_calls (fun _ => []) 0 = [[x02]; [x02; x03]; [x05]] /\
  fan_replay (fanout_of add_handlers) add_calls (fun _ => []) 1 = [[x02]; [x03]; [x05]] /\
  fan_replay (fanout_of add_handlers) add_calls (fun _ => []) 2 = [[x01]; [x01; x01]; [x01]] /\
  (* through the engine (lifecycle callbacks only): the two AfterStep handlers end the same, the push handler idle *)
  snd (engine_execute_with (fan_debugger (fanout_of add_handlers)) (fun _ => []) no_sigops add_prog) 0 = [[x02]; [x02; x03]; [x05]] /\
  snd (engine_execute_with (fan_debugger (fanout_of add_handlers)) (fun _ => []) no_sigops add_prog) 2 = [[x01]; [x01; x01]; [x01]] /\
  fst (engine_execute_with (fan_debugger (fanout_of add_handlers)) (fun _ => []) no_sigops add_prog) = engine_execute no_sigops add_prog /\
  fst (fst (engine_execute_with (fan_debugger (fanout_of add_handlers)) (fun _ => []) no_sigops add_prog)) = VOk /\
  (* recording handlers registered in the order S-b, p-a, S-a (AfterStep b, BeforeStackPush a, AfterStep a) *)
  fan_replay (recording_fanout [(HAfterStep, 1); (HBeforeStackPush, 0); (HAfterStep, 0)]) add_calls [] =
    [(HBeforeStackPush, 0); (HAfterStep, 1); (HAfterStep, 0); (HBeforeStackPush, 0); (HAfterStep, 1); (HAfterStep, 0);
     (HBeforeStackPush, 0); (HAfterStep, 1); (HAfterStep, 0)].
Proof. vm_compute. repeat split; reflexivity. Qed.

Print Assumptions fanout_is_a_debugger.
Print Assumptions fanout_order.
Print Assumptions fanout_order_calls.
Print Assumptions fanout_compositional.
Print Assumptions fanout_compositional_refuted_with_a_writer.
