(** Tactics and lemmas shared by the equivalence proofs proofs/GenFuncs_*.v ("the Gallina printed from the Go
    source of a function equals the hand-written model function").  The proofs are written so that they
    survive meaning-preserving rewrites of the Go function: they never match the shape of the generated term.
    They split the INPUT space by the model's case analysis, decide every condition of the generated term with
    [lia] ([go_decide]), evaluate the list plumbing by computation ([go_eval]) and compare bytes arithmetically
    ([go_bytes]). *)
From Coq Require Import List ZArith NArith Bool Lia ZifyN ZifyNat ZifyBool.
From Coq Require Import Strings.Byte.
From GoBT Require Import lib.Bytes lib.GoSem.
Import ListNotations.
Ltac Zify.zify_post_hook ::= Z.div_mod_to_equations.
Local Open Scope Z_scope.

(** decide, by linear arithmetic over the hypotheses, every [if] whose condition mentions no bound variable *)
Ltac go_decide :=
  repeat match goal with
  | |- context [if ?c then _ else _] =>
      first [ replace c with true by (symmetry; lia) | replace c with false by (symmetry; lia) ]; cbv iota
  end.

(** split on every remaining condition; contradictory combinations are closed by [lia] *)
Ltac go_split :=
  repeat match goal with
  | |- context [if ?c then _ else _] => let E := fresh "E" in destruct c eqn:E
  end.

(** evaluate the monadic and list plumbing of a goal in which every remaining condition and index is a closed
    term: the byte-valued subterms [z2b e] / [n2b e] (the only places where symbolic integers remain) are
    abstracted, the rest is computed *)
Ltac go_guard :=
  repeat match goal with
  | x : N |- _ => tryif assert_succeeds (clear dependent x) then fail else fail 2 "go_eval: an undecided condition or index still depends on" x
  | x : Z |- _ => tryif assert_succeeds (clear dependent x) then fail else fail 2 "go_eval: an undecided condition or index still depends on" x
  | x : list _ |- _ => tryif assert_succeeds (clear dependent x) then fail else fail 2 "go_eval: the goal still depends on the symbolic list" x
  end.

Ltac go_eval :=
  unfold go_le_put_at, go_le_put, go_set_index, go_append1, go_bytes_lit, go_shr, go_shl, go_div, go_rem;
  repeat (progress (cbn [bind]; go_decide));
  cbn [le_enc map];
  repeat match goal with
  | |- context [z2b ?e] => let x := fresh "e" in let H := fresh "He" in remember (z2b e) as x eqn:H
  | |- context [n2b ?e] => let x := fresh "e" in let H := fresh "He" in remember (n2b e) as x eqn:H
  end;
  go_guard;
  timeout 20 vm_compute;
  repeat match goal with H : ?x = z2b _ |- _ => subst x | H : ?x = n2b _ |- _ => subst x end.

Lemma n2b_mod_eq a b : (a mod 256 = b mod 256)%N -> n2b a = n2b b.
Proof. unfold n2b. intros ->. reflexivity. Qed.

Lemma z2b_n2b z n : (Z.to_N (z mod 256) = n mod 256)%N -> z2b z = n2b n.
Proof.
  intros H. unfold z2b. apply n2b_mod_eq. rewrite H. apply N.mod_mod. discriminate.
Qed.

(** an equation between two bytes given by integer expressions, reduced to arithmetic *)
Ltac go_byte :=
  first
  [ reflexivity
  | apply n2b_mod_eq; unfold go_conv, go_wrap; lia
  | apply z2b_n2b; unfold go_conv, go_wrap; lia
  | (rewrite <- (n2b_b2n _) at 1; apply n2b_mod_eq; unfold go_conv, go_wrap; lia) ].

(** an equation between two explicit byte lists *)
Ltac go_bytes :=
  repeat match goal with
  | |- _ :: _ = _ :: _ => f_equal
  | |- @nil _ = @nil _ => reflexivity
  end; try go_byte.

Lemma Val_inj {A} (a b : A) : a = b -> Val a = Val b.
Proof. intros ->. reflexivity. Qed.

(** [b2z] of a byte: the facts [lia] needs *)
Ltac go_byte_ranges :=
  repeat match goal with
  | b : byte |- _ => lazymatch goal with
                     | _ : 0 <= b2z b < 256 |- _ => fail
                     | _ => pose proof (b2z_range b)
                     end
  end.

(** ** finite sweeps: a statement about a byte / opcode value checked on all 256 values *)
Definition M_eqb {A} (eqb : A -> A -> bool) (x y : M A) : bool :=
  match x, y with Val a, Val b => eqb a b | Panic, Panic => true | NoFuel, NoFuel => true | _, _ => false end.
Lemma M_eqb_bool_eq (x y : M bool) : M_eqb Bool.eqb x y = true -> x = y.
Proof. destruct x as [a| |], y as [b| |]; cbn; try discriminate; try reflexivity. intros H. apply Bool.eqb_prop in H. congruence. Qed.

Definition all256 (P : N -> bool) : bool := forallb P (map N.of_nat (seq 0 256)).
Lemma all256_spec P : all256 P = true -> forall v, (v < 256)%N -> P v = true.
Proof.
  unfold all256. intros H v Hv. rewrite forallb_forall in H. apply H.
  apply in_map_iff. exists (N.to_nat v). split; [lia|]. apply in_seq. lia.
Qed.

(** ** symbolic lists: indexing at literal positions *)
Lemma go_len_nil {A} : @go_len A [] = 0.
Proof. reflexivity. Qed.
Lemma go_len_cons {A} (a : A) l : go_len (a :: l) = 1 + go_len l.
Proof. unfold go_len. cbn [length]. lia. Qed.
Lemma go_index_cons_pos {A} (a : A) l i j : (0 <? i) = true -> j = i - 1 -> go_index (a :: l) i = go_index l j.
Proof. intros Hi ->. replace i with ((i - 1) + 1) at 1 by lia. apply go_index_succ. lia. Qed.
Lemma go_index_b_0 a l : go_index_b (a :: l) 0 = Val (b2z a).
Proof. unfold go_index_b. rewrite go_index_0. reflexivity. Qed.
Lemma go_index_b_cons_pos a l i j : (0 <? i) = true -> j = i - 1 -> go_index_b (a :: l) i = go_index_b l j.
Proof. intros Hi Hj. unfold go_index_b. rewrite (go_index_cons_pos a l i j Hi Hj). reflexivity. Qed.
Lemma go_index_b_nil i : go_index_b [] i = Panic.
Proof. unfold go_index_b. rewrite go_index_nil. reflexivity. Qed.

(** normalise [go_index_b (x0 :: x1 :: ... ) k] for literal k *)
Ltac go_index_norm :=
  repeat first
  [ rewrite go_index_b_0
  | rewrite go_index_b_nil
  | rewrite go_index_0
  | rewrite go_index_nil
  | match goal with
    | |- context [go_index_b (?a :: ?l) ?i] =>
        let j := eval vm_compute in (i - 1) in rewrite (go_index_b_cons_pos a l i j) by reflexivity
    | |- context [go_index (?a :: ?l) ?i] =>
        let j := eval vm_compute in (i - 1) in rewrite (go_index_cons_pos a l i j) by reflexivity
    end ].

(** split a list into the shapes [], [x], [x; y], ..., (n elements followed by any tail) *)
Ltac go_list_cases b n :=
  lazymatch n with
  | O => idtac
  | S ?k => let x := fresh "x" in destruct b as [|x b]; [ | go_list_cases b k ]
  end.

(** ** bit operations on non-negative values *)
Lemma Z_land_of_N a b : Z.land (Z.of_N a) (Z.of_N b) = Z.of_N (N.land a b).
Proof. destruct a, b; reflexivity. Qed.
Lemma Z_lor_of_N a b : Z.lor (Z.of_N a) (Z.of_N b) = Z.of_N (N.lor a b).
Proof. destruct a, b; reflexivity. Qed.

(** ** the model's outcome type (lib/Checked.v) *)
From GoBT Require lib.Checked.
Definition to_outcome {A} (m : M A) : Checked.outcome A :=
  match m with Val a => Checked.Ok a | Panic => Checked.Panic | NoFuel => Checked.Fuel end.

Lemma idx_cons_pos {A} (a : A) l i j : (0 <? i)%N = true -> j = (i - 1)%N -> Checked.idx (a :: l) i = Checked.idx l j.
Proof. intros Hi ->. replace i with (N.succ (i - 1)) at 1 by lia. apply Checked.idx_succ. Qed.
Lemma lenN_cons (a : byte) l : lenN (a :: l) = (1 + lenN l)%N.
Proof. unfold lenN. cbn [length]. lia. Qed.
Lemma b2z_b2n b : b2z b = Z.of_N (b2n b).
Proof. reflexivity. Qed.

Ltac idx_norm :=
  repeat first
  [ rewrite Checked.idx_0
  | rewrite Checked.idx_nil
  | match goal with
    | |- context [Checked.idx (?a :: ?l) ?i] =>
        let j := eval vm_compute in (i - 1)%N in rewrite (idx_cons_pos a l i j) by reflexivity
    end ].
