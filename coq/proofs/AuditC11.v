(** Audit C additions for C11 (size and fee accounting): totality / outcome table of IsFeePaidEnough,
    EstimateIsFeePaidEnough as an iff over the transaction's own totals, monotonicity of the quoted fee under
    signing. *)
From Coq Require Import List NArith ZArith Lia Bool.
From Coq Require Import Strings.Byte.
From GoBT Require Import lib.Bytes lib.VarInt model.Tx gen.Consts spec.FeeSpec model.Fees
  proofs.FeesProofs.
Import ListNotations.
Local Open Scope N_scope.

(* C11-P1: the predicate is total for a complete quote with positive denominators *)
Theorem fee_enough_total t q sf df : q_std q = Some sf -> q_data q = Some df ->
  r_bytes sf <> 0 -> r_bytes df <> 0 -> exists b, is_fee_paid_enough t q = FOk b.
Proof.
  intros Hs Hd H1 H2. unfold is_fee_paid_enough, fees_paid, get_fee, fee_of. rewrite Hs, Hd. cbn [obind].
  destruct (N.eqb_spec (r_bytes sf) 0); [contradiction|]. cbn [obind].
  destruct (N.eqb_spec (r_bytes df) 0); [contradiction|]. cbn [obind].
  destruct (_ <? _); eauto.
Qed.

(* ... and the error / panic cases are exactly the missing fee type / zero denominator *)
Theorem fee_enough_outcomes t q :
  match is_fee_paid_enough t q with
  | FOk _ => exists sf df, q_std q = Some sf /\ q_data q = Some df /\ r_bytes sf <> 0 /\ r_bytes df <> 0
  | FErr e => e = ErrFeeTypeNotFound /\ (q_std q = None \/ q_data q = None)
  | FPanic => exists sf df, q_std q = Some sf /\ q_data q = Some df /\ (r_bytes sf = 0 \/ r_bytes df = 0)
  | FFatal => False
  end.
Proof.
  unfold is_fee_paid_enough, fees_paid, get_fee, fee_of.
  destruct (q_std q) as [sf|]; cbn [obind]; [|split; auto].
  destruct (q_data q) as [df|]; cbn [obind]; [|split; auto].
  destruct (N.eqb_spec (r_bytes sf) 0); cbn [obind]; [eauto 8|].
  destruct (N.eqb_spec (r_bytes df) 0); cbn [obind]; [eauto 8|].
  destruct (_ <? _); eauto 8.
Qed.

(* C11-P2: EstimateIsFeePaidEnough as an iff over the transaction's own totals and its estimated size *)
Theorem estimate_enough_iff t q b sf df sz : wf_tx t -> ~ ambiguous t ->
  q_std q = Some sf -> q_data q = Some df ->
  estimate_size_with_types t = FOk sz ->
  sz_std sz * r_sat sf < two64 -> sz_data sz * r_sat df < two64 ->
  floor_fee (sz_std sz) sf + floor_fee (sz_data sz) df < two64 ->
  estimate_is_fee_paid_enough t q = FOk b ->
  b = (total_out t <=? total_in t) && (quoted_fee sf df (sz_std sz) (sz_data sz) <=? total_in t - total_out t).
Proof.
  intros W A Hs Hd E H1 H2 H3. unfold estimate_is_fee_paid_enough. unfold estimate_size_with_types in E.
  destruct (estimated_final_tx t) as [te| | |] eqn:Ete; cbn [obind] in E |- *; try discriminate.
  injection E as <-. intros H.
  destruct (est_outs t te W A Ete) as (_ & _ & Ie & Oe). rewrite <- Ie, <- Oe.
  apply (fee_enough_iff te q b sf df Hs Hd H1 H2 H3 H).
Qed.

(* C11-P3: signing can only lower the quoted fee: std bytes shrink, data bytes are the same *)
Theorem estimate_fee_ge_signed t te ins' sf df : wf_tx t -> ~ ambiguous t ->
  estimated_final_tx t = FOk te -> Forall2 sign_rel (tx_ins t) ins' ->
  let sz := size_with_types (set_ins t ins') in
  let sze := size_with_types te in
  sz_data sz = sz_data sze /\ sz_std sz <= sz_std sze /\
  quoted_fee sf df (sz_std sz) (sz_data sz) <= quoted_fee sf df (sz_std sze) (sz_data sze).
Proof.
  intros W A E S. cbv zeta.
  pose proof (estimate_ge_signed t te ins' W A E S) as G.
  destruct (est_outs t te W A E) as (Oe & _).
  unfold size_with_types. cbn [sz_data sz_std set_ins tx_outs]. rewrite Oe.
  pose proof (data_le_size (set_ins t ins')) as D1. cbn [set_ins tx_outs] in D1.
  split; [reflexivity|]. split; [lia|].
  unfold quoted_fee. apply N.add_le_mono_r. apply floor_fee_mono. lia.
Qed.

(* C11-P4: from raw signatures to the size bound, in one statement.  An unsigned input receives what
   unlocker.Simple builds: push(Serialise(r, s) ++ hash type), push(33-byte key), for any 0 < r < 2^256 and
   any 0 < s < n (Serialise normalises to low S); signed inputs are left alone. *)
Definition lib_signed (i i' : input) : Prop :=
  if unsigned i
  then exists r s pk flag, 0 < r < 2 ^ 256 /\ 0 < s < secp256k1_n /\ lenN pk = 33 /\
         i' = with_unlock i (p2pkh_unlocking pk (serialise r s) flag)
  else i' = i.

Lemma serialise_low r s : 0 < s < secp256k1_n ->
  exists s', 0 < s' <= half_order /\ serialise r s = der r s'.
Proof.
  intros Hs. unfold serialise. destruct (N.ltb_spec half_order s) as [L|L].
  - exists (secp256k1_n - s). split; [|reflexivity].
    assert (secp256k1_n = 2 * half_order + 1) by (vm_compute; reflexivity). lia.
  - exists s. split; [lia|reflexivity].
Qed.

Lemma lib_signed_sign_rel i i' : lib_signed i i' -> sign_rel i i'.
Proof.
  unfold lib_signed, sign_rel. destruct (unsigned i); [|auto].
  intros (r & s & pk & flag & Hr & Hs & Hp & ->).
  destruct (serialise_low r s Hs) as (s' & Hs' & ->).
  exists (p2pkh_unlocking pk (der r s') flag). split; [|reflexivity].
  apply lib_signature_shaped; assumption.
Qed.

Theorem estimate_ge_lib_signed t n ins' : wf_tx t -> ~ ambiguous t ->
  estimate_size t = FOk n -> Forall2 lib_signed (tx_ins t) ins' ->
  tx_size (set_ins t ins') <= n.
Proof.
  intros W A E S. unfold estimate_size in E.
  destruct (estimated_final_tx t) as [te| | |] eqn:Ete; cbn [obind] in E; try discriminate.
  injection E as <-. apply (estimate_ge_signed t te ins' W A Ete).
  clear - S. induction S as [|i i' r r' H _ IH]; constructor; [apply lib_signed_sign_rel; exact H|exact IH].
Qed.

(* ... and the fee: if the estimate pays the quote, so does the library-signed transaction *)
Theorem estimate_fee_ge_lib_signed t te ins' sf df : wf_tx t -> ~ ambiguous t ->
  estimated_final_tx t = FOk te -> Forall2 lib_signed (tx_ins t) ins' ->
  quoted_fee sf df (sz_std (size_with_types (set_ins t ins'))) (sz_data (size_with_types (set_ins t ins'))) <=
  quoted_fee sf df (sz_std (size_with_types te)) (sz_data (size_with_types te)).
Proof.
  intros W A E S.
  assert (S' : Forall2 sign_rel (tx_ins t) ins').
  { clear - S. induction S as [|i i' r r' H _ IH]; constructor; [apply lib_signed_sign_rel; exact H|exact IH]. }
  destruct (estimate_fee_ge_signed t te ins' sf df W A E S') as (_ & _ & X). exact X.
Qed.
