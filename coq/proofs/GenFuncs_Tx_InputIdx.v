(** Tx.InputIdx (tx.go), as printed from the Go source, is [input_idx] of model/SigHash.v: nil above InputCount()-1
    (a signed comparison: InputCount()-1 is -1 for a transaction without inputs), the element otherwise, and Go's
    index panic for a negative index.  Tx.InputCount is the printed function (unfolded: [len(tx.Inputs)]). *)
From Coq Require Import List ZArith NArith Bool Lia ZifyN ZifyNat ZifyBool.
From Coq Require Import Strings.Byte.
From GoBT Require Import lib.Bytes lib.VarInt lib.GoSem lib.GoTx gen.Funcs proofs.GenFuncsTac proofs.GenFuncsTxTac model.Tx model.SigHash.
From GoBT Require Import proofs.GenFuncs_Tx_OutputsHash.
Import ListNotations.
Ltac Zify.zify_post_hook ::= Z.div_mod_to_equations.
Local Open Scope Z_scope.

(** the Go result: a pointer to the k-th input, nil when there is none *)
Lemma Tx_InputIdx_nth (ins : list go_Input) (i : Z) : len_ok ins -> 0 <= i ->
  Tx_InputIdx i (map Some ins) = Val (nth_error ins (Z.to_nat i)).
Proof.
  intros Hl Hi. unfold len_ok in Hl. unfold Tx_InputIdx, Tx_InputCount. cbn [bind].
  assert (E : go_len (map Some ins) = go_len ins) by (unfold go_len; rewrite map_length; reflexivity).
  rewrite E. pose proof (go_len_nonneg ins) as Hn.
  replace (go_sub I64 (go_len ins) 1) with (go_len ins - 1) by (unfold go_sub, go_wrap; lia).
  destruct (Z.ltb_spec (go_len ins - 1) i) as [Hout|Hin]; cbn [bind].
  - replace (nth_error ins (Z.to_nat i)) with (@None go_Input); [reflexivity|].
    symmetry. apply nth_error_None. unfold go_len in Hout. lia.
  - replace i with (Z.of_nat (Z.to_nat i)) at 1 by lia. rewrite go_index_nth, nth_error_map.
    destruct (nth_error ins (Z.to_nat i)) as [g|] eqn:En; cbn [option_map bind]; [reflexivity|].
    apply nth_error_None in En. unfold go_len in Hin. lia.
Qed.

(** a negative index is not refused by the guard and panics at [tx.Inputs[i]] *)
Lemma Tx_InputIdx_negative (ins : list (option go_Input)) (i : Z) : len_ok ins -> i < 0 -> Tx_InputIdx i ins = Panic.
Proof.
  intros Hl Hi. unfold len_ok in Hl. unfold Tx_InputIdx, Tx_InputCount. cbn [bind]. pose proof (go_len_nonneg ins).
  replace (go_sub I64 (go_len ins) 1) with (go_len ins - 1) by (unfold go_sub, go_wrap; lia).
  replace (go_len ins - 1 <? i) with false by lia. cbn [bind]. unfold go_index. replace (0 <=? i) with false by lia. reflexivity.
Qed.

(** the model's [input_idx] on the abstraction of the Go transaction *)
Lemma input_idx_of_go ins outs ver lock (i : N) :
  input_idx (tx_of_go ins outs ver lock) i = option_map input_of_go (nth_error ins (N.to_nat i)).
Proof.
  unfold input_idx, tx_of_go. cbn [tx_ins]. rewrite map_length.
  destruct (Z.gtb_spec (Z.of_N i) (Z.of_nat (length ins) - 1)) as [Hout|Hin].
  - replace (nth_error ins (N.to_nat i)) with (@None go_Input); [reflexivity|]. symmetry. apply nth_error_None. lia.
  - replace i with (N.of_nat (N.to_nat i)) at 1 by lia. rewrite nthN_nth_error, nth_error_map. reflexivity.
Qed.

Lemma Tx_InputIdx_is_model ins outs ver lock (i : N) : len_ok ins ->
  bind (Tx_InputIdx (Z.of_N i) (map Some ins)) (fun p => Val (option_map input_of_go p)) = Val (input_idx (tx_of_go ins outs ver lock) i).
Proof.
  intros Hl. rewrite Tx_InputIdx_nth by (assumption || lia). cbn [bind]. rewrite input_idx_of_go.
  replace (Z.to_nat (Z.of_N i)) with (N.to_nat i) by lia. reflexivity.
Qed.
