(** C04, parts (a) and (b) joined: a P2PKH / P2PKH-inscription input signed by the library is still
    accepted by the interpreter model after any mutation of a field its hash type does not commit to —
    the signature having been made over the digest of the ORIGINAL transaction. *)
From Coq Require Import List NArith ZArith Lia ZifyN ZifyNat ZifyBool Bool Arith.
From Coq Require Import Strings.Byte.
From GoBT Require Import lib.Bytes lib.VarInt lib.Sha256 lib.Ripemd160 model.Tx proofs.TxProofs spec.DigestSpec spec.CommitSpec
  model.SigHash model.SigHashWire proofs.SigHashProofs model.TxMutate proofs.CommitProofs proofs.CommitModelProofs
  model.ScriptNum model.Interp model.CheckSig proofs.P2PKHProofs.
Import ListNotations.
Ltac Zify.zify_post_hook ::= Z.div_mod_to_equations.

Lemma sc_code_apply m c : (forall s, m <> MSpentScript s) -> sc_code (apply_mutation m c) = sc_code c.
Proof. intros H. destruct m; try reflexivity. exfalso. eapply H. reflexivity. Qed.

Lemma signed_script_preserved t i m lock inp' :
  signable t i -> (exists inp, nth_error (tx_ins t) i = Some inp /\ in_script inp = Some lock) ->
  applicable m (sign_ctx_of t i) -> (forall s, m <> MSpentScript s) ->
  nth_error (tx_ins (fst (apply_tx m t i))) (snd (apply_tx m t i)) = Some inp' ->
  in_script inp' <> None -> in_script inp' = Some lock.
Proof.
  intros S (inp & Hinp & Hsc) Ha Hm Hinp' Hs.
  pose proof (signable_ctx t i m S Ha) as E. apply (f_equal sc_code) in E. rewrite sc_code_apply in E by exact Hm.
  unfold sign_ctx_of in E. rewrite Hinp, Hinp', Hsc in E. cbn [sc_code] in E.
  destruct (in_script inp'); [congruence|contradiction].
Qed.

Local Open Scope Z_scope.

Theorem uncommitted_mutation_still_accepted : forall (orc : sig_oracle) (t : tx) (i : nat) (m : mutation) (inp' : input)
    (flags ht : N) (sig pk body : bytes) (insc : bool) (bops : list pop) (h : bytes),
  let full := sig ++ [n2b ht] in
  let unlock := p2pkh_unlock sig ht pk in
  let lock := p2pkh_lock (hash160 pk) ++ (if insc then inscription_suffix body else []) in
  let t' := fst (apply_tx m t i) in let i' := snd (apply_tx m t i) in
  let c := mkCtx (normalise_flags flags) true (Z.of_N (tx_lock t')) (Z.of_N (tx_version t')) (Z.of_N (in_seq inp')) false in
  (* the signed transaction, its mutant, and the table *)
  signable t i -> signable t' i' -> nth_error (tx_ins t') i' = Some inp' ->
  (exists inp, nth_error (tx_ins t) i = Some inp /\ in_script inp = Some lock) ->
  (forall s, m <> MSpentScript s) -> applicable m (sign_ctx_of t i) ->
  committed_in (if has_forkid ht then AlgForkid else AlgLegacy) ht (sign_ctx_of t i) m = false ->
  (* the template hypotheses of [signed_p2pkh_accepts] *)
  (ht < 256)%N -> length pk = 33%nat -> (length full <= 75)%nat ->
  (has_flag c F_MINIMALDATA = true -> sig <> []) ->
  (has_flag c F_CLEANSTACK = true -> has_flag c F_BIP16 = true) ->
  lenZ lock <= max_script_size c ->
  (insc = true -> parse_ops (length body) false body 1 = Some bops /\ is_push_only bops = true /\
                  Forall (fun p => lenZ (p_data p) <= max_elem c) bops) ->
  check_hash_type c ht = true -> check_sig_enc c sig = EncOk -> check_pubkey_enc c pk = true ->
  (has_flag c F_FORKID && flag_has ht sh_forkid = true \/
   forall l, parse_script false lock = Some l -> remove_by_data l full = l) ->
  (* the signature verifies over the digest of the ORIGINAL transaction *)
  fst (calc_input_signature_hash t (N.of_nat i) ht) = SOk h ->
  orc_parse_pub orc pk = true -> orc_parse_sig orc (uses_der_parser c) sig = true ->
  orc_verify orc pk h sig (uses_der_parser c) = Some true ->
  fst (engine_execute (mk_sigops orc (engine_tx t' (N.of_nat i') unlock lock (in_sats inp')) (N.of_nat i'))
         (mkExecInput unlock lock flags true true (Z.of_N (tx_lock t')) (Z.of_N (tx_version t')) (Z.of_N (in_seq inp')))) = VOk.
Proof.
  intros orc t i m inp' flags ht sig pk body insc bops h full unlock lock t' i' c
         S S' Hinp' Hin Hm Ha Hc Hht Hpk Hfull Hmin Hcs Hsz Hbody Hty Henc Hpke Hstrip Hsh Hpub Hsig Hver.
  apply (signed_p2pkh_accepts_unlocker_digest orc t' (N.of_nat i') inp' flags (in_sats inp') ht sig pk body insc bops h);
    try assumption; try reflexivity.
  - apply S'.
  - rewrite nthN_nth_error, Nat2N.id. exact Hinp'.
  - apply (signed_script_preserved t i m lock inp' S Hin Ha Hm Hinp').
    destruct S' as (_ & _ & _ & x & sc & Hx & Hsc). unfold t', i' in *. rewrite Hx in Hinp'. injection Hinp' as <-. congruence.
  - apply S'.
  - unfold t', i'. rewrite (model_commit_invariant_sighash t i ht m Hht S S' Hc Ha). exact Hsh.
Qed.
