(** thread.shouldExec (bscript/interpreter/thread.go), as printed from the Go source, is [should_exec] of
    model/Interp.v.  The thread fields the function reads are parameters of the printed definition:
    t.afterGenesis (the model's [after_genesis c]), t.condStack (the model's [cond s], top first, the Go slice
    being its reverse), t.earlyReturnAfterGenesis ([early s]) and the opcode value.  No hypothesis: the loop is
    a [range], no index is computed. *)
From Coq Require Import List ZArith NArith Bool Lia ZifyN ZifyNat ZifyBool.
From Coq Require Import Strings.Byte.
From GoBT Require Import lib.Bytes lib.GoSem gen.Funcs proofs.GenFuncsTac proofs.GenFuncsLoopTac.
From GoBT Require model.Interp.
Import ListNotations.
Ltac Zify.zify_post_hook ::= Z.div_mod_to_equations.
Local Open Scope Z_scope.

Definition go_cond_stack (cs : list N) : list Z := map Z.of_N (rev cs).

(** one iteration in the shape of the model: a opCondFalse entry ends the scan with "false" *)
Definition shouldExec_step (_ : nat) (x : Z) (cf : bool) : ctl bool bool :=
  if x =? 0 then Break false else Next cf.

Lemma shouldExec_step_model : forall (l : list Z) (k : nat) (cf : bool),
  range_pure shouldExec_step l k cf = Fall (cf && forallb (fun x => negb (x =? 0)) l).
Proof.
  induction l as [|x r IH]; intros k cf; cbn [range_pure forallb]; [rewrite andb_true_r; reflexivity|].
  unfold shouldExec_step at 1. destruct (x =? 0); cbn [negb andb]; [rewrite andb_false_r; reflexivity|apply IH].
Qed.

Lemma forallb_rev {A} (p : A -> bool) (l : list A) : forallb p (rev l) = forallb p l.
Proof.
  induction l as [|a r IH]; [reflexivity|]. cbn [rev forallb]. rewrite forallb_app, IH. cbn [forallb].
  rewrite andb_true_r. apply andb_comm.
Qed.

Lemma forallb_map {A B} (g : A -> B) (p : B -> bool) (l : list A) : forallb p (map g l) = forallb (fun a => p (g a)) l.
Proof. induction l as [|a r IH]; [reflexivity|]. cbn [map forallb]. rewrite IH. reflexivity. Qed.

Lemma forallb_ext_eq {A} (p q : A -> bool) (l : list A) : (forall a, p a = q a) -> forallb p l = forallb q l.
Proof. intros H. induction l as [|a r IH]; [reflexivity|]. cbn [forallb]. rewrite IH, H. reflexivity. Qed.

Lemma thread_shouldExec_is_model_list (ag : bool) (cs : list N) (early : bool) (v : N) :
  thread_shouldExec ag (go_cond_stack cs) early (Z.of_N v) =
  Val (if negb ag then true
       else forallb (fun x => negb (x =? Interp.COND_FALSE)%N) cs && (negb early || (v =? Interp.OP_RETURN)%N)).
Proof.
  unfold thread_shouldExec, go_cond_stack. cbv zeta.
  rewrite (go_range_pure shouldExec_step).
  - cbn [bind]. rewrite shouldExec_step_model. rewrite forallb_map, forallb_rev.
    rewrite (forallb_ext_eq _ (fun x : N => negb (x =? Interp.COND_FALSE)%N))
      by (intros x; unfold Interp.COND_FALSE; destruct (Z.eqb_spec (Z.of_N x) 0), (N.eqb_spec x 0); try reflexivity; exfalso; lia).
    unfold Interp.OP_RETURN.
    remember (forallb (fun x : N => negb (x =? Interp.COND_FALSE)%N) cs) as fa eqn:Efa. clear Efa.
    destruct ag, fa, early; cbn [negb andb orb]; go_cases; go_close.
  - intros i x s Hi. unfold shouldExec_step. go_cases; go_close.
Qed.

Lemma thread_shouldExec_is_model (c : Interp.ctx) (s : Interp.st) (v : N) :
  thread_shouldExec (Interp.after_genesis c) (go_cond_stack (Interp.cond s)) (Interp.early s) (Z.of_N v) =
  Val (Interp.should_exec c s v).
Proof. unfold Interp.should_exec. apply thread_shouldExec_is_model_list. Qed.
