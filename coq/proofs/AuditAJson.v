(** Audit A, C09 / C16: whatever the hex shortcut of the JSON decoders returns is a well-formed
    transaction object (all locking scripts set, Go field ranges), hence can be marshalled again. *)
From Coq Require Import List NArith String Bool.
From Coq Require Import Strings.Byte.
From GoBT Require Import lib.Bytes lib.Hex lib.Parse lib.VarInt model.Tx model.Amount model.Json proofs.TxProofs
  proofs.AuditATx.
Import ListNotations.
Local Open Scope N_scope.

Lemma plain_gtx_of_tx t : plain_tx (gtx_of_tx t) = t.
Proof.
  destruct t as [v ins outs l]. unfold plain_tx, gtx_of_tx. cbn [g_version g_ins g_outs g_lock tx_version tx_ins tx_outs tx_lock].
  rewrite !map_map. f_equal.
  - rewrite <- (map_id ins) at 2. apply map_ext. intros [a b c d e f]. reflexivity.
  - rewrite <- (map_id outs) at 2. apply map_ext. intros [a b]. reflexivity.
Qed.

Lemma wf_gtx_of_tx t : wf_tx t -> wf_gtx (gtx_of_tx t).
Proof.
  intros W. split; [|rewrite plain_gtx_of_tx; exact W].
  unfold outs_set, gtx_of_tx. cbn [g_outs]. apply Forall_forall. intros o Hin.
  apply in_map_iff in Hin. destruct Hin as (x & <- & _). unfold wf_goutput, goutput_of_parsed. cbn. discriminate.
Qed.

Theorem tx_from_hex_wf s g : tx_from_hex s = JOk g -> wf_gtx g.
Proof.
  unfold tx_from_hex. destruct (hexdecode s) as [b|]; [|discriminate].
  destruct (tx_from_bytes b) as [p| |] eqn:E; try discriminate. intros [= <-].
  apply wf_gtx_of_tx. apply from_bytes_iff in E. exact (read_tx_wf _ _ _ _ E).
Qed.
