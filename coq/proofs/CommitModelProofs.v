(** C04 coverage lifted to the library model: the single-field mutations applied to a go-bt transaction
    object (model/TxMutate.v) and what CalcInputPreimage / CalcInputPreimageLegacy /
    CalcInputSignatureHash (model/SigHash.v) return for it, through the C02 / C03 theorems
    (proofs/SigHashProofs.v) and the spec-level coverage theorems (proofs/CommitProofs.v). *)
From Coq Require Import List NArith ZArith Lia ZifyN ZifyNat ZifyBool Bool Arith FinFun.
From Coq Require Import Strings.Byte.
From GoBT Require Import lib.Bytes lib.Parse lib.VarInt lib.Sha256 model.Tx proofs.TxProofs spec.DigestSpec spec.CommitSpec
  model.SigHash model.SigHashWire proofs.SigHashProofs model.TxMutate proofs.CommitProofs.
Import ListNotations.
Ltac Zify.zify_post_hook ::= Z.div_mod_to_equations.
Local Open Scope N_scope.

(** * E. lifting to the library model (model/SigHash.v) through C02 / C03 *)
Lemma map_set_nth {A B} (g : A -> B) (f : A -> A) (f' : B -> B) j l : (forall x, g (f x) = f' (g x)) ->
  map g (set_nth j f l) = set_nth j f' (map g l).
Proof. intros H. revert j; induction l as [|x r IH]; intros [|j]; cbn; auto; [rewrite H|rewrite IH]; reflexivity. Qed.
Lemma map_insert_at {A B} (g : A -> B) j x l : map g (insert_at j x l) = insert_at j (g x) (map g l).
Proof. unfold insert_at. rewrite map_app, firstn_map, skipn_map. reflexivity. Qed.
Lemma map_remove_at {A B} (g : A -> B) j l : map g (remove_at j l) = remove_at j (map g l).
Proof. unfold remove_at. rewrite map_app, firstn_map, skipn_map. reflexivity. Qed.

Lemma wire_unwire_in x : wire_in (unwire_in x) = x.
Proof. destruct x as [[h n] s q]. unfold wire_in, unwire_in. cbn. rewrite rev_involutive. reflexivity. Qed.
Lemma wire_unwire_out o : wire_out (unwire_out o) = o.
Proof. destruct o. reflexivity. Qed.

Theorem sign_ctx_commutes t i m inp sc :
  nth_error (tx_ins t) i = Some inp -> in_script inp = Some sc -> applicable m (sign_ctx_of t i) ->
  sign_ctx_of (fst (apply_tx m t i)) (snd (apply_tx m t i)) = apply_mutation m (sign_ctx_of t i).
Proof.
  intros Hinp Hsc Happ. unfold sign_ctx_of in *. rewrite Hinp, Hsc in *.
  destruct m; cbn [apply_tx fst snd tx_with_ins tx_with_outs tx_ins tx_outs applicable sc_tx sc_idx wire_tx t_vin t_vout] in *;
    unfold apply_mutation, wire_tx, tx_with_ins, tx_with_outs, with_tx, with_vin, with_vout in *;
    cbn [sc_tx sc_idx sc_code sc_amount t_vin t_vout t_version t_locktime tx_ins tx_outs tx_version tx_lock] in *;
    rewrite ?map_length in Happ.
  - rewrite Hinp, Hsc. reflexivity.
  - rewrite Hinp, Hsc. reflexivity.
  - rewrite nth_error_set_nth, Hinp. rewrite (map_set_nth wire_in (in_set_hash h) (set_hash h)).
    + destruct (Nat.eqb i j); cbn [option_map in_set_hash in_script in_sats]; rewrite Hsc; reflexivity.
    + intros x. unfold wire_in, in_set_hash, set_hash. cbn. rewrite rev_involutive. reflexivity.
  - rewrite nth_error_set_nth, Hinp. rewrite (map_set_nth wire_in (in_set_vout n) (set_vout n)) by reflexivity.
    destruct (Nat.eqb i j); cbn [option_map in_set_vout in_script in_sats]; rewrite Hsc; reflexivity.
  - rewrite nth_error_set_nth, Hinp. rewrite (map_set_nth wire_in (in_set_seq s) (set_sequence s)) by reflexivity.
    destruct (Nat.eqb i j); cbn [option_map in_set_seq in_script in_sats]; rewrite Hsc; reflexivity.
  - rewrite Hinp, Hsc. rewrite (map_set_nth wire_out (out_set_value v) (set_value v)) by reflexivity. reflexivity.
  - rewrite Hinp, Hsc. rewrite (map_set_nth wire_out (out_set_script s) (set_script s)) by reflexivity. reflexivity.
  - rewrite Hinp, Hsc. rewrite map_insert_at, wire_unwire_out. reflexivity.
  - rewrite Hinp, Hsc. rewrite map_remove_at. reflexivity.
  - rewrite nth_error_insert_shift by exact Happ. rewrite Hinp, Hsc. rewrite map_insert_at, wire_unwire_in. reflexivity.
  - destruct Happ as [Hlt Hne]. rewrite nth_error_remove_shift by exact Hne. rewrite Hinp, Hsc. rewrite map_remove_at. reflexivity.
  - rewrite nth_error_set_nth, Nat.eqb_refl, Hinp. cbn [option_map in_set_sats in_script in_sats]. rewrite Hsc.
    rewrite (map_set_nth_same wire_in) by reflexivity. reflexivity.
  - rewrite nth_error_set_nth, Nat.eqb_refl, Hinp. cbn [option_map in_set_script in_script in_sats].
    rewrite (map_set_nth_same wire_in) by reflexivity. reflexivity.
Qed.

(** the hypotheses of the C02 / C03 theorems: Go field ranges, an existing signed input that records
    its previous output, index and output count within the Go integer conversions *)
Definition signable (t : tx) (i : nat) : Prop :=
  wf_tx t /\ N.of_nat i + 1 < two32 /\ N.of_nat (length (tx_outs t)) < two31 /\
  exists inp sc, nth_error (tx_ins t) i = Some inp /\ in_script inp = Some sc.

Lemma model_forkid_preimage t i ht : ht < 256 -> signable t i ->
  let c := sign_ctx_of t i in
  option_map SOk (forkid_preimage (sc_tx c) (sc_idx c) (sc_code c) (sc_amount c) ht) =
  Some (fst (calc_input_preimage t (N.of_nat i) ht)).
Proof.
  intros Hht (Hwf & Hi & Ho & inp & sc & Hinp & Hsc). unfold sign_ctx_of. rewrite Hinp, Hsc.
  cbn [sc_tx sc_idx sc_code sc_amount].
  rewrite <- (Nat2N.id i) at 1.
  apply forkid_preimage_is_spec; try assumption; try lia.
  - rewrite Nat2N.id. exact Hinp.
  - pose proof (wf_tx_txid t inp i Hwf Hinp) as L. intros E. rewrite E in L. discriminate.
Qed.

Definition sres_of_digest (d : legacy_digest) : sres :=
  match d with LegacyOne => SOk default_hex | LegacyPreimage p => SOk p end.

Lemma model_legacy_preimage t i ht : ht < 256 -> signable t i ->
  let c := sign_ctx_of t i in
  fst (calc_input_preimage_legacy t (N.of_nat i) ht) =
  sres_of_digest (legacy_signature_hash (sc_code c) (sc_tx c) (sc_idx c) ht).
Proof.
  intros Hht (Hwf & Hi & Ho & inp & sc & Hinp & Hsc). unfold sign_ctx_of. rewrite Hinp, Hsc.
  cbn [sc_tx sc_idx sc_code sc_amount].
  pose proof (legacy_preimage_is_spec t (N.of_nat i) ht inp sc Hwf Hht Hi) as P. rewrite Nat2N.id in P.
  rewrite (P Hinp Hsc). unfold legacy_expected, sres_of_digest. rewrite Nat2N.id. reflexivity.
Qed.

Lemma signable_ctx t i m : signable t i -> applicable m (sign_ctx_of t i) ->
  sign_ctx_of (fst (apply_tx m t i)) (snd (apply_tx m t i)) = apply_mutation m (sign_ctx_of t i).
Proof. intros (_ & _ & _ & inp & sc & Hinp & Hsc) Ha. eapply sign_ctx_commutes; eauto. Qed.

Lemma wf_tx_ctx t i : wf_tx t -> wf_ctx (sign_ctx_of t i).
Proof.
  intros (Hv & Hl & Hi & Ho & Hni & Hno).
  assert (W : wf_transaction (wire_tx t)).
  { unfold wf_transaction, wire_tx. cbn [t_version t_locktime t_vin t_vout]. rewrite !map_length. repeat split; try assumption.
    - apply Forall_map_inv. eapply Forall_impl; [|exact Hi]. intros a (L & Vo & Sq & _ & Un & _).
      unfold wf_txin, wf_outpoint, wire_in. cbn. rewrite rev_length. repeat split; assumption.
    - apply Forall_map_inv. eapply Forall_impl; [|exact Ho]. intros a (Va & Sc). split; assumption. }
  unfold sign_ctx_of. destruct (nth_error (tx_ins t) i) as [inp|] eqn:E.
  - pose proof (Forall_nth_error _ _ _ _ Hi E) as (_ & _ & _ & Sa & _ & Sc).
    split; [exact W|]. cbn [sc_code sc_amount]. split; [|exact Sa].
    destruct (in_script inp); [exact Sc|]. unfold lenN, two64. cbn. lia.
  - split; [exact W|]. cbn. unfold lenN, two64. cbn. lia.
Qed.

Lemma ctx_outs_NoDup u k : NoDup (tx_outs u) -> NoDup (t_vout (sc_tx (sign_ctx_of u k))).
Proof.
  intros Hn. assert (N : NoDup (map wire_out (tx_outs u))).
  { apply FinFun.Injective_map_NoDup; [|exact Hn]. intros [a b] [a' b'] Hq. unfold wire_out in Hq.
    cbn [out_sats out_script] in Hq. apply (f_equal to_value) in Hq as H1. apply (f_equal to_script) in Hq as H2.
    cbn in H1, H2. subst. reflexivity. }
  unfold sign_ctx_of. destruct (nth_error (tx_ins u) k); exact N.
Qed.

(** ** C04 coverage, on the library model *)

(** mutating a field the type does not commit to: CalcInputPreimage returns the same bytes *)
Theorem model_commit_invariant_forkid t i ht m : ht < 256 ->
  let t' := fst (apply_tx m t i) in let i' := snd (apply_tx m t i) in
  signable t i -> signable t' i' ->
  committed_in AlgForkid ht (sign_ctx_of t i) m = false -> applicable m (sign_ctx_of t i) ->
  fst (calc_input_preimage t' (N.of_nat i') ht) = fst (calc_input_preimage t (N.of_nat i) ht).
Proof.
  intros Hht t' i' S S' Hc Ha. subst t' i'.
  pose proof (model_forkid_preimage t i ht Hht S) as P. pose proof (model_forkid_preimage _ _ ht Hht S') as P'.
  cbv zeta in P, P'. rewrite (signable_ctx t i m S Ha) in P'.
  pose proof (commit_invariant_forkid _ ht m Hc Ha) as E. cbv zeta in E. rewrite E in P'. congruence.
Qed.

(** ... and so does CalcInputPreimageLegacy *)
Theorem model_commit_invariant_legacy t i ht m : ht < 256 ->
  let t' := fst (apply_tx m t i) in let i' := snd (apply_tx m t i) in
  signable t i -> signable t' i' ->
  committed_in AlgLegacy ht (sign_ctx_of t i) m = false -> applicable m (sign_ctx_of t i) ->
  fst (calc_input_preimage_legacy t' (N.of_nat i') ht) = fst (calc_input_preimage_legacy t (N.of_nat i) ht).
Proof.
  intros Hht t' i' S S' Hc Ha. subst t' i'.
  rewrite (model_legacy_preimage t i ht Hht S), (model_legacy_preimage _ _ ht Hht S'). cbv zeta.
  rewrite (signable_ctx t i m S Ha).
  pose proof (commit_invariant_legacy _ ht m Hc Ha) as E. cbv zeta in E. rewrite E. reflexivity.
Qed.

(** hence the signature hash — what ECDSA signs and verifies — is the same 32 bytes *)
Theorem model_commit_invariant_sighash t i ht m : ht < 256 ->
  let t' := fst (apply_tx m t i) in let i' := snd (apply_tx m t i) in
  signable t i -> signable t' i' ->
  committed_in (if has_forkid ht then AlgForkid else AlgLegacy) ht (sign_ctx_of t i) m = false ->
  applicable m (sign_ctx_of t i) ->
  fst (calc_input_signature_hash t' (N.of_nat i') ht) = fst (calc_input_signature_hash t (N.of_nat i) ht).
Proof.
  intros Hht t' i' S S' Hc Ha. subst t' i'. destruct (has_forkid ht) eqn:Ef.
  - rewrite !forkid_hash_is_sha256d by assumption.
    rewrite (model_commit_invariant_forkid t i ht m Hht S S' Hc Ha). reflexivity.
  - pose proof S as S0. destruct S as (Hwf & Hi & Ho & inp & sc & Hinp & Hsc). destruct S' as (Hwf' & Hi' & Ho' & inp' & sc' & Hinp' & Hsc').
    rewrite (legacy_sighash_is_spec t (N.of_nat i) ht inp sc) by (rewrite ?Nat2N.id; assumption).
    rewrite (legacy_sighash_is_spec _ (N.of_nat _) ht inp' sc') by (rewrite ?Nat2N.id; assumption).
    f_equal. unfold legacy_sighash. rewrite !Nat2N.id.
    pose proof (signable_ctx t i m S0 Ha) as E. unfold sign_ctx_of in E. rewrite Hinp, Hsc, Hinp', Hsc' in E.
    pose proof (commit_invariant_legacy _ ht m Hc Ha) as E2. cbv zeta in E2.
    unfold sign_ctx_of in E2. rewrite Hinp, Hsc in E2. rewrite <- E in E2.
    cbn [sc_tx sc_idx sc_code sc_amount] in E2. rewrite E2. reflexivity.
Qed.

(** mutating a committed field, FORKID: the ten pre-hash fields differ.  (That the preimages — which
    contain three of the fields only through double SHA-256 — then differ is SHA-256 collision
    resistance: an assumption, not a theorem.) *)
Theorem model_commit_sensitive_forkid t i ht m : ht < 256 ->
  let t' := fst (apply_tx m t i) in let i' := snd (apply_tx m t i) in
  signable t i -> signable t' i' ->
  committed_in AlgForkid ht (sign_ctx_of t i) m = true -> effective m (sign_ctx_of t i) ->
  NoDup (tx_outs t) -> NoDup (tx_outs t') ->
  exists v v',
    fst (calc_input_preimage t (N.of_nat i) ht) = SOk (assemble (components_of v)) /\
    fst (calc_input_preimage t' (N.of_nat i') ht) = SOk (assemble (components_of v')) /\
    components_of v' <> components_of v.
Proof.
  intros Hht t' i' S S' Hc He Nd Nd'. subst t' i'.
  pose proof (wf_tx_ctx _ i (proj1 S)) as W. pose proof (wf_tx_ctx _ (snd (apply_tx m t i)) (proj1 S')) as W'.
  pose proof (effective_applicable _ _ He) as Ha.
  pose proof (model_forkid_preimage t i ht Hht S) as P. pose proof (model_forkid_preimage _ _ ht Hht S') as P'.
  cbv zeta in P, P'. rewrite forkid_preimage_factors in P, P'.
  pose proof (signable_ctx t i m S Ha) as E. rewrite E in P', W'.
  assert (Hin : exists inp, nth_error (t_vin (sc_tx (sign_ctx_of t i))) (sc_idx (sign_ctx_of t i)) = Some inp).
  { destruct S as (_ & _ & _ & inp & sc & Hinp & Hsc). unfold sign_ctx_of. rewrite Hinp. unfold wire_tx. cbn [sc_tx sc_idx t_vin].
    rewrite nth_error_map, Hinp. cbn [option_map]. eauto. }
  destruct Hin as [winp Hwinp].
  assert (ND : forall u k, NoDup (tx_outs u) -> NoDup (t_vout (sc_tx (sign_ctx_of u k)))).
  { intros u k Hn. apply ctx_outs_NoDup. exact Hn. }
  destruct (commit_sensitive_forkid _ ht m winp Hc He Hwinp W W' ltac:(unfold two32; lia) (ND t i Nd)
              ltac:(rewrite <- E; apply ND; exact Nd')) as (v & v' & Ev & Ev' & Hd).
  exists v, v'. rewrite Ev in P. rewrite Ev' in P'. cbn [option_map] in P, P'. repeat split; congruence.
Qed.

Lemma sres_of_digest_inj sc tx n ht sc' tx' n' inp inp' :
  nth_error (t_vin tx) n = Some inp -> length (op_hash (ti_prevout inp)) = 32%nat ->
  nth_error (t_vin tx') n' = Some inp' -> length (op_hash (ti_prevout inp')) = 32%nat ->
  sres_of_digest (legacy_signature_hash sc' tx' n' ht) = sres_of_digest (legacy_signature_hash sc tx n ht) ->
  legacy_signature_hash sc' tx' n' ht = legacy_signature_hash sc tx n ht.
Proof.
  intros H1 L1 H2 L2 H.
  destruct (legacy_signature_hash sc tx n ht) as [|p] eqn:E, (legacy_signature_hash sc' tx' n' ht) as [|p'] eqn:E';
    cbn [sres_of_digest] in H; try reflexivity; try congruence.
  - pose proof (legacy_spec_preimage_long _ _ _ _ _ _ H2 L2 E') as L. assert (p' = default_hex) by congruence. subst.
    cbn in L. lia.
  - pose proof (legacy_spec_preimage_long _ _ _ _ _ _ H1 L1 E) as L. assert (p = default_hex) by congruence. subst.
    cbn in L. lia.
Qed.

(** mutating a committed field, legacy: the preimage itself — the very bytes that are hashed —
    differs (or one of the two is the constant of the SIGHASH_SINGLE bug and the other is not) *)
Theorem model_commit_sensitive_legacy t i ht m : ht < 256 ->
  let t' := fst (apply_tx m t i) in let i' := snd (apply_tx m t i) in
  signable t i -> signable t' i' ->
  committed_in AlgLegacy ht (sign_ctx_of t i) m = true -> effective m (sign_ctx_of t i) ->
  NoDup (tx_outs t) -> NoDup (tx_outs t') ->
  fst (calc_input_preimage_legacy t' (N.of_nat i') ht) <> fst (calc_input_preimage_legacy t (N.of_nat i) ht).
Proof.
  intros Hht t' i' S S' Hc He Nd Nd' Heq. subst t' i'.
  pose proof (wf_tx_ctx _ i (proj1 S)) as W. pose proof (wf_tx_ctx _ (snd (apply_tx m t i)) (proj1 S')) as W'.
  pose proof (effective_applicable _ _ He) as Ha.
  rewrite (model_legacy_preimage t i ht Hht S), (model_legacy_preimage _ _ ht Hht S') in Heq. cbv zeta in Heq.
  pose proof (signable_ctx t i m S Ha) as E.
  assert (Hin : forall u k, signable u k -> exists inp, nth_error (t_vin (sc_tx (sign_ctx_of u k))) (sc_idx (sign_ctx_of u k)) = Some inp /\
                                                     length (op_hash (ti_prevout inp)) = 32%nat).
  { intros u k (Hwf & _ & _ & inp & sc & Hinp & Hsc). unfold sign_ctx_of. rewrite Hinp. unfold wire_tx. cbn [sc_tx sc_idx t_vin].
    rewrite nth_error_map, Hinp. cbn [option_map]. eexists; split; [reflexivity|]. cbn. rewrite rev_length. apply (wf_tx_txid u inp k Hwf Hinp). }
  destruct (Hin t i S) as (winp & Hwinp & L). destruct (Hin _ _ S') as (winp' & Hwinp' & L').
  apply (sres_of_digest_inj _ _ _ _ _ _ _ _ _ Hwinp L Hwinp' L') in Heq.
  assert (ND : forall u k, NoDup (tx_outs u) -> NoDup (t_vout (sc_tx (sign_ctx_of u k)))).
  { intros u k Hn. apply ctx_outs_NoDup. exact Hn. }
  rewrite E in Heq, W'. revert Heq.
  apply (commit_sensitive_legacy _ ht m winp Hc He Hwinp W W' ltac:(unfold two32; lia) (ND t i Nd)).
  rewrite <- E. apply ND. exact Nd'.
Qed.
