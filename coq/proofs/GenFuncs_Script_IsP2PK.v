(** Script.IsP2PK (bscript/script.go), as printed from the Go source (it calls the PRINTED DecodeParts), is [is_p2pk] of
    model/Classify.v (C14), for every script, the panic outcome included: the function indexes the decoded parts, and
    the panic-freedom theorem of C14 then speaks about the code as printed. *)
From Coq Require Import List ZArith NArith Bool Lia ZifyN ZifyNat ZifyBool.
From Coq Require Import Strings.Byte.
From GoBT Require Import lib.Bytes lib.GoSem gen.Funcs proofs.GenFuncsTac proofs.GenFuncsLoopTac proofs.GenFuncsScriptTac proofs.GenFuncsPartsTac proofs.GenFuncs_DecodeParts.
From GoBT Require lib.Checked model.Push model.Classify.
Import ListNotations.
Ltac Zify.zify_post_hook ::= Z.div_mod_to_equations.
Local Open Scope Z_scope.

(** the printed function after DecodeParts, on the decoded parts *)
Lemma Script_IsP2PK_is_model (b : bytes) : to_outcome (Script_IsP2PK b) = Classify.is_p2pk b.
Proof.
  unfold Script_IsP2PK, Classify.is_p2pk, Classify.decoded. cbv zeta.
  rewrite DecodeParts_is_model.
  destruct (Push.decode_parts b) as [parts|parts| |]; cbn [of_dres bind to_outcome Checked.obind]; try reflexivity.
  classify_unfold.
  (* parts: fewer than two, exactly two, more *)
  destruct parts as [|p0 [|p1 [|p2 rest]]]; [split_model; reflexivity|split_model; reflexivity| |split_model; reflexivity].
  (* exactly two parts: each is empty or has a first byte *)
  destruct p0 as [|v0 p0]; destruct p1 as [|c1 p1]; split_model; reflexivity.
Qed.
