(** Tx.CalcInputPreimage (signaturehash.go), as printed from the Go source, is [calc_input_preimage] of
    model/SigHash.v (the FORKID / BIP143-style preimage), for every transaction, every input index below 2^32 (the
    parameter is a uint32) and all 256 hash-type bytes: the three guards (input exists, txid not empty, previous script
    not nil) in that order, the three hash selections, the ten fields in order.  The callees InputIdx, PreviousOutHash,
    SequenceHash, OutputsHash, VarInt.Bytes are the PRINTED functions (rewritten with their own equivalence theorems);
    TRUSTED mappings used (lib/GoTx.v): ReverseBytes -> [rev], crypto.Sha256d -> [sha256d] (inside the callees).
    An [error] is a [bool] in the printed term (lib/GoSem.v): the theorem says WHEN an error is returned, the three
    sentinel errors are not distinguished (the run-time correspondence compares them). *)
From Coq Require Import List ZArith NArith Bool Lia ZifyN ZifyNat ZifyBool.
From Coq Require Import Strings.Byte.
From GoBT Require Import lib.Bytes lib.VarInt lib.GoSem lib.GoTx gen.Funcs proofs.GenFuncsTac proofs.GenFuncsTxTac model.Tx model.SigHash.
From GoBT Require Import proofs.GenFuncs_Tx_OutputsHash proofs.GenFuncs_Tx_PreviousOutHash proofs.GenFuncs_Tx_SequenceHash proofs.GenFuncs_Tx_InputIdx.
Import ListNotations.
Ltac Zify.zify_post_hook ::= Z.div_mod_to_equations.
Local Open Scope Z_scope.

(** the model's outcome as the outcome of a printed function with results ([]byte, error) *)
Definition sres_outcome (r : sres) : M (bytes * bool) :=
  match r with
  | SOk b => Val (b, false)
  | SErr _ => Val ([], true)
  | SPanic => Panic
  | SFatal => NoFuel      (* log.Fatal inside Clone: never produced by a function proved here *)
  | SFuel => NoFuel
  end.

(** flag tests: [f & c == d] on a Go uint8 is the model's test on N *)
Lemma Z_land_of_N (a b : N) : Z.land (Z.of_N a) (Z.of_N b) = Z.of_N (N.land a b).
Proof. destruct a, b; reflexivity. Qed.

Lemma go_and_eqb_N (a : N) (b c : Z) : 0 <= b -> 0 <= c ->
  (go_and (Z.of_N a) b =? c) = (N.land a (Z.to_N b) =? Z.to_N c)%N.
Proof.
  intros Hb Hc. unfold go_and. rewrite <- (Z2N.id b Hb) at 1. rewrite Z_land_of_N.
  destruct (N.eqb_spec (N.land a (Z.to_N b)) (Z.to_N c)) as [E|E].
  - rewrite E. rewrite Z2N.id by exact Hc. apply Z.eqb_refl.
  - apply Z.eqb_neq. intros E2. apply E. rewrite <- E2. rewrite N2Z.id. reflexivity.
Qed.

Ltac sh_flags :=
  repeat match goal with
  | |- context [go_and (Z.of_N ?a) ?b =? ?c] => rewrite (go_and_eqb_N a b c) by lia
  end;
  cbn [Z.to_N].

Lemma go_conv_I32_uint32 (i : N) : (i < 4294967296)%N -> go_conv I32 (Z.of_N i) = int32_of_uint32 i.
Proof.
  intros Hi. unfold go_conv, go_wrap, int32_of_uint32.
  destruct (N.ltb_spec i 2147483648); lia.
Qed.

Lemma out_count_cond (i : N) (outs : list go_Output) :
  (Z.of_N i <? go_conv U32 (go_len (map Some outs))) = (i <? uint32_of_len (map output_of_go outs))%N.
Proof.
  unfold uint32_of_len, go_conv, go_wrap, go_len, two32. rewrite !map_length.
  destruct (N.ltb_spec i (N.of_nat (length outs) mod 4294967296)); lia.
Qed.

Ltac tx_extra ::= progress unfold Input_PreviousTxID, Tx_OutputCount.

Lemma Tx_CalcInputPreimage_is_model (ins : list go_Input) (outs : list go_Output) (ver lock : Z) (i ht : N) :
  Forall go_input_ok ins -> len_ok ins -> Forall go_output_ok outs -> len_ok outs -> u32 ver -> u32 lock ->
  (i < 4294967296)%N -> (ht < 256)%N ->
  Tx_CalcInputPreimage (Z.of_N i) (Z.of_N ht) (map Some ins) (map Some outs) ver lock
  = sres_outcome (fst (calc_input_preimage (tx_of_go ins outs ver lock) i ht)).
Proof.
  intros Hins Hli Houts Hlo Hver Hlock Hi Hht.
  unfold Tx_CalcInputPreimage, calc_input_preimage.
  rewrite (input_idx_of_go ins outs ver lock i).
  replace (go_conv I64 (Z.of_N i)) with (Z.of_N i) by (unfold go_conv, go_wrap; lia).
  rewrite !Tx_InputIdx_nth by (assumption || lia).
  replace (Z.to_nat (Z.of_N i)) with (N.to_nat i) by lia.
  destruct (nth_error ins (N.to_nat i)) as [g|] eqn:En; cbn [option_map bind go_isnil fst sres_outcome]; [|reflexivity].
  assert (Hg : go_input_ok g) by (rewrite Forall_forall in Hins; apply Hins; eapply nth_error_In; exact En).
  destruct g as [txid sats script unlock vout seq]. destruct Hg as (Hvout & Hseq & Hsats & Hlu & Hls).
  cbn [Input_previousTxID Input_PreviousTxSatoshis Input_PreviousTxScript Input_UnlockingScript Input_PreviousTxOutIndex Input_SequenceNumber] in *.
  unfold input_of_go. cbn [in_txid in_script in_vout in_sats in_seq Input_previousTxID Input_PreviousTxSatoshis Input_PreviousTxScript Input_UnlockingScript Input_PreviousTxOutIndex Input_SequenceNumber].
  tx_norm.
  replace (go_len txid =? 0) with (length txid =? 0)%nat by (unfold go_len; destruct (Nat.eqb_spec (length txid) 0); lia).
  destruct (length txid =? 0)%nat; [reflexivity|].
  destruct script as [sc|]; tx_norm; [|reflexivity].
  cbn [script_of] in Hls.
  sh_flags. unfold sh_anyonecanpay, sh_single, sh_none.
  replace (go_shr (go_conv U32 (Z.of_N ht)) 0) with (Val (Z.of_N ht)) by (unfold go_shr, go_conv, go_wrap; cbn [Z.ltb Z.compare]; rewrite Z.shiftr_0_r; f_equal; lia).
  rewrite ?(Tx_PreviousOutHash_is_model ins outs ver lock Hins Hli), ?(Tx_SequenceHash_is_model ins outs ver lock Hins Hli).
  rewrite ?(Tx_OutputsHash_is_model (-1) ins outs ver lock Houts Hlo).
  rewrite ?(go_conv_I32_uint32 i Hi).
  rewrite ?(Tx_OutputsHash_is_model (int32_of_uint32 i) ins outs ver lock Houts Hlo).
  rewrite ?out_count_cond. cbn [tx_of_go tx_outs tx_version tx_lock].
  change (mkTx (Z.to_N ver) (map input_of_go ins) (map output_of_go outs) (Z.to_N lock)) with (tx_of_go ins outs ver lock).
  set (t := tx_of_go ins outs ver lock).
  destruct (N.land ht 128 =? 0)%N; destruct (N.land ht 31 =? 3)%N; destruct (N.land ht 31 =? 2)%N;
    cbn [andb negb]; tx_norm;
    try (destruct (i <? uint32_of_len (map output_of_go outs))%N; tx_norm);
    try (destruct (outputs_hash t (-1)) as [ho|]; cbn [hash_result bind fst sres_outcome]; [|reflexivity]);
    try (destruct (outputs_hash t (int32_of_uint32 i)) as [ho|]; cbn [hash_result bind fst sres_outcome]; [|reflexivity]);
    tx_norm; cbn [fst sres_outcome]; apply Val_inj; f_equal; unfold zero32; rewrite ?N2Z.id; tx_bytes_eq.
Qed.
