(** Proofs about the float64 satoshi <-> coin-amount conversion (model/Amount.v).

    Main result [amount_roundtrip]: for every amount up to 21 million coins,
      uint64(math.Round((float64(sat) / 1e8) * 1e8)) = sat.
    Argument: both float operations are correctly rounded (Flocq's [Bdiv_correct],
    [Bmult_correct]), each introduces a relative error of at most 2^-53, so the product is within
    sat * (2^-52 + 2^-106) <= 0.4663 < 1/2 of sat, and rounding to the nearest integer recovers it. *)
From Coq Require Import ZArith NArith Reals Lia Lra List Bool.
From Flocq Require Import Core IEEE754.BinarySingleNaN Relative.
From GoBT Require Import model.Amount.
Local Open Scope R_scope.

Notation fexp64 := (FLT_exp (-1074) 53).

Lemma fexp_eq : SpecFloat.fexp 53 1024 = fexp64.
Proof. reflexivity. Qed.

Lemma f64_of_Z_exact z : (Z.abs z < 2^53)%Z ->
  B2R (f64_of_Z z) = IZR z /\ is_finite (f64_of_Z z) = true.
Proof.
  intros Hz. unfold f64_of_Z.
  pose proof (binary_normalize_correct 53 1024 _ _ mode_NE z 0 false) as H.
  cbv zeta in H.
  assert (HF : F2R (Float radix2 z 0) = IZR z).
  { unfold F2R. simpl. ring. }
  rewrite HF in H.
  assert (HG : generic_format radix2 fexp64 (IZR z)).
  { apply generic_format_FLT. apply (FLT_spec _ _ _ _ (Float radix2 z 0)); simpl; [now rewrite HF| exact Hz | lia]. }
  rewrite round_generic in H; [|apply valid_rnd_round_mode|exact HG].
  rewrite Rlt_bool_true in H. { tauto. }
  rewrite <- abs_IZR. apply Rlt_trans with (IZR (2^53)). { now apply IZR_lt. }
  change (2^53)%Z with (Zpower radix2 53). rewrite IZR_Zpower by lia. apply bpow_lt. lia.
Qed.

Definition c1e8 : R := 100000000.

Lemma f1e8_exact : B2R f1e8 = c1e8 /\ is_finite f1e8 = true.
Proof. unfold f1e8, c1e8. apply f64_of_Z_exact. reflexivity. Qed.

Lemma eps_bound : / 2 * bpow radix2 (- (53) + 1) = / 9007199254740992.
Proof.
  change (bpow radix2 (-(53)+1)) with (/ IZR (Z.pow_pos radix2 52)).
  change (Z.pow_pos radix2 52) with 4503599627370496%Z. lra.
Qed.

Lemma tiny_bound : bpow radix2 (-1074 + 53 - 1) <= / 1073741824.
Proof.
  apply Rle_trans with (bpow radix2 (-30)).
  - apply bpow_le. lia.
  - change (bpow radix2 (-30)) with (/ IZR (Z.pow_pos radix2 30)).
    change (Z.pow_pos radix2 30) with 1073741824%Z. lra.
Qed.

Lemma rel_err x : / 1073741824 <= Rabs x ->
  exists d, Rabs d <= / 9007199254740992 /\
    round radix2 fexp64 ZnearestE x = x * (1 + d).
Proof.
  intros Hx.
  destruct (relative_error_N_FLT_ex radix2 (-1074) 53 eq_refl (fun x => negb (Z.even x)) x) as (d & Hd & E).
  - eapply Rle_trans; [apply tiny_bound|exact Hx].
  - exists d. split; [|exact E]. rewrite <- eps_bound. exact Hd.
Qed.

Lemma real_core (r d1 d2 : R) :
  1 <= r <= 2100000000000000 ->
  Rabs d1 <= / 9007199254740992 -> Rabs d2 <= / 9007199254740992 ->
  Rabs (r / c1e8 * (1 + d1) * c1e8 * (1 + d2) - r) < / 2.
Proof.
  intros Hr H1 H2. unfold c1e8.
  replace (r / 100000000 * (1 + d1) * 100000000 * (1 + d2) - r) with (r * (d1 + d2 + d1 * d2)) by (field; lra).
  set (e := / 9007199254740992) in *.
  assert (Hs : Rabs (d1 + d2 + d1 * d2) <= e + e + e * e).
  { eapply Rle_trans; [apply Rabs_triang|]. apply Rplus_le_compat.
    - eapply Rle_trans; [apply Rabs_triang|]. now apply Rplus_le_compat.
    - rewrite Rabs_mult. apply Rmult_le_compat; try apply Rabs_pos; assumption. }
  rewrite Rabs_mult, (Rabs_pos_eq r) by lra.
  apply Rle_lt_trans with (2100000000000000 * (e + e + e * e)).
  - apply Rmult_le_compat; [lra | apply Rabs_pos | lra | exact Hs].
  - unfold e. lra.
Qed.

Lemma lt_bpow_1024 x : Rabs x < 9007199254740992 -> Rabs x < bpow radix2 1024.
Proof.
  intros H. eapply Rlt_trans; [exact H|].
  change 9007199254740992 with (IZR (Zpower radix2 53)). rewrite IZR_Zpower by lia.
  apply bpow_lt. lia.
Qed.


Section Main.
Variable sat : N.
Hypothesis Hpos : (1 <= sat)%N.
Hypothesis Hmax : (sat <= max_money)%N.

Let n := Z.of_N sat.
Let r := IZR n.

Lemma r_range : 1 <= r <= 2100000000000000.
Proof.
  unfold r, n, max_money in *. split.
  - apply IZR_le. lia.
  - apply IZR_le. lia.
Qed.

Lemma of_sat_correct :
  is_finite (of_sat sat) = true /\
  exists d1, Rabs d1 <= / 9007199254740992 /\ B2R (of_sat sat) = r / c1e8 * (1 + d1).
Proof.
  pose proof r_range as Hr.
  destruct f1e8_exact as [Ec Fc].
  destruct (f64_of_Z_exact n) as [En Fn].
  { unfold n, max_money in *. lia. }
  unfold of_sat. fold n.
  pose proof (Bdiv_correct 53 1024 _ _ mode_NE (f64_of_Z n) f1e8) as H.
  rewrite Ec, En in H. fold r in H.
  destruct (rel_err (r / c1e8)) as (d1 & Hd1 & E1).
  { unfold c1e8. rewrite Rabs_pos_eq; lra. }
  change (round_mode mode_NE) with ZnearestE in H.
  change (SpecFloat.fexp 53 1024) with fexp64 in H.
  rewrite E1 in H.
  rewrite Rlt_bool_true in H.
  - destruct H as (H1 & H2 & _). { unfold c1e8; lra. }
    split. { now rewrite H2. }
    exists d1. split; [exact Hd1|exact H1].
  - apply lt_bpow_1024. unfold c1e8. apply Rabs_le_inv in Hd1.
    assert (-1 <= d1 <= 1) as Hd1' by lra.
    apply Rabs_lt. split; nra.
Qed.

Lemma mult_correct :
  is_finite (Bmult mode_NE (of_sat sat) f1e8) = true /\
  Rabs (B2R (Bmult mode_NE (of_sat sat) f1e8) - r) < / 2.
Proof.
  pose proof r_range as Hr.
  destruct f1e8_exact as [Ec Fc].
  destruct of_sat_correct as (Fx & d1 & Hd1 & Ex).
  pose proof (Bmult_correct 53 1024 _ _ mode_NE (of_sat sat) f1e8) as H.
  rewrite Ec, Ex in H.
  change (round_mode mode_NE) with ZnearestE in H.
  change (SpecFloat.fexp 53 1024) with fexp64 in H.
  destruct (rel_err (r / c1e8 * (1 + d1) * c1e8)) as (d2 & Hd2 & E2).
  { replace (r / c1e8 * (1 + d1) * c1e8) with (r * (1 + d1)) by (unfold c1e8; field).
    apply Rabs_le_inv in Hd1.
    assert (/ 2 <= 1 + d1) as Hd1' by lra.
    assert (/ 2 <= r * (1 + d1)) by nra.
    rewrite Rabs_pos_eq; lra. }
  rewrite E2 in H.
  pose proof (real_core r d1 d2 Hr Hd1 Hd2) as Hc.
  rewrite Rlt_bool_true in H.
  - destruct H as (H1 & H2 & _). rewrite H1, H2, Fx, Fc. split; [reflexivity|exact Hc].
  - apply lt_bpow_1024.
    apply Rabs_lt_inv in Hc. apply Rabs_lt. lra.
Qed.

Lemma go_round_correct :
  is_finite (go_round (Bmult mode_NE (of_sat sat) f1e8)) = true /\
  B2R (go_round (Bmult mode_NE (of_sat sat) f1e8)) = r.
Proof.
  destruct mult_correct as [Fy Hy].
  set (y := Bmult mode_NE (of_sat sat) f1e8) in *.
  unfold go_round.
  destruct (Bnearbyint_correct 53 1024 _ mode_NA y) as (H1 & H2 & _).
  split. { now rewrite H2. }
  rewrite H1. change (round_mode mode_NA) with ZnearestA.
  unfold round, scaled_mantissa, cexp, FIX_exp, F2R. simpl.
  rewrite !Rmult_1_r. rewrite (Znearest_imp _ _ n).
  - reflexivity.
  - exact Hy.
Qed.

Lemma to_sat_pos : to_sat (of_sat sat) = sat.
Proof.
  destruct go_round_correct as [Fg Eg].
  unfold to_sat, f64_to_u64.
  set (g := go_round (Bmult mode_NE (of_sat sat) f1e8)) in *.
  assert (Btrunc g = n) as ->.
  { apply eq_IZR. rewrite (Btrunc_correct 53 1024 prec53_lt_emax), Eg. unfold r.
    apply round_generic; [apply valid_rnd_ZR|].
    apply generic_format_FIX. apply (FIX_spec _ _ _ (Float radix2 n 0)); [|reflexivity].
    unfold F2R; simpl; ring. }
  unfold n. rewrite N2Z.id. apply N.mod_small. unfold max_money in Hmax. lia.
Qed.

End Main.

(** ** The round trip holds for every amount up to 21 million coins *)
Theorem amount_roundtrip : forall sat : N, (sat <= max_money)%N -> to_sat (of_sat sat) = sat.
Proof.
  intros sat Hmax. destruct (N.eq_dec sat 0) as [->|Hnz].
  - vm_compute. reflexivity.
  - apply to_sat_pos; [lia|exact Hmax].
Qed.

Theorem of_sat_finite : forall sat : N, (sat <= max_money)%N -> is_finite (of_sat sat) = true.
Proof.
  intros sat Hmax. destruct (N.eq_dec sat 0) as [->|Hnz].
  - vm_compute. reflexivity.
  - apply of_sat_correct; [lia|exact Hmax].
Qed.

(** the product Value * 100000000 is within 1/2 of the original integer (so math.Round recovers it) *)
Theorem amount_mult_error : forall sat : N, (sat <= max_money)%N ->
  Rabs (B2R (Bmult mode_NE (of_sat sat) f1e8) - IZR (Z.of_N sat)) < / 2.
Proof.
  intros sat Hmax. destruct (N.eq_dec sat 0) as [->|Hnz].
  - replace (B2R (Bmult mode_NE (of_sat 0) f1e8)) with 0.
    + simpl. rewrite Rminus_0_r, Rabs_R0. lra.
    + vm_compute. reflexivity.
  - apply mult_correct; [lia|exact Hmax].
Qed.

(** ** Without math.Round (plain truncation) the round trip fails: 3 satoshis come back as 2 *)
Theorem amount_roundtrip_trunc_refuted :
  exists sat : N, (sat <= max_money)%N /\ to_sat_trunc (of_sat sat) <> sat.
Proof. exists 3%N. split; [vm_compute; discriminate | vm_compute; discriminate]. Qed.

(** ** Finite check (NOT the theorem; a direct evaluation of the model on 0..20000, kept as an
    independent sanity check of the definitions) *)
Theorem amount_roundtrip_exhaustive_small :
  forallb (fun k => N.eqb (to_sat (of_sat k)) k) (map N.of_nat (seq 0 20001)) = true.
Proof. vm_cast_no_check (eq_refl true). Qed.
