(** Proofs for C04 (coverage part): the signature preimage is a function of the committed view
    (spec/CommitSpec.v); a mutation of a field the hash type does not commit to leaves the view —
    hence the preimage and the digest — unchanged; an effective mutation of a committed field changes
    the view, and the pre-hash byte strings are injective in the view (fixed-width / length-prefixed
    encodings).  Lifted to the library model (model/SigHash.v) through the C02 / C03 theorems. *)
From Coq Require Import List NArith ZArith Lia ZifyN ZifyNat ZifyBool Bool Arith.
From Coq Require Import Strings.Byte.
From GoBT Require Import lib.Bytes lib.Parse lib.VarInt lib.Sha256 spec.DigestSpec spec.CommitSpec.
Import ListNotations.
Ltac Zify.zify_post_hook ::= Z.div_mod_to_equations.
Local Open Scope N_scope.

(** * A. list edits *)
Lemma set_nth_length {A} j (f : A -> A) l : length (set_nth j f l) = length l.
Proof. revert j; induction l as [|x r IH]; intros [|j]; cbn; auto. Qed.

Lemma nth_error_set_nth {A} j (f : A -> A) l k :
  nth_error (set_nth j f l) k = if Nat.eqb k j then option_map f (nth_error l k) else nth_error l k.
Proof.
  revert j k; induction l as [|x r IH]; intros j k.
  - destruct j, k; cbn; try reflexivity; destruct (Nat.eqb k j); reflexivity.
  - destruct j as [|j], k as [|k]; cbn; try reflexivity. apply IH.
Qed.

Lemma insert_at_length {A} j (x : A) l : length (insert_at j x l) = S (length l).
Proof.
  unfold insert_at. rewrite app_length. cbn [length]. rewrite firstn_length, skipn_length. lia.
Qed.

Lemma insert_at_cons {A} j (x a : A) l : insert_at (S j) x (a :: l) = a :: insert_at j x l.
Proof. reflexivity. Qed.

Lemma nth_error_insert_at {A} j (x : A) l k : (j <= length l)%nat ->
  nth_error (insert_at j x l) k =
  if Nat.ltb k j then nth_error l k else if Nat.eqb k j then Some x else nth_error l (pred k).
Proof.
  revert l k; induction j as [|j IH]; intros l k Hj.
  - unfold insert_at; cbn. destruct k; reflexivity.
  - destruct l as [|a l]; [cbn in Hj; lia|]. rewrite insert_at_cons.
    destruct k as [|k]; [reflexivity|]. cbn [nth_error]. rewrite IH by (cbn in Hj; lia).
    change (Nat.ltb (S k) (S j)) with (Nat.ltb k j). change (Nat.eqb (S k) (S j)) with (Nat.eqb k j).
    destruct (Nat.ltb_spec k j) as [H|H]; [reflexivity|].
    destruct (Nat.eqb_spec k j) as [H2|H2]; [reflexivity|].
    destruct k; [lia|]. reflexivity.
Qed.

Lemma remove_at_cons {A} j (a : A) l : remove_at (S j) (a :: l) = a :: remove_at j l.
Proof. reflexivity. Qed.

Lemma nth_error_remove_at {A} j (l : list A) k :
  nth_error (remove_at j l) k = if Nat.ltb k j then nth_error l k else nth_error l (S k).
Proof.
  revert l k; induction j as [|j IH]; intros l k.
  - destruct l; unfold remove_at; cbn; [destruct k; reflexivity | reflexivity].
  - destruct l as [|a l].
    + unfold remove_at; cbn [firstn skipn app]. destruct (Nat.ltb k (S j)); destruct k; reflexivity.
    + rewrite remove_at_cons. destruct k as [|k]; [reflexivity|]. cbn [nth_error]. rewrite IH.
      change (Nat.ltb (S k) (S j)) with (Nat.ltb k j). reflexivity.
Qed.

Lemma remove_at_length {A} j (l : list A) : (j < length l)%nat -> length (remove_at j l) = pred (length l).
Proof.
  intros H. unfold remove_at. rewrite app_length, firstn_length, skipn_length. lia.
Qed.

Lemma nth_error_ext_eq {A} (l1 l2 : list A) : (forall k, nth_error l1 k = nth_error l2 k) -> l1 = l2.
Proof.
  revert l2; induction l1 as [|x r IH]; intros [|y s] H; auto.
  - specialize (H 0%nat); discriminate.
  - specialize (H 0%nat); discriminate.
  - pose proof (H 0%nat) as H0. cbn in H0. injection H0 as ->. f_equal. apply IH. intros k. exact (H (S k)).
Qed.

Lemma map_set_nth_same {A B} (g : A -> B) (f : A -> A) j l : (forall x, g (f x) = g x) ->
  map g (set_nth j f l) = map g l.
Proof. intros H. revert j; induction l as [|x r IH]; intros [|j]; cbn; auto; [rewrite H|rewrite IH]; reflexivity. Qed.

Lemma map_set_nth_diff {A B} (g : A -> B) (f : A -> A) j l x : nth_error l j = Some x -> g (f x) <> g x ->
  map g (set_nth j f l) <> map g l.
Proof.
  intros Hn Hd He. apply (f_equal (fun l => nth_error l j)) in He.
  rewrite !nth_error_map, nth_error_set_nth, Nat.eqb_refl, Hn in He. cbn in He. congruence.
Qed.

Lemma set_nth_diff {A} (f : A -> A) j l x : nth_error l j = Some x -> f x <> x -> set_nth j f l <> l.
Proof.
  intros Hn Hd He. apply (f_equal (fun l => nth_error l j)) in He.
  rewrite nth_error_set_nth, Nat.eqb_refl, Hn in He. cbn in He. congruence.
Qed.

Lemma length_neq {A} (a b : list A) : length a <> length b -> a <> b.
Proof. intros H ->. auto. Qed.

(** * B. injectivity of the fixed-width and length-prefixed encodings *)
Lemma app_inj_len {A} (a a' b b' : list A) : length a = length a' -> a ++ b = a' ++ b' -> a = a' /\ b = b'.
Proof.
  revert a'; induction a as [|x a IH]; intros [|y a'] Hl H; cbn in *; try discriminate; auto.
  injection H as -> H. injection Hl as Hl. destruct (IH a' Hl H) as [-> ->]. auto.
Qed.

(** "prefix-injective": the encoding of a value can be told apart from whatever follows it *)
Definition pinj {A} (P : A -> Prop) (f : A -> bytes) : Prop :=
  forall a b r r', P a -> P b -> f a ++ r = f b ++ r' -> a = b /\ r = r'.

Lemma pinj_inj {A} (P : A -> Prop) f a b : pinj P f -> P a -> P b -> f a = f b -> a = b.
Proof.
  intros Hp Ha Hb H. destruct (Hp a b [] [] Ha Hb) as [E _]; [rewrite !app_nil_r; exact H | exact E].
Qed.

Lemma pinj_u32 : pinj (fun v => v < two32) u32.
Proof.
  intros a b r r' Ha Hb H. unfold u32 in H.
  apply app_inj_len in H; [|rewrite !le_enc_length; reflexivity]. destruct H as [H ->]. split; [|reflexivity].
  apply (le_enc_inj 4); [rewrite pow256_4; exact Ha | rewrite pow256_4; exact Hb | exact H].
Qed.
Lemma pinj_u64 : pinj (fun v => v < two64) u64.
Proof.
  intros a b r r' Ha Hb H. unfold u64 in H.
  apply app_inj_len in H; [|rewrite !le_enc_length; reflexivity]. destruct H as [H ->]. split; [|reflexivity].
  apply (le_enc_inj 8); [rewrite pow256_8; exact Ha | rewrite pow256_8; exact Hb | exact H].
Qed.
Lemma pinj_compact_size : pinj (fun v => v < two64) compact_size.
Proof.
  intros a b r r' Ha Hb H. unfold compact_size in H.
  pose proof (varint_roundtrip a r Ha) as Ra. pose proof (varint_roundtrip b r' Hb) as Rb.
  rewrite H in Ra. rewrite Ra in Rb. injection Rb as -> _ ->. auto.
Qed.
Lemma pinj_ser_script : pinj (fun s => lenN s < two64) ser_script.
Proof.
  intros a b r r' Ha Hb H. unfold ser_script in H. rewrite <- !app_assoc in H.
  apply pinj_compact_size in H; [|assumption..]. destruct H as [Hl H].
  apply app_inj_len in H; [exact H|]. unfold lenN in Hl. lia.
Qed.
Lemma pinj_ser_outpoint : pinj wf_outpoint ser_outpoint.
Proof.
  intros [ha na] [hb nb] r r' [Hla Hna] [Hlb Hnb] H. unfold ser_outpoint in H.
  cbn [op_hash op_n] in *. rewrite <- !app_assoc in H. apply app_inj_len in H; [|congruence]. destruct H as [-> H].
  apply pinj_u32 in H; [|assumption..]. destruct H as [-> ->]. auto.
Qed.
Lemma pinj_ser_txin : pinj wf_txin ser_txin.
Proof.
  intros [pa sa qa] [pb sb qb] r r' (Hpa & Hsa & Hqa) (Hpb & Hsb & Hqb) H. unfold ser_txin in H.
  cbn [ti_prevout ti_script_sig ti_sequence] in *. rewrite <- !app_assoc in H. apply pinj_ser_outpoint in H; [|assumption..]. destruct H as [-> H].
  apply pinj_ser_script in H; [|assumption..]. destruct H as [-> H].
  apply pinj_u32 in H; [|assumption..]. destruct H as [-> ->]. auto.
Qed.
Lemma pinj_ser_txout : pinj wf_txout ser_txout.
Proof.
  intros [va sa] [vb sb] r r' [Hva Hsa] [Hvb Hsb] H. unfold ser_txout in H.
  cbn [to_value to_script] in *. rewrite <- !app_assoc in H. apply pinj_u64 in H; [|assumption..]. destruct H as [-> H].
  apply pinj_ser_script in H; [|assumption..]. destruct H as [-> ->]. auto.
Qed.

(** a sequence of prefix-injective encodings of known count *)
Lemma concat_map_pinj_len {A} (P : A -> Prop) f (l1 l2 : list A) r r' : pinj P f ->
  Forall P l1 -> Forall P l2 -> length l1 = length l2 ->
  concat (map f l1) ++ r = concat (map f l2) ++ r' -> l1 = l2 /\ r = r'.
Proof.
  intros Hp. revert l2; induction l1 as [|a l1 IH]; intros [|b l2] F1 F2 Hl H; cbn in *; try discriminate; auto.
  inversion F1 as [|? ? Pa F1']; inversion F2 as [|? ? Pb F2']; subst.
  rewrite <- !app_assoc in H. apply Hp in H; [|assumption..]. destruct H as [-> H].
  destruct (IH l2 F1' F2' ltac:(lia) H) as [-> ->]. auto.
Qed.
(** ... of unknown count, when no encoding is empty *)
Lemma concat_map_pinj {A} (P : A -> Prop) f (l1 l2 : list A) : pinj P f -> (forall a, P a -> f a <> []) ->
  Forall P l1 -> Forall P l2 -> concat (map f l1) = concat (map f l2) -> l1 = l2.
Proof.
  intros Hp Hne. revert l2; induction l1 as [|a l1 IH]; intros [|b l2] F1 F2 H; cbn in *; auto.
  - inversion F2; subst. symmetry in H. apply app_eq_nil in H. destruct H as [H _]. exfalso. eapply Hne; eauto.
  - inversion F1; subst. apply app_eq_nil in H. destruct H as [H _]. exfalso. eapply Hne; eauto.
  - inversion F1 as [|? ? Pa F1']; inversion F2 as [|? ? Pb F2']; subst.
    apply Hp in H; [|assumption..]. destruct H as [-> H]. f_equal. apply IH; assumption.
Qed.

Lemma pinj_ser_vector {A} (P : A -> Prop) f : pinj P f ->
  pinj (fun l => Forall P l /\ N.of_nat (length l) < two64) (ser_vector f).
Proof.
  intros Hp a b r r' [Fa La] [Fb Lb] H. unfold ser_vector in H. rewrite <- !app_assoc in H.
  apply pinj_compact_size in H; [|assumption..]. destruct H as [Hl H].
  apply (concat_map_pinj_len P f) in H; auto. lia.
Qed.

Lemma pinj_ser_transaction : pinj wf_transaction ser_transaction.
Proof.
  intros [va ia oa la] [vb ib ob lb] r r' (Hva & Hla & Hia & Hoa & Hnia & Hnoa) (Hvb & Hlb & Hib & Hob & Hnib & Hnob) H.
  unfold ser_transaction in H. cbn [t_version t_vin t_vout t_locktime] in *. rewrite <- !app_assoc in H.
  apply pinj_u32 in H; [|assumption..]. destruct H as [-> H].
  apply (pinj_ser_vector wf_txin ser_txin pinj_ser_txin) in H; [|split; assumption..]. destruct H as [-> H].
  apply (pinj_ser_vector wf_txout ser_txout pinj_ser_txout) in H; [|split; assumption..]. destruct H as [-> H].
  apply pinj_u32 in H; [|assumption..]. destruct H as [-> ->]. auto.
Qed.

Lemma ser_outpoint_nonempty o : ser_outpoint o <> [].
Proof. unfold ser_outpoint, u32. intros H. apply app_eq_nil in H. destruct H as [_ H]. discriminate. Qed.
Lemma u32_nonempty v : u32 v <> [].
Proof. discriminate. Qed.
Lemma ser_txout_nonempty o : ser_txout o <> [].
Proof. unfold ser_txout, u64. discriminate. Qed.

(** * C. the replay-protected (FORKID) digest *)
Definition ov (ht : N) (idx : nat) (vout : list txout) : option (list txout) :=
  if is_all ht then Some vout
  else if is_single ht then option_map (fun o => [o]) (nth_error vout idx) else None.

Lemma fv_outputs_spec ht idx vout :
  match committed_outputs ht idx vout with
  | AllOutputs => Some vout | MatchingOutput o => Some [o] | NoOutputs => None
  end = ov ht idx vout.
Proof.
  unfold committed_outputs, ov, is_all. destruct (is_single ht), (is_none ht); cbn; try reflexivity;
    destruct (nth_error vout idx); reflexivity.
Qed.

Lemma none_not_single ht : is_none ht = true -> is_single ht = false.
Proof.
  unfold is_none, is_single, SIGHASH_NONE, SIGHASH_SINGLE. intros H. apply N.eqb_eq in H. rewrite H. reflexivity.
Qed.

Lemma cs_spec ht : commits_to_all_sequences ht = negb (anyone_can_pay ht) && is_all ht.
Proof. unfold commits_to_all_sequences, is_all. destruct (anyone_can_pay ht), (is_single ht), (is_none ht); reflexivity. Qed.

(** the view with the flag predicates in the form the table uses *)
Definition fview (tx : transaction) (idx : nat) (code : bytes) (amount ht : N) (inp : txin) : forkid_view :=
  mkFV (t_version tx)
       (if negb (anyone_can_pay ht) then Some (map ti_prevout (t_vin tx)) else None)
       (if negb (anyone_can_pay ht) && is_all ht then Some (map ti_sequence (t_vin tx)) else None)
       (ti_prevout inp) code amount (ti_sequence inp) (ov ht idx (t_vout tx)) (t_locktime tx) ht.

Lemma forkid_view_of_eq c ht :
  forkid_view_of c ht =
  option_map (fview (sc_tx c) (sc_idx c) (sc_code c) (sc_amount c) ht) (nth_error (t_vin (sc_tx c)) (sc_idx c)).
Proof.
  unfold forkid_view_of, fview. destruct (nth_error (t_vin (sc_tx c)) (sc_idx c)); [|reflexivity].
  cbn [option_map]. rewrite fv_outputs_spec, cs_spec. reflexivity.
Qed.

(** ** the preimage is a function of the view *)
Theorem forkid_preimage_factors c ht :
  forkid_preimage (sc_tx c) (sc_idx c) (sc_code c) (sc_amount c) ht =
  option_map (fun v => assemble (components_of v)) (forkid_view_of c ht).
Proof.
  unfold forkid_preimage, forkid_view_of. destruct (nth_error (t_vin (sc_tx c)) (sc_idx c)) as [inp|]; [|reflexivity].
  cbn [option_map]. f_equal.
  unfold digest_bytes, forkid_fields, assemble, components_of.
  cbn [d_version d_hash_prevouts d_hash_sequence d_outpoint d_script_code d_value d_sequence d_hash_outputs d_locktime
       d_hash_type fc_version fc_prevouts fc_sequences fc_outpoint fc_code fc_amount fc_sequence fc_outputs fc_locktime
       fc_type fv_version fv_prevouts fv_sequences fv_outpoint fv_code fv_amount fv_sequence fv_outputs fv_locktime fv_type].
  f_equal. f_equal; [|f_equal; [|do 4 f_equal; f_equal]].
  - unfold hash_prevouts. destruct (commits_to_all_prevouts ht); cbn [option_map hash_or_zero]; [rewrite map_map|]; reflexivity.
  - unfold hash_sequence. destruct (commits_to_all_sequences ht); cbn [option_map hash_or_zero]; [rewrite map_map|]; reflexivity.
  - unfold hash_outputs. destruct (committed_outputs ht (sc_idx c) (t_vout (sc_tx c))); cbn [option_map hash_or_zero map concat];
      [reflexivity | rewrite app_nil_r; reflexivity | reflexivity].
Qed.

(** ** the pre-hash byte strings are injective in the view *)
Definition wf_fview (v : forkid_view) : Prop :=
  fv_version v < two32 /\
  match fv_prevouts v with Some l => Forall wf_outpoint l | None => True end /\
  match fv_sequences v with Some l => Forall (fun s => s < two32) l | None => True end /\
  wf_outpoint (fv_outpoint v) /\ lenN (fv_code v) < two64 /\ fv_amount v < two64 /\ fv_sequence v < two32 /\
  match fv_outputs v with Some l => Forall wf_txout l | None => True end /\
  fv_locktime v < two32 /\ fv_type v < two32.

Theorem forkid_components_injective v1 v2 : wf_fview v1 -> wf_fview v2 ->
  components_of v1 = components_of v2 -> v1 = v2.
Proof.
  destruct v1 as [ve1 pv1 sq1 op1 co1 am1 se1 ou1 lo1 ty1], v2 as [ve2 pv2 sq2 op2 co2 am2 se2 ou2 lo2 ty2].
  unfold wf_fview, components_of.
  cbn [fv_version fv_prevouts fv_sequences fv_outpoint fv_code fv_amount fv_sequence fv_outputs fv_locktime fv_type].
  intros (W1 & W2 & W3 & W4 & W5 & W6 & W7 & W8 & W9 & W10) (X1 & X2 & X3 & X4 & X5 & X6 & X7 & X8 & X9 & X10) H.
  pose proof (f_equal fc_version H) as H1. pose proof (f_equal fc_prevouts H) as H2.
  pose proof (f_equal fc_sequences H) as H3. pose proof (f_equal fc_outpoint H) as H4.
  pose proof (f_equal fc_code H) as H5. pose proof (f_equal fc_amount H) as H6.
  pose proof (f_equal fc_sequence H) as H7. pose proof (f_equal fc_outputs H) as H8.
  pose proof (f_equal fc_locktime H) as H9. pose proof (f_equal fc_type H) as H10. clear H.
  cbn [fc_version fc_prevouts fc_sequences fc_outpoint fc_code fc_amount fc_sequence fc_outputs fc_locktime fc_type] in *.
  apply (pinj_inj _ _ _ _ pinj_u32 W1 X1) in H1. apply (pinj_inj _ _ _ _ pinj_ser_outpoint W4 X4) in H4.
  apply (pinj_inj _ _ _ _ pinj_ser_script W5 X5) in H5. apply (pinj_inj _ _ _ _ pinj_u64 W6 X6) in H6.
  apply (pinj_inj _ _ _ _ pinj_u32 W7 X7) in H7. apply (pinj_inj _ _ _ _ pinj_u32 W9 X9) in H9.
  apply (pinj_inj _ _ _ _ pinj_u32 W10 X10) in H10. subst.
  assert (pv1 = pv2) as ->.
  { destruct pv1, pv2; cbn [option_map] in H2; try discriminate; [|reflexivity]. assert (H2' := f_equal (fun o => match o with Some b => b | None => [] end) H2); cbn beta iota in H2'. f_equal.
    eapply (concat_map_pinj wf_outpoint ser_outpoint); eauto using pinj_ser_outpoint. intros; apply ser_outpoint_nonempty. }
  assert (sq1 = sq2) as ->.
  { destruct sq1, sq2; cbn [option_map] in H3; try discriminate; [|reflexivity]. assert (H3' := f_equal (fun o => match o with Some b => b | None => [] end) H3); cbn beta iota in H3'. f_equal.
    eapply (concat_map_pinj (fun s => s < two32) u32); eauto using pinj_u32. intros; apply u32_nonempty. }
  assert (ou1 = ou2) as ->.
  { destruct ou1, ou2; cbn [option_map] in H8; try discriminate; [|reflexivity]. assert (H8' := f_equal (fun o => match o with Some b => b | None => [] end) H8); cbn beta iota in H8'. f_equal.
    eapply (concat_map_pinj wf_txout ser_txout); eauto using pinj_ser_txout. intros; apply ser_txout_nonempty. }
  reflexivity.
Qed.

Lemma Forall_map_inv {A B} (P : B -> Prop) (g : A -> B) l : Forall (fun x => P (g x)) l -> Forall P (map g l).
Proof. induction 1; cbn; constructor; auto. Qed.

Lemma Forall_nth_error {A} (P : A -> Prop) l k x : Forall P l -> nth_error l k = Some x -> P x.
Proof. intros F H. rewrite Forall_forall in F. apply F. eapply nth_error_In; eauto. Qed.

Lemma wf_ctx_fview c ht v : wf_ctx c -> ht < two32 -> forkid_view_of c ht = Some v -> wf_fview v.
Proof.
  intros ((Hv & Hl & Hi & Ho & _ & _) & Hc & Ha) Hht H. rewrite forkid_view_of_eq in H.
  destruct (nth_error (t_vin (sc_tx c)) (sc_idx c)) as [inp|] eqn:E; [|discriminate]. injection H as <-.
  pose proof (Forall_nth_error _ _ _ _ Hi E) as (Wp & _ & Ws).
  unfold wf_fview, fview.
  cbn [fv_version fv_prevouts fv_sequences fv_outpoint fv_code fv_amount fv_sequence fv_outputs fv_locktime fv_type].
  repeat split; try assumption.
  - destruct (negb (anyone_can_pay ht)); [|exact I]. apply Forall_map_inv. eapply Forall_impl; [|exact Hi]. intros a (W & _); exact W.
  - destruct (negb (anyone_can_pay ht) && is_all ht); [|exact I]. apply Forall_map_inv. eapply Forall_impl; [|exact Hi].
    intros a (_ & _ & W); exact W.
  - apply Wp.
  - apply Wp.
  - unfold ov. destruct (is_all ht); [exact Ho|]. destruct (is_single ht); [|exact I].
    destruct (nth_error (t_vout (sc_tx c)) (sc_idx c)) as [o|] eqn:Eo; cbn; [|exact I].
    constructor; [|constructor]. eapply Forall_nth_error; eauto.
Qed.

(** ** how the mutations move the signed input and the matching output *)
Lemma nth_error_insert_shift {A} j (x : A) l idx : (j <= length l)%nat ->
  nth_error (insert_at j x l) (if Nat.leb j idx then S idx else idx) = nth_error l idx.
Proof.
  intros Hj. rewrite nth_error_insert_at by exact Hj. destruct (Nat.leb_spec j idx) as [H|H].
  - destruct (Nat.ltb_spec (S idx) j); [lia|]. destruct (Nat.eqb_spec (S idx) j); [lia|]. reflexivity.
  - destruct (Nat.ltb_spec idx j); [reflexivity|lia].
Qed.
Lemma nth_error_remove_shift {A} j (l : list A) idx : j <> idx ->
  nth_error (remove_at j l) (if Nat.ltb j idx then pred idx else idx) = nth_error l idx.
Proof.
  intros Hj. rewrite nth_error_remove_at. destruct (Nat.ltb_spec j idx) as [H|H].
  - destruct (Nat.ltb_spec (pred idx) j); [lia|]. f_equal. lia.
  - destruct (Nat.ltb_spec idx j); [reflexivity|lia].
Qed.

Lemma NoDup_nth_error_neq {A} (l : list A) a b : NoDup l -> (a < length l)%nat -> a <> b ->
  nth_error l a <> nth_error l b.
Proof. intros Hn Ha Hab He. apply Hab. eapply NoDup_nth_error; eauto. Qed.

Lemma option_single_inj {A} (a b : option A) : option_map (fun o => [o]) a = option_map (fun o => [o]) b -> a = b.
Proof. destruct a, b; cbn; congruence. Qed.

Lemma fview_ext tx tx' idx idx' code amt ht inp :
  t_version tx' = t_version tx -> t_locktime tx' = t_locktime tx ->
  (anyone_can_pay ht = false -> map ti_prevout (t_vin tx') = map ti_prevout (t_vin tx)) ->
  (anyone_can_pay ht = false -> is_all ht = true -> map ti_sequence (t_vin tx') = map ti_sequence (t_vin tx)) ->
  ov ht idx' (t_vout tx') = ov ht idx (t_vout tx) ->
  fview tx' idx' code amt ht inp = fview tx idx code amt ht inp.
Proof.
  intros Hv Hl Hp Hs Ho. unfold fview. rewrite Hv, Hl, Ho.
  destruct (anyone_can_pay ht); cbn [negb andb]; [reflexivity|]. rewrite Hp by reflexivity.
  destruct (is_all ht); [rewrite Hs by reflexivity|]; reflexivity.
Qed.

Lemma ov_ext ht idx idx' vout vout' :
  (is_all ht = true -> vout' = vout) ->
  (is_all ht = false -> is_single ht = true -> nth_error vout' idx' = nth_error vout idx) ->
  ov ht idx' vout' = ov ht idx vout.
Proof.
  intros Ha Hs. unfold ov. destruct (is_all ht); [rewrite Ha by reflexivity; reflexivity|].
  destruct (is_single ht); [rewrite Hs by reflexivity|]; reflexivity.
Qed.

Lemma is_all_single ht : is_single ht = true -> is_all ht = false.
Proof. unfold is_all. intros ->. apply andb_false_r. Qed.
Lemma is_all_none ht : is_none ht = true -> is_all ht = false.
Proof. unfold is_all. intros ->. reflexivity. Qed.
Lemma is_all_else ht : is_none ht = false -> is_single ht = false -> is_all ht = true.
Proof. unfold is_all. intros -> ->. reflexivity. Qed.

Lemma base_cases ht :
  (is_none ht = true /\ is_single ht = false /\ is_all ht = false) \/
  (is_none ht = false /\ is_single ht = true /\ is_all ht = false) \/
  (is_none ht = false /\ is_single ht = false /\ is_all ht = true).
Proof.
  destruct (is_none ht) eqn:En.
  - left. rewrite (none_not_single ht En), (is_all_none ht En). auto.
  - destruct (is_single ht) eqn:Es.
    + right; left. rewrite (is_all_single ht Es). auto.
    + right; right. rewrite (is_all_else ht En Es). auto.
Qed.

(** ** a mutation of an uncommitted field leaves the view unchanged *)
Ltac flags ht H :=
  let En := fresh "En" in let Es := fresh "Es" in let Ea := fresh "Ea" in let Eacp := fresh "Eacp" in
  destruct (base_cases ht) as [(En&Es&Ea)|[(En&Es&Ea)|(En&Es&Ea)]];
  destruct (anyone_can_pay ht) eqn:Eacp;
  rewrite ?En, ?Es, ?Ea, ?Eacp in H; cbn [negb andb orb] in H;
  rewrite ?orb_true_r, ?orb_false_r, ?andb_true_r, ?andb_false_r in H; cbn [negb andb orb] in H; try discriminate H.

Ltac bools H :=
  repeat match type of H with
  | (_ || _)%bool = false => let H1 := fresh H in apply orb_false_elim in H; destruct H as [H H1]
  | (_ && _)%bool = true => let H1 := fresh H in apply andb_true_iff in H; destruct H as [H H1]
  end.

Theorem forkid_view_invariant c ht m : committed_in AlgForkid ht c m = false -> applicable m c ->
  forkid_view_of (apply_mutation m c) ht = forkid_view_of c ht.
Proof.
  unfold committed_in, committed. cbn [legacy_single_bug]. intros H Happ. rewrite !forkid_view_of_eq.
  destruct c as [tx idx code amt]. cbn [sc_tx sc_idx sc_code sc_amount] in *.
  destruct m; cbn [field_of committed_rules] in H; try discriminate;
    cbn [apply_mutation with_tx with_vin with_vout sc_tx sc_idx sc_code sc_amount t_vin t_vout t_version t_locktime applicable] in *.
  - (* MInHash *) flags ht H; apply Nat.eqb_neq in H;
    (rewrite nth_error_set_nth; destruct (Nat.eqb_spec idx j); [congruence|]);
    (destruct (nth_error (t_vin tx) idx); [|reflexivity]); cbn [option_map]; f_equal;
    apply fview_ext; try reflexivity; intros; congruence.
  - (* MInVout *) flags ht H; apply Nat.eqb_neq in H;
    (rewrite nth_error_set_nth; destruct (Nat.eqb_spec idx j); [congruence|]);
    (destruct (nth_error (t_vin tx) idx); [|reflexivity]); cbn [option_map]; f_equal;
    apply fview_ext; try reflexivity; intros; congruence.
  - (* MInSequence *) flags ht H; apply Nat.eqb_neq in H;
    (rewrite nth_error_set_nth; destruct (Nat.eqb_spec idx j); [congruence|]);
    (destruct (nth_error (t_vin tx) idx); [|reflexivity]); cbn [option_map]; f_equal;
    apply fview_ext; try reflexivity; cbn [t_vout t_vin with_vout with_vin]; intros; try congruence; apply map_set_nth_same; reflexivity.
  - (* MOutValue *) flags ht H;
    (destruct (nth_error (t_vin tx) idx); [|reflexivity]); cbn [option_map]; f_equal;
    apply fview_ext; try reflexivity; cbn [t_vout t_vin with_vout with_vin]; apply ov_ext; intros; try congruence.
    all: apply Nat.eqb_neq in H; rewrite nth_error_set_nth; destruct (Nat.eqb_spec idx j); [congruence|reflexivity].
  - (* MOutScript *) flags ht H;
    (destruct (nth_error (t_vin tx) idx); [|reflexivity]); cbn [option_map]; f_equal;
    apply fview_ext; try reflexivity; cbn [t_vout t_vin with_vout with_vin]; apply ov_ext; intros; try congruence.
    all: apply Nat.eqb_neq in H; rewrite nth_error_set_nth; destruct (Nat.eqb_spec idx j); [congruence|reflexivity].
  - (* MOutInsert *) flags ht H;
    (destruct (nth_error (t_vin tx) idx); [|reflexivity]); cbn [option_map]; f_equal;
    apply fview_ext; try reflexivity; cbn [t_vout t_vin with_vout with_vin]; apply ov_ext; intros; try congruence.
    all: rewrite nth_error_insert_at by exact Happ.
    all: destruct (Nat.ltb_spec idx j); [reflexivity|].
    all: destruct (Nat.leb_spec j idx); [|lia]; cbn [andb] in H; apply Nat.leb_gt in H.
    all: destruct (Nat.eqb_spec idx j); [subst; exfalso; lia|].
    all: transitivity (@None txout); [|symmetry]; apply nth_error_None; lia.
  - (* MOutRemove *) flags ht H;
    (destruct (nth_error (t_vin tx) idx); [|reflexivity]); cbn [option_map]; f_equal;
    apply fview_ext; try reflexivity; cbn [t_vout t_vin with_vout with_vin]; apply ov_ext; intros; try congruence.
    all: rewrite nth_error_remove_at.
    all: destruct (Nat.ltb_spec idx j); [reflexivity|].
    all: destruct (Nat.leb_spec j idx); [|lia]; cbn [andb] in H; apply Nat.ltb_ge in H.
    all: transitivity (@None txout); [|symmetry]; apply nth_error_None; lia.
  - (* MInInsert *) flags ht H.
    all: rewrite nth_error_insert_shift by exact Happ.
    all: (destruct (nth_error (t_vin tx) idx); [|reflexivity]); cbn [option_map]; f_equal.
    all: apply fview_ext; try reflexivity; cbn [t_vout t_vin with_vout with_vin]; intros; try congruence.
    all: apply ov_ext; intros; try congruence.
    all: destruct (Nat.leb_spec j idx); [|reflexivity]; cbn [andb] in H; apply Nat.ltb_ge in H.
    all: transitivity (@None txout); [|symmetry]; apply nth_error_None; lia.
  - (* MInRemove *) destruct Happ as [Hlt Hne]. flags ht H.
    all: rewrite nth_error_remove_shift by exact Hne.
    all: (destruct (nth_error (t_vin tx) idx); [|reflexivity]); cbn [option_map]; f_equal.
    all: apply fview_ext; try reflexivity; cbn [t_vout t_vin with_vout with_vin]; intros; try congruence.
    all: apply ov_ext; intros; try congruence.
    all: destruct (Nat.ltb_spec j idx); [|reflexivity]; cbn [andb] in H; apply Nat.leb_gt in H.
    all: transitivity (@None txout); [|symmetry]; apply nth_error_None; lia.
Qed.

(** ** an effective mutation of a committed field changes the view *)
Lemma some_inj {A} (a b : A) : Some a = Some b -> a = b.
Proof. congruence. Qed.

Lemma fview_prevouts tx tx' idx idx' code code' amt amt' ht inp inp' :
  fview tx' idx' code' amt' ht inp' = fview tx idx code amt ht inp -> anyone_can_pay ht = false ->
  map ti_prevout (t_vin tx') = map ti_prevout (t_vin tx).
Proof. intros H E. apply (f_equal fv_prevouts) in H. unfold fview in H. cbn [fv_prevouts] in H. rewrite E in H. cbn in H. congruence. Qed.
Lemma fview_sequences tx tx' idx idx' code code' amt amt' ht inp inp' :
  fview tx' idx' code' amt' ht inp' = fview tx idx code amt ht inp -> anyone_can_pay ht = false -> is_all ht = true ->
  map ti_sequence (t_vin tx') = map ti_sequence (t_vin tx).
Proof. intros H E E2. apply (f_equal fv_sequences) in H. unfold fview in H. cbn [fv_sequences] in H. rewrite E, E2 in H. cbn in H. congruence. Qed.
Lemma fview_outputs_all tx tx' idx idx' code code' amt amt' ht inp inp' :
  fview tx' idx' code' amt' ht inp' = fview tx idx code amt ht inp -> is_all ht = true -> t_vout tx' = t_vout tx.
Proof. intros H E. apply (f_equal fv_outputs) in H. unfold fview, ov in H. cbn [fv_outputs] in H. rewrite E in H. congruence. Qed.
Lemma fview_outputs_single tx tx' idx idx' code code' amt amt' ht inp inp' :
  fview tx' idx' code' amt' ht inp' = fview tx idx code amt ht inp -> is_all ht = false -> is_single ht = true ->
  nth_error (t_vout tx') idx' = nth_error (t_vout tx) idx.
Proof.
  intros H E E2. apply (f_equal fv_outputs) in H. unfold fview, ov in H. cbn [fv_outputs] in H. rewrite E, E2 in H.
  apply option_single_inj in H. exact H.
Qed.

Theorem forkid_view_sensitive c ht m inp : committed_in AlgForkid ht c m = true -> effective m c ->
  nth_error (t_vin (sc_tx c)) (sc_idx c) = Some inp ->
  NoDup (t_vout (sc_tx c)) -> NoDup (t_vout (sc_tx (apply_mutation m c))) ->
  forkid_view_of (apply_mutation m c) ht <> forkid_view_of c ht.
Proof.
  unfold committed_in, committed. cbn [legacy_single_bug]. intros H Heff Hinp Nd Nd' Heq. rewrite !forkid_view_of_eq in Heq.
  destruct c as [tx idx code amt]. cbn [sc_tx sc_idx sc_code sc_amount] in *. rewrite Hinp in Heq. cbn [option_map] in Heq.
  destruct m; cbn [field_of committed_rules] in H;
    cbn [apply_mutation with_tx with_vin with_vout sc_tx sc_idx sc_code sc_amount t_vin t_vout t_version t_locktime
         effective applicable] in *.
  - (* MVersion *) rewrite Hinp in Heq. apply some_inj, (f_equal fv_version) in Heq. cbn in Heq. congruence.
  - (* MLocktime *) rewrite Hinp in Heq. apply some_inj, (f_equal fv_locktime) in Heq. cbn in Heq. congruence.
  - (* MInHash *) destruct Heff as (i & Hi & Hne). rewrite nth_error_set_nth, Hinp in Heq.
    destruct (Nat.eqb_spec idx j) as [->|Hij]; cbn [option_map] in Heq; apply some_inj in Heq.
    + apply (f_equal fv_outpoint), (f_equal op_hash) in Heq. cbn in Heq. congruence.
    + flags ht H; try (apply Nat.eqb_eq in H; congruence).
      all: apply fview_prevouts in Heq; [|assumption]; cbn [t_vout t_vin with_vout with_vin] in Heq; revert Heq; eapply map_set_nth_diff; eauto.
      all: intros E; apply (f_equal op_hash) in E; cbn in E; congruence.
  - (* MInVout *) destruct Heff as (i & Hi & Hne). rewrite nth_error_set_nth, Hinp in Heq.
    destruct (Nat.eqb_spec idx j) as [->|Hij]; cbn [option_map] in Heq; apply some_inj in Heq.
    + apply (f_equal fv_outpoint), (f_equal op_n) in Heq. cbn in Heq. congruence.
    + flags ht H; try (apply Nat.eqb_eq in H; congruence).
      all: apply fview_prevouts in Heq; [|assumption]; cbn [t_vout t_vin with_vout with_vin] in Heq; revert Heq; eapply map_set_nth_diff; eauto.
      all: intros E; apply (f_equal op_n) in E; cbn in E; congruence.
  - (* MInSequence *) destruct Heff as (i & Hi & Hne). rewrite nth_error_set_nth, Hinp in Heq.
    destruct (Nat.eqb_spec idx j) as [->|Hij]; cbn [option_map] in Heq; apply some_inj in Heq.
    + apply (f_equal fv_sequence) in Heq. cbn in Heq. congruence.
    + flags ht H; try (apply Nat.eqb_eq in H; congruence).
      all: apply fview_sequences in Heq; [|assumption..]; cbn [t_vout t_vin with_vout with_vin] in Heq; revert Heq; eapply map_set_nth_diff; eauto.
  - (* MOutValue *) destruct Heff as (o & Ho & Hne). rewrite Hinp in Heq. apply some_inj in Heq.
    flags ht H.
    1,2: apply Nat.eqb_eq in H; subst j; apply fview_outputs_single in Heq; [|assumption..]; cbn [t_vout t_vin with_vout with_vin] in Heq;
         rewrite nth_error_set_nth, Nat.eqb_refl, Ho in Heq; cbn [option_map] in Heq; apply some_inj, (f_equal to_value) in Heq; cbn in Heq; congruence.
    all: apply fview_outputs_all in Heq; [|assumption]; cbn [t_vout t_vin with_vout with_vin] in Heq; revert Heq; eapply set_nth_diff; eauto;
         intros E; apply (f_equal to_value) in E; cbn in E; congruence.
  - (* MOutScript *) destruct Heff as (o & Ho & Hne). rewrite Hinp in Heq. apply some_inj in Heq.
    flags ht H.
    1,2: apply Nat.eqb_eq in H; subst j; apply fview_outputs_single in Heq; [|assumption..]; cbn [t_vout t_vin with_vout with_vin] in Heq;
         rewrite nth_error_set_nth, Nat.eqb_refl, Ho in Heq; cbn [option_map] in Heq; apply some_inj, (f_equal to_script) in Heq; cbn in Heq; congruence.
    all: apply fview_outputs_all in Heq; [|assumption]; cbn [t_vout t_vin with_vout with_vin] in Heq; revert Heq; eapply set_nth_diff; eauto;
         intros E; apply (f_equal to_script) in E; cbn in E; congruence.
  - (* MOutInsert *) rewrite Hinp in Heq. apply some_inj in Heq. flags ht H.
    1,2: apply andb_true_iff in H; destruct H as [H1 H2]; apply Nat.leb_le in H1, H2;
         apply fview_outputs_single in Heq; [|assumption..]; cbn [t_vout t_vin with_vout with_vin] in Heq;
         assert (E : nth_error (t_vout tx) idx = nth_error (insert_at j o (t_vout tx)) (S idx))
           by (rewrite nth_error_insert_at by exact Heff; destruct (Nat.ltb_spec (S idx) j); [lia|];
               destruct (Nat.eqb_spec (S idx) j); [lia|reflexivity]);
         rewrite E in Heq; revert Heq; apply NoDup_nth_error_neq; [assumption | rewrite insert_at_length; lia | lia].
    all: apply fview_outputs_all in Heq; [|assumption]; cbn [t_vout t_vin with_vout with_vin] in Heq; revert Heq; apply length_neq;
         rewrite insert_at_length; lia.
  - (* MOutRemove *) rewrite Hinp in Heq. apply some_inj in Heq. flags ht H.
    1,2: apply andb_true_iff in H; destruct H as [H1 H2]; apply Nat.leb_le in H1; apply Nat.ltb_lt in H2;
         apply fview_outputs_single in Heq; [|assumption..]; cbn [t_vout t_vin with_vout with_vin] in Heq;
         rewrite nth_error_remove_at in Heq; destruct (Nat.ltb_spec idx j); [lia|];
         symmetry in Heq; revert Heq; apply NoDup_nth_error_neq; [assumption | lia | lia].
    all: apply fview_outputs_all in Heq; [|assumption]; cbn [t_vout t_vin with_vout with_vin] in Heq; revert Heq; apply length_neq;
         rewrite remove_at_length by exact Heff; lia.
  - (* MInInsert *) rewrite nth_error_insert_shift, Hinp in Heq by exact Heff. apply some_inj in Heq. flags ht H.
    all: try (apply fview_prevouts in Heq; [|assumption]; cbn [t_vout t_vin with_vout with_vin] in Heq; revert Heq; apply length_neq;
              rewrite !map_length, insert_at_length; lia).
    all: apply andb_true_iff in H; destruct H as [H1 H2]; apply Nat.leb_le in H1; apply Nat.ltb_lt in H2;
         apply fview_outputs_single in Heq; [|assumption..]; cbn [t_vout t_vin with_vout with_vin] in Heq;
         destruct (Nat.leb_spec j idx); [|lia]; symmetry in Heq; revert Heq;
         apply NoDup_nth_error_neq; [assumption | lia | lia].
  - (* MInRemove *) destruct Heff as [Hlt Hne]. rewrite nth_error_remove_shift, Hinp in Heq by exact Hne.
    apply some_inj in Heq. flags ht H.
    all: try (apply fview_prevouts in Heq; [|assumption]; cbn [t_vout t_vin with_vout with_vin] in Heq; revert Heq; apply length_neq;
              rewrite !map_length, remove_at_length by exact Hlt; lia).
    all: apply andb_true_iff in H; destruct H as [H1 H2]; apply Nat.ltb_lt in H1; apply Nat.leb_le in H2;
         apply fview_outputs_single in Heq; [|assumption..]; cbn [t_vout t_vin with_vout with_vin] in Heq;
         destruct (Nat.ltb_spec j idx); [|lia]; revert Heq;
         apply NoDup_nth_error_neq; [assumption | lia | lia].
  - (* MSpentValue *) rewrite Hinp in Heq. apply some_inj, (f_equal fv_amount) in Heq. cbn in Heq. congruence.
  - (* MSpentScript *) rewrite Hinp in Heq. apply some_inj, (f_equal fv_code) in Heq. cbn in Heq. congruence.
Qed.

(** the signed input survives every applicable mutation *)
Lemma signed_input_survives c m inp : applicable m c -> nth_error (t_vin (sc_tx c)) (sc_idx c) = Some inp ->
  exists inp', nth_error (t_vin (sc_tx (apply_mutation m c))) (sc_idx (apply_mutation m c)) = Some inp'.
Proof.
  intros Happ Hinp. destruct c as [tx idx code amt].
  destruct m; cbn [apply_mutation with_tx with_vin with_vout sc_tx sc_idx t_vin applicable] in *; eauto.
  1-3: rewrite nth_error_set_nth, Hinp; destruct (Nat.eqb idx j); cbn; eauto.
  - rewrite nth_error_insert_shift by exact Happ. eauto.
  - destruct Happ as [_ Hne]. rewrite nth_error_remove_shift by exact Hne. eauto.
Qed.

Lemma effective_applicable m c : effective m c -> applicable m c.
Proof. destruct m; cbn; auto. Qed.

(** ** C04, FORKID half *)
Theorem commit_invariant_forkid c ht m : committed_in AlgForkid ht c m = false -> applicable m c ->
  let c' := apply_mutation m c in
  forkid_preimage (sc_tx c') (sc_idx c') (sc_code c') (sc_amount c') ht =
  forkid_preimage (sc_tx c) (sc_idx c) (sc_code c) (sc_amount c) ht.
Proof. intros H Ha c'. unfold c'. rewrite !forkid_preimage_factors, forkid_view_invariant by assumption. reflexivity. Qed.

Theorem commit_sensitive_forkid c ht m inp : committed_in AlgForkid ht c m = true -> effective m c ->
  nth_error (t_vin (sc_tx c)) (sc_idx c) = Some inp ->
  wf_ctx c -> wf_ctx (apply_mutation m c) -> ht < two32 ->
  NoDup (t_vout (sc_tx c)) -> NoDup (t_vout (sc_tx (apply_mutation m c))) ->
  exists v v', forkid_view_of c ht = Some v /\ forkid_view_of (apply_mutation m c) ht = Some v' /\
               components_of v' <> components_of v.
Proof.
  intros H He Hinp W W' Hht Nd Nd'.
  destruct (signed_input_survives c m inp (effective_applicable _ _ He) Hinp) as [inp' Hinp'].
  pose proof (forkid_view_sensitive c ht m inp H He Hinp Nd Nd') as Hd.
  destruct (forkid_view_of c ht) as [v|] eqn:Ev; [|rewrite forkid_view_of_eq, Hinp in Ev; discriminate].
  destruct (forkid_view_of (apply_mutation m c) ht) as [v'|] eqn:Ev'; [|rewrite forkid_view_of_eq, Hinp' in Ev'; discriminate].
  exists v, v'. repeat split. intros Hc. apply Hd. f_equal.
  eapply forkid_components_injective; eauto using wf_ctx_fview.
Qed.

(** * D. the original (legacy) algorithm *)
Definition other (ht : N) (i : txin) : txin :=
  if is_none ht || is_single ht then zero_sequence (blank_script i) else blank_script i.
Definition lvin (code : bytes) (ht : N) (idx : nat) (inp : txin) (vin : list txin) : list txin :=
  if anyone_can_pay ht then [with_script code inp]
  else map (other ht) (firstn idx vin) ++ with_script code inp :: map (other ht) (skipn (S idx) vin).
Definition lvout (ht : N) (idx : nat) (vout : list txout) : list txout :=
  if is_none ht then []
  else if is_single ht then repeat null_txout idx ++ match nth_error vout idx with Some o => [o] | None => [] end
  else vout.

Lemma firstn1_skipn {A} idx (l : list A) :
  firstn 1 (skipn idx l) = match nth_error l idx with Some o => [o] | None => [] end.
Proof.
  revert l; induction idx as [|n IH]; intros [|a l]; cbn [skipn nth_error firstn]; try reflexivity. apply IH.
Qed.

Lemma legacy_tx_copy_eq code tx idx inp ht :
  legacy_tx_copy code tx idx inp ht =
  mkTransaction (t_version tx) (lvin code ht idx inp (t_vin tx)) (lvout ht idx (t_vout tx)) (t_locktime tx).
Proof. unfold legacy_tx_copy, lvin, lvout, other. rewrite firstn1_skipn. reflexivity. Qed.

Theorem legacy_digest_factors c ht :
  legacy_signature_hash (sc_code c) (sc_tx c) (sc_idx c) ht = legacy_digest_of (legacy_view_of c ht).
Proof.
  unfold legacy_signature_hash, legacy_view_of. destruct (nth_error (t_vin (sc_tx c)) (sc_idx c)); [|reflexivity].
  destruct (is_single ht && Nat.leb (length (t_vout (sc_tx c))) (sc_idx c)); reflexivity.
Qed.

(** the signed input and the others, by position *)
Definition lin (code : bytes) (ht : N) (idx k : nat) (i : txin) : txin :=
  if Nat.eqb k idx then with_script code i else other ht i.

Lemma lvin_nth code ht idx inp vin k : anyone_can_pay ht = false -> nth_error vin idx = Some inp ->
  nth_error (lvin code ht idx inp vin) k = option_map (lin code ht idx k) (nth_error vin k).
Proof.
  intros Ea Hn. unfold lvin. rewrite Ea.
  destruct (nth_error_split vin idx Hn) as (l1 & l2 & -> & Hl).
  assert (F : firstn idx (l1 ++ inp :: l2) = l1) by (rewrite <- Hl, firstn_app, Nat.sub_diag, firstn_all; cbn; apply app_nil_r).
  assert (S' : skipn (S idx) (l1 ++ inp :: l2) = l2).
  { rewrite <- Hl. rewrite skipn_app. rewrite skipn_all2 by lia. replace (S (length l1) - length l1)%nat with 1%nat by lia. reflexivity. }
  rewrite F, S'. unfold lin.
  destruct (Nat.lt_trichotomy k idx) as [H|[H|H]].
  - rewrite !nth_error_app1 by (rewrite ?map_length; lia). rewrite nth_error_map.
    destruct (Nat.eqb_spec k idx); [lia|]. reflexivity.
  - subst k. rewrite !nth_error_app2 by (rewrite ?map_length; lia). rewrite map_length, Hl, Nat.sub_diag, Nat.eqb_refl. reflexivity.
  - rewrite !nth_error_app2 by (rewrite ?map_length; lia). rewrite map_length.
    destruct (Nat.eqb_spec k idx); [lia|]. destruct (k - length l1)%nat eqn:E; [lia|]. cbn [nth_error].
    apply nth_error_map.
Qed.

Lemma lvin_length code ht idx inp vin : anyone_can_pay ht = false -> nth_error vin idx = Some inp ->
  length (lvin code ht idx inp vin) = length vin.
Proof.
  intros Ea Hn. unfold lvin. rewrite Ea. rewrite app_length. cbn [length]. rewrite !map_length, firstn_length, skipn_length.
  assert (idx < length vin)%nat by (apply nth_error_Some; congruence). lia.
Qed.

Lemma legacy_view_of_eq c ht :
  legacy_view_of c ht =
  match nth_error (t_vin (sc_tx c)) (sc_idx c) with
  | None => LVOne
  | Some inp =>
      if is_single ht && Nat.leb (length (t_vout (sc_tx c))) (sc_idx c) then LVOne
      else LVCopy (mkTransaction (t_version (sc_tx c)) (lvin (sc_code c) ht (sc_idx c) inp (t_vin (sc_tx c)))
                                 (lvout ht (sc_idx c) (t_vout (sc_tx c))) (t_locktime (sc_tx c))) ht
  end.
Proof.
  unfold legacy_view_of. destruct (nth_error (t_vin (sc_tx c)) (sc_idx c)); [|reflexivity].
  rewrite legacy_tx_copy_eq. reflexivity.
Qed.

Lemma legacy_view_bug c ht : is_single ht = true -> (length (t_vout (sc_tx c)) <= sc_idx c)%nat ->
  legacy_view_of c ht = LVOne.
Proof.
  intros Es Hl. unfold legacy_view_of. destruct (nth_error (t_vin (sc_tx c)) (sc_idx c)); [|reflexivity].
  rewrite Es. destruct (Nat.leb_spec (length (t_vout (sc_tx c))) (sc_idx c)); [reflexivity|lia].
Qed.

Lemma lvin_ext code ht idx idx' inp vin vin' :
  nth_error vin idx = Some inp -> nth_error vin' idx' = Some inp ->
  (anyone_can_pay ht = false ->
   forall k, option_map (lin code ht idx' k) (nth_error vin' k) = option_map (lin code ht idx k) (nth_error vin k)) ->
  lvin code ht idx' inp vin' = lvin code ht idx inp vin.
Proof.
  intros H1 H2 H. destruct (anyone_can_pay ht) eqn:Ea.
  - unfold lvin. rewrite Ea. reflexivity.
  - apply nth_error_ext_eq. intros k. rewrite !lvin_nth by assumption. apply H. reflexivity.
Qed.

Lemma lvout_ext ht idx idx' vout vout' :
  (is_all ht = true -> vout' = vout) ->
  (is_single ht = true -> idx' = idx /\ nth_error vout' idx' = nth_error vout idx) ->
  lvout ht idx' vout' = lvout ht idx vout.
Proof.
  intros Ha Hs. unfold lvout. destruct (base_cases ht) as [(En&Es&Ea)|[(En&Es&Ea)|(En&Es&Ea)]]; rewrite En, ?Es.
  - reflexivity.
  - destruct (Hs Es) as [-> ->]. reflexivity.
  - apply Ha, Ea.
Qed.

Ltac lflags ht H :=
  let En := fresh "En" in let Es := fresh "Es" in let Ea := fresh "Ea" in let Eacp := fresh "Eacp" in
  destruct (base_cases ht) as [(En&Es&Ea)|[(En&Es&Ea)|(En&Es&Ea)]];
  destruct (anyone_can_pay ht) eqn:Eacp;
  rewrite ?En, ?Es, ?Ea, ?Eacp in H; cbn [negb andb orb] in H;
  rewrite ?orb_true_r, ?orb_false_r, ?andb_true_r, ?andb_false_r in H; cbn [negb andb orb] in H; try discriminate H.

(** ** invariance, SIGHASH_SINGLE bug regime: the view stays "nothing" *)
Lemma legacy_view_invariant_bug c ht m : is_single ht = true -> (length (t_vout (sc_tx c)) <= sc_idx c)%nat ->
  committed_in AlgLegacy ht c m = false -> applicable m c ->
  legacy_view_of (apply_mutation m c) ht = legacy_view_of c ht.
Proof.
  intros Es Hl H Happ. rewrite (legacy_view_bug c ht Es Hl). apply legacy_view_bug; [exact Es|].
  unfold committed_in, committed in H. cbn [legacy_single_bug] in H. rewrite Es in H.
  destruct (Nat.leb_spec (length (t_vout (sc_tx c))) (sc_idx c)) as [_|]; [|lia]. cbn [andb] in H.
  destruct c as [tx idx code amt].
  destruct m; cbn [field_of] in H;
    cbn [apply_mutation with_tx with_vin with_vout sc_tx sc_idx sc_code sc_amount t_vin t_vout applicable] in *;
    rewrite ?set_nth_length; try assumption.
  - rewrite insert_at_length. apply Nat.eqb_neq in H. lia.
  - rewrite remove_at_length by exact Happ. lia.
  - destruct (Nat.leb j idx); lia.
  - destruct (Nat.ltb_spec j idx) as [Hj|Hj]; [|lia]. cbn [andb] in H. apply Nat.eqb_neq in H. lia.
Qed.

Lemma lin_other code ht idx k i : k <> idx -> lin code ht idx k i = other ht i.
Proof. intros H. unfold lin. destruct (Nat.eqb_spec k idx); [contradiction|reflexivity]. Qed.

(** ** invariance, regular regime *)
Lemma legacy_view_invariant_normal c ht m :
  is_single ht && Nat.leb (length (t_vout (sc_tx c))) (sc_idx c) = false ->
  committed_rules AlgLegacy ht (sc_idx c) (length (t_vout (sc_tx c))) (field_of m) = false -> applicable m c ->
  legacy_view_of (apply_mutation m c) ht = legacy_view_of c ht.
Proof.
  intros Ebug H Happ. rewrite !legacy_view_of_eq. destruct c as [tx idx code amt].
  cbn [sc_tx sc_idx sc_code sc_amount] in *.
  destruct m; cbn [field_of committed_rules] in H; try discriminate;
    cbn [apply_mutation with_tx with_vin with_vout sc_tx sc_idx sc_code sc_amount t_vin t_vout t_version t_locktime applicable] in *.
  - (* MInHash *) lflags ht H; apply Nat.eqb_neq in H.
    all: rewrite nth_error_set_nth; destruct (Nat.eqb_spec idx j); [congruence|].
    all: destruct (nth_error (t_vin tx) idx) as [inp|] eqn:Hinp; [|reflexivity].
    all: destruct (_ && _); [reflexivity|]; f_equal; f_equal.
    all: apply lvin_ext; [assumption | rewrite nth_error_set_nth; destruct (Nat.eqb_spec idx j); [congruence|assumption] | congruence].
  - (* MInVout *) lflags ht H; apply Nat.eqb_neq in H.
    all: rewrite nth_error_set_nth; destruct (Nat.eqb_spec idx j); [congruence|].
    all: destruct (nth_error (t_vin tx) idx) as [inp|] eqn:Hinp; [|reflexivity].
    all: destruct (_ && _); [reflexivity|]; f_equal; f_equal.
    all: apply lvin_ext; [assumption | rewrite nth_error_set_nth; destruct (Nat.eqb_spec idx j); [congruence|assumption] | congruence].
  - (* MInSequence *) lflags ht H; apply Nat.eqb_neq in H.
    all: rewrite nth_error_set_nth; destruct (Nat.eqb_spec idx j); [congruence|].
    all: destruct (nth_error (t_vin tx) idx) as [inp|] eqn:Hinp; [|reflexivity].
    all: destruct (_ && _); [reflexivity|]; f_equal; f_equal.
    all: apply lvin_ext; [assumption | rewrite nth_error_set_nth; destruct (Nat.eqb_spec idx j); [congruence|assumption] | try congruence].
    all: intros _ k; rewrite nth_error_set_nth; destruct (Nat.eqb_spec k j) as [->|]; [|reflexivity].
    all: destruct (nth_error (t_vin tx) j); [|reflexivity]; cbn [option_map]; f_equal.
    all: rewrite !lin_other by congruence; unfold other; rewrite En, Es; reflexivity.
  - (* MOutValue *)
    destruct (nth_error (t_vin tx) idx) as [inp|] eqn:Hinp; [|reflexivity]. rewrite set_nth_length.
    destruct (_ && _); [reflexivity|]. f_equal. f_equal.
    lflags ht H; apply lvout_ext; intros; try congruence.
    all: split; [reflexivity|]; apply Nat.eqb_neq in H; rewrite nth_error_set_nth; destruct (Nat.eqb_spec idx j); [congruence|reflexivity].
  - (* MOutScript *)
    destruct (nth_error (t_vin tx) idx) as [inp|] eqn:Hinp; [|reflexivity]. rewrite set_nth_length.
    destruct (_ && _); [reflexivity|]. f_equal. f_equal.
    lflags ht H; apply lvout_ext; intros; try congruence.
    all: split; [reflexivity|]; apply Nat.eqb_neq in H; rewrite nth_error_set_nth; destruct (Nat.eqb_spec idx j); [congruence|reflexivity].
  - (* MOutInsert *)
    destruct (nth_error (t_vin tx) idx) as [inp|] eqn:Hinp; [|reflexivity]. rewrite insert_at_length.
    lflags ht H; rewrite ?Es in *; cbn [andb] in *.
    3,4: destruct (Nat.leb_spec (length (t_vout tx)) idx); [discriminate|];
         destruct (Nat.leb_spec (S (length (t_vout tx))) idx); [lia|];
         destruct (Nat.leb_spec idx (length (t_vout tx))); [|lia]; rewrite andb_true_r in H; apply Nat.leb_gt in H.
    all: f_equal; f_equal; apply lvout_ext; intros; try congruence.
    all: split; [reflexivity|]; rewrite nth_error_insert_at by exact Happ; destruct (Nat.ltb_spec idx j); [reflexivity|lia].
  - (* MOutRemove *)
    destruct (nth_error (t_vin tx) idx) as [inp|] eqn:Hinp; [|reflexivity]. rewrite remove_at_length by exact Happ.
    lflags ht H; rewrite ?Es in *; cbn [andb] in *.
    3,4: destruct (Nat.leb_spec (length (t_vout tx)) idx); [discriminate|];
         destruct (Nat.ltb_spec idx (length (t_vout tx))); [|lia]; rewrite andb_true_r in H; apply Nat.leb_gt in H;
         destruct (Nat.leb_spec (pred (length (t_vout tx))) idx); [lia|].
    all: f_equal; f_equal; apply lvout_ext; intros; try congruence.
    all: split; [reflexivity|]; rewrite nth_error_remove_at; destruct (Nat.ltb_spec idx j); [reflexivity|lia].
  - (* MInInsert *) rewrite nth_error_insert_shift by exact Happ.
    destruct (nth_error (t_vin tx) idx) as [inp|] eqn:Hinp; [|reflexivity].
    lflags ht H; rewrite ?Es in *; cbn [andb] in *.
    2: { destruct (Nat.leb_spec (length (t_vout tx)) idx); [discriminate|].
         destruct (Nat.ltb_spec idx (length (t_vout tx))); [|lia]. rewrite andb_true_r in H. apply Nat.leb_gt in H.
         destruct (Nat.leb_spec j idx); [lia|]. destruct (Nat.leb_spec (length (t_vout tx)) idx); [lia|].
         f_equal. f_equal. unfold lvin. rewrite Eacp. reflexivity. }
    all: f_equal; f_equal; [unfold lvin; rewrite Eacp; reflexivity|].
    all: apply lvout_ext; intros; congruence.
  - (* MInRemove *) destruct Happ as [Hlt Hne]. rewrite nth_error_remove_shift by exact Hne.
    destruct (nth_error (t_vin tx) idx) as [inp|] eqn:Hinp; [|reflexivity].
    lflags ht H; rewrite ?Es in *; cbn [andb] in *.
    2: { destruct (Nat.leb_spec (length (t_vout tx)) idx); [discriminate|].
         destruct (Nat.leb_spec idx (length (t_vout tx))); [|lia]. rewrite andb_true_r in H. apply Nat.ltb_ge in H.
         destruct (Nat.ltb_spec j idx); [lia|]. destruct (Nat.leb_spec (length (t_vout tx)) idx); [lia|].
         f_equal. f_equal. unfold lvin. rewrite Eacp. reflexivity. }
    all: f_equal; f_equal; [unfold lvin; rewrite Eacp; reflexivity|].
    all: apply lvout_ext; intros; congruence.
  - (* MSpentValue *) reflexivity.
Qed.

(** ** sensitivity *)
Lemma lvin_signed code ht idx inp vin : nth_error vin idx = Some inp ->
  nth_error (lvin code ht idx inp vin) (if anyone_can_pay ht then 0%nat else idx) = Some (with_script code inp).
Proof.
  intros Hn. destruct (anyone_can_pay ht) eqn:Ea.
  - unfold lvin. rewrite Ea. reflexivity.
  - rewrite lvin_nth by assumption. rewrite Hn. unfold lin. rewrite Nat.eqb_refl. reflexivity.
Qed.

Lemma lvin_eq_signed code code' ht idx inp inp' vin vin' :
  nth_error vin idx = Some inp -> nth_error vin' idx = Some inp' ->
  lvin code' ht idx inp' vin' = lvin code ht idx inp vin -> with_script code' inp' = with_script code inp.
Proof.
  intros H1 H2 H. pose proof (lvin_signed code ht idx inp vin H1) as S1. pose proof (lvin_signed code' ht idx inp' vin' H2) as S2.
  rewrite H in S2. congruence.
Qed.

Lemma other_prevout ht x : ti_prevout (other ht x) = ti_prevout x.
Proof. unfold other. destruct (is_none ht || is_single ht); reflexivity. Qed.
Lemma other_sequence_all ht x : is_all ht = true -> ti_sequence (other ht x) = ti_sequence x.
Proof.
  unfold is_all, other. intros H. apply andb_true_iff in H. destruct H as [H1 H2]. apply negb_true_iff in H1, H2.
  rewrite H1, H2. reflexivity.
Qed.

Lemma lvin_eq_other code code' ht idx inp inp' vin vin' k :
  anyone_can_pay ht = false -> nth_error vin idx = Some inp -> nth_error vin' idx = Some inp' -> k <> idx ->
  lvin code' ht idx inp' vin' = lvin code ht idx inp vin ->
  option_map (other ht) (nth_error vin' k) = option_map (other ht) (nth_error vin k).
Proof.
  intros Ea H1 H2 Hk H. apply (f_equal (fun l => nth_error l k)) in H. rewrite !lvin_nth in H by assumption.
  destruct (nth_error vin' k), (nth_error vin k); cbn in *; try congruence. rewrite !lin_other in H by assumption. exact H.
Qed.

Lemma lvout_single_eq ht idx idx' vout vout' : is_single ht = true ->
  (idx < length vout)%nat -> (idx' < length vout')%nat ->
  lvout ht idx' vout' = lvout ht idx vout -> idx' = idx /\ nth_error vout' idx' = nth_error vout idx.
Proof.
  intros Es Hl Hl' H. unfold lvout in H. destruct (is_none ht) eqn:En; [rewrite (none_not_single ht En) in Es; discriminate|].
  rewrite Es in H.
  destruct (nth_error vout idx) as [o|] eqn:Eo; [|apply nth_error_None in Eo; lia].
  destruct (nth_error vout' idx') as [o'|] eqn:Eo'; [|apply nth_error_None in Eo'; lia].
  assert (idx' = idx) by (apply (f_equal (@length _)) in H; rewrite !app_length, !repeat_length in H; cbn in H; lia).
  subst idx'. split; [reflexivity|]. apply app_inv_head in H. congruence.
Qed.

Lemma lvout_all ht idx vout : is_all ht = true -> lvout ht idx vout = vout.
Proof.
  unfold is_all, lvout. intros H. apply andb_true_iff in H. destruct H as [H1 H2]. apply negb_true_iff in H1, H2.
  rewrite H1, H2. reflexivity.
Qed.

Definition copy_of (v : legacy_view) : transaction :=
  match v with LVCopy cp _ => cp | LVOne => mkTransaction 0 [] [] 0 end.

Theorem legacy_view_sensitive c ht m inp : committed_in AlgLegacy ht c m = true -> effective m c ->
  nth_error (t_vin (sc_tx c)) (sc_idx c) = Some inp ->
  NoDup (t_vout (sc_tx c)) -> NoDup (t_vout (sc_tx (apply_mutation m c))) ->
  legacy_view_of (apply_mutation m c) ht <> legacy_view_of c ht.
Proof.
  unfold committed_in, committed. cbn [legacy_single_bug]. intros H Heff Hinp Nd Nd' Heq.
  pose proof (effective_applicable _ _ Heff) as Happ.
  destruct (signed_input_survives c m inp Happ Hinp) as [inp' Hinp'].
  rewrite !legacy_view_of_eq in Heq. rewrite Hinp, Hinp' in Heq.
  destruct c as [tx idx code amt]. cbn [sc_tx sc_idx sc_code sc_amount] in *.
  destruct (is_single ht && Nat.leb (length (t_vout tx)) idx) eqn:Ebug.
  - (* bug regime: the digest was the constant; the mutation makes it a real preimage *)
    apply andb_true_iff in Ebug. destruct Ebug as [Es Hl]. apply Nat.leb_le in Hl.
    destruct m; cbn [field_of] in H; try discriminate;
      cbn [apply_mutation with_tx with_vin with_vout sc_tx sc_idx sc_code sc_amount t_vin t_vout effective applicable] in *.
    + apply Nat.eqb_eq in H. rewrite insert_at_length, Es in Heq.
      destruct (Nat.leb_spec (S (length (t_vout tx))) idx); [lia|]. discriminate.
    + apply andb_true_iff in H. destruct H as [H1 H2]. apply Nat.ltb_lt in H1. apply Nat.eqb_eq in H2.
      rewrite Es in Heq. destruct (Nat.ltb_spec j idx); [|lia].
      destruct (Nat.leb_spec (length (t_vout tx)) (pred idx)); [lia|]. discriminate.
  - (* regular regime *)
    destruct (is_single ht && Nat.leb (length (t_vout (sc_tx (apply_mutation m {| sc_tx := tx; sc_idx := idx; sc_code := code; sc_amount := amt |}))))
                                       (sc_idx (apply_mutation m {| sc_tx := tx; sc_idx := idx; sc_code := code; sc_amount := amt |}))) eqn:Ebug';
      [discriminate|].
    apply (f_equal copy_of) in Heq. cbn [copy_of] in Heq.
    pose proof (f_equal t_version Heq) as Hver. pose proof (f_equal t_vin Heq) as Hvin.
    pose proof (f_equal t_vout Heq) as Hvout. pose proof (f_equal t_locktime Heq) as Hlock. clear Heq.
    cbn [t_version t_vin t_vout t_locktime] in Hver, Hvin, Hvout, Hlock.
    destruct m; cbn [field_of committed_rules] in H;
      cbn [apply_mutation with_tx with_vin with_vout sc_tx sc_idx sc_code sc_amount t_vin t_vout t_version t_locktime
           effective applicable] in *.
    + (* MVersion *) congruence.
    + (* MLocktime *) congruence.
    + (* MInHash *) destruct Heff as (i & Hi & Hne). pose proof Hinp' as Hi2. rewrite nth_error_set_nth, Hinp in Hi2.
      destruct (Nat.eqb_spec idx j) as [->|Hij]; cbn [option_map] in Hi2; injection Hi2 as <-.
      * apply (lvin_eq_signed _ _ _ _ _ _ _ _ Hinp Hinp') in Hvin. apply (f_equal ti_prevout), (f_equal op_hash) in Hvin.
        cbn in Hvin. rewrite Hi in Hinp; injection Hinp as ->. congruence.
      * lflags ht H; try (apply Nat.eqb_eq in H; congruence).
        all: apply (lvin_eq_other _ _ _ _ _ _ _ _ j Eacp Hinp Hinp' ltac:(congruence)) in Hvin.
        all: rewrite nth_error_set_nth, Nat.eqb_refl, Hi in Hvin; cbn [option_map] in Hvin.
        all: apply some_inj, (f_equal ti_prevout) in Hvin; rewrite !other_prevout in Hvin; apply (f_equal op_hash) in Hvin; cbn in Hvin; congruence.
    + (* MInVout *) destruct Heff as (i & Hi & Hne). pose proof Hinp' as Hi2. rewrite nth_error_set_nth, Hinp in Hi2.
      destruct (Nat.eqb_spec idx j) as [->|Hij]; cbn [option_map] in Hi2; injection Hi2 as <-.
      * apply (lvin_eq_signed _ _ _ _ _ _ _ _ Hinp Hinp') in Hvin. apply (f_equal ti_prevout), (f_equal op_n) in Hvin.
        cbn in Hvin. rewrite Hi in Hinp; injection Hinp as ->. congruence.
      * lflags ht H; try (apply Nat.eqb_eq in H; congruence).
        all: apply (lvin_eq_other _ _ _ _ _ _ _ _ j Eacp Hinp Hinp' ltac:(congruence)) in Hvin.
        all: rewrite nth_error_set_nth, Nat.eqb_refl, Hi in Hvin; cbn [option_map] in Hvin.
        all: apply some_inj, (f_equal ti_prevout) in Hvin; rewrite !other_prevout in Hvin; apply (f_equal op_n) in Hvin; cbn in Hvin; congruence.
    + (* MInSequence *) destruct Heff as (i & Hi & Hne). pose proof Hinp' as Hi2. rewrite nth_error_set_nth, Hinp in Hi2.
      destruct (Nat.eqb_spec idx j) as [->|Hij]; cbn [option_map] in Hi2; injection Hi2 as <-.
      * apply (lvin_eq_signed _ _ _ _ _ _ _ _ Hinp Hinp') in Hvin. apply (f_equal ti_sequence) in Hvin.
        cbn in Hvin. rewrite Hi in Hinp; injection Hinp as ->. congruence.
      * lflags ht H; try (apply Nat.eqb_eq in H; congruence).
        all: apply (lvin_eq_other _ _ _ _ _ _ _ _ j Eacp Hinp Hinp' ltac:(congruence)) in Hvin.
        all: rewrite nth_error_set_nth, Nat.eqb_refl, Hi in Hvin; cbn [option_map] in Hvin.
        all: apply some_inj, (f_equal ti_sequence) in Hvin; rewrite !other_sequence_all in Hvin by assumption; cbn in Hvin; congruence.
    + (* MOutValue *) destruct Heff as (o & Ho & Hne). rewrite set_nth_length in Ebug'. lflags ht H.
      1,2: apply Nat.eqb_eq in H; subst j; rewrite Es in Ebug; cbn [andb] in Ebug; apply Nat.leb_gt in Ebug;
           apply lvout_single_eq in Hvout; [|assumption | assumption | rewrite set_nth_length; assumption];
           destruct Hvout as [_ Hvout]; rewrite nth_error_set_nth, Nat.eqb_refl, Ho in Hvout; cbn [option_map] in Hvout;
           apply some_inj, (f_equal to_value) in Hvout; cbn in Hvout; congruence.
      all: rewrite !lvout_all in Hvout by assumption; revert Hvout; eapply set_nth_diff; eauto;
           intros E; apply (f_equal to_value) in E; cbn in E; congruence.
    + (* MOutScript *) destruct Heff as (o & Ho & Hne). rewrite set_nth_length in Ebug'. lflags ht H.
      1,2: apply Nat.eqb_eq in H; subst j; rewrite Es in Ebug; cbn [andb] in Ebug; apply Nat.leb_gt in Ebug;
           apply lvout_single_eq in Hvout; [|assumption | assumption | rewrite set_nth_length; assumption];
           destruct Hvout as [_ Hvout]; rewrite nth_error_set_nth, Nat.eqb_refl, Ho in Hvout; cbn [option_map] in Hvout;
           apply some_inj, (f_equal to_script) in Hvout; cbn in Hvout; congruence.
      all: rewrite !lvout_all in Hvout by assumption; revert Hvout; eapply set_nth_diff; eauto;
           intros E; apply (f_equal to_script) in E; cbn in E; congruence.
    + (* MOutInsert *) rewrite insert_at_length in Ebug'. lflags ht H.
      1,2: rewrite Es in Ebug, Ebug'; cbn [andb] in Ebug, Ebug'; apply Nat.leb_gt in Ebug, Ebug';
           apply andb_true_iff in H; destruct H as [H1 H2]; apply Nat.leb_le in H1, H2;
           apply lvout_single_eq in Hvout; [|assumption | assumption | rewrite insert_at_length; assumption];
           destruct Hvout as [_ Hvout];
           assert (E : nth_error (t_vout tx) idx = nth_error (insert_at j o (t_vout tx)) (S idx))
             by (rewrite nth_error_insert_at by exact Heff; destruct (Nat.ltb_spec (S idx) j); [lia|];
                 destruct (Nat.eqb_spec (S idx) j); [lia|reflexivity]);
           rewrite E in Hvout; revert Hvout; apply NoDup_nth_error_neq; [assumption | rewrite insert_at_length; lia | lia].
      all: rewrite !lvout_all in Hvout by assumption; revert Hvout; apply length_neq; rewrite insert_at_length; lia.
    + (* MOutRemove *) rewrite remove_at_length in Ebug' by exact Heff. lflags ht H.
      1,2: rewrite Es in Ebug, Ebug'; cbn [andb] in Ebug, Ebug'; apply Nat.leb_gt in Ebug, Ebug';
           apply andb_true_iff in H; destruct H as [H1 H2]; apply Nat.leb_le in H1; apply Nat.ltb_lt in H2;
           apply lvout_single_eq in Hvout; [|assumption | assumption | rewrite remove_at_length by exact Heff; assumption];
           destruct Hvout as [_ Hvout]; rewrite nth_error_remove_at in Hvout; destruct (Nat.ltb_spec idx j); [lia|];
           symmetry in Hvout; revert Hvout; apply NoDup_nth_error_neq; [assumption | lia | lia].
      all: rewrite !lvout_all in Hvout by assumption; revert Hvout; apply length_neq; rewrite remove_at_length by exact Heff; lia.
    + (* MInInsert *) pose proof Hinp' as Hi2. rewrite nth_error_insert_shift, Hinp in Hi2 by exact Heff. injection Hi2 as <-.
      lflags ht H.
      all: try (apply (f_equal (@length _)) in Hvin; rewrite !lvin_length in Hvin by assumption;
                rewrite insert_at_length in Hvin; lia).
      all: rewrite Es in Ebug, Ebug'; cbn [andb] in Ebug, Ebug'; apply Nat.leb_gt in Ebug, Ebug';
           apply andb_true_iff in H; destruct H as [H1 H2]; apply Nat.leb_le in H1;
           apply lvout_single_eq in Hvout; [|assumption..]; destruct Hvout as [Hvout _];
           destruct (Nat.leb_spec j idx); lia.
    + (* MInRemove *) destruct Heff as [Hlt Hne]. pose proof Hinp' as Hi2. rewrite nth_error_remove_shift, Hinp in Hi2 by exact Hne.
      injection Hi2 as <-. lflags ht H.
      all: try (apply (f_equal (@length _)) in Hvin; rewrite !lvin_length in Hvin by assumption;
                rewrite remove_at_length in Hvin by exact Hlt; lia).
      all: rewrite Es in Ebug, Ebug'; cbn [andb] in Ebug, Ebug'; apply Nat.leb_gt in Ebug, Ebug';
           apply andb_true_iff in H; destruct H as [H1 H2]; apply Nat.ltb_lt in H1;
           apply lvout_single_eq in Hvout; [|assumption..]; destruct Hvout as [Hvout _];
           destruct (Nat.ltb_spec j idx); lia.
    + (* MSpentValue *) discriminate.
    + (* MSpentScript *) rewrite Hinp in Hinp'. injection Hinp' as <-.
      apply (lvin_eq_signed _ _ _ _ _ _ _ _ Hinp Hinp) in Hvin. apply (f_equal ti_script_sig) in Hvin. cbn in Hvin. congruence.
Qed.

(** ** the preimage is injective in the view *)
Definition wf_lview (v : legacy_view) : Prop :=
  match v with LVOne => True | LVCopy cp ht => wf_transaction cp /\ ht < two32 end.

Definition preimage_of (d : legacy_digest) : bytes := match d with LegacyPreimage b => b | LegacyOne => [] end.

Theorem legacy_digest_injective v1 v2 : wf_lview v1 -> wf_lview v2 ->
  legacy_digest_of v1 = legacy_digest_of v2 -> v1 = v2.
Proof.
  destruct v1 as [|c1 h1], v2 as [|c2 h2]; cbn [legacy_digest_of wf_lview]; intros W1 W2 H; try discriminate; [reflexivity|].
  apply (f_equal preimage_of) in H. cbn [preimage_of] in H. destruct W1 as [W1 L1], W2 as [W2 L2].
  apply pinj_ser_transaction in H; [|assumption..]. destruct H as [-> H].
  apply (pinj_inj _ _ _ _ pinj_u32 L1 L2) in H. subst. reflexivity.
Qed.

Lemma lvin_split code ht idx inp vin : nth_error vin idx = Some inp ->
  exists l1 l2, vin = l1 ++ inp :: l2 /\ length l1 = idx /\
    lvin code ht idx inp vin =
    if anyone_can_pay ht then [with_script code inp]
    else map (other ht) l1 ++ with_script code inp :: map (other ht) l2.
Proof.
  intros Hn. destruct (nth_error_split vin idx Hn) as (l1 & l2 & -> & Hl). exists l1, l2. repeat split; [exact Hl|].
  unfold lvin.
  assert (F : firstn idx (l1 ++ inp :: l2) = l1) by (rewrite <- Hl, firstn_app, Nat.sub_diag, firstn_all; cbn; apply app_nil_r).
  assert (S' : skipn (S idx) (l1 ++ inp :: l2) = l2).
  { rewrite <- Hl. rewrite skipn_app. rewrite skipn_all2 by lia. replace (S (length l1) - length l1)%nat with 1%nat by lia. reflexivity. }
  rewrite F, S'. reflexivity.
Qed.

Lemma wf_other ht i : wf_txin i -> wf_txin (other ht i).
Proof.
  intros (Wp & _ & Ws). unfold other. destruct (is_none ht || is_single ht); repeat split; cbn; try apply Wp; try assumption;
    unfold two64, two32; reflexivity.
Qed.
Lemma wf_with_script code i : lenN code < two64 -> wf_txin i -> wf_txin (with_script code i).
Proof. intros Hc (Wp & _ & Ws). repeat split; cbn; try apply Wp; assumption. Qed.

Lemma wf_ctx_lview c ht : wf_ctx c -> ht < two32 -> wf_lview (legacy_view_of c ht).
Proof.
  intros ((Hv & Hl & Hi & Ho & Hni & Hno) & Hc & _) Hht. rewrite legacy_view_of_eq.
  destruct (nth_error (t_vin (sc_tx c)) (sc_idx c)) as [inp|] eqn:Hinp; [|exact I].
  destruct (is_single ht && Nat.leb (length (t_vout (sc_tx c))) (sc_idx c)) eqn:Ebug; [exact I|].
  cbn [wf_lview]. split; [|exact Hht]. unfold wf_transaction. cbn [t_version t_vin t_vout t_locktime].
  destruct (lvin_split (sc_code c) ht (sc_idx c) inp _ Hinp) as (l1 & l2 & E & Hl1 & ->).
  rewrite E in Hi, Hni. apply Forall_app in Hi. destruct Hi as [F1 F2]. inversion F2 as [|? ? Winp F2']; subst.
  rewrite app_length in Hni. cbn [length] in Hni.
  repeat split; try assumption.
  - destruct (anyone_can_pay ht).
    + constructor; [apply wf_with_script; assumption|constructor].
    + apply Forall_app. split; [|constructor; [apply wf_with_script; assumption|]].
      * apply Forall_map_inv. eapply Forall_impl; [|exact F1]. intros; apply wf_other; assumption.
      * apply Forall_map_inv. eapply Forall_impl; [|exact F2']. intros; apply wf_other; assumption.
  - unfold lvout. destruct (is_none ht); [constructor|]. destruct (is_single ht); [|exact Ho].
    apply Forall_app. split.
    + apply Forall_forall. intros x Hx. apply repeat_spec in Hx. subst. split; cbn; unfold two64; reflexivity.
    + destruct (nth_error (t_vout (sc_tx c)) (sc_idx c)) eqn:Eo; [|constructor]. constructor; [|constructor].
      eapply Forall_nth_error; eauto.
  - destruct (anyone_can_pay ht); [cbn [length]; unfold two64 in *; lia|].
    rewrite app_length. cbn [length]. rewrite !map_length. exact Hni.
  - unfold lvout. destruct (is_none ht); [cbn; unfold two64; lia|]. destruct (is_single ht) eqn:Es; [|exact Hno].
    cbn [andb] in Ebug. apply Nat.leb_gt in Ebug. rewrite app_length, repeat_length.
    destruct (nth_error (t_vout (sc_tx c)) (sc_idx c)); cbn [length]; lia.
Qed.

(** ** C04, legacy half *)
Theorem legacy_view_invariant c ht m : committed_in AlgLegacy ht c m = false -> applicable m c ->
  legacy_view_of (apply_mutation m c) ht = legacy_view_of c ht.
Proof.
  intros H Happ. destruct (is_single ht && Nat.leb (length (t_vout (sc_tx c))) (sc_idx c)) eqn:Ebug.
  - apply andb_true_iff in Ebug. destruct Ebug as [Es Hl]. apply Nat.leb_le in Hl.
    apply legacy_view_invariant_bug; assumption.
  - apply legacy_view_invariant_normal; try assumption.
    unfold committed_in, committed in H. cbn [legacy_single_bug] in H. rewrite Ebug in H. exact H.
Qed.

Theorem commit_invariant_legacy c ht m : committed_in AlgLegacy ht c m = false -> applicable m c ->
  let c' := apply_mutation m c in
  legacy_signature_hash (sc_code c') (sc_tx c') (sc_idx c') ht = legacy_signature_hash (sc_code c) (sc_tx c) (sc_idx c) ht.
Proof. intros H Ha c'. unfold c'. rewrite !legacy_digest_factors, legacy_view_invariant by assumption. reflexivity. Qed.

Theorem commit_sensitive_legacy c ht m inp : committed_in AlgLegacy ht c m = true -> effective m c ->
  nth_error (t_vin (sc_tx c)) (sc_idx c) = Some inp ->
  wf_ctx c -> wf_ctx (apply_mutation m c) -> ht < two32 ->
  NoDup (t_vout (sc_tx c)) -> NoDup (t_vout (sc_tx (apply_mutation m c))) ->
  let c' := apply_mutation m c in
  legacy_signature_hash (sc_code c') (sc_tx c') (sc_idx c') ht <> legacy_signature_hash (sc_code c) (sc_tx c) (sc_idx c) ht.
Proof.
  intros H He Hinp W W' Hht Nd Nd' c' Heq. unfold c' in Heq. rewrite !legacy_digest_factors in Heq.
  apply legacy_digest_injective in Heq; try (apply wf_ctx_lview; assumption).
  revert Heq. eapply legacy_view_sensitive; eauto.
Qed.
