(** Tx.SequenceHash (txinput.go), as printed from the Go source, is [sequence_hash] of model/SigHash.v.
    TRUSTED mapping used (lib/GoTx.v): crypto.Sha256d -> [sha256d]. *)
From Coq Require Import List ZArith NArith Bool Lia ZifyN ZifyNat ZifyBool.
From Coq Require Import Strings.Byte.
From GoBT Require Import lib.Bytes lib.VarInt lib.GoSem lib.GoTx gen.Funcs proofs.GenFuncsTac proofs.GenFuncsTxTac model.Tx model.SigHash.
Import ListNotations.
Ltac Zify.zify_post_hook ::= Z.div_mod_to_equations.
Local Open Scope Z_scope.

Definition seq_step (h : bytes) (g : go_Input) : bytes := h ++ le_enc 4 (in_seq (input_of_go g)).

Lemma Tx_SequenceHash_is_model ins outs ver lock : Forall go_input_ok ins -> len_ok ins ->
  Tx_SequenceHash (map Some ins) = Val (sequence_hash (tx_of_go ins outs ver lock)).
Proof.
  intros Hins Hl. unfold Tx_SequenceHash. tx_norm.
  tx_loop ins seq_step go_input_ok Hins;
    [ tx_norm; apply Val_inj; unfold seq_step; rewrite (fold_left_app_concat (fun g => le_enc 4 (in_seq (input_of_go g))));
      unfold sequence_hash, tx_of_go; cbn [tx_ins app]; rewrite map_map; reflexivity
    | intros i g h Hg; try intros Hidx; tx_norm; tx_next_eq; unfold seq_step, input_of_go; cbn [in_seq]; tx_bytes_eq ].
Qed.
