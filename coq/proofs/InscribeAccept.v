(** C04, the inscription case closed.

    [C04_inscription_input_signed_and_accepted] (proofs/SignAcceptAll.v) still ASSUMED that the bytes between OP_IF
    and OP_ENDIF of the envelope Tx.Inscribe writes parse as push-only operations within the element-size limit,
    and did not cover the template with the OP_RETURN tail of EnrichedArgs.  Here:

    A. the body Inscribe writes, [ord_body ct data] = push "ord", OP_1, push ct, OP_0, push data, IS push-only for
       every content type and payload shorter than 2^32 bytes (Inscribe refuses anything longer), whichever
       form EncodeParts chooses for the two pushes: OP_0 for an empty item, a direct push (1..75 bytes),
       OP_PUSHDATA1, OP_PUSHDATA2 or OP_PUSHDATA4 ([parse_ord_body], [ord_bops_push_only]).  The parsed
       operations carry "ord", ct and data as their data, so the element-size check of the (skipped) branch is
       [lenZ ct <= max_elem c /\ lenZ data <= max_elem c]: a real requirement of the interpreter before Genesis
       (520 bytes; executeOpcode checks the size of a push before it looks at the branch), implied by the
       script-size limit after Genesis.  Hence [inscription_input_signed_and_accepted_closed] (no hypothesis on
       parsed operations) and [inscription_input_signed_and_accepted_genesis] (after Genesis: no hypothesis on
       the envelope at all).
    B. the enriched form: p2pkh, envelope, OP_RETURN, pushes of EnrichedArgs.OpReturnData.  After Genesis a
       top-level OP_RETURN ends the script successfully (opcodeReturn: [success()] when the condition stack is
       empty - it is, the envelope's ENDIF has just closed it), with [true] from OP_CHECKSIG on the stack; the
       parser turns everything behind it into one "Unformatted Data" operation that is never executed; the
       script code hashed by OP_CHECKSIG is the whole locking script, tail included
       ([signed_inscription_enriched_accepts], [inscription_enriched_input_signed_and_accepted]).  Before
       Genesis OP_RETURN is an error: the enriched output cannot be spent there
       ([inscription_enriched_rejected_before_genesis] on an instance). *)
From Coq Require Import List NArith ZArith Lia ZifyN ZifyNat ZifyBool Bool.
From Coq Require Import Strings.Byte.
From GoBT Require Import lib.Bytes lib.VarInt lib.Checked lib.Sha256 lib.Ripemd160 model.Tx model.SigHash model.Push
  model.Classify model.ScriptNum model.Interp model.CheckSig model.Sign model.Inscription spec.PushSpec spec.TemplateSpec
  proofs.PushProofs proofs.TxProofs proofs.SigHashProofs proofs.TemplateProofs proofs.InscriptionProofs
  proofs.AddressProofs proofs.P2PKHProofs proofs.AuditAC04 proofs.AuditASigHash proofs.SignProofs proofs.OrdSignProofs
  proofs.SignAcceptAll proofs.AuditB_C06b.
Import ListNotations.
Local Open Scope N_scope.

Local Opaque hash160 sha256 sha256d.

(** * A. the envelope body is push-only *)

(** the operation DefaultOpcodeParser.Parse makes of what EncodeParts writes for one item *)
Definition push_pop (d : bytes) : pop :=
  let l := lenN d in
  if l =? 0 then mkPop 0 1 [] true
  else if l <=? 75 then mkPop l (Z.of_N l + 1) d true
  else if l <=? 255 then mkPop 76 (-1) d true
  else if l <=? 65535 then mkPop 77 (-2) d true
  else mkPop 78 (-4) d true.

Lemma push_pop_val d : p_val (push_pop d) <= 78.
Proof.
  unfold push_pop. destruct (lenN d =? 0) eqn:E0; [cbn; lia|]. destruct (lenN d <=? 75) eqn:E1; [cbn [p_val]; lia|].
  destruct (lenN d <=? 255); [cbn; lia|]. destruct (lenN d <=? 65535); cbn; lia.
Qed.
Lemma push_pop_data d : p_data (push_pop d) = d.
Proof.
  unfold push_pop. destruct (lenN d =? 0) eqn:E0.
  - destruct d; [reflexivity|]. unfold lenN in E0. cbn [length] in E0. lia.
  - destruct (lenN d <=? 75); [reflexivity|]. destruct (lenN d <=? 255); [reflexivity|].
    destruct (lenN d <=? 65535); reflexivity.
Qed.

(** a PUSHDATA1/2/4 item: opcode [v], [k] little-endian length bytes, the data *)
Lemma parse_pushdata f v k d rest dth : (k = 1 \/ k = 2 \/ k = 4)%nat ->
  v = (if Nat.eqb k 1 then 76 else if Nat.eqb k 2 then 77 else 78) ->
  lenN d < 256 ^ N.of_nat k ->
  parse_ops (S f) false ((n2b v :: le_enc k (lenN d)) ++ d ++ rest) dth =
  option_map (cons (mkPop v (- Z.of_nat k) d true)) (parse_ops f false rest dth).
Proof.
  intros Hk Hv Hd. cbn [app parse_ops andb].
  assert (Hv' : v = 76 \/ v = 77 \/ v = 78) by (destruct Hk as [-> | [-> | ->]]; cbn in Hv; lia).
  rewrite b2n_n2b_small by lia. rewrite depth_same by lia.
  unfold OP_RETURN. replace (v =? 106) with false by lia. cbn [andb].
  assert (Hl : op_length v = (- Z.of_nat k)%Z).
  { unfold op_length. destruct Hk as [-> | [-> | ->]]; cbn in Hv; subst v; reflexivity. }
  rewrite Hl. replace (- Z.of_nat k =? 1)%Z with false by lia. replace (1 <? - Z.of_nat k)%Z with false by lia.
  replace (Z.to_nat (- - Z.of_nat k)) with k by lia.
  pose proof (le_enc_length k (lenN d)) as Lk.
  rewrite app_length, Lk. replace (Nat.ltb (k + length (d ++ rest)) k) with false by lia.
  rewrite firstn_app_le, skipn_app_le by lia. rewrite firstn_all2, skipn_all2 by lia. cbn [app].
  rewrite le_dec_enc by exact Hd.
  rewrite app_length. replace (N.of_nat (length d + length rest) <? lenN d) with false by (unfold lenN; lia).
  unfold lenN. rewrite Nat2N.id. rewrite firstn_app_le, skipn_app_le by lia. rewrite firstn_all, skipn_all. reflexivity.
Qed.

(** one item as EncodeParts writes it: all five forms *)
Lemma parse_push_tok f d rest dth : lenN d < 4294967296 ->
  parse_ops (S f) false (tok_bytes (push_tok d) ++ rest) dth =
  option_map (cons (push_pop d)) (parse_ops f false rest dth).
Proof.
  intros Hd. unfold push_pop. destruct d as [|x r].
  - (* OP_0 *) cbn [push_tok tok_bytes app]. rewrite (parse_one _ x00) by reflexivity. reflexivity.
  - cbn [push_tok tok_bytes]. set (d := x :: r) in *. assert (Hpos : 1 <= lenN d) by (unfold d; rewrite lenN_cons; lia).
    replace (lenN d =? 0) with false by lia.
    destruct (lenN d <=? 75) eqn:E1.
    + (* direct *)
      assert (Hp : push_data_prefix d = Some [n2b (lenN d)]) by (unfold push_data_prefix; rewrite E1; reflexivity).
      rewrite Hp. change ([n2b (lenN d)] ++ d) with (push_direct d).
      rewrite parse_push_direct by (unfold lenN in *; lia). reflexivity.
    + destruct (lenN d <=? 255) eqn:E2.
      * (* OP_PUSHDATA1 *)
        assert (Hp : push_data_prefix d = Some (n2b 76 :: le_enc 1 (lenN d)))
          by (unfold push_data_prefix; rewrite E1, E2; reflexivity).
        rewrite Hp, <- app_assoc. rewrite (parse_pushdata f 76 1 d rest dth); [reflexivity|auto|reflexivity|].
           change (256 ^ N.of_nat 1) with 256. lia.
      * destruct (lenN d <=? 65535) eqn:E3.
        -- (* OP_PUSHDATA2 *)
           assert (Hp : push_data_prefix d = Some (n2b 77 :: le_enc 2 (lenN d)))
             by (unfold push_data_prefix; rewrite E1, E2, E3; reflexivity).
           rewrite Hp, <- app_assoc. rewrite (parse_pushdata f 77 2 d rest dth); [reflexivity|auto|reflexivity|].
           change (256 ^ N.of_nat 2) with 65536. lia.
        -- (* OP_PUSHDATA4 *)
           assert (Hp : push_data_prefix d = Some (n2b 78 :: le_enc 4 (lenN d))).
           { unfold push_data_prefix. rewrite E1, E2, E3. replace (lenN d <=? 4294967295) with true by lia. reflexivity. }
           rewrite Hp, <- app_assoc. rewrite (parse_pushdata f 78 4 d rest dth); [reflexivity|auto|reflexivity|].
           change (256 ^ N.of_nat 4) with 4294967296. lia.
Qed.

(** the parsed envelope body *)
Definition ord_bops (ct data : bytes) : list pop :=
  [push_op ordinals_prefix; op1 81; push_pop ct; op1 0; push_pop data].

Theorem parse_ord_body ct data : lenN ct < 4294967296 -> lenN data < 4294967296 ->
  parse_ops (length (ord_body ct data)) false (ord_body ct data) 1 = Some (ord_bops ct data).
Proof.
  intros Hct Hd. unfold ord_body.
  change ([x03; x6f; x72; x64; x51] ++ tok_bytes (push_tok ct) ++ [x00] ++ tok_bytes (push_tok data))
    with (push_direct ordinals_prefix ++ x51 :: tok_bytes (push_tok ct) ++ x00 :: tok_bytes (push_tok data)).
  assert (Hlen : exists f, length (push_direct ordinals_prefix ++ x51 :: tok_bytes (push_tok ct) ++ x00 :: tok_bytes (push_tok data)) =
                           S (S (S (S (S f))))).
  { assert (L : forall d, (1 <= length (tok_bytes (push_tok d)))%nat).
    { intros [|y q]; [cbn; lia|]. cbn [push_tok tok_bytes]. rewrite app_length. cbn [length]. lia. }
    pose proof (L ct). pose proof (L data).
    exists (length (tok_bytes (push_tok ct)) + S (length (tok_bytes (push_tok data))))%nat.
    unfold push_direct, ordinals_prefix. cbn [app length]. rewrite app_length. cbn [length]. lia. }
  destruct Hlen as [f ->].
  rewrite parse_push_direct by (cbn; lia).
  rewrite (parse_one _ x51) by reflexivity. change (b2n x51) with 81.
  cbv beta iota delta [N.eqb Pos.eqb orb OP_IF OP_NOTIF OP_ENDIF].
  rewrite parse_push_tok by exact Hct.
  rewrite (parse_one _ x00) by reflexivity. change (b2n x00) with 0.
  cbv beta iota delta [N.eqb Pos.eqb orb OP_IF OP_NOTIF OP_ENDIF].
  rewrite <- (app_nil_r (tok_bytes (push_tok data))). rewrite parse_push_tok by exact Hd.
  destruct f; reflexivity.
Qed.

Theorem ord_bops_push_only ct data : is_push_only (ord_bops ct data) = true.
Proof.
  unfold is_push_only, ord_bops. cbn [forallb]. pose proof (push_pop_val ct). pose proof (push_pop_val data).
  unfold OP_16. change (p_val (push_op ordinals_prefix)) with 3. change (p_val (op1 81)) with 81. change (p_val (op1 0)) with 0.
  lia.
Qed.

Theorem ord_bops_elem (m : Z) ct data : (520 <= m)%Z -> (lenZ ct <= m)%Z -> (lenZ data <= m)%Z ->
  Forall (fun p => (lenZ (p_data p) <= m)%Z) (ord_bops ct data).
Proof.
  intros Hm Hct Hd. unfold ord_bops. repeat constructor; rewrite ?push_pop_data; try assumption;
    unfold lenZ; cbn [p_data push_op op1 ordinals_prefix length]; lia.
Qed.

(** the body hypothesis of the acceptance theorems, discharged *)
Corollary ord_body_ok c ct data : lenN ct < 4294967296 -> lenN data < 4294967296 ->
  (lenZ ct <= max_elem c)%Z -> (lenZ data <= max_elem c)%Z ->
  body_ok c (ord_body ct data) (ord_bops ct data).
Proof.
  intros Hct Hd Ect Ed. split; [apply parse_ord_body; assumption|]. split; [apply ord_bops_push_only|].
  apply ord_bops_elem; try assumption. apply max_elem_ge.
Qed.

Lemma inscribe_script_some_lens prefix ct data enriched s :
  inscribe_script prefix ct data enriched = Some s -> lenN ct < 4294967296 /\ lenN data < 4294967296.
Proof.
  intros H. split.
  - destruct (N.ltb_spec (lenN ct) 4294967296) as [L|L]; [exact L|]. rewrite inscribe_script_too_big in H by lia. discriminate.
  - destruct (N.ltb_spec (lenN data) 4294967296) as [L|L]; [exact L|]. rewrite inscribe_script_too_big in H by lia. discriminate.
Qed.

Section Closed.
Local Open Scope Z_scope.

(** [C04_inscription_input_signed_and_accepted] without a hypothesis on parsed operations.  What remains about
    the envelope is the interpreter's element-size limit on the content type and the payload. *)
Theorem inscription_input_signed_and_accepted_closed : forall (orc : sig_oracle) (s : Sign.signer) (t : tx) (idx : N) (inp : input)
    (flags ht : N) (ct data lock : bytes) (h sig : bytes),
  let ht' := default_type ht in
  let pk := sg_pub s in
  let c := mkCtx (normalise_flags flags) true (Z.of_N (tx_lock t)) (Z.of_N (tx_version t)) (Z.of_N (in_seq inp)) false in
  wf_tx t -> (idx + 1 < two32)%N -> In ht' [0x41; 0x42; 0x43; 0xc1; 0xc2; 0xc3]%N ->
  nthN (tx_ins t) idx = Some inp ->
  inscribe_script (p2pkh_lock (hash160 pk)) ct data None = Some lock -> in_script inp = Some lock ->
  signer_ok s ->
  fst (calc_input_signature_hash t idx ht') = SOk h -> sg_sign s h = Some sig ->
  has_flag c F_FORKID = true ->
  (has_flag c F_CLEANSTACK = true -> has_flag c F_BIP16 = true) ->
  lenZ lock <= max_script_size c ->
  lenZ ct <= max_elem c -> lenZ data <= max_elem c ->
  oracle_accepts_signer orc c s h ->
  exists t' inp', Sign.fill_input (Some s) t idx ht = SgOk t' /\ nthN (tx_ins t') idx = Some inp' /\
    in_script inp' = Some lock /\ in_sats inp' = in_sats inp /\ in_seq inp' = in_seq inp /\
    fst (engine_execute (mk_sigops orc (engine_tx t' idx (in_unlock inp') lock (in_sats inp')) idx)
           (mkExecInput (in_unlock inp') lock flags true true (Z.of_N (tx_lock t')) (Z.of_N (tx_version t'))
                        (Z.of_N (in_seq inp')))) = VOk.
Proof.
  intros orc s t idx inp flags ht ct data lock h sig ht' pk c
         Hwf Hidx Hin Hn Hi Hsc Hok Hh Hsg Hfk Hcs Hsz Ect Ed Horc.
  destruct (inscribe_script_some_lens _ _ _ _ _ Hi) as [Lct Ld].
  destruct (ord_body_ok c ct data Lct Ld Ect Ed) as (Hp & Hpo & Hel).
  exact (inscription_input_signed_and_accepted orc s t idx inp flags ht ct data lock (ord_bops ct data) h sig
           Hwf Hidx Hin Hn Hi Hsc Hok Hh Hsg Hfk Hcs Hsz Hp Hpo Hel Horc).
Qed.

(** parts of a script are not longer than the script *)
Lemma ord_body_lens ct data : lenZ ct <= lenZ (ord_body ct data) /\ lenZ data <= lenZ (ord_body ct data).
Proof.
  assert (L : forall d, (length d <= length (tok_bytes (push_tok d)))%nat).
  { intros [|y q]; [cbn; lia|]. cbn [push_tok tok_bytes]. rewrite app_length. lia. }
  pose proof (L ct). pose proof (L data). unfold lenZ, ord_body. rewrite !app_length. cbn [length]. lia.
Qed.

(** after Genesis (the configuration the property observes: WithForkID, WithAfterGenesis) the element-size
    limit equals the script-size limit, so NOTHING is assumed about the envelope: every content type and
    payload Inscribe accepts *)
Theorem inscription_input_signed_and_accepted_genesis : forall (orc : sig_oracle) (s : Sign.signer) (t : tx) (idx : N) (inp : input)
    (flags ht : N) (ct data lock : bytes) (h sig : bytes),
  let ht' := default_type ht in
  let pk := sg_pub s in
  let c := mkCtx (normalise_flags flags) true (Z.of_N (tx_lock t)) (Z.of_N (tx_version t)) (Z.of_N (in_seq inp)) false in
  wf_tx t -> (idx + 1 < two32)%N -> In ht' [0x41; 0x42; 0x43; 0xc1; 0xc2; 0xc3]%N ->
  nthN (tx_ins t) idx = Some inp ->
  inscribe_script (p2pkh_lock (hash160 pk)) ct data None = Some lock -> in_script inp = Some lock ->
  signer_ok s ->
  fst (calc_input_signature_hash t idx ht') = SOk h -> sg_sign s h = Some sig ->
  has_flag c F_FORKID = true -> after_genesis c = true ->
  (has_flag c F_CLEANSTACK = true -> has_flag c F_BIP16 = true) ->
  lenZ lock <= max_script_size c ->
  oracle_accepts_signer orc c s h ->
  exists t' inp', Sign.fill_input (Some s) t idx ht = SgOk t' /\ nthN (tx_ins t') idx = Some inp' /\
    in_script inp' = Some lock /\ in_sats inp' = in_sats inp /\ in_seq inp' = in_seq inp /\
    fst (engine_execute (mk_sigops orc (engine_tx t' idx (in_unlock inp') lock (in_sats inp')) idx)
           (mkExecInput (in_unlock inp') lock flags true true (Z.of_N (tx_lock t')) (Z.of_N (tx_version t'))
                        (Z.of_N (in_seq inp')))) = VOk.
Proof.
  intros orc s t idx inp flags ht ct data lock h sig ht' pk c
         Hwf Hidx Hin Hn Hi Hsc Hok Hh Hsg Hfk Hag Hcs Hsz Horc.
  pose proof (inscribe_script_is_lock (hash160 pk) ct data lock Hi) as El.
  assert (Hb : lenZ (ord_body ct data) <= lenZ lock).
  { rewrite El. unfold lenZ, inscription_suffix. rewrite app_length. cbn [length]. rewrite app_length. lia. }
  destruct (ord_body_lens ct data) as [B1 B2].
  assert (Em : max_elem c = max_script_size c) by (unfold max_elem, max_script_size; rewrite Hag; reflexivity).
  assert (Ect : lenZ ct <= max_elem c) by (rewrite Em; lia).
  assert (Ed : lenZ data <= max_elem c) by (rewrite Em; lia).
  apply (inscription_input_signed_and_accepted_closed orc s t idx inp flags ht ct data lock h sig); assumption.
Qed.
End Closed.

(** * B. the enriched form: p2pkh, envelope, OP_RETURN, data *)

(** what the parser makes of a top-level OP_RETURN and everything behind it: the opcode and one synthetic
    "Unformatted Data" operation (opcodeparser.go) *)
Definition ret_tail_ops (tail : bytes) : list pop :=
  op1 OP_RETURN ::
  match tail with
  | [] => []
  | [x] => [mkPop (b2n x) 1 [] false]
  | x :: data => [mkPop (b2n x) (Z.of_nat (length tail)) data false]
  end.
Definition lock_e (pkh body tail : bytes) : bytes := p2pkh_lock pkh ++ inscription_suffix body ++ x6a :: tail.
Definition lock_e_ops (pkh : bytes) (bops : list pop) (tail : bytes) : list pop :=
  lock_ops pkh true bops ++ ret_tail_ops tail.

Lemma parse_lock_e pkh body bops tail : length pkh = 20%nat ->
  parse_ops (length body) false body 1 = Some bops -> is_push_only bops = true ->
  parse_script false (lock_e pkh body tail) = Some (lock_e_ops pkh bops tail).
Proof.
  intros Hl Hp Hpo. destruct (parse_pushonly false _ _ _ _ Hp Hpo) as [_ Ha].
  unfold parse_script, lock_e, lock_e_ops, lock_ops. cbn [suffix_ops]. rewrite <- app_assoc.
  rewrite (parse_ops_fuel false _ (5 + (20 + (2 + (length body + (2 + length tail)))))).
  - apply parse_p2pkh_lock; [exact Hl|].
    rewrite (parse_ops_fuel false _ (S (S (length body + (2 + length tail))))).
    + unfold inscription_suffix. cbn [app]. rewrite <- app_assoc. cbn [app].
      rewrite (parse_one _ x00) by reflexivity. rewrite (parse_one _ x63) by reflexivity.
      change (b2n x00) with 0%N. change (b2n x63) with 99%N.
      cbv beta iota delta [N.eqb Pos.eqb orb OP_IF OP_NOTIF OP_VERIF OP_VERNOTIF OP_ENDIF].
      change (0 + 1)%Z with 1%Z. rewrite Ha by (cbn [length]; lia).
      cbn [Nat.add]. rewrite (parse_one _ x68) by reflexivity. change (b2n x68) with 104%N.
      cbv beta iota delta [N.eqb Pos.eqb orb OP_IF OP_NOTIF OP_VERIF OP_VERNOTIF OP_ENDIF].
      change (1 - 1)%Z with 0%Z.
      cbn [parse_ops andb]. change (b2n x6a) with 106%N.
      cbv beta iota delta [N.eqb Pos.eqb OP_RETURN Z.eqb andb].
      cbn [option_map]. unfold inscription_ops, ret_tail_ops. cbn [app]. rewrite <- app_assoc. reflexivity.
    + unfold inscription_suffix. cbn [length app]. rewrite !app_length. cbn [length]. lia.
    + unfold inscription_suffix. cbn [length app]. rewrite !app_length. cbn [length]. lia.
  - rewrite !app_length. unfold p2pkh_lock, inscription_suffix. rewrite !app_length. cbn [length]. rewrite !app_length. cbn [length]. lia.
  - rewrite !app_length. unfold p2pkh_lock, inscription_suffix. rewrite !app_length. cbn [length]. rewrite !app_length. cbn [length]. lia.
Qed.

Lemma handler_return so c i s : after_genesis c = true -> cond s = [] ->
  exec_handler so c (op1 OP_RETURN) i s = OReturn (set_early s true).
Proof.
  intros Hag Hc.
  change (exec_handler so c (op1 OP_RETURN) i s) with
    (if negb (after_genesis c) then OErr
     else match cond s with [] => OReturn (set_early s true) | _ => OOk (set_early s true) end).
  rewrite Hag, Hc. reflexivity.
Qed.

Lemma run_ops_return so c p rest i s s' acc :
  execute_opcode so c p i s = OReturn s' -> fst (run_ops so c (p :: rest) i s acc) = SReturn s'.
Proof. intros He. cbn [run_ops]. rewrite He. reflexivity. Qed.

(** thread.execute when the locking script ends by an early return *)
Lemma execute_two_stage_return so c u l s1 sF x :
  u <> [] -> l <> [] ->
  (forall acc, fst (run_ops so c u 0 (init_st u) acc) = SEnd s1) -> cond s1 = [] ->
  (forall acc, fst (run_ops so c l 0 (shift_script (set_als s1 []) l) acc) = SReturn sF) ->
  ds sF = [x] -> as_bool x = true ->
  fst (execute so c false u l) = VOk.
Proof.
  intros Hu Hl H1 Hc1 H2 Hd Hx. unfold execute. destruct u as [|u0 u']; [congruence|].
  specialize (H1 []). destruct (run_ops so c (u0 :: u') 0 (init_st (u0 :: u')) []) as [e acc].
  cbn [fst] in H1. subst e. unfold end_script. rewrite Hc1. destruct l as [|l0 l']; [congruence|].
  unfold run_lock. match goal with |- context [run_ops so c (l0 :: l') 0 ?s ?a] => specialize (H2 a) end.
  match goal with |- context [run_ops so c (l0 :: l') 0 ?s ?a] => destruct (run_ops so c (l0 :: l') 0 s a) as [e2 acc2] end.
  cbn [fst] in H2. subst e2. unfold finish. cbn [fst].
  rewrite Hd. unfold check_error_condition. cbn [length Nat.eqb negb]. rewrite andb_false_r, Hx. reflexivity.
Qed.

Section RunE.
Local Open Scope Z_scope.
Variable orc : sig_oracle.
Variable tE : tx.
Variable idx : N.
Variable c : ctx.
Variables sig pk : bytes.
Variable ht : N.
Let so := mk_sigops orc tE idx.
Let full := sig ++ [n2b ht].
Variable L : list pop.
Variable up h : bytes.
Hypothesis Hht : (ht < 256)%N.
Hypothesis Hty : check_hash_type c ht = true.
Hypothesis Henc : check_sig_enc c sig = EncOk.
Hypothesis Hpke : check_pubkey_enc c pk = true.
Hypothesis Hup : forall s, last_sep s = 0%nat -> cur s = L -> unparse (checksig_code_ops c s full ht) = Some up.
Hypothesis Hsh : sighash_for tE idx up ht = SOk h.
Hypothesis Hpub : orc_parse_pub orc pk = true.
Hypothesis Hsig : orc_parse_sig orc (uses_der_parser c) sig = true.
Hypothesis Hver : orc_verify orc pk h sig (uses_der_parser c) = Some true.
Hypothesis Hag : after_genesis c = true.

(** P2PKH part, the skipped envelope, then OP_RETURN: a successful early end with [true] on the stack; the
    "Unformatted Data" operation behind it is never reached *)
Lemma run_lock_e bops tail acc : length (hash160 pk) = 20%nat ->
  is_push_only bops = true -> Forall (fun p => lenZ (p_data p) <= max_elem c) bops ->
  fst (run_ops so c (lock_e_ops (hash160 pk) bops tail) 0 (mkSt [pk; full] [] [] [] 0 0 false L) acc) =
  SReturn (mkSt [from_bool true] [] [] [] 7 0 true L).
Proof.
  intros Hl Hpo Hfa. unfold lock_e_ops, lock_ops, p2pkh_lock_ops. cbn [suffix_ops app].
  top_step ltac:(eapply handler_dup; reflexivity).
  top_step ltac:(eapply handler_hash160; reflexivity).
  erewrite run_ops_step; [ | apply exec_push; [lia|reflexivity|reflexivity|lia] | bound ].
  top_step ltac:(eapply handler_equalverify; reflexivity).
  top_step ltac:(rewrite handler_checksig; eapply checksig_accept;
                 [reflexivity|exact Hht|exact Hty|exact Henc|exact Hpke|apply Hup; reflexivity|exact Hsh|exact Hpub|exact Hsig|exact Hver]).
  unfold inscription_ops. cbn [app]. rewrite <- app_assoc.
  erewrite run_ops_step; [ | apply exec_op0; reflexivity | bound ].
  top_step ltac:(eapply handler_if_false; reflexivity).
  erewrite (run_skip so c bops ([op1 OP_ENDIF] ++ ret_tail_ops tail) _ _ COND_FALSE [] _ Hpo Hfa); [ | reflexivity | discriminate | bound ].
  cbn [app].
  erewrite run_ops_step; [ | eapply exec_endif; [reflexivity|rewrite Hag; reflexivity|cbn [nops set_ds set_nops set_cond]; lia] | bound ].
  unfold ret_tail_ops.
  erewrite run_ops_return; [reflexivity|].
  rewrite exec_top; [ | reflexivity | reflexivity | reflexivity | reflexivity | reflexivity | cbn [nops set_ds set_nops set_cond]; lia ].
  rewrite handler_return; [reflexivity | exact Hag | reflexivity].
Qed.
End RunE.

Section Enriched.
Local Open Scope Z_scope.

(** the acceptance theorem for the OP_RETURN-tailed template: for EVERY tail behind the OP_RETURN (the parser does
    not look into it), after Genesis.  Hypotheses as in [signed_p2pkh_accepts]; the script code whose digest the
    oracle is asked about is the whole locking script, tail included. *)
Theorem signed_inscription_enriched_accepts : forall (orc : sig_oracle) (t : tx) (idx : N) (inp : input) (flags sats ht : N)
    (sig pk body tail : bytes) (bops : list pop) (h : bytes),
  let full := sig ++ [n2b ht] in
  let unlock := p2pkh_unlock sig ht pk in
  let lock := lock_e (hash160 pk) body tail in
  let tE := engine_tx t idx unlock lock sats in
  let c := mkCtx (normalise_flags flags) true (Z.of_N (tx_lock t)) (Z.of_N (tx_version t)) (Z.of_N (in_seq inp)) false in
  (ht < 256)%N -> length pk = 33%nat -> (length full <= 75)%nat ->
  (has_flag c F_MINIMALDATA = true -> sig <> []) ->
  (has_flag c F_CLEANSTACK = true -> has_flag c F_BIP16 = true) ->
  lenZ lock <= max_script_size c ->
  after_genesis c = true ->
  parse_ops (length body) false body 1 = Some bops -> is_push_only bops = true ->
  Forall (fun p => lenZ (p_data p) <= max_elem c) bops ->
  check_hash_type c ht = true -> check_sig_enc c sig = EncOk -> check_pubkey_enc c pk = true ->
  (has_flag c F_FORKID && flag_has ht sh_forkid = true \/
   forall l, parse_script false lock = Some l -> strip_sig l full = l) ->
  sighash_for tE idx lock ht = SOk h ->
  orc_parse_pub orc pk = true -> orc_parse_sig orc (uses_der_parser c) sig = true ->
  orc_verify orc pk h sig (uses_der_parser c) = Some true ->
  fst (engine_execute (mk_sigops orc tE idx)
         (mkExecInput unlock lock flags true true (Z.of_N (tx_lock t)) (Z.of_N (tx_version t)) (Z.of_N (in_seq inp)))) = VOk.
Proof.
  intros orc t idx inp flags sats ht sig pk body tail bops h full unlock lock tE c
         Hht Hpk Hfull Hmin Hcs Hsz Hag Hp Hpo Hel Hty Henc Hpke Hstrip Hsh Hpub Hsig Hver.
  pose proof (hash160_length pk) as Hl.
  set (lops := lock_e_ops (hash160 pk) bops tail).
  pose proof (parse_lock_e (hash160 pk) body bops tail Hl Hp Hpo) as Hpl. fold lock lops in Hpl.
  pose proof (parse_ops_unparse _ _ _ _ _ Hpl) as Hul.
  assert (Hcode : forall s, last_sep s = 0%nat -> cur s = lops -> checksig_code_ops c s full ht = lops).
  { intros s Hsep Hcur. unfold checksig_code_ops, sub_script. rewrite Hsep, Hcur. cbn [skipn].
    destruct Hstrip as [H|H].
    - apply andb_prop in H as [H1 H2]. rewrite H1, H2. reflexivity.
    - destruct (negb _ || negb _); [|reflexivity]. apply H. exact Hpl. }
  rewrite (engine_execute_run _ unlock lock flags _ _ _ (p2pkh_unlock_ops sig ht pk) lops).
  - fold c. eapply (execute_two_stage_return _ c _ lops).
    + discriminate.
    + unfold lops, lock_e_ops, lock_ops, p2pkh_lock_ops. discriminate.
    + intros acc. apply run_unlock; assumption.
    + reflexivity.
    + intros acc.
      apply (run_lock_e orc tE idx c sig pk ht lops lock h Hht Hty Henc Hpke); try assumption.
      intros s Hs Hc. fold full. rewrite (Hcode s Hs Hc). exact Hul.
    + reflexivity.
    + reflexivity.
  - discriminate.
  - exact Hcs.
  - fold c. unfold unlock, p2pkh_unlock, push_direct, lenZ. cbn [app length]. rewrite app_length. cbn [length].
    fold full. unfold max_script_size, max_int32. destruct (after_genesis c); lia.
  - exact Hsz.
  - apply parse_unlock; assumption.
  - exact Hpl.
  - unfold p2pkh_unlock_ops, push_op, is_push_only, lenN, OP_16. cbn [forallb p_val]. fold full. lia.
  - unfold lock, lock_e, p2pkh_lock. reflexivity.
Qed.
End Enriched.

(** EncodeParts succeeds only on items shorter than 2^32 bytes: [enriched_ok] is a consequence of Inscribe's success *)
Lemma encode_parts_some_lens dd : forall p, encode_parts dd = Some p -> Forall (fun d => lenN d < 4294967296) dd.
Proof.
  induction dd as [|d dd IH]; intros p H; [constructor|]. cbn [encode_parts] in H.
  destruct (push_data_prefix d) as [pd|] eqn:E; [|discriminate].
  destruct (encode_parts dd) as [q|] eqn:E2; [|discriminate]. constructor; [|eapply IH; reflexivity].
  destruct (N.ltb_spec (lenN d) 4294967296) as [L|L]; [exact L|].
  apply push_prefix_none_iff in L. rewrite L in E. discriminate.
Qed.

Lemma inscribe_script_enriched_ok prefix ct data dd s :
  inscribe_script prefix ct data (Some dd) = Some s -> enriched_ok (Some dd).
Proof.
  unfold inscribe_script. destruct (append_push_data _ ordinals_prefix); [|discriminate].
  destruct (append_push_data _ ct); [|discriminate]. destruct (append_push_data _ data); [|discriminate].
  destruct dd as [|d dd]; [intros _; constructor|]. unfold append_push_data_array.
  destruct (encode_parts (d :: dd)) as [p|] eqn:E; [|discriminate]. intros _. exact (encode_parts_some_lens _ _ E).
Qed.

(** with a non-empty OpReturnData, what Inscribe builds is the enriched lock shape *)
Theorem inscribe_script_is_lock_e pkh ct data d dd s :
  inscribe_script (p2pkh_lock pkh) ct data (Some (d :: dd)) = Some s ->
  s = lock_e pkh (ord_body ct data) (toks_bytes (map push_tok (d :: dd))).
Proof.
  intros H. destruct (inscribe_script_some_lens _ _ _ _ _ H) as [Hct Hd].
  pose proof (inscribe_script_enriched_ok _ _ _ _ _ H) as He.
  change (p2pkh_lock pkh) with (Inscription.p2pkh_script pkh) in *.
  rewrite (inscribe_script_toks pkh ct data (Some (d :: dd)) Hct Hd He) in H. injection H as <-.
  rewrite inscription_toks_bytes. cbn [enriched_toks]. rewrite toks_bytes_cons. cbn [tok_bytes].
  unfold lock_e. change (Inscription.p2pkh_script pkh) with (p2pkh_lock pkh). f_equal.
  unfold inscription_suffix, ord_body, ord_header. cbn [app]. rewrite <- !app_assoc. cbn [app]. reflexivity.
Qed.

Section EnrichedAccepted.
Local Open Scope Z_scope.

(** the enriched inscription case, end to end: an input spending what Inscribe built - envelope AND OP_RETURN data -
    for the signing key's hash, signed by FillInput with a standard FORKID type, IS filled and, after Genesis, is
    accepted.  Nothing is assumed about content type, payload or the OP_RETURN items beyond Inscribe having
    accepted them. *)
Theorem inscription_enriched_input_signed_and_accepted : forall (orc : sig_oracle) (s : Sign.signer) (t : tx) (idx : N)
    (inp : input) (flags ht : N) (ct data d : bytes) (dd : list bytes) (lock h sig : bytes),
  let ht' := default_type ht in
  let pk := sg_pub s in
  let c := mkCtx (normalise_flags flags) true (Z.of_N (tx_lock t)) (Z.of_N (tx_version t)) (Z.of_N (in_seq inp)) false in
  wf_tx t -> (idx + 1 < two32)%N -> In ht' [0x41; 0x42; 0x43; 0xc1; 0xc2; 0xc3]%N ->
  nthN (tx_ins t) idx = Some inp ->
  inscribe_script (p2pkh_lock (hash160 pk)) ct data (Some (d :: dd)) = Some lock -> in_script inp = Some lock ->
  signer_ok s ->
  fst (calc_input_signature_hash t idx ht') = SOk h -> sg_sign s h = Some sig ->
  has_flag c F_FORKID = true -> after_genesis c = true ->
  (has_flag c F_CLEANSTACK = true -> has_flag c F_BIP16 = true) ->
  lenZ lock <= max_script_size c ->
  oracle_accepts_signer orc c s h ->
  exists t' inp', Sign.fill_input (Some s) t idx ht = SgOk t' /\ nthN (tx_ins t') idx = Some inp' /\
    in_script inp' = Some lock /\ in_sats inp' = in_sats inp /\ in_seq inp' = in_seq inp /\
    fst (engine_execute (mk_sigops orc (engine_tx t' idx (in_unlock inp') lock (in_sats inp')) idx)
           (mkExecInput (in_unlock inp') lock flags true true (Z.of_N (tx_lock t')) (Z.of_N (tx_version t'))
                        (Z.of_N (in_seq inp')))) = VOk.
Proof.
  intros orc s t idx inp flags ht ct data d dd lock h sig ht' pk c
         Hwf Hidx Hin Hn Hi Hsc Hok Hh Hsg Hfk Hag Hcs Hsz Horc.
  assert (Hht : (ht < 256)%N).
  { unfold ht', default_type, sh_all_forkid in Hin. cbn [In] in Hin. destruct (N.eqb_spec ht 0); lia. }
  assert (Hht' : (ht' < 256)%N) by (apply default_type_lt; exact Hht).
  assert (Hl20 : length (hash160 pk) = 20%nat) by apply hash160_length.
  pose proof (inscribe_script_enriched_ok _ _ _ _ _ Hi) as He.
  destruct (inscribe_script_some_lens _ _ _ _ _ Hi) as [Lct Ld].
  pose proof (fill_input_inscription_succeeds s t idx ht inp (hash160 pk) ct data (Some (d :: dd)) lock h sig
                Hok Hn Hl20 He Hi Hsc Hh Hsg) as Hfill.
  pose proof (inscribe_script_is_lock_e (hash160 pk) ct data d dd lock Hi) as Elock.
  fold ht' pk in Hfill.
  exists (with_unlock_at t idx (p2pkh_unlock sig ht' pk)), (set_unlock inp (p2pkh_unlock sig ht' pk)).
  split; [exact Hfill|]. split; [apply with_unlock_at_nth; exact Hn|].
  cbn [in_script in_sats in_seq in_unlock set_unlock]. split; [exact Hsc|]. split; [reflexivity|]. split; [reflexivity|].
  rewrite engine_tx_with_unlock_at.
  change (tx_lock (with_unlock_at t idx (p2pkh_unlock sig ht' pk))) with (tx_lock t).
  change (tx_version (with_unlock_at t idx (p2pkh_unlock sig ht' pk))) with (tx_version t).
  pose proof (signer_ok_pub_len s Hok) as Hpl. pose proof Hok as [(b0 & r & Hpk & Hrl & Hb0) Hsl].
  specialize (Hsl h sig Hsg). destruct Horc as [Hpub Hsigs]. destruct (Hsigs sig Hsg) as (Henc & Hps & Hver).
  assert (Em : max_elem c = max_script_size c) by (unfold max_elem, max_script_size; rewrite Hag; reflexivity).
  assert (Hb : lenZ (ord_body ct data) <= lenZ lock).
  { rewrite Elock. unfold lenZ, lock_e, inscription_suffix. rewrite !app_length. cbn [length]. rewrite app_length. lia. }
  destruct (ord_body_lens ct data) as [B1 B2].
  rewrite Elock in *.
  apply (signed_inscription_enriched_accepts orc t idx inp flags (in_sats inp) ht' sig pk (ord_body ct data)
           (toks_bytes (map push_tok (d :: dd))) (ord_bops ct data) h); try assumption.
  - rewrite app_length. cbn [length]. lia.
  - intros _ E. subst sig. cbn in Hsl. lia.
  - apply parse_ord_body; assumption.
  - apply ord_bops_push_only.
  - apply ord_bops_elem; [apply max_elem_ge | fold c; rewrite Em; lia | fold c; rewrite Em; lia].
  - apply hash_type_ok_forkid; assumption.
  - unfold pk. rewrite Hpk. apply pubkey_enc_ok_compressed; assumption.
  - left. fold c. rewrite Hfk. cbn [andb]. cbn [In] in Hin.
    repeat (destruct Hin as [<-|Hin]; [vm_compute; reflexivity|]). destruct Hin.
  - rewrite <- Hh.
    apply (engine_digest_is_signed_digest t idx inp _ _ (in_sats inp) ht'); try assumption; try reflexivity.
    apply p2pkh_unlock_wf; [lia|exact Hpl].
Qed.
End EnrichedAccepted.

Print Assumptions parse_ord_body.
Print Assumptions inscription_input_signed_and_accepted_closed.
Print Assumptions inscription_input_signed_and_accepted_genesis.
Print Assumptions signed_inscription_enriched_accepts.
Print Assumptions inscription_enriched_input_signed_and_accepted.


(** * non-vacuity: direct evaluation of the models on instances *)
Definition ex_ct : bytes := [x74; x65; x78; x74; x2f; x70; x6c; x61; x69; x6e].      (* "text/plain" *)
Definition ex_op_return : list bytes := [[x01; x02]; []; repeat_byte 80 x07].
Definition ex_lock_e : bytes :=
  match inscribe_script (p2pkh_lock (hash160 ex_pk)) ex_ct [x68; x69] (Some ex_op_return) with Some l => l | None => [] end.
Definition ex_inp_e : input := mkInput (repeat_byte 32 xab) 0 [] 4294967295 1 (Some ex_lock_e).
Definition ex_tx_e : tx := mkTx 1 [ex_inp_e] [mkOutput 900 [x6a]] 0.

(** every form EncodeParts can choose for the payload push: empty (OP_0), 1, 75 (direct), 76, 255 (PUSHDATA1),
    256, 65535 (PUSHDATA2), 65536 (PUSHDATA4) bytes - the parser returns [ord_bops], as [parse_ord_body] says *)
Example ord_body_parses_at_boundary_lengths :
  forallb (fun n => match parse_ops (length (ord_body ex_ct (repeat_byte n x41))) false (ord_body ex_ct (repeat_byte n x41)) 1 with
                    | Some ops => is_push_only ops && Nat.eqb (length ops) 5 &&
                                  match nth_error ops 4 with
                                  | Some p => bytes_eqb (p_data p) (repeat_byte n x41) &&
                                              (p_val p =? (if Nat.eqb n 0 then 0 else if Nat.leb n 75 then N.of_nat n
                                                           else if Nat.leb n 255 then 76 else if Nat.leb n 65535 then 77 else 78))%N
                                  | None => false end
                    | None => false end)
          [0; 1; 75; 76; 255; 256; 65535; 65536]%nat = true.
Proof. vm_compute. reflexivity. Qed.

(** the enriched output, signed through FillInput (type 0 -> ALL|FORKID) and run through the interpreter model:
    accepted after Genesis; before Genesis OP_RETURN is an error and the input is rejected *)
Example enriched_direct_evaluation :
  ex_lock_e <> [] /\
  match Sign.fill_input (Some ex_signer) ex_tx_e 0 0 with
  | SgOk t' =>
      match tx_ins t' with
      | i :: _ =>
          fst (engine_execute (mk_sigops ex_orc (engine_tx t' 0 (in_unlock i) ex_lock_e 1) 0)
                 (mkExecInput (in_unlock i) ex_lock_e FLAGS_FORKID_GENESIS true true 0 1 4294967295)) = VOk /\
          fst (engine_execute (mk_sigops ex_orc (engine_tx t' 0 (in_unlock i) ex_lock_e 1) 0)
                 (mkExecInput (in_unlock i) ex_lock_e (2 ^ 11) true true 0 1 4294967295)) = VErr
      | [] => False
      end
  | _ => False
  end.
Proof. (split; [vm_compute; discriminate|]). vm_compute. split; reflexivity. Qed.

(** the hypotheses of [inscription_enriched_input_signed_and_accepted] hold on this instance *)
Example inscription_enriched_hypotheses_satisfiable :
  let c := mkCtx (normalise_flags FLAGS_FORKID_GENESIS) true 0 1 4294967295 false in
  wf_tx ex_tx_e /\ nthN (tx_ins ex_tx_e) 0 = Some ex_inp_e /\
  inscribe_script (p2pkh_lock (hash160 (sg_pub ex_signer))) ex_ct [x68; x69] (Some ex_op_return) = Some ex_lock_e /\
  in_script ex_inp_e = Some ex_lock_e /\ signer_ok ex_signer /\
  (exists h, fst (calc_input_signature_hash ex_tx_e 0 65) = SOk h /\ sg_sign ex_signer h = Some ex_sig /\
             oracle_accepts_signer ex_orc c ex_signer h) /\
  has_flag c F_FORKID = true /\ after_genesis c = true /\
  (has_flag c F_CLEANSTACK = true -> has_flag c F_BIP16 = true) /\ (lenZ ex_lock_e <= max_script_size c)%Z.
Proof.
  cbv zeta. split.
  { unfold wf_tx, wf_input, wf_output, wf_script, ex_tx_e, ex_inp_e.
    cbn [tx_version tx_lock tx_ins tx_outs length in_txid in_vout in_seq in_sats in_unlock in_script out_sats out_script].
    (repeat match goal with
      | |- _ /\ _ => split
      | |- Forall _ _ => constructor
      | |- True => exact I
      | |- _ => vm_compute; reflexivity
      end). }
  (split; [reflexivity|]). (split; [vm_compute; reflexivity|]). (split; [reflexivity|]). split; [exact ex_signer_ok|].
  split.
  { (destruct (fst (calc_input_signature_hash ex_tx_e 0 65)) eqn:E; try (vm_compute in E; discriminate)).
    match goal with E : _ = SOk ?h |- _ => exists h end. (split; [reflexivity|]). (split; [reflexivity|]). (split; [reflexivity|]).
    intros sg Hs. injection Hs as <-. (repeat split; vm_compute; reflexivity). }
  (split; [vm_compute; reflexivity|]). (split; [vm_compute; reflexivity|]).
  (split; [intros H; vm_compute in H; discriminate|]). vm_compute. discriminate.
Qed.

(** * the same for an input that carries the unlocker's answer on the transaction it sits in (the form in which
    the acceptance theorems apply to the ordinals flows, C20): an input spending what Inscribe built - with or
    without OP_RETURN data - self-signed with a standard FORKID type, is accepted after Genesis *)
Lemma inscribe_script_empty_enriched prefix ct data :
  inscribe_script prefix ct data (Some []) = inscribe_script prefix ct data None.
Proof.
  unfold inscribe_script. destruct (append_push_data _ ordinals_prefix); [|reflexivity].
  destruct (append_push_data _ ct); [|reflexivity]. destruct (append_push_data _ data); reflexivity.
Qed.

Section SelfInscribed.
Local Open Scope Z_scope.

Theorem self_signed_inscribed_input_accepted : forall (orc : sig_oracle) (s : Sign.signer) (A : tx) (idx : N) (inp : input)
    (flags ht : N) (ct data : bytes) (enriched : option (list bytes)) (lock : bytes),
  let ht' := default_type ht in
  let pk := sg_pub s in
  let c := mkCtx (normalise_flags flags) true (Z.of_N (tx_lock A)) (Z.of_N (tx_version A)) (Z.of_N (in_seq inp)) false in
  wf_tx A -> (idx + 1 < two32)%N -> In ht' [0x41; 0x42; 0x43; 0xc1; 0xc2; 0xc3]%N ->
  nthN (tx_ins A) idx = Some inp ->
  inscribe_script (p2pkh_lock (hash160 pk)) ct data enriched = Some lock -> in_script inp = Some lock ->
  signer_ok s ->
  unlocking_script s A idx ht = SgOk (in_unlock inp) ->
  has_flag c F_FORKID = true -> after_genesis c = true ->
  (has_flag c F_CLEANSTACK = true -> has_flag c F_BIP16 = true) ->
  lenZ lock <= max_script_size c ->
  (forall h, fst (calc_input_signature_hash A idx ht') = SOk h -> oracle_accepts_signer orc c s h) ->
  fst (engine_execute (mk_sigops orc (engine_tx A idx (in_unlock inp) lock (in_sats inp)) idx)
         (mkExecInput (in_unlock inp) lock flags true true (Z.of_N (tx_lock A)) (Z.of_N (tx_version A))
                      (Z.of_N (in_seq inp)))) = VOk.
Proof.
  intros orc s A idx inp flags ht ct data enriched lock ht' pk c Hwf Hidx Hin Hn Hi Hsc Hok Hu Hfk Hag Hcs Hsz Horc.
  assert (Hht : (ht < 256)%N).
  { unfold ht', default_type, sh_all_forkid in Hin. cbn [In] in Hin. destruct (N.eqb_spec ht 0); lia. }
  destruct (self_signed_is_signature_over_own_digest s A idx ht inp Hht Hok Hu) as (sig & h & Hh & Hsg & _).
  fold ht' in Hh.
  assert (Hself : Sign.fill_input (Some s) A idx ht = SgOk A).
  { apply (fill_input_self s A idx ht inp); [rewrite <- nthN_nth_error; exact Hn|exact Hu]. }
  assert (K : exists t' inp', Sign.fill_input (Some s) A idx ht = SgOk t' /\ nthN (tx_ins t') idx = Some inp' /\
              in_script inp' = Some lock /\ in_sats inp' = in_sats inp /\ in_seq inp' = in_seq inp /\
              fst (engine_execute (mk_sigops orc (engine_tx t' idx (in_unlock inp') lock (in_sats inp')) idx)
                     (mkExecInput (in_unlock inp') lock flags true true (Z.of_N (tx_lock t')) (Z.of_N (tx_version t'))
                                  (Z.of_N (in_seq inp')))) = VOk).
  { destruct enriched as [[|d dd]|].
    - rewrite inscribe_script_empty_enriched in Hi.
      apply (inscription_input_signed_and_accepted_genesis orc s A idx inp flags ht ct data lock h sig); try assumption.
      apply Horc; exact Hh.
    - apply (inscription_enriched_input_signed_and_accepted orc s A idx inp flags ht ct data d dd lock h sig); try assumption.
      apply Horc; exact Hh.
    - apply (inscription_input_signed_and_accepted_genesis orc s A idx inp flags ht ct data lock h sig); try assumption.
      apply Horc; exact Hh. }
  destruct K as (t' & inp' & Hf & Hn' & _ & _ & _ & Hacc).
  rewrite Hself in Hf. injection Hf as <-. rewrite Hn in Hn'. injection Hn' as <-. exact Hacc.
Qed.
End SelfInscribed.
Print Assumptions self_signed_inscribed_input_accepted.
