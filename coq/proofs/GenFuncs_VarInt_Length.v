(** VarInt.Length (varint.go), as printed from the Go source into gen/Funcs.v, is [varint_len] of lib/VarInt.v. *)
From Coq Require Import List ZArith NArith Bool Lia ZifyN ZifyNat ZifyBool.
From GoBT Require Import lib.Bytes lib.VarInt lib.GoSem gen.Funcs proofs.GenFuncsTac.
Ltac Zify.zify_post_hook ::= Z.div_mod_to_equations.
Local Open Scope Z_scope.

Lemma VarInt_Length_is_model (v : N) : (v < 18446744073709551616)%N ->
  VarInt_Length (Z.of_N v) = Val (Z.of_N (varint_len v)).
Proof.
  intros Hv. unfold VarInt_Length, varint_len, two16, two32, go_conv, go_wrap.
  go_split; try reflexivity; exfalso; lia.
Qed.
