(** Inscribe on its argument object (model/InscriptionArgs.v): every way Go has of saying "nothing there" - a nil
    Data, a nil EnrichedArgs, a nil or empty OpReturnData, a nil element of it - builds the script of the
    corresponding empty value, and the round trip of proofs/InscriptionProofs.v holds for all of them. *)
From Coq Require Import List NArith Lia Bool.
From Coq Require Import Strings.Byte.
From GoBT Require Import lib.Bytes model.Push model.Inscription model.InscriptionArgs proofs.InscriptionProofs.
Import ListNotations.
Local Open Scope N_scope.

Lemma encode_parts_go_norm : forall dd, encode_parts_go dd = encode_parts (map slice_bytes dd).
Proof.
  induction dd as [|p r IH]; [reflexivity|].
  cbn [encode_parts_go encode_parts map]. rewrite IH. reflexivity.
Qed.

(** the script with a tail is the script without it followed by OP_RETURN and the pushes *)
Lemma inscribe_script_tail prefix ct data e :
  inscribe_script prefix ct data e =
  match inscribe_script prefix ct data None with
  | None => None
  | Some s => match e with
              | Some ((_ :: _) as dd) =>
                  match encode_parts dd with Some p => Some (s ++ OpRETURN :: p) | None => None end
              | _ => Some s
              end
  end.
Proof.
  unfold inscribe_script.
  destruct (append_push_data (append_opcodes_ign prefix [OpFALSE; OpIF]) ordinals_prefix) as [s1|]; [|reflexivity].
  destruct (append_push_data (append_opcodes_ign s1 [Op1]) ct) as [s2|]; [|reflexivity].
  destruct (append_push_data (append_opcodes_ign s2 [Op0]) data) as [s3|]; [|reflexivity].
  destruct e as [[|d dd]|]; try reflexivity.
  unfold append_push_data_array. rewrite append_ign_r.
  destruct (encode_parts (d :: dd)) as [p|]; [|reflexivity].
  rewrite <- app_assoc. reflexivity.
Qed.

Theorem inscribe_args_script_norm : forall a,
  inscribe_args_script a =
  inscribe_script (ia_prefix a) (ia_ct a) (slice_bytes (ia_data a)) (norm_enriched (ia_enriched a)).
Proof.
  intros [prefix data ct e]. unfold inscribe_args_script. cbn [ia_prefix ia_ct ia_data ia_enriched].
  rewrite (inscribe_script_tail prefix ct (slice_bytes data) (norm_enriched e)).
  destruct (inscribe_script prefix ct (slice_bytes data) None) as [s|]; [|reflexivity].
  destruct e as [[[|d dd]|]|]; cbn [norm_enriched enriched_tail map]; try (rewrite app_nil_r; reflexivity).
  rewrite encode_parts_go_norm. cbn [map].
  destruct (encode_parts (slice_bytes d :: map slice_bytes dd)); reflexivity.
Qed.

(** nil and empty are the same argument *)
Theorem inscribe_nil_data_is_empty_data : forall prefix ct e,
  inscribe_args_script (mkInscArgs prefix None ct e) = inscribe_args_script (mkInscArgs prefix (Some []) ct e).
Proof. reflexivity. Qed.

Theorem inscribe_nil_part_is_empty_part : forall prefix data ct pre post,
  inscribe_args_script (mkInscArgs prefix data ct (Some (Some (pre ++ None :: post)))) =
  inscribe_args_script (mkInscArgs prefix data ct (Some (Some (pre ++ Some [] :: post)))).
Proof.
  intros. rewrite !inscribe_args_script_norm. cbn [ia_prefix ia_ct ia_data ia_enriched norm_enriched].
  rewrite !map_app. reflexivity.
Qed.

Theorem inscribe_no_tail_three_ways : forall prefix data ct,
  inscribe_args_script (mkInscArgs prefix data ct None) = inscribe_args_script (mkInscArgs prefix data ct (Some None)) /\
  inscribe_args_script (mkInscArgs prefix data ct None) = inscribe_args_script (mkInscArgs prefix data ct (Some (Some []))).
Proof. split; reflexivity. Qed.

(** the round trip on the argument object: whatever way "no data" / "no tail" is written *)
Theorem inscription_roundtrip_args : forall h20 ct (data : go_slice) (e : go_enriched),
  length h20 = 20%nat -> lenN ct < 4294967296 -> lenN (slice_bytes data) < 4294967296 ->
  enriched_ok (norm_enriched e) ->
  exists s, inscribe_args_script (mkInscArgs (p2pkh_script h20) data ct e) = Some s /\
            parse_inscription s = PIOk ct (slice_bytes data) (p2pkh_script h20).
Proof.
  intros h20 ct data e H20 Hct Hd He. rewrite inscribe_args_script_norm.
  cbn [ia_prefix ia_ct ia_data ia_enriched].
  exact (inscription_roundtrip h20 ct (slice_bytes data) (norm_enriched e) H20 Hct Hd He).
Qed.

(** non-vacuity / the instance the name is about: Data left unset, content type "text/plain" *)
Example roundtrip_nil_data_example :
  let ct := [x74; x65; x78; x74; x2f; x70; x6c; x61; x69; x6e] in
  exists s, inscribe_args_script (mkInscArgs (p2pkh_script (repeat x11 20)) None ct (Some (Some [None; Some [x42]]))) = Some s /\
            parse_inscription s = PIOk ct [] (p2pkh_script (repeat x11 20)) /\
            lenN s = 25 + 7 + 11 + 1 + 1 + 1 + 1 + 1 + 2.
Proof. eexists. split; [vm_compute; reflexivity|]. split; vm_compute; reflexivity. Qed.
