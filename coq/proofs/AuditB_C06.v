(** Audit B, C06: compositions of the existing lemmas about the signature opcodes.
    - the VERIFY variants are the plain operations followed by OP_VERIFY;
    - OP_CHECKMULTISIG end to end: on a well-shaped stack the pushed boolean is the monotone matching. *)
From Coq Require Import List NArith ZArith Lia Bool.
From Coq Require Import Strings.Byte.
From GoBT Require Import lib.Bytes lib.VarInt model.Tx model.SigHash model.SigHashWire model.ScriptNum model.Interp model.CheckSig
  spec.DigestSpec spec.MultisigSpec proofs.InterpTotal proofs.CheckSigProofs proofs.DerProofs proofs.MultisigProofs
  proofs.SigOpProofs.
Import ListNotations.

Lemma finish_verify_idem_false o : finish_verify false o = o.
Proof. reflexivity. Qed.

Theorem checksig_verify_variant : forall orc t i c s idx,
  checksig_run orc t i c s idx true = option_map (finish_verify true) (checksig_run orc t i c s idx false).
Proof.
  intros orc t i c s idx. unfold checksig_run. destruct (ds s) as [|pk [|full r]]; try reflexivity.
  match goal with |- option_map _ ?X = option_map _ (option_map _ ?X) => destruct X as [o|] end; reflexivity.
Qed.

Theorem checkmultisig_verify_variant : forall orc t i c s idx,
  checkmultisig_run orc t i c s idx true = option_map (finish_verify true) (checkmultisig_run orc t i c s idx false).
Proof.
  intros orc t i c s idx. unfold checkmultisig_run.
  destruct (ds s) as [|nk d1]; [reflexivity|].
  destruct (pop_count c nk) as [nkz|]; [|reflexivity]. cbv zeta.
  destruct (to_int32 nkz <? 0)%Z; [reflexivity|].
  destruct (max_pubkeys c <? to_int32 nkz)%Z; [reflexivity|].
  destruct (max_ops c <? nops s + to_int32 nkz)%Z; [reflexivity|].
  destruct (pop_n (to_int32 nkz) d1) as [[pks d2]|]; [|reflexivity].
  destruct d2 as [|ns d3]; [reflexivity|].
  destruct (pop_count c ns) as [nsz|]; [|reflexivity].
  destruct (to_int32 nsz <? 0)%Z; [reflexivity|].
  destruct (to_int32 nkz <? to_int32 nsz)%Z; [reflexivity|].
  destruct (pop_n (to_int32 nsz) d3) as [[sigs d4]|]; [|reflexivity].
  destruct d4 as [|dummy d5]; [reflexivity|].
  destruct (has_flag c F_STRICTMULTISIG && negb (Nat.eqb (length dummy) 0))%bool; [reflexivity|].
  destruct (ms_loop _ _ _ _ _ _ _ _ _ _ _ _ _) as [b| | | | |]; try reflexivity.
  destruct (negb b && has_flag c F_NULLFAIL && existsb _ sigs)%bool; reflexivity.
Qed.

Theorem checkmultisig_accepts_iff_matching : forall orc t i c s idx nk pks ns sigs dummy rest a b,
  oracle_total orc ->
  ds s = nk :: pks ++ ns :: sigs ++ dummy :: rest ->
  pop_count c nk = Some a -> to_int32 a = Z.of_nat (length pks) ->
  pop_count c ns = Some b -> to_int32 b = Z.of_nat (length sigs) ->
  (length sigs <= length pks)%nat -> (Z.of_nat (length pks) <= max_pubkeys c)%Z ->
  (nops s + Z.of_nat (length pks) <= max_ops c)%Z ->
  (has_flag c F_STRICTMULTISIG = true -> dummy = []) ->
  Forall (key_well_encoded c) pks ->
  Forall (sig_well_encoded t i c (multisig_code_ops c s sigs)) sigs ->
  exists ok,
    (ok = true <-> monotone_matching (fun sg k => pair_ok orc t i c (multisig_code_ops c s sigs) sg k = true) sigs pks) /\
    checkmultisig_run orc t i c s idx false =
      if negb ok && has_flag c F_NULLFAIL && existsb (fun sg => Nat.ltb 0 (length sg)) sigs then Some OErr
      else Some (push_bool (set_nops (set_ds s rest) (nops s + Z.of_nat (length pks))) ok).
Proof.
  intros orc t i c s idx nk pks ns sigs dummy rest a b Horc Hds Ha Ha' Hb Hb' Hle Hmax Hops Hdum Hk Hs.
  destruct (ms_loop_decides orc t i c (multisig_code_ops c s sigs) pks sigs Horc Hk Hs) as (ok & Hloop & Hiff).
  exists ok. split; [exact Hiff|].
  rewrite (multisig_eval orc t i c s idx false nk pks ns sigs dummy rest a b Hds Ha Ha' Hb Hb' Hle Hmax Hops).
  assert (Hd : (has_flag c F_STRICTMULTISIG && negb (Nat.eqb (length dummy) 0))%bool = false).
  { destruct (has_flag c F_STRICTMULTISIG); [|reflexivity]. rewrite (Hdum eq_refl). reflexivity. }
  rewrite Hd. rewrite <- ms_loop_initial, Hloop. reflexivity.
Qed.

(** ** Along a run, the script code is cut from the script being run: [cur] is that script and the code start
    [last_sep] never lies beyond the opcode being executed *)
Definition code_inv (ops_all : list pop) (idx : nat) (s : st) : Prop :=
  cur s = ops_all /\ (last_sep s <= idx)%nat.

Lemma code_inv_init : forall ops d, code_inv ops 0 (set_ds (init_st ops) d).
Proof. intros ops d. split; [reflexivity|apply le_n]. Qed.

Lemma code_inv_shift : forall s next, code_inv next 0 (shift_script s next).
Proof. intros s next. split; [reflexivity|apply le_n]. Qed.

Theorem code_inv_step : forall orc t i c ops_all p idx s s',
  code_inv ops_all idx s ->
  execute_opcode (mk_sigops orc t i) c p idx s = OOk s' \/ execute_opcode (mk_sigops orc t i) c p idx s = OReturn s' ->
  code_inv ops_all (S idx) s'.
Proof.
  intros orc t i c ops_all p idx s s' [Hc Hl] Hex.
  destruct (step_code_start orc t i c p idx s s' Hex) as [Hc' Hl'].
  split; [rewrite Hc'; exact Hc|]. rewrite Hl'.
  destruct (_ && _ && _)%bool; [apply le_n|]. apply le_S. exact Hl.
Qed.

Theorem run_ops_code_inv : forall orc t i c ops_all ops idx s acc,
  skipn idx ops_all = ops -> (idx <= length ops_all)%nat -> code_inv ops_all idx s ->
  match fst (run_ops (mk_sigops orc t i) c ops idx s acc) with
  | SEnd s' | SReturn s' => cur s' = ops_all /\ (last_sep s' <= length ops_all)%nat
  | SErr | SPanic => True
  end.
Proof.
  intros orc t i c ops_all ops. induction ops as [|p rest IH]; intros idx s acc Hsk Hle Hinv.
  - cbn [run_ops fst]. destruct Hinv as [Hc Hl]. split; [exact Hc|]. eapply Nat.le_trans; eassumption.
  - assert (Hlt : (idx < length ops_all)%nat).
    { destruct (Nat.lt_ge_cases idx (length ops_all)) as [H|H]; [exact H|].
      rewrite skipn_all2 in Hsk by exact H. discriminate Hsk. }
    assert (Hsk' : skipn (S idx) ops_all = rest).
    { clear -Hsk. revert ops_all Hsk. induction idx as [|n IHn]; intros [|a l] Hsk; cbn [skipn] in *; try discriminate.
      - injection Hsk as _ <-. reflexivity.
      - apply IHn. exact Hsk. }
    cbn [run_ops].
    destruct (execute_opcode (mk_sigops orc t i) c p idx s) as [s'|s'| |] eqn:Ee; cbn [fst]; try exact I.
    + pose proof (code_inv_step orc t i c ops_all p idx s s' Hinv (or_introl Ee)) as Hinv'.
      destruct (max_stack c <? lenZ (ds s') + lenZ (als s'))%Z; [exact I|].
      destruct rest as [|p2 rest2].
      * cbn [fst]. destruct Hinv' as [Hc Hl]. split; [exact Hc|]. eapply Nat.le_trans; [exact Hl|exact Hlt].
      * apply IH; [exact Hsk'|exact Hlt|exact Hinv'].
    + pose proof (code_inv_step orc t i c ops_all p idx s s' Hinv (or_intror Ee)) as [Hc Hl].
      split; [exact Hc|]. eapply Nat.le_trans; [exact Hl|exact Hlt].
Qed.
