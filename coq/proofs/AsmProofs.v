(** Proofs about model/Asm.v: hex and JSON round trips of every script, the two GENERATED name
    tables are inverse to each other (256-case computation re-checked on every run), and the
    assembly round trip on its stated domain. *)
From Coq Require Import List NArith Lia ZifyN ZifyNat ZifyBool ZArith Bool String Ascii.
From Coq Require Import Strings.Byte.
From GoBT Require Import lib.Bytes lib.Hex lib.Checked gen.OpNames model.Push model.Asm spec.PushSpec proofs.PushProofs.
Import ListNotations.
Ltac Zify.zify_post_hook ::= Z.div_mod_to_equations.
Local Open Scope N_scope.
Local Open Scope bool_scope.

(** ** hex *)
Theorem hex_roundtrip s : new_from_hex (script_string s) = Ok s.
Proof. unfold new_from_hex, script_string. rewrite hexdecode_hex_of. reflexivity. Qed.

(** ** JSON *)
Definition not_dq (c : ascii) : bool := negb (Ascii.eqb c dq).

Lemma hexdigit_not_dq c : is_hexdigit c = true -> not_dq c = true.
Proof.
  unfold not_dq. destruct (Ascii.eqb c dq) eqn:E; [|reflexivity].
  apply Ascii.eqb_eq in E. subst c. discriminate.
Qed.

Lemma string_forall_impl (p q : ascii -> bool) s : (forall c, p c = true -> q c = true) ->
  string_forall p s = true -> string_forall q s = true.
Proof.
  intros H. induction s as [|c r IH]; [reflexivity|]. cbn [string_forall].
  intros E. apply andb_true_iff in E as [E1 E2]. rewrite (H _ E1), (IH E2). reflexivity.
Qed.

Lemma sapp_assoc (a b c : string) : ((a ++ b) ++ c = a ++ (b ++ c))%string.
Proof. induction a as [|x r IH]; [reflexivity|]. cbn [String.append]. rewrite IH. reflexivity. Qed.
Lemma sapp_nil_r (a : string) : (a ++ EmptyString = a)%string.
Proof. induction a as [|x r IH]; [reflexivity|]. cbn [String.append]. rewrite IH. reflexivity. Qed.

Lemma rev_string_spec s acc : rev_string s acc = (rev_string s EmptyString ++ acc)%string.
Proof.
  revert acc. induction s as [|c r IH]; intros acc; [reflexivity|].
  cbn [rev_string]. rewrite IH, (IH (String c EmptyString)).
  rewrite sapp_assoc. reflexivity.
Qed.
Lemma rev_string_app a b : rev_string (a ++ b)%string EmptyString = (rev_string b EmptyString ++ rev_string a EmptyString)%string.
Proof.
  induction a as [|c r IH]; cbn [String.append rev_string].
  - rewrite sapp_nil_r. reflexivity.
  - rewrite rev_string_spec, IH, (rev_string_spec r (String c EmptyString)).
    rewrite sapp_assoc. reflexivity.
Qed.
Lemma rev_string_involutive s : rev_string (rev_string s EmptyString) EmptyString = s.
Proof.
  induction s as [|c r IH]; [reflexivity|]. cbn [rev_string].
  rewrite (rev_string_spec r (String c EmptyString)), rev_string_app, IH. reflexivity.
Qed.
Lemma rev_string_forall p s : string_forall p s = true -> string_forall p (rev_string s EmptyString) = true.
Proof.
  assert (forall a b, string_forall p a = true -> string_forall p b = true -> string_forall p (a ++ b)%string = true) as App.
  { induction a as [|c r IH]; intros b Ha Hb; [exact Hb|]. cbn [String.append string_forall] in *.
    apply andb_true_iff in Ha as [H1 H2]. rewrite H1, IH; auto. }
  induction s as [|c r IH]; [reflexivity|]. cbn [rev_string string_forall]. intros E.
  apply andb_true_iff in E as [E1 E2]. rewrite rev_string_spec. apply App; [apply IH; exact E2|].
  cbn [string_forall]. rewrite E1. reflexivity.
Qed.

Lemma trim_left_nodq s t : string_forall not_dq s = true -> s <> EmptyString \/ t = EmptyString ->
  trim_left dq (s ++ t)%string = match s with EmptyString => EmptyString | _ => (s ++ t)%string end.
Proof.
  destruct s as [|c r]; cbn [String.append string_forall].
  - intros _ [H| ->]; [congruence|reflexivity].
  - intros E _. apply andb_true_iff in E as [E1 _]. cbn [trim_left]. unfold not_dq in E1.
    destruct (Ascii.eqb c dq); [discriminate|reflexivity].
Qed.

(** trimming the quotes of  "h"  gives h back when h contains no quote *)
Lemma trim_quoted h : string_forall not_dq h = true ->
  trim dq (String dq (h ++ String dq EmptyString)) = h.
Proof.
  intros Hh. unfold trim. cbn [trim_left]. rewrite Ascii.eqb_refl.
  destruct h as [|c r].
  - cbn [String.append trim_left]. rewrite Ascii.eqb_refl. reflexivity.
  - assert (trim_left dq (String c r ++ String dq EmptyString) = (String c r ++ String dq EmptyString)%string) as E1.
    { cbn [String.append string_forall] in *. apply andb_true_iff in Hh as [H1 _]. cbn [trim_left].
      unfold not_dq in H1. destruct (Ascii.eqb c dq); [discriminate|reflexivity]. }
    rewrite E1. rewrite rev_string_app.
    pose proof (rev_string_forall not_dq _ Hh) as Hr.
    pose proof (rev_string_involutive (String c r)) as Hinv.
    remember (rev_string (String c r) EmptyString) as R eqn:ER.
    change (rev_string (String dq EmptyString) EmptyString) with (String dq EmptyString).
    cbn [String.append trim_left]. rewrite Ascii.eqb_refl.
    destruct R as [|x y].
    + discriminate Hinv.
    + cbn [string_forall] in Hr. apply andb_true_iff in Hr as [H1 _]. cbn [trim_left]. unfold not_dq in H1.
      destruct (Ascii.eqb x dq); [discriminate|]. exact Hinv.
Qed.

Theorem json_roundtrip s : unmarshal_json (marshal_json s) = Ok s.
Proof.
  unfold unmarshal_json, marshal_json. rewrite trim_quoted.
  - apply hex_roundtrip.
  - eapply string_forall_impl; [apply hexdigit_not_dq|apply hex_of_all_hex].
Qed.

(** ** the generated name tables *)
Definition all_bytes : list N := map N.of_nat (seq 0 256).
Lemma in_all_bytes b : b < 256 -> In b all_bytes.
Proof. intros H. unfold all_bytes. rewrite <- (N2Nat.id b). apply in_map. apply in_seq. lia. Qed.

Definition no_sp (c : ascii) : bool := negb (Ascii.eqb c sp).

(** opCodeStrings[opCodeValues[b]] = b for every byte; no name contains a space *)
Lemma tables_inverse_ok :
  forallb (fun b => match op_value (op_name b) with Some v => v =? b | None => false end &&
                    string_forall no_sp (op_name b)) all_bytes = true.
Proof. vm_compute. reflexivity. Qed.

(** no key of opCodeStrings consists of hex digits only (so a hex push is never read as a name) *)
Lemma keys_not_hex_ok : forallb (fun e => negb (string_forall is_hexdigit (fst e))) op_code_strings = true.
Proof. vm_compute. reflexivity. Qed.

Theorem opname_tables_inverse b : b < 256 -> op_value (op_name b) = Some b.
Proof.
  intros H. pose proof tables_inverse_ok as T. rewrite forallb_forall in T.
  specialize (T b (in_all_bytes b H)). apply andb_true_iff in T as [T _].
  destruct (op_value (op_name b)) as [v|]; [|discriminate]. f_equal. lia.
Qed.
Lemma op_name_no_space b : b < 256 -> string_forall no_sp (op_name b) = true.
Proof.
  intros H. pose proof tables_inverse_ok as T. rewrite forallb_forall in T.
  specialize (T b (in_all_bytes b H)). apply andb_true_iff in T as [_ T]. exact T.
Qed.
Lemma op_value_hex s : string_forall is_hexdigit s = true -> op_value s = None.
Proof.
  intros Hs. unfold op_value.
  destruct (find (fun e => String.eqb (fst e) s) op_code_strings) as [[k v]|] eqn:E; [|reflexivity].
  apply find_some in E as [Hin He]. cbn [fst] in He. apply String.eqb_eq in He. subst k.
  pose proof keys_not_hex_ok as T. rewrite forallb_forall in T. specialize (T _ Hin). cbn [fst] in T.
  rewrite Hs in T. discriminate.
Qed.
Lemma op_name_nonempty b : b < 256 -> op_name b <> EmptyString.
Proof.
  intros H E. pose proof (opname_tables_inverse b H) as I. rewrite E in I.
  rewrite op_value_hex in I by reflexivity. discriminate.
Qed.

(** ** assembly *)
Fixpoint sp_join (rs : list string) : string :=
  match rs with [] => EmptyString | r :: t => String sp (r ++ sp_join t) end.

Lemma split_on_join r rs : string_forall no_sp r = true -> Forall (fun x => string_forall no_sp x = true) rs ->
  split_on sp (r ++ sp_join rs) = r :: rs.
Proof.
  intros Hr Hrs. revert r Hr. induction Hrs as [|r2 rs' H2 Hrs IH]; intros r Hr.
  - cbn [sp_join]. induction r as [|c r' IHr]; [reflexivity|].
    cbn [String.append split_on string_forall] in *. apply andb_true_iff in Hr as [H1 H2].
    unfold no_sp in H1. destruct (Ascii.eqb c sp); [discriminate|]. rewrite (IHr H2). reflexivity.
  - induction r as [|c r' IHr].
    + cbn [String.append sp_join split_on]. rewrite Ascii.eqb_refl. rewrite IH by exact H2. reflexivity.
    + cbn [String.append split_on string_forall] in *. apply andb_true_iff in Hr as [H1 H3].
      unfold no_sp in H1. destruct (Ascii.eqb c sp); [discriminate|]. rewrite (IHr H3). reflexivity.
Qed.

Lemma hex_no_space d : string_forall no_sp (hex_of d) = true.
Proof.
  eapply string_forall_impl; [|apply hex_of_all_hex].
  intros c Hc. unfold no_sp. destruct (Ascii.eqb c sp) eqn:E; [|reflexivity].
  apply Ascii.eqb_eq in E. subst c. discriminate.
Qed.

Lemma shortest_is_prefix hdr d : 1 <= lenN d -> shortest_header hdr (lenN d) -> push_data_prefix d = Some hdr.
Proof.
  intros Hpos [Hh Hmin].
  assert (lenN d < 4294967296) as Hlt by (inversion Hh; lia).
  destruct (push_prefix_some d Hlt) as (pfx & Ep). rewrite Ep. f_equal.
  destruct (push_prefix_shortest d pfx Ep Hpos) as [Hp Hpmin].
  pose proof (Hmin _ Hp) as L1. pose proof (Hpmin _ Hh) as L2.
  inversion Hh as [n Hn E1 E2|n Hn E1 E2|n Hn E1 E2|n Hn E1 E2]; subst n;
  inversion Hp as [m Hm E3 E4|m Hm E3 E4|m Hm E3 E4|m Hm E3 E4]; subst m;
  rewrite <- E1, <- E3 in L1, L2; cbn [List.length] in L1, L2; rewrite ?le_enc_length in L1, L2; try lia; reflexivity.
Qed.

(** what one token contributes: to DecodeParts, to the ASM text, and back through NewFromASM *)
Lemma asm_token_facts tok : asm_token tok ->
  exists part r,
    (forall rest, decode_parts (tok ++ rest) = dcons part (decode_parts rest)) /\
    asm_part false part = Ok r /\ string_forall no_sp r = true /\ r <> EmptyString /\
    (forall secs acc, from_asm_sections (r :: secs) acc = from_asm_sections secs (acc ++ tok)).
Proof.
  intros H. destruct H as [b Hb|hdr d Hd Hs].
  - pose proof (b2n_lt b) as Hlt. exists [b], (op_name (b2n b)). split; [|split; [|split; [|split]]].
    + intros rest. cbn [app]. apply decode_parts_op. exact Hb.
    + reflexivity.
    + apply op_name_no_space. exact Hlt.
    + apply op_name_nonempty. exact Hlt.
    + intros secs acc. cbn [from_asm_sections]. rewrite opname_tables_inverse by exact Hlt.
      unfold append_opcode. unfold non_push in Hb.
      replace ((1 <=? b2n b) && (b2n b <=? 78)) with false by lia. rewrite n2b_b2n. reflexivity.
  - exists d, (hex_of d). split; [|split; [|split; [|split]]].
    + intros rest. rewrite <- app_assoc. apply decode_parts_push. apply Hs.
    + unfold asm_part. replace (lenN d =? 1) with false by lia. reflexivity.
    + apply hex_no_space.
    + destruct d as [|x y]; [cbn in Hd; lia|]. discriminate.
    + intros secs acc. cbn [from_asm_sections]. rewrite op_value_hex by apply hex_of_all_hex.
      rewrite hexdecode_hex_of. cbn [encode_parts]. rewrite (shortest_is_prefix hdr d) by (auto; lia).
      rewrite app_nil_r. reflexivity.
Qed.

Lemma asm_tokens_facts s : asm_tokens s ->
  exists parts rs,
    decode_parts s = DOk parts /\ asm_parts false parts = Ok (sp_join rs) /\
    Forall (fun x => string_forall no_sp x = true) rs /\ Forall (fun x => x <> EmptyString) rs /\
    (s = [] <-> rs = []) /\
    (forall acc, from_asm_sections rs acc = Ok (acc ++ s)).
Proof.
  induction 1 as [|tok rest Ht Hr IH].
  - exists [], []. split; [reflexivity|]. split; [reflexivity|]. split; [constructor|]. split; [constructor|].
    split; [tauto|]. intros acc. cbn. rewrite app_nil_r. reflexivity.
  - destruct IH as (parts & rs & D & A & F1 & F2 & Fe & R).
    destruct (asm_token_facts tok Ht) as (part & r & Dt & At & Ft & Fn & Rt).
    exists (part :: parts), (r :: rs). split; [|split; [|split; [|split; [|split; [split|]]]]].
    + rewrite Dt, D. reflexivity.
    + cbn [asm_parts sp_join]. rewrite At. cbn [obind]. rewrite A. reflexivity.
    + constructor; assumption.
    + constructor; assumption.
    + intros E. exfalso. destruct Ht as [b|hdr d Hd [Hh _]]; [discriminate|].
      destruct (push_header_nonempty _ _ Hh) as (x & y & ->). discriminate.
    + discriminate.
    + intros acc. rewrite Rt, R. rewrite app_assoc. reflexivity.
Qed.

Lemma not_data_flag s : is_data_script s = false -> s <> [] ->
  (if 1 <? lenN s
   then chk (idx s 0) (fun s0 => if b2n s0 =? 106 then Ok true
                                 else if b2n s0 =? 0 then chk (idx s 1) (fun s1 => Ok (b2n s1 =? 106)) else Ok false)
   else Ok false) = Ok false.
Proof.
  intros Hd Hne. destruct s as [|b0 [|b1 r]]; [congruence| |].
  - reflexivity.
  - rewrite !lenN_cons. replace (1 <? 1 + (1 + lenN r)) with true by lia.
    rewrite idx_0. cbn [chk].
    destruct (b2n b0 =? 106) eqn:E0.
    { assert (b0 = x6a) as -> by (apply b2n_inj; change (b2n x6a) with 106; lia). discriminate. }
    destruct (b2n b0 =? 0) eqn:E1; [|reflexivity].
    assert (b0 = x00) as -> by (apply b2n_inj; change (b2n x00) with 0; lia).
    rewrite idx_1. cbn [chk]. destruct (b2n b1 =? 106) eqn:E2; [|reflexivity].
    assert (b1 = x6a) as -> by (apply b2n_inj; change (b2n x6a) with 106; lia). discriminate.
Qed.

(** ToASM then NewFromASM is the identity on the stated domain *)
Theorem asm_roundtrip s : asm_domain s -> exists a, to_asm s = Ok a /\ new_from_asm a = Ok s.
Proof.
  intros [Ht Hd]. destruct (asm_tokens_facts s Ht) as (parts & rs & D & A & F1 & F2 & Fe & R).
  destruct s as [|b0 r0] eqn:Es.
  - exists EmptyString. split; reflexivity.
  - rewrite <- Es in *. assert (s <> []) as Hne by (rewrite Es; discriminate).
    destruct rs as [|r rs']; [exfalso; apply Hne; apply Fe; reflexivity|].
    exists (r ++ sp_join rs')%string. split.
    + unfold to_asm. replace (lenN s =? 0) with false by (rewrite Es, lenN_cons; lia).
      rewrite D. rewrite not_data_flag by assumption. cbn [obind]. rewrite A. cbn [obind dres_ok sp_join str_tail chk].
      reflexivity.
    + unfold new_from_asm.
      inversion F1 as [|? ? Hr1 Hrs1]; subst. inversion F2 as [|? ? Hr2 Hrs2]; subst.
      destruct (r ++ sp_join rs')%string eqn:Ea.
      { destruct r; [congruence|discriminate]. }
      rewrite <- Ea. rewrite split_on_join by assumption. rewrite R. reflexivity.
Qed.
