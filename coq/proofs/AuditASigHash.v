(** Audit A, C02 / C03: the two preimage functions answer with a value or one of the three
    errors on every input in the Go ranges (never the panic / log.Fatal / fuel outcomes of the
    model), and the FORKID digest does not read any unlocking script. *)
From Coq Require Import List NArith ZArith Lia Bool ZifyN ZifyNat.
From Coq Require Import Strings.Byte.
From GoBT Require Import lib.Bytes lib.VarInt lib.Sha256 model.Tx spec.DigestSpec model.SigHash
  model.SigHashWire proofs.SigHashProofs.
Import ListNotations.
Local Open Scope N_scope.


Definition answers_s (r : sres) : Prop := (exists b, r = SOk b) \/ (exists e, r = SErr e).

Theorem forkid_preimage_total t i ht : ht < 256 -> i < two32 -> N.of_nat (length (tx_outs t)) < two31 ->
  answers_s (fst (calc_input_preimage t i ht)).
Proof.
  intros Hh Hi Ho. destruct (nth_error (tx_ins t) (N.to_nat i)) as [inp|] eqn:E.
  - destruct (in_txid inp) as [|b0 r0] eqn:Et.
    + right. eexists. eapply forkid_missing_txid; eauto.
    + destruct (in_script inp) as [sc|] eqn:Es.
      * pose proof (forkid_preimage_is_spec t i ht inp sc Hh Hi Ho E) as P.
        rewrite Et in P. specialize (P ltac:(discriminate) Es).
        destruct (forkid_preimage _ _ _ _ _); cbn in P; [|discriminate]. injection P as <-. left; eauto.
      * right. eexists. eapply forkid_missing_script; eauto. rewrite Et; discriminate.
  - right. eexists. apply forkid_missing_input. apply nth_error_None in E. lia.
Qed.

Theorem legacy_preimage_total t i ht : wf_tx t -> ht < 256 -> i + 1 < two32 ->
  answers_s (fst (calc_input_preimage_legacy t i ht)).
Proof.
  intros W Hh Hi. destruct (nth_error (tx_ins t) (N.to_nat i)) as [inp|] eqn:E.
  - destruct (in_script inp) as [sc|] eqn:Es.
    + pose proof (legacy_preimage_is_spec t i ht inp sc W Hh Hi E Es) as P.
      rewrite P. unfold legacy_expected. destruct (legacy_signature_hash sc (wire_tx t) (N.to_nat i) ht); left; eexists; reflexivity.
    + destruct (in_txid inp) as [|b0 r0] eqn:Et.
      * right. eexists. eapply legacy_missing_txid; eauto.
      * right. eexists. eapply legacy_missing_script; eauto. rewrite Et; discriminate.
  - right. eexists. apply legacy_missing_input. apply nth_error_None in E. lia.
Qed.



Lemma nthN_map {A B} (f : A -> B) l i : nthN (map f l) i = option_map f (nthN l i).
Proof. revert i. induction l as [|x r IH]; intros i; cbn; [reflexivity|]. destruct (i =? 0); [reflexivity|apply IH]. Qed.

Lemma map_via {A B C} (g : A -> C) (e : A -> B) (g' : B -> C) l1 l2 :
  (forall x, g x = g' (e x)) -> map e l1 = map e l2 -> map g l1 = map g l2.
Proof.
  intros Hg He. rewrite (map_ext g (fun x => g' (e x)) Hg l1), (map_ext g (fun x => g' (e x)) Hg l2).
  rewrite <- !(map_map e g'), He. reflexivity.
Qed.

Theorem forkid_ignores_unlocking_scripts t1 t2 i ht :
  erase_unlocks t1 = erase_unlocks t2 ->
  fst (calc_input_preimage t1 i ht) = fst (calc_input_preimage t2 i ht).
Proof.
  intros He. injection He as Hv Hins Hout Hl.
  assert (Hlen : length (tx_ins t1) = length (tx_ins t2)) by (rewrite <- (map_length erase_unlock), Hins, map_length; reflexivity).
  assert (Hn : option_map erase_unlock (nthN (tx_ins t1) i) = option_map erase_unlock (nthN (tx_ins t2) i))
    by (rewrite <- !nthN_map, Hins; reflexivity).
  unfold calc_input_preimage, input_idx. rewrite Hlen.
  destruct (_ >? _)%Z; [reflexivity|].
  destruct (nthN (tx_ins t1) i) as [a|], (nthN (tx_ins t2) i) as [b|]; try discriminate; [|reflexivity].
  cbn [option_map] in Hn. injection Hn as H1 H2 H3 H4 H5. rewrite H1, H5.
  destruct (length (in_txid b) =? 0)%nat; [reflexivity|]. destruct (in_script b) as [sc|]; [|reflexivity].
  assert (Hp : previous_out_hash t1 = previous_out_hash t2).
  { unfold previous_out_hash. f_equal. f_equal.
    apply (map_via _ erase_unlock (fun x => rev (in_txid x) ++ le_enc 4 (in_vout x))); auto. }
  assert (Hs : sequence_hash t1 = sequence_hash t2).
  { unfold sequence_hash. f_equal. f_equal.
    apply (map_via _ erase_unlock (fun x => le_enc 4 (in_seq x))); auto. }
  assert (Ho : forall n, outputs_hash t1 n = outputs_hash t2 n) by (intros n; unfold outputs_hash; rewrite Hout; reflexivity).
  unfold uint32_of_len. rewrite Hp, Hs, !Ho, Hout, Hv, Hl, H2, H3, H4.
  match goal with |- fst (match ?x with _ => _ end) = _ => destruct x end; reflexivity.
Qed.

(** ** the same two facts for CalcInputSignatureHash *)
Lemma sighash_fst_congr t1 t2 i ht :
  (flag_has ht sh_forkid = true -> fst (calc_input_preimage t1 i ht) = fst (calc_input_preimage t2 i ht)) ->
  (flag_has ht sh_forkid = false ->
   fst (calc_input_preimage_legacy t1 i ht) = fst (calc_input_preimage_legacy t2 i ht)) ->
  fst (calc_input_signature_hash t1 i ht) = fst (calc_input_signature_hash t2 i ht).
Proof.
  intros Hf Hl. unfold calc_input_signature_hash.
  destruct (flag_has ht sh_forkid).
  - specialize (Hf eq_refl).
    destruct (calc_input_preimage t1 i ht) as [r1 u1], (calc_input_preimage t2 i ht) as [r2 u2].
    cbn [fst] in Hf. subst r2. destruct r1 as [b| | | |]; try reflexivity.
    destruct (bytes_eqb default_hex b); reflexivity.
  - specialize (Hl eq_refl).
    destruct (calc_input_preimage_legacy t1 i ht) as [r1 u1], (calc_input_preimage_legacy t2 i ht) as [r2 u2].
    cbn [fst] in Hl. subst r2. destruct r1 as [b| | | |]; try reflexivity.
    destruct (bytes_eqb default_hex b); reflexivity.
Qed.

Theorem sighash_ignores_unlocking_scripts t1 t2 i ht inp1 sc :
  wf_tx t1 -> wf_tx t2 -> ht < 256 -> i + 1 < two32 ->
  erase_unlocks t1 = erase_unlocks t2 ->
  nth_error (tx_ins t1) (N.to_nat i) = Some inp1 -> in_script inp1 = Some sc ->
  fst (calc_input_signature_hash t1 i ht) = fst (calc_input_signature_hash t2 i ht).
Proof.
  intros W1 W2 Hh Hi He Hn Hs. apply sighash_fst_congr; intros _.
  - apply forkid_ignores_unlocking_scripts. exact He.
  - exact (legacy_ignores_unlocking_scripts t1 t2 i ht inp1 sc W1 W2 Hh Hi He Hn Hs).
Qed.

Lemma sighash_answers t i ht :
  answers_s (fst (if flag_has ht sh_forkid then calc_input_preimage t i ht else calc_input_preimage_legacy t i ht)) ->
  answers_s (fst (calc_input_signature_hash t i ht)).
Proof.
  unfold calc_input_signature_hash.
  destruct (if flag_has ht sh_forkid then calc_input_preimage t i ht else calc_input_preimage_legacy t i ht) as [r u].
  cbn [fst]. intros [[b ->]|[e ->]].
  - destruct (bytes_eqb default_hex b); left; eexists; reflexivity.
  - right; eexists; reflexivity.
Qed.

Theorem sighash_total t i ht : wf_tx t -> ht < 256 -> i + 1 < two32 ->
  N.of_nat (length (tx_outs t)) < two31 -> answers_s (fst (calc_input_signature_hash t i ht)).
Proof.
  intros W Hh Hi Ho. apply sighash_answers. destruct (flag_has ht sh_forkid).
  - apply forkid_preimage_total; auto. lia.
  - apply legacy_preimage_total; auto.
Qed.
