(** opcodeXor (bscript/interpreter/operations.go), as printed from the Go source, is the branch of [Interp.exec_handler]
    for OP_XOR: for every context and state (data stack of fewer than 2^31 - 16 items, items not longer than 2^48 bytes --
    Go's maxAlloc: the handler allocates the result), the printed
    function applied to the thread fields it uses -- the data stack in Go order, [rev (ds s)] --
    yields the model's outcome (ok with the new stack / script error / panic), and never runs out of fuel. *)
From Coq Require Import List ZArith NArith Bool Lia ZifyN ZifyNat ZifyBool.
From Coq Require Import Strings.Byte.
From GoBT Require Import lib.Bytes lib.GoSem lib.GoInterp gen.Funcs proofs.GenFuncsTac proofs.GenFuncsLoopTac proofs.GenFuncsInterpTac proofs.GenFuncsBytesTac proofs.GenFuncs_stack_PopByteArray proofs.GenFuncs_stack_PushByteArray.
From GoBT Require model.Interp model.ScriptNum.
Import ListNotations.
Ltac Zify.zify_post_hook ::= Z.div_mod_to_equations.
Local Open Scope Z_scope.

(** the branch of the model this handler is compared with (opcode OP_XOR; proofs/DispatchProofs.v ties the table) *)
Lemma exec_at_opcodeXor so c p idx s : Interp.p_real p = true -> Interp.p_val p = Interp.OP_XOR ->
  Interp.exec_handler so c p idx s =
  match Interp.ds s with
  | a :: b :: r =>
      if negb (Nat.eqb (length a) (length b)) then Interp.OErr
      else Interp.push (Interp.set_ds s r) (Interp.bytes_map2 N.lxor a b)
  | _ => Interp.OErr
  end.
Proof. intros Hr Hv. unfold Interp.exec_handler. rewrite Hr, Hv. reflexivity. Qed.

Lemma opcodeXor_is_model so c p idx s : small (Interp.ds s) -> items_alloc (Interp.ds s) -> Interp.p_real p = true -> Interp.p_val p = Interp.OP_XOR ->
  h_view s (opcodeXor (rev (Interp.ds s))) = Some (Interp.exec_handler so c p idx s).
Proof.
  intros Hs Hi Hr Hv. rewrite (exec_at_opcodeXor so c p idx s Hr Hv).
  destruct s as [d a cd el no ls ea cu]. cbn [Interp.ds Interp.als] in *. h_model.
  go_list_cases d 2%nat; h_alloc; unfold opcodeXor; stk_run; try h_done.
  unfold go_len. destruct (Nat.eqb (length x) (length x0)) eqn:El.
  2:{ apply Nat.eqb_neq in El. replace (Z.of_nat (length x) =? Z.of_nat (length x0)) with false by lia. stk_run. h_done. }
  apply Nat.eqb_eq in El. replace (Z.of_nat (length x) =? Z.of_nat (length x0)) with true by lia. cbn [negb]. stk_run.
  change (Z.of_nat (length x)) with (go_len x). rewrite go_make_bytes_len by assumption. stk_run.
  rewrite (go_range_fill (fun i y => n2b (N.lxor (b2n y) (b2n (nth i x0 x00))))).
  - stk_run. pose proof (mapi_map2 N.lxor x x0 [] El) as Hm. cbn [app length] in Hm. rewrite Hm. h_done.
  - apply repeat_byte_length.
  - intros i y buf Hy Hl.
    assert (Hlt : (i < length x)%nat) by (apply nth_error_Some; congruence).
    assert (Hy0 : nth_error x0 i = Some (nth i x0 x00)) by (apply nth_error_nth'; lia).
    repeat match goal with
    | |- context [go_index_b x ?e] => rewrite (go_index_b_at x e i y Hy) by lia
    | |- context [go_index_b x0 ?e] => rewrite (go_index_b_at x0 e i _ Hy0) by lia
    end.
    cbn [bind].
    repeat match goal with
    | |- context [go_set_index buf ?e ?v] => rewrite (go_set_index_at buf e i v) by lia
    end.
    cbn [bind]. rewrite ?z2b_xor. first [ reflexivity |
      rewrite (N.lxor_comm (b2n (nth i x0 x00)) (b2n y)); reflexivity ].
Qed.
