(** verifyLockTime (bscript/interpreter/operations.go), as printed from the Go source, is the negation of
    [verify_locktime] of model/Interp.v (the Go function returns an error, printed as [true], exactly when the
    lock time is not satisfied), for all integers: the function only compares. *)
From Coq Require Import List ZArith NArith Bool Lia ZifyN ZifyNat ZifyBool.
From GoBT Require Import lib.Bytes lib.GoSem gen.Funcs proofs.GenFuncsTac proofs.GenFuncsLoopTac.
From GoBT Require model.Interp.
Ltac Zify.zify_post_hook ::= Z.div_mod_to_equations.
Local Open Scope Z_scope.

Lemma verifyLockTime_is_model (txLockTime threshold lockTime : Z) :
  verifyLockTime txLockTime threshold lockTime = Val (negb (Interp.verify_locktime txLockTime threshold lockTime)).
Proof.
  unfold verifyLockTime, Interp.verify_locktime.
  go_cases; go_close.
Qed.
