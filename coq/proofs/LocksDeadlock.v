(** C18 — deadlock freedom of the lock machine of model/Locks.v for tables that are well locked
    ([well_locked]) and lock ordered ([lock_ordered], AuditD18.v).

    The machine's RW-mutex has no writer preference (an RLock succeeds whenever no writer holds the
    mutex), so no fairness is needed and the statement is the plain one, in its positive form:
    IN EVERY REACHABLE STATE IN WHICH SOME THREAD HAS WORK LEFT, SOME THREAD CAN TAKE A STEP
    ([progress_proof]; [~ stuck] is its corollary).

    The rank of a mutex instance is its object's type: a FeeQuote is a LEAF, everything else is
    not. Per thread, [lo] (the lock order, on the thread's own held list and remaining program):
    a non-leaf is acquired only with nothing held, a leaf only with no leaf held — so nothing is
    ever acquired under a leaf. Over all threads, [J]: the lock table says "held by t" only of
    mutexes in t's held list (the converse of LocksProofs.Inv). A blocked thread waits for a mutex
    some thread holds; that holder has work left (it must still release); if it is blocked too, it
    holds something and is acquiring, so it is acquiring a leaf, and the holder of that leaf can
    acquire nothing, and its releases, reads and writes never block: waiting chains have length
    at most two.

    [lock_ordered] speaks about the symbolic names Self / Elem; that the receiver of a FeeQuote
    method is a leaf is harmless because such a method has no element ([expand_elemfree]: the
    inliner refuses an element of anything but a FeeQuotes). *)
From Coq Require Import List String Bool Arith PeanoNat Lia.
From GoBT Require Import model.Locks spec.RaceSpec proofs.LocksProofs proofs.AuditD18.
From GoBT Require gen.Locks.
Import ListNotations.
Local Open Scope list_scope.

(* ------------------------------------------------------------------------------------------ *)
(** * The lock order, on held lists exactly as the machine (and [wl]) maintains them *)

Section Order.
  Context {K : Type} (keqb : K -> K -> bool) (leaf : K -> bool).

  Fixpoint lo (h : list (K * mode)) (p : list (gact K)) : bool :=
    match p with
    | [] => true
    | GAcq k m :: r =>
        (if leaf k then negb (existsb (fun x => leaf (fst x)) h)
         else match h with [] => true | _ => false end)
        && lo ((k, m) :: h) r
    | GRel k m :: r => lo (remove1 keqb k m h) r
    | _ :: r => lo h r
    end.

  Lemma lo_app : forall p q h h', wl keqb h p = Some h' -> lo h p = true -> lo h' q = true -> lo h (p ++ q) = true.
  Proof.
    induction p as [|a r IH]; simpl; intros q h h' Hw Hl Hq.
    - inversion Hw; subst; auto.
    - destruct a; simpl in *.
      + destruct (holds_obj keqb k h); try discriminate.
        apply andb_true_iff in Hl as [Hc Hl]. rewrite Hc; simpl. eapply IH; eauto.
      + destruct (holds keqb k m h); try discriminate. eapply IH; eauto.
      + destruct (holds_obj keqb k h); try discriminate. eapply IH; eauto.
      + destruct (holds keqb k MW h && next_is_wend keqb k f r); try discriminate. eapply IH; eauto.
      + destruct (holds keqb k MW h); try discriminate. eapply IH; eauto.
  Qed.

  Hypothesis keqb_eq : forall a b, keqb a b = true <-> a = b.

  Lemma remove1_other : forall k m h k' m', k' <> k -> In (k', m') h -> In (k', m') (remove1 keqb k m h).
  Proof.
    intros k m h k' m' Hne; induction h as [|y r IH]; simpl; auto.
    intros Hin. destruct (keqb (fst y) k && mode_eqb (snd y) m) eqn:E.
    - destruct Hin as [->|Hin]; auto. simpl in E. apply andb_true_iff in E as [E _].
      apply keqb_eq in E. contradiction.
    - destruct Hin as [->|Hin]; [left; reflexivity | right; auto].
  Qed.

  Lemma remove1_key_gone : forall k m h, NoDup (map fst h) -> In (k, m) h -> ~ In k (map fst (remove1 keqb k m h)).
  Proof.
    intros k m h Hnd Hin Hk. apply in_map_iff in Hk as ([k' m'] & Heq & Hk); simpl in Heq; subst k'.
    revert Hk. apply (remove1_gone keqb keqb_eq); auto.
  Qed.
End Order.

Section OrderRenaming.
  Context {K K' : Type} (keqb : K -> K -> bool) (keqb' : K' -> K' -> bool) (rho : K -> K').
  Context (leaf : K -> bool) (leaf' : K' -> bool).
  Hypothesis rho_inj : forall a b, keqb' (rho a) (rho b) = keqb a b.
  Hypothesis rho_leaf : forall k, leaf' (rho k) = leaf k.

  Lemma existsb_leaf_hmap : forall h,
    existsb (fun x => leaf' (fst x)) (hmap rho h) = existsb (fun x => leaf (fst x)) h.
  Proof. induction h as [|x r IH]; simpl; auto. rewrite rho_leaf, IH; reflexivity. Qed.

  Lemma lo_rename : forall v p h,
    lo keqb' leaf' (hmap rho h) (map (gmap rho v) p) = lo keqb leaf h p.
  Proof.
    induction p as [|a r IH]; simpl; intros h; auto.
    destruct a; simpl; auto.
    - rewrite rho_leaf, existsb_leaf_hmap. rewrite <- (IH ((k, m) :: h)). simpl.
      destruct h; reflexivity.
    - rewrite (remove1_hmap keqb keqb' rho rho_inj). apply IH.
  Qed.
End OrderRenaming.

(* ------------------------------------------------------------------------------------------ *)
(** * From [lock_ordered] (symbolic, Self / Elem) to [lo] on the threads' programs *)

Definition is_leaf (o : obj) : bool := ty_eqb (fst o) TFeeQuote.
Definition leafT (T : ty) (o : oref) : bool :=
  match o with Self => ty_eqb T TFeeQuote | Elem => true end.

Lemma leaf_rho : forall c o, is_leaf (rho c o) = leafT (c_ty c) o.
Proof. intros c []; reflexivity. Qed.

Definition elemfree (p : spath) : bool := forallb (fun a => negb (mentions_elem a)) p.

Lemma elemfree_app : forall p q, elemfree (p ++ q) = elemfree p && elemfree q.
Proof. intros; unfold elemfree; apply forallb_app. Qed.

(** a path that passes the discipline checker and the symbolic order, in a method whose receiver
    is a leaf only if the path has no element, respects the order of the ranks *)
Lemma sym_lo : forall T p h h' hf,
  (leafT T Self = true -> elemfree p = true) ->
  NoDup (map fst h) -> (forall k, In k (map fst h) -> In k h') ->
  wl oref_eqb h p = Some hf -> ordered h' p = true -> lo oref_eqb (leafT T) h p = true.
Proof.
  intros T; induction p as [|a r IH]; simpl; intros h h' hf HE Hnd HR Hw Ho; auto.
  assert (HE' : leafT T Self = true -> elemfree r = true).
  { intros Hl. apply HE in Hl. simpl in Hl. apply andb_true_iff in Hl as [_ Hl]; exact Hl. }
  destruct a as [k m|k m|k f|k f|k f v]; simpl in Hw.
  - destruct (holds_obj oref_eqb k h) eqn:Hh; try discriminate.
    destruct k.
    + (* receiver: nothing is held *)
      destruct h' as [|x' r']; try discriminate.
      destruct h as [|x rh]; [|exfalso; apply (HR (fst x)); left; reflexivity].
      replace ((if leafT T Self then negb (existsb (fun x => leafT T (fst x)) []) else true)) with true
        by (destruct (leafT T Self); reflexivity).
      simpl. eapply (IH _ [Self]); eauto; simpl;
        try (constructor; [intros []|constructor]); try (intros k [<-|[]]; left; reflexivity).
    + (* element: no element is held, and the receiver is not a leaf *)
      apply andb_true_iff in Ho as [Hne Ho]. apply negb_true_iff in Hne.
      assert (Hnl : existsb (fun x => leafT T (fst x)) h = false).
      { destruct (existsb (fun x => leafT T (fst x)) h) eqn:E; auto. exfalso.
        apply existsb_exists in E as ([k' m'] & Hin & Hl); simpl in Hl. destruct k'.
        - apply HE in Hl. simpl in Hl. discriminate.
        - assert (Hin' : In Elem h') by (apply HR; change Elem with (fst (Elem, m')); apply in_map; auto).
          assert (existsb (oref_eqb Elem) h' = true) by (apply existsb_exists; exists Elem; split; auto).
          congruence. }
      simpl. rewrite Hnl; simpl. eapply (IH _ (Elem :: h')); eauto.
      * simpl; constructor; auto. apply (holds_obj_notin oref_eqb oref_eqb_eq); auto.
      * simpl; intros k [<-|Hin]; [left; reflexivity | right; auto].
  - destruct (holds oref_eqb k m h) eqn:Hh; try discriminate.
    apply (holds_In oref_eqb oref_eqb_eq) in Hh.
    apply (IH (remove1 oref_eqb k m h) (filter (fun x => negb (oref_eqb x k)) h') hf); auto.
    + apply remove1_nodup; auto.
    + intros x Hin. apply filter_In. split.
      * apply HR. eapply remove1_map_subset; eauto.
      * apply negb_true_iff. destruct (oref_eqb x k) eqn:E; auto. apply oref_eqb_eq in E; subst x.
        exfalso. revert Hin. apply (remove1_key_gone oref_eqb oref_eqb_eq); auto.
  - destruct (holds_obj oref_eqb k h); try discriminate. eapply IH; eauto.
  - destruct (holds oref_eqb k MW h && next_is_wend oref_eqb k f r); try discriminate. eapply IH; eauto.
  - destruct (holds oref_eqb k MW h); try discriminate. eapply IH; eauto.
Qed.

(** the inliner produces no path that mentions an element for a receiver type without elements *)
Lemma mentions_elem_rename_self : forall a, mentions_elem (rename_self Self a) = mentions_elem a.
Proof. intros [[] ?|[] ?|[] ?|[] ?|[] ? ?]; reflexivity. Qed.

Lemma elemfree_rename_self : forall cs c, existsb (existsb mentions_elem) cs = false -> In c cs ->
  elemfree (map (rename_self Self) c) = true.
Proof.
  intros cs c Hex Hin. unfold elemfree. apply forallb_forall. intros a Ha.
  apply in_map_iff in Ha as (a0 & <- & Ha0). rewrite mentions_elem_rename_self.
  apply negb_true_iff. destruct (mentions_elem a0) eqn:E; auto.
  assert (existsb (existsb mentions_elem) cs = true).
  { apply existsb_exists. exists c; split; auto. apply existsb_exists. exists a0; split; auto. }
  congruence.
Qed.

Lemma expand_elemfree : forall fuel tbl T p ps, callee_ty T Elem = None ->
  expand fuel tbl T p = Some ps -> forall q, In q ps -> elemfree q = true.
Proof.
  intros fuel tbl T p ps HT. destruct fuel as [|fuel']; [discriminate|].
  simpl. revert ps. induction p as [|a r IH]; intros ps H q Hq.
  - inversion H; subst. destruct Hq as [<-|[]]. reflexivity.
  - simpl in H.
    match type of H with match ?X with _ => _ end = _ => destruct X as [rs|] eqn:Hrs end; try discriminate.
    specialize (IH rs eq_refl).
    assert (Hpre : forall xs, elemfree xs = true -> In q (map (app xs) rs) -> elemfree q = true).
    { intros xs Hxs Hin. apply in_map_iff in Hin as (q' & <- & Hq'). rewrite elemfree_app, Hxs. simpl. auto. }
    destruct a as [o m|o m|o f|o f|o n]; (destruct o; [simpl in H | rewrite HT in H; discriminate]).
    + inversion H; subst. apply (Hpre [GAcq Self m]); [reflexivity | exact Hq].
    + inversion H; subst. apply (Hpre [GRel Self m]); [reflexivity | exact Hq].
    + inversion H; subst. apply (Hpre [GRead Self f]); [reflexivity | exact Hq].
    + inversion H; subst. apply (Hpre [GWBegin Self f; GWEnd Self f 0]); [reflexivity | exact Hq].
    + destruct (find_method tbl T n) as [m|]; try discriminate.
      match type of H with match ?X with _ => _ end = _ => destruct X as [cs|] eqn:Hcs end; try discriminate.
      destruct (existsb (existsb mentions_elem) cs) eqn:Hex; try discriminate.
      inversion H; subst. apply in_flat_map in Hq as (c & Hc & Hq).
      apply (Hpre (map (rename_self Self) c)); [eapply elemfree_rename_self; eauto | exact Hq].
Qed.

Lemma expand_method_elemfree : forall tbl m ps, callee_ty (m_ty m) Elem = None ->
  expand_method tbl m = Some ps -> forall q, In q ps -> elemfree q = true.
Proof.
  intros tbl m ps HT. unfold expand_method. generalize (m_paths m). intros qs; revert ps.
  induction qs as [|p r IH]; intros ps H q Hq.
  - inversion H; subst. destruct Hq.
  - destruct (expand (S (List.length tbl)) tbl (m_ty m) p) as [a|] eqn:Ea; try discriminate.
    match type of H with match ?X with _ => _ end = _ => destruct X as [b|] eqn:Eb end; try discriminate.
    inversion H; subst. apply in_app_or in Hq as [Hq|Hq].
    + eapply expand_elemfree; eauto.
    + eapply IH; eauto.
Qed.

Lemma lookup_path_cases : forall tbl T n k,
  lookup_path (flat_table tbl) T n k = [] \/
  exists m ps, In m tbl /\ m_ty m = T /\ expand_method tbl m = Some ps /\
               In (lookup_path (flat_table tbl) T n k) ps.
Proof.
  intros tbl T n k. unfold lookup_path.
  destruct (find _ (flat_table tbl)) as [e|] eqn:Hf; [|left; reflexivity].
  apply find_some in Hf as [Hin Hb]. unfold flat_table in Hin. apply in_map_iff in Hin as (m & <- & Hm).
  unfold flat_method in *; simpl in *. apply andb_true_iff in Hb as [Hb _]. apply ty_eqb_eq in Hb.
  destruct (expand_method tbl m) as [ps|] eqn:He; [|left; destruct k; reflexivity].
  destruct (nth_in_or_default k ps []) as [Hin | ->]; [|left; reflexivity].
  right. exists m, ps. auto.
Qed.

Lemma lookup_path_elemfree : forall tbl T n k, callee_ty T Elem = None ->
  elemfree (lookup_path (flat_table tbl) T n k) = true.
Proof.
  intros tbl T n k HT. destruct (lookup_path_cases tbl T n k) as [->|(m & ps & _ & <- & He & Hin)]; [reflexivity|].
  eapply expand_method_elemfree; eauto.
Qed.

Lemma lookup_path_ordered : forall tbl T n k, lock_ordered tbl = true ->
  ordered [] (lookup_path (flat_table tbl) T n k) = true.
Proof.
  intros tbl T n k Hlo. destruct (lookup_path_cases tbl T n k) as [->|(m & ps & Hm & _ & He & Hin)]; [reflexivity|].
  unfold lock_ordered in Hlo. rewrite forallb_forall in Hlo.
  specialize (Hlo (flat_method tbl m) (in_map _ _ _ Hm)). unfold flat_method in Hlo; simpl in Hlo.
  rewrite He in Hlo. rewrite forallb_forall in Hlo. auto.
Qed.

Lemma inst_lo : forall tbl c, well_locked tbl = true -> lock_ordered tbl = true -> call_ok c = true ->
  lo obj_eqb is_leaf [] (inst (flat_table tbl) c) = true.
Proof.
  intros tbl c Hwl Hlo Hok. unfold inst.
  change (@nil (obj * mode)) with (hmap (rho c) (@nil (oref * mode))).
  rewrite (lo_rename oref_eqb obj_eqb (rho c) (leafT (c_ty c)) is_leaf (rho_inj c Hok) (leaf_rho c)).
  pose proof (lookup_path_ok tbl (c_ty c) (c_name c) (c_path c) Hwl) as Hp. unfold path_ok in Hp.
  destruct (wl oref_eqb [] (lookup_path (flat_table tbl) (c_ty c) (c_name c) (c_path c))) as [hf|] eqn:E; try discriminate.
  eapply (sym_lo (c_ty c) _ [] []); eauto.
  - intros Hl. simpl in Hl. apply ty_eqb_eq in Hl. apply lookup_path_elemfree. rewrite Hl. reflexivity.
  - constructor.
  - apply lookup_path_ordered; auto.
Qed.

Lemma call_progs_lo : forall tbl cs, well_locked tbl = true -> lock_ordered tbl = true ->
  forallb call_ok cs = true -> lo obj_eqb is_leaf [] (flat_map (inst (flat_table tbl)) cs) = true.
Proof.
  intros tbl cs Hwl Hlo; induction cs as [|c r IH]; simpl; intros Hok; auto.
  apply andb_true_iff in Hok as [Hc Hr].
  eapply lo_app; [apply inst_wl; auto | apply inst_lo; auto | auto].
Qed.

(* ------------------------------------------------------------------------------------------ *)
(** * The second invariant: the lock table names only real holders; every thread is ordered *)

Lemma remove_tid_subset : forall t l x, In x (remove_tid t l) -> In x l.
Proof.
  intros t l; induction l as [|y r IH]; simpl; intros x Hin; auto.
  destruct (y =? t)%nat; auto. destruct Hin; auto.
Qed.
Lemma remove_tid_nodup : forall t l, NoDup l -> NoDup (remove_tid t l).
Proof.
  intros t l; induction l as [|y r IH]; simpl; intros Hnd; auto. inversion Hnd; subst.
  destruct (y =? t)%nat; auto. constructor; auto. intros Hin; apply remove_tid_subset in Hin; contradiction.
Qed.
Lemma remove_tid_gone : forall t l, NoDup l -> ~ In t (remove_tid t l).
Proof.
  intros t l; induction l as [|y r IH]; simpl; intros Hnd; auto. inversion Hnd; subst.
  destruct (Nat.eqb_spec y t) as [->|Hne]; [assumption|].
  intros [Heq|Hin]; [congruence | revert Hin; apply IH; auto].
Qed.

Record J (s : state) : Prop := mkJ {
  j_lw : forall o t, lw (lk s o) = Some t -> In (o, MW) (held (thr s t));
  j_lr : forall o t, In t (lr (lk s o)) -> In (o, MR) (held (thr s t));
  j_nd : forall o, NoDup (lr (lk s o));
  j_lo : forall t, lo obj_eqb is_leaf (held (thr s t)) (prog (thr s t)) = true
}.

Lemma init_J : forall mem0 progs, (forall t, lo obj_eqb is_leaf [] (progs t) = true) -> J (init_state mem0 progs).
Proof. intros mem0 progs H. constructor; simpl; auto; try discriminate; try contradiction. intros; constructor. Qed.

Ltac thr_cases t' t :=
  destruct (Nat.eq_dec t' t) as [->|?]; [rewrite ?upd_thr_same | rewrite ?upd_thr_other by auto]; simpl.
Ltac lk_cases o' o :=
  destruct (obj_eq_dec o' o) as [->|?]; [rewrite ?upd_lk_same in * | rewrite ?upd_lk_other in * by auto]; simpl in *.

Lemma step_J : forall mem0 s t g s', Inv mem0 s -> J s -> step s t g = Some s' -> J s'.
Proof.
  intros mem0 s t g s' HI HJ Hs. unfold step in Hs.
  destruct (prog (thr s t)) as [|a rest] eqn:Hp; try discriminate.
  pose proof (inv_wl mem0 s HI t) as Hwl. rewrite Hp in Hwl.
  pose proof (j_lo s HJ t) as Hlo. rewrite Hp in Hlo.
  assert (Hsame : forall s'', lk s'' = lk s ->
            (forall t', held (thr s'' t') = held (thr s t')) ->
            (forall t', lo obj_eqb is_leaf (held (thr s'' t')) (prog (thr s'' t')) = true) -> J s'').
  { intros s'' Hl Hh Hl'. constructor; auto; rewrite Hl; intros; try rewrite Hh; apply HJ; auto. }
  destruct a as [o m|o m|o f|o f|o f v]; simpl in Hwl, Hlo.
  - (* acquire *)
    destruct (holds_obj obj_eqb o (held (thr s t))) eqn:Hh; try discriminate.
    assert (Hno : forall m', ~ In (o, m') (held (thr s t))).
    { intros m' Hin. assert (holds_obj obj_eqb o (held (thr s t)) = true) by (apply (holds_obj_In obj_eqb obj_eqb_eq); eauto). congruence. }
    apply andb_true_iff in Hlo as [_ Hlo].
    destruct m.
    + destruct (lw (lk s o)) eqn:Hlw; try discriminate. inversion Hs; subst s'; clear Hs.
      constructor; simpl.
      * intros o' t' H. lk_cases o' o; [discriminate|]. apply (j_lw s HJ) in H. thr_cases t' t; auto.
      * intros o' t' H. lk_cases o' o.
        -- destruct H as [<-|H]; [rewrite upd_thr_same; left; reflexivity|].
           apply (j_lr s HJ) in H. thr_cases t' t; auto.
        -- apply (j_lr s HJ) in H. thr_cases t' t; auto.
      * intros o'. lk_cases o' o; [|apply HJ]. constructor; [|apply HJ].
        intros Hin. apply (j_lr s HJ) in Hin. eapply Hno; eauto.
      * intros t'. thr_cases t' t; auto. apply HJ.
    + destruct (lw (lk s o)) eqn:Hlw; try discriminate.
      destruct (lr (lk s o)) eqn:Hlr; try discriminate. inversion Hs; subst s'; clear Hs.
      constructor; simpl.
      * intros o' t' H. lk_cases o' o.
        -- inversion H; subst t'. rewrite upd_thr_same; left; reflexivity.
        -- apply (j_lw s HJ) in H. thr_cases t' t; auto.
      * intros o' t' H. lk_cases o' o; [contradiction|]. apply (j_lr s HJ) in H. thr_cases t' t; auto.
      * intros o'. lk_cases o' o; [constructor|apply HJ].
      * intros t'. thr_cases t' t; auto. apply HJ.
  - (* release *)
    destruct (holds obj_eqb o m (held (thr s t))) eqn:Hh; try discriminate.
    apply (holds_In obj_eqb obj_eqb_eq) in Hh.
    destruct m.
    + destruct (existsb (Nat.eqb t) (lr (lk s o))) eqn:Hex; try discriminate.
      inversion Hs; subst s'; clear Hs.
      pose proof (inv_r mem0 s HI t o Hh) as [Hlw _].
      constructor; simpl.
      * intros o' t' H. lk_cases o' o; [congruence|]. apply (j_lw s HJ) in H.
        thr_cases t' t; auto. apply (remove1_other obj_eqb obj_eqb_eq); auto.
      * intros o' t' H. lk_cases o' o.
        -- assert (t' <> t) by (intros ->; revert H; apply remove_tid_gone; apply HJ).
           apply remove_tid_subset in H. apply (j_lr s HJ) in H. rewrite upd_thr_other; auto.
        -- apply (j_lr s HJ) in H. thr_cases t' t; auto. apply (remove1_other obj_eqb obj_eqb_eq); auto.
      * intros o'. lk_cases o' o; [apply remove_tid_nodup|]; apply HJ.
      * intros t'. thr_cases t' t; auto. apply HJ.
    + destruct (lw (lk s o)) as [tw|] eqn:Hlw; try discriminate.
      destruct (Nat.eqb_spec tw t) as [->|]; try discriminate.
      inversion Hs; subst s'; clear Hs.
      constructor; simpl.
      * intros o' t' H. lk_cases o' o; [discriminate|]. apply (j_lw s HJ) in H.
        thr_cases t' t; auto. apply (remove1_other obj_eqb obj_eqb_eq); auto.
      * intros o' t' H. lk_cases o' o.
        -- apply (j_lr s HJ) in H. apply (inv_r mem0 s HI) in H as [H _]. congruence.
        -- apply (j_lr s HJ) in H. thr_cases t' t; auto. apply (remove1_other obj_eqb obj_eqb_eq); auto.
      * intros o'. lk_cases o' o; apply HJ.
      * intros t'. thr_cases t' t; auto. apply HJ.
  - inversion Hs; subst s'; clear Hs. apply Hsame; simpl; auto; intros t'; thr_cases t' t; auto; apply HJ.
  - inversion Hs; subst s'; clear Hs. apply Hsame; simpl; auto; intros t'; thr_cases t' t; auto; apply HJ.
  - inversion Hs; subst s'; clear Hs. apply Hsame; simpl; auto; intros t'; thr_cases t' t; auto; apply HJ.
Qed.

Lemma reachable_inv_J : forall mem0 s0 s, Inv mem0 s0 -> J s0 -> reachable s0 s -> Inv mem0 s /\ J s.
Proof.
  intros mem0 s0 s H0 J0 Hr; induction Hr as [|s t g s' Hr [IHI IHJ] Hs]; auto.
  split; [eapply step_inv; eauto | eapply step_J; eauto].
Qed.

(* ------------------------------------------------------------------------------------------ *)
(** * Progress *)

(** a thread with work left that cannot step is waiting for a mutex that some thread holds *)
Lemma blocked_waits : forall mem0 s t, Inv mem0 s -> J s -> prog (thr s t) <> [] -> step s t 0 = None ->
  exists o m rest t' m', prog (thr s t) = GAcq o m :: rest /\ In (o, m') (held (thr s t')).
Proof.
  intros mem0 s t HI HJ Hne Hs. unfold step in Hs.
  destruct (prog (thr s t)) as [|a rest] eqn:Hp; [contradiction|].
  pose proof (inv_wl mem0 s HI t) as Hwl. rewrite Hp in Hwl.
  destruct a as [o m|o m|o f|o f|o f v]; simpl in Hwl; try discriminate.
  - destruct m.
    + destruct (lw (lk s o)) as [t'|] eqn:Hlw; try discriminate.
      apply (j_lw s HJ) in Hlw. exists o, MR, rest, t', MW. auto.
    + destruct (lw (lk s o)) as [t'|] eqn:Hlw.
      * apply (j_lw s HJ) in Hlw. exists o, MW, rest, t', MW. auto.
      * destruct (lr (lk s o)) as [|t' r] eqn:Hlr; try discriminate.
        assert (Hin : In t' (lr (lk s o))) by (rewrite Hlr; left; reflexivity).
        apply (j_lr s HJ) in Hin. exists o, MW, rest, t', MR. auto.
  - exfalso. destruct (holds obj_eqb o m (held (thr s t))) eqn:Hh; try discriminate.
    apply (holds_In obj_eqb obj_eqb_eq) in Hh. destruct m.
    + apply (inv_r mem0 s HI) in Hh as [_ Hin]. apply existsb_eqb_In in Hin. rewrite Hin in Hs. discriminate.
    + apply (inv_w mem0 s HI) in Hh. rewrite Hh, Nat.eqb_refl in Hs. discriminate.
Qed.

(** whoever holds a mutex still has to release it *)
Lemma holder_has_work : forall mem0 s t o m, Inv mem0 s -> In (o, m) (held (thr s t)) -> prog (thr s t) <> [].
Proof.
  intros mem0 s t o m HI Hin Hp. pose proof (inv_wl mem0 s HI t) as Hwl. rewrite Hp in Hwl. simpl in Hwl.
  inversion Hwl as [Hh]. rewrite Hh in Hin. contradiction.
Qed.

(** what the order allows a thread positioned at an acquire to hold *)
Lemma acquiring_holds : forall s t o m rest, J s -> prog (thr s t) = GAcq o m :: rest ->
  forall o' m', In (o', m') (held (thr s t)) -> is_leaf o = true /\ is_leaf o' = false.
Proof.
  intros s t o m rest HJ Hp o' m' Hin. pose proof (j_lo s HJ t) as Hlo. rewrite Hp in Hlo. simpl in Hlo.
  apply andb_true_iff in Hlo as [Hc _]. destruct (is_leaf o).
  - split; auto. apply negb_true_iff in Hc. destruct (is_leaf o') eqn:E; auto.
    assert (existsb (fun x => is_leaf (fst x)) (held (thr s t)) = true)
      by (apply existsb_exists; exists (o', m'); split; auto).
    congruence.
  - destruct (held (thr s t)); [contradiction | discriminate].
Qed.

Lemma inv_progress : forall mem0 s, Inv mem0 s -> J s ->
  (exists t, prog (thr s t) <> []) -> exists t s', step s t 0 = Some s'.
Proof.
  intros mem0 s HI HJ (t0 & H0).
  destruct (step s t0 0) as [s'|] eqn:E0; [eauto|].
  destruct (blocked_waits mem0 s t0 HI HJ H0 E0) as (o0 & m0 & r0 & t1 & m0' & Hp0 & Hh1).
  pose proof (holder_has_work mem0 s t1 o0 m0' HI Hh1) as H1.
  destruct (step s t1 0) as [s'|] eqn:E1; [eauto|].
  destruct (blocked_waits mem0 s t1 HI HJ H1 E1) as (o1 & m1 & r1 & t2 & m1' & Hp1 & Hh2).
  destruct (acquiring_holds s t1 o1 m1 r1 HJ Hp1 o0 m0' Hh1) as [Hl1 _].
  pose proof (holder_has_work mem0 s t2 o1 m1' HI Hh2) as H2.
  destruct (step s t2 0) as [s'|] eqn:E2; [eauto|].
  destruct (blocked_waits mem0 s t2 HI HJ H2 E2) as (o2 & m2 & r2 & t3 & m2' & Hp2 & _).
  destruct (acquiring_holds s t2 o2 m2 r2 HJ Hp2 o1 m1' Hh2) as [_ Hl1'].
  congruence.
Qed.

Lemma inv_not_stuck : forall mem0 s, Inv mem0 s -> J s -> ~ stuck s.
Proof.
  intros mem0 s HI HJ [Hw Hn]. destruct (inv_progress mem0 s HI HJ Hw) as (t & s' & Hs).
  rewrite Hn in Hs. discriminate.
Qed.

Lemma ordered_reachable_inv : forall tbl, well_locked tbl = true -> lock_ordered tbl = true ->
  forall (mem0 : loc -> value) (P : tid -> list call), (forall t, forallb call_ok (P t) = true) ->
  forall s, reachable (init_state mem0 (call_progs tbl P)) s -> Inv mem0 s /\ J s.
Proof.
  intros tbl Hwl Hlo mem0 P Hok s Hr. eapply reachable_inv_J; eauto.
  - apply init_inv. intros t. apply call_progs_wl; auto.
  - apply init_J. intros t. apply call_progs_lo; auto.
Qed.

(** PROGRESS: in every reachable state in which some thread has work left, some thread can step *)
Theorem progress_proof : forall tbl, well_locked tbl = true -> lock_ordered tbl = true ->
  forall (mem0 : loc -> value) (P : tid -> list call), (forall t, forallb call_ok (P t) = true) ->
  forall s, reachable (init_state mem0 (call_progs tbl P)) s ->
  (exists t, prog (thr s t) <> []) -> exists t s', step s t 0 = Some s'.
Proof.
  intros tbl Hwl Hlo mem0 P Hok s Hr.
  destruct (ordered_reachable_inv tbl Hwl Hlo mem0 P Hok s Hr) as [HI HJ]. eapply inv_progress; eauto.
Qed.

(** DEADLOCK FREEDOM *)
Theorem deadlock_free_proof : forall tbl, well_locked tbl = true -> lock_ordered tbl = true ->
  forall (mem0 : loc -> value) (P : tid -> list call), (forall t, forallb call_ok (P t) = true) ->
  forall s, reachable (init_state mem0 (call_progs tbl P)) s -> ~ stuck s.
Proof.
  intros tbl Hwl Hlo mem0 P Hok s Hr.
  destruct (ordered_reachable_inv tbl Hwl Hlo mem0 P Hok s Hr) as [HI HJ]. eapply inv_not_stuck; eauto.
Qed.

(** a blocked thread waits for at most one other blocked thread: the holder of what the holder of
    what it waits for waits for can always step (the waiting chains have length at most two) *)
Theorem waiting_chain_short_proof : forall tbl, well_locked tbl = true -> lock_ordered tbl = true ->
  forall (mem0 : loc -> value) (P : tid -> list call), (forall t, forallb call_ok (P t) = true) ->
  forall s, reachable (init_state mem0 (call_progs tbl P)) s ->
  forall t0 t1 o0 m0 r0 m0' o1 m1 r1,
    prog (thr s t0) = GAcq o0 m0 :: r0 -> In (o0, m0') (held (thr s t1)) ->
    prog (thr s t1) = GAcq o1 m1 :: r1 ->
    is_leaf o0 = false /\ is_leaf o1 = true /\ held (thr s t0) = [] /\
    forall t2 m1', In (o1, m1') (held (thr s t2)) -> exists s', step s t2 0 = Some s'.
Proof.
  intros tbl Hwl Hlo mem0 P Hok s Hr t0 t1 o0 m0 r0 m0' o1 m1 r1 Hp0 Hh1 Hp1.
  destruct (ordered_reachable_inv tbl Hwl Hlo mem0 P Hok s Hr) as [HI HJ].
  destruct (acquiring_holds s t1 o1 m1 r1 HJ Hp1 o0 m0' Hh1) as [Hl1 Hl0].
  split; auto. split; auto. split.
  - destruct (held (thr s t0)) as [|[o' m'] r] eqn:E; auto.
    destruct (acquiring_holds s t0 o0 m0 r0 HJ Hp0 o' m') as [Hx _]; [rewrite E; left; reflexivity | congruence].
  - intros t2 m1' Hh2. pose proof (holder_has_work mem0 s t2 o1 m1' HI Hh2) as H2.
    destruct (step s t2 0) as [s'|] eqn:E2; [eauto|].
    destruct (blocked_waits mem0 s t2 HI HJ H2 E2) as (o2 & m2 & r2 & t3 & m2' & Hp2 & _).
    destruct (acquiring_holds s t2 o2 m2 r2 HJ Hp2 o1 m1' Hh2) as [_ Hl1']. congruence.
Qed.

(** ... for fees.go as it is now, from the two obligations on the GENERATED table *)
Theorem fee_quotes_deadlock_free_from :
  well_locked_raw gen.Locks.fee_methods = true -> lock_ordered fee_table = true /\ fee_table <> [] ->
  forall tbl, dec_table gen.Locks.fee_methods = Some tbl ->
  forall (mem0 : loc -> value) (P : tid -> list call), (forall t, forallb call_ok (P t) = true) ->
  forall s, reachable (init_state mem0 (call_progs tbl P)) s ->
  ~ stuck s /\ ((exists t, prog (thr s t) <> []) -> exists t s', step s t 0 = Some s').
Proof.
  intros Hw [Ho _] tbl Hd mem0 P Hok s Hr.
  unfold well_locked_raw in Hw. unfold fee_table in Ho. rewrite Hd in Hw, Ho.
  split; [eapply deadlock_free_proof | eapply progress_proof]; eauto.
Qed.
