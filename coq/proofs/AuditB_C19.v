(** Audit B, C19: isolation of snapshots, in the terms of the sharing model (model/Heap.v).
    thread.State() hands a debugger COPIES: in the heap model, arrays allocated after the live ones.  A debugger that
    overwrites what it was handed changes only arrays from some index on; every slice that lies in the arrays below
    that index -- every live stack item, the caller's scripts -- reads the same bytes afterwards. *)
From Coq Require Import List NArith ZArith Lia Bool.
From Coq Require Import Strings.Byte.
From GoBT Require Import lib.Bytes model.ScriptNum model.Interp model.Heap proofs.HeapRefine.
Import ListNotations.

(** [h'] is [h] after a debugger replaced, arbitrarily, the arrays from index [from] on (and possibly added some) *)
Definition scribbled (from : nat) (h h' : heap) : Prop := firstn from h' = firstn from h.

Lemma rd_firstn from h x : in_bounds (firstn from h) x = true -> rd h x = rd (firstn from h) x.
Proof. intros H. rewrite <- (firstn_skipn from h) at 1. apply rd_extends. exact H. Qed.

Theorem scribbling_is_isolated : forall from h h' x,
  scribbled from h h' -> in_bounds (firstn from h) x = true -> rd h' x = rd h x.
Proof.
  intros from h h' x Hs Hb. rewrite (rd_firstn from h x Hb).
  unfold scribbled in Hs. rewrite <- Hs in Hb |- *. apply rd_firstn. exact Hb.
Qed.

(** State(): every item is copied into a new array ([alloc] of the bytes read) *)
Fixpoint copy_items (h : heap) (l : list slice) : heap * list slice :=
  match l with
  | [] => (h, [])
  | x :: r => let (h1, y) := alloc h (rd h x) in let (h2, ys) := copy_items h1 r in (h2, y :: ys)
  end.

(** the copies live above the heap that was there, leave it as it was, and read what the originals read *)
Theorem copy_items_spec : forall l h h2 ys, copy_items h l = (h2, ys) -> all_in h l ->
  extends h h2 /\ map (rd h2) ys = map (rd h) l /\
  Forall (fun y => (length h <= sl_arr y)%nat) ys.
Proof.
  induction l as [|x r IH]; intros h h2 ys Hc Hin; cbn [copy_items] in Hc.
  - injection Hc as <- <-. split; [apply extends_refl|]. split; [reflexivity|constructor].
  - unfold alloc in Hc. destruct (copy_items (h ++ [rd h x]) r) as [h2' ys'] eqn:Er. injection Hc as <- <-.
    inversion Hin as [|? ? Bx Hin']; subst.
    assert (Hin1 : all_in (h ++ [rd h x]) r) by (apply (all_in_extends h); [apply extends_alloc|exact Hin']).
    destruct (IH _ _ _ Er Hin1) as (Hx & Hm & Hf).
    split; [eapply extends_trans; [apply extends_alloc|exact Hx]|]. split.
    + cbn [map]. f_equal.
      * destruct Hx as [e ->]. rewrite rd_extends by apply in_bounds_alloc. apply rd_alloc.
      * rewrite Hm. apply map_rd_extends; [apply extends_alloc|exact Hin'].
    + constructor; [cbn [sl_arr]; apply le_n|].
      eapply Forall_impl; [|exact Hf]. intros y Hy. rewrite app_length in Hy. cbn [length] in Hy. lia.
Qed.

(** so: take a snapshot of live items, let the debugger do anything to the arrays of the snapshot, and the live
    items still read what they read *)
Corollary snapshot_scribbling_leaves_live_items : forall h live h2 ys h',
  all_in h live -> copy_items h live = (h2, ys) -> scribbled (length h) h2 h' ->
  map (rd h') live = map (rd h) live.
Proof.
  intros h live h2 ys h' Hin Hc Hs.
  destruct (copy_items_spec _ _ _ _ Hc Hin) as ([e ->] & _ & _).
  apply map_ext_in. intros x Hx.
  assert (Bx : in_bounds h x = true) by (unfold all_in in Hin; rewrite Forall_forall in Hin; apply Hin; exact Hx).
  assert (Hf : firstn (length h) (h ++ e) = h) by (rewrite firstn_app, firstn_all, Nat.sub_diag; cbn [firstn]; apply app_nil_r).
  rewrite (scribbling_is_isolated (length h) (h ++ e) h' x Hs) by (rewrite Hf; exact Bx).
  apply rd_extends. exact Bx.
Qed.
