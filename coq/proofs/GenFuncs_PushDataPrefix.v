(** bscript.PushDataPrefix (bscript/oppushdata.go), as printed from the Go source, is [push_data_prefix] of
    model/Push.v (C13), [push_prefix] of model/CheckSig.v (C06) and, below 2^32 bytes, [push_prefix] of
    model/Fees.v (C11).  The hypothesis is Go's: a slice has fewer than 2^63 elements. *)
From Coq Require Import List ZArith NArith Bool Lia ZifyN ZifyNat ZifyBool.
From Coq Require Import Strings.Byte.
From GoBT Require Import lib.Bytes lib.GoSem gen.Funcs proofs.GenFuncsTac.
From GoBT Require model.Push model.CheckSig model.Fees.
Import ListNotations.
Ltac Zify.zify_post_hook ::= Z.div_mod_to_equations.
Local Open Scope Z_scope.

(** ([]byte, error) of the Go function from the model's [option] *)
Definition of_option (o : option bytes) : bytes * bool :=
  match o with Some p => (p, false) | None => ([], true) end.

Lemma PushDataPrefix_is_model (data : bytes) : (lenN data < 9223372036854775808)%N ->
  PushDataPrefix data = Val (of_option (Push.push_data_prefix data)).
Proof.
  intros Hl. unfold Push.push_data_prefix, of_option, PushDataPrefix. cbv zeta.
  rewrite (go_len_lenN data). remember (lenN data) as l eqn:El. clear El.
  destruct (N.leb_spec l 75) as [H1|H1]; [|destruct (N.leb_spec l 255) as [H2|H2];
    [|destruct (N.leb_spec l 65535) as [H3|H3]; [|destruct (N.leb_spec l 4294967295) as [H4|H4]]]];
    unfold go_conv, go_wrap; go_decide; go_eval;
    apply Val_inj; (apply f_equal2; [|reflexivity]); go_bytes.
Qed.

Lemma push_prefix_checksig_eq data : CheckSig.push_prefix data = Push.push_data_prefix data.
Proof. reflexivity. Qed.

Lemma PushDataPrefix_is_checksig_model (data : bytes) : (lenN data < 9223372036854775808)%N ->
  PushDataPrefix data = Val (of_option (CheckSig.push_prefix data)).
Proof. intros H. rewrite push_prefix_checksig_eq. apply PushDataPrefix_is_model, H. Qed.

Lemma PushDataPrefix_is_fees_model (data : bytes) : (lenN data <= 4294967295)%N ->
  PushDataPrefix data = Val (Fees.push_prefix data, false).
Proof.
  intros H. rewrite PushDataPrefix_is_model by lia. unfold Push.push_data_prefix, Fees.push_prefix, of_option. cbv zeta.
  go_split; try reflexivity; exfalso; lia.
Qed.
