(** C12, the shape of the outputs: the deficit the supplier is given charges the locking script of EVERY data output
    of the starting transaction at the data rate - wherever the output stands, however many there are - and everything
    else at the standard rate.  The data part of the size is [data_sum] (the sum, over the outputs whose script is a
    data script, of the script lengths); the inputs appended by earlier batches never change it. *)
From Coq Require Import List NArith ZArith Lia Bool Permutation.
From Coq Require Import Strings.Byte.
From GoBT Require Import lib.Bytes lib.VarInt model.Tx gen.Consts spec.FeeSpec model.Fees model.Fund
  proofs.FeesProofs proofs.FundProofs.
Import ListNotations.
Local Open Scope N_scope.

(** every data output contributes the full length of its script, in whatever position *)
Lemma data_sum_cons o outs :
  data_sum (o :: outs) = (if is_data (out_script o) then lenN (out_script o) else 0) + data_sum outs.
Proof. rewrite <- !data_len_sum. apply data_len_cons. Qed.

Lemma data_sum_app a b : data_sum (a ++ b) = data_sum a + data_sum b.
Proof. rewrite <- !data_len_sum. apply data_len_app. Qed.

Theorem data_sum_middle a o b :
  data_sum (a ++ o :: b) = (if is_data (out_script o) then lenN (out_script o) else 0) + data_sum (a ++ b).
Proof. rewrite !data_sum_app, data_sum_cons. lia. Qed.

(** ... so the order of the outputs plays no part in it *)
Theorem data_sum_perm a b : Permutation a b -> data_sum a = data_sum b.
Proof.
  induction 1 as [|x l l' _ IH|x y l|l l' l'' _ IH1 _ IH2].
  - reflexivity.
  - rewrite !data_sum_cons, IH. reflexivity.
  - rewrite !data_sum_cons. lia.
  - congruence.
Qed.

(** the deficit of a transaction, spelled out: the fee is the quoted fee of the estimated final size split into the
    data scripts of ALL data outputs and the rest *)
Definition deficit_of (t : tx) (f : txfees) : N :=
  let need := add64 (total_out t) (fee_total f) in
  if need <? total_in t then 0 else need - total_in t.

Theorem deficit_data_outputs t q d : wf_tx t -> ~ ambiguous t ->
  estimate_deficit t q = FOk d ->
  exists te f,
    estimated_final_tx t = FOk te /\ tx_outs te = tx_outs t /\
    fees_paid (mkSize (tx_size te) (tx_size te - data_sum (tx_outs t)) (data_sum (tx_outs t))) q = FOk f /\
    d = deficit_of t f.
Proof.
  intros W A. unfold estimate_deficit, estimate_fees_paid, estimate_size_with_types.
  rewrite (est_final_wf t W A).
  destruct (fill_dummy (tx_ins t)) as [ins'| | |]; cbn [obind]; try discriminate.
  unfold size_with_types. cbn [set_ins tx_outs]. rewrite data_len_sum.
  destruct (fees_paid _ q) as [f| | |] eqn:F; cbn [obind]; try discriminate.
  intros H. exists (set_ins t ins'), f. split; [reflexivity|]. split; [reflexivity|]. split; [exact F|].
  unfold deficit_of. destruct (_ <? _); injection H as <-; reflexivity.
Qed.

(** at every call of the supplier: the argument is that deficit of the intermediate transaction, and its data part is
    the one of the STARTING transaction's outputs - all of its data outputs *)
Theorem fund_calls_data_outputs t q hist :
  wf_tx t -> ~ ambiguous t -> forallb wf_responseb hist = true ->
  let r := fund t q hist in
  forall k, (k < length (f_calls r))%nat ->
    N.of_nat (length (tx_ins (inter t hist k))) < two64 ->
    exists te f,
      estimated_final_tx (inter t hist k) = FOk te /\ tx_outs te = tx_outs t /\
      fees_paid (mkSize (tx_size te) (tx_size te - data_sum (tx_outs t)) (data_sum (tx_outs t))) q = FOk f /\
      nth k (f_calls r) 0 = deficit_of (inter t hist k) f.
Proof.
  intros W A Fh r k Hk Hn. subst r.
  destruct (fund_calls t q hist) as (_ & C & _).
  destruct (C k Hk) as (E & _ & V).
  destruct (consumed_valid hist Fh k V) as [Fv Fw].
  unfold inter in *. cbn [add_all tx_ins] in Hn. rewrite app_length, map_length in Hn.
  destruct (wf_add_all t _ W A Fv Fw Hn) as [W' A'].
  destruct (deficit_data_outputs _ q _ W' A' E) as (te & f & E1 & E2 & E3 & E4).
  exists te, f. cbn [add_all tx_outs] in E2, E3. auto.
Qed.
