(** Proofs about the signature-opcode model (model/CheckSig.v) for property C06. *)
From Coq Require Import List NArith ZArith Lia Bool.
From Coq Require Import Strings.Byte.
From GoBT Require Import lib.Bytes model.Tx model.SigHash model.ScriptNum model.Interp model.CheckSig.
Import ListNotations.

(** ** checkSignatureEncoding never indexes out of range *)
From Coq Require Import ZifyN ZifyNat ZifyBool.

Lemma at_in sig i k : (i < length sig)%nat -> exists v, nth_error sig i = Some v /\ at_ sig i k = k (b2n v).
Proof.
  intros H. unfold at_. destruct (nth_error sig i) as [v|] eqn:E; [eauto|].
  apply nth_error_None in E. lia.
Qed.

Ltac step_at :=
  match goal with
  | |- context [at_ ?sig ?i ?k] =>
      let v := fresh "v" in let Hv := fresh "Hv" in let Ha := fresh "Ha" in
      destruct (at_in sig i k) as (v & Hv & Ha); [lia|rewrite Ha; clear Ha]
  end.
Ltac step_if :=
  match goal with
  | |- context [if ?b then _ else _] => let E := fresh "E" in destruct b eqn:E
  end.

Lemma check_sig_enc_no_panic c sig : check_sig_enc c sig <> EncPanic.
Proof.
  unfold check_sig_enc. cbv zeta.
  step_if; [discriminate|]. step_if; [discriminate|]. step_if; [discriminate|].
  step_at. step_if; [discriminate|]. step_at. step_if; [discriminate|]. step_at.
  step_if; [discriminate|]. step_if; [discriminate|]. step_at. step_if; [discriminate|].
  step_at. step_if; [discriminate|]. step_if; [discriminate|]. step_at. step_if; [discriminate|].
  assert (Hrest : forall r : enc_res, r <> EncPanic -> r <> EncPanic) by auto.
  (* the part after the R checks, shared by both arms of the R-padding test *)
  match goal with
  | |- (if ?b then at_ _ 5 (fun r1 => if _ then EncErr else ?A) else ?A) <> EncPanic =>
      assert (HA : A <> EncPanic)
  end.
  { step_at. step_if; [discriminate|]. step_if; [discriminate|]. step_at. step_if; [discriminate|].
    match goal with
    | |- (if ?b then at_ _ _ (fun s1 => if _ then EncErr else ?B) else ?B) <> EncPanic =>
        assert (HB : B <> EncPanic)
    end.
    { step_if; [|discriminate]. step_if; [exfalso; lia|]. step_if; [exfalso; lia|]. step_if; discriminate. }
    step_if; [|exact HB]. step_at. step_if; [discriminate|exact HB]. }
  step_if; [|exact HA]. step_at. step_if; [discriminate|exact HA].
Qed.

(** ** Tx.Clone and the signature hash on the engine's transaction never panic *)
From GoBT Require Import lib.VarInt lib.Sha256 proofs.TxProofs proofs.SigHashProofs.
Local Open Scope N_scope.

Lemma tx_bytes_std_strip t : tx_bytes false (strip_tx t) = tx_bytes false t.
Proof.
  unfold tx_bytes, strip_tx. cbn [tx_version tx_ins tx_outs tx_lock].
  rewrite map_length, map_map.
  replace (map (fun x => input_bytes false (strip_input x)) (tx_ins t)) with (map (input_bytes false) (tx_ins t))
    by (apply map_ext; intros x; reflexivity).
  reflexivity.
Qed.

Lemma strip_input_idem x : strip_input (strip_input x) = strip_input x.
Proof. reflexivity. Qed.

Lemma wf_strip t : wf_tx t -> wf_tx (strip_tx t).
Proof.
  intros (Hv & Hl & Hins & Houts & Hni & Hno). unfold wf_tx, strip_tx. cbn [tx_version tx_ins tx_outs tx_lock].
  rewrite map_length. split; [exact Hv|]. split; [exact Hl|]. split; [|split; [exact Houts|split; assumption]].
  rewrite Forall_forall in *. intros y Hy. apply in_map_iff in Hy. destruct Hy as (x & <- & Hx).
  destruct (Hins x Hx) as (H1 & H2 & H3 & H4 & H5 & H6).
  unfold wf_input, strip_input. cbn [in_txid in_vout in_seq in_sats in_unlock in_script].
  split; [exact H1|]. split; [exact H2|]. split; [exact H3|]. split; [unfold two64; lia|]. split; [exact H5|exact I].
Qed.

(** Clone needs only the serialised fields to be well formed (the previous-output fields are copied) *)
Lemma clone_eq_weak t : wf_tx (strip_tx t) -> tx_ins t <> [] -> clone t = ROk t.
Proof.
  intros Hwf Hne. unfold clone. rewrite <- tx_bytes_std_strip.
  rewrite from_bytes_roundtrip_std; [|exact Hwf|].
  - cbn [p_tx strip_tx tx_version tx_ins tx_outs tx_lock]. rewrite map_map.
    replace (map (fun x => strip_input (strip_input x)) (tx_ins t)) with (map strip_input (tx_ins t))
      by (apply map_ext; intros; reflexivity).
    rewrite map_combine_strip. destruct t; reflexivity.
  - intros (E & _). cbn in E. apply map_eq_nil in E. contradiction.
Qed.

Definition tx_ctx_ok (t : tx) (i : N) : Prop :=
  wf_tx t /\ (N.to_nat i < length (tx_ins t))%nat /\ i < 2147483648.

Lemma mapi_from_length {A B} (f : N -> A -> B) l : forall k, length (mapi_from f k l) = length l.
Proof. induction l; intros; cbn; auto. Qed.
Lemma mapi_length {A B} (f : N -> A -> B) l : length (mapi f l) = length l.
Proof. apply mapi_from_length. Qed.

Lemma mapi_from_nth {A B} (f : N -> A -> B) l : forall k n x,
  nth_error l n = Some x -> nth_error (mapi_from f k l) n = Some (f (k + N.of_nat n) x).
Proof.
  induction l as [|y l IH]; intros k n x H; [destruct n; discriminate|].
  destruct n as [|n]; cbn in *.
  - inversion H; subst. rewrite N.add_0_r. reflexivity.
  - rewrite (IH (k + 1) n x H). f_equal. f_equal. lia.
Qed.
Lemma mapi_nth {A B} (f : N -> A -> B) l n x :
  nth_error l n = Some x -> nth_error (mapi f l) n = Some (f (N.of_nat n) x).
Proof. intros H. unfold mapi. rewrite (mapi_from_nth f l 0 n x H). reflexivity. Qed.

Lemma mapi_from_Forall {A B} (P : B -> Prop) (f : N -> A -> B) l : (forall j x, P (f j x)) ->
  forall k, Forall P (mapi_from f k l).
Proof. intros H. induction l; intros k; cbn; constructor; auto. Qed.

Lemma mapi_from_strip (f : N -> input -> input) l : (forall j x, strip_input (f j x) = strip_input x) ->
  forall k, map strip_input (mapi_from f k l) = map strip_input l.
Proof. intros H. induction l as [|y l IH]; intros k; cbn; [reflexivity|]. rewrite H, IH. reflexivity. Qed.

Lemma set_input_script_some t i up x : nth_error (tx_ins t) (N.to_nat i) = Some x ->
  exists t', set_input_script t i up = Some t' /\ strip_tx t' = strip_tx t /\
             nth_error (tx_ins t') (N.to_nat i) = Some (set_prev_script x (Some up)) /\
             tx_outs t' = tx_outs t /\ length (tx_ins t') = length (tx_ins t).
Proof.
  intros Hn. unfold set_input_script. rewrite nthN_nth_error, Hn. eexists. split; [reflexivity|].
  cbn [tx_ins tx_outs]. repeat split.
  - unfold strip_tx. cbn [tx_version tx_ins tx_outs tx_lock]. f_equal. unfold mapi. apply mapi_from_strip.
    intros j y. destruct (j =? i); reflexivity.
  - rewrite (mapi_nth _ _ _ _ Hn). rewrite N2Nat.id, N.eqb_refl. reflexivity.
  - apply mapi_length.
Qed.

(** the FORKID preimage: no panic *)
Lemma forkid_preimage_total t i ht : i < 2147483648 ->
  fst (calc_input_preimage t i ht) <> SigHash.SPanic /\ fst (calc_input_preimage t i ht) <> SFatal /\
  fst (calc_input_preimage t i ht) <> SFuel.
Proof.
  intros Hi. unfold calc_input_preimage.
  destruct (input_idx t i) as [inp|]; [|cbn; repeat split; discriminate].
  destruct (length (in_txid inp) =? 0)%nat; [cbn; repeat split; discriminate|].
  destruct (in_script inp) as [sc|]; [|cbn; repeat split; discriminate].
  cbv zeta.
  match goal with |- context [match ?ho with Some _ => _ | None => _ end] => assert (Hho : ho <> None) end.
  { destruct (negb (N.land ht 31 =? sh_single) && negb (N.land ht 31 =? sh_none))%bool.
    - unfold outputs_hash. cbn. discriminate.
    - destruct ((N.land ht 31 =? sh_single) && (i <? uint32_of_len (tx_outs t)))%bool eqn:E; [|discriminate].
      apply andb_true_iff in E. destruct E as [_ E]. apply N.ltb_lt in E.
      unfold outputs_hash, int32_of_uint32.
      replace (i <? 2147483648) with true by lia.
      assert (Z.of_N i <> -1)%Z by lia.
      replace (Z.of_N i =? -1)%Z with false by lia. replace (Z.of_N i <? 0)%Z with false by lia.
      rewrite N2Z.id, nthN_nth_error.
      destruct (nth_error (tx_outs t) (N.to_nat i)) eqn:En; [discriminate|].
      apply nth_error_None in En. unfold uint32_of_len in E.
      pose proof (N.mod_le (N.of_nat (length (tx_outs t))) two32). unfold two32 in *. lia. }
  match goal with |- context [match ?ho with Some _ => _ | None => _ end] => destruct ho; [|congruence] end.
  cbn. repeat split; discriminate.
Qed.

Lemma mapi_from_Forall2 {A} (P : A -> Prop) (f : N -> A -> A) l : Forall P l -> (forall j x, P x -> P (f j x)) ->
  forall k, Forall P (mapi_from f k l).
Proof. intros Hl H. induction Hl; intros k; cbn; constructor; auto. Qed.

Lemma Forall_firstn {A} (P : A -> Prop) n l : Forall P l -> Forall P (firstn n l).
Proof. intros H. revert n. induction H; intros [|n]; cbn; try constructor; auto. Qed.
Lemma Forall_skipn {A} (P : A -> Prop) n l : Forall P l -> Forall P (skipn n l).
Proof. intros H. revert n. induction H; intros [|n]; cbn; auto. Qed.

Lemma legacy_preimage_total t i ht inp sc :
  wf_tx (strip_tx t) -> i < 2147483648 -> nth_error (tx_ins t) (N.to_nat i) = Some inp ->
  in_script inp = Some sc -> in_txid inp <> [] ->
  exists r, fst (calc_input_preimage_legacy t i ht) = SOk r.
Proof.
  intros Hwf Hi Hnth Hsc Htx.
  assert (Hlen : (N.to_nat i < length (tx_ins t))%nat) by (apply nth_error_Some; congruence).
  unfold calc_input_preimage_legacy. rewrite input_idx_spec, Hnth.
  destruct (in_txid inp) as [|b0 tl] eqn:Etx; [congruence|]. cbn [length Nat.eqb]. rewrite Hsc.
  destruct (flag_has_with_mask ht sh_single && (Z.of_N i >? Z.of_nat (length (tx_outs t)) - 1)%Z)%bool eqn:E1;
    [eexists; reflexivity|].
  rewrite clone_eq_weak; [|exact Hwf|intros E; rewrite E in Hlen; cbn in Hlen; lia].
  cbv zeta.
  assert (Hnext : (i + 1) mod two32 = i + 1) by (apply N.mod_small; unfold two32; lia).
  rewrite Hnext.
  replace (i + 1 <? i) with false by lia. rewrite !orb_false_r. cbn [orb].
  set (P := fun x : input => in_script x <> None).
  set (ins1 := mapi (fun j x => if j =? i then set_prev_script x (Some sc) else blank_input x) (tx_ins t)).
  assert (H1 : Forall P ins1).
  { unfold ins1, mapi. apply mapi_from_Forall. intros j x. unfold P. destruct (j =? i); discriminate. }
  assert (L1 : length ins1 = length (tx_ins t)) by apply mapi_length.
  set (zo := mapi (fun j x => if negb (j =? i) then zero_seq x else x)).
  assert (H2 : Forall P (zo ins1)).
  { unfold zo, mapi. apply mapi_from_Forall2; [exact H1|]. intros j x Hx. destruct (negb (j =? i)); exact Hx. }
  assert (L2 : length (zo ins1) = length (tx_ins t)) by (unfold zo; rewrite mapi_length; exact L1).
  (* whatever the edits, the inputs all have a script and there are as many as before *)
  assert (Hfin : forall ins2 outs2, Forall P ins2 -> length ins2 = length (tx_ins t) ->
     exists r, fst (match (if negb (N.land ht sh_anyonecanpay =? 0)
                           then if N.of_nat (length ins2) <? i + 1 then None
                                else Some (firstn (N.to_nat (i + 1 - i)) (skipn (N.to_nat i) ins2))
                           else Some ins2) with
                    | None => (SigHash.SPanic, t)
                    | Some ins3 =>
                        match legacy_inputs_bytes ins3 with
                        | None => (SigHash.SPanic, t)
                        | Some ib =>
                            (SOk (le_enc 4 (tx_version t) ++ varint_bytes (N.of_nat (length ins3)) ++ ib ++
                                  varint_bytes (N.of_nat (length outs2)) ++ concat (map legacy_output_bytes outs2) ++
                                  le_enc 4 (tx_lock t) ++ le_enc 4 ht), t)
                        end
                    end) = SOk r).
  { intros ins2 outs2 HP HL.
    assert (Hsel : forall ins3, Forall P ins3 -> exists ib, legacy_inputs_bytes ins3 = Some ib).
    { intros ins3 H3. rewrite (legacy_inputs_bytes_ok ins3 H3). eauto. }
    destruct (negb (N.land ht sh_anyonecanpay =? 0)).
    - replace (N.of_nat (length ins2) <? i + 1) with false by lia.
      destruct (Hsel (firstn (N.to_nat (i + 1 - i)) (skipn (N.to_nat i) ins2))) as [ib ->];
        [apply Forall_firstn, Forall_skipn; exact HP|]. eexists; reflexivity.
    - destruct (Hsel ins2 HP) as [ib ->]. eexists; reflexivity. }
  destruct (flag_has_with_mask ht sh_none).
  - apply (Hfin (zo ins1) []); assumption.
  - destruct (flag_has_with_mask ht sh_single) eqn:Es.
    + cbn [andb] in E1.
      replace (N.of_nat (length (tx_outs t)) <? i + 1) with false by lia.
      cbv iota beta.
      apply (Hfin (zo ins1)); assumption.
    + apply (Hfin ins1); assumption.
Qed.

Lemma sighash_for_total t i up shf : tx_ctx_ok t i ->
  (exists h, sighash_for t i up shf = SOk h) \/ (exists e, sighash_for t i up shf = SigHash.SErr e).
Proof.
  intros (Hwf & Hlen & Hi).
  destruct (nth_error (tx_ins t) (N.to_nat i)) as [x|] eqn:Hn; [|apply nth_error_None in Hn; lia].
  assert (Hne : tx_ins t <> []) by (intros E; rewrite E in Hlen; cbn in Hlen; lia).
  unfold sighash_for. rewrite (clone_eq_weak t (wf_strip t Hwf) Hne).
  destruct (set_input_script_some t i up x Hn) as (t' & -> & Hs & Hn' & _ & _).
  replace (i mod two32) with i by (symmetry; apply N.mod_small; unfold two32; lia).
  unfold calc_input_signature_hash.
  destruct (flag_has shf sh_forkid).
  - destruct (forkid_preimage_total t' i shf Hi) as (A & B & C).
    destruct (calc_input_preimage t' i shf) as [r t2]. cbn [fst] in *.
    destruct r; try congruence; cbn [fst].
    + left. destruct (bytes_eqb default_hex b); eexists; reflexivity.
    + right. eexists; reflexivity.
  - assert (Hx : in_txid x <> []).
    { pose proof (wf_tx_txid t x _ Hwf Hn) as H32. intros E. rewrite E in H32. discriminate. }
    destruct (legacy_preimage_total t' i shf (set_prev_script x (Some up)) up) as [r Hr];
      [rewrite Hs; apply wf_strip; exact Hwf|exact Hi|exact Hn'|reflexivity|exact Hx|].
    destruct (calc_input_preimage_legacy t' i shf) as [r0 t2]. cbn [fst] in Hr. subst r0.
    left. destruct (bytes_eqb default_hex r); eexists; reflexivity.
Qed.
