(** C10, transactions too large to push through the byte-level parser inside Coq (tens of thousands of outputs:
    the output count at the 65535 / 65536 varint boundary).

    Tx.change sizes the transaction through estimatedFinalTx, which starts with Tx.Clone = serialise + re-parse;
    the model (model/Fees.v [estimated_final_tx], model/Tx.v [clone]) does the same, and lib/Parse.v's parser is
    quadratic in the number of items it reads.  On a well-formed transaction that is not of the ambiguous empty
    shape the clone is the identity (proofs/TxProofs.v, proofs/FeesProofs.v [est_final_wf]), so the change
    computation can be evaluated without it.  This file defines that clone-free evaluation ([change_direct],
    [run ... direct]) and proves that, under the two BOOLEAN guards [wf_txb] and [negb ambiguousb] (evaluated on
    the case itself), it is equal to the model the theorems of Properties/C10.v are about.  corr/C10.v uses it for
    the cases the harness marks as large; [check_direct_sound] there says a large case accepted this way is
    accepted by the ordinary check as well. *)
From Coq Require Import List NArith ZArith Lia Bool.
From Coq Require Import Strings.Byte.
From GoBT Require Import lib.Bytes lib.VarInt model.Tx gen.Consts spec.FeeSpec model.Fees model.Change
  proofs.FeesProofs proofs.ChangeProofs.
Import ListNotations.
Local Open Scope N_scope.
Local Open Scope bool_scope.

(** estimatedFinalTx without the clone *)
Definition estimated_final_tx_direct (t : tx) : outcome tx :=
  olet ins := fill_dummy (tx_ins t) in FOk (set_ins t ins).

Definition guard (t : tx) : bool := wf_txb t && negb (ambiguousb t).

Lemma est_direct_eq t : guard t = true -> estimated_final_tx t = estimated_final_tx_direct t.
Proof.
  unfold guard. intros G. apply andb_prop in G. destruct G as [W A]. apply negb_true_iff in A.
  apply est_final_wf; [apply wf_txb_sound; exact W|apply ambiguousb_sound; exact A].
Qed.

(** Tx.change with the size taken from [estimated_final_tx_direct]: the text of model/Change.v [change] with that
    one call replaced ([change_direct_eq] below is re-checked on every build, so the two cannot drift apart) *)
Definition change_direct (t : tx) (q : quote) (dest : option bytes) : outcome (N * bool * tx) :=
  let input_amount := total_in t in
  let output_amount := total_out t in
  if input_amount <? output_amount then FErr ErrInsufficientInputs else
  let available := input_amount - output_amount in
  olet size := (olet te := estimated_final_tx_direct t in FOk (size_with_types te)) in
  olet std_fee := get_fee (q_std q) in
  olet data_fee := get_fee (q_data q) in
  let var_int_upper := upper_limit_inc (N.of_nat (length (tx_outs t))) in
  if (var_int_upper =? -1)%Z then FOk (0, false, t) else
  let '(std_bytes, data_bytes) :=
    match dest with
    | Some s =>
        let script_len := lenN s in
        let std := add64 (sz_std size) (add64 (add64 8 (varint_len script_len)) (Z.to_N var_int_upper)) in
        if is_data s then (std, add64 (sz_data size) script_len)
        else (add64 std script_len, sz_data size)
    | None => (sz_std size, sz_data size)
    end in
  olet s_fees := fee_of std_bytes std_fee in
  olet d_fees := fee_of data_bytes data_fee in
  let tx_fees := add64 s_fees d_fees in
  if (available <=? tx_fees) || (available - tx_fees <=? dust_limit) then FOk (0, false, t) else
  let available := available - tx_fees in
  match dest with
  | Some s => FOk (available, true, add_output t (mkOutput available s))
  | None => FOk (available, true, t)
  end.

Lemma change_direct_eq t q dest : guard t = true -> change t q dest = change_direct t q dest.
Proof.
  intros G. unfold change, change_direct, estimate_size_with_types. rewrite (est_direct_eq t G). reflexivity.
Qed.

Definition change_new_direct (t : tx) (q : quote) (s : bytes) : outcome bool * tx :=
  match change_direct t q (Some s) with
  | FOk (_, has, t') => (FOk has, t')
  | FErr e => (FErr e, t)
  | FFatal => (FFatal, t)
  | FPanic => (FPanic, t)
  end.

Definition change_to_address_direct (t : tx) (q : quote) (decoded : option bytes) : outcome bool * tx :=
  match decoded with
  | None => (FErr ErrBadAddress, t)
  | Some s => change_new_direct t q s
  end.

Definition change_existing_direct (t : tx) (q : quote) (index : N) : outcome bool * tx :=
  if (uint_to_int index >? Z.of_nat (length (tx_outs t)) - 1)%Z then (FErr ErrOutputNoExist, t) else
  match change_direct t q None with
  | FOk (available, has, _) =>
      if has then
        if index <? N.of_nat (length (tx_outs t))
        then (FOk true, mkTx (tx_version t) (tx_ins t) (add_sats_at (tx_outs t) (N.to_nat index) available) (tx_lock t))
        else (FPanic, t)
      else (FOk false, t)
  | FErr e => (FErr e, t)
  | FFatal => (FFatal, t)
  | FPanic => (FPanic, t)
  end.

Lemma change_new_direct_eq t q s : guard t = true -> change_new t q s = change_new_direct t q s.
Proof. intros G. unfold change_new, change_new_direct. rewrite (change_direct_eq t q (Some s) G). reflexivity. Qed.

Lemma change_to_address_direct_eq t q a : guard t = true -> change_to_address t q a = change_to_address_direct t q a.
Proof.
  intros G. unfold change_to_address, change_to_address_direct. destruct a; [|reflexivity].
  apply change_new_direct_eq; exact G.
Qed.

Lemma change_existing_direct_eq t q i : guard t = true -> change_existing t q i = change_existing_direct t q i.
Proof. intros G. unfold change_existing, change_existing_direct. rewrite (change_direct_eq t q None G). reflexivity. Qed.

(** ** The growth of the output-count varint at its second boundary, on the model: with exactly 65535 outputs a
    new output makes the count five bytes long instead of three, and the change computation pays for both bytes
    (and for none at 65534 or 65536).  Stated on the size of the serialisation, for every transaction. *)
Lemma upper_limit_inc_second_boundary :
  upper_limit_inc 65534 = 0%Z /\ upper_limit_inc 65535 = 2%Z /\ upper_limit_inc 65536 = 0%Z /\
  varint_len 65535 = 3 /\ varint_len 65536 = 5.
Proof. vm_compute. repeat split. Qed.

Theorem tx_size_growth_at_65535 t o : N.of_nat (length (tx_outs t)) = 65535 ->
  tx_size (add_output t o) = tx_size t + lenN (output_bytes o) + 2.
Proof.
  intros L. pose proof (tx_size_add_output t o) as H. rewrite L in H.
  change (varint_len (65535 + 1)) with 5 in H. change (varint_len 65535) with 3 in H. lia.
Qed.

(** ... and none on either side of it *)
Theorem tx_size_no_growth_beside_65535 t o :
  N.of_nat (length (tx_outs t)) = 65534 \/ N.of_nat (length (tx_outs t)) = 65536 ->
  tx_size (add_output t o) = tx_size t + lenN (output_bytes o).
Proof.
  intros [L|L]; pose proof (tx_size_add_output t o) as H; rewrite L in H.
  - change (varint_len (65534 + 1)) with 3 in H. change (varint_len 65534) with 3 in H. lia.
  - change (varint_len (65536 + 1)) with 5 in H. change (varint_len 65536) with 5 in H. lia.
Qed.
