(** Audit A, C04: (1) the hash-type check of opcodeCheckSig passes for the twelve standard types under
    the matching flag word; (2) REJECTION relative to the ECDSA oracle: a well-encoded P2PKH /
    P2PKH-inscription unlocking script whose signature the oracle does not accept over the digest the
    engine recomputes makes the interpreter model answer VErr - the mirror image of
    [signed_p2pkh_accepts], pure symbolic execution, no cryptography. *)
From Coq Require Import List NArith ZArith Lia Bool ZifyN ZifyNat ZifyBool.
From Coq Require Import Strings.Byte.
From GoBT Require Import lib.Bytes lib.VarInt lib.Sha256 lib.Ripemd160 model.Tx model.SigHash model.ScriptNum
  model.Interp model.CheckSig proofs.TxProofs proofs.SigHashProofs proofs.AddressProofs proofs.P2PKHProofs.
Import ListNotations.
Local Open Scope Z_scope.

Local Opaque hash160 sha256 sha256d.

(** * the hash-type check on the standard types *)
Lemma hash_type_ok_forkid c ht : has_flag c F_FORKID = true ->
  In ht [0x41; 0x42; 0x43; 0xc1; 0xc2; 0xc3]%N -> check_hash_type c ht = true.
Proof.
  intros Hf Hin. unfold check_hash_type. rewrite Hf.
  destruct (has_flag c F_STRICTENC); [|reflexivity]. cbn [negb].
  cbn [In] in Hin. destruct (has_flag c F_BIP143);
  repeat (destruct Hin as [<-|Hin]; [vm_compute; reflexivity|]); destruct Hin.
Qed.
Lemma hash_type_ok_legacy c ht : has_flag c F_FORKID = false -> has_flag c F_BIP143 = false ->
  In ht [0x01; 0x02; 0x03; 0x81; 0x82; 0x83]%N -> check_hash_type c ht = true.
Proof.
  intros Hf Hb Hin. unfold check_hash_type. rewrite Hf, Hb.
  destruct (has_flag c F_STRICTENC); [|reflexivity]. cbn [negb].
  cbn [In] in Hin. repeat (destruct Hin as [<-|Hin]; [vm_compute; reflexivity|]); destruct Hin.
Qed.

(** a compressed key (33 bytes, first byte 02 or 03) passes checkPubKeyEncoding under every flag word *)
Lemma pubkey_enc_ok_compressed c b0 r : length r = 32%nat -> (b2n b0 = 2 \/ b2n b0 = 3)%N ->
  check_pubkey_enc c (b0 :: r) = true.
Proof.
  intros Hl Hb. unfold check_pubkey_enc. destruct (has_flag c F_STRICTENC); [|reflexivity].
  cbn [negb length]. rewrite Hl. cbn [Nat.eqb andb].
  destruct Hb as [-> | ->]; reflexivity.
Qed.

(** * rejection *)

(** what opcodeCheckSig asks of go-bk: the key parses, the signature parses, Verify says yes *)
Definition oracle_accepts (orc : sig_oracle) (c : ctx) (pk h sig : bytes) : bool :=
  orc_parse_pub orc pk && orc_parse_sig orc (uses_der_parser c) sig &&
  match orc_verify orc pk h sig (uses_der_parser c) with Some true => true | _ => false end.

Lemma checksig_reject orc t idx c s i sig ht pk r up h :
  ds s = pk :: (sig ++ [n2b ht]) :: r -> (ht < 256)%N ->
  check_hash_type c ht = true -> check_sig_enc c sig = EncOk -> check_pubkey_enc c pk = true ->
  unparse (checksig_code_ops c s (sig ++ [n2b ht]) ht) = Some up ->
  sighash_for t idx up ht = SOk h ->
  oracle_accepts orc c pk h sig = false ->
  so_checksig (mk_sigops orc t idx) c s i false = OErr \/
  so_checksig (mk_sigops orc t idx) c s i false = OOk (set_ds s (from_bool false :: r)).
Proof.
  intros Hds Hht Hty Henc Hpk Hup Hsh Hrej.
  cbn [mk_sigops so_checksig]. unfold checksig_run. rewrite Hds.
  unfold split_last. rewrite rev_app_distr. cbn [rev app]. rewrite rev_involutive.
  rewrite (b2n_n2b_small ht Hht), Hty. cbn [negb]. rewrite Henc, Hpk. cbn [negb].
  rewrite Hup, Hsh. unfold oracle_accepts in Hrej.
  assert (Hfail : checksig_failed c (set_ds s r) (sig ++ [n2b ht]) = OErr \/
                  checksig_failed c (set_ds s r) (sig ++ [n2b ht]) = OOk (set_ds s (from_bool false :: r))).
  { unfold checksig_failed. destruct (has_flag c F_NULLFAIL && Nat.ltb 0 (length (sig ++ [n2b ht]))); [left; reflexivity|].
    right. unfold push_bool, push. destruct s; reflexivity. }
  destruct (orc_parse_pub orc pk); cbn [negb option_map finish_verify]; [|exact Hfail].
  destruct (orc_parse_sig orc (uses_der_parser c) sig); cbn [negb option_map finish_verify]; [|exact Hfail].
  cbn [andb] in Hrej.
  destruct (orc_verify orc pk h sig (uses_der_parser c)) as [[|]|]; cbn [option_map finish_verify];
    [discriminate|exact Hfail|left; reflexivity].
Qed.

(** thread.execute when the locking script fails or leaves a false item *)
Lemma execute_lock_fails so c u l s1 :
  u <> [] -> l <> [] ->
  (forall acc, fst (run_ops so c u 0 (init_st u) acc) = SEnd s1) -> cond s1 = [] ->
  (forall acc, fst (run_ops so c l 0 (shift_script (set_als s1 []) l) acc) = SErr \/
               exists sF, fst (run_ops so c l 0 (shift_script (set_als s1 []) l) acc) = SEnd sF /\
                          cond sF = [] /\ ds sF = [from_bool false]) ->
  fst (execute so c false u l) = VErr.
Proof.
  intros Hu Hl H1 Hc1 H2. unfold execute. destruct u as [|u0 u']; [congruence|].
  specialize (H1 []). destruct (run_ops so c (u0 :: u') 0 (init_st (u0 :: u')) []) as [e acc].
  cbn [fst] in H1. subst e. unfold end_script. rewrite Hc1. destruct l as [|l0 l']; [congruence|].
  unfold run_lock. match goal with |- context [run_ops so c (l0 :: l') 0 ?s ?a] => specialize (H2 a) end.
  match goal with |- context [run_ops so c (l0 :: l') 0 ?s ?a] => destruct (run_ops so c (l0 :: l') 0 s a) as [e2 acc2] end.
  cbn [fst] in H2. destruct H2 as [-> | (sF & -> & Hc2 & Hd)]; [reflexivity|].
  unfold end_script. rewrite Hc2. cbn [andb]. unfold finish. cbn [fst ds set_als].
  rewrite Hd. unfold check_error_condition. cbn [length Nat.eqb negb]. rewrite andb_false_r. reflexivity.
Qed.

Ltac bound := unfold lenZ; cbn [ds als set_ds set_nops set_cond init_st length]; lia.
Ltac top_step H :=
  erewrite run_ops_step;
  [ | rewrite exec_top; [ H | reflexivity | reflexivity | reflexivity | reflexivity | reflexivity | cbn [nops set_ds set_nops set_cond]; lia ]
    | bound ].

Section RunReject.
Variable orc : sig_oracle.
Variable tE : tx.
Variable idx : N.
Variable c : ctx.
Variables sig pk : bytes.
Variable ht : N.
Let so := mk_sigops orc tE idx.
Let full := sig ++ [n2b ht].
Variable L : list pop.
Variable up h : bytes.
Hypothesis Hht : (ht < 256)%N.
Hypothesis Hty : check_hash_type c ht = true.
Hypothesis Henc : check_sig_enc c sig = EncOk.
Hypothesis Hpke : check_pubkey_enc c pk = true.
Hypothesis Hup : forall s, last_sep s = 0%nat -> cur s = L -> unparse (checksig_code_ops c s full ht) = Some up.
Hypothesis Hsh : sighash_for tE idx up ht = SOk h.
Hypothesis Hrej : oracle_accepts orc c pk h sig = false.

Lemma run_lock_script_reject insc bops acc : length (hash160 pk) = 20%nat ->
  (insc = true -> is_push_only bops = true /\ Forall (fun p => lenZ (p_data p) <= max_elem c) bops) ->
  fst (run_ops so c (lock_ops (hash160 pk) insc bops) 0 (mkSt [pk; full] [] [] [] 0 0 false L) acc) = SErr \/
  fst (run_ops so c (lock_ops (hash160 pk) insc bops) 0 (mkSt [pk; full] [] [] [] 0 0 false L) acc) =
  SEnd (mkSt [from_bool false] [] [] [] (if insc then 6 else 4) 0 false L).
Proof.
  intros Hl Hb. unfold lock_ops, p2pkh_lock_ops. cbn [app].
  top_step ltac:(eapply handler_dup; reflexivity).
  top_step ltac:(eapply handler_hash160; reflexivity).
  erewrite run_ops_step; [ | apply exec_push; [lia|reflexivity|reflexivity|lia] | bound ].
  top_step ltac:(eapply handler_equalverify; reflexivity).
  (* OP_CHECKSIG *)
  match goal with |- context [run_ops so c (op1 OP_CHECKSIG :: ?rest) ?i ?s acc] =>
    pose proof (checksig_reject orc tE idx c (set_nops s (nops s + 1)) i sig ht pk [] up h eq_refl Hht Hty Henc Hpke
                  (Hup (set_nops s (nops s + 1)) eq_refl eq_refl) Hsh Hrej) as Hcs;
    assert (Hex : execute_opcode so c (op1 OP_CHECKSIG) i s =
                  so_checksig so c (set_nops s (nops s + 1)) i false)
      by (rewrite exec_top; [apply handler_checksig|reflexivity|reflexivity|reflexivity|reflexivity|reflexivity|
                             cbn [nops set_ds set_nops set_cond]; lia])
  end.
  fold so in Hcs. destruct Hcs as [Hcs|Hcs].
  - left. cbn [run_ops]. rewrite Hex, Hcs. reflexivity.
  - rewrite Hcs in Hex.
    erewrite run_ops_step; [ | exact Hex | bound ].
    destruct insc; cbn [suffix_ops].
    + destruct (Hb eq_refl) as [Hpo Hfa]. unfold inscription_ops.
      erewrite run_ops_step; [ | apply exec_op0; reflexivity | bound ].
      top_step ltac:(eapply handler_if_false; reflexivity).
      erewrite (run_skip so c bops [op1 OP_ENDIF] _ _ COND_FALSE [] _ Hpo Hfa); [ | reflexivity | discriminate | bound ].
      erewrite run_ops_step; [ | eapply exec_endif; [reflexivity|reflexivity|cbn [nops set_ds set_nops set_cond]; lia] | bound ].
      right. reflexivity.
    + right. reflexivity.
Qed.
End RunReject.

(** * C04 (c), relative to the oracle: a well-encoded signature the oracle does not accept over the
    digest the engine recomputes is rejected *)
Theorem signed_p2pkh_rejects : forall (orc : sig_oracle) (t : tx) (idx : N) (inp : input) (flags sats ht : N)
    (sig pk body : bytes) (insc : bool) (bops : list pop) (h : bytes),
  let full := sig ++ [n2b ht] in
  let unlock := p2pkh_unlock sig ht pk in
  let lock := p2pkh_lock (hash160 pk) ++ (if insc then inscription_suffix body else []) in
  let tE := engine_tx t idx unlock lock sats in
  let c := mkCtx (normalise_flags flags) true (Z.of_N (tx_lock t)) (Z.of_N (tx_version t)) (Z.of_N (in_seq inp)) false in
  (ht < 256)%N -> length pk = 33%nat -> (length full <= 75)%nat ->
  (has_flag c F_MINIMALDATA = true -> sig <> []) ->
  (has_flag c F_CLEANSTACK = true -> has_flag c F_BIP16 = true) ->
  lenZ lock <= max_script_size c ->
  (insc = true -> parse_ops (length body) false body 1 = Some bops /\ is_push_only bops = true /\
                  Forall (fun p => lenZ (p_data p) <= max_elem c) bops) ->
  check_hash_type c ht = true -> check_sig_enc c sig = EncOk -> check_pubkey_enc c pk = true ->
  (has_flag c F_FORKID && flag_has ht sh_forkid = true \/
   forall l, parse_script false lock = Some l -> remove_by_data l full = l) ->
  sighash_for tE idx lock ht = SOk h ->
  oracle_accepts orc c pk h sig = false ->
  fst (engine_execute (mk_sigops orc tE idx)
         (mkExecInput unlock lock flags true true (Z.of_N (tx_lock t)) (Z.of_N (tx_version t)) (Z.of_N (in_seq inp)))) = VErr.
Proof.
  intros orc t idx inp flags sats ht sig pk body insc bops h full unlock lock tE c
         Hht Hpk Hfull Hmin Hcs Hsz Hbody Hty Henc Hpke Hstrip Hsh Hrej.
  pose proof (hash160_length pk) as Hl.
  set (lops := lock_ops (hash160 pk) insc bops).
  change lock with (lock_script (hash160 pk) insc body) in *.
  destruct (parse_lock (hash160 pk) insc body bops Hl) as [Hpl Hul].
  { intros Hi. destruct (Hbody Hi) as [H1 [H2 _]]. auto. }
  fold lops in Hpl, Hul.
  assert (Hstrip' : has_flag c F_FORKID && flag_has ht sh_forkid = true \/ remove_by_data lops full = lops).
  { destruct Hstrip as [H|H]; [left; exact H|right; apply H; exact Hpl]. }
  assert (Hncs : remove_opcode lops OP_CODESEPARATOR = lops).
  { apply lock_ops_no_codesep; [exact Hl|]. intros Hi. apply (Hbody Hi). }
  rewrite (engine_execute_run _ unlock lock flags _ _ _ (p2pkh_unlock_ops sig ht pk) lops).
  - fold c. eapply (execute_lock_fails _ c _ lops).
    + discriminate.
    + unfold lops, lock_ops, p2pkh_lock_ops. discriminate.
    + intros acc. apply run_unlock; assumption.
    + reflexivity.
    + intros acc.
      destruct (run_lock_script_reject orc tE idx c sig pk ht lops lock h Hht Hty Henc Hpke) with (insc := insc) (bops := bops) (acc := acc)
        as [E|E]; try assumption.
      * intros s Hs Hc. fold full. rewrite (code_ops_keep c s full ht lops Hs Hc Hstrip' Hncs). exact Hul.
      * intros Hi. apply (Hbody Hi).
      * left. exact E.
      * right. eexists. split; [exact E|]. split; reflexivity.
  - discriminate.
  - exact Hcs.
  - fold c. unfold unlock, p2pkh_unlock, push_direct, lenZ. cbn [app length]. rewrite app_length. cbn [length].
    fold full. unfold max_script_size, max_int32. destruct (after_genesis c); lia.
  - exact Hsz.
  - apply parse_unlock; assumption.
  - exact Hpl.
  - unfold p2pkh_unlock_ops, push_op, is_push_only, lenN, OP_16. cbn [forallb p_val]. fold full. lia.
  - reflexivity.
Qed.

(** the three ways the oracle can fail to accept *)
Lemma oracle_accepts_false_iff orc c pk h sig :
  oracle_accepts orc c pk h sig = false <->
  orc_parse_pub orc pk = false \/ orc_parse_sig orc (uses_der_parser c) sig = false \/
  orc_verify orc pk h sig (uses_der_parser c) <> Some true.
Proof.
  unfold oracle_accepts.
  destruct (orc_parse_pub orc pk), (orc_parse_sig orc (uses_der_parser c) sig),
           (orc_verify orc pk h sig (uses_der_parser c)) as [[|]|]; cbn; split; intros H; auto;
    try discriminate; try (right; right; discriminate);
    destruct H as [H|[H|H]]; try discriminate; congruence.
Qed.

(** the same with the digest CalcInputSignatureHash gives on the transaction object (what a signer or
    a harness computes), through [engine_digest_is_signed_digest]: whenever the oracle does not accept the
    signature over the digest of the transaction AS IT NOW IS (e.g. after a mutation of a committed
    field made that digest a different one), the input is rejected *)
Corollary signed_p2pkh_rejects_unlocker_digest : forall (orc : sig_oracle) (t : tx) (idx : N) (inp : input)
    (flags sats ht : N) (sig pk body : bytes) (insc : bool) (bops : list pop) (h : bytes),
  let full := sig ++ [n2b ht] in
  let unlock := p2pkh_unlock sig ht pk in
  let lock := p2pkh_lock (hash160 pk) ++ (if insc then inscription_suffix body else []) in
  let tE := engine_tx t idx unlock lock sats in
  let c := mkCtx (normalise_flags flags) true (Z.of_N (tx_lock t)) (Z.of_N (tx_version t)) (Z.of_N (in_seq inp)) false in
  wf_tx t -> nthN (tx_ins t) idx = Some inp -> in_script inp = Some lock -> in_sats inp = sats ->
  (idx + 1 < two32)%N ->
  (ht < 256)%N -> length pk = 33%nat -> (length full <= 75)%nat ->
  (has_flag c F_MINIMALDATA = true -> sig <> []) ->
  (has_flag c F_CLEANSTACK = true -> has_flag c F_BIP16 = true) ->
  lenZ lock <= max_script_size c ->
  (insc = true -> parse_ops (length body) false body 1 = Some bops /\ is_push_only bops = true /\
                  Forall (fun p => lenZ (p_data p) <= max_elem c) bops) ->
  check_hash_type c ht = true -> check_sig_enc c sig = EncOk -> check_pubkey_enc c pk = true ->
  (has_flag c F_FORKID && flag_has ht sh_forkid = true \/
   forall l, parse_script false lock = Some l -> remove_by_data l full = l) ->
  fst (calc_input_signature_hash t idx ht) = SOk h ->
  oracle_accepts orc c pk h sig = false ->
  fst (engine_execute (mk_sigops orc tE idx)
         (mkExecInput unlock lock flags true true (Z.of_N (tx_lock t)) (Z.of_N (tx_version t)) (Z.of_N (in_seq inp)))) = VErr.
Proof.
  intros orc t idx inp flags sats ht sig pk body insc bops h full unlock lock tE c
         Hwf Hn Hsc Hsats Hidx Hht Hpk Hfull Hmin Hcs Hsz Hbody Hty Henc Hpke Hstrip Hsh Hrej.
  apply (signed_p2pkh_rejects orc t idx inp flags sats ht sig pk body insc bops h); try assumption.
  fold full unlock lock. rewrite <- Hsh.
  apply (engine_digest_is_signed_digest t idx inp unlock lock sats ht); try assumption.
  unfold wf_script, unlock, p2pkh_unlock, push_direct, lenN, two64. cbn [app length]. rewrite app_length. cbn [length].
  fold full. lia.
Qed.

(** * instances (non-vacuity; used by Properties/C04.v) *)
(** an oracle that parses everything and verifies nothing *)
Definition no_orc : sig_oracle := mkOracle (fun _ => true) (fun _ _ => true) (fun _ _ _ _ => Some false).
(** an oracle that accepts [ex_sig] only over one digest *)
Definition only_orc (h0 : bytes) : sig_oracle :=
  mkOracle (fun _ => true) (fun _ _ => true) (fun _ h _ _ => Some (bytes_eqb h h0)).
