(** C19 — the snapshots of a WHOLE run chain, across script changes.

    The states of which the AfterStep snapshots of [engine_execute] are taken form a path: each is obtained from the
    previous one (the first from the initial state) by one instruction ([L_step]), or by one instruction followed by a
    script change: the alt stack is dropped and the per-script registers are reset ([L_change]; the instruction may be an
    early OP_RETURN), and on entering a P2SH redeem script the data stack is replaced by the stack the unlocking script
    left, minus the redeem script itself ([L_p2sh]). *)
From Coq Require Import List NArith ZArith Lia Bool.
From Coq Require Import Strings.Byte.
From GoBT Require Import lib.Bytes model.ScriptNum model.Interp model.Debug
  proofs.InterpTotal proofs.DebugProofs proofs.DebugWith proofs.InterpLimits proofs.OpCount.
Import ListNotations.
Local Open Scope Z_scope.

(** the states at the AfterStep callbacks of a recorded run *)
Definition as_states (tr : list (ev * st)) : list st := map snd (filter (fun es => ev_eqb (fst es) AS) tr).

Lemma as_rec e s l : as_states (rec e s l) = as_states l ++ (if ev_eqb e AS then [s] else []).
Proof.
  unfold as_states, rec, record. rewrite filter_app, map_app. cbn [filter fst]. destruct (ev_eqb e AS); reflexivity.
Qed.

Fixpoint path {A} (R : A -> A -> Prop) (a : A) (l : list A) : Prop :=
  match l with [] => True | x :: r => R a x /\ path R x r end.

Lemma path_snoc {A} (R : A -> A -> Prop) : forall l a x, path R a l -> R (last l a) x -> path R a (l ++ [x]).
Proof.
  induction l as [|y l IH]; intros a x Hp Hr; cbn [app path] in *; [auto|].
  destruct Hp as [H1 H2]. split; [exact H1|]. apply IH; [exact H2|]. rewrite (last_shift l y a). exact Hr.
Qed.
Lemma last_snoc {A} (l : list A) x d : last (l ++ [x]) d = x.
Proof. induction l as [|y l IH]; [reflexivity|]. cbn [app last]. destruct (l ++ [x]) eqn:E; [destruct l; discriminate|exact IH]. Qed.

Section Chain.
  Variable so : sigops.
  Variable c : ctx.
  Variable saved : list bytes.       (* the stack the unlocking script left (savedFirstStack) *)
  Variable start : st.               (* the state the run starts in *)

  Inductive link : st -> st -> Prop :=
  | L_step p idx s s' : execute_opcode so c p idx s = OOk s' -> link s s'
  | L_change p idx s s1 next :
      execute_opcode so c p idx s = OOk s1 \/ execute_opcode so c p idx s = OReturn s1 ->
      link s (shift_script (set_als s1 []) next)
  | L_p2sh p idx s s1 script below ops :
      execute_opcode so c p idx s = OOk s1 -> saved = script :: below ->
      parse_script (c_err_on_checksig c) script = Some ops ->
      link s (set_ds (shift_script (set_als s1 []) ops) below).

  Definition good (l : list (ev * st)) (acc : list snapshot) : Prop :=
    map snap (as_states l) = rev acc /\ path link start (as_states l).
  Definition cur (l : list (ev * st)) : st := last (as_states l) start.
  Definition final (r : verdict * list snapshot * list (ev * st)) : Prop :=
    map snap (as_states (snd r)) = snd (fst r) /\ path link start (as_states (snd r)).

  Ltac as_simpl := rewrite ?as_rec; cbn [ev_eqb app]; rewrite ?app_nil_r.

  Lemma good_AS l acc s' : good l acc -> link (cur l) s' -> good (rec AS s' l) (snap s' :: acc) /\ cur (rec AS s' l) = s'.
  Proof.
    intros [A B] Hl. unfold good, cur. as_simpl. rewrite map_app, A. cbn [map rev]. repeat split.
    - apply path_snoc; assumption.
    - apply last_snoc.
  Qed.

  Lemma run_ops_em_chain : forall ops idx s acc l, ops <> [] -> good l acc -> cur l = s ->
    good (snd (snd (run_ops_em rec so c ops idx s acc l))) (snd (fst (run_ops_em rec so c ops idx s acc l))) /\
    match fst (fst (run_ops_em rec so c ops idx s acc l)) with
    | SEnd s2 => exists p i, execute_opcode so c p i (cur (snd (snd (run_ops_em rec so c ops idx s acc l)))) = OOk s2
    | SReturn s2 => exists p i, execute_opcode so c p i (cur (snd (snd (run_ops_em rec so c ops idx s acc l)))) = OReturn s2
    | SErr | SPanic => True
    end.
  Proof.
    induction ops as [|p rest IH]; intros idx s acc l Hne Hg Hc; [congruence|].
    cbn [run_ops_em].
    assert (Hkeep : forall e1 e2 e3 s1 s2 s3, ev_eqb e1 AS = false -> ev_eqb e2 AS = false -> ev_eqb e3 AS = false ->
              good (rec e1 s1 (rec e2 s2 (rec e3 s3 l))) acc /\ cur (rec e1 s1 (rec e2 s2 (rec e3 s3 l))) = s).
    { intros e1 e2 e3 s1 s2 s3 E1 E2 E3. unfold good, cur. rewrite !as_rec, E1, E2, E3, !app_nil_r. split; [exact Hg|exact Hc]. }
    assert (Hkeep2 : forall e1 e2 s1 s2, ev_eqb e1 AS = false -> ev_eqb e2 AS = false ->
              good (rec e1 s1 (rec e2 s2 l)) acc /\ cur (rec e1 s1 (rec e2 s2 l)) = s).
    { intros e1 e2 s1 s2 E1 E2. unfold good, cur. rewrite !as_rec, E1, E2, !app_nil_r. split; [exact Hg|exact Hc]. }
    destruct (execute_opcode so c p idx s) as [s'|s'| |] eqn:Ex; cbn [fst snd].
    - destruct (Hkeep AO BO BS s' s s eq_refl eq_refl eq_refl) as [G C].
      destruct (max_stack c <? lenZ (ds s') + lenZ (als s')); cbn [fst snd]; [split; [exact G|exact I]|].
      destruct rest as [|q rest2]; cbn [fst snd].
      + split; [exact G|]. exists p, idx. rewrite C. exact Ex.
      + assert (Hl : link (cur (rec AO s' (rec BO s (rec BS s l)))) s') by (rewrite C; exact (L_step p idx s s' Ex)).
        destruct (good_AS _ _ s' G Hl) as [G2 C2].
        apply IH; [discriminate|exact G2|exact C2].
    - destruct (Hkeep2 BO BS s s eq_refl eq_refl) as [G C]. split; [exact G|]. exists p, idx. rewrite C. exact Ex.
    - destruct (Hkeep2 BO BS s s eq_refl eq_refl) as [G C]. split; [exact G|exact I].
    - destruct (Hkeep2 BO BS s s eq_refl eq_refl) as [G C]. split; [exact G|exact I].
  Qed.

  Lemma good_final_finish s acc l : good l acc -> final (finish_em rec c s acc l).
  Proof.
    intros [A B]. unfold finish_em, final. destruct (check_error_condition c true (ds s)); cbn [fst snd]; as_simpl; auto.
  Qed.
  Lemma good_final_err s acc l : good l acc -> final (err_em rec s acc l).
  Proof. intros [A B]. unfold err_em, final. cbn [fst snd]. as_simpl. auto. Qed.
  Lemma good_final_panic s acc l : good l acc -> final (panic_em rec s acc l).
  Proof. intros [A B]. unfold panic_em, final. cbn [fst snd]. as_simpl. auto. Qed.

  (** a script change: BC, AC, AS *)
  Lemma good_change l acc sb s' : good l acc -> link (cur l) s' ->
    good (rec AS s' (change_em rec sb s' l)) (snap s' :: acc) /\ cur (rec AS s' (change_em rec sb s' l)) = s'.
  Proof.
    intros G Hl. unfold change_em. apply good_AS.
    - destruct G as [A B]. unfold good. as_simpl. auto.
    - unfold cur in *. as_simpl. exact Hl.
  Qed.

  Ltac use_run_ops_chain G C :=
    match goal with |- context [run_ops_em rec so c ?ops ?i ?s ?acc ?l] =>
      let Hne := fresh "Hne" in
      assert (Hne : ops <> []) by discriminate;
      destruct (run_ops_em_chain ops i s acc l Hne G C) as [G' Hend];
      destruct (run_ops_em rec so c ops i s acc l) as [[e acc'] [sl l']];
      cbn [fst snd] in G', Hend
    end.

  Lemma end_script_eq s s' : end_script s = Some s' -> s' = set_als s [].
  Proof. unfold end_script. destruct (cond s); [|discriminate]. intros [= <-]. reflexivity. Qed.

  Lemma run_redeem_em_chain s2 acc l : good l acc ->
    (exists p i, execute_opcode so c p i (cur l) = OOk s2) ->
    final (run_redeem_em rec so c saved (set_als s2 []) acc l).
  Proof.
    intros G (p0 & i0 & Hex). unfold run_redeem_em.
    destruct (negb (check_error_condition c false (ds (set_als s2 [])))); [apply good_final_err; exact G|].
    destruct saved as [|script below] eqn:Esv; [apply good_final_panic; exact G|].
    destruct (parse_script (c_err_on_checksig c) script) as [ops|] eqn:Ep; [|apply good_final_err; exact G].
    cbv zeta.
    assert (Hl : link (cur l) (set_ds (shift_script (set_als s2 []) ops) below)).
    { eapply L_p2sh; eauto. }
    destruct (good_AS l acc _ G Hl) as [G1 C1].
    destruct ops as [|p rest]; [apply good_final_finish; exact G1|].
    use_run_ops_chain G1 C1.
    destruct e as [s3|s3| |]; [| |apply good_final_err; exact G'|apply good_final_panic; exact G'].
    - destruct (end_script s3) as [s4|] eqn:Ee; [|apply good_final_err; exact G'].
      rewrite (end_script_eq _ _ Ee). destruct Hend as (p1 & i1 & H1).
      apply good_final_finish. apply good_change; [exact G'|]. eapply L_change. left. exact H1.
    - destruct Hend as (p1 & i1 & H1).
      apply good_final_finish. apply good_change; [exact G'|]. eapply L_change. right. exact H1.
  Qed.

  Lemma run_lock_em_chain bip16 lock s acc l : lock <> [] -> good l acc -> cur l = s ->
    final (run_lock_em rec so c bip16 saved lock s acc l).
  Proof.
    intros Hlock G C. unfold run_lock_em.
    destruct lock as [|lo lrest]; [congruence|].
    use_run_ops_chain G C.
    destruct e as [s2|s2| |]; [| |apply good_final_err; exact G'|apply good_final_panic; exact G'].
    - destruct (end_script s2) as [s3|] eqn:Ee; [|apply good_final_err; exact G'].
      rewrite (end_script_eq _ _ Ee). destruct Hend as (p1 & i1 & H1). cbv zeta.
      destruct (bip16 && negb (after_genesis c)).
      + apply run_redeem_em_chain.
        * destruct G' as [A B]. unfold good, change_em. rewrite !as_rec. cbn [ev_eqb app]. rewrite !app_nil_r. auto.
        * exists p1, i1. unfold cur, change_em in *. rewrite !as_rec. cbn [ev_eqb app]. rewrite !app_nil_r. exact H1.
      + apply good_final_finish. apply good_change; [exact G'|]. eapply L_change. left. exact H1.
    - destruct Hend as (p1 & i1 & H1).
      apply good_final_finish. apply good_change; [exact G'|]. eapply L_change. right. exact H1.
  Qed.
End Chain.

(** the stack the unlocking script leaves: what thread.Step saves for P2SH *)
Definition saved_stack (so : sigops) (c : ctx) (unlock : list pop) : list bytes :=
  match unlock with
  | [] => []
  | _ => match fst (run_ops so c unlock 0 (init_st unlock) []) with SEnd s1 => ds s1 | _ => [] end
  end.
Definition start_state (unlock lock : list pop) : st :=
  match unlock with [] => init_st lock | _ => init_st unlock end.

Lemma run_ops_em_rec_fst so c ops idx s acc l :
  fst (run_ops_em rec so c ops idx s acc l) = run_ops so c ops idx s acc.
Proof. destruct (run_ops_em_dbg so c ops idx s acc l) as [A _]. rewrite A. apply run_ops_dbg_fst. Qed.

Lemma good_start so c saved start : good so c saved start (rec BE start []) [] /\ cur start (rec BE start []) = start.
Proof. unfold good, cur; cbn; auto. Qed.

Lemma execute_em_chain so c bip16 unlock lock :
  final so c (saved_stack so c unlock) (start_state unlock lock) (execute_em rec so c bip16 unlock lock []).
Proof.
  unfold execute_em, saved_stack, start_state. destruct unlock as [|u urest].
  - destruct lock as [|lo lrest]; [split; [reflexivity|exact I]|].
    destruct (good_start so c [] (init_st (lo :: lrest))) as [G C].
    apply run_lock_em_chain; [discriminate|exact G|exact C].
  - set (unlock := u :: urest).
    pose proof (run_ops_em_rec_fst so c unlock 0 (init_st unlock) [] (rec BE (init_st unlock) [])) as Hfst.
    set (sv := match fst (run_ops so c unlock 0 (init_st unlock) []) with SEnd s1 => ds s1 | _ => [] end).
    destruct (good_start so c sv (init_st unlock)) as [G C].
    assert (Hne : unlock <> []) by discriminate.
    destruct (run_ops_em_chain so c sv (init_st unlock) unlock 0%nat (init_st unlock) [] _ Hne G C) as [G' Hend].
    destruct (run_ops_em rec so c unlock 0 (init_st unlock) [] (rec BE (init_st unlock) [])) as [[e acc'] [sl l']].
    cbn [fst snd] in G', Hend, Hfst.
    destruct e as [s1|s1| |]; [| |apply good_final_err; exact G'|apply good_final_panic; exact G'].
    + destruct (end_script s1) as [s2|] eqn:Ee; [|apply good_final_err; exact G'].
      rewrite (end_script_eq _ _ Ee). destruct Hend as (p1 & i1 & H1). cbv zeta.
      assert (Hsv : sv = ds (shift_script (set_als s1 []) lock)) by (subst sv; rewrite <- Hfst; reflexivity).
      destruct (good_change so c sv (init_st unlock) l' acc' (set_als s1 []) (shift_script (set_als s1 []) lock) G')
        as [G2 C2]; [eapply L_change; left; exact H1|].
      destruct lock as [|lo lrest]; [apply good_final_finish; exact G2|].
      rewrite <- Hsv. apply run_lock_em_chain; [discriminate|exact G2|exact C2].
    + destruct Hend as (p1 & i1 & H1). cbv zeta.
      assert (Hsv : sv = []) by (subst sv; rewrite <- Hfst; reflexivity).
      destruct (good_change so c sv (init_st unlock) l' acc' (set_als s1 []) (shift_script (set_als s1 []) lock) G')
        as [G2 C2]; [eapply L_change; right; exact H1|].
      destruct lock as [|lo lrest]; [apply good_final_finish; exact G2|].
      match goal with |- final _ _ _ _ (run_lock_em rec so c bip16 [] ?lk ?x ?y ?z) =>
        replace (run_lock_em rec so c bip16 [] lk x y z) with (run_lock_em rec so c bip16 sv lk x y z)
          by (rewrite Hsv; reflexivity) end.
      apply run_lock_em_chain; [discriminate|exact G2|exact C2].
Qed.

(** ** The statement about [execute] itself *)
Theorem execute_snapshots_chain : forall so c bip16 unlock lock,
  exists sts : list st,
    snd (execute so c bip16 unlock lock) = map snap sts /\
    path (link so c (saved_stack so c unlock)) (start_state unlock lock) sts.
Proof.
  intros so c bip16 unlock lock.
  destruct (execute_em_chain so c bip16 unlock lock) as [A B].
  exists (as_states (snd (execute_em rec so c bip16 unlock lock []))). split; [|exact B].
  rewrite A. destruct (execute_em_dbg so c bip16 unlock lock []) as [E _]. rewrite E, execute_dbg_fst. reflexivity.
Qed.

(** ... and about [engine_execute]: the scripts are the parsed arguments *)
Theorem engine_snapshots_chain : forall so i,
  snd (engine_execute so i) = [] \/
  exists u l (sts : list st),
    parse_script (c_err_on_checksig (engine_ctx i)) (ei_unlock i) = Some u /\
    parse_script (c_err_on_checksig (engine_ctx i)) (ei_lock i) = Some l /\
    snd (engine_execute so i) = map snap sts /\
    path (link so (engine_ctx i) (saved_stack so (engine_ctx i) u)) (start_state u l) sts.
Proof.
  intros so i. unfold engine_execute. fold (engine_ctx i). set (c := engine_ctx i).
  destruct (ei_unlock i) as [|ub ur]; destruct (ei_lock i) as [|lb lr]; [left; reflexivity| | |];
    (destruct (has_flag c F_CLEANSTACK && negb (has_flag c F_BIP16)); [left; reflexivity|];
     destruct ((max_script_size c <? _) || (max_script_size c <? _)); [left; reflexivity|];
     match goal with |- context [match parse_script ?a ?b with _ => _ end] => destruct (parse_script a b) as [u|] end;
       [|left; reflexivity];
     match goal with |- context [match parse_script ?a ?b with _ => _ end] => destruct (parse_script a b) as [lk|] end;
       [|left; reflexivity];
     destruct (has_flag c F_SIGPUSHONLY && _); [left; reflexivity|];
     cbv zeta;
     match goal with |- context [if ?b then _ else _] => destruct b end;
       [left; reflexivity|];
     right;
     match goal with |- context [execute so c ?b ?uu ?ll] =>
       destruct (execute_snapshots_chain so c b uu ll) as (sts & A & B); exists uu, ll, sts; auto end).
Qed.

Print Assumptions execute_snapshots_chain.
Print Assumptions engine_snapshots_chain.

(** the AfterStep states of the whole-run trace [engine_states] are the states the snapshots of [engine_execute] are
    taken of: statements about every state of [engine_states] cover every snapshot a debugger is shown *)
Theorem engine_states_cover_snapshots : forall so i,
  map snap (as_states (engine_states so i)) = snd (engine_execute so i).
Proof.
  intros so i. unfold engine_states, engine_execute, engine_execute_em. fold rec. set (c := mkCtx _ _ _ _ _ _).
  destruct (ei_unlock i) as [|ub ur]; destruct (ei_lock i) as [|lb lr]; [reflexivity| | |];
    (destruct (has_flag c F_CLEANSTACK && negb (has_flag c F_BIP16)); [reflexivity|];
     destruct ((max_script_size c <? _) || (max_script_size c <? _)); [reflexivity|];
     match goal with |- context [match parse_script ?a ?b with _ => _ end] => destruct (parse_script a b) as [u|] end;
       [|reflexivity];
     match goal with |- context [match parse_script ?a ?b with _ => _ end] => destruct (parse_script a b) as [lk|] end;
       [|reflexivity];
     destruct (has_flag c F_SIGPUSHONLY && _); [reflexivity|];
     cbv zeta;
     match goal with |- context [if ?b then _ else _] => destruct b end;
       [reflexivity|];
     match goal with |- context [execute so c ?b ?uu ?ll] =>
       destruct (execute_em_chain so c b uu ll) as [A _]; rewrite A;
       destruct (execute_em_dbg so c b uu ll []) as [E _]; rewrite E, execute_dbg_fst; reflexivity end).
Qed.
Print Assumptions engine_states_cover_snapshots.
