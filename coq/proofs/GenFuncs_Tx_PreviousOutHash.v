(** Tx.PreviousOutHash (txinput.go), as printed from the Go source, is [previous_out_hash] of model/SigHash.v.
    TRUSTED mappings used (lib/GoTx.v): crypto.Sha256d -> [sha256d], ReverseBytes -> [rev].  Input.PreviousTxID is the
    printed getter. *)
From Coq Require Import List ZArith NArith Bool Lia ZifyN ZifyNat ZifyBool.
From Coq Require Import Strings.Byte.
From GoBT Require Import lib.Bytes lib.VarInt lib.GoSem lib.GoTx gen.Funcs proofs.GenFuncsTac proofs.GenFuncsTxTac model.Tx model.SigHash.
Import ListNotations.
Ltac Zify.zify_post_hook ::= Z.div_mod_to_equations.
Local Open Scope Z_scope.

Ltac tx_extra ::= progress unfold Input_PreviousTxID.

Definition outpoint_step (h : bytes) (g : go_Input) : bytes :=
  h ++ rev (in_txid (input_of_go g)) ++ le_enc 4 (in_vout (input_of_go g)).

Lemma Tx_PreviousOutHash_is_model ins outs ver lock : Forall go_input_ok ins -> len_ok ins ->
  Tx_PreviousOutHash (map Some ins) = Val (previous_out_hash (tx_of_go ins outs ver lock)).
Proof.
  intros Hins Hl. unfold Tx_PreviousOutHash. tx_norm.
  tx_loop ins outpoint_step go_input_ok Hins;
    [ tx_norm; apply Val_inj; unfold outpoint_step; rewrite (fold_left_app_concat (fun g => rev (in_txid (input_of_go g)) ++ le_enc 4 (in_vout (input_of_go g))));
      unfold previous_out_hash, tx_of_go; cbn [tx_ins app]; rewrite map_map; reflexivity
    | intros i g h Hg; try intros Hidx; tx_norm; tx_next_eq; unfold outpoint_step, input_of_go; cbn [in_txid in_vout]; tx_bytes_eq ].
Qed.
