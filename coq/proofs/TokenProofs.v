(** The two tokenisers of the library (bscript.DecodeParts and interpreter Parse) agree on every
    script without an OP_RETURN opcode, and both reject every truncated push. *)
From Coq Require Import List NArith Lia ZifyN ZifyNat ZifyBool ZArith Bool String.
From Coq Require Import Strings.Byte.
From GoBT Require Import lib.Bytes lib.Checked model.Push model.Parser spec.PushSpec proofs.PushProofs proofs.ParserProofs.
Import ListNotations.
Ltac Zify.zify_post_hook ::= Z.div_mod_to_equations.
Local Open Scope N_scope.
Local Open Scope bool_scope.

(** same verdict; and when both succeed, the same tokens: the i-th part of DecodeParts is the data
    of the i-th parsed opcode when that is a push, and the opcode byte itself otherwise.  Together
    with [unparse_parse] (the opcodes' bytes concatenate to the script) this fixes where every push
    begins and ends. *)
Definition agree_from (cb : Z) (s : bytes) : Prop :=
  match decode_parts s, parse_from false cb s with
  | DOk parts, Ok ops => parts = map part_of ops
  | DErr _, Err => True
  | _, _ => False
  end.

Lemma x6a_iff b : b2n b = 106 <-> b = x6a.
Proof. split; [intros H; apply b2n_inj; exact H|intros ->; reflexivity]. Qed.

Lemma part_of_step op d : op < 256 ->
  part_of (mkPop op (match push_kind op with KOp => [] | _ => d end) (expected_len op) false) =
  match push_kind op with KOp => [n2b op] | _ => d end.
Proof.
  intros Hlt. unfold part_of, is_push_len, expected_len. cbn [p_len p_data p_op].
  destruct (push_kind_cases op Hlt) as [[E K]|[[E K]|[[E K]|[[E K]|[E K]]]]]; rewrite K; try reflexivity.
  replace (Z.of_N op + 1 =? 1)%Z with false by lia. reflexivity.
Qed.

Theorem tokenisers_agree_from : forall s cb, ~ op_return_at_boundary s -> agree_from cb s.
Proof.
  induction s as [s IH] using bytes_len_ind. intros cb Hno. unfold agree_from.
  destruct s as [|b0 r]; [rewrite decode_parts_nil, parse_from_nil; reflexivity|].
  rewrite decode_parts_cons, parse_from_cons. cbn [parse_step_clean andb]. cbv zeta.
  assert (b2n b0 =? OP_RETURN = false) as E106.
  { unfold OP_RETURN. destruct (b2n b0 =? 106) eqn:E; [|reflexivity]. exfalso. apply Hno.
    assert (b0 = x6a) as -> by (apply x6a_iff; lia). constructor. }
  rewrite E106. cbn [andb].
  destruct (decode_step_clean (b0 :: r)) as [d rest| |] eqn:ED.
  - pose proof (decode_step_clean_shorter _ _ _ ED) as Hs.
    assert (~ op_return_at_boundary rest) as Hno'.
    { intros Hr. apply Hno. destruct (decode_step_inv _ _ _ _ ED) as [(Hnp & _ & -> & _)|(hdr & Hh & -> & _)].
      - apply orb_op; assumption.
      - apply orb_push; assumption. }
    specialize (IH rest Hs (cb_next (b2n b0) cb) Hno'). unfold agree_from in IH.
    destruct (decode_parts rest) as [parts|parts| |]; destruct (parse_from false (cb_next (b2n b0) cb) rest) as [ops| | |];
      cbn [dcons ocons]; try exact IH; try contradiction.
    cbn [map]. rewrite part_of_step by apply b2n_lt. f_equal; [|exact IH].
    destruct (decode_step_inv _ _ _ _ ED) as [(_ & -> & _ & K)|(hdr & _ & _ & K)].
    + rewrite K, n2b_b2n. reflexivity.
    + destruct (push_kind (b2n b0)); [congruence|reflexivity|reflexivity].
  - exact I.
  - exfalso. eapply decode_step_clean_no_panic; eauto.
Qed.

Definition agree (s : bytes) : Prop :=
  match decode_parts s, parse false s with
  | DOk parts, Ok ops => parts = map part_of ops
  | DErr _, Err => True
  | _, _ => False
  end.

Theorem tokenisers_agree s : ~ op_return_at_boundary s -> agree s.
Proof. intros H. apply (tokenisers_agree_from s 0%Z H). Qed.

(** the hypothesis is met, for instance, by every script that does not contain the byte 0x6a at all *)
Lemma no_6a_no_return s : ~ In x6a s -> ~ op_return_at_boundary s.
Proof.
  intros Hin Hr. induction Hr as [r|b r Hb Hr IH|hdr data r Hh Hr IH].
  - apply Hin. left. reflexivity.
  - apply IH. intros Hi. apply Hin. right. exact Hi.
  - apply IH. intros Hi. apply Hin. apply in_or_app. right. apply in_or_app. right. exact Hi.
Qed.

(** ** truncated pushes *)
Lemma push_header_first hdr n : push_header hdr n -> exists h0 htl, hdr = h0 :: htl /\ 1 <= b2n h0 <= 78.
Proof.
  intros H. inversion H as [m Hm|m Hm|m Hm|m Hm]; subst.
  - exists (n2b n), []. split; [reflexivity|]. rewrite b2n_n2b_small by lia. lia.
  - exists x4c, [n2b n]. split; [reflexivity|]. change (b2n x4c) with 76. lia.
  - exists x4d, (le_enc 2 n). split; [reflexivity|]. change (b2n x4d) with 77. lia.
  - exists x4e, (le_enc 4 n). split; [reflexivity|]. change (b2n x4e) with 78. lia.
Qed.

Lemma take_data_short l r : lenN r < l -> take_data l r = DSErr.
Proof. intros H. unfold take_data. replace (lenN r <? l) with true by lia. reflexivity. Qed.

Lemma app_suffix_shorter (a b c : bytes) : b <> [] -> a ++ b = c -> lenN a < lenN c.
Proof. intros Hb <-. rewrite lenN_app. destruct b; [congruence|]. rewrite lenN_cons. lia. Qed.

Lemma truncated_step t : truncated_push t ->
  exists b0 tr, t = b0 :: tr /\ 1 <= b2n b0 <= 78 /\ decode_step_clean t = DSErr.
Proof.
  intros (hdr & data & suffix & Hh & Hne & Hsuf & E).
  destruct t as [|b0 tr]; [congruence|]. exists b0, tr. split; [reflexivity|].
  inversion Hh as [n Hn E1 E2|n Hn E1 E2|n Hn E1 E2|n Hn E1 E2]; subst n; rewrite <- E1 in E; cbn [app] in E;
    injection E as Eb Er; subst b0; cbn [decode_step_clean].
  - rewrite b2n_n2b_small by lia. split; [lia|]. unfold push_kind.
    replace (lenN data =? 76) with false by lia. replace (lenN data =? 77) with false by lia.
    replace (lenN data =? 78) with false by lia. replace ((1 <=? lenN data) && (lenN data <=? 75)) with true by lia.
    apply take_data_short. eapply app_suffix_shorter; eauto.
  - change (b2n x4c) with 76. split; [lia|]. cbn [push_kind N.eqb Pos.eqb].
    destruct tr as [|l1 tr']; [reflexivity|]. cbn [app] in Er. injection Er as El Er. subst l1.
    rewrite lenN_cons. replace (1 + lenN tr' <? N.of_nat 1) with false by lia.
    cbn [firstn skipn le_dec]. rewrite b2n_n2b_small by lia. replace (lenN data + 256 * 0) with (lenN data) by lia.
    apply take_data_short. eapply app_suffix_shorter; eauto.
  - change (b2n x4d) with 77. split; [lia|]. cbn [push_kind N.eqb Pos.eqb].
    pose proof (le_dec_enc 2 (lenN data)) as LD. cbn [le_enc] in LD, Er.
    destruct tr as [|a [|b tr']]; try reflexivity. cbn [app] in Er. injection Er as Ea Eb2 Er. subst a b.
    rewrite !lenN_cons. replace (1 + (1 + lenN tr') <? N.of_nat 2) with false by lia.
    cbn [firstn skipn]. rewrite LD by (change (256 ^ N.of_nat 2) with 65536; lia).
    apply take_data_short. eapply app_suffix_shorter; eauto.
  - change (b2n x4e) with 78. split; [lia|]. cbn [push_kind N.eqb Pos.eqb].
    pose proof (le_dec_enc 4 (lenN data)) as LD. cbn [le_enc] in LD, Er.
    destruct tr as [|a [|b [|c [|d tr']]]]; try reflexivity. cbn [app] in Er. injection Er as Ea Eb2 Ec Ed Er. subst a b c d.
    rewrite !lenN_cons. replace (1 + (1 + (1 + (1 + lenN tr'))) <? N.of_nat 4) with false by lia.
    cbn [firstn skipn]. rewrite LD by (change (256 ^ N.of_nat 4) with 4294967296; lia).
    apply take_data_short. eapply app_suffix_shorter; eauto.
Qed.


Lemma requires_tx_push op : op <= 78 -> requires_tx op = false.
Proof.
  intros H. unfold requires_tx, OP_CHECKSIG, OP_CHECKSIGVERIFY, OP_CHECKMULTISIG, OP_CHECKMULTISIGVERIFY, OP_CHECKSEQUENCEVERIFY. lia.
Qed.

Lemma dres_ok_dcons p r : dres_ok (dcons p r) = dres_ok r.
Proof. destruct r; reflexivity. Qed.
Lemma ocons_err {A} (a : A) : ocons a Err = Err.
Proof. reflexivity. Qed.

(** a truncated push after any well-formed, OP_RETURN-free prefix: DecodeParts returns an error
    and so does Parse, with or without ErrorOnCheckSig, at any conditional depth *)
Theorem truncated_push_rejected pre t : tokens_no_return pre -> truncated_push t ->
  dres_ok (decode_parts (pre ++ t)) = false /\ forall eocs cb, parse_from eocs cb (pre ++ t) = Err.
Proof.
  intros Hpre Ht. destruct (truncated_step t Ht) as (b0 & tr & -> & Hb0 & Hstep).
  induction Hpre as [|b r Hb Hne Hr IH|hdr data r Hh Hr IH].
  - cbn [app]. split.
    + rewrite decode_parts_cons, Hstep. reflexivity.
    + intros eocs cb. rewrite parse_from_cons. cbn [parse_step_clean]. cbv zeta.
      rewrite requires_tx_push by lia. rewrite andb_false_r.
      replace (b2n b0 =? OP_RETURN) with false by (unfold OP_RETURN; lia). cbn [andb].
      rewrite Hstep. reflexivity.
  - destruct IH as [IH1 IH2]. cbn [app]. split.
    + rewrite decode_parts_op by assumption. rewrite dres_ok_dcons. exact IH1.
    + intros eocs cb. rewrite parse_from_cons. cbn [parse_step_clean]. cbv zeta.
      destruct (eocs && requires_tx (b2n b)); [reflexivity|].
      replace (b2n b =? OP_RETURN) with false by (unfold OP_RETURN; destruct (b2n b =? 106) eqn:E; [|reflexivity];
        exfalso; apply Hne; apply x6a_iff; lia). cbn [andb].
      pose proof (b2n_lt b) as Hlt. unfold non_push in Hb.
      destruct (push_kind_cases (b2n b) Hlt) as [[E K]|[[E K]|[[E K]|[[E K]|[E K]]]]]; try lia.
      cbn [decode_step_clean]. rewrite K. rewrite IH2. reflexivity.
  - destruct IH as [IH1 IH2]. rewrite <- !app_assoc. split.
    + rewrite decode_parts_push by assumption. rewrite dres_ok_dcons. exact IH1.
    + intros eocs cb. destruct (push_header_first _ _ Hh) as (h0 & htl & Eh & Hh0).
      pose proof (decode_step_push hdr data (r ++ b0 :: tr) Hh) as S. rewrite Eh in *. cbn [app] in *.
      rewrite parse_from_cons. cbn [parse_step_clean]. cbv zeta.
      rewrite requires_tx_push by lia. rewrite andb_false_r.
      replace (b2n h0 =? OP_RETURN) with false by (unfold OP_RETURN; lia). cbn [andb].
      rewrite S. rewrite IH2. reflexivity.
Qed.

(** the hex and JSON decoders have no notion of a push: they return the bytes unchanged
    ([hex_roundtrip], [json_roundtrip]), so a truncated push is reported by whichever tokeniser
    reads the script next *)
