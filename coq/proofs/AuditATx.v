(** Audit A, C01: what holds of every byte string the decoder ACCEPTS (not only of library-made
    serialisations): the parsed transaction is well-formed, a standard-format result is never the
    ambiguous shape, the minimality flag means exactly "the bytes are their own re-serialisation",
    and parse -> serialise -> parse is stable. *)
From Coq Require Import List NArith Lia Bool ZifyN ZifyNat.
From Coq Require Import Strings.Byte.
From GoBT Require Import lib.Bytes lib.Parse lib.VarInt lib.Sha256 model.Tx proofs.TxProofs.
Import ListNotations.
Local Open Scope N_scope.


Lemma le_dec_lt_k k x : length x = k -> le_dec x < 256 ^ N.of_nat k.
Proof. intros <-. apply le_dec_lt. Qed.

Lemma read_varint_range bs v m n rest : read_varint bs = POk (v, m) n rest -> v < two64.
Proof.
  unfold read_varint. intros H.
  apply pbind_len in H. destruct H as (b & ? & r & ? & H1 & H & _).
  apply read_exact_inv in H1. destruct H1 as (-> & L & _).
  destruct b as [|c [|? ?]]; try discriminate. pose proof (b2n_lt c).
  repeat match type of H with context [if ?c then _ else _] => destruct c end;
   try (apply pbind_len in H; destruct H as (xx & ? & r2 & ? & H2 & H & _);
        apply read_exact_inv in H2; destruct H2 as (-> & L2 & _); cbn in H; injection H as <- _ _ _;
        pose proof (le_dec_lt_k _ xx L2) as Q; cbn in Q; unfold two64; lia).
  cbn in H. injection H as <- _ _ _. unfold two64. lia.
Qed.

Lemma read_script_wf bs s m n rest : read_script_safe bs = POk (s, m) n rest -> wf_script s.
Proof.
  unfold read_script_safe, wf_script. intros H.
  apply pbind_len in H. destruct H as ([l lm] & n1 & r1 & m1 & H1 & H & _). cbn [fst snd] in H.
  apply read_varint_range in H1.
  destruct (lenN r1 <? l); [discriminate|].
  apply pbind_len in H. destruct H as (x & n2 & r2 & m2 & H2 & H & _).
  apply read_exact_inv in H2. destruct H2 as (-> & L & _). cbn in H. injection H as <- _ _ _.
  unfold lenN. rewrite L. lia.
Qed.

Lemma read_input_wf ext bs i m n rest : read_input ext bs = POk (i, m) n rest -> wf_input i.
Proof.
  unfold read_input. intros H.
  apply pbind_len in H. destruct H as (tx & ? & r1 & ? & H1 & H & _).
  apply pbind_len in H. destruct H as (vo & ? & r2 & ? & H2 & H & _).
  apply pbind_len in H. destruct H as ([us um] & ? & r3 & ? & H3 & H & _).
  apply pbind_len in H. destruct H as (sq & ? & r4 & ? & H4 & H & _).
  apply read_exact_inv in H1. destruct H1 as (-> & L1 & _).
  apply read_exact_inv in H2. destruct H2 as (-> & L2 & _).
  apply read_exact_inv in H4. destruct H4 as (-> & L4 & _).
  apply read_script_wf in H3.
  pose proof (le_dec_lt_k _ vo L2) as Q2. pose proof (le_dec_lt_k _ sq L4) as Q4. cbn in Q2, Q4.
  destruct ext.
  - apply pbind_len in H. destruct H as (sa & ? & r5 & ? & H5 & H & _).
    apply pbind_len in H. destruct H as ([ps pm] & ? & r6 & ? & H6 & H & _).
    apply read_exact_inv in H5. destruct H5 as (-> & L5 & _).
    apply read_script_wf in H6. pose proof (le_dec_lt_k _ sa L5) as Q5. cbn in Q5.
    cbn in H. injection H as <- _ _ _. unfold wf_input; cbn. rewrite rev_length.
    repeat split; auto; unfold two32, two64; lia.
  - cbn in H. injection H as <- _ _ _. unfold wf_input; cbn. rewrite rev_length.
    repeat split; auto; unfold two32, two64; lia.
Qed.

Lemma read_output_wf bs o m n rest : read_output bs = POk (o, m) n rest -> wf_output o.
Proof.
  unfold read_output. intros H.
  apply pbind_len in H. destruct H as (sa & ? & r1 & ? & H1 & H & _).
  apply pbind_len in H. destruct H as ([s sm] & ? & r2 & ? & H2 & H & _).
  apply read_exact_inv in H1. destruct H1 as (-> & L1 & _). apply read_script_wf in H2.
  pose proof (le_dec_lt_k _ sa L1) as Q. cbn in Q.
  cbn in H. injection H as <- _ _ _. split; cbn; auto; unfold two64; lia.
Qed.

Lemma read_many_all {A} (P : A -> Prop) (p : parser (A * bool)) :
  (forall bs x m n rest, p bs = POk (x, m) n rest -> P x) ->
  forall fuel count bs xs m n rest, read_many fuel p count bs = POk (xs, m) n rest ->
    Forall P xs /\ count = N.of_nat (length xs).
Proof.
  intros Hp. induction fuel as [|f IH]; intros count bs xs m n rest H; cbn [read_many] in H.
  - destruct (N.eqb_spec count 0); [|discriminate]. cbn in H. injection H as <- _ _ _. split; [constructor|cbn; lia].
  - destruct (N.eqb_spec count 0) as [->|Hc].
    + cbn in H. injection H as <- _ _ _. split; [constructor|reflexivity].
    + apply pbind_len in H. destruct H as ([x xm] & ? & r1 & ? & H1 & H & _).
      apply pbind_len in H. destruct H as ([xs' sm] & ? & r2 & ? & H2 & H & _).
      cbn in H. injection H as <- _ _ _. apply Hp in H1. apply IH in H2. destruct H2 as [F E].
      split; [constructor; auto|]. cbn [length]. lia.
Qed.

Lemma body_wf fuel ver ext ic oc m0 bs p n rest : length ver = 4%nat -> ic < two64 ->
  match oc with Some c => c < two64 | None => True end ->
  read_tx_body fuel ver ext ic oc m0 bs = POk p n rest -> wf_tx (p_tx p).
Proof.
  intros Lv Hic Hoc H. unfold read_tx_body in H.
  apply pbind_len in H. destruct H as ([ins im] & ? & ra & ? & H1 & H & _).
  apply pbind_len in H. destruct H as ([ocv om] & ? & rb & ? & H2 & H & _).
  apply pbind_len in H. destruct H as ([outs outm] & ? & rc & ? & H3 & H & _).
  apply pbind_len in H. destruct H as (lt & ? & rd & ? & H4 & H & _).
  apply read_exact_inv in H4. destruct H4 as (-> & L4 & _).
  apply (read_many_all wf_input _ (read_input_wf ext)) in H1. destruct H1 as [F1 E1].
  apply (read_many_all wf_output _ read_output_wf) in H3. destruct H3 as [F3 E3]. cbn [fst] in E3.
  assert (ocv < two64) as Hocv.
  { destruct oc; [cbn in H2; injection H2 as <- _ _ _; auto | eapply read_varint_range; eauto]. }
  pose proof (le_dec_lt_k _ ver Lv) as Qv. pose proof (le_dec_lt_k _ lt L4) as Ql. cbn in Qv, Ql.
  cbn in H. injection H as <- _ _. unfold wf_tx; cbn [p_tx tx_version tx_ins tx_outs tx_lock].
  repeat split; auto; unfold two32; try lia.
Qed.

Theorem read_tx_wf bs p n rest : read_tx bs = POk p n rest -> wf_tx (p_tx p).
Proof.
  unfold read_tx. intros H.
  apply pbind_len in H. destruct H as (ver & ? & r1 & ? & H1 & H & _).
  apply pbind_len in H. destruct H as ([ic icm] & ? & r2 & ? & H2 & H & _).
  apply read_exact_inv in H1. destruct H1 as (-> & Lv & _).
  pose proof (read_varint_range _ _ _ _ _ H2) as Ric. cbn [fst snd] in H.
  destruct (N.eqb_spec ic 0) as [->|Hic].
  - apply pbind_len in H. destruct H as ([oc ocm] & ? & r3 & ? & H3 & H & _). cbn [fst snd] in H.
    pose proof (read_varint_range _ _ _ _ _ H3) as Roc.
    destruct (N.eqb_spec oc 0) as [->|Hoc].
    + apply pbind_len in H. destruct H as (lt & ? & r4 & ? & H4 & H & _).
      apply read_exact_inv in H4. destruct H4 as (-> & L4 & _).
      destruct (N.eqb_spec (be_dec lt) 239) as [E|E].
      * apply pbind_len in H. destruct H as ([ic2 ic2m] & ? & r5 & ? & H5 & H & _). cbn [fst snd] in H.
        eapply body_wf in H; eauto. eapply read_varint_range; eauto.
      * cbn in H. injection H as <- _ _. pose proof (le_dec_lt_k _ ver Lv) as Qv. pose proof (le_dec_lt_k _ lt L4) as Ql.
        cbn in Qv, Ql. unfold wf_tx; cbn. repeat split; auto; unfold two32, two64; lia.
    + eapply body_wf in H; eauto.
  - eapply body_wf in H; eauto.
Qed.

(* P2: a standard-format parse result is never the ambiguous shape *)
Lemma read_many_nonzero {A} fuel (p : parser (A * bool)) c bs xs m n rest :
  c <> 0 -> read_many fuel p c bs = POk (xs, m) n rest -> xs <> [].
Proof.
  intros Hc H. destruct fuel; cbn [read_many] in H; destruct (N.eqb_spec c 0); try contradiction; try discriminate.
  apply pbind_len in H. destruct H as ([x xm] & ? & r1 & ? & H1 & H & _).
  apply pbind_len in H. destruct H as ([xs' sm] & ? & r2 & ? & H2 & H & _).
  cbn in H. injection H as <- _ _ _. discriminate.
Qed.

Theorem parsed_std_not_ambiguous bs p n rest :
  read_tx bs = POk p n rest -> p_ext p = false -> ~ ambiguous (p_tx p).
Proof.
  unfold read_tx. intros H He (Hi & Ho & Hl).
  apply pbind_len in H. destruct H as (ver & ? & r1 & ? & H1 & H & _).
  apply pbind_len in H. destruct H as ([ic icm] & ? & r2 & ? & H2 & H & _).
  cbn [fst snd] in H.
  destruct (N.eqb_spec ic 0) as [->|Hic].
  - apply pbind_len in H. destruct H as ([oc ocm] & ? & r3 & ? & H3 & H & _). cbn [fst snd] in H.
    destruct (N.eqb_spec oc 0) as [->|Hoc].
    + apply pbind_len in H. destruct H as (lt & ? & r4 & ? & H4 & H & _).
      apply read_exact_inv in H4. destruct H4 as (-> & L4 & _).
      destruct (N.eqb_spec (be_dec lt) 239) as [E|E].
      * apply pbind_len in H. destruct H as ([ic2 ic2m] & ? & r5 & ? & H5 & H & _). cbn [fst snd] in H.
        unfold read_tx_body in H.
        apply pbind_len in H. destruct H as ([ins im] & ? & ra & ? & _ & H & _).
        apply pbind_len in H. destruct H as ([ocv om] & ? & rb & ? & _ & H & _).
        apply pbind_len in H. destruct H as ([outs outm] & ? & rc & ? & _ & H & _).
        apply pbind_len in H. destruct H as (lt2 & ? & rd & ? & _ & H & _).
        cbn in H. injection H as <- _ _. cbn in He. discriminate.
      * cbn in H. injection H as <- _ _. cbn [p_tx tx_lock] in Hl.
        rewrite le_enc_dec_len in Hl by assumption. contradiction.
    + unfold read_tx_body in H.
      apply pbind_len in H. destruct H as ([ins im] & ? & ra & ? & _ & H & _).
      apply pbind_len in H. destruct H as ([ocv om] & ? & rb & ? & H6 & H & _).
      apply pbind_len in H. destruct H as ([outs outm] & ? & rc & ? & H7 & H & _).
      apply pbind_len in H. destruct H as (lt2 & ? & rd & ? & _ & H & _).
      cbn in H6. injection H6 as <- _ _ _. cbn [fst] in H7.
      cbn in H. injection H as <- _ _. cbn [p_tx tx_outs] in Ho. subst outs.
      eapply read_many_nonzero in H7; auto.
  - unfold read_tx_body in H.
    apply pbind_len in H. destruct H as ([ins im] & ? & ra & ? & H6 & H & _).
    apply pbind_len in H. destruct H as ([ocv om] & ? & rb & ? & _ & H & _).
    apply pbind_len in H. destruct H as ([outs outm] & ? & rc & ? & _ & H & _).
    apply pbind_len in H. destruct H as (lt2 & ? & rd & ? & _ & H & _).
    cbn in H. injection H as <- _ _. cbn [p_tx tx_ins] in Hi. subst ins.
    eapply read_many_nonzero in H6; auto.
Qed.


(* p_min is EXACTLY "the accepted bytes are their own re-serialisation" *)
Theorem canonical_iff bs p n rest : read_tx bs = POk p n rest ->
  (p_min p = true <-> bs = tx_bytes (p_ext p) (p_tx p) ++ rest).
Proof.
  intros H. split; [apply (read_tx_canonical bs p n rest H)|].
  intros E. pose proof (read_tx_wf _ _ _ _ H) as W.
  destruct (p_ext p) eqn:Ex.
  - pose proof (tx_ext_roundtrip (p_tx p) rest W) as R. rewrite <- E, H in R. injection R as R _. rewrite R. reflexivity.
  - pose proof (tx_std_roundtrip (p_tx p) rest W (parsed_std_not_ambiguous _ _ _ _ H Ex)) as R.
    rewrite <- E, H in R. injection R as R _. rewrite R. reflexivity.
Qed.

(* parse -> serialise -> parse: same value, now flagged minimal *)
Theorem parse_serialise_parse bs p n rest : read_tx bs = POk p n rest -> forall rest',
  exists q, read_tx (tx_bytes (p_ext p) (p_tx p) ++ rest') = POk q (lenN (tx_bytes (p_ext p) (p_tx p))) rest' /\
            p_ext q = p_ext p /\ p_min q = true /\ tx_bytes (p_ext p) (p_tx q) = tx_bytes (p_ext p) (p_tx p).
Proof.
  intros H rest'. pose proof (read_tx_wf _ _ _ _ H) as W.
  destruct (p_ext p) eqn:Ex.
  - eexists. split; [apply tx_ext_roundtrip; exact W|]. cbn. repeat split. apply reserialise_ext.
  - eexists. split; [apply tx_std_roundtrip; [exact W|exact (parsed_std_not_ambiguous _ _ _ _ H Ex)]|].
    cbn. repeat split. apply reserialise_std.
Qed.

(** ** counted lists (Txs.ReadFrom): exact consumption, and canonical re-serialisation *)
Theorem read_txs_consumes_exactly bs l m n rest :
  read_txs bs = POk (l, m) n rest -> exists pre, bs = pre ++ rest /\ n = lenN pre /\ n <= lenN bs.
Proof.
  intros H. pose proof (read_txs_ok bs) as Hok. rewrite H in Hok. cbn [consumed_ok] in Hok.
  destruct Hok as (pre & -> & ->). exists pre. repeat split. unfold lenN. rewrite app_length. lia.
Qed.

Definition parsed_item (p : parsed) : bool * tx := (p_ext p, p_tx p).

Theorem read_txs_canonical bs l n rest : read_txs bs = POk (l, true) n rest ->
  bs = txs_bytes (map parsed_item l) ++ rest /\ n = lenN (txs_bytes (map parsed_item l)).
Proof.
  intros H. pose proof (read_txs_ok bs) as Hok. rewrite H in Hok. cbn [consumed_ok] in Hok.
  unfold read_txs in H.
  apply pbind_len in H. destruct H as ([cnt cm] & n1 & r1 & m1 & H1 & H & _). cbn [fst snd] in H.
  apply pbind_len in H. destruct H as ([xs xm] & n2 & r2 & m2 & H2 & H & _).
  cbn in H. injection H as <- Hm _ <-.
  apply andb_true_iff in Hm. destruct Hm as [-> ->].
  apply read_varint_canonical in H1. destruct H1 as (-> & _ & _).
  apply (read_many_inv _ (fun p : parsed => tx_bytes (p_ext p) (p_tx p))) in H2; [|clear; intros bs x m n rest Hp Hm|reflexivity].
  - destruct H2 as [-> ->].
    assert (E : (varint_bytes (N.of_nat (length xs)) ++
                 concat (map (fun p : parsed => tx_bytes (p_ext p) (p_tx p)) xs) ++ r2) =
                txs_bytes (map parsed_item xs) ++ r2).
    { unfold txs_bytes, parsed_item. rewrite map_length, map_map. cbn [fst snd]. rewrite <- app_assoc. reflexivity. }
    split; [exact E|].
    destruct Hok as (pre & Hpre & ->). rewrite E in Hpre. apply app_inv_tail in Hpre. subst pre. reflexivity.
  - destruct (read_tx bs) as [p k r|?|] eqn:Ep; cbn [pmap] in Hp; try discriminate.
    injection Hp as <- <- <- <-. apply (read_tx_canonical bs p k r Ep Hm).
Qed.

(** ** the minimality flag of a single varint means what it says *)
Theorem varint_minimal_iff bs v m n rest : read_varint bs = POk (v, m) n rest ->
  (m = true <-> bs = varint_bytes v ++ rest).
Proof.
  intros H. split.
  - intros ->. apply (read_varint_canonical bs v n rest H).
  - intros E. pose proof (read_varint_range _ _ _ _ _ H) as Hv.
    pose proof (varint_roundtrip v rest Hv) as R. rewrite <- E, H in R. injection R as ->. reflexivity.
Qed.
