(** Script.ScriptType (bscript/script.go), as printed from the Go source (it calls the PRINTED IsP2PKH, IsP2PK, IsData,
    IsMultiSigOut and IsP2PKHInscription, in the order of the source), is [script_type] of model/Classify.v (C14, C16),
    panic outcome included.  The Go function returns a string: the printed function returns its bytes, the model's
    constructor is rendered by [stype_name] of model/JsonScripts.v (the names the node JSON of C16 carries).
    Hypothesis (Go's, from IsMultiSigOut): the script has fewer than 2^63 bytes. *)
From Coq Require Import List ZArith NArith Bool Lia ZifyN ZifyNat ZifyBool String.
From Coq Require Import Strings.Byte.
From GoBT Require Import lib.Bytes lib.GoSem gen.Funcs proofs.GenFuncsTac
  proofs.GenFuncs_Script_IsP2PKH proofs.GenFuncs_Script_IsP2PK proofs.GenFuncs_Script_IsData proofs.GenFuncs_Script_IsMultiSigOut
  proofs.GenFuncs_Script_IsP2PKHInscription.
From GoBT Require lib.Checked model.Classify model.JsonScripts.
Import ListNotations.
Ltac Zify.zify_post_hook ::= Z.div_mod_to_equations.
Local Open Scope Z_scope.

(** the Go string of a script type, as bytes *)
Definition stype_bytes (t : Classify.stype) : bytes := list_byte_of_string (JsonScripts.stype_name t).

Lemma Script_ScriptType_is_model (b : bytes) : (lenN b < 9223372036854775808)%N ->
  to_outcome (Script_ScriptType b) = Checked.obind (Classify.script_type b) (fun t => Checked.Ok (stype_bytes t)).
Proof.
  intros Hb. unfold Script_ScriptType, Classify.script_type. cbv zeta.
  rewrite go_len_lenN. replace (Z.of_N (lenN b) =? 0) with (lenN b =? 0)%N by lia.
  destruct (lenN b =? 0)%N; [reflexivity|].
  rewrite <- Script_IsP2PKH_is_model, <- Script_IsP2PK_is_model, <- Script_IsData_is_model,
          <- (Script_IsMultiSigOut_is_model b Hb), <- Script_IsP2PKHInscription_is_model.
  destruct (Script_IsP2PKH b) as [[|]| |]; cbn [bind to_outcome Checked.obind]; try reflexivity.
  destruct (Script_IsP2PK b) as [[|]| |]; cbn [bind to_outcome Checked.obind]; try reflexivity.
  destruct (Script_IsData b) as [[|]| |]; cbn [bind to_outcome Checked.obind]; try reflexivity.
  destruct (Script_IsMultiSigOut b) as [[|]| |]; cbn [bind to_outcome Checked.obind]; try reflexivity.
  destruct (Script_IsP2PKHInscription b) as [[|]| |]; cbn [bind to_outcome Checked.obind]; reflexivity.
Qed.
