(** Script.AppendOpcodes (bscript/script.go), as printed from the Go source, is [append_opcodes] of model/Inscription.v
    (C20): a push opcode (OP_DATA_1 .. OP_PUSHDATA4) among the arguments is refused and nothing is appended.  [*s] is
    state.  The lookup [opCodeValues[o]] only feeds the error message (a map lookup cannot panic) and is not printed. *)
From Coq Require Import List ZArith NArith Bool Lia ZifyN ZifyNat ZifyBool.
From Coq Require Import Strings.Byte.
From GoBT Require Import lib.Bytes lib.GoSem gen.Funcs proofs.GenFuncsTac proofs.GenFuncsLoopTac proofs.GenFuncs_Script_AppendPushDataArray.
From GoBT Require model.Inscription.
Import ListNotations.
Ltac Zify.zify_post_hook ::= Z.div_mod_to_equations.
Local Open Scope Z_scope.

Definition is_push_op (o : byte) : bool := ((1 <=? b2n o) && (b2n o <=? 78))%N.

(** one iteration in the shape of the model: the first push opcode ends the scan with the error *)
Definition ao_step (s : bytes) (_ : nat) (o : byte) (_ : unit) : ctl unit (bytes * bool) :=
  if is_push_op o then Return (s, true) else Next tt.

Lemma ao_step_model (s : bytes) : forall (oo : bytes) (k : nat),
  range_pure (ao_step s) oo k tt = if existsb is_push_op oo then Returned (s, true) else Fall tt.
Proof.
  induction oo as [|o r IH]; intros k; cbn [range_pure existsb]; [reflexivity|].
  unfold ao_step at 1. destruct (is_push_op o); cbn [orb]; [reflexivity|apply IH].
Qed.

Lemma Script_AppendOpcodes_is_model (oo s : bytes) :
  Script_AppendOpcodes oo s = Val (of_append s (Inscription.append_opcodes s oo)).
Proof.
  unfold Script_AppendOpcodes, Inscription.append_opcodes. cbv zeta.
  rewrite (go_range_pure (ao_step s)).
  - cbn [bind]. rewrite ao_step_model. fold is_push_op.
    change (fun o : byte => ((1 <=? b2n o) && (b2n o <=? 78))%N) with is_push_op.
    destruct (existsb is_push_op oo); reflexivity.
  - intros i x [] Hi. unfold ao_step, is_push_op, b2z. cbv zeta.
    destruct ((1 <=? b2n x) && (b2n x <=? 78))%N eqn:E; go_decide; reflexivity.
Qed.
