(** stack.PushInt (bscript/interpreter/stack.go), as printed from the Go source: pushes the encoding [ScriptNum.num_enc] of the number.
    The Go stack is [rev d], [d] being the stack of model/Interp.v (top first). *)
From Coq Require Import List ZArith NArith Bool Lia ZifyN ZifyNat ZifyBool.
From Coq Require Import Strings.Byte.
From GoBT Require Import lib.Bytes lib.GoSem lib.GoInterp gen.Funcs proofs.GenFuncsTac proofs.GenFuncsInterpTac proofs.GenFuncs_stack_PushByteArray.
From GoBT Require model.Interp model.ScriptNum.
Import ListNotations.
Ltac Zify.zify_post_hook ::= Z.div_mod_to_equations.
Local Open Scope Z_scope.

Lemma stack_PushInt_spec (n : Z) (d : list bytes) :
  stack_PushInt n (rev d) = Val (rev (ScriptNum.num_enc n :: d)).
Proof. unfold stack_PushInt. rewrite stack_PushByteArray_spec. reflexivity. Qed.

#[global] Hint Rewrite stack_PushInt_spec : stk.
