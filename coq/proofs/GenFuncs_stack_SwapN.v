(** stack.SwapN (bscript/interpreter/stack.go), as printed from the Go source: see the statement.
    The Go stack is [rev d], [d] being the stack of model/Interp.v (top first).  Proved for the arguments the opcode
    handlers use (the loop is unrolled; a statement for every n needs a loop invariant and is not done). *)
From Coq Require Import List ZArith NArith Bool Lia ZifyN ZifyNat ZifyBool.
From Coq Require Import Strings.Byte.
From GoBT Require Import lib.Bytes lib.GoSem lib.GoInterp gen.Funcs proofs.GenFuncsTac proofs.GenFuncsInterpTac proofs.GenFuncs_stack_nipN proofs.GenFuncs_stack_PushByteArray.
From GoBT Require model.Interp model.ScriptNum.
Import ListNotations.
Ltac Zify.zify_post_hook ::= Z.div_mod_to_equations.
Local Open Scope Z_scope.

Lemma stack_SwapN_inst (n : Z) (d : list bytes) : small d -> n = 1 \/ n = 2 ->
  st_view (stack_SwapN n (rev d)) = Val (Interp.swap_n (Z.to_nat n) d).
Proof.
  intros Hd Hn. destruct Hn as [ -> | -> ]; go_list_cases d 4%nat;
    unfold stack_SwapN; stk_run; cbn [st_view]; rewrite ?rev_involutive; reflexivity.
Qed.
