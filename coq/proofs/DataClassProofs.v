(** Which outputs are DATA outputs (model/Fees.v [is_data], [data_len]; C10 round 8).
    The class of an output's script bytes - quoted at the data rate or at the standard rate - is decided by how the
    script begins and by nothing else: not by what follows the marker (it need not parse as pushes), not by the
    output's amount, not by its position, not by how many other data outputs there are. *)
From Coq Require Import List NArith Lia Bool.
From Coq Require Import Strings.Byte.
From GoBT Require Import lib.Bytes model.Tx spec.FeeSpec model.Fees proofs.FeesProofs.
Import ListNotations.
Local Open Scope N_scope.

(** the readable statement of "data script" *)
Definition starts_with_marker (s : bytes) : Prop :=
  (exists t, s = x6a :: t) \/ (exists t, s = x00 :: x6a :: t).

Lemma is_data_iff s : is_data s = true <-> starts_with_marker s.
Proof.
  unfold starts_with_marker. split.
  - destruct s as [|b0 r]; cbn [is_data]; [discriminate|]. intros H.
    apply orb_true_iff in H. destruct H as [H|H].
    + apply byte_eqb_eq in H. subst. left. eexists. reflexivity.
    + destruct r as [|b1 r]; [discriminate|]. apply andb_true_iff in H. destruct H as [H0 H1].
      apply byte_eqb_eq in H0. apply byte_eqb_eq in H1. subst. right. eexists. reflexivity.
  - intros [[t ->]|[t ->]]; reflexivity.
Qed.

(** whatever follows the marker: any two tails are classified alike (and as data) *)
Lemma is_data_any_tail t : is_data (x6a :: t) = true /\ is_data (x00 :: x6a :: t) = true.
Proof. split; reflexivity. Qed.

(** look-alikes: a first byte that is neither OP_RETURN nor OP_FALSE (a push opcode 01 of the byte 6a, say), or
    OP_FALSE followed by anything but OP_RETURN (a push opcode 01 of the byte 6a, say) - whatever comes after *)
Lemma not_data_first b t : b <> x6a -> b <> x00 -> is_data (b :: t) = false.
Proof.
  intros H1 H2. apply not_true_is_false. intros H. apply is_data_iff in H.
  destruct H as [[t' E]|[t' E]]; injection E; intros; subst; congruence.
Qed.

Lemma not_data_second b t : b <> x6a -> is_data (x00 :: b :: t) = false.
Proof.
  intros H1. apply not_true_is_false. intros H. apply is_data_iff in H.
  destruct H as [[t' E]|[t' E]]; [discriminate|]. injection E; intros; subst; congruence.
Qed.

Lemma not_data_short : is_data [] = false /\ is_data [x00] = false.
Proof. split; reflexivity. Qed.

Lemma push_of_6a_not_data t : is_data (x01 :: x6a :: t) = false /\ is_data (x00 :: x01 :: x6a :: t) = false.
Proof. split; [apply not_data_first|apply not_data_second]; discriminate. Qed.

(** the data bytes of a list of outputs: every output whose script starts with the marker contributes its whole
    script, wherever it stands, whatever it is worth; the others contribute nothing *)
Lemma data_len_insert a o b :
  data_len (a ++ o :: b) = data_len (a ++ b) + (if is_data (out_script o) then lenN (out_script o) else 0).
Proof. rewrite !data_len_app, data_len_cons. lia. Qed.

Lemma data_len_amount_irrelevant a v v' s b :
  data_len (a ++ mkOutput v s :: b) = data_len (a ++ mkOutput v' s :: b).
Proof. rewrite !data_len_insert. reflexivity. Qed.

Lemma data_len_data_output a v t b :
  data_len (a ++ mkOutput v (x6a :: t) :: b) = data_len (a ++ b) + lenN (x6a :: t) /\
  data_len (a ++ mkOutput v (x00 :: x6a :: t) :: b) = data_len (a ++ b) + lenN (x00 :: x6a :: t).
Proof. rewrite !data_len_insert. split; reflexivity. Qed.

Lemma data_len_non_data_output a o b :
  ~ starts_with_marker (out_script o) -> data_len (a ++ o :: b) = data_len (a ++ b).
Proof.
  intros H. rewrite data_len_insert. destruct (is_data (out_script o)) eqn:E; [|lia].
  exfalso. apply H. apply is_data_iff. exact E.
Qed.

(** Tx.SizeWithTypes: the split of the size moves by exactly the script length when an output's script gains or
    loses the marker - the standard / data split of any transaction is a function of the scripts' first two bytes
    and lengths *)
Lemma size_with_types_data t :
  sz_data (size_with_types t) = data_len (tx_outs t) /\
  sz_std (size_with_types t) = tx_size t - data_len (tx_outs t).
Proof. split; reflexivity. Qed.
