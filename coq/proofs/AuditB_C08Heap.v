(** Audit B, C08: the sharing machine of model/Heap.v with signature opcodes.
    proofs/HeapProgress.v shows that the sharing machine follows the value machine to the end on scripts WITHOUT
    signature opcodes (or without a transaction context).  Here the same is shown for every implementation of the
    signature opcodes that satisfies a frame condition ([sigops_framed]: a suffix of the data stack survives, at most
    one result is pushed, the alt stack is untouched, no early return) -- which model/CheckSig.v's does for every
    oracle, transaction and input index.  Hence: no hypothesis on the scripts at all. *)
From Coq Require Import List NArith ZArith Lia Bool.
From Coq Require Import Strings.Byte.
From GoBT Require Import lib.Bytes model.Tx model.SigHash model.ScriptNum model.Interp model.CheckSig model.Heap.
From GoBT Require Import proofs.InterpTotal proofs.InterpFrame proofs.CheckSigProofs proofs.MultisigProofs
  proofs.HeapRefine proofs.HeapProgress.
Import ListNotations.
Local Open Scope Z_scope.

(** * 1. The frame condition *)
Definition framed_outcome (vf : bool) (s : st) (o : outcome) : Prop :=
  match o with
  | OOk s' => als s' = als s /\
              (if vf then suffix (ds s') (ds s) else exists x rest, ds s' = x :: rest /\ suffix rest (ds s))
  | OReturn _ => False
  | OErr | OPanic => True
  end.

Definition sigops_framed (so : sigops) : Prop :=
  forall c s idx vf, framed_outcome vf s (so_checksig so c s idx vf) /\
                     framed_outcome vf s (so_checkmultisig so c s idx vf).

Lemma no_sigops_framed : sigops_framed no_sigops.
Proof. intros c s idx vf. split; exact I. Qed.

(** * 2. model/CheckSig.v's operations satisfy it, unconditionally *)
Lemma framed_finish_bool vf s s1 b :
  als s1 = als s -> suffix (ds s1) (ds s) -> framed_outcome vf s (finish_verify vf (push_bool s1 b)).
Proof.
  intros Ha Hs. destruct vf; cbn [finish_verify push_bool push].
  - unfold verify_top. cbn [ds set_ds]. destruct (as_bool (from_bool b)); [|exact I].
    cbn [framed_outcome als ds set_ds]. split; assumption.
  - cbn [framed_outcome als ds set_ds]. split; [exact Ha|]. eexists _, _. split; [reflexivity|exact Hs].
Qed.
Lemma framed_finish_err vf s : framed_outcome vf s (finish_verify vf OErr).
Proof. destruct vf; exact I. Qed.
Lemma framed_finish_panic vf s : framed_outcome vf s (finish_verify vf OPanic).
Proof. destruct vf; exact I. Qed.

Lemma checksig_framed orc t i c s idx vf :
  framed_outcome vf s (match checksig_run orc t i c s idx vf with Some o => o | None => OErr end).
Proof.
  unfold checksig_run.
  destruct (ds s) as [|pk [|full r]] eqn:Eds; try exact I.
  set (s1 := set_ds s r).
  assert (Hg : forall b, framed_outcome vf s (finish_verify vf (push_bool s1 b))).
  { intros b. apply framed_finish_bool; [reflexivity|]. subst s1. cbn [ds set_ds]. rewrite Eds. exists [pk; full]. reflexivity. }
  pose proof (framed_finish_err vf s) as Hge. pose proof (framed_finish_panic vf s) as Hgp.
  destruct (split_last full) as [[sg hb]|]; cbn [option_map];
    [|destruct (negb (check_pubkey_enc c pk)); cbn [option_map]; [exact Hge|apply Hg]].
  destruct (negb (check_hash_type c (b2n hb))); cbn [option_map]; [exact Hge|].
  destruct (check_sig_enc c sg); cbn [option_map]; [|exact Hge|exact Hgp].
  destruct (negb (check_pubkey_enc c pk)); cbn [option_map]; [exact Hge|].
  destruct (unparse _) as [up|]; cbn [option_map]; [|exact Hge].
  assert (Hgf : framed_outcome vf s (finish_verify vf (checksig_failed c s1 full))).
  { unfold checksig_failed. destruct (has_flag c F_NULLFAIL && Nat.ltb 0 (length full))%bool; [exact Hge|apply Hg]. }
  destruct (sighash_for t i up (b2n hb)) as [h|e| | |]; cbn [option_map]; try exact Hge; try exact Hgp.
  destruct (negb (orc_parse_pub orc pk)); cbn [option_map]; [exact Hgf|].
  destruct (negb (orc_parse_sig orc (uses_der_parser c) sg)); cbn [option_map]; [exact Hgf|].
  destruct (orc_verify orc pk h sg (uses_der_parser c)) as [[|]|]; cbn [option_map]; [apply Hg|exact Hgf|exact I].
Qed.

Lemma checkmultisig_framed orc t i c s idx vf :
  framed_outcome vf s (match checkmultisig_run orc t i c s idx vf with Some o => o | None => OErr end).
Proof.
  unfold checkmultisig_run.
  destruct (ds s) as [|nk d1] eqn:Eds; [exact I|].
  destruct (pop_count c nk) as [nkz|]; [|exact I]. cbv zeta.
  destruct (Z.ltb_spec (to_int32 nkz) 0) as [|Hnk]; [exact I|].
  destruct (max_pubkeys c <? to_int32 nkz); [exact I|].
  destruct (max_ops c <? nops s + to_int32 nkz); [exact I|].
  destruct (pop_n (to_int32 nkz) d1) as [[pks d2]|] eqn:Ep; [|exact I].
  destruct d2 as [|ns d3]; [exact I|].
  destruct (pop_count c ns) as [nsz|]; [|exact I].
  destruct (Z.ltb_spec (to_int32 nsz) 0) as [|Hns]; [exact I|].
  destruct (to_int32 nkz <? to_int32 nsz); [exact I|].
  destruct (pop_n (to_int32 nsz) d3) as [[sigs d4]|] eqn:Es; [|exact I].
  destruct d4 as [|dummy d5]; [exact I|].
  destruct (has_flag c F_STRICTMULTISIG && negb (Nat.eqb (length dummy) 0))%bool; [exact I|].
  destruct (pop_n_length _ _ _ _ Hnk Ep) as [_ E1]. destruct (pop_n_length _ _ _ _ Hns Es) as [_ E3].
  assert (Hg : forall b, framed_outcome vf s
             (finish_verify vf (push_bool (set_nops (set_ds s d5) (nops s + to_int32 nkz)) b))).
  { intros b. apply framed_finish_bool; [reflexivity|]. cbn [ds set_ds set_nops]. rewrite Eds, E1, E3.
    exists (nk :: pks ++ ns :: sigs ++ [dummy]). cbn [app]. f_equal. rewrite <- !app_assoc. cbn [app].
    f_equal. f_equal. rewrite <- app_assoc. reflexivity. }
  destruct (ms_loop _ _ _ _ _ _ _ _ _ _ _ _ _) as [b| | | | |]; try exact I; try apply Hg.
  destruct (negb b && has_flag c F_NULLFAIL && existsb _ sigs)%bool; [exact I|apply Hg].
Qed.

Theorem mk_sigops_framed : forall orc t i, sigops_framed (mk_sigops orc t i).
Proof.
  intros orc t i c s idx vf. cbn [mk_sigops so_checksig so_checkmultisig].
  split; [apply checksig_framed|apply checkmultisig_framed].
Qed.

(** * 3. One step *)
Lemma is_sigop_cases v : is_sigop v = true ->
  v = OP_CHECKSIG \/ v = OP_CHECKSIGVERIFY \/ v = OP_CHECKMULTISIG \/ v = OP_CHECKMULTISIGVERIFY.
Proof.
  unfold is_sigop. intros H. apply andb_true_iff in H. destruct H as [H1 H2].
  apply N.leb_le in H1. apply N.leb_le in H2.
  unfold OP_CHECKSIG, OP_CHECKSIGVERIFY, OP_CHECKMULTISIG, OP_CHECKMULTISIGVERIFY in *. lia.
Qed.

Lemma handler_sigop so c p idx s : p_real p = true -> is_sigop (p_val p) = true ->
  exists vf, is_producer (p_val p) = negb vf /\
    (exec_handler so c p idx s = so_checksig so c s idx vf \/ exec_handler so c p idx s = so_checkmultisig so c s idx vf).
Proof.
  intros Hreal Hsig. unfold exec_handler. rewrite Hreal. cbn [negb].
  destruct (is_sigop_cases _ Hsig) as [E|[E|[E|E]]]; rewrite E.
  - exists false. split; [reflexivity|left; reflexivity].
  - exists true. split; [reflexivity|left; reflexivity].
  - exists false. split; [reflexivity|right; reflexivity].
  - exists true. split; [reflexivity|right; reflexivity].
Qed.

Lemma sigop_other_post so c p idx s s' : sigops_framed so -> p_real p = true -> is_sigop (p_val p) = true ->
  exec_handler so c p idx s = OOk s' \/ exec_handler so c p idx s = OReturn s' -> other_post (p_val p) s s'.
Proof.
  intros Hfr Hreal Hsig Hex.
  destruct (handler_sigop so c p idx s Hreal Hsig) as (vf & Hprod & Hh).
  destruct (Hfr c s idx vf) as [F1 F2].
  assert (F : framed_outcome vf s (exec_handler so c p idx s)) by (destruct Hh as [-> | ->]; assumption).
  unfold other_post. rewrite Hprod.
  destruct Hex as [E|E]; rewrite E in F; cbn [framed_outcome] in F; [|contradiction].
  destruct F as [Ha F]. split; [exact Ha|]. destruct vf; exact F.
Qed.

Lemma sigop_classes v : is_sigop v = true ->
  (v =? OP_0)%N = false /\ (v <=? OP_PUSHDATA4)%N = false /\ is_mover v = false /\
  (v =? OP_SPLIT)%N = false /\ (v =? OP_BIN2NUM)%N = false.
Proof. intros H. destruct (is_sigop_cases _ H) as [E|[E|[E|E]]]; rewrite E; repeat split; reflexivity. Qed.

Lemma handler_not_stuck_sigop so c sc off p idx s hs s' :
  sigops_framed so -> is_sigop (p_val p) = true -> reads hs (ds s) (als s) = true ->
  reaches_handler c s (p_val p) = true ->
  exec_handler so c p idx s = OOk s' \/ exec_handler so c p idx s = OReturn s' ->
  exists hs', rebuild c sc off p s (ds s') hs = Some hs' /\ reads hs' (ds s') (als s') = true.
Proof.
  intros Hfr Hsig Hr Hreach Hex.
  destruct (p_real p) eqn:Hreal.
  2:{ exfalso. unfold exec_handler in Hex. rewrite Hreal in Hex. destruct Hex as [H|H]; discriminate H. }
  destruct (sigop_classes _ Hsig) as (E0 & E1 & E2 & E3 & E4).
  rewrite (rebuild_other_eq c sc off p s Hreach _ hs E0 E1 E2 E3 E4).
  pose proof (sigop_other_post so c p idx s s' Hfr Hreal Hsig Hex) as [Hals Hpost].
  rewrite Hals.
  destruct (is_producer (p_val p)).
  - destruct Hpost as (x & rest & -> & pre & Hpre).
    eapply rebuild_other_prod; [exact Hr|exact Hpre].
  - destruct Hpost as (pre & Hpre).
    eapply rebuild_other_keep; [exact Hr|exact Hpre].
Qed.

(** [h_step_not_stuck] without the hypothesis that the opcode is not a signature check *)
Theorem h_step_not_stuck_framed : forall so c sc off p idx s hs,
  sigops_framed so ->
  reads hs (ds s) (als s) = true -> in_bounds (h_heap hs) sc = true ->
  ((p_val p <=? OP_PUSHDATA4)%N = true -> (0 <? p_val p)%N = true ->
   rd (h_heap hs) (sub sc (off + data_off p) (length (p_data p))) = p_data p /\
   in_bounds (h_heap hs) (sub sc (off + data_off p) (length (p_data p))) = true) ->
  (1 <= length (h_heap hs))%nat ->
  h_step so c sc off p idx s hs <> HStuck.
Proof.
  intros so c sc off p idx s hs Hfr Hr Hin Hpush Hlen.
  destruct (is_sigop (p_val p)) eqn:Hsig; [|apply h_step_not_stuck; assumption].
  assert (Hgoal : forall s', execute_opcode so c p idx s = OOk s' \/ execute_opcode so c p idx s = OReturn s' ->
            exists hs', rebuild c sc off p s (ds s') hs = Some hs' /\ reads hs' (ds s') (als s') = true).
  { intros s' Hex.
    destruct (execute_opcode_cases so c p idx s) as [E|[(Hreach & s1 & E & Hd1 & Ha1)|(Hreach & n & E)]].
    - rewrite E in Hex. destruct Hex as [H|H]; discriminate H.
    - rewrite E in Hex. destruct Hex as [H|H]; [|discriminate H]. injection H as <-.
      rewrite (rebuild_not_reached _ _ _ _ _ _ _ Hreach). exists hs. split; [reflexivity|].
      rewrite Hd1, Ha1. exact Hr.
    - rewrite E in Hex. rewrite <- (rebuild_set_nops c sc off p s n).
      apply (handler_not_stuck_sigop so c sc off p idx (set_nops s n) hs s'); assumption. }
  unfold h_step. destruct (execute_opcode so c p idx s) as [s1|s1| |] eqn:Ee; try discriminate.
  - destruct (Hgoal s1 (or_introl eq_refl)) as (hs' & -> & ->). discriminate.
  - destruct (Hgoal s1 (or_intror eq_refl)) as (hs' & -> & ->). discriminate.
Qed.

(** * 4. Whole scripts and the drivers (proofs/HeapProgress.v without the hypothesis on signature checks) *)
Lemma h_step_progress_framed so c sc bs off p idx s hs :
  sigops_framed so -> reads hs (ds s) (als s) = true ->
  in_bounds (h_heap hs) sc = true -> rd (h_heap hs) sc = bs ->
  (is_data_push p = true ->
   firstn (length (p_data p)) (skipn (off + data_off p) bs) = p_data p /\
   (off + data_off p + length (p_data p) <= length bs)%nat) ->
  (1 <= length (h_heap hs))%nat ->
  h_step so c sc off p idx s hs <> HStuck.
Proof.
  intros Hfr Hr Hin Hrd Hpush Hlen.
  destruct (p_real p) eqn:Hreal; [|apply h_step_unreal_not_stuck; assumption].
  apply h_step_not_stuck_framed; try assumption.
  intros E1 E2. destruct Hpush as [Hd Hb].
  { unfold is_data_push. rewrite Hreal, E1, E2. reflexivity. }
  assert (Hsl : sl_len sc = length bs) by (rewrite <- Hrd; symmetry; apply rd_length; exact Hin).
  split.
  - rewrite rd_sub by lia. rewrite Hrd. exact Hd.
  - apply in_bounds_sub; [exact Hin|lia].
Qed.

Theorem h_run_ops_not_stuck_framed so c sc bs : sigops_framed so -> forall ops idx off s hs hacc,
  in_bounds (h_heap hs) sc = true -> rd (h_heap hs) sc = bs ->
  pushes_ok bs off ops ->
  reads hs (ds s) (als s) = true -> (1 <= length (h_heap hs))%nat ->
  fst (h_run_ops so c sc ops idx off s hs hacc) <> HSStuck.
Proof.
  intros Hfr. induction ops as [|p rest IH]; intros idx off s hs hacc Hin Hrd Hp Hr Hlen; cbn [h_run_ops].
  - cbn [fst]. discriminate.
  - cbn [pushes_ok] in Hp. destruct Hp as [Hp1 Hp2].
    pose proof (h_step_progress_framed so c sc bs off p idx s hs Hfr Hr Hin Hrd Hp1 Hlen) as Hns.
    pose proof (h_step_sound_match so c sc off p idx s hs) as Hc.
    destruct (h_step so c sc off p idx s hs) as [s1 hs1|s1 hs1| | |]; cbn [fst]; try discriminate;
      [|congruence].
    destruct Hc as (_ & Hx & Hr1).
    destruct (max_stack c <? lenZ (ds s1) + lenZ (als s1)); [cbn [fst]; discriminate|].
    destruct rest as [|p2 rest2]; [cbn [fst]; discriminate|].
    apply IH; try assumption.
    + eapply in_bounds_extends'; eauto.
    + rewrite (rd_extends' _ _ _ Hx Hin). exact Hrd.
    + pose proof (extends_length _ _ Hx). lia.
Qed.

Lemma h_run_redeem_not_stuck_framed so c saved hsaved s hs hacc :
  sigops_framed so -> reads hs (ds s) (als s) = true ->
  all_in (h_heap hs) hsaved -> map (rd (h_heap hs)) hsaved = saved ->
  (1 <= length (h_heap hs))%nat ->
  h_run_redeem so c saved hsaved s hs hacc <> HResStuck.
Proof.
  intros Hfr Hr Hin Hmap Hlen. unfold h_run_redeem.
  destruct (negb (check_error_condition c false (ds s))); [discriminate|].
  destruct saved as [|script below]; [discriminate|].
  destruct hsaved as [|hscript hbelow]; [discriminate Hmap|].
  destruct (parse_script (c_err_on_checksig c) script) as [ops|] eqn:Ep; [|discriminate].
  cbv zeta.
  set (s' := set_ds (shift_script s ops) below).
  set (hs' := mkH (h_heap hs) hbelow (h_as hs)).
  destruct ops as [|p0 ops0]; [apply h_finish_not_stuck|].
  cbn [map] in Hmap. injection Hmap as Hscript Hbelow.
  inversion Hin as [|? ? Bscript Hin']; subst.
  assert (Hr' : reads hs' (ds s') (als s') = true).
  { apply reads_spec in Hr. destruct Hr as (H1 & H2 & H3 & H4).
    apply reads_spec. subst hs' s'. cbn [h_heap h_ds h_as ds als set_ds shift_script]. auto. }
  pose proof (h_run_ops_not_stuck_framed so c hscript (rd (h_heap hs) hscript) Hfr (p0 :: ops0) 0 0 s' hs' (hsnap hs' :: hacc)
                Bscript eq_refl (parse_script_pushes_ok _ _ _ Ep) Hr' Hlen) as Hns.
  destruct (h_run_ops so c hscript (p0 :: ops0) 0 0 s' hs' (hsnap hs' :: hacc)) as [e hacc'].
  cbn [fst] in Hns.
  destruct e as [s2 hs2|s2 hs2|h|h|]; try discriminate; try apply h_finish_not_stuck; [|congruence].
  destruct (end_script s2); [apply h_finish_not_stuck|discriminate].
Qed.

Lemma h_run_lock_not_stuck_framed so c bip16 saved hsaved sc lb lock s hs hacc :
  sigops_framed so -> reads hs (ds s) (als s) = true ->
  all_in (h_heap hs) hsaved -> map (rd (h_heap hs)) hsaved = saved ->
  in_bounds (h_heap hs) sc = true -> rd (h_heap hs) sc = lb ->
  pushes_ok lb 0 lock -> (1 <= length (h_heap hs))%nat ->
  h_run_lock so c bip16 saved hsaved sc lock s hs hacc <> HResStuck.
Proof.
  intros Hfr Hr Hin Hmap Bsc Hrd Hp Hlen. unfold h_run_lock.
  pose proof (h_run_ops_not_stuck_framed so c sc lb Hfr lock 0 0 s hs hacc Bsc Hrd Hp Hr Hlen) as Hns.
  pose proof (h_run_ops_end so c sc lock 0 0 s hs hacc Hr) as Hend.
  destruct (h_run_ops so c sc lock 0 0 s hs hacc) as [e hacc'].
  cbn [fst] in Hns, Hend.
  destruct e as [s2 hs2|s2 hs2|h|h|]; try discriminate; try apply h_finish_not_stuck; [|congruence].
  destruct Hend as (Hr2 & Hx & _).
  destruct (end_script s2) as [s3|] eqn:Ees; [|discriminate].
  apply end_script_some in Ees. subst s3.
  destruct (bip16 && negb (after_genesis c))%bool; [|apply h_finish_not_stuck].
  apply h_run_redeem_not_stuck_framed; [exact Hfr| | | |].
  - cbn [ds als set_als]. eapply reads_clear_alt. exact Hr2.
  - cbn [clear_alt h_heap]. eapply all_in_extends; eauto.
  - cbn [clear_alt h_heap]. rewrite (map_rd_extends _ _ _ Hx Hin). exact Hmap.
  - cbn [clear_alt h_heap]. pose proof (extends_length _ _ Hx). lia.
Qed.

Theorem h_execute_not_stuck_framed so c bip16 ub lb unlock lock :
  sigops_framed so -> pushes_ok ub 0 unlock -> pushes_ok lb 0 lock ->
  h_execute so c bip16 ub lb unlock lock <> HResStuck.
Proof.
  intros Hfr Hpu Hpl. unfold h_execute. cbv zeta.
  set (hs0 := mkH [ub; lb] [] []).
  assert (Hlen0 : (1 <= length (h_heap hs0))%nat) by (cbn; lia).
  destruct unlock as [|u0 unlock0].
  { destruct lock as [|l0 lock0]; [discriminate|].
    apply (h_run_lock_not_stuck_framed so c bip16 [] [] (whole 1 lb) lb);
      [exact Hfr|apply reads_init|constructor|reflexivity|apply whole_in_bounds1|apply whole_rd1
      |exact Hpl|exact Hlen0]. }
  pose proof (h_run_ops_not_stuck_framed so c (whole 0 ub) ub Hfr (u0 :: unlock0) 0 0 (init_st (u0 :: unlock0)) hs0 []
                (whole_in_bounds0 ub lb) (whole_rd0 ub lb) Hpu (reads_init ub lb _) Hlen0) as Hns.
  pose proof (h_run_ops_end so c (whole 0 ub) (u0 :: unlock0) 0 0 (init_st (u0 :: unlock0)) hs0 []
                (reads_init ub lb _)) as Hend.
  destruct (h_run_ops so c (whole 0 ub) (u0 :: unlock0) 0 0 (init_st (u0 :: unlock0)) hs0 []) as [e hacc'].
  cbn [fst] in Hns, Hend.
  destruct e as [s1 hs1|s1 hs1|h|h|]; try discriminate; [| |congruence].
  - destruct Hend as (Hr1 & Hx & Hval).
    destruct (end_script s1) as [s2|] eqn:Ees; [|discriminate].
    apply end_script_some in Ees. subst s2.
    destruct lock as [|l0 lock0]; [apply h_finish_not_stuck|].
    set (s3 := shift_script (set_als s1 []) (l0 :: lock0)).
    set (hs3 := clear_alt hs1).
    assert (Hr3 : reads hs3 (ds s3) (als s3) = true) by (eapply reads_clear_alt; exact Hr1).
    pose proof Hr3 as Hr3'. apply reads_spec in Hr3'. destruct Hr3' as (H1 & H2 & H3 & H4).
    apply (h_run_lock_not_stuck_framed so c bip16 (ds s3) (h_ds hs3) (whole 1 lb) lb);
      [exact Hfr|exact Hr3|exact H1|exact H3| | |exact Hpl|].
    + apply (in_bounds_extends' [ub; lb]); [exact Hx|apply whole_in_bounds1].
    + change (h_heap hs3) with (h_heap hs1).
      rewrite (rd_extends' [ub; lb] _ _ Hx (whole_in_bounds1 ub lb)). apply whole_rd1.
    + change (h_heap hs3) with (h_heap hs1). pose proof (extends_length _ _ Hx) as Hl. cbn in Hl. lia.
  - destruct Hend as (Hr1 & Hx).
    destruct lock as [|l0 lock0]; [apply h_finish_not_stuck|].
    set (s2 := shift_script (set_als s1 []) (l0 :: lock0)).
    set (hs2 := clear_alt hs1).
    assert (Hr2 : reads hs2 (ds s2) (als s2) = true) by (eapply reads_clear_alt; exact Hr1).
    apply (h_run_lock_not_stuck_framed so c bip16 [] [] (whole 1 lb) lb);
      [exact Hfr|exact Hr2|constructor|reflexivity| | |exact Hpl|].
    + apply (in_bounds_extends' [ub; lb]); [exact Hx|apply whole_in_bounds1].
    + change (h_heap hs2) with (h_heap hs1).
      rewrite (rd_extends' [ub; lb] _ _ Hx (whole_in_bounds1 ub lb)). apply whole_rd1.
    + change (h_heap hs2) with (h_heap hs1). pose proof (extends_length _ _ Hx) as Hl. cbn in Hl. lia.
Qed.

Theorem h_engine_execute_not_stuck_framed : forall so i, sigops_framed so -> h_engine_execute so i <> HResStuck.
Proof.
  intros so i Hfr.
  destruct (h_engine_execute_body so i) as [E|E]; rewrite E; [discriminate|].
  unfold h_engine_body.
  destruct (has_flag _ F_CLEANSTACK && negb (has_flag _ F_BIP16))%bool; [discriminate|].
  destruct ((max_script_size _ <? lenZ (ei_unlock i)) || (max_script_size _ <? lenZ (ei_lock i)))%bool; [discriminate|].
  destruct (parse_script _ (ei_unlock i)) as [u|] eqn:Eu; [|discriminate].
  destruct (parse_script _ (ei_lock i)) as [l|] eqn:El; [|discriminate].
  destruct (has_flag _ F_SIGPUSHONLY && negb (is_push_only u))%bool; [discriminate|].
  cbv zeta.
  destruct (_ && negb (is_push_only u))%bool; [discriminate|].
  apply h_execute_not_stuck_framed;
    [exact Hfr|exact (parse_script_pushes_ok _ _ _ Eu)|exact (parse_script_pushes_ok _ _ _ El)].
Qed.

(** the sharing machine computes the value machine's result, for EVERY input *)
Corollary sharing_machine_total_refinement_framed : forall so i, sigops_framed so ->
  exists v sn h, h_engine_execute so i = HRes v sn h /\
                 engine_execute so i = (v, map (abs_snap h) sn) /\
                 nth 0 h [] = ei_unlock i /\ nth 1 h [] = ei_lock i.
Proof. intros so i Hfr. apply total_refinement_of. apply h_engine_execute_not_stuck_framed. exact Hfr. Qed.

Corollary sharing_machine_total_refinement_signatures : forall orc t n i,
  exists v sn h, h_engine_execute (mk_sigops orc t n) i = HRes v sn h /\
                 engine_execute (mk_sigops orc t n) i = (v, map (abs_snap h) sn) /\
                 nth 0 h [] = ei_unlock i /\ nth 1 h [] = ei_lock i.
Proof. intros orc t n i. apply sharing_machine_total_refinement_framed. apply mk_sigops_framed. Qed.
