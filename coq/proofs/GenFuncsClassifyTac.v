(** Tactics shared by the equivalence proofs of the script classification queries (proofs/GenFuncs_Script_*.v). *)
From Coq Require Import List ZArith NArith Bool Lia ZifyN ZifyNat ZifyBool.
From Coq Require Import Strings.Byte.
From GoBT Require Import lib.Bytes lib.GoSem proofs.GenFuncsTac.
From GoBT Require lib.Checked model.Classify.
Import ListNotations.
Ltac Zify.zify_post_hook ::= Z.div_mod_to_equations.
Local Open Scope Z_scope.

Ltac classify_norm :=
  unfold Classify.byte_is, Classify.oand, Classify.oor, Checked.chk, go_andthen, go_orelse;
  repeat rewrite go_len_cons; change (go_len (@nil byte)) with 0; repeat rewrite lenN_cons; change (lenN []) with 0%N; go_index_norm; idx_norm;
  cbn [bind to_outcome Checked.obind]; rewrite ?b2z_b2n.

Ltac classify_finish :=
  repeat match goal with
  | |- context [if ?c then _ else _] => let E := fresh "E" in destruct c eqn:E; cbn [bind to_outcome Checked.obind]
  end; cbn [bind to_outcome Checked.obind]; first [reflexivity | exfalso; lia | f_equal; lia].

(** the list has exactly [n] elements: make them explicit *)
Tactic Notation "explicit_list" ident(b) ident(E) integer(n) :=
  do n (destruct b as [|? b]; [exfalso; unfold lenN in E; cbn [length] in E; lia|]);
  destruct b; [|exfalso; unfold lenN in E; cbn [length] in E; lia]; clear E.


(** [byte_eqb x c] for a literal byte c as a comparison of numbers *)
Ltac byte_eqb_norm :=
  repeat match goal with |- context [byte_eqb ?x ?c] =>
    replace (byte_eqb x c) with (b2n x =? b2n c)%N
      by (destruct (N.eqb_spec (b2n x) (b2n c)) as [Q|Q]; [apply b2n_inj in Q; subst x; reflexivity|
          destruct (byte_eqb x c) eqn:Q2; [apply byte_eqb_eq in Q2; subst x; congruence|reflexivity]]);
    change (b2n c) with ltac:(let r := eval vm_compute in (b2n c) in exact r) end.
