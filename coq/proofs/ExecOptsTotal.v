(** Engine.Execute never panics whatever arguments it is given: validation rejects every index the later
    code would dereference out of range and every nil script it would dereference. *)
From Coq Require Import List NArith ZArith Bool Lia.
From Coq Require Import Strings.Byte.
From GoBT Require Import lib.Bytes model.ScriptNum model.Interp model.ExecOpts proofs.InterpTotal.
Import ListNotations.
Local Open Scope Z_scope.

Lemma index_in_range {A} (l : list A) i :
  0 <= i -> i <= Z.of_nat (length l) - 1 -> exists a, index l i = IOk a.
Proof.
  intros H0 H1. unfold index.
  destruct (i <? 0) eqn:E0; [lia|].
  destruct (Z.of_nat (length l) <=? i) eqn:E1; [lia|]. cbn [orb].
  destruct (nth_error l (Z.to_nat i)) as [a|] eqn:En; [eauto|].
  apply nth_error_None in En. lia.
Qed.

Lemma index_out_of_range {A} (l : list A) i :
  i < 0 \/ Z.of_nat (length l) <= i -> index l i = IPanic.
Proof.
  intros H. unfold index.
  destruct (i <? 0) eqn:E0; [reflexivity|].
  destruct (Z.of_nat (length l) <=? i) eqn:E1; [reflexivity|]. lia.
Qed.

(** what a successful validation establishes *)
Lemma validate_ok_facts o :
  validate o = VRok ->
  0 <= eo_idx o /\
  (forall t, eo_tx o = Some t -> exists i, index (ot_ins t) (eo_idx o) = IOk (Some i)) /\
  (eo_lock o = None -> exists pl, eo_prev o = Some (Some pl)) /\
  (eo_unlock o = None -> exists t i u, eo_tx o = Some t /\ index (ot_ins t) (eo_idx o) = IOk (Some i) /\ oi_unlock i = Some u).
Proof.
  unfold validate. intros H.
  destruct (eo_idx o <? 0) eqn:E0; [discriminate|]. cbn [orb] in H.
  split; [lia|].
  destruct (eo_tx o) as [t|] eqn:Ht.
  - destruct (eo_idx o >? _) eqn:E1; [discriminate|].
    destruct (index_in_range (ot_ins t) (eo_idx o)) as [x Hi]; [lia|lia|].
    rewrite Hi in H. destruct x as [i|]; [|discriminate].
    assert (Hne : ot_ins t <> []).
    { intros E. rewrite E in E1. cbn in E1. lia. }
    split; [intros t' [= <-]; eauto|].
    destruct (ot_ins t) as [|i0 ins] eqn:Hins; [congruence|].
    destruct (eo_lock o) as [l|] eqn:Hl; destruct (eo_prev o) as [[pl|]|] eqn:Hp; cbn in H; try discriminate;
      (split; [intros; try discriminate; eauto|]);
      destruct (eo_unlock o) as [u|] eqn:Hu; intros; try discriminate;
      destruct (oi_unlock i) as [iu|] eqn:Hiu; cbn in H; try discriminate;
      try (exists t, i, iu; rewrite Hins; auto); eauto 8.
  - split; [intros; discriminate|].
    destruct (eo_lock o) as [l|] eqn:Hl; destruct (eo_prev o) as [[pl|]|] eqn:Hp; cbn in H; try discriminate;
      (split; [intros; try discriminate; eauto|]);
      destruct (eo_unlock o) as [u|] eqn:Hu; intros; try discriminate; cbn in H; try discriminate.
Qed.

Lemma validate_no_panic o : validate o <> VRpanic.
Proof.
  unfold validate.
  destruct (eo_idx o <? 0) eqn:E0; [discriminate|]. cbn [orb].
  destruct (eo_tx o) as [t|] eqn:Ht.
  - destruct (eo_idx o >? _) eqn:E1; [discriminate|].
    destruct (index_in_range (ot_ins t) (eo_idx o)) as [x Hi]; [lia|lia|].
    rewrite Hi. destruct x as [i|]; [|discriminate].
    destruct (ot_ins t) as [|i0 ins] eqn:Hins;
      (destruct (negb (is_some (eo_lock o)) && _); [discriminate|];
       destruct (negb (is_some (eo_unlock o)) && _); [discriminate|];
       destruct (eo_lock o); [|discriminate]; destruct (eo_prev o) as [[pl|]|]; try discriminate;
       destruct (bytes_eqb _ _); discriminate).
  - destruct (negb (is_some (eo_lock o)) && _); [discriminate|].
    destruct (negb (is_some (eo_unlock o)) && _); [discriminate|].
    destruct (eo_lock o); [|discriminate]. destruct (eo_prev o) as [[pl|]|]; try discriminate.
    destruct (bytes_eqb _ _); discriminate.
Qed.

Theorem apply_opts_no_panic o : apply_opts o <> ARpanic.
Proof.
  unfold apply_opts.
  destruct (validate o) eqn:Hv; [|discriminate|exfalso; exact (validate_no_panic o Hv)].
  destruct (validate_ok_facts o Hv) as (H0 & Hidx & Hlock & Hunlock).
  unfold validate_unlock, deref.
  destruct (eo_unlock o) as [u|] eqn:Hu.
  - destruct (eo_tx o) as [t|] eqn:Ht.
    + destruct (Hidx t eq_refl) as [i Hi]. rewrite Hi.
      assert (Hne : ot_ins t <> []).
      { intros E. rewrite E in Hi. unfold index in Hi. cbn in Hi.
        destruct (eo_idx o <? 0); [discriminate|]. destruct (0 <=? eo_idx o) eqn:E2; [discriminate|]. lia. }
      destruct (ot_ins t) as [|i0 ins] eqn:Hins; [congruence|].
      destruct (oi_unlock i) as [iu|]; [destruct (bytes_eqb u iu); [|discriminate]|];
        (destruct (eo_lock o) as [l|] eqn:Hl;
         [cbn; destruct u; [destruct l|]; discriminate
         |destruct (Hlock eq_refl) as [pl Hp]; rewrite Hp; cbn; destruct u; [destruct pl|]; discriminate]).
    + destruct (eo_lock o) as [l|] eqn:Hl.
      * cbn. destruct u; [destruct l|]; discriminate.
      * destruct (Hlock eq_refl) as [pl Hp]. rewrite Hp. cbn. destruct u; [destruct pl|]; discriminate.
  - destruct (Hunlock eq_refl) as (t & i & iu & Ht & Hi & Hiu). rewrite Ht, Hi, Hiu.
    destruct (eo_lock o) as [l|] eqn:Hl.
    + cbn. destruct iu; [destruct l|]; discriminate.
    + destruct (Hlock eq_refl) as [pl Hp]. rewrite Hp. cbn. destruct iu; [destruct pl|]; discriminate.
Qed.

(** Engine.Execute on arbitrary arguments: success or an error value, never a panic *)
Theorem engine_execute_opts_no_panic so o :
  sigops_ok so -> fst (engine_execute_opts so o) <> VPanic.
Proof.
  intros Hso. unfold engine_execute_opts.
  destruct (apply_opts o) eqn:Ha.
  - apply engine_execute_no_panic; exact Hso.
  - cbn. discriminate.
  - exfalso. exact (apply_opts_no_panic o Ha).
Qed.

(** validation is not vacuous: it rejects exactly the indices the later code would dereference out of range *)
Lemma validate_rejects_bad_index o t :
  eo_tx o = Some t -> index (ot_ins t) (eo_idx o) = IPanic -> validate o = VRerr.
Proof.
  intros Ht Hi. unfold validate. rewrite Ht.
  destruct (eo_idx o <? 0) eqn:E0; [reflexivity|]. cbn [orb].
  destruct (eo_idx o >? _) eqn:E1; [reflexivity|].
  destruct (index_in_range (ot_ins t) (eo_idx o)) as [i Hi']; [lia|lia|]. congruence.
Qed.

(** ... and a nil input at the requested index, which the later code would dereference *)
Lemma validate_rejects_nil_input o t :
  eo_tx o = Some t -> index (ot_ins t) (eo_idx o) = IOk None -> validate o = VRerr.
Proof.
  intros Ht Hi. unfold validate. rewrite Ht, Hi.
  destruct (eo_idx o <? 0) eqn:E0; [reflexivity|]. cbn [orb].
  destruct (eo_idx o >? _) eqn:E1; reflexivity.
Qed.
