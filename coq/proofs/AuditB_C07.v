(** Audit B, C07: Engine.Execute on any arguments WITH the real signature opcodes: the index hypothesis of
    [sigops_ok_mk] is what [validate] establishes. *)
From Coq Require Import List NArith ZArith Lia Bool.
From Coq Require Import Strings.Byte.
From GoBT Require Import lib.Bytes model.Tx model.ScriptNum model.Interp model.ExecOpts model.CheckSig
  proofs.InterpTotal proofs.ExecOptsTotal proofs.CheckSigProofs proofs.MultisigProofs.
Import ListNotations.
Local Open Scope Z_scope.

(** what Engine.Execute reads of a transaction (model/ExecOpts.v's view of model/Tx.v's transaction) *)
Definition proj_tx (t : tx) : o_tx :=
  mkOTx (map (fun x => Some (mkOIn (Some (in_unlock x)) (Z.of_N (in_seq x)))) (tx_ins t))
        (Z.of_N (tx_lock t)) (Z.of_N (tx_version t)).

Theorem execute_total_with_real_tx : forall orc t o,
  wf_tx t -> eo_tx o = Some (proj_tx t) -> Z.of_nat (length (tx_ins t)) < 2 ^ 31 ->
  fst (engine_execute_opts (mk_sigops orc t (Z.to_N (eo_idx o))) o) <> VPanic.
Proof.
  intros orc t o Hwf Htx Hlen. unfold engine_execute_opts.
  destruct (apply_opts o) eqn:Ha.
  - apply engine_execute_no_panic. apply sigops_ok_mk.
    unfold apply_opts in Ha. destruct (validate o) eqn:Hv; try discriminate.
    destruct (validate_ok_facts o Hv) as (H0 & Hidx & _).
    destruct (Hidx _ Htx) as (x & Hx). unfold index in Hx. cbn [proj_tx ot_ins] in Hx. rewrite map_length in Hx.
    destruct ((eo_idx o <? 0) || (Z.of_nat (length (tx_ins t)) <=? eo_idx o))%bool eqn:E; [discriminate|].
    apply orb_false_iff in E. destruct E as [_ E]. apply Z.leb_gt in E.
    split; [exact Hwf|]. split; [rewrite Z_N_nat; lia|].
    apply N2Z.inj_lt. rewrite Z2N.id by lia. change (Z.of_N 2147483648) with (2 ^ 31). lia.
  - cbn. discriminate.
  - exfalso. exact (apply_opts_no_panic o Ha).
Qed.

(** ** Without a transaction or a previous output no signature operation is ever called: the run is the run of
    [no_sigops], whatever [so] is (even one that panics) *)
From GoBT Require Import model.Heap proofs.InterpFrame proofs.HeapRefine proofs.HeapProgress.

Lemma exec_handler_no_sigop so c p idx s : op_sigop_free p = true ->
  exec_handler so c p idx s = exec_handler no_sigops c p idx s.
Proof.
  unfold op_sigop_free. destruct p as [v l dat real]. cbn [p_real p_val]. destruct real.
  2:{ intros _. reflexivity. }
  cbn [andb]. intros Hsig. apply negb_true_iff in Hsig.
  assert (Hne : forall k, is_sigop k = true -> (v =? k)%N = false).
  { intros k Hk. apply N.eqb_neq. intros E. rewrite E in Hsig. rewrite Hk in Hsig. discriminate Hsig. }
  unfold exec_handler. cbn [p_val p_real p_data negb].
  rewrite (Hne OP_CHECKSIG eq_refl), (Hne OP_CHECKSIGVERIFY eq_refl), (Hne OP_CHECKMULTISIG eq_refl),
          (Hne OP_CHECKMULTISIGVERIFY eq_refl).
  reflexivity.
Qed.

Lemma execute_opcode_no_sigop so c p idx s : op_sigop_free p = true ->
  execute_opcode so c p idx s = execute_opcode no_sigops c p idx s.
Proof. intros H. unfold execute_opcode. rewrite (exec_handler_no_sigop so c p idx _ H). reflexivity. Qed.

Lemma run_ops_no_sigop so c : forall ops idx s acc, sigop_free ops = true ->
  run_ops so c ops idx s acc = run_ops no_sigops c ops idx s acc.
Proof.
  induction ops as [|p rest IH]; intros idx s acc Hsf; [reflexivity|].
  unfold sigop_free in Hsf. cbn [forallb] in Hsf. apply andb_true_iff in Hsf. destruct Hsf as [Hp Hrest].
  cbn [run_ops]. rewrite (execute_opcode_no_sigop so c p idx s Hp).
  destruct (execute_opcode no_sigops c p idx s) as [s'|s'| |]; try reflexivity.
  destruct (max_stack c <? lenZ (ds s') + lenZ (als s')); [reflexivity|].
  destruct rest as [|p2 rest2]; [reflexivity|]. apply IH. exact Hrest.
Qed.

Lemma run_redeem_no_sigop so c saved s acc : c_err_on_checksig c = true ->
  run_redeem so c saved s acc = run_redeem no_sigops c saved s acc.
Proof.
  intros He. unfold run_redeem.
  destruct (negb (check_error_condition c false (ds s))); [reflexivity|].
  destruct saved as [|script below]; [reflexivity|].
  destruct (parse_script (c_err_on_checksig c) script) as [ops|] eqn:Ep; [|reflexivity].
  rewrite He in Ep. pose proof (parse_ops_true_sigop_free _ _ _ _ Ep) as Hsf.
  cbv zeta. destruct ops as [|p0 ops0]; [reflexivity|].
  rewrite (run_ops_no_sigop so c _ _ _ _ Hsf). reflexivity.
Qed.

Lemma run_lock_no_sigop so c bip16 saved lock s acc : c_err_on_checksig c = true -> sigop_free lock = true ->
  run_lock so c bip16 saved lock s acc = run_lock no_sigops c bip16 saved lock s acc.
Proof.
  intros He Hsf. unfold run_lock. rewrite (run_ops_no_sigop so c _ _ _ _ Hsf).
  destruct (run_ops no_sigops c lock 0 s acc) as [e acc']. destruct e as [s2|s2| |]; try reflexivity.
  destruct (end_script s2) as [s3|]; [|reflexivity].
  destruct (bip16 && negb (after_genesis c))%bool; [|reflexivity].
  apply run_redeem_no_sigop. exact He.
Qed.

Lemma execute_no_sigop so c bip16 unlock lock : c_err_on_checksig c = true ->
  sigop_free unlock = true -> sigop_free lock = true ->
  execute so c bip16 unlock lock = execute no_sigops c bip16 unlock lock.
Proof.
  intros He Hu Hl. unfold execute.
  destruct unlock as [|u0 ur].
  - destruct lock as [|l0 lr]; [reflexivity|]. apply run_lock_no_sigop; assumption.
  - rewrite (run_ops_no_sigop so c _ _ _ _ Hu).
    destruct (run_ops no_sigops c (u0 :: ur) 0 (init_st (u0 :: ur)) []) as [e acc]. destruct e as [s1|s1| |]; try reflexivity.
    + destruct (end_script s1) as [s2|]; [|reflexivity]. cbv zeta.
      destruct lock as [|l0 lr]; [reflexivity|]. apply run_lock_no_sigop; assumption.
    + cbv zeta. destruct lock as [|l0 lr]; [reflexivity|]. apply run_lock_no_sigop; assumption.
Qed.

Definition engine_body (so : sigops) (c : ctx) (ub lb : bytes) : verdict * list snapshot :=
  if has_flag c F_CLEANSTACK && negb (has_flag c F_BIP16) then (VErr, [])
  else if (max_script_size c <? lenZ ub) || (max_script_size c <? lenZ lb) then (VErr, [])
  else match parse_script (c_err_on_checksig c) ub with
       | None => (VErr, [])
       | Some u =>
           match parse_script (c_err_on_checksig c) lb with
           | None => (VErr, [])
           | Some l =>
               if has_flag c F_SIGPUSHONLY && negb (is_push_only u) then (VErr, [])
               else
                 let p2sh := has_flag c F_BIP16 && negb (after_genesis c) && is_p2sh lb in
                 if p2sh && negb (is_push_only u) then (VErr, [])
                 else execute so c p2sh u l
           end
       end.

Lemma engine_body_no_sigop so c ub lb : c_err_on_checksig c = true ->
  engine_body so c ub lb = engine_body no_sigops c ub lb.
Proof.
  intros He. unfold engine_body. rewrite He.
  destruct (has_flag c F_CLEANSTACK && negb (has_flag c F_BIP16))%bool; [reflexivity|].
  destruct ((max_script_size c <? lenZ ub) || (max_script_size c <? lenZ lb))%bool; [reflexivity|].
  destruct (parse_script true ub) as [u|] eqn:Eu; [|reflexivity].
  destruct (parse_script true lb) as [l|] eqn:El; [|reflexivity].
  destruct (has_flag c F_SIGPUSHONLY && negb (is_push_only u))%bool; [reflexivity|].
  cbv zeta. destruct (_ && negb (is_push_only u))%bool; [reflexivity|].
  apply execute_no_sigop; [exact He|exact (parse_ops_true_sigop_free _ _ _ _ Eu)|exact (parse_ops_true_sigop_free _ _ _ _ El)].
Qed.

Lemma engine_execute_body i :
  (forall so, engine_execute so i = (VErr, [])) \/
  (forall so, engine_execute so i =
     engine_body so (mkCtx (normalise_flags (ei_flags i)) (ei_has_tx i) (ei_tx_lock i) (ei_tx_version i)
                           (ei_in_seq i) (negb (ei_has_tx i) || negb (ei_has_prevout i))) (ei_unlock i) (ei_lock i)).
Proof.
  unfold engine_execute, engine_body. cbv zeta.
  destruct (ei_unlock i) as [|u0 ur]; [destruct (ei_lock i) as [|l0 lr]; [left; reflexivity|]|]; right; reflexivity.
Qed.

(** the whole run (verdict AND snapshots) does not depend on the signature operations *)
Theorem engine_execute_without_context : forall so i,
  ei_has_tx i = false \/ ei_has_prevout i = false -> engine_execute so i = engine_execute no_sigops i.
Proof.
  intros so i Hno.
  assert (He : (negb (ei_has_tx i) || negb (ei_has_prevout i))%bool = true).
  { destruct Hno as [-> | ->]; [reflexivity|apply orb_true_r]. }
  destruct (engine_execute_body i) as [E|E]; rewrite (E so), (E no_sigops); [reflexivity|].
  apply engine_body_no_sigop. cbn [c_err_on_checksig]. exact He.
Qed.

Theorem engine_total_without_context : forall so i,
  ei_has_tx i = false \/ ei_has_prevout i = false -> fst (engine_execute so i) <> VPanic.
Proof.
  intros so i Hno. rewrite (engine_execute_without_context so i Hno).
  apply engine_execute_no_panic. exact no_sigops_ok.
Qed.
