(** C04: signatures made by the library's P2PKH unlocker are accepted by the script interpreter.

    [signed_p2pkh_accepts]: the interpreter model (model/Interp.v, with the signature opcodes of
    model/CheckSig.v over an arbitrary ECDSA oracle) run on
      unlocking script  push(sig ‖ hashtype) push(pubkey)            (bscript.NewP2PKHUnlockingScript)
      locking script    DUP HASH160 <hash160 pubkey> EQUALVERIFY CHECKSIG, optionally followed by the
                        inscription envelope OP_FALSE OP_IF <pushes> OP_ENDIF   (Inscribe)
    ends in the verdict OK whenever the oracle verifies the signature over the digest the engine computes.
    The proof is a symbolic evaluation of the template: the parser on the template bytes, one step lemma
    per opcode, a skip lemma for the push-only envelope body in the branch that is not executing.
    [hash160] is never unfolded.

    [engine_digest_is_signed_digest]: that digest is the one the unlocker signed
    (Tx.CalcInputSignatureHash on the transaction before the unlocking script was installed). *)
From Coq Require Import List NArith ZArith Lia Bool ZifyN ZifyNat ZifyBool.
From Coq Require Import Strings.Byte.
From GoBT Require Import lib.Bytes lib.VarInt lib.Sha256 lib.Ripemd160 model.Tx model.SigHash model.ScriptNum
  model.Interp model.CheckSig proofs.TxProofs proofs.SigHashProofs proofs.AddressProofs.
Import ListNotations.
Local Open Scope Z_scope.

Local Opaque hash160 sha256 sha256d.

(** * The opcode parser on push-only byte strings and on the template *)

Lemma firstn_app_le {A} (a b : list A) n : (n <= length a)%nat -> firstn n (a ++ b) = firstn n a.
Proof.
  intros H. rewrite firstn_app. replace (n - length a)%nat with O by lia. cbn [firstn]. apply app_nil_r.
Qed.
Lemma skipn_app_le {A} (a b : list A) n : (n <= length a)%nat -> skipn n (a ++ b) = skipn n a ++ b.
Proof.
  intros H. rewrite skipn_app. replace (n - length a)%nat with O by lia. reflexivity.
Qed.
Lemma option_map_app_nil {A} (x : option (list A)) : option_map (app []) x = x.
Proof. destruct x; reflexivity. Qed.

(** fuel beyond the number of remaining bytes is irrelevant *)
Lemma parse_ops_fuel e : forall f1 f2 bs d, (length bs <= f1)%nat -> (length bs <= f2)%nat ->
  parse_ops f1 e bs d = parse_ops f2 e bs d.
Proof.
  induction f1 as [|f1 IH]; intros f2 bs d H1 H2.
  - destruct bs; [|cbn in H1; lia]. destruct f2; reflexivity.
  - destruct f2 as [|f2]. { destruct bs; [reflexivity | cbn in H2; lia]. }
    destruct bs as [|b r]; [reflexivity|]. cbn [length] in H1, H2.
    cbn [parse_ops].
    destruct (e && requires_tx (b2n b)); [reflexivity|].
    destruct ((b2n b =? OP_RETURN)%N && (d =? 0)); [reflexivity|].
    destruct (op_length (b2n b) =? 1). { f_equal. apply IH; lia. }
    destruct (1 <? op_length (b2n b)).
    + destruct (Nat.ltb _ _); [reflexivity|]. f_equal. apply IH; rewrite skipn_length; lia.
    + destruct (Nat.ltb _ _); [reflexivity|]. destruct (_ <? _)%N; [reflexivity|].
      f_equal. apply IH; rewrite !skipn_length; lia.
Qed.

Lemma depth_same (v : N) (d : Z) : (v <= 96)%N ->
  (if (v =? OP_IF)%N || (v =? OP_NOTIF)%N
   then d + 1 else if (v =? OP_ENDIF)%N then d - 1 else d) = d.
Proof.
  intros H. unfold OP_IF, OP_NOTIF, OP_ENDIF.
  replace (v =? 99)%N with false by lia. replace (v =? 100)%N with false by lia.
  replace (v =? 104)%N with false by lia. reflexivity.
Qed.

Lemma op_length_cases v :
  ((1 <= v <= 75)%N /\ op_length v = Z.of_N v + 1) \/ (v = 76%N /\ op_length v = -1) \/
  (v = 77%N /\ op_length v = -2) \/ (v = 78%N /\ op_length v = -4) \/ op_length v = 1.
Proof.
  unfold op_length.
  destruct ((1 <=? v)%N && (v <=? 75)%N) eqn:E1; [left; split; [lia|reflexivity]|right].
  destruct (N.eqb_spec v 76); [left; auto|right].
  destruct (N.eqb_spec v 77); [left; auto|right].
  destruct (N.eqb_spec v 78); [left; auto|right]. reflexivity.
Qed.

(** ParsedOpcode.bytes of what the parser produces *)
Lemma pop_bytes_single v : pop_bytes (mkPop v 1 [] true) = Some [n2b v].
Proof. reflexivity. Qed.

Lemma pop_bytes_direct v d : (1 <= v <= 75)%N -> N.of_nat (length d) = v ->
  pop_bytes (mkPop v (Z.of_N v + 1) d true) = Some (n2b v :: d).
Proof.
  intros Hv Hd. unfold pop_bytes. cbn [p_len p_data p_val].
  replace (Z.of_N v + 1 =? 1) with false by lia.
  replace (Z.of_N v + 1 =? -1) with false by lia.
  replace (Z.of_N v + 1 =? -2) with false by lia.
  replace (Z.of_N v + 1 =? -4) with false by lia.
  cbn [app]. replace (lenZ (n2b v :: d) =? Z.of_N v + 1) with true; [reflexivity|].
  unfold lenZ. cbn [length]. lia.
Qed.

Lemma pop_bytes_pushdata v n d : (n = 1 \/ n = 2 \/ n = 4)%nat -> (N.of_nat (length d) < 256 ^ N.of_nat n)%N ->
  pop_bytes (mkPop v (- Z.of_nat n) d true) = Some (n2b v :: le_enc n (N.of_nat (length d)) ++ d).
Proof.
  intros Hn Hd. unfold pop_bytes. cbn [p_len p_data p_val].
  assert (Hlen : forall k, lenZ (n2b v :: le_enc k (N.of_nat (length d)) ++ d) = 1 + Z.of_nat k + Z.of_nat (length d)).
  { intros k. unfold lenZ. cbn [length]. rewrite app_length, le_enc_length. lia. }
  destruct Hn as [ -> | [ -> | -> ] ].
  - change (- Z.of_nat 1 =? 1) with false. change (- Z.of_nat 1 =? -1) with true. cbv iota beta.
    rewrite le_dec_enc by exact Hd. rewrite Hlen.
    replace (_ =? _) with true by lia. reflexivity.
  - change (- Z.of_nat 2 =? 1) with false. change (- Z.of_nat 2 =? -1) with false.
    change (- Z.of_nat 2 =? -2) with true. cbv iota beta.
    rewrite le_dec_enc by exact Hd. rewrite Hlen.
    replace (_ =? _) with true by lia. reflexivity.
  - change (- Z.of_nat 4 =? 1) with false. change (- Z.of_nat 4 =? -1) with false.
    change (- Z.of_nat 4 =? -2) with false. change (- Z.of_nat 4 =? -4) with true. cbv iota beta.
    rewrite le_dec_enc by exact Hd. rewrite Hlen.
    replace (_ =? _) with true by lia. reflexivity.
Qed.

Lemma is_push_only_cons p l : is_push_only (p :: l) = true -> (p_val p <= 96)%N /\ is_push_only l = true.
Proof.
  unfold is_push_only. cbn [forallb]. intros H. apply andb_prop in H. destruct H as [H1 H2].
  unfold OP_16 in H1. split; [lia|exact H2].
Qed.

Lemma op_length_cases' v :
  ((1 <= v <= 75)%N /\ op_length v = Z.of_N v + 1) \/
  (exists n, (n = 1 \/ n = 2 \/ n = 4)%nat /\ op_length v = - Z.of_nat n) \/ op_length v = 1.
Proof.
  destruct (op_length_cases v) as [H|[[_ H]|[[_ H]|[[_ H]|H]]]]; auto; right; left.
  - exists 1%nat; auto. - exists 2%nat; auto. - exists 4%nat; auto.
Qed.

Lemma parse_pushonly e : forall f a d ops, parse_ops f e a d = Some ops -> is_push_only ops = true ->
  unparse ops = Some a /\
  forall rest f2, (length rest <= f2)%nat ->
    parse_ops (f + f2) e (a ++ rest) d = option_map (app ops) (parse_ops f2 e rest d).
Proof.
  induction f as [|f IH]; intros a d ops H Hpo.
  - cbn [parse_ops] in H. destruct a; [|discriminate]. injection H as <-. split; [reflexivity|].
    intros rest f2 _. cbn [Nat.add app]. symmetry; apply option_map_app_nil.
  - destruct a as [|b r].
    { cbn [parse_ops] in H. injection H as <-. split; [reflexivity|]. intros rest f2 Hl. cbn [app].
      rewrite option_map_app_nil. apply parse_ops_fuel; lia. }
    cbn [parse_ops] in H.
    assert (Hb : n2b (b2n b) = b) by apply n2b_b2n.
    assert (Hgoal2 : forall rest f2, parse_ops (S f + f2) e ((b :: r) ++ rest) d =
                                     parse_ops (S (f + f2)) e (b :: (r ++ rest)) d) by reflexivity.
    set (v := b2n b) in *.
    destruct (e && requires_tx v) eqn:Ereq; [discriminate|].
    destruct ((v =? OP_RETURN)%N && (d =? 0)) eqn:Eret.
    { injection H as <-. apply is_push_only_cons in Hpo. cbn [p_val] in Hpo. unfold OP_RETURN in Eret. lia. }
    destruct (op_length_cases' v) as [[Hr Hl]|[[n [Hn Hl]]|Hl]]; rewrite Hl in H.
    + (* direct push *)
      replace (Z.of_N v + 1 =? 1) with false in H by lia. replace (1 <? Z.of_N v + 1) with true in H by lia.
      replace (Z.to_nat (Z.of_N v + 1 - 1)) with (N.to_nat v) in H by lia.
      set (n := N.to_nat v) in *.
      destruct (Nat.ltb (length r) n) eqn:Elt; [discriminate|].
      match type of H with option_map _ ?X = _ => destruct X as [l|] eqn:E end; [|discriminate].
      injection H as <-. apply is_push_only_cons in Hpo as [Hv Hpo]. cbn [p_val] in Hv.
      rewrite depth_same in E by exact Hv. destruct (IH _ _ _ E Hpo) as [IHu IHa]. split.
      * cbn [unparse]. rewrite pop_bytes_direct; [|lia|rewrite firstn_length; lia]. rewrite IHu.
        cbn [app]. rewrite firstn_skipn, Hb. reflexivity.
      * intros rest f2 Hlen. rewrite Hgoal2. cbn [parse_ops]. fold v. rewrite Ereq, Eret, Hl.
        replace (Z.of_N v + 1 =? 1) with false by lia. replace (1 <? Z.of_N v + 1) with true by lia.
        replace (Z.to_nat (Z.of_N v + 1 - 1)) with n by lia.
        rewrite depth_same by exact Hv. rewrite app_length.
        replace (Nat.ltb (length r + length rest) n) with false by lia.
        rewrite firstn_app_le, skipn_app_le by lia. rewrite IHa by exact Hlen.
        destruct (parse_ops f2 e rest d); reflexivity.
    + (* OP_PUSHDATA1/2/4 *)
      replace (- Z.of_nat n =? 1) with false in H by lia. replace (1 <? - Z.of_nat n) with false in H by lia.
      replace (Z.to_nat (- - Z.of_nat n)) with n in H by lia.
      destruct (Nat.ltb (length r) n) eqn:Elt; [discriminate|].
      set (hdr := firstn n r) in *. set (rest0 := skipn n r) in *. set (dlN := le_dec hdr) in *.
      destruct (N.of_nat (length rest0) <? dlN)%N eqn:Edl; [discriminate|].
      set (dl := N.to_nat dlN) in *.
      match type of H with option_map _ ?X = _ => destruct X as [l|] eqn:E end; [|discriminate].
      injection H as <-. apply is_push_only_cons in Hpo as [Hv Hpo]. cbn [p_val] in Hv.
      rewrite depth_same in E by exact Hv. destruct (IH _ _ _ E Hpo) as [IHu IHa].
      assert (Hhl : length hdr = n) by (unfold hdr; rewrite firstn_length; lia).
      assert (Hdl : length (firstn dl rest0) = dl) by (rewrite firstn_length; lia).
      split.
      * cbn [unparse]. rewrite pop_bytes_pushdata; [|exact Hn|].
        2:{ rewrite Hdl. unfold dl. rewrite N2Nat.id. rewrite <- Hhl. apply le_dec_lt. }
        rewrite IHu, Hdl. unfold dl at 1. rewrite N2Nat.id. unfold dlN. rewrite <- Hhl at 1. rewrite le_enc_dec.
        cbn [app]. rewrite <- app_assoc, firstn_skipn. unfold hdr, rest0. rewrite firstn_skipn, Hb. reflexivity.
      * intros rest f2 Hlen. rewrite Hgoal2. cbn [parse_ops]. fold v. rewrite Ereq, Eret, Hl.
        replace (- Z.of_nat n =? 1) with false by lia. replace (1 <? - Z.of_nat n) with false by lia.
        replace (Z.to_nat (- - Z.of_nat n)) with n by lia.
        rewrite depth_same by exact Hv. rewrite app_length.
        replace (Nat.ltb (length r + length rest) n) with false by lia.
        rewrite firstn_app_le, skipn_app_le by lia. fold hdr. fold rest0. fold dlN.
        rewrite app_length. replace (N.of_nat (length rest0 + length rest) <? dlN)%N with false by lia.
        fold dl. rewrite firstn_app_le, skipn_app_le by lia. rewrite IHa by exact Hlen.
        destruct (parse_ops f2 e rest d); reflexivity.
    + (* one-byte opcode *)
      change (1 =? 1) with true in H. cbv iota in H.
      match type of H with option_map _ ?X = _ => destruct X as [l|] eqn:E end; [|discriminate].
      injection H as <-. apply is_push_only_cons in Hpo as [Hv Hpo]. cbn [p_val] in Hv.
      rewrite depth_same in E by exact Hv. destruct (IH _ _ _ E Hpo) as [IHu IHa]. split.
      * cbn [unparse]. rewrite pop_bytes_single, IHu. cbn [app]. rewrite Hb. reflexivity.
      * intros rest f2 Hlen. rewrite Hgoal2. cbn [parse_ops]. fold v. rewrite Ereq, Eret, Hl.
        change (1 =? 1) with true. cbv iota.
        rewrite depth_same by exact Hv. rewrite IHa by exact Hlen.
        destruct (parse_ops f2 e rest d); reflexivity.
Qed.

(** * The P2PKH template (and the inscription envelope) as bytes and as parsed opcodes *)

Definition push_direct (d : bytes) : bytes := n2b (lenN d) :: d.
Definition p2pkh_unlock (sig : bytes) (ht : N) (pk : bytes) : bytes :=
  push_direct (sig ++ [n2b ht]) ++ push_direct pk.
Definition p2pkh_lock (pkh : bytes) : bytes := [x76; xa9; x14] ++ pkh ++ [x88; xac].
Definition inscription_suffix (body : bytes) : bytes := x00 :: x63 :: body ++ [x68].

Definition push_op (d : bytes) : pop := mkPop (lenN d) (Z.of_N (lenN d) + 1) d true.
Definition op1 (v : N) : pop := mkPop v 1 [] true.
Definition p2pkh_unlock_ops (sig : bytes) (ht : N) (pk : bytes) : list pop :=
  [push_op (sig ++ [n2b ht]); push_op pk].
Definition p2pkh_lock_ops (pkh : bytes) : list pop :=
  [op1 OP_DUP; op1 OP_HASH160; push_op pkh; op1 OP_EQUALVERIFY; op1 OP_CHECKSIG].
Definition inscription_ops (bops : list pop) : list pop := op1 OP_0 :: op1 OP_IF :: bops ++ [op1 OP_ENDIF].

Lemma pop_bytes_op1 v : pop_bytes (op1 v) = Some [n2b v].
Proof. reflexivity. Qed.

Lemma parse_push_direct f d rest dth : (1 <= length d <= 75)%nat ->
  parse_ops (S f) false (push_direct d ++ rest) dth = option_map (cons (push_op d)) (parse_ops f false rest dth).
Proof.
  intros Hd. unfold push_direct, push_op. cbn [app parse_ops andb].
  assert (Hv : (1 <= lenN d <= 75)%N) by (unfold lenN; lia).
  rewrite b2n_n2b_small by lia. set (v := lenN d) in *.
  rewrite depth_same by lia. unfold OP_RETURN. replace (v =? 106)%N with false by lia. cbn [andb].
  destruct (op_length_cases v) as [[_ Hl]|[[? _]|[[? _]|[[? _]|Hl]]]]; try lia.
  2:{ unfold op_length in Hl. replace ((1 <=? v)%N && (v <=? 75)%N) with true in Hl by lia. lia. }
  rewrite Hl. replace (Z.of_N v + 1 =? 1) with false by lia. replace (1 <? Z.of_N v + 1) with true by lia.
  replace (Z.to_nat (Z.of_N v + 1 - 1)) with (length d) by (unfold v, lenN; lia).
  rewrite app_length. replace (Nat.ltb (length d + length rest) (length d)) with false by lia.
  rewrite firstn_app_le, skipn_app_le by lia. rewrite firstn_all, skipn_all. reflexivity.
Qed.

Lemma parse_one f b r dth :
  op_length (b2n b) = 1 -> (b2n b =? OP_RETURN)%N = false ->
  parse_ops (S f) false (b :: r) dth =
  option_map (cons (op1 (b2n b)))
    (parse_ops f false r (if (b2n b =? OP_IF)%N || (b2n b =? OP_NOTIF)%N
                          then dth + 1 else if (b2n b =? OP_ENDIF)%N then dth - 1 else dth)).
Proof. intros Hl Hr. cbn [parse_ops andb]. rewrite Hr, Hl. reflexivity. Qed.

Lemma x14_len pkh : length pkh = 20%nat -> x14 = n2b (lenN pkh).
Proof. intros H. unfold lenN. rewrite H. reflexivity. Qed.

Lemma parse_p2pkh_lock f pkh sfx sops : length pkh = 20%nat -> parse_ops f false sfx 0 = Some sops ->
  parse_ops (5 + f) false (p2pkh_lock pkh ++ sfx) 0 = Some (p2pkh_lock_ops pkh ++ sops).
Proof.
  intros Hl Hs. unfold p2pkh_lock. rewrite (x14_len pkh Hl).
  change (([x76; xa9; n2b (lenN pkh)] ++ pkh ++ [x88; xac]) ++ sfx)
    with (x76 :: xa9 :: ((push_direct pkh ++ [x88; xac]) ++ sfx)).
  rewrite <- app_assoc. cbn [Nat.add].
  rewrite (parse_one _ x76) by reflexivity. rewrite (parse_one _ xa9) by reflexivity.
  rewrite parse_push_direct by lia. cbn [app].
  rewrite (parse_one _ x88) by reflexivity. rewrite (parse_one _ xac) by reflexivity.
  change (b2n x76) with 118%N. change (b2n xa9) with 169%N. change (b2n x88) with 136%N. change (b2n xac) with 172%N.
  cbv beta iota delta [N.eqb Pos.eqb orb OP_IF OP_NOTIF OP_VERIF OP_VERNOTIF OP_ENDIF].
  rewrite Hs. reflexivity.
Qed.

Lemma parse_inscription_suffix body bops :
  parse_ops (length body) false body 1 = Some bops -> is_push_only bops = true ->
  parse_ops (2 + (length body + 1)) false (inscription_suffix body) 0 = Some (inscription_ops bops) /\
  unparse (inscription_ops bops) = Some (inscription_suffix body).
Proof.
  intros Hp Hpo. destruct (parse_pushonly false _ _ _ _ Hp Hpo) as [Hu Ha]. split.
  - unfold inscription_suffix. cbn [Nat.add].
    rewrite (parse_one _ x00) by reflexivity. rewrite (parse_one _ x63) by reflexivity.
    change (b2n x00) with 0%N. change (b2n x63) with 99%N.
    cbv beta iota delta [N.eqb Pos.eqb orb OP_IF OP_NOTIF OP_VERIF OP_VERNOTIF OP_ENDIF].
    change (0 + 1) with 1. rewrite Ha by (cbn; lia). reflexivity.
  - unfold inscription_ops, inscription_suffix. cbn [unparse]. rewrite !pop_bytes_op1.
    assert (Hu2 : unparse (bops ++ [op1 OP_ENDIF]) = Some (body ++ [x68])).
    { clear Hp Hpo Ha. revert body Hu. induction bops as [|p l IH]; intros body Hu.
      - injection Hu as <-. reflexivity.
      - cbn [unparse app] in *. destruct (pop_bytes p) as [pb|]; [|discriminate].
        destruct (unparse l) as [lb|] eqn:El; [|discriminate]. injection Hu as <-.
        rewrite (IH lb eq_refl). rewrite app_assoc. reflexivity. }
    rewrite Hu2. reflexivity.
Qed.

(** * One step of the interpreter per template opcode *)

Section Steps.
Variable so : sigops.
Variable c : ctx.

Lemma max_elem_ge : 520 <= max_elem c.
Proof. unfold max_elem, max_int32. destruct (after_genesis c); lia. Qed.
Lemma max_ops_ge : 500 <= max_ops c.
Proof. unfold max_ops, max_int32. destruct (after_genesis c); lia. Qed.
Lemma max_stack_ge : 1000 <= max_stack c.
Proof. unfold max_stack, max_int32. destruct (after_genesis c); lia. Qed.

(** the result of [run_ops] does not depend on the snapshots accumulated so far *)
Lemma run_ops_acc : forall ops idx s acc acc',
  fst (run_ops so c ops idx s acc) = fst (run_ops so c ops idx s acc').
Proof.
  induction ops as [|p rest IH]; intros idx s acc acc'; cbn [run_ops]; [reflexivity|].
  destruct (execute_opcode so c p idx s); try reflexivity.
  destruct (max_stack c <? _); [reflexivity|]. destruct rest; [reflexivity|]. apply IH.
Qed.

Lemma run_ops_step p rest idx s s' acc :
  execute_opcode so c p idx s = OOk s' -> lenZ (ds s') + lenZ (als s') <= 1000 ->
  fst (run_ops so c (p :: rest) idx s acc) = fst (run_ops so c rest (S idx) s' acc).
Proof.
  intros He Hs. cbn [run_ops]. rewrite He. pose proof max_stack_ge.
  replace (max_stack c <? lenZ (ds s') + lenZ (als s')) with false by lia.
  destruct rest; [reflexivity|]. apply run_ops_acc.
Qed.

Lemma should_exec_top s v : cond s = [] -> early s = false -> should_exec c s v = true.
Proof. intros Hc He. unfold should_exec. rewrite Hc, He. destruct (after_genesis c); reflexivity. Qed.

(** a direct data push, executed at top level *)
Lemma exec_push d idx s : (1 <= length d <= 75)%nat -> cond s = [] -> early s = false ->
  (has_flag c F_MINIMALDATA = true -> (2 <= length d)%nat) ->
  execute_opcode so c (push_op d) idx s = OOk (set_ds s (d :: ds s)).
Proof.
  intros Hd Hc He Hm. unfold execute_opcode, push_op. cbn [p_val p_data].
  pose proof max_elem_ge. assert (Hv : (1 <= lenN d <= 75)%N) by (unfold lenN; lia).
  replace (max_elem c <? lenZ d) with false by (unfold lenZ; lia).
  rewrite (should_exec_top s _ Hc He).
  unfold is_disabled, always_illegal, OP_2MUL, OP_2DIV, OP_VERIF, OP_VERNOTIF, OP_16.
  replace (lenN d =? 141)%N with false by lia. replace (lenN d =? 142)%N with false by lia.
  replace (lenN d =? 101)%N with false by lia. replace (lenN d =? 102)%N with false by lia.
  replace (96 <? lenN d)%N with false by lia. cbn [orb andb negb].
  unfold branch_executing. rewrite Hc. cbn [negb andb].
  assert (Hmin : has_flag c F_MINIMALDATA && true && (lenN d <=? OP_PUSHDATA4)%N && true &&
                 negb (minimal_push_ok (mkPop (lenN d) (Z.of_N (lenN d) + 1) d true)) = false).
  { destruct (has_flag c F_MINIMALDATA); [|reflexivity]. specialize (Hm eq_refl).
    unfold minimal_push_ok. cbn [p_val p_data]. destruct d as [|x [|y d']]; cbn [length] in Hm; try lia.
    set (d0 := x :: y :: d') in *. unfold lenN. rewrite N.eqb_refl.
    replace (N.of_nat (length d0) <=? 75)%N with true by lia. cbn. apply andb_false_r. }
  rewrite Hmin. unfold exec_handler. cbn [p_val p_data p_real negb].
  unfold OP_0, OP_PUSHDATA4. replace (lenN d =? 0)%N with false by lia. replace (lenN d <=? 78)%N with true by lia.
  reflexivity.
Qed.

(** a one-byte non-push opcode executed at top level reaches its handler with the operation counted *)
Lemma exec_top v idx s : (96 < v)%N -> is_disabled v = false -> always_illegal v = false ->
  cond s = [] -> early s = false -> nops s + 1 <= 500 ->
  execute_opcode so c (op1 v) idx s = exec_handler so c (op1 v) idx (set_nops s (nops s + 1)).
Proof.
  intros Hv Hdis Hill Hc He Hn. unfold execute_opcode, op1. cbn [p_val p_data].
  pose proof max_elem_ge. pose proof max_ops_ge.
  replace (max_elem c <? lenZ (@nil byte)) with false by (unfold lenZ; cbn [length]; lia).
  rewrite (should_exec_top s _ Hc He), Hdis, Hill. unfold OP_16, OP_PUSHDATA4.
  replace (96 <? v)%N with true by lia. replace (v <=? 78)%N with false by lia.
  cbn [orb andb negb]. cbn [nops set_nops].
  replace (max_ops c <? nops s + 1) with false by lia.
  unfold branch_executing. cbn [cond set_nops]. rewrite Hc. cbn [negb andb].
  rewrite !andb_false_r. reflexivity.
Qed.

Lemma exec_op0 idx s : cond s = [] -> early s = false ->
  execute_opcode so c (op1 OP_0) idx s = OOk (set_ds s ([] :: ds s)).
Proof.
  intros Hc He. unfold execute_opcode, op1. cbn [p_val p_data].
  pose proof max_elem_ge.
  replace (max_elem c <? lenZ (@nil byte)) with false by (unfold lenZ; cbn [length]; lia).
  rewrite (should_exec_top s _ Hc He).
  change (is_disabled OP_0) with false. change (always_illegal OP_0) with false.
  change (OP_16 <? OP_0)%N with false. cbn [orb andb negb].
  unfold branch_executing. rewrite Hc. cbn [negb andb].
  change (minimal_push_ok (mkPop OP_0 1 [] true)) with true. cbn [negb]. rewrite !andb_false_r.
  reflexivity.
Qed.

(** the handlers of the template's opcodes *)
Lemma handler_dup idx s x r : ds s = x :: r ->
  exec_handler so c (op1 OP_DUP) idx s = OOk (set_ds s (x :: x :: r)).
Proof.
  intros Hd.
  change (exec_handler so c (op1 OP_DUP) idx s)
    with (match dup_n 1 (ds s) with Some d' => OOk (set_ds s d') | None => OErr end).
  rewrite Hd. reflexivity.
Qed.
Lemma handler_hash160 idx s x r : ds s = x :: r ->
  exec_handler so c (op1 OP_HASH160) idx s = OOk (set_ds (set_ds s r) (hash160 x :: r)).
Proof.
  intros Hd.
  change (exec_handler so c (op1 OP_HASH160) idx s)
    with (match ds s with a :: r => push (set_ds s r) (hash160 a) | [] => OErr end).
  rewrite Hd. reflexivity.
Qed.
Lemma handler_equalverify idx s a r : ds s = a :: a :: r ->
  exec_handler so c (op1 OP_EQUALVERIFY) idx s = OOk (set_ds s r).
Proof.
  intros Hd.
  change (exec_handler so c (op1 OP_EQUALVERIFY) idx s)
    with (match ds s with a :: b :: r => if bytes_eqb a b then OOk (set_ds s r) else OErr | _ => OErr end).
  rewrite Hd, bytes_eqb_refl. reflexivity.
Qed.
Lemma handler_checksig idx s : exec_handler so c (op1 OP_CHECKSIG) idx s = so_checksig so c s idx false.
Proof. reflexivity. Qed.

(** OP_IF on an empty top element takes the false branch *)
Lemma handler_if_false idx s r : ds s = [] :: r -> cond s = [] -> early s = false ->
  exec_handler so c (op1 OP_IF) idx s =
  OOk (set_cond (set_ds s r) [COND_FALSE] (if after_genesis c then false :: els s else els s)).
Proof.
  intros Hd Hc He.
  change (exec_handler so c (op1 OP_IF) idx s) with
    (if should_exec c s OP_IF then
      if branch_executing s then
        match pop_if_bool c s with
        | None => OErr
        | Some (ok, s') =>
            OOk (set_cond s' ((if ok then COND_TRUE else COND_FALSE) :: cond s')
                          (if after_genesis c then false :: els s' else els s'))
        end
      else OOk (set_cond s (COND_SKIP :: cond s) (if after_genesis c then false :: els s else els s))
    else OOk (set_cond s (COND_FALSE :: cond s) (if after_genesis c then false :: els s else els s))).
  rewrite (should_exec_top s _ Hc He). unfold branch_executing, pop_if_bool. rewrite Hc, Hd.
  cbn [length Nat.ltb Nat.leb as_bool]. destruct (has_flag c F_MINIMALIF); cbn [cond els set_ds]; rewrite Hc; reflexivity.
Qed.

(** SKIP: an opcode with value <= OP_16 in a branch that is not executing does nothing *)
Lemma exec_skip p idx s t cr : (p_val p <= 96)%N -> lenZ (p_data p) <= max_elem c ->
  cond s = t :: cr -> t <> COND_TRUE -> execute_opcode so c p idx s = OOk s.
Proof.
  intros Hv Hd Hc Ht. unfold execute_opcode.
  replace (max_elem c <? lenZ (p_data p)) with false by lia.
  unfold is_disabled, always_illegal, is_conditional, OP_2MUL, OP_2DIV, OP_VERIF, OP_VERNOTIF, OP_16,
    OP_IF, OP_NOTIF, OP_ELSE, OP_ENDIF.
  replace (p_val p =? 141)%N with false by lia. replace (p_val p =? 142)%N with false by lia.
  replace (p_val p =? 101)%N with false by lia. replace (p_val p =? 102)%N with false by lia.
  replace (p_val p =? 99)%N with false by lia. replace (p_val p =? 100)%N with false by lia.
  replace (p_val p =? 103)%N with false by lia. replace (p_val p =? 104)%N with false by lia.
  replace (96 <? p_val p)%N with false by lia. cbn [orb andb negb].
  unfold branch_executing. rewrite Hc. unfold COND_TRUE in *.
  replace (t =? 1)%N with false by lia. reflexivity.
Qed.

(** running push-only opcodes while the branch is not executing changes nothing and never errs *)
Lemma run_skip : forall bops rest idx s t cr acc,
  is_push_only bops = true -> Forall (fun p => lenZ (p_data p) <= max_elem c) bops ->
  cond s = t :: cr -> t <> COND_TRUE -> lenZ (ds s) + lenZ (als s) <= 1000 ->
  fst (run_ops so c (bops ++ rest) idx s acc) = fst (run_ops so c rest (length bops + idx) s acc).
Proof.
  induction bops as [|p l IH]; intros rest idx s t cr acc Hpo Hf Hc Ht Hs; [reflexivity|].
  apply is_push_only_cons in Hpo as [Hv Hpo]. inversion Hf as [|? ? Hd Hf']; subst.
  cbn [app]. rewrite (run_ops_step p (l ++ rest) idx s s acc (exec_skip p idx s t cr Hv Hd Hc Ht) Hs).
  rewrite (IH rest (S idx) s t cr acc Hpo Hf' Hc Ht Hs). cbn [length]. f_equal. f_equal. lia.
Qed.

(** OP_ENDIF closes the conditional *)
Lemma exec_endif idx s t cr e er : cond s = t :: cr -> els s = (if after_genesis c then e :: er else er) ->
  nops s + 1 <= 500 ->
  execute_opcode so c (op1 OP_ENDIF) idx s = OOk (set_cond (set_nops s (nops s + 1)) cr er).
Proof.
  intros Hc He Hn. unfold execute_opcode, op1. cbn [p_val p_data].
  pose proof max_elem_ge. pose proof max_ops_ge.
  replace (max_elem c <? lenZ (@nil byte)) with false by (unfold lenZ; cbn [length]; lia).
  change (is_disabled OP_ENDIF) with false. change (always_illegal OP_ENDIF) with false.
  change (OP_16 <? OP_ENDIF)%N with true. change (is_conditional OP_ENDIF) with true.
  change (OP_ENDIF <=? OP_PUSHDATA4)%N with false.
  cbn [orb andb negb]. cbn [nops set_nops].
  replace (max_ops c <? nops s + 1) with false by lia.
  rewrite !andb_false_r. cbn [andb].
  change (exec_handler so c (mkPop OP_ENDIF 1 [] true) idx (set_nops s (nops s + 1))) with
    (match cond (set_nops s (nops s + 1)) with
     | [] => OErr
     | _ :: cr =>
        if after_genesis c then match els (set_nops s (nops s + 1)) with
                                | _ :: er => OOk (set_cond (set_nops s (nops s + 1)) cr er) | [] => OErr end
        else OOk (set_cond (set_nops s (nops s + 1)) cr (els (set_nops s (nops s + 1))))
     end).
  cbn [cond els set_nops]. rewrite Hc, He. destruct (after_genesis c); reflexivity.
Qed.

End Steps.

Definition suffix (insc : bool) (body : bytes) : bytes := if insc then inscription_suffix body else [].
Definition suffix_ops (insc : bool) (bops : list pop) : list pop := if insc then inscription_ops bops else [].
Definition lock_script (pkh : bytes) (insc : bool) (body : bytes) : bytes := p2pkh_lock pkh ++ suffix insc body.
Definition lock_ops (pkh : bytes) (insc : bool) (bops : list pop) : list pop :=
  p2pkh_lock_ops pkh ++ suffix_ops insc bops.

Definition body_ok (c : ctx) (body : bytes) (bops : list pop) : Prop :=
  parse_ops (length body) false body 1 = Some bops /\ is_push_only bops = true /\
  Forall (fun p => lenZ (p_data p) <= max_elem c) bops.

(** ** the parsed template *)
Lemma parse_unlock sig ht pk : (length (sig ++ [n2b ht]) <= 75)%nat -> length pk = 33%nat ->
  parse_script false (p2pkh_unlock sig ht pk) = Some (p2pkh_unlock_ops sig ht pk).
Proof.
  intros Hf Hp. unfold parse_script, p2pkh_unlock.
  assert (1 <= length (sig ++ [n2b ht]))%nat by (rewrite app_length; cbn [length]; lia).
  set (full := sig ++ [n2b ht]) in *.
  rewrite (parse_ops_fuel false _ (2 + length (push_direct full ++ push_direct pk))) by lia.
  cbn [Nat.add]. rewrite parse_push_direct by lia.
  rewrite <- (app_nil_r (push_direct pk)). rewrite parse_push_direct by lia.
  destruct (length _); reflexivity.
Qed.

Lemma unparse_app a b x y : unparse a = Some x -> unparse b = Some y -> unparse (a ++ b) = Some (x ++ y).
Proof.
  revert x. induction a as [|p l IH]; intros x Ha Hb.
  - injection Ha as <-. exact Hb.
  - cbn [unparse app] in *. destruct (pop_bytes p) as [pb|]; [|discriminate].
    destruct (unparse l) as [lb|]; [|discriminate]. injection Ha as <-.
    rewrite (IH lb eq_refl Hb). rewrite app_assoc. reflexivity.
Qed.

Lemma unparse_p2pkh_lock pkh : length pkh = 20%nat -> unparse (p2pkh_lock_ops pkh) = Some (p2pkh_lock pkh).
Proof.
  intros Hl. unfold p2pkh_lock_ops, p2pkh_lock. cbn [unparse]. rewrite !pop_bytes_op1.
  unfold push_op. rewrite pop_bytes_direct by (unfold lenN; lia). rewrite (x14_len pkh Hl). reflexivity.
Qed.

Lemma parse_lock pkh insc body bops : length pkh = 20%nat ->
  (insc = true -> parse_ops (length body) false body 1 = Some bops /\ is_push_only bops = true) ->
  parse_script false (lock_script pkh insc body) = Some (lock_ops pkh insc bops) /\
  unparse (lock_ops pkh insc bops) = Some (lock_script pkh insc body).
Proof.
  intros Hl Hb. unfold parse_script, lock_script, lock_ops.
  assert (Hs : exists fs, (length (suffix insc body) <= fs)%nat /\
                 parse_ops fs false (suffix insc body) 0 = Some (suffix_ops insc bops) /\
                 unparse (suffix_ops insc bops) = Some (suffix insc body)).
  { destruct insc; cbn [suffix suffix_ops].
    - destruct (Hb eq_refl) as [Hp Hpo]. destruct (parse_inscription_suffix body bops Hp Hpo) as [H1 H2].
      eexists; split; [|split; [exact H1|exact H2]].
      unfold inscription_suffix. cbn [length]. rewrite app_length. cbn [length]. lia.
    - exists O. repeat split; reflexivity || (cbn; lia). }
  destruct Hs as [fs [Hfs [Hps Hus]]]. split.
  - rewrite (parse_ops_fuel false _ (5 + (20 + fs))).
    + apply parse_p2pkh_lock; [assumption|]. rewrite (parse_ops_fuel false _ fs) by lia. exact Hps.
    + lia.
    + rewrite app_length. unfold p2pkh_lock. rewrite !app_length. cbn [length]. lia.
  - apply unparse_app; [apply unparse_p2pkh_lock; exact Hl|exact Hus].
Qed.

(** ** removeOpcode(OP_CODESEPARATOR) and removeOpcodeByData leave the script code alone *)
Lemma filter_id {A} (f : A -> bool) l : forallb f l = true -> filter f l = l.
Proof.
  induction l as [|x l IH]; [reflexivity|]. cbn [forallb filter]. intros H. apply andb_prop in H as [H1 H2].
  rewrite H1, (IH H2). reflexivity.
Qed.

Lemma push_only_no_codesep l : is_push_only l = true ->
  forallb (fun p => negb (p_val p =? OP_CODESEPARATOR)%N) l = true.
Proof.
  induction l as [|p l IH]; [reflexivity|]. intros H. apply is_push_only_cons in H as [Hv H].
  cbn [forallb]. rewrite (IH H). unfold OP_CODESEPARATOR. replace (p_val p =? 171)%N with false by lia. reflexivity.
Qed.

Lemma lock_ops_no_codesep pkh insc bops : length pkh = 20%nat -> (insc = true -> is_push_only bops = true) ->
  remove_opcode (lock_ops pkh insc bops) OP_CODESEPARATOR = lock_ops pkh insc bops.
Proof.
  intros Hl Hb. apply filter_id. unfold lock_ops. rewrite forallb_app. apply andb_true_intro. split.
  - unfold p2pkh_lock_ops, push_op, lenN. rewrite Hl. reflexivity.
  - destruct insc; [|reflexivity]. cbn [suffix_ops]. unfold inscription_ops. cbn [forallb].
    rewrite forallb_app, (push_only_no_codesep bops (Hb eq_refl)). reflexivity.
Qed.

Lemma code_ops_keep c s full ht lops : last_sep s = 0%nat -> cur s = lops ->
  (has_flag c F_FORKID && flag_has ht sh_forkid = true \/ remove_by_data lops full = lops) ->
  remove_opcode lops OP_CODESEPARATOR = lops ->
  checksig_code_ops c s full ht = lops.
Proof.
  intros Hsep Hcur H Hcs. unfold checksig_code_ops, sub_script. rewrite Hsep, Hcur. cbn [skipn].
  destruct H as [H|H].
  - apply andb_prop in H as [H1 H2]. rewrite H1, H2. reflexivity.
  - destruct (negb _ || negb _); [|reflexivity]. unfold strip_sig. rewrite H. exact Hcs.
Qed.

(** ** OP_CHECKSIG *)
Lemma checksig_accept orc t idx c s i sig ht pk r up h :
  ds s = pk :: (sig ++ [n2b ht]) :: r -> (ht < 256)%N ->
  check_hash_type c ht = true -> check_sig_enc c sig = EncOk -> check_pubkey_enc c pk = true ->
  unparse (checksig_code_ops c s (sig ++ [n2b ht]) ht) = Some up ->
  sighash_for t idx up ht = SOk h ->
  orc_parse_pub orc pk = true -> orc_parse_sig orc (uses_der_parser c) sig = true ->
  orc_verify orc pk h sig (uses_der_parser c) = Some true ->
  so_checksig (mk_sigops orc t idx) c s i false = OOk (set_ds s (from_bool true :: r)).
Proof.
  intros Hds Hht Hty Henc Hpk Hup Hsh Hpub Hsig Hver.
  cbn [mk_sigops so_checksig]. unfold checksig_run. rewrite Hds.
  unfold split_last. rewrite rev_app_distr. cbn [rev app]. rewrite rev_involutive.
  rewrite (b2n_n2b_small ht Hht), Hty. cbn [negb]. rewrite Henc, Hpk. cbn [negb].
  rewrite Hup, Hsh, Hpub. cbn [negb]. rewrite Hsig. cbn [negb]. rewrite Hver. reflexivity.
Qed.

(** ** apply's validation, and thread.execute once both scripts have run *)
Lemma engine_execute_run so u l flags lt ver sq uops lops :
  let c := mkCtx (normalise_flags flags) true lt ver sq false in
  u <> [] ->
  (has_flag c F_CLEANSTACK = true -> has_flag c F_BIP16 = true) ->
  lenZ u <= max_script_size c -> lenZ l <= max_script_size c ->
  parse_script false u = Some uops -> parse_script false l = Some lops ->
  is_push_only uops = true -> is_p2sh l = false ->
  engine_execute so (mkExecInput u l flags true true lt ver sq) = execute so c false uops lops.
Proof.
  intros c Hu Hcs Hsu Hsl Hpu Hpl Hpo Hp2.
  unfold engine_execute. cbn [ei_unlock ei_lock ei_flags ei_has_tx ei_has_prevout ei_tx_lock ei_tx_version ei_in_seq negb orb].
  fold c. destruct u as [|u0 u']; [congruence|].
  assert (Hc : has_flag c F_CLEANSTACK && negb (has_flag c F_BIP16) = false).
  { destruct (has_flag c F_CLEANSTACK); [rewrite Hcs by reflexivity|]; reflexivity. }
  rewrite Hc.
  replace ((max_script_size c <? lenZ (u0 :: u')) || (max_script_size c <? lenZ l)) with false by lia.
  change (c_err_on_checksig c) with false. rewrite Hpu, Hpl, Hpo, Hp2.
  rewrite !andb_false_r. reflexivity.
Qed.

Lemma execute_two_stage so c u l s1 sF x :
  u <> [] -> l <> [] ->
  (forall acc, fst (run_ops so c u 0 (init_st u) acc) = SEnd s1) -> cond s1 = [] ->
  (forall acc, fst (run_ops so c l 0 (shift_script (set_als s1 []) l) acc) = SEnd sF) -> cond sF = [] ->
  ds sF = [x] -> as_bool x = true ->
  fst (execute so c false u l) = VOk.
Proof.
  intros Hu Hl H1 Hc1 H2 Hc2 Hd Hx. unfold execute. destruct u as [|u0 u']; [congruence|].
  specialize (H1 []). destruct (run_ops so c (u0 :: u') 0 (init_st (u0 :: u')) []) as [e acc].
  cbn [fst] in H1. subst e. unfold end_script. rewrite Hc1. destruct l as [|l0 l']; [congruence|].
  unfold run_lock. match goal with |- context [run_ops so c (l0 :: l') 0 ?s ?a] => specialize (H2 a) end.
  match goal with |- context [run_ops so c (l0 :: l') 0 ?s ?a] => destruct (run_ops so c (l0 :: l') 0 s a) as [e2 acc2] end.
  cbn [fst] in H2. subst e2. unfold end_script. rewrite Hc2. cbn [andb]. unfold finish. cbn [fst ds set_als].
  rewrite Hd. unfold check_error_condition. cbn [length Nat.eqb negb]. rewrite andb_false_r, Hx. reflexivity.
Qed.

(** * Running the two scripts *)

Ltac bound := unfold lenZ; cbn [ds als set_ds set_nops set_cond init_st length]; lia.
Ltac top_step H :=
  erewrite run_ops_step;
  [ | rewrite exec_top; [ H | reflexivity | reflexivity | reflexivity | reflexivity | reflexivity | cbn [nops set_ds set_nops set_cond]; lia ]
    | bound ].

Section Run.
Variable orc : sig_oracle.
Variable tE : tx.
Variable idx : N.
Variable c : ctx.
Variables sig pk : bytes.
Variable ht : N.
Let so := mk_sigops orc tE idx.
Let full := sig ++ [n2b ht].

Lemma run_unlock U acc : (length full <= 75)%nat -> length pk = 33%nat ->
  (has_flag c F_MINIMALDATA = true -> sig <> []) ->
  fst (run_ops so c (p2pkh_unlock_ops sig ht pk) 0 (init_st U) acc) =
  SEnd (mkSt [pk; full] [] [] [] 0 0 false U).
Proof.
  intros Hf Hp Hm.
  assert (Hf1 : (1 <= length full)%nat) by (unfold full; rewrite app_length; cbn [length]; lia).
  assert (Hf2 : has_flag c F_MINIMALDATA = true -> (2 <= length full)%nat).
  { intros H. specialize (Hm H). unfold full. rewrite app_length. cbn [length]. destruct sig; [congruence|cbn [length]; lia]. }
  unfold p2pkh_unlock_ops. fold full.
  erewrite run_ops_step; [ | apply exec_push; [lia|reflexivity|reflexivity|exact Hf2] | bound ].
  erewrite run_ops_step; [ | apply exec_push; [lia|reflexivity|reflexivity|lia] | bound ].
  reflexivity.
Qed.

Variable L : list pop.         (* the parsed locking script: the [cur] field *)
Variable up h : bytes.
Hypothesis Hht : (ht < 256)%N.
Hypothesis Hty : check_hash_type c ht = true.
Hypothesis Henc : check_sig_enc c sig = EncOk.
Hypothesis Hpke : check_pubkey_enc c pk = true.
Hypothesis Hup : forall s, last_sep s = 0%nat -> cur s = L -> unparse (checksig_code_ops c s full ht) = Some up.
Hypothesis Hsh : sighash_for tE idx up ht = SOk h.
Hypothesis Hpub : orc_parse_pub orc pk = true.
Hypothesis Hsig : orc_parse_sig orc (uses_der_parser c) sig = true.
Hypothesis Hver : orc_verify orc pk h sig (uses_der_parser c) = Some true.

Lemma run_lock_script insc bops acc : length (hash160 pk) = 20%nat ->
  (insc = true -> is_push_only bops = true /\ Forall (fun p => lenZ (p_data p) <= max_elem c) bops) ->
  fst (run_ops so c (lock_ops (hash160 pk) insc bops) 0 (mkSt [pk; full] [] [] [] 0 0 false L) acc) =
  SEnd (mkSt [from_bool true] [] [] [] (if insc then 6 else 4) 0 false L).
Proof.
  intros Hl Hb. unfold lock_ops, p2pkh_lock_ops. cbn [app].
  top_step ltac:(eapply handler_dup; reflexivity).
  top_step ltac:(eapply handler_hash160; reflexivity).
  erewrite run_ops_step; [ | apply exec_push; [lia|reflexivity|reflexivity|lia] | bound ].
  top_step ltac:(eapply handler_equalverify; reflexivity).
  top_step ltac:(rewrite handler_checksig; eapply checksig_accept;
                 [reflexivity|exact Hht|exact Hty|exact Henc|exact Hpke|apply Hup; reflexivity|exact Hsh|exact Hpub|exact Hsig|exact Hver]).
  destruct insc; cbn [suffix_ops].
  - destruct (Hb eq_refl) as [Hpo Hfa]. unfold inscription_ops.
    erewrite run_ops_step; [ | apply exec_op0; reflexivity | bound ].
    top_step ltac:(eapply handler_if_false; reflexivity).
    erewrite (run_skip so c bops [op1 OP_ENDIF] _ _ COND_FALSE [] _ Hpo Hfa); [ | reflexivity | discriminate | bound ].
    erewrite run_ops_step; [ | eapply exec_endif; [reflexivity|reflexivity|cbn [nops set_ds set_nops set_cond]; lia] | bound ].
    reflexivity.
  - reflexivity.
Qed.
End Run.

(** * C04: library-made P2PKH signatures are accepted by the interpreter *)

(** [inp] only supplies the sequence number of the context (as in corr/C06.v [run_case]); no opcode of the
    template reads it.  [bops] is the parsed envelope body and is only constrained when [insc = true]. *)
Theorem signed_p2pkh_accepts : forall (orc : sig_oracle) (t : tx) (idx : N) (inp : input) (flags sats ht : N)
    (sig pk body : bytes) (insc : bool) (bops : list pop) (h : bytes),
  let full := sig ++ [n2b ht] in
  let unlock := p2pkh_unlock sig ht pk in
  let lock := p2pkh_lock (hash160 pk) ++ (if insc then inscription_suffix body else []) in
  let tE := engine_tx t idx unlock lock sats in
  let c := mkCtx (normalise_flags flags) true (Z.of_N (tx_lock t)) (Z.of_N (tx_version t)) (Z.of_N (in_seq inp)) false in
  (ht < 256)%N -> length pk = 33%nat -> (length full <= 75)%nat ->
  (* MINIMALDATA: a one-byte push (empty signature + hash type) need not be a minimal push *)
  (has_flag c F_MINIMALDATA = true -> sig <> []) ->
  (* apply's flag sanity and size limit *)
  (has_flag c F_CLEANSTACK = true -> has_flag c F_BIP16 = true) ->
  lenZ lock <= max_script_size c ->
  (* the envelope body: pushes only (value <= OP_16), each within the element-size limit *)
  (insc = true -> parse_ops (length body) false body 1 = Some bops /\ is_push_only bops = true /\
                  Forall (fun p => lenZ (p_data p) <= max_elem c) bops) ->
  (* the three encoding checks of opcodeCheckSig *)
  check_hash_type c ht = true -> check_sig_enc c sig = EncOk -> check_pubkey_enc c pk = true ->
  (* legacy stripping removes nothing: the FORKID path is taken, or removeOpcodeByData finds no push
     of the parsed locking script that contains the signature *)
  (has_flag c F_FORKID && flag_has ht sh_forkid = true \/
   forall l, parse_script false lock = Some l -> remove_by_data l full = l) ->
  (* the digest the engine computes for this input, the locking script being the script code *)
  sighash_for tE idx lock ht = SOk h ->
  (* ECDSA oracle: key and signature parse, the signature verifies over that digest *)
  orc_parse_pub orc pk = true -> orc_parse_sig orc (uses_der_parser c) sig = true ->
  orc_verify orc pk h sig (uses_der_parser c) = Some true ->
  fst (engine_execute (mk_sigops orc tE idx)
         (mkExecInput unlock lock flags true true (Z.of_N (tx_lock t)) (Z.of_N (tx_version t)) (Z.of_N (in_seq inp)))) = VOk.
Proof.
  intros orc t idx inp flags sats ht sig pk body insc bops h full unlock lock tE c
         Hht Hpk Hfull Hmin Hcs Hsz Hbody Hty Henc Hpke Hstrip Hsh Hpub Hsig Hver.
  pose proof (hash160_length pk) as Hl.
  set (lops := lock_ops (hash160 pk) insc bops).
  change lock with (lock_script (hash160 pk) insc body) in *.
  destruct (parse_lock (hash160 pk) insc body bops Hl) as [Hpl Hul].
  { intros Hi. destruct (Hbody Hi) as [H1 [H2 _]]. auto. }
  fold lops in Hpl, Hul.
  assert (Hstrip' : has_flag c F_FORKID && flag_has ht sh_forkid = true \/ remove_by_data lops full = lops).
  { destruct Hstrip as [H|H]; [left; exact H|right; apply H; exact Hpl]. }
  assert (Hncs : remove_opcode lops OP_CODESEPARATOR = lops).
  { apply lock_ops_no_codesep; [exact Hl|]. intros Hi. apply (Hbody Hi). }
  rewrite (engine_execute_run _ unlock lock flags _ _ _ (p2pkh_unlock_ops sig ht pk) lops).
  - fold c. eapply (execute_two_stage _ c _ lops).
    + discriminate.
    + unfold lops, lock_ops, p2pkh_lock_ops. discriminate.
    + intros acc. apply run_unlock; assumption.
    + reflexivity.
    + intros acc.
      apply (run_lock_script orc tE idx c sig pk ht lops lock h Hht Hty Henc Hpke); try assumption.
      * intros s Hs Hc. fold full. rewrite (code_ops_keep c s full ht lops Hs Hc Hstrip' Hncs). exact Hul.
      * intros Hi. apply (Hbody Hi).
    + reflexivity.
    + reflexivity.
    + reflexivity.
  - discriminate.
  - exact Hcs.
  - fold c. unfold unlock, p2pkh_unlock, push_direct, lenZ. cbn [app length]. rewrite app_length. cbn [length].
    fold full. unfold max_script_size, max_int32. destruct (after_genesis c); lia.
  - exact Hsz.
  - apply parse_unlock; assumption.
  - exact Hpl.
  - unfold p2pkh_unlock_ops, push_op, is_push_only, lenN, OP_16. cbn [forallb p_val]. fold full. lia.
  - reflexivity.
Qed.

(** * The digest the engine recomputes is the digest the unlocker signed *)
Local Open Scope N_scope.

Lemma nth_error_decomp {A} (l : list A) n x : nth_error l n = Some x -> l = firstn n l ++ x :: skipn (S n) l.
Proof.
  revert l; induction n as [|n IH]; intros [|y r] H; try discriminate.
  - injection H as ->. reflexivity.
  - cbn [nth_error] in H. cbn [firstn skipn app]. f_equal. apply IH. exact H.
Qed.

Lemma Forall_mapi_from {A B} (P : A -> Prop) (Q : B -> Prop) (f : N -> A -> B) k l :
  (forall j x, P x -> Q (f j x)) -> Forall P l -> Forall Q (mapi_from f k l).
Proof.
  intros H Hl. revert k. induction Hl as [|x r Hx Hr IH]; intros k; cbn [mapi_from]; constructor; auto.
Qed.
Lemma mapi_from_length {A B} (f : N -> A -> B) k l : length (mapi_from f k l) = length l.
Proof. revert k; induction l as [|x r IH]; intros k; cbn [mapi_from length]; [reflexivity|]. rewrite IH. reflexivity. Qed.

Lemma map_through_erase {B} (f : input -> B) l1 l2 : (forall x, f x = f (erase_unlock x)) ->
  map erase_unlock l1 = map erase_unlock l2 -> map f l1 = map f l2.
Proof.
  intros Hf Hm. rewrite (map_ext f (fun x => f (erase_unlock x)) Hf l1), (map_ext f (fun x => f (erase_unlock x)) Hf l2).
  rewrite <- !(map_map erase_unlock f), Hm. reflexivity.
Qed.

Definition with_prevout (u lock : bytes) (sats : N) (x : input) : input :=
  mkInput (in_txid x) (in_vout x) u (in_seq x) sats (Some lock).

Lemma engine_tx_ins t idx u lock sats inp : nth_error (tx_ins t) (N.to_nat idx) = Some inp ->
  tx_ins (engine_tx t idx u lock sats) =
  firstn (N.to_nat idx) (tx_ins t) ++ with_prevout u lock sats inp :: skipn (S (N.to_nat idx)) (tx_ins t).
Proof.
  intros Hn. unfold engine_tx. cbn [tx_ins].
  pose proof (mapi_split (with_prevout u lock sats) (fun x => x) idx (tx_ins t) inp Hn) as H.
  rewrite !map_id in H. exact H.
Qed.

Theorem engine_digest_is_signed_digest : forall (t : tx) (idx : N) (inp : input) (u lock : bytes) (sats ht : N),
  wf_tx t -> nthN (tx_ins t) idx = Some inp -> in_script inp = Some lock -> in_sats inp = sats ->
  wf_script u -> ht < 256 -> idx + 1 < two32 ->
  sighash_for (engine_tx t idx u lock sats) idx lock ht = fst (calc_input_signature_hash t idx ht).
Proof.
  intros t idx inp u lock sats ht Hwf Hn Hsc Hsats Hu Hht Hidx.
  rewrite nthN_nth_error in Hn. set (n := N.to_nat idx) in *.
  set (tE := engine_tx t idx u lock sats).
  pose proof (engine_tx_ins t idx u lock sats inp Hn) as HinsE. fold tE n in HinsE.
  set (inpE := with_prevout u lock sats inp) in *.
  assert (Hnlt : (n < length (tx_ins t))%nat) by (apply nth_error_Some; congruence).
  assert (HnE : nth_error (tx_ins tE) n = Some inpE).
  { rewrite HinsE. rewrite nth_error_app2 by (rewrite firstn_length; lia).
    rewrite firstn_length. replace (n - Nat.min n (length (tx_ins t)))%nat with O by lia. reflexivity. }
  destruct Hwf as (Hv & Hl & Hins & Houts & Hli & Hlo).
  assert (Hwinp : wf_input inp).
  { rewrite Forall_forall in Hins. apply Hins. eapply nth_error_In; eassumption. }
  assert (HwfE : wf_tx tE).
  { unfold tE, engine_tx, wf_tx. cbn [tx_version tx_lock tx_ins tx_outs]. repeat split; try assumption.
    - unfold mapi. apply (Forall_mapi_from wf_input wf_input); [|exact Hins].
      intros j x Hx. destruct (j =? idx); [|exact Hx].
      destruct Hx as (H1 & H2 & H3 & H4 & H5 & H6). destruct Hwinp as (_ & _ & _ & G4 & _ & G6).
      rewrite Hsc in G6. rewrite Hsats in G4. unfold wf_input. cbn. repeat split; assumption.
    - unfold mapi. rewrite mapi_from_length. exact Hli. }
  assert (Herase : map erase_unlock (tx_ins tE) = map erase_unlock (tx_ins t)).
  { rewrite HinsE. rewrite (nth_error_decomp (tx_ins t) n inp Hn) at 3.
    rewrite !map_app. cbn [map]. f_equal. f_equal.
    unfold inpE, with_prevout, erase_unlock. cbn. rewrite Hsc, Hsats. reflexivity. }
  (* the engine's own steps: Clone, re-installing the script code *)
  unfold sighash_for. fold tE.
  rewrite (clone_eq tE HwfE (wf_tx_not_ambiguous tE inpE n HnE)).
  unfold set_input_script. rewrite nthN_nth_error. fold n. rewrite HnE.
  assert (Hsame : mapi (fun j x => if j =? idx then set_prev_script x (Some lock) else x) (tx_ins tE) = tx_ins tE).
  { rewrite (mapi_split (fun x => set_prev_script x (Some lock)) (fun x => x) idx (tx_ins tE) inpE HnE).
    rewrite !map_id. symmetry. apply (nth_error_decomp (tx_ins tE) n inpE HnE). }
  rewrite Hsame. change (mkTx (tx_version tE) (tx_ins tE) (tx_outs tE) (tx_lock tE)) with tE.
  replace (idx mod two32) with idx by (symmetry; apply N.mod_small; lia).
  (* the digest does not read unlocking scripts *)
  assert (Hpre : (if flag_has ht sh_forkid then fst (calc_input_preimage tE idx ht) else fst (calc_input_preimage_legacy tE idx ht)) =
                 (if flag_has ht sh_forkid then fst (calc_input_preimage t idx ht) else fst (calc_input_preimage_legacy t idx ht))).
  { destruct (flag_has ht sh_forkid).
    - unfold calc_input_preimage. rewrite !input_idx_spec. fold n. rewrite HnE, Hn.
      change (in_txid inpE) with (in_txid inp). change (in_script inpE) with (Some lock). rewrite Hsc.
      change (in_vout inpE) with (in_vout inp). change (in_seq inpE) with (in_seq inp).
      change (in_sats inpE) with sats. rewrite Hsats.
      assert (Hpo : previous_out_hash tE = previous_out_hash t).
      { unfold previous_out_hash. f_equal. f_equal. apply map_through_erase; [reflexivity|exact Herase]. }
      assert (Hsq : sequence_hash tE = sequence_hash t).
      { unfold sequence_hash. f_equal. f_equal. apply map_through_erase; [reflexivity|exact Herase]. }
      rewrite Hpo, Hsq.
      change (tx_outs tE) with (tx_outs t). change (tx_version tE) with (tx_version t). change (tx_lock tE) with (tx_lock t).
      change (outputs_hash tE) with (outputs_hash t).
      destruct (length (in_txid inp) =? 0)%nat; [reflexivity|].
      match goal with |- fst (match ?x with _ => _ end) = _ => destruct x end; reflexivity.
    - apply (legacy_ignores_unlocking_scripts tE t idx ht inpE lock); try assumption.
      + repeat split; assumption.
      + unfold erase_unlocks. rewrite Herase. reflexivity.
      + reflexivity. }
  unfold calc_input_signature_hash.
  destruct (flag_has ht sh_forkid).
  - destruct (calc_input_preimage tE idx ht) as [r1 t1], (calc_input_preimage t idx ht) as [r2 t2].
    cbn [fst] in Hpre. subst r2. destruct r1; try reflexivity. destruct (bytes_eqb default_hex b); reflexivity.
  - destruct (calc_input_preimage_legacy tE idx ht) as [r1 t1], (calc_input_preimage_legacy t idx ht) as [r2 t2].
    cbn [fst] in Hpre. subst r2. destruct r1; try reflexivity. destruct (bytes_eqb default_hex b); reflexivity.
Qed.

Local Close Scope N_scope.

(** both together: verification over the digest the unlocker computed (before any unlocking script was
    installed) is enough *)
Corollary signed_p2pkh_accepts_unlocker_digest : forall (orc : sig_oracle) (t : tx) (idx : N) (inp : input)
    (flags sats ht : N) (sig pk body : bytes) (insc : bool) (bops : list pop) (h : bytes),
  let full := sig ++ [n2b ht] in
  let unlock := p2pkh_unlock sig ht pk in
  let lock := p2pkh_lock (hash160 pk) ++ (if insc then inscription_suffix body else []) in
  let tE := engine_tx t idx unlock lock sats in
  let c := mkCtx (normalise_flags flags) true (Z.of_N (tx_lock t)) (Z.of_N (tx_version t)) (Z.of_N (in_seq inp)) false in
  wf_tx t -> nthN (tx_ins t) idx = Some inp -> in_script inp = Some lock -> in_sats inp = sats ->
  (idx + 1 < two32)%N ->
  (ht < 256)%N -> length pk = 33%nat -> (length full <= 75)%nat ->
  (has_flag c F_MINIMALDATA = true -> sig <> []) ->
  (has_flag c F_CLEANSTACK = true -> has_flag c F_BIP16 = true) ->
  lenZ lock <= max_script_size c ->
  (insc = true -> parse_ops (length body) false body 1 = Some bops /\ is_push_only bops = true /\
                  Forall (fun p => lenZ (p_data p) <= max_elem c) bops) ->
  check_hash_type c ht = true -> check_sig_enc c sig = EncOk -> check_pubkey_enc c pk = true ->
  (has_flag c F_FORKID && flag_has ht sh_forkid = true \/
   forall l, parse_script false lock = Some l -> remove_by_data l full = l) ->
  fst (calc_input_signature_hash t idx ht) = SOk h ->
  orc_parse_pub orc pk = true -> orc_parse_sig orc (uses_der_parser c) sig = true ->
  orc_verify orc pk h sig (uses_der_parser c) = Some true ->
  fst (engine_execute (mk_sigops orc tE idx)
         (mkExecInput unlock lock flags true true (Z.of_N (tx_lock t)) (Z.of_N (tx_version t)) (Z.of_N (in_seq inp)))) = VOk.
Proof.
  intros orc t idx inp flags sats ht sig pk body insc bops h full unlock lock tE c
         Hwf Hn Hsc Hsats Hidx Hht Hpk Hfull Hmin Hcs Hsz Hbody Hty Henc Hpke Hstrip Hsh Hpub Hsig Hver.
  apply (signed_p2pkh_accepts orc t idx inp flags sats ht sig pk body insc bops h); try assumption.
  fold full unlock lock. rewrite <- Hsh.
  apply (engine_digest_is_signed_digest t idx inp unlock lock sats ht); try assumption.
  unfold wf_script, unlock, p2pkh_unlock, push_direct, lenN, two64. cbn [app length]. rewrite app_length. cbn [length].
  fold full. lia.
Qed.

(** * Non-vacuity: the hypotheses of [signed_p2pkh_accepts] hold on concrete instances *)
Definition p2pkh_hyps (orc : sig_oracle) (t : tx) (idx : N) (inp : input) (flags sats ht : N)
    (sig pk body : bytes) (insc : bool) (bops : list pop) (h : bytes) : Prop :=
  let full := sig ++ [n2b ht] in
  let unlock := p2pkh_unlock sig ht pk in
  let lock := p2pkh_lock (hash160 pk) ++ (if insc then inscription_suffix body else []) in
  let tE := engine_tx t idx unlock lock sats in
  let c := mkCtx (normalise_flags flags) true (Z.of_N (tx_lock t)) (Z.of_N (tx_version t)) (Z.of_N (in_seq inp)) false in
  (ht < 256)%N /\ length pk = 33%nat /\ (length full <= 75)%nat /\
  (has_flag c F_MINIMALDATA = true -> sig <> []) /\
  (has_flag c F_CLEANSTACK = true -> has_flag c F_BIP16 = true) /\
  lenZ lock <= max_script_size c /\
  (insc = true -> parse_ops (length body) false body 1 = Some bops /\ is_push_only bops = true /\
                  Forall (fun p => lenZ (p_data p) <= max_elem c) bops) /\
  check_hash_type c ht = true /\ check_sig_enc c sig = EncOk /\ check_pubkey_enc c pk = true /\
  (has_flag c F_FORKID && flag_has ht sh_forkid = true \/
   forall l, parse_script false lock = Some l -> remove_by_data l full = l) /\
  sighash_for tE idx lock ht = SOk h /\
  orc_parse_pub orc pk = true /\ orc_parse_sig orc (uses_der_parser c) sig = true /\
  orc_verify orc pk h sig (uses_der_parser c) = Some true.

(** the packaged hypotheses are exactly those of the theorem *)
Corollary signed_p2pkh_accepts_packed orc t idx inp flags sats ht sig pk body insc bops h :
  p2pkh_hyps orc t idx inp flags sats ht sig pk body insc bops h ->
  let unlock := p2pkh_unlock sig ht pk in
  let lock := p2pkh_lock (hash160 pk) ++ (if insc then inscription_suffix body else []) in
  fst (engine_execute (mk_sigops orc (engine_tx t idx unlock lock sats) idx)
         (mkExecInput unlock lock flags true true (Z.of_N (tx_lock t)) (Z.of_N (tx_version t)) (Z.of_N (in_seq inp)))) = VOk.
Proof.
  intros (H1 & H2 & H3 & H4 & H5 & H6 & H7 & H8 & H9 & H10 & H11 & H12 & H13 & H14 & H15).
  exact (signed_p2pkh_accepts orc t idx inp flags sats ht sig pk body insc bops h H1 H2 H3 H4 H5 H6 H7 H8 H9 H10 H11 H12 H13 H14 H15).
Qed.

(** an oracle that answers "true" to everything, a 33-byte key, a minimal strict-DER signature
    (r = s = 1), the envelope body  push"ord" OP_1 push"text/plain" OP_0 push"hi",  a 1-in/1-out transaction *)
Definition ex_orc : sig_oracle := mkOracle (fun _ => true) (fun _ _ => true) (fun _ _ _ _ => Some true).
Definition ex_pk : bytes := x02 :: repeat_byte 32 x11.
Definition ex_sig : bytes := [x30; x06; x02; x01; x01; x02; x01; x01].
Definition ex_body : bytes :=
  [x03; x6f; x72; x64; x51; x0a; x74; x65; x78; x74; x2f; x70; x6c; x61; x69; x6e; x00; x02; x68; x69].
Definition ex_bops : list pop :=
  match parse_ops (length ex_body) false ex_body 1 with Some l => l | None => [] end.
Definition ex_lock (insc : bool) : bytes :=
  p2pkh_lock (hash160 ex_pk) ++ (if insc then inscription_suffix ex_body else []).
Definition ex_inp (insc : bool) : input := mkInput (repeat_byte 32 xab) 0 [] 4294967295 1000 (Some (ex_lock insc)).
Definition ex_tx (insc : bool) : tx := mkTx 1 [ex_inp insc] [mkOutput 900 [x6a]] 0.
Definition ex_digest (insc : bool) (ht : N) : bytes :=
  match sighash_for (engine_tx (ex_tx insc) 0 (p2pkh_unlock ex_sig ht ex_pk) (ex_lock insc) 1000) 0 (ex_lock insc) ht with
  | SOk h => h | _ => []
  end.
Definition FLAGS_FORKID_GENESIS : N := 2 ^ 11 + 2 ^ 14.

Lemma Forall_le_of_forallb (m : Z) (l : list pop) :
  forallb (fun p => lenZ (p_data p) <=? m) l = true -> Forall (fun p => lenZ (p_data p) <= m) l.
Proof.
  induction l as [|p l IH]; cbn [forallb]; intros H; constructor; apply andb_prop in H as [H1 H2]; [lia|auto].
Qed.

Ltac ex_hyps strip_tac :=
  unfold p2pkh_hyps;
  split; [reflexivity|]; split; [reflexivity|]; split; [vm_compute; lia|];
  split; [intros _; discriminate|];
  split; [intros H; vm_compute in H; discriminate|];
  split; [vm_compute; discriminate|];
  split; [first [ intros H; discriminate H
                | intros _; split; [vm_compute; reflexivity|]; split; [vm_compute; reflexivity|];
                  apply Forall_le_of_forallb; vm_compute; reflexivity ] |];
  split; [vm_compute; reflexivity|]; split; [vm_compute; reflexivity|]; split; [vm_compute; reflexivity|];
  split; [strip_tac|];
  split; [vm_compute; reflexivity|];
  split; [reflexivity|]; split; reflexivity.
Ltac strip_forkid := left; vm_compute; reflexivity.
Ltac strip_legacy := right; intros l Hl; vm_compute in Hl; injection Hl as <-; vm_compute; reflexivity.

(** flags = FORKID|GENESIS (STRICTENC is added by apply), hash type ALL|FORKID = 0x41 *)
Example ex_forkid_genesis_inscription :
  p2pkh_hyps ex_orc (ex_tx true) 0 (ex_inp true) FLAGS_FORKID_GENESIS 1000 65 ex_sig ex_pk ex_body true ex_bops (ex_digest true 65).
Proof. ex_hyps strip_forkid. Qed.
Example ex_forkid_genesis_plain :
  p2pkh_hyps ex_orc (ex_tx false) 0 (ex_inp false) FLAGS_FORKID_GENESIS 1000 65 ex_sig ex_pk [] false [] (ex_digest false 65).
Proof. ex_hyps strip_forkid. Qed.
(** flags = 0, hash type ALL = 0x01: the legacy algorithm, with the stripping that finds nothing *)
Example ex_legacy_inscription :
  p2pkh_hyps ex_orc (ex_tx true) 0 (ex_inp true) 0 1000 1 ex_sig ex_pk ex_body true ex_bops (ex_digest true 1).
Proof. ex_hyps strip_legacy. Qed.
Example ex_legacy_plain :
  p2pkh_hyps ex_orc (ex_tx false) 0 (ex_inp false) 0 1000 1 ex_sig ex_pk [] false [] (ex_digest false 1).
Proof. ex_hyps strip_legacy. Qed.

(** the digests are real ones (32 bytes), and direct evaluation of the model agrees with the theorem *)
Example ex_digests_are_hashes :
  length (ex_digest true 65) = 32%nat /\ length (ex_digest false 65) = 32%nat /\
  length (ex_digest true 1) = 32%nat /\ length (ex_digest false 1) = 32%nat.
Proof. vm_compute. repeat split. Qed.
Example ex_direct_evaluation :
  forall insc flags ht, In (insc, flags, ht) [(true, FLAGS_FORKID_GENESIS, 65%N); (false, FLAGS_FORKID_GENESIS, 65%N);
                                               (true, 0%N, 1%N); (false, 0%N, 1%N)] ->
  fst (engine_execute (mk_sigops ex_orc (engine_tx (ex_tx insc) 0 (p2pkh_unlock ex_sig ht ex_pk) (ex_lock insc) 1000) 0)
         (mkExecInput (p2pkh_unlock ex_sig ht ex_pk) (ex_lock insc) flags true true 0 1 4294967295)) = VOk.
Proof.
  intros insc flags ht H. cbn [In] in H.
  destruct H as [H|[H|[H|[H|[]]]]]; injection H as <- <- <-; vm_compute; reflexivity.
Qed.
(** the unlocker's digest equals the engine's on the instance (an instance of [engine_digest_is_signed_digest]) *)
Example ex_unlocker_digest :
  fst (calc_input_signature_hash (ex_tx true) 0 65) = SOk (ex_digest true 65) /\
  fst (calc_input_signature_hash (ex_tx true) 0 1) = SOk (ex_digest true 1).
Proof. split; vm_compute; reflexivity. Qed.

Print Assumptions signed_p2pkh_accepts.
Print Assumptions engine_digest_is_signed_digest.
Print Assumptions signed_p2pkh_accepts_unlocker_digest.
