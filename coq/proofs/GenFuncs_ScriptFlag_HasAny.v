(** scriptflag.Flag.HasAny (bscript/interpreter/scriptflag/scriptflag.go), as printed from the Go source: on
    one-bit masks [1 << f] it is "one of the flags is set" ([existsb (has_flag c)] over the bit numbers, which is
    how model/Interp.v renders thread.hasAny: [has_flag c A || has_flag c B]); in general it is "for one of
    the masks every bit of it is set".  No hypothesis: the loop is a [range], no index is computed. *)
From Coq Require Import List ZArith NArith Bool Lia ZifyN ZifyNat ZifyBool.
From GoBT Require Import lib.Bytes lib.GoSem gen.Funcs proofs.GenFuncsTac proofs.GenFuncsLoopTac.
From GoBT Require model.Interp.
Import ListNotations.
Ltac Zify.zify_post_hook ::= Z.div_mod_to_equations.
Local Open Scope Z_scope.

Definition HasAny_step (s : Z) (_ : nat) (f : Z) (_ : unit) : ctl unit bool :=
  if Z.land s f =? f then Return true else Next tt.

Lemma HasAny_step_model (s : Z) : forall (l : list Z) (k : nat),
  range_pure (HasAny_step s) l k tt = if existsb (fun f => Z.land s f =? f) l then Returned true else Fall tt.
Proof.
  induction l as [|f r IH]; intros k; cbn [range_pure existsb]; [reflexivity|].
  unfold HasAny_step at 1. destruct (Z.land s f =? f); cbn [orb]; [reflexivity|apply IH].
Qed.

Lemma ScriptFlag_HasAny_Z (s : Z) (l : list Z) :
  ScriptFlag_HasAny s l = Val (existsb (fun f => Z.land s f =? f) l).
Proof.
  unfold ScriptFlag_HasAny.
  rewrite (go_range_pure (HasAny_step s)).
  - cbn [bind]. rewrite HasAny_step_model. destruct (existsb (fun f => Z.land s f =? f) l); reflexivity.
  - intros i x u Hi. destruct u. unfold HasAny_step, go_and.
    rewrite ?(Z.land_comm x s), ?(Z.eqb_sym x (Z.land s x)). go_cases; go_close.
Qed.

Lemma existsb_map {A B} (g : A -> B) (p : B -> bool) (l : list A) : existsb p (map g l) = existsb (fun a => p (g a)) l.
Proof. induction l as [|a r IH]; [reflexivity|]. cbn [map existsb]. rewrite IH. reflexivity. Qed.
Lemma existsb_ext_eq {A} (p q : A -> bool) (l : list A) : (forall a, p a = q a) -> existsb p l = existsb q l.
Proof. intros H. induction l as [|a r IH]; [reflexivity|]. cbn [existsb]. rewrite IH, H. reflexivity. Qed.

Lemma ScriptFlag_HasAny_mask (s : N) (ms : list N) :
  ScriptFlag_HasAny (Z.of_N s) (map Z.of_N ms) = Val (existsb (fun m => N.land s m =? m)%N ms).
Proof.
  rewrite ScriptFlag_HasAny_Z, existsb_map. apply Val_inj. apply existsb_ext_eq. intros m.
  rewrite Z_land_of_N. destruct (Z.eqb_spec (Z.of_N (N.land s m)) (Z.of_N m)), (N.eqb_spec (N.land s m) m); try reflexivity; exfalso; lia.
Qed.

Lemma N_land_pow2 a n : N.land a (2 ^ n) = if N.testbit a n then (2 ^ n)%N else 0%N.
Proof.
  apply N.bits_inj. intros m. rewrite N.land_spec, N.pow2_bits_eqb.
  destruct (N.eqb_spec n m) as [->|Hne].
  - rewrite andb_true_r. destruct (N.testbit a m) eqn:E; [rewrite N.pow2_bits_true|rewrite N.bits_0]; reflexivity.
  - rewrite andb_false_r. destruct (N.testbit a n); [rewrite N.pow2_bits_false by exact Hne|rewrite N.bits_0]; reflexivity.
Qed.

Lemma ScriptFlag_HasAny_is_model (c : Interp.ctx) (fs : list N) :
  ScriptFlag_HasAny (Z.of_N (Interp.c_flags c)) (map Z.of_N (map (fun f => 2 ^ f)%N fs)) = Val (existsb (Interp.has_flag c) fs).
Proof.
  rewrite ScriptFlag_HasAny_mask, existsb_map. apply Val_inj. apply existsb_ext_eq. intros f.
  unfold Interp.has_flag. rewrite N_land_pow2.
  destruct (N.testbit (Interp.c_flags c) f); [apply N.eqb_refl|].
  apply N.eqb_neq. intros H. symmetry in H. apply N.pow_nonzero in H; [exact H|discriminate].
Qed.
