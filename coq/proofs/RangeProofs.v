(** rangeAbove / InscribeSpecificOrdinal against the first-in-first-out numbering of spec/OrdSpec.v. *)
From Coq Require Import List NArith Lia ZifyN ZifyNat ZifyBool ZArith Bool.
From Coq Require Import Strings.Byte.
From GoBT Require Import lib.Bytes lib.VarInt model.Tx model.Inscription spec.OrdSpec proofs.InscriptionProofs.
Import ListNotations.
Local Open Scope N_scope.
Local Open Scope bool_scope.
Ltac Zify.zify_post_hook ::= Z.div_mod_to_equations.

(** ** rangeAbove / InscribeSpecificOrdinal *)
Lemma range_above_loop_spec idx : forall is i acc,
  i + N.of_nat (length is) < two32 ->
  Forall (fun x => in_sats x <> 0) (firstn (N.to_nat (idx - i)) is) ->
  acc + sum_list (map in_sats (firstn (N.to_nat (idx - i)) is)) < two64 ->
  range_above_loop is i idx acc = RaOk (acc + sum_list (map in_sats (firstn (N.to_nat (idx - i)) is))).
Proof.
  induction is as [|x r IH]; intros i acc Hi Hnz Hsum; cbn [range_above_loop].
  - rewrite firstn_nil. cbn. f_equal. lia.
  - cbn [length] in Hi. rewrite N.mod_small by (unfold two32 in *; lia).
    destruct (N.leb_spec idx i) as [Hle|Hgt].
    + replace (idx - i) with 0 by lia. cbn. f_equal. lia.
    + replace (N.to_nat (idx - i)) with (S (N.to_nat (idx - (i + 1)))) in * by lia.
      cbn [firstn map sum_list fold_right] in *. fold (sum_list (map in_sats (firstn (N.to_nat (idx - (i + 1))) r))) in *.
      inversion Hnz as [|? ? Hx Hr]; subst.
      replace (in_sats x =? 0) with false by lia.
      rewrite N.mod_small by lia. rewrite IH; [f_equal; lia| lia | assumption | lia].
Qed.

(** when input [idx] exists (or idx = len), all earlier inputs carry a value and nothing overflows,
    rangeAbove returns the first-in-first-out number of satoshi [sat] of input [idx] *)
Theorem range_above_spec is idx sat :
  N.of_nat (length is) < two32 -> idx <= N.of_nat (length is) ->
  Forall (fun x => in_sats x <> 0) (firstn (N.to_nat idx) is) ->
  first_sat_of_input (map in_sats is) (N.to_nat idx) + sat < two64 ->
  range_above is idx sat = RaOk (first_sat_of_input (map in_sats is) (N.to_nat idx) + sat).
Proof.
  intros Hl Hi Hnz Hsum. unfold range_above, first_sat_of_input in *. rewrite firstn_map in *.
  rewrite N.mod_small by exact Hl. replace (N.of_nat (length is) <? idx) with false by lia.
  pose proof (range_above_loop_spec idx is 0 0) as L. rewrite N.sub_0_r, !N.add_0_l in L.
  rewrite L by (try assumption; lia). rewrite N.mod_small by lia. reflexivity.
Qed.

Theorem range_above_no_input is idx sat : N.of_nat (length is) < two32 -> N.of_nat (length is) < idx ->
  range_above is idx sat = RaErr RaNoExist.
Proof.
  intros Hl Hi. unfold range_above. rewrite N.mod_small by exact Hl.
  replace (N.of_nat (length is) <? idx) with true by lia. reflexivity.
Qed.

(** InscribeSpecificOrdinal on a transaction without outputs: [amount to the extra script; 1 satoshi
    inscription], and the chosen satoshi is the one the inscription output receives *)
Theorem inscribe_specific_fifo t h20 ct data enriched idx sat extra x :
  tx_outs t = [] -> N.of_nat (length (tx_ins t)) < two32 ->
  nth_error (tx_ins t) (N.to_nat idx) = Some x -> sat < in_sats x ->
  Forall (fun y => in_sats y <> 0) (firstn (N.to_nat idx) (tx_ins t)) ->
  first_sat_of_input (map in_sats (tx_ins t)) (N.to_nat idx) + sat < two64 ->
  length h20 = 20%nat -> lenN ct < 4294967296 -> lenN data < 4294967296 -> enriched_ok enriched ->
  let s := first_sat_of_input (map in_sats (tx_ins t)) (N.to_nat idx) + sat in
  exists script t',
    inscribe_specific_ordinal t (p2pkh_script h20) ct data enriched idx sat extra = RaOk t' /\
    tx_outs t' = [mkOutput s extra; mkOutput 1 script] /\ tx_ins t' = tx_ins t /\
    parse_inscription script = PIOk ct data (p2pkh_script h20) /\
    output_of_sat (map out_sats (tx_outs t')) s = Some 1%nat.
Proof.
  intros Ho Hl Hx Hs Hnz Hsum H20 Hct Hd He s.
  assert (idx < N.of_nat (length (tx_ins t))) as Hi.
  { assert (N.to_nat idx < length (tx_ins t))%nat by (apply nth_error_Some; congruence). lia. }
  unfold inscribe_specific_ordinal. rewrite range_above_spec by (try assumption; lia). rewrite Ho.
  unfold inscribe. rewrite inscribe_script_toks by assumption.
  eexists. eexists. split; [reflexivity|]. cbn [add_out tx_outs tx_ins]. rewrite Ho. cbn [app].
  split; [reflexivity|]. split; [reflexivity|]. split; [apply parse_inscribe_toks; assumption|].
  cbn [map out_sats output_of_sat]. fold s. replace (s <? s) with false by lia.
  replace (s - s) with 0 by lia. reflexivity.
Qed.
