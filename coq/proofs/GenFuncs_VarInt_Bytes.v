(** VarInt.Bytes (varint.go), as printed from the Go source, is [varint_bytes] of lib/VarInt.v. *)
From Coq Require Import List ZArith NArith Bool Lia ZifyN ZifyNat ZifyBool.
From Coq Require Import Strings.Byte.
From GoBT Require Import lib.Bytes lib.VarInt lib.GoSem gen.Funcs proofs.GenFuncsTac.
Import ListNotations.
Ltac Zify.zify_post_hook ::= Z.div_mod_to_equations.
Local Open Scope Z_scope.

Lemma VarInt_Bytes_is_model (v : N) : (v < 18446744073709551616)%N ->
  VarInt_Bytes (Z.of_N v) = Val (varint_bytes v).
Proof.
  intros Hv. unfold varint_bytes, two16, two32.
  destruct (N.ltb_spec v 253) as [H1|H1]; [|destruct (N.ltb_spec v 65536) as [H2|H2]; [|destruct (N.ltb_spec v 4294967296) as [H3|H3]]];
    unfold VarInt_Bytes; go_decide; go_eval; apply Val_inj; go_bytes.
Qed.
