(** isP2PKHInscriptionHelper (bscript/script.go), as printed from the Go source, is [inscription_helper] of
    model/Classify.v (C14, C20), for every list of parts, the panic outcome included.  Both sides are brought into one vocabulary and split in
    evaluation order (proofs/GenFuncsPartsTac.v: [parts_auto]); the [range] over the literal index list unrolls. *)
From Coq Require Import List ZArith NArith Bool Lia ZifyN ZifyNat ZifyBool.
From Coq Require Import Strings.Byte.
From GoBT Require Import lib.Bytes lib.GoSem gen.Funcs proofs.GenFuncsTac proofs.GenFuncsLoopTac proofs.GenFuncsScriptTac proofs.GenFuncsPartsTac.
From GoBT Require lib.Checked model.Push model.Classify.
Import ListNotations.
Ltac Zify.zify_post_hook ::= Z.div_mod_to_equations.
Local Open Scope Z_scope.

Lemma isP2PKHInscriptionHelper_is_model (parts : list bytes) :
  to_outcome (isP2PKHInscriptionHelper parts) = Classify.inscription_helper parts.
Proof.
  unfold isP2PKHInscriptionHelper, Classify.inscription_helper. cbv zeta.
  parts_auto.
Qed.
