(** abstractVerify (bscript/interpreter/operations.go), the helper of OP_VERIFY / OP_EQUALVERIFY / OP_NUMEQUALVERIFY /
    the *VERIFY signature opcodes, as printed from the Go source, is [Interp.verify_top]: for every state (data stack of
    fewer than 2^31 - 16 items, items shorter than 2^63 bytes) and every error code [c] (only the message depends on it)
    the printed function applied to the data stack in Go order, [rev (ds s)], yields the model's outcome -- the top item
    is removed and must be true --, and never runs out of fuel. *)
From Coq Require Import List ZArith NArith Bool Lia ZifyN ZifyNat ZifyBool.
From Coq Require Import Strings.Byte.
From GoBT Require Import lib.Bytes lib.GoSem lib.GoInterp gen.Funcs proofs.GenFuncsTac proofs.GenFuncsInterpTac proofs.GenFuncs_stack_PopByteArray proofs.GenFuncs_stack_PopBool proofs.GenFuncs_asBool.
From GoBT Require model.Interp model.ScriptNum.
Import ListNotations.
Ltac Zify.zify_post_hook ::= Z.div_mod_to_equations.
Local Open Scope Z_scope.

Lemma abstractVerify_is_model (code : Z) s : small (Interp.ds s) -> items_ok (Interp.ds s) ->
  h_view s (abstractVerify code (rev (Interp.ds s))) = Some (Interp.verify_top s).
Proof.
  intros Hs Hi.
  destruct s as [d a cd el no ls ea cu]. cbn [Interp.ds Interp.als] in *. h_model.
  go_list_cases d 1%nat; h_items; unfold abstractVerify; stk_run; try h_done.
  repeat (match goal with |- context [asBool ?x] => rewrite (asBool_is_model x) by assumption end; stk_run).
  destruct (ScriptNum.as_bool x); stk_run; h_done.
Qed.
