(** Proofs about the script-number model (model/ScriptNum.v: number.go / stack.go asBool) and
    OP_NUM2BIN's padding (model/Interp.v [num2bin_pad]).  All statements are for all inputs. *)
From Coq Require Import List NArith ZArith Lia Bool ZifyN ZifyNat ZifyBool.
From Coq Require Import Strings.Byte.
From GoBT Require Import lib.Bytes model.ScriptNum model.Interp.
Import ListNotations.
Ltac Zify.zify_post_hook ::= Z.div_mod_to_equations.

(** * Powers of 256 as an opaque function of a [nat] length *)
Local Open Scope N_scope.

Definition p256 (k : nat) : N := 256 ^ N.of_nat k.

Lemma p256_0 : p256 0 = 1.
Proof. reflexivity. Qed.
Lemma p256_S k : p256 (S k) = 256 * p256 k.
Proof. unfold p256. rewrite Nat2N.inj_succ, N.pow_succ_r'. reflexivity. Qed.
Lemma p256_pos k : 0 < p256 k.
Proof. unfold p256. apply N.neq_0_lt_0, N.pow_nonzero. discriminate. Qed.
Lemma p256_add a b : p256 (a + b) = p256 a * p256 b.
Proof. unfold p256. rewrite Nat2N.inj_add, N.pow_add_r. reflexivity. Qed.
Lemma p256_mono a b : (a <= b)%nat -> p256 a <= p256 b.
Proof. intros H. unfold p256. apply N.pow_le_mono_r; lia. Qed.
Lemma p256_Z k : Z.of_N (p256 k) = (256 ^ Z.of_nat k)%Z.
Proof. unfold p256. rewrite N2Z.inj_pow, nat_N_Z. reflexivity. Qed.
Lemma p256_pow2 k : p256 k = 2 ^ (8 * N.of_nat k).
Proof. unfold p256. rewrite N.pow_mul_r. reflexivity. Qed.
Global Opaque p256.

Lemma p256_bracket_unique j k m : p256 j <= m < p256 (S j) -> p256 k <= m < p256 (S k) -> j = k.
Proof.
  intros [Hj1 Hj2] [Hk1 Hk2].
  destruct (Nat.lt_trichotomy j k) as [H|[H|H]]; [exfalso|exact H|exfalso].
  - pose proof (p256_mono (S j) k ltac:(lia)). lia.
  - pose proof (p256_mono (S k) j ltac:(lia)). lia.
Qed.

(** * Little-endian codec facts beyond lib/Bytes.v *)
Lemma le_dec_app a b : le_dec (a ++ b) = le_dec a + p256 (length a) * le_dec b.
Proof.
  induction a as [|x a IH]; cbn [app le_dec length].
  - rewrite p256_0. lia.
  - rewrite IH, p256_S. lia.
Qed.

Lemma le_dec_ltP bs : le_dec bs < p256 (length bs).
Proof.
  induction bs as [|b r IH]; cbn [le_dec length].
  - rewrite p256_0. lia.
  - rewrite p256_S. pose proof (b2n_lt b). lia.
Qed.

Lemma le_enc_snoc k v : le_enc (S k) v = le_enc k v ++ [n2b (v / p256 k)].
Proof.
  revert v; induction k as [|k IH]; intros v.
  - cbn [le_enc app]. rewrite p256_0, N.div_1_r. reflexivity.
  - change (le_enc (S (S k)) v) with (n2b v :: le_enc (S k) (v / 256)).
    rewrite IH. cbn [le_enc app]. rewrite p256_S, N.div_div by (pose proof (p256_pos k); lia).
    reflexivity.
Qed.

Lemma le_dec_enc_mod k v : le_dec (le_enc k v) = v mod p256 k.
Proof.
  revert v; induction k as [|k IH]; intros v.
  - cbn [le_enc le_dec]. rewrite p256_0, N.mod_1_r. reflexivity.
  - cbn [le_enc le_dec]. rewrite IH, b2n_n2b, p256_S.
    rewrite N.mod_mul_r by (pose proof (p256_pos k); lia). reflexivity.
Qed.

Lemma le_dec_zeros k : le_dec (repeat_byte k x00) = 0.
Proof. induction k as [|k IH]; cbn [repeat_byte le_dec]; [reflexivity|]. rewrite IH. reflexivity. Qed.

(** * Top-bit helpers *)
Lemma hi_bit_true b : hi_bit b = true <-> 128 <= b2n b.
Proof. unfold hi_bit. rewrite N.leb_le. reflexivity. Qed.
Lemma hi_bit_false b : hi_bit b = false <-> b2n b < 128.
Proof. unfold hi_bit. rewrite N.leb_gt. reflexivity. Qed.
Lemma b2n_clear_hi b : b2n (clear_hi b) = b2n b mod 128.
Proof. unfold clear_hi. rewrite b2n_n2b_small; [reflexivity|lia]. Qed.
Lemma b2n_set_hi b : b2n (set_hi b) = b2n b mod 128 + 128.
Proof. unfold set_hi. rewrite b2n_n2b_small; [reflexivity|lia]. Qed.
Lemma b2n_x80 : b2n x80 = 128. Proof. reflexivity. Qed.
Lemma b2n_x00 : b2n x00 = 0. Proof. reflexivity. Qed.
Lemma byte_eq_of_b2n a n : n < 256 -> b2n a = n -> a = n2b n.
Proof. intros _ H. rewrite <- H, n2b_b2n. reflexivity. Qed.

(** * [num_dec] of a non-empty string: sign of the last byte times the magnitude *)
Definition sgn_of (last : byte) : Z := if hi_bit last then (-1)%Z else 1%Z.
Definition mag_of (body : bytes) (last : byte) : N := le_dec body + p256 (length body) * (b2n last mod 128).

Lemma num_dec_nil : num_dec [] = 0%Z.
Proof. reflexivity. Qed.

Lemma num_dec_snoc body last :
  num_dec (body ++ [last]) = (sgn_of last * Z.of_N (mag_of body last))%Z.
Proof.
  unfold num_dec, sgn_of, mag_of. rewrite rev_app_distr. cbn [rev app].
  rewrite le_dec_app, app_length. cbn [length le_dec].
  replace (Z.of_nat (length body + 1) - 1)%Z with (Z.of_nat (length body)) by lia.
  rewrite <- p256_Z.
  pose proof (b2n_lt last) as Hl.
  set (p := p256 (length body)). set (v := le_dec body).
  destruct (hi_bit last) eqn:Hh.
  - apply hi_bit_true in Hh.
    assert (E : b2n last = b2n last mod 128 + 128) by lia.
    rewrite E at 1. set (t := b2n last mod 128). nia.
  - apply hi_bit_false in Hh. rewrite (N.mod_small (b2n last)) by lia. nia.
Qed.

Lemma mag_of_lt body last : mag_of body last < 128 * p256 (length body).
Proof.
  unfold mag_of. pose proof (le_dec_ltP body). pose proof (b2n_lt last).
  assert (b2n last mod 128 <= 127) by lia. nia.
Qed.

(** * [byte_len]: the number of base-256 digits *)
Lemma byte_len_spec m : 0 < m -> exists k, byte_len m = S k /\ p256 k <= m < p256 (S k).
Proof.
  intros Hm. unfold byte_len.
  rewrite N.size_log2 by lia.
  destruct (N.log2_spec m Hm) as [Hlo Hhi].
  set (l := N.log2 m) in *.
  exists (N.to_nat (l / 8)). split.
  - lia.
  - rewrite !p256_pow2. rewrite Nat2N.inj_succ, N2Nat.id. split.
    + eapply N.le_trans; [|exact Hlo]. apply N.pow_le_mono_r; lia.
    + eapply N.lt_le_trans; [exact Hhi|]. apply N.pow_le_mono_r; lia.
Qed.

(** * The shape of [num_enc z] *)
Lemma num_enc_0 : num_enc 0 = [].
Proof. reflexivity. Qed.

Lemma num_enc_form z : z <> 0%Z ->
  exists k, let m := Z.abs_N z in let t := m / p256 k in
    p256 k <= m < p256 (S k) /\ 1 <= t < 256 /\ m = m mod p256 k + p256 k * t /\
    num_enc z =
      if 128 <=? t then le_enc k m ++ [n2b t] ++ [if (z <? 0)%Z then x80 else x00]
      else le_enc k m ++ [if (z <? 0)%Z then n2b (t + 128) else n2b t].
Proof.
  intros Hz. unfold num_enc. destruct (Z.eqb_spec z 0) as [|_]; [contradiction|].
  destruct (byte_len_spec (Z.abs_N z) ltac:(lia)) as (k & Hk & Hlo & Hhi).
  exists k. cbv zeta. rewrite Hk. set (m := Z.abs_N z) in *.
  pose proof (p256_pos k) as Hp. rewrite p256_S in Hhi.
  assert (Ht1 : 1 <= m / p256 k) by (apply N.div_le_lower_bound; lia).
  assert (Ht2 : m / p256 k < 256) by (apply N.div_lt_upper_bound; lia).
  assert (Hdm : m = m mod p256 k + p256 k * (m / p256 k)) by (pose proof (N.div_mod m (p256 k)); lia).
  split; [rewrite p256_S; lia|]. split; [lia|]. split; [exact Hdm|].
  rewrite le_enc_snoc, rev_app_distr. cbn [rev app].
  unfold hi_bit. rewrite b2n_n2b_small by lia.
  destruct (128 <=? m / p256 k) eqn:Hb.
  - rewrite <- app_assoc. reflexivity.
  - apply N.leb_gt in Hb. destruct (z <? 0)%Z.
    + cbn [rev]. rewrite rev_involutive. f_equal. f_equal.
      unfold set_hi. rewrite b2n_n2b_small by lia. rewrite N.mod_small by lia. reflexivity.
    + reflexivity.
Qed.

(** * 1. decode after encode *)
Theorem num_dec_enc : forall z, num_dec (num_enc z) = z.
Proof.
  intros z. destruct (Z.eq_dec z 0) as [->|Hz]; [reflexivity|].
  destruct (num_enc_form z Hz) as (k & Hb & Ht & Hdm & E). cbv zeta in *.
  set (m := Z.abs_N z) in *. set (t := m / p256 k) in *.
  rewrite E. destruct (128 <=? t) eqn:Hc.
  - apply N.leb_le in Hc. rewrite app_assoc, num_dec_snoc.
    unfold mag_of, sgn_of. rewrite le_dec_app, le_enc_length, le_dec_enc_mod.
    cbn [le_dec]. rewrite b2n_n2b_small by lia.
    destruct (Z.ltb_spec z 0) as [Hneg|Hpos].
    + replace (hi_bit x80) with true by reflexivity. rewrite b2n_x80.
      change (128 mod 128) with 0. lia.
    + replace (hi_bit x00) with false by reflexivity. rewrite b2n_x00.
      change (0 mod 128) with 0. lia.
  - apply N.leb_gt in Hc. rewrite num_dec_snoc.
    unfold mag_of, sgn_of, hi_bit. rewrite le_enc_length, le_dec_enc_mod.
    destruct (Z.ltb_spec z 0) as [Hneg|Hpos].
    + rewrite b2n_n2b_small by lia.
      replace (128 <=? t + 128) with true by (symmetry; apply N.leb_le; lia).
      replace ((t + 128) mod 128) with t by lia. lia.
    + rewrite b2n_n2b_small by lia.
      replace (128 <=? t) with false by (symmetry; apply N.leb_gt; lia).
      rewrite (N.mod_small t) by lia. lia.
Qed.

(** * 2. the encoding is minimal *)
Theorem num_enc_minimal : forall z, is_minimal (num_enc z) = true.
Proof.
  intros z. destruct (Z.eq_dec z 0) as [->|Hz]; [reflexivity|].
  destruct (num_enc_form z Hz) as (k & Hb & Ht & Hdm & E). cbv zeta in *.
  set (m := Z.abs_N z) in *. set (t := m / p256 k) in *.
  rewrite E. unfold is_minimal. destruct (128 <=? t) eqn:Hc.
  - apply N.leb_le in Hc. rewrite !rev_app_distr. cbn [rev app].
    unfold hi_bit. rewrite b2n_n2b_small by lia.
    replace (128 <=? t) with true by (symmetry; apply N.leb_le; lia).
    destruct (z <? 0)%Z; reflexivity.
  - apply N.leb_gt in Hc. rewrite !rev_app_distr. cbn [rev app].
    destruct (z <? 0)%Z; rewrite b2n_n2b_small by lia.
    + replace ((t + 128) mod 128 =? 0) with false; [reflexivity|]. symmetry. apply N.eqb_neq. lia.
    + replace (t mod 128 =? 0) with false; [reflexivity|]. symmetry. apply N.eqb_neq. lia.
Qed.

(** * 3. encode after decode on minimal strings *)
Lemma snoc_cases {A} (l : list A) : l = [] \/ exists body last, l = body ++ [last].
Proof.
  destruct (rev l) as [|x r] eqn:E.
  - left. rewrite <- (rev_involutive l), E. reflexivity.
  - right. exists (rev r), x. rewrite <- (rev_involutive l), E. reflexivity.
Qed.

Lemma n2b_mod n : n2b n = n2b (n mod 256).
Proof. unfold n2b. rewrite N.mod_mod by lia. reflexivity. Qed.

Lemma le_enc_dec_high a w : le_enc (length a) (le_dec a + p256 (length a) * w) = a.
Proof.
  induction a as [|x a IH]; [reflexivity|].
  cbn [length le_enc le_dec]. rewrite p256_S. pose proof (b2n_lt x) as Hx.
  set (q := p256 (length a) * w) in *.
  f_equal.
  - rewrite n2b_mod. replace ((b2n x + 256 * le_dec a + 256 * p256 (length a) * w) mod 256) with (b2n x).
    + apply n2b_b2n.
    + fold q. replace (256 * p256 (length a) * w) with (256 * q) by (unfold q; lia). lia.
  - replace ((b2n x + 256 * le_dec a + 256 * p256 (length a) * w) / 256) with (le_dec a + q).
    + exact IH.
    + replace (256 * p256 (length a) * w) with (256 * q) by (unfold q; lia). lia.
Qed.

(** [num_enc] of a number given by sign, low bytes [body] and a non-zero top digit [t] *)
Lemma num_enc_of_parts body t (neg : bool) : 1 <= t < 256 ->
  num_enc ((if neg then -1 else 1) * Z.of_N (le_dec body + p256 (length body) * t)) =
    if 128 <=? t then body ++ [n2b t] ++ [if neg then x80 else x00]
    else body ++ [if neg then n2b (t + 128) else n2b t].
Proof.
  intros Ht. set (k := length body). set (m := le_dec body + p256 k * t).
  set (z := ((if neg then -1 else 1) * Z.of_N m)%Z).
  pose proof (p256_pos k) as Hp. pose proof (le_dec_ltP body) as Hb. fold k in Hb.
  assert (Hm : p256 k <= m < p256 (S k)) by (rewrite p256_S; unfold m; nia).
  assert (Hz : z <> 0%Z) by (unfold z; destruct neg; lia).
  assert (Habs : Z.abs_N z = m) by (unfold z; destruct neg; lia).
  destruct (num_enc_form z Hz) as (k' & Hb' & Ht' & Hdm & E). cbv zeta in *.
  rewrite Habs in *.
  assert (k' = k) by (eapply p256_bracket_unique; eauto). subst k'.
  assert (Hq : m / p256 k = t).
  { symmetry. apply (N.div_unique m (p256 k) t (le_dec body)); [exact Hb|unfold m; lia]. }
  rewrite Hq in *.
  assert (Hlow : le_enc k m = body) by (unfold m, k; apply le_enc_dec_high).
  assert (Hneg : (z <? 0)%Z = neg).
  { unfold z. destruct neg; [apply Z.ltb_lt|apply Z.ltb_ge]; lia. }
  rewrite E, Hlow, Hneg. reflexivity.
Qed.

Lemma is_minimal_snoc body last :
  is_minimal (body ++ [last]) =
    if b2n last mod 128 =? 0
    then match rev body with [] => false | prev :: _ => hi_bit prev end
    else true.
Proof. unfold is_minimal. rewrite rev_app_distr. reflexivity. Qed.

Lemma sign_byte_cases last : b2n last mod 128 = 0 ->
  (hi_bit last = true /\ last = x80) \/ (hi_bit last = false /\ last = x00).
Proof.
  intros H. pose proof (b2n_lt last) as Hl. destruct (hi_bit last) eqn:Hh.
  - left. split; [reflexivity|]. apply hi_bit_true in Hh. apply b2n_inj. rewrite b2n_x80. lia.
  - right. split; [reflexivity|]. apply hi_bit_false in Hh. apply b2n_inj. rewrite b2n_x00. lia.
Qed.

Theorem num_enc_dec_minimal : forall b, is_minimal b = true -> num_enc (num_dec b) = b.
Proof.
  intros b Hmin. destruct (snoc_cases b) as [->|(body & last & ->)]; [reflexivity|].
  rewrite is_minimal_snoc in Hmin. rewrite num_dec_snoc. unfold sgn_of, mag_of.
  pose proof (b2n_lt last) as Hl.
  destruct (N.eqb_spec (b2n last mod 128) 0) as [Hz|Hnz].
  - (* the last byte is only a sign byte; the byte below carries bit 7 *)
    destruct (rev body) as [|prev rest] eqn:Er; [discriminate|].
    assert (Eb : body = rev rest ++ [prev]) by (rewrite <- (rev_involutive body), Er; reflexivity).
    subst body. clear Er. apply hi_bit_true in Hmin. pose proof (b2n_lt prev) as Hp.
    rewrite Hz, N.mul_0_r, N.add_0_r, le_dec_app. cbn [le_dec]. rewrite N.mul_0_r, N.add_0_r.
    rewrite (num_enc_of_parts (rev rest) (b2n prev) (hi_bit last)) by lia.
    replace (128 <=? b2n prev) with true by (symmetry; apply N.leb_le; lia).
    rewrite n2b_b2n, <- app_assoc.
    destruct (sign_byte_cases last Hz) as [[-> ->]|[-> ->]]; reflexivity.
  - rewrite (num_enc_of_parts body (b2n last mod 128) (hi_bit last)) by lia.
    replace (128 <=? b2n last mod 128) with false by (symmetry; apply N.leb_gt; lia).
    destruct (hi_bit last) eqn:Hh.
    + apply hi_bit_true in Hh. replace (b2n last mod 128 + 128) with (b2n last) by lia.
      rewrite n2b_b2n. reflexivity.
    + apply hi_bit_false in Hh. rewrite N.mod_small by lia. rewrite n2b_b2n. reflexivity.
Qed.

(** Consequence: two minimal strings with the same value are the same string. *)
Corollary num_dec_inj_minimal a b :
  is_minimal a = true -> is_minimal b = true -> num_dec a = num_dec b -> a = b.
Proof. intros Ha Hb E. rewrite <- (num_enc_dec_minimal a Ha), <- (num_enc_dec_minimal b Hb), E. reflexivity. Qed.

(** * 4. OP_BIN2NUM ([minimally_encode]) = minimal encoding of the same number *)
Lemma b2n_zero_x00 b : b2n b = 0 -> b = x00.
Proof. intros H. apply b2n_inj. rewrite H. reflexivity. Qed.

Lemma strip_zeros_rev_spec l :
  exists k, l = repeat_byte k x00 ++ strip_zeros_rev l /\
    match strip_zeros_rev l with [] => True | top :: _ => b2n top <> 0 end.
Proof.
  induction l as [|b r (k & E & Hk)]; [exists 0%nat; split; [reflexivity|exact I]|].
  cbn [strip_zeros_rev]. destruct (N.eqb_spec (b2n b) 0) as [Hz|Hnz].
  - exists (S k). split; [|exact Hk]. cbn [repeat_byte app]. rewrite (b2n_zero_x00 b Hz). f_equal. exact E.
  - exists 0%nat. split; [reflexivity|exact Hnz].
Qed.

Lemma rev_repeat_byte k b : rev (repeat_byte k b) = repeat_byte k b.
Proof.
  induction k as [|k IH]; [reflexivity|]. cbn [repeat_byte rev]. rewrite IH. clear IH.
  induction k as [|k IH]; [reflexivity|]. cbn [repeat_byte app]. rewrite IH. reflexivity.
Qed.

Lemma lor_sign_byte t s : t < 128 -> s = 0 \/ s = 128 -> N.lor t s = t + s.
Proof.
  intros Ht [->| ->]; [rewrite N.lor_0_r; lia|].
  rewrite <- N.lxor_lor, <- N.add_nocarry_lxor; try reflexivity.
  all: apply N.bits_inj; intros i; rewrite N.land_spec, N.bits_0.
  all: destruct (N.lt_ge_cases i 7) as [Hi|Hi].
  all: try (replace (N.testbit 128 i) with false; [apply andb_false_r|];
            symmetry; change 128 with (2 ^ 7); apply N.pow2_bits_false; lia).
  all: replace (N.testbit t i) with false; [reflexivity|]; symmetry;
       destruct (N.eq_dec t 0) as [->|Hn]; [apply N.bits_0|];
       apply N.bits_above_log2; apply N.lt_le_trans with 7; [|exact Hi];
       apply N.log2_lt_pow2; [lia|exact Ht].
Qed.

Theorem minimally_encode_spec : forall b, minimally_encode b = num_enc (num_dec b).
Proof.
  intros b. destruct (snoc_cases b) as [->|(body & last & ->)]; [reflexivity|].
  unfold minimally_encode. rewrite rev_app_distr. cbn [rev app].
  pose proof (b2n_lt last) as Hl.
  destruct (N.eqb_spec (b2n last mod 128) 0) as [Hz|Hnz]; cbn [negb].
  2:{ symmetry. apply num_enc_dec_minimal. rewrite is_minimal_snoc.
      destruct (N.eqb_spec (b2n last mod 128) 0); [contradiction|reflexivity]. }
  destruct (rev body) as [|prev rest] eqn:Er.
  { (* a lone sign byte: (negative) zero *)
    assert (body = []) by (rewrite <- (rev_involutive body), Er; reflexivity). subst body.
    rewrite num_dec_snoc. unfold mag_of. cbn [le_dec length]. rewrite Hz, N.mul_0_r.
    cbn [N.add Z.of_N]. rewrite Z.mul_0_r. reflexivity. }
  destruct (hi_bit prev) eqn:Hp.
  { symmetry. apply num_enc_dec_minimal. rewrite is_minimal_snoc, Er.
    destruct (N.eqb_spec (b2n last mod 128) 0); [exact Hp|contradiction]. }
  (* redundant padding: strip the zero bytes below the sign byte *)
  destruct (strip_zeros_rev_spec (prev :: rest)) as (k & Ek & Htop).
  assert (Eb : body = rev (strip_zeros_rev (prev :: rest)) ++ repeat_byte k x00).
  { rewrite <- (rev_involutive body), Er, Ek at 1. rewrite rev_app_distr, rev_repeat_byte. reflexivity. }
  assert (Hval : num_dec (body ++ [last]) =
                 (sgn_of last * Z.of_N (le_dec (rev (strip_zeros_rev (prev :: rest)))))%Z).
  { rewrite num_dec_snoc. unfold mag_of. rewrite Hz, N.mul_0_r, N.add_0_r.
    rewrite Eb at 1. rewrite le_dec_app, le_dec_zeros, N.mul_0_r, N.add_0_r. reflexivity. }
  rewrite Hval. clear Hval Eb Ek.
  destruct (strip_zeros_rev (prev :: rest)) as [|top lower].
  { cbn [rev le_dec Z.of_N]. rewrite Z.mul_0_r. reflexivity. }
  cbn [rev]. pose proof (b2n_lt top) as Ht.
  destruct (hi_bit top) eqn:Hh.
  - (* keep the sign byte: top already uses bit 7 *)
    rewrite <- (num_enc_dec_minimal ((rev lower ++ [top]) ++ [last])).
    + rewrite num_dec_snoc. unfold mag_of. rewrite Hz, N.mul_0_r, N.add_0_r. reflexivity.
    + rewrite is_minimal_snoc, rev_app_distr. cbn [rev app].
      destruct (N.eqb_spec (b2n last mod 128) 0); [exact Hh|contradiction].
  - (* fold the sign into the top byte *)
    apply hi_bit_false in Hh.
    assert (Hs : b2n last = 0 \/ b2n last = 128) by lia.
    rewrite (lor_sign_byte _ _ Hh Hs).
    set (nb := n2b (b2n top + b2n last)).
    assert (Hnb : b2n nb = b2n top + b2n last) by (unfold nb; apply b2n_n2b_small; lia).
    rewrite <- (num_enc_dec_minimal (rev lower ++ [nb])).
    + rewrite num_dec_snoc. unfold mag_of, sgn_of, hi_bit. rewrite Hnb, le_dec_app. cbn [le_dec].
      replace ((b2n top + b2n last) mod 128) with (b2n top) by lia.
      replace (128 <=? b2n top + b2n last) with (128 <=? b2n last).
      * rewrite N.mul_0_r, N.add_0_r. reflexivity.
      * destruct Hs as [-> | ->]; [symmetry; apply N.leb_gt; lia|].
        change (128 <=? 128) with true. symmetry. apply N.leb_le. lia.
    + rewrite is_minimal_snoc, Hnb.
      destruct (N.eqb_spec ((b2n top + b2n last) mod 128) 0) as [Hbad|]; [exfalso; lia|reflexivity].
Qed.

(** * 5. length of the encoding *)
Lemma num_enc_length_bracket z : z <> 0%Z ->
  exists n, length (num_enc z) = S n /\ p256 n <= 2 * Z.abs_N z < p256 (S n).
Proof.
  intros Hz. destruct (num_enc_form z Hz) as (k & Hb & Ht & Hdm & E). cbv zeta in *.
  set (m := Z.abs_N z) in *. set (t := m / p256 k) in *.
  pose proof (p256_pos k) as Hp.
  assert (Hmod : m mod p256 k < p256 k) by (apply N.mod_lt; lia).
  rewrite E. destruct (128 <=? t) eqn:Hc.
  - apply N.leb_le in Hc. exists (S k). rewrite !app_length, le_enc_length. cbn [length].
    split; [lia|]. rewrite !p256_S in *. nia.
  - apply N.leb_gt in Hc. exists k. rewrite !app_length, le_enc_length. cbn [length].
    split; [lia|]. rewrite !p256_S in *. nia.
Qed.

Lemma two_pow_8k_minus_1 k : (1 <= k)%nat -> (2 * 2 ^ (8 * Z.of_nat k - 1) = Z.of_N (p256 k))%Z.
Proof.
  intros Hk. rewrite p256_pow2, N2Z.inj_pow, <- Z.pow_succ_r by lia. f_equal. lia.
Qed.

(** the form asked for: a number below 2^(8k-1) in absolute value takes at most k bytes
    (k = 4: operands; k = 5: results). For k = 0 the premise is empty ([2^(-1) = 0] in [Z]). *)
Theorem num_enc_length_bound : forall z (k : nat),
  (Z.abs z < 2 ^ (8 * Z.of_nat k - 1))%Z -> (length (num_enc z) <= k)%nat.
Proof.
  intros z k H. destruct k as [|k].
  { change (8 * Z.of_nat 0 - 1)%Z with (-1)%Z in H. rewrite Z.pow_neg_r in H by lia. lia. }
  destruct (Z.eq_dec z 0) as [->|Hz]; [cbn; lia|].
  destruct (num_enc_length_bracket z Hz) as (n & En & Hlo & Hhi).
  pose proof (two_pow_8k_minus_1 (S k) ltac:(lia)) as E2.
  rewrite En. destruct (Nat.le_gt_cases (S n) (S k)) as [Hle|Hgt]; [exact Hle|exfalso].
  pose proof (p256_mono (S k) n ltac:(lia)). lia.
Qed.

Theorem num_enc_length_bound_conv : forall z (k : nat), (1 <= k)%nat ->
  (length (num_enc z) <= k)%nat -> (Z.abs z < 2 ^ (8 * Z.of_nat k - 1))%Z.
Proof.
  intros z k Hk H. pose proof (two_pow_8k_minus_1 k Hk) as E2. pose proof (p256_pos k) as Hp.
  destruct (Z.eq_dec z 0) as [->|Hz]; [cbn [Z.abs]; lia|].
  destruct (num_enc_length_bracket z Hz) as (n & En & Hlo & Hhi).
  rewrite En in H. pose proof (p256_mono (S n) k H). lia.
Qed.

Corollary num_enc_length_iff z (k : nat) : (1 <= k)%nat ->
  ((length (num_enc z) <= k)%nat <-> (Z.abs z < 2 ^ (8 * Z.of_nat k - 1))%Z).
Proof. intros Hk. split; [apply num_enc_length_bound_conv; exact Hk|apply num_enc_length_bound]. Qed.

Corollary num_enc_length_0 z : length (num_enc z) = 0%nat <-> z = 0%Z.
Proof.
  split; [|intros ->; reflexivity]. intros H. destruct (Z.eq_dec z 0) as [|Hz]; [assumption|].
  destruct (num_enc_length_bracket z Hz) as (n & En & _). lia.
Qed.

(** * 6. truthiness = "the number is not zero" (negative zero is false) *)
Lemma num_dec_eqb_0_snoc body last : (num_dec (body ++ [last]) =? 0)%Z = (mag_of body last =? 0).
Proof.
  rewrite num_dec_snoc. unfold sgn_of.
  destruct (N.eqb_spec (mag_of body last) 0) as [->|Hn].
  - rewrite Z.mul_0_r. reflexivity.
  - apply Z.eqb_neq. destruct (hi_bit last); lia.
Qed.

Theorem as_bool_spec : forall b, as_bool b = negb (num_dec b =? 0)%Z.
Proof.
  induction b as [|x r IH]; [reflexivity|].
  pose proof (b2n_lt x) as Hx.
  destruct r as [|y r'].
  - (* single byte *)
    change [x] with ([] ++ [x]). rewrite num_dec_eqb_0_snoc. unfold mag_of.
    cbn [as_bool app le_dec length]. rewrite p256_0.
    destruct (N.eqb_spec (b2n x) 0) as [E0|N0].
    + rewrite E0. reflexivity.
    + destruct (N.eqb_spec (b2n x) 128) as [E1|N1].
      * rewrite E1. reflexivity.
      * cbn [negb]. symmetry. apply negb_true_iff, N.eqb_neq. lia.
  - destruct (snoc_cases (y :: r')) as [Hnil|(body & last & E)]; [discriminate|].
    change (as_bool (x :: y :: r')) with (if b2n x =? 0 then as_bool (y :: r') else true).
    rewrite IH, E. change (x :: body ++ [last]) with ((x :: body) ++ [last]).
    rewrite !num_dec_eqb_0_snoc. unfold mag_of. cbn [le_dec length]. rewrite p256_S.
    pose proof (p256_pos (length body)) as Hp.
    set (q := p256 (length body) * (b2n last mod 128)).
    replace (256 * p256 (length body) * (b2n last mod 128)) with (256 * q) by (unfold q; lia).
    destruct (N.eqb_spec (b2n x) 0) as [E0|N0].
    + f_equal. rewrite E0. destruct (N.eqb_spec (le_dec body + q) 0) as [Ea|Na].
      * symmetry. apply N.eqb_eq. lia.
      * symmetry. apply N.eqb_neq. lia.
    + symmetry. apply negb_true_iff, N.eqb_neq. lia.
Qed.

Corollary as_bool_num_enc z : as_bool (num_enc z) = negb (z =? 0)%Z.
Proof. rewrite as_bool_spec, num_dec_enc. reflexivity. Qed.

Corollary as_bool_from_bool c : as_bool (from_bool c) = c.
Proof. destruct c; reflexivity. Qed.

(** * 7. integer conversions *)
Local Open Scope Z_scope.

Theorem to_int64_clamps : forall z,
  to_int64 z = (if z <? min_i64 then min_i64 else if max_i64 <? z then max_i64 else z) /\
  min_i64 <= to_int64 z <= max_i64.
Proof.
  intros z. unfold to_int64, clamp, min_i64, max_i64. split; [reflexivity|].
  destruct (Z.ltb_spec z (-9223372036854775808)); [lia|].
  destruct (Z.ltb_spec 9223372036854775807 z); lia.
Qed.

Theorem to_int64_id_in_range : forall z, - 2 ^ 63 <= z < 2 ^ 63 -> to_int64 z = z.
Proof.
  intros z. change (2 ^ 63) with 9223372036854775808. intros H.
  unfold to_int64, clamp, min_i64, max_i64.
  destruct (Z.ltb_spec z (-9223372036854775808)); [lia|].
  destruct (Z.ltb_spec 9223372036854775807 z); lia.
Qed.

Theorem to_int32_clamps : forall z,
  to_int32 z = (if z <? - 2 ^ 31 then - 2 ^ 31 else if 2 ^ 31 - 1 <? z then 2 ^ 31 - 1 else z) /\
  - 2 ^ 31 <= to_int32 z <= 2 ^ 31 - 1.
Proof.
  intros z. change (2 ^ 31) with 2147483648.
  unfold to_int32, to_int64, clamp, min_i32, max_i32, min_i64, max_i64.
  destruct (Z.ltb_spec z (-9223372036854775808));
  [|destruct (Z.ltb_spec 9223372036854775807 z)];
  repeat match goal with
         | |- context [if ?a <? ?b then _ else _] => destruct (Z.ltb_spec a b)
         end; split; lia.
Qed.

Corollary to_int32_id_in_range : forall z, - 2 ^ 31 <= z < 2 ^ 31 -> to_int32 z = z.
Proof.
  intros z H. destruct (to_int32_clamps z) as [E _]. rewrite E.
  destruct (Z.ltb_spec z (- 2 ^ 31)); [lia|]. destruct (Z.ltb_spec (2 ^ 31 - 1) z); lia.
Qed.

Theorem to_int_id_in_range : forall z, - 2 ^ 63 <= z < 2 ^ 63 -> to_int z = z.
Proof.
  intros z. unfold to_int. change (2 ^ 63) with 9223372036854775808.
  change (2 ^ 64) with 18446744073709551616. intros H.
  destruct (Z.ltb_spec z 0) as [Hn|Hp].
  - rewrite (Z.mod_small (Z.abs z)) by lia.
    destruct (Z.ltb_spec ((- Z.abs z) mod 18446744073709551616) 9223372036854775808); lia.
  - rewrite (Z.mod_small (Z.abs z)) by lia. rewrite (Z.mod_small (Z.abs z)) by lia.
    destruct (Z.ltb_spec (Z.abs z) 9223372036854775808); lia.
Qed.

(** [to_int] in general: the wrapped two's-complement reading of the low 64 bits *)
Theorem to_int_wraps : forall z,
  - 2 ^ 63 <= to_int z < 2 ^ 63 /\ (to_int z - z) mod 2 ^ 64 = 0.
Proof.
  intros z. unfold to_int. change (2 ^ 63) with 9223372036854775808.
  change (2 ^ 64) with 18446744073709551616.
  destruct (Z.ltb_spec z 0) as [Hn|Hp];
  match goal with |- context [if ?c then _ else _] => destruct c eqn:Hc end;
  try apply Z.ltb_lt in Hc; try apply Z.ltb_ge in Hc; lia.
Qed.

(** * 8. OP_NUM2BIN keeps the number and produces exactly [n] bytes *)
Local Open Scope N_scope.

Theorem num2bin_pad_spec_gen : forall b n, (length b < n)%nat ->
  num_dec (num2bin_pad b n) = num_dec b /\ length (num2bin_pad b n) = n.
Proof.
  intros b n Hn. destruct (snoc_cases b) as [->|(body & last & ->)].
  - cbn [num2bin_pad rev length] in *. split.
    + rewrite num_dec_snoc. unfold mag_of. rewrite le_dec_zeros.
      change (b2n x00 mod 128) with 0. rewrite N.mul_0_r. cbn [N.add Z.of_N]. rewrite Z.mul_0_r. reflexivity.
    + rewrite app_length, repeat_byte_length. cbn [length]. lia.
  - unfold num2bin_pad. rewrite rev_app_distr. cbn [rev app]. rewrite rev_involutive.
    rewrite app_length in *. cbn [length] in *.
    set (sign := if hi_bit last then x80 else x00).
    set (pad := repeat_byte (n - (length body + 1) - 1) x00).
    split.
    + replace (body ++ clear_hi last :: pad ++ [sign]) with ((body ++ clear_hi last :: pad) ++ [sign])
        by (rewrite <- app_assoc; reflexivity).
      rewrite !num_dec_snoc. unfold mag_of.
      replace (sgn_of sign) with (sgn_of last) by (unfold sign, sgn_of; destruct (hi_bit last); reflexivity).
      replace (b2n sign mod 128) with 0 by (unfold sign; destruct (hi_bit last); reflexivity).
      rewrite N.mul_0_r, N.add_0_r, le_dec_app. cbn [le_dec]. unfold pad. rewrite le_dec_zeros, b2n_clear_hi.
      rewrite N.mul_0_r, N.add_0_r. reflexivity.
    + rewrite app_length. cbn [length]. rewrite app_length. unfold pad. rewrite repeat_byte_length.
      cbn [length]. lia.
Qed.

Theorem num2bin_pad_spec : forall b n, is_minimal b = true -> (length b < n)%nat ->
  num_dec (num2bin_pad b n) = num_dec b /\ length (num2bin_pad b n) = n.
Proof. intros b n _. apply num2bin_pad_spec_gen. Qed.

(** OP_NUM2BIN then OP_BIN2NUM gives back the minimal encoding *)
Corollary bin2num_num2bin b n : is_minimal b = true -> (length b < n)%nat ->
  minimally_encode (num2bin_pad b n) = b.
Proof.
  intros Hm Hn. rewrite minimally_encode_spec.
  destruct (num2bin_pad_spec_gen b n Hn) as [-> _]. apply num_enc_dec_minimal. exact Hm.
Qed.
