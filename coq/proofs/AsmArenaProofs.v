(** C14 — rendering the parts of a script leaves the memory they live in alone (model/AsmArena.v).

    For EVERY buffer, every list of slice values into it (windows of any offset, length and capacity — also windows
    that overlap, lie outside the buffer, or have spare capacity over a sibling script) and both renderings (data /
    non-data script):
    - [asm_parts_a_read_only]   the buffer afterwards is the buffer before;
    - [asm_parts_a_value]       the text is the one model/Asm.v gives for the bytes the parts denote;
    - [asm_parts_a_repeatable]  rendering again gives the same text and the same buffer.
    And the statement discriminates: the renderer that pads in place ([asm_parts_padding_in_place]) gives the same
    first text on the script  OP_RETURN <010203> <040506>  while the script's byte behind the first push is
    overwritten, and a second rendering gives another text. *)
From Coq Require Import List NArith Bool String Arith Lia.
From Coq Require Import Strings.Byte.
From GoBT Require Import lib.Bytes lib.Hex lib.Checked model.Push model.Asm model.AsmArena.
Import ListNotations.
Local Open Scope N_scope.
Local Open Scope bool_scope.

(** appending to a buffer of one's own never touches the caller's *)
Lemma go_append_all_loc h b xs : go_append_all h (Loc b) xs = (h, Loc (b ++ xs)).
Proof.
  revert b. induction xs as [|x r IH]; intros b; cbn [go_append_all go_append].
  - now rewrite app_nil_r.
  - rewrite IH. now rewrite <- app_assoc.
Qed.

Lemma asm_part_a_spec data h p : asm_part_a data h p = (h, asm_part data (rd h p)).
Proof.
  unfold asm_part_a, asm_part.
  destruct (lenN (rd h p) =? 1); [reflexivity|].
  destruct (data && (lenN (rd h p) <=? 4)); [|reflexivity].
  rewrite go_append_all_loc. cbn [app]. rewrite go_append_all_loc. reflexivity.
Qed.

Lemma asm_parts_a_spec data h parts : asm_parts_a data h parts = (h, asm_parts data (map (rd h) parts)).
Proof.
  induction parts as [|p r IH]; cbn [asm_parts_a asm_parts map]; [reflexivity|].
  rewrite asm_part_a_spec.
  destruct (asm_part data (rd h p)) as [t| | |]; cbn [obind]; try reflexivity.
  now rewrite IH.
Qed.

Theorem asm_parts_a_read_only : forall data h parts, fst (asm_parts_a data h parts) = h.
Proof. intros. now rewrite asm_parts_a_spec. Qed.

Theorem asm_parts_a_value : forall data h parts,
  snd (asm_parts_a data h parts) = asm_parts data (map (rd h) parts).
Proof. intros. now rewrite asm_parts_a_spec. Qed.

Theorem asm_parts_a_repeatable : forall data h parts,
  asm_parts_a data (fst (asm_parts_a data h parts)) parts = asm_parts_a data h parts.
Proof. intros. now rewrite asm_parts_a_read_only. Qed.

(** ** the statement is not vacuous: it separates the renderer from one that pads the part it was handed *)

(** OP_RETURN <010203> <040506>, the script being the whole buffer; the parts as DecodeParts returns them: windows
    whose capacity runs to the end of the script *)
Definition demo_script : bytes := [x6a; x03; x01; x02; x03; x03; x04; x05; x06].
Definition demo_parts : list gslice := [Win 0 1 9; Win 2 3 7; Win 6 3 3].

Example demo_parts_denote : map (rd demo_script) demo_parts = dres_parts (decode_parts demo_script).
Proof. vm_compute. reflexivity. Qed.

Example renderer_on_demo :
  asm_parts_a true demo_script demo_parts = (demo_script, Ok " OP_RETURN 197121 394500"%string).
Proof. vm_compute. reflexivity. Qed.

(** the first answer is the right one ... *)
Example padding_in_place_first_answer :
  snd (asm_parts_padding_in_place true demo_script demo_parts) = Ok " OP_RETURN 197121 394500"%string.
Proof. vm_compute. reflexivity. Qed.
(** ... the script is no longer the script (the length byte of the second push is now 00) ... *)
Example padding_in_place_writes :
  fst (asm_parts_padding_in_place true demo_script demo_parts) = [x6a; x03; x01; x02; x03; x00; x04; x05; x06].
Proof. vm_compute. reflexivity. Qed.
Example padding_in_place_not_read_only :
  fst (asm_parts_padding_in_place true demo_script demo_parts) <> demo_script.
Proof. vm_compute. discriminate. Qed.
(** ... and what a second look at the script sees: other parts, another text *)
Example padding_in_place_second_look :
  let h1 := fst (asm_parts_padding_in_place true demo_script demo_parts) in
  to_asm h1 = Ok "OP_RETURN 197121 0 [error]"%string /\ to_asm demo_script = Ok "OP_RETURN 197121 394500"%string.
Proof. vm_compute. split; reflexivity. Qed.
(** a three-byte part at the END of a script with spare capacity behind it: the write lands in what follows the
    script in the caller's buffer (here the first byte of a sibling script) *)
Example padding_in_place_writes_sibling :
  fst (asm_parts_padding_in_place true [x6a; x03; x01; x02; x03; x76; xa9] [Win 0 1 7; Win 2 3 5])
  = [x6a; x03; x01; x02; x03; x00; xa9].
Proof. vm_compute. reflexivity. Qed.
