(** The positions the OP_CHECKMULTISIG loop examines (C06): the model loop [ms_loop] (model/CheckSig.v) walks
    exactly the pairs of spec/MultisigTraceSpec.v, in that order, and its result is decided by the first of
    them that fails an enabled encoding check.

    Part A: facts about the specification itself (closed form [reached], bounds, extensionality, the verdict).
    Part B: the model: [ms_struct] (= [ms_loop] by the loop invariant of proofs/MultisigProofs.v) is
            [trace_outcome] over [examined]; no hypotheses.
    Part C: consequences: the full multisig side of the flag table (hard error iff an examined pair has an
            element failing an enabled check), elements at positions never reached are irrelevant. *)
From Coq Require Import List NArith ZArith Lia Bool Arith ZifyN ZifyNat ZifyBool.
From Coq Require Import Strings.Byte.
From GoBT Require Import lib.Bytes model.Tx model.SigHash model.ScriptNum model.Interp model.CheckSig
  spec.MultisigSpec spec.MultisigTraceSpec proofs.CheckSigProofs proofs.MultisigProofs proofs.SigOpProofs.
Import ListNotations.

(** * Part A: the specification *)
Section SpecFacts.
Variable ok : nat -> nat -> bool.

Lemma hits_step i : hits ok i <= hits ok (S i) <= S (hits ok i).
Proof. cbn [hits]. destruct (ok (hits ok i) i); lia. Qed.

Lemma hits_mono i d : hits ok i <= hits ok (i + d) <= hits ok i + d.
Proof.
  induction d as [|d IH]; [rewrite Nat.add_0_r; lia|].
  replace (i + S d) with (S (i + d)) by lia. pose proof (hits_step (i + d)). lia.
Qed.

(** the trace from a state the walk can be in ([j = hits i]) is its own closed form *)
Lemma examined_from_closed : forall n i m,
  examined_from ok (hits ok i) i m n =
  map (fun k => (hits ok k, k)) (seq i (length (examined_from ok (hits ok i) i m n))).
Proof.
  induction n as [|n IH]; intros i m; [reflexivity|].
  cbn [examined_from]. destruct m as [|m]; [reflexivity|].
  destruct (Nat.ltb (S n) (S m)); [reflexivity|].
  cbn [length seq map]. f_equal.
  destruct (ok (hits ok i) i) eqn:Eok.
  - assert (E : S (hits ok i) = hits ok (S i)) by (cbn [hits]; rewrite Eok; reflexivity).
    rewrite E. apply IH.
  - assert (E : hits ok i = hits ok (S i)) by (cbn [hits]; rewrite Eok; reflexivity).
    rewrite E. apply IH.
Qed.

(** how long the trace is: pair number [i0 + d] exists iff the closed condition holds there.
    [M], [N]: the total numbers of signatures and keys *)
Lemma examined_from_length M N : forall n i0 m,
  m = M - hits ok i0 -> n = N - i0 -> hits ok i0 <= M -> i0 <= N ->
  forall d, d < length (examined_from ok (hits ok i0) i0 m n) <->
            (hits ok (i0 + d) < M /\ M - hits ok (i0 + d) <= N - (i0 + d)).
Proof.
  induction n as [|n IH]; intros i0 m Hm Hn HM HN d.
  - cbn [examined_from length]. pose proof (hits_mono i0 d). lia.
  - cbn [examined_from]. destruct m as [|m].
    + cbn [length]. pose proof (hits_mono i0 d). lia.
    + destruct (Nat.ltb_spec (S n) (S m)) as [Hlt|Hge].
      * cbn [length]. pose proof (hits_mono i0 d). lia.
      * cbn [length]. destruct d as [|d].
        -- rewrite Nat.add_0_r. lia.
        -- replace (i0 + S d) with (S i0 + d) by lia.
           pose proof (hits_step i0) as Hs.
           destruct (ok (hits ok i0) i0) eqn:Eok.
           ++ assert (E : S (hits ok i0) = hits ok (S i0)) by (cbn [hits]; rewrite Eok; reflexivity).
              rewrite E. rewrite <- (IH (S i0) m); [lia|lia|lia|lia|lia].
           ++ assert (E : hits ok i0 = hits ok (S i0)) by (cbn [hits]; rewrite Eok; reflexivity).
              rewrite E at 1. rewrite <- (IH (S i0) (S m)); [lia|lia|lia|lia|lia].
Qed.

(** the closed form: the examined pairs are (hits 0, 0), (hits 1, 1), ... as long as [reached] holds *)
Theorem examined_closed nsigs nkeys :
  examined ok nsigs nkeys = map (fun k => (hits ok k, k)) (seq 0 (length (examined ok nsigs nkeys))).
Proof. unfold examined. apply (examined_from_closed nkeys 0 nsigs). Qed.

Theorem examined_length nsigs nkeys i :
  i < length (examined ok nsigs nkeys) <-> (hits ok i < nsigs /\ nsigs - hits ok i <= nkeys - i).
Proof.
  unfold examined. change 0 with (hits ok 0) at 1.
  rewrite (examined_from_length nsigs nkeys nkeys 0 nsigs); cbn [hits]; try lia. reflexivity.
Qed.

Theorem examined_iff_reached nsigs nkeys j i :
  In (j, i) (examined ok nsigs nkeys) <-> reached ok nsigs nkeys j i.
Proof.
  unfold reached. rewrite examined_closed, in_map_iff. split.
  - intros (k & E & Hk). inversion E; subst. apply List.in_seq in Hk.
    split; [reflexivity|]. apply examined_length. lia.
  - intros (-> & H1 & H2). exists i. split; [reflexivity|]. apply List.in_seq.
    pose proof (proj2 (examined_length nsigs nkeys i) (conj H1 H2)). lia.
Qed.

(** in order: the k-th examined pair is the one with key index k *)
Theorem examined_nth nsigs nkeys k j i :
  nth_error (examined ok nsigs nkeys) k = Some (j, i) -> i = k /\ j = hits ok k.
Proof.
  intros H. assert (Hk : k < length (examined ok nsigs nkeys)) by (apply nth_error_Some; congruence).
  rewrite examined_closed in H.
  rewrite (map_nth_error (fun k => (hits ok k, k)) k (seq 0 (length (examined ok nsigs nkeys))) (d := k)) in H.
  - inversion H; subst. split; reflexivity.
  - rewrite nth_error_nth' with (d := 0) by (rewrite seq_length; exact Hk). rewrite seq_nth by exact Hk. reflexivity.
Qed.

(** bounds: only existing positions *)
Lemma examined_from_bounds : forall n j i m j' i',
  In (j', i') (examined_from ok j i m n) -> j <= j' < j + m /\ i <= i' < i + n.
Proof.
  induction n as [|n IH]; intros j i m j' i' H; [destruct H|].
  cbn [examined_from] in H. destruct m as [|m]; [destruct H|].
  destruct (Nat.ltb (S n) (S m)); [destruct H|].
  destruct H as [E|H]; [inversion E; subst; lia|].
  destruct (ok j i); apply IH in H; lia.
Qed.

Lemma examined_bounds nsigs nkeys j i : In (j, i) (examined ok nsigs nkeys) -> j < nsigs /\ i < nkeys.
Proof. intros H. apply examined_from_bounds in H. lia. Qed.

(** an empty signature list, or more signatures than keys: nothing is examined *)
Lemma examined_no_sigs nkeys : examined ok 0 nkeys = [].
Proof. unfold examined. destruct nkeys; reflexivity. Qed.
Lemma examined_too_many_sigs nsigs nkeys : nkeys < nsigs -> examined ok nsigs nkeys = [].
Proof.
  intros H. unfold examined. destruct nkeys as [|n]; [reflexivity|]. cbn [examined_from].
  destruct nsigs as [|m]; [reflexivity|]. destruct (Nat.ltb_spec (S n) (S m)); [reflexivity|lia].
Qed.
End SpecFacts.

(** the trace is determined by the values of [ok] on the trace itself *)
Lemma examined_from_ext ok ok' : forall n j i m,
  (forall p, In p (examined_from ok j i m n) -> ok' (fst p) (snd p) = ok (fst p) (snd p)) ->
  examined_from ok' j i m n = examined_from ok j i m n.
Proof.
  induction n as [|n IH]; intros j i m H; [reflexivity|].
  cbn [examined_from] in *. destruct m as [|m]; [reflexivity|].
  destruct (Nat.ltb (S n) (S m)); [reflexivity|].
  pose proof (H (j, i) (or_introl eq_refl)) as E. cbn [fst snd] in E. rewrite E. f_equal.
  destruct (ok j i); apply IH; intros p Hp; apply H; right; exact Hp.
Qed.

(** first fit ([greedy], proofs/MultisigProofs.v) is the verdict of the trace *)
Section GreedyTrace.
Context {S K : Type}.
Variable okb : S -> K -> bool.
Variable sigat : nat -> S.
Variable keyat : nat -> K.
Let okf (j i : nat) : bool := okb (sigat j) (keyat i).

Lemma greedy_is_trace_verdict : forall n i m j,
  greedy okb (map keyat (seq i n)) (map sigat (seq j m)) =
  Nat.eqb (successes okf (examined_from okf j i m n)) m.
Proof.
  induction n as [|n IH]; intros i m j.
  - destruct m; reflexivity.
  - destruct m as [|m]; [reflexivity|].
    cbn [seq map greedy examined_from]. rewrite <- !seq_shift.
    change (length (keyat i :: map keyat (map Datatypes.S (seq i n)))) with (Datatypes.S (length (map keyat (map Datatypes.S (seq i n))))).
    change (length (sigat j :: map sigat (map Datatypes.S (seq j m)))) with (Datatypes.S (length (map sigat (map Datatypes.S (seq j m))))).
    rewrite !map_length, !seq_length. rewrite !seq_shift.
    destruct (Nat.ltb (Datatypes.S n) (Datatypes.S m)); [reflexivity|].
    unfold successes. cbn [filter fst snd]. fold (okf j i).
    destruct (okf j i).
    + cbn [length Nat.eqb]. rewrite IH. reflexivity.
    + change (sigat j :: map sigat (seq (Datatypes.S j) m)) with (map sigat (seq j (Datatypes.S m))). rewrite IH. reflexivity.
Qed.
End GreedyTrace.

Lemma nth_error_firstn_below {A} (l : list A) : forall n i, i < n -> nth_error (firstn n l) i = nth_error l i.
Proof.
  induction l as [|x l IH]; intros [|n] [|i] H; cbn [firstn nth_error]; try reflexivity; try lia.
  apply IH. lia.
Qed.

Lemma nth_error_skipn_plus {A} (l : list A) : forall n i, nth_error (skipn n l) i = nth_error l (n + i).
Proof.
  induction l as [|x l IH]; intros [|n] i; cbn [skipn nth_error Nat.add]; try reflexivity.
  - destruct i; reflexivity.
  - apply IH.
Qed.

Lemma map_nth_seq {A} (d : A) (l : list A) : map (fun i => nth i l d) (seq 0 (length l)) = l.
Proof.
  induction l as [|x l IH]; [reflexivity|].
  cbn [length seq map nth]. f_equal. rewrite <- seq_shift, map_map. exact IH.
Qed.

(** * Part B: the model loop walks the specified trace *)
Section Model.
Variable orc : sig_oracle.
Variable t : tx.
Variable in_idx : N.
Variable c : ctx.
Variable script : list pop.

(** the encoding checks on a signature (hash type included; the empty signature has nothing to check) *)
Definition sig_checks (raw : bytes) : bool :=
  match split_last raw with
  | None => true
  | Some (sg, hb) => check_hash_type c (b2n hb) && match check_sig_enc c sg with EncOk => true | _ => false end
  end.

(** the same as a proposition, in the words of the partial flag-table theorem *)
Definition sig_fails (raw : bytes) : Prop :=
  exists sg hb, split_last raw = Some (sg, hb) /\ (check_hash_type c (b2n hb) = false \/ check_sig_enc c sg = EncErr).

Lemma sig_checks_false raw : sig_checks raw = false <-> sig_fails raw.
Proof.
  unfold sig_checks, sig_fails. destruct (split_last raw) as [[sg hb]|].
  - pose proof (check_sig_enc_no_panic c sg) as Hnp. split.
    + intros H. exists sg, hb. split; [reflexivity|].
      destruct (check_hash_type c (b2n hb)); [|left; reflexivity]. right.
      destruct (check_sig_enc c sg); [discriminate|reflexivity|congruence].
    + intros (sg' & hb' & E & [H|H]); inversion E; subst; rewrite H; [reflexivity|apply andb_false_r].
  - split; [discriminate|]. intros (sg & hb & E & _). discriminate.
Qed.

(** when the encodings of a pair are fine, how its verification can still end the whole operation: both
    elements parse (go-bk) and then the script code does not unparse / the digest is not computable
    (PushBool(false); return nil), the hash panics, or the oracle table has no answer *)
Definition stop_of (raw pk : bytes) : option loop_res :=
  match split_last raw with
  | None => None
  | Some (sg, hb) =>
      if orc_parse_sig orc (uses_der_parser c) sg && orc_parse_pub orc pk then
        match unparse (sig_code_ops c script (b2n hb)) with
        | None => Some LPushFalse
        | Some up =>
            match sighash_for t in_idx up (b2n hb) with
            | SOk h => match orc_verify orc pk h sg (uses_der_parser c) with None => Some LMiss | Some _ => None end
            | SigHash.SErr _ => Some LPushFalse
            | SigHash.SPanic | SFatal | SFuel => Some LPanic
            end
        end
      else None
  end.

Section Indexed.
Variables sigat keyat : nat -> bytes.      (* signature j, key i, in loop order *)

Definition okf (j i : nat) : bool := pair_ok orc t in_idx c script (sigat j) (keyat i).
Definition badf (j i : nat) : bool := negb (sig_checks (sigat j)) || negb (check_pubkey_enc c (keyat i)).
Definition stopf (j i : nat) : option loop_res := stop_of (sigat j) (keyat i).
Definition ms_outcome : bool -> list (nat * nat) -> loop_res := trace_outcome badf stopf LErr LDone.

(** the memo of the current signature: once parsed, its encoding checks have passed *)
Definition memo_inv (parsed : option bool) (raw : bytes) : Prop :=
  match parsed with
  | None => True
  | Some b => sig_checks raw = true /\
              forall sg hb, split_last raw = Some (sg, hb) -> b = orc_parse_sig orc (uses_der_parser c) sg
  end.

Lemma ms_struct_outcome : forall n i m j parsed,
  (0 < m -> memo_inv parsed (sigat j)) ->
  ms_struct orc t in_idx c script (map keyat (seq i n)) parsed (map sigat (seq j m)) =
  ms_outcome (greedy (pair_ok orc t in_idx c script) (map keyat (seq i n)) (map sigat (seq j m)))
          (examined_from okf j i m n).
Proof.
  induction n as [|n IH]; intros i m j parsed Hmemo.
  - destruct m; reflexivity.
  - destruct m as [|m]; [reflexivity|].
    specialize (Hmemo (Nat.lt_0_succ m)).
    cbn [seq map]. set (krest := map keyat (seq (S i) n)). set (srest := map sigat (seq (S j) m)).
    assert (Lk : length krest = n) by (unfold krest; rewrite map_length, seq_length; reflexivity).
    assert (Ls : length srest = m) by (unfold srest; rewrite map_length, seq_length; reflexivity).
    cbn [ms_struct greedy examined_from]. cbn [length]. rewrite Lk, Ls.
    destruct (Nat.ltb (S n) (S m)); [reflexivity|].
    unfold ms_outcome. cbn [trace_outcome]. fold ms_outcome.
    assert (Hcont : forall p', memo_inv p' (sigat j) ->
              ms_struct orc t in_idx c script krest p' (sigat j :: srest) =
              ms_outcome (greedy (pair_ok orc t in_idx c script) krest (sigat j :: srest)) (examined_from okf j (S i) (S m) n)).
    { intros p' Hp'. apply (IH (S i) (S m) j p'). intros _. exact Hp'. }
    assert (Hadv : ms_struct orc t in_idx c script krest None srest =
              ms_outcome (greedy (pair_ok orc t in_idx c script) krest srest) (examined_from okf (S j) (S i) m n)).
    { apply (IH (S i) m (S j) None). intros _. exact I. }
    change (okf j i) with (pair_ok orc t in_idx c script (sigat j) (keyat i)).
    unfold badf, stopf, stop_of.
    unfold memo_inv, sig_checks in Hmemo. unfold sig_checks. unfold memo_inv in Hcont. unfold sig_checks in Hcont.
    set (raw := sigat j) in *. set (pk := keyat i) in *.
    set (P := pair_ok orc t in_idx c script raw pk).
    destruct (split_last raw) as [[sg hb]|] eqn:Esl.
    2:{ assert (HP : P = false) by (unfold P, pair_ok; rewrite Esl; reflexivity). rewrite HP.
        cbn [negb orb]. destruct (check_pubkey_enc c pk); cbn [negb]; [|reflexivity].
        apply Hcont. destruct parsed; [|exact I]. split; [reflexivity|]. intros; discriminate. }
    assert (HP : P = orc_parse_sig orc (uses_der_parser c) sg && orc_parse_pub orc pk &&
                     match unparse (sig_code_ops c script (b2n hb)) with
                     | Some up =>
                         match sighash_for t in_idx up (b2n hb) with
                         | SOk h => match orc_verify orc pk h sg (uses_der_parser c) with Some true => true | _ => false end
                         | _ => false
                         end
                     | None => false
                     end) by (unfold P, pair_ok; rewrite Esl; reflexivity).
    rewrite HP. clear HP P.
    cbv zeta.
    pose proof (check_sig_enc_no_panic c sg) as Hnp.
    (* the continuation once the signature has parsed, whatever the memo then holds *)
    assert (Hwp : forall p', (check_hash_type c (b2n hb) && match check_sig_enc c sg with EncOk => true | _ => false end = true) ->
                  p' = Some true -> orc_parse_sig orc (uses_der_parser c) sg = true ->
      (if negb (orc_parse_pub orc pk) then ms_struct orc t in_idx c script krest p' (raw :: srest)
       else match unparse (sig_code_ops c script (b2n hb)) with
            | Some up =>
                match sighash_for t in_idx up (b2n hb) with
                | SOk h =>
                    match orc_verify orc pk h sg (uses_der_parser c) with
                    | Some true => ms_struct orc t in_idx c script krest None srest
                    | Some false => ms_struct orc t in_idx c script krest p' (raw :: srest)
                    | None => LMiss
                    end
                | SigHash.SErr _ => LPushFalse
                | _ => LPanic
                end
            | None => LPushFalse
            end) =
      match (if true && orc_parse_pub orc pk
             then match unparse (sig_code_ops c script (b2n hb)) with
                  | Some up =>
                      match sighash_for t in_idx up (b2n hb) with
                      | SOk h => match orc_verify orc pk h sg (uses_der_parser c) with
                                 | Some _ => None | None => Some LMiss end
                      | SigHash.SErr _ => Some LPushFalse
                      | _ => Some LPanic
                      end
                  | None => Some LPushFalse
                  end
             else None) with
      | Some r => r
      | None =>
          ms_outcome
            (if true && orc_parse_pub orc pk &&
                match unparse (sig_code_ops c script (b2n hb)) with
                | Some up =>
                    match sighash_for t in_idx up (b2n hb) with
                    | SOk h => match orc_verify orc pk h sg (uses_der_parser c) with Some true => true | _ => false end
                    | _ => false
                    end
                | None => false
                end
             then greedy (pair_ok orc t in_idx c script) krest srest
             else greedy (pair_ok orc t in_idx c script) krest (raw :: srest))
            (if true && orc_parse_pub orc pk &&
                match unparse (sig_code_ops c script (b2n hb)) with
                | Some up =>
                    match sighash_for t in_idx up (b2n hb) with
                    | SOk h => match orc_verify orc pk h sg (uses_der_parser c) with Some true => true | _ => false end
                    | _ => false
                    end
                | None => false
                end
             then examined_from okf (S j) (S i) m n
             else examined_from okf j (S i) (S m) n)
      end).
    { intros p' Hchk -> Hps.
      assert (Hc' : ms_struct orc t in_idx c script krest (Some true) (raw :: srest) =
                    ms_outcome (greedy (pair_ok orc t in_idx c script) krest (raw :: srest)) (examined_from okf j (S i) (S m) n)).
      { apply Hcont. split; [exact Hchk|]. intros sg' hb' E. injection E as <- _. symmetry. exact Hps. }
      destruct (orc_parse_pub orc pk); cbn [negb andb]; [|exact Hc'].
      destruct (unparse (sig_code_ops c script (b2n hb))) as [up|]; [|reflexivity].
      destruct (sighash_for t in_idx up (b2n hb)) as [h|e| | |]; try reflexivity.
      destruct (orc_verify orc pk h sg (uses_der_parser c)) as [[|]|]; [exact Hadv|exact Hc'|reflexivity]. }
    destruct parsed as [[|]|].
    + (* parsed before, valid *)
      destruct Hmemo as [Hchk Hb]. specialize (Hb sg hb eq_refl). rewrite Hchk. cbn [negb orb].
      destruct (check_pubkey_enc c pk); cbn [negb]; [|reflexivity].
      rewrite <- Hb. apply Hwp; [exact Hchk|reflexivity|symmetry; exact Hb].
    + (* parsed before, not a signature *)
      destruct Hmemo as [Hchk Hb]. specialize (Hb sg hb eq_refl). rewrite Hchk. cbn [negb orb].
      destruct (check_pubkey_enc c pk); cbn [negb]; [|reflexivity].
      rewrite <- Hb. cbn [andb]. apply Hcont. split; [exact Hchk|]. intros sg' hb' E. injection E as <- _. exact Hb.
    + (* first pairing of this signature: hash type, DER, then the key *)
      destruct (check_hash_type c (b2n hb)) eqn:Eht; cbn [negb andb orb]; [|reflexivity].
      destruct (check_sig_enc c sg) eqn:Ede; cbn [negb orb]; [|reflexivity|congruence].
      destruct (check_pubkey_enc c pk); cbn [negb]; [|reflexivity].
      destruct (orc_parse_sig orc (uses_der_parser c) sg) eqn:Eps.
      * apply Hwp; [first [reflexivity | rewrite Eht, Ede; reflexivity | rewrite Ede; reflexivity]|reflexivity|first [reflexivity | exact Eps]].
      * cbn [andb]. apply Hcont. split; [first [reflexivity | rewrite Eht, Ede; reflexivity | rewrite Ede; reflexivity]|]. intros sg' hb' E. injection E as <- _. symmetry. exact Eps.
Qed.
End Indexed.
End Model.

(** * Part C: the loop as opcodeCheckMultiSig runs it *)
Lemma trace_outcome_ext_in {R} (bad bad' : nat -> nat -> bool) (stop stop' : nat -> nat -> option R) err done final :
  forall tr, (forall j i, In (j, i) tr -> bad' j i = bad j i /\ stop' j i = stop j i) ->
  trace_outcome bad' stop' err done final tr = trace_outcome bad stop err done final tr.
Proof.
  induction tr as [|[j i] tr IH]; intros H; [reflexivity|]. cbn [trace_outcome].
  destruct (H j i (or_introl eq_refl)) as [-> ->].
  destruct (bad j i); [reflexivity|]. destruct (stop j i); [reflexivity|].
  apply IH. intros j' i' Hin. apply H. right. exact Hin.
Qed.

Lemma trace_outcome_nostop {R} (bad : nat -> nat -> bool) (stop : nat -> nat -> option R) err done final :
  forall tr, (forall j i, In (j, i) tr -> stop j i = None) ->
  trace_outcome bad stop err done final tr = if existsb (fun p => bad (fst p) (snd p)) tr then err else done final.
Proof.
  induction tr as [|[j i] tr IH]; intros H; [reflexivity|]. cbn [trace_outcome existsb fst snd].
  destruct (bad j i); [reflexivity|]. rewrite (H j i (or_introl eq_refl)). cbn [orb].
  apply IH. intros j' i' Hin. apply H. right. exact Hin.
Qed.

Lemma successes_ext_in ok ok' : forall tr, (forall j i, In (j, i) tr -> ok' j i = ok j i) ->
  successes ok' tr = successes ok tr.
Proof.
  unfold successes. induction tr as [|[j i] tr IH]; intros H; [reflexivity|]. cbn [filter fst snd].
  rewrite (H j i (or_introl eq_refl)).
  assert (E : length (filter (fun p => ok' (fst p) (snd p)) tr) = length (filter (fun p => ok (fst p) (snd p)) tr)).
  { apply IH. intros j' i' Hin. apply H. right. exact Hin. }
  destruct (ok j i); cbn [length]; rewrite E; reflexivity.
Qed.

Section Top.
Variable orc : sig_oracle.
Variable t : tx.
Variable in_idx : N.
Variable c : ctx.
Variable script : list pop.

(** element number k of a list in loop order (the default is never used: only existing positions are examined) *)
Definition at_pos (l : list bytes) (k : nat) : bytes := nth k l [].

(** "signature j verifies under key i", by position *)
Definition ms_ok (sigs pks : list bytes) : nat -> nat -> bool :=
  okf orc t in_idx c script (at_pos sigs) (at_pos pks).
(** the pairs the node's algorithm examines on these arguments *)
Definition ms_trace (sigs pks : list bytes) : list (nat * nat) :=
  examined (ms_ok sigs pks) (length sigs) (length pks).
(** an enabled encoding check fails on signature j or on key i *)
Definition ms_bad (sigs pks : list bytes) : nat -> nat -> bool :=
  badf c (at_pos sigs) (at_pos pks).
Definition ms_stop (sigs pks : list bytes) : nat -> nat -> option loop_res :=
  stopf orc t in_idx c script (at_pos sigs) (at_pos pks).

Lemma map_at_pos l : map (at_pos l) (seq 0 (length l)) = l.
Proof. apply (map_nth_seq [] l). Qed.

Lemma greedy_is_verdict pks sigs :
  greedy (pair_ok orc t in_idx c script) pks sigs = verdict (ms_ok sigs pks) (length sigs) (length pks).
Proof.
  rewrite <- (map_at_pos pks) at 1. rewrite <- (map_at_pos sigs) at 1.
  apply (greedy_is_trace_verdict (pair_ok orc t in_idx c script) (at_pos sigs) (at_pos pks)).
Qed.

(** the trace theorem, no hypotheses: the loop run by opcodeCheckMultiSig returns what the FIRST examined pair
    that is bad (LErr) or that stops the operation decides, and the verdict of the walk if there is none *)
Theorem ms_loop_trace pks sigs :
  ms_loop orc t in_idx c script pks sigs (S (length pks)) (repeat None (length sigs)) (-1)
          (Z.of_nat (length pks) + 1) 0 (Z.of_nat (length sigs))
  = trace_outcome (ms_bad sigs pks) (ms_stop sigs pks) LErr LDone
                  (verdict (ms_ok sigs pks) (length sigs) (length pks)) (ms_trace sigs pks).
Proof.
  rewrite ms_loop_initial, <- greedy_is_verdict.
  pose proof (ms_struct_outcome orc t in_idx c script (at_pos sigs) (at_pos pks) (length pks) 0 (length sigs) 0 None
                                (fun _ => I)) as H.
  rewrite !map_at_pos in H. exact H.
Qed.

(** the same, unrolled to any position of the trace: if no earlier pair is bad or stops, pair number
    [length pre] decides (the error arises at the FIRST examined pair with an element failing a check, and
    nothing behind a deciding pair is looked at) *)
Theorem ms_loop_first_decides pks sigs pre j i post :
  ms_trace sigs pks = pre ++ (j, i) :: post ->
  (forall j' i', In (j', i') pre -> ms_bad sigs pks j' i' = false /\ ms_stop sigs pks j' i' = None) ->
  ms_loop orc t in_idx c script pks sigs (S (length pks)) (repeat None (length sigs)) (-1)
          (Z.of_nat (length pks) + 1) 0 (Z.of_nat (length sigs))
  = if ms_bad sigs pks j i then LErr
    else match ms_stop sigs pks j i with
         | Some r => r
         | None => trace_outcome (ms_bad sigs pks) (ms_stop sigs pks) LErr LDone
                                 (verdict (ms_ok sigs pks) (length sigs) (length pks)) post
         end.
Proof.
  intros Htr Hpre. rewrite ms_loop_trace, Htr. clear Htr.
  induction pre as [|[j' i'] pre IH]; [reflexivity|].
  cbn [app trace_outcome]. destruct (Hpre j' i' (or_introl eq_refl)) as [-> ->].
  apply IH. intros j2 i2 Hin. apply Hpre. right. exact Hin.
Qed.

(** ** exactly those positions: elements elsewhere do not matter *)
Theorem ms_loop_unexamined_irrelevant pks sigs pks' sigs' :
  length pks' = length pks -> length sigs' = length sigs ->
  (forall j i, In (j, i) (ms_trace sigs pks) -> nth_error sigs' j = nth_error sigs j /\ nth_error pks' i = nth_error pks i) ->
  ms_loop orc t in_idx c script pks' sigs' (S (length pks')) (repeat None (length sigs')) (-1)
          (Z.of_nat (length pks') + 1) 0 (Z.of_nat (length sigs'))
  = ms_loop orc t in_idx c script pks sigs (S (length pks)) (repeat None (length sigs)) (-1)
          (Z.of_nat (length pks) + 1) 0 (Z.of_nat (length sigs)).
Proof.
  intros Lk Ls Hagree. rewrite !ms_loop_trace.
  assert (Hat : forall j i, In (j, i) (ms_trace sigs pks) -> at_pos sigs' j = at_pos sigs j /\ at_pos pks' i = at_pos pks i).
  { intros j i Hin. destruct (Hagree j i Hin) as [Hs Hk]. apply examined_bounds in Hin. destruct Hin as [Hj Hi].
    unfold at_pos. split.
    - rewrite (nth_error_nth' sigs [] Hj) in Hs. apply nth_error_nth. exact Hs.
    - rewrite (nth_error_nth' pks [] Hi) in Hk. apply nth_error_nth. exact Hk. }
  assert (Hok : forall j i, In (j, i) (ms_trace sigs pks) -> ms_ok sigs' pks' j i = ms_ok sigs pks j i).
  { intros j i Hin. destruct (Hat j i Hin) as [Es Ek]. unfold ms_ok, okf. rewrite Es, Ek. reflexivity. }
  assert (Htr : ms_trace sigs' pks' = ms_trace sigs pks).
  { unfold ms_trace, examined. rewrite Lk, Ls. apply examined_from_ext. intros [j i] Hin. apply Hok. exact Hin. }
  rewrite Htr. unfold verdict. fold (ms_trace sigs' pks'). fold (ms_trace sigs pks). rewrite Htr, Ls.
  rewrite (successes_ext_in (ms_ok sigs pks) (ms_ok sigs' pks') (ms_trace sigs pks) Hok).
  apply trace_outcome_ext_in. intros j i Hin. destruct (Hat j i Hin) as [Es Ek].
  unfold ms_bad, ms_stop, badf, stopf. rewrite Es, Ek. split; reflexivity.
Qed.

(** ** no pair stops the operation when the digests are computable and the oracle answers *)
Definition sig_digestable (raw : bytes) : Prop :=
  match split_last raw with
  | None => True
  | Some (sg, hb) => exists up h, unparse (sig_code_ops c script (b2n hb)) = Some up /\ sighash_for t in_idx up (b2n hb) = SOk h
  end.

Lemma stop_of_none raw pk : oracle_total orc -> sig_digestable raw -> stop_of orc t in_idx c script raw pk = None.
Proof.
  intros Horc Hd. unfold stop_of, sig_digestable in *. destruct (split_last raw) as [[sg hb]|]; [|reflexivity].
  destruct Hd as (up & h & -> & ->). destruct (_ && _); [|reflexivity].
  specialize (Horc pk h sg (uses_der_parser c)). destruct (orc_verify orc pk h sg (uses_der_parser c)); [reflexivity|congruence].
Qed.

Lemma at_pos_in l k : k < length l -> In (at_pos l k) l.
Proof. intros H. apply nth_In. exact H. Qed.

Lemma ms_loop_nostop pks sigs : oracle_total orc -> Forall sig_digestable sigs ->
  ms_loop orc t in_idx c script pks sigs (S (length pks)) (repeat None (length sigs)) (-1)
          (Z.of_nat (length pks) + 1) 0 (Z.of_nat (length sigs))
  = if existsb (fun p => ms_bad sigs pks (fst p) (snd p)) (ms_trace sigs pks) then LErr
    else LDone (greedy (pair_ok orc t in_idx c script) pks sigs).
Proof.
  intros Horc Hd. rewrite ms_loop_trace, <- greedy_is_verdict. apply trace_outcome_nostop.
  intros j i Hin. apply examined_bounds in Hin. destruct Hin as [Hj _].
  unfold ms_stop, stopf. apply stop_of_none; [exact Horc|].
  rewrite Forall_forall in Hd. apply Hd. apply at_pos_in. exact Hj.
Qed.

(** an examined pair with an element that fails an enabled check *)
Definition bad_pair_examined (pks sigs : list bytes) : Prop :=
  exists j i raw pk, In (j, i) (ms_trace sigs pks) /\ nth_error sigs j = Some raw /\ nth_error pks i = Some pk /\
                     (sig_fails c raw \/ check_pubkey_enc c pk = false).

Lemma existsb_bad_iff pks sigs :
  existsb (fun p => ms_bad sigs pks (fst p) (snd p)) (ms_trace sigs pks) = true <-> bad_pair_examined pks sigs.
Proof.
  rewrite existsb_exists. unfold bad_pair_examined, ms_bad, badf. split.
  - intros ([j i] & Hin & Hb). cbn [fst snd] in Hb. pose proof (examined_bounds _ _ _ _ _ Hin) as [Hj Hi].
    exists j, i, (at_pos sigs j), (at_pos pks i). split; [exact Hin|].
    split; [apply nth_error_nth'; exact Hj|]. split; [apply nth_error_nth'; exact Hi|].
    apply orb_true_iff in Hb. destruct Hb as [Hb|Hb]; apply negb_true_iff in Hb; [left|right; exact Hb].
    apply sig_checks_false. exact Hb.
  - intros (j & i & raw & pk & Hin & Hs & Hk & Hbad). exists (j, i). split; [exact Hin|]. cbn [fst snd].
    unfold at_pos. rewrite (nth_error_nth _ _ [] Hs), (nth_error_nth _ _ [] Hk).
    apply orb_true_iff. destruct Hbad as [Hb|Hb]; [left|right]; apply negb_true_iff; [|exact Hb].
    apply sig_checks_false. exact Hb.
Qed.

(** the multisig side of the flag table, complete: a hard error iff an examined pair has an element failing an
    enabled check; otherwise the loop ends normally with the monotone-matching verdict *)
Theorem flag_table_multisig pks sigs : oracle_total orc -> Forall sig_digestable sigs ->
  let res := ms_loop orc t in_idx c script pks sigs (S (length pks)) (repeat None (length sigs)) (-1)
                     (Z.of_nat (length pks) + 1) 0 (Z.of_nat (length sigs)) in
  (res = LErr <-> bad_pair_examined pks sigs) /\
  (~ bad_pair_examined pks sigs ->
   exists b, res = LDone b /\
             (b = true <-> monotone_matching (fun s k => pair_ok orc t in_idx c script s k = true) sigs pks)).
Proof.
  intros Horc Hd res. unfold res. rewrite (ms_loop_nostop pks sigs Horc Hd).
  pose proof (existsb_bad_iff pks sigs) as Hiff.
  destruct (existsb _ (ms_trace sigs pks)).
  - split; [split; [intros _; apply Hiff; reflexivity|reflexivity]|].
    intros Hn. exfalso. apply Hn, Hiff. reflexivity.
  - split; [split; [discriminate|intros Hb; apply Hiff in Hb; discriminate]|].
    intros _. eexists. split; [reflexivity|]. apply greedy_spec.
Qed.

(** what the partial theorem could not say: malformed elements at positions the walk never reaches are not
    errors.  Whatever stands at the other positions, if every EXAMINED pair passes the enabled checks the loop
    ends normally with the matching verdict *)
Corollary unreached_is_not_an_error pks sigs : oracle_total orc -> Forall sig_digestable sigs ->
  (forall j i raw pk, In (j, i) (ms_trace sigs pks) -> nth_error sigs j = Some raw -> nth_error pks i = Some pk ->
                      ~ sig_fails c raw /\ check_pubkey_enc c pk = true) ->
  exists b,
    ms_loop orc t in_idx c script pks sigs (S (length pks)) (repeat None (length sigs)) (-1)
            (Z.of_nat (length pks) + 1) 0 (Z.of_nat (length sigs)) = LDone b /\
    (b = true <-> monotone_matching (fun s k => pair_ok orc t in_idx c script s k = true) sigs pks).
Proof.
  intros Horc Hd Hfine. apply (proj2 (flag_table_multisig pks sigs Horc Hd)).
  intros (j & i & raw & pk & Hin & Hs & Hk & Hbad). destruct (Hfine j i raw pk Hin Hs Hk) as [H1 H2].
  destruct Hbad as [Hb|Hb]; [exact (H1 Hb)|congruence].
Qed.

(** a key after the last examined pair: every signature has matched, or the walk has given up, before it *)
Corollary key_beyond_trace_unexamined pks sigs i :
  length (ms_trace sigs pks) <= i -> forall j, ~ In (j, i) (ms_trace sigs pks).
Proof.
  intros Hle j Hin. unfold ms_trace in *. apply In_nth_error in Hin. destruct Hin as [k Hk].
  assert (Hlt : k < length (examined (ms_ok sigs pks) (length sigs) (length pks))) by (apply nth_error_Some; congruence).
  apply examined_nth in Hk. lia.
Qed.

(** replacing a key the walk does not look at (for instance a garbage key after all signatures have matched)
    by anything, or a signature it does not look at (for instance after the walk has failed for lack of keys),
    changes nothing *)
Corollary unexamined_key_replaced pks sigs i0 pk' :
  (forall j, ~ In (j, i0) (ms_trace sigs pks)) ->
  let pks' := firstn i0 pks ++ pk' :: skipn (S i0) pks in
  i0 < length pks ->
  ms_loop orc t in_idx c script pks' sigs (S (length pks')) (repeat None (length sigs)) (-1)
          (Z.of_nat (length pks') + 1) 0 (Z.of_nat (length sigs))
  = ms_loop orc t in_idx c script pks sigs (S (length pks)) (repeat None (length sigs)) (-1)
          (Z.of_nat (length pks) + 1) 0 (Z.of_nat (length sigs)).
Proof.
  intros Hnot pks' Hi0.
  assert (Ll : length pks' = length pks).
  { unfold pks'. rewrite app_length, firstn_length. cbn [length]. rewrite skipn_length. lia. }
  apply ms_loop_unexamined_irrelevant; [exact Ll|reflexivity|].
  intros j i Hin. split; [reflexivity|].
  assert (Hne : i <> i0) by (intros ->; exact (Hnot j Hin)).
  unfold pks'. destruct (Nat.lt_ge_cases i i0) as [Hlt|Hge].
  - rewrite nth_error_app1 by (rewrite firstn_length; lia). apply nth_error_firstn_below. exact Hlt.
  - rewrite nth_error_app2 by (rewrite firstn_length; lia). rewrite firstn_length.
    replace (Nat.min i0 (length pks)) with i0 by lia.
    destruct (i - i0) as [|d] eqn:Ed; [lia|]. cbn [nth_error]. rewrite nth_error_skipn_plus. f_equal. lia.
Qed.
End Top.

(** * the operation: exactly when OP_CHECKMULTISIG (not VERIFY) is a script error on a well-shaped stack *)

Theorem checkmultisig_error_iff orc t i c s idx nk pks ns sigs dummy rest a b :
  ds s = nk :: pks ++ ns :: sigs ++ dummy :: rest ->
  pop_count c nk = Some a -> to_int32 a = Z.of_nat (length pks) ->
  pop_count c ns = Some b -> to_int32 b = Z.of_nat (length sigs) ->
  (length sigs <= length pks)%nat -> (Z.of_nat (length pks) <= max_pubkeys c)%Z ->
  (nops s + Z.of_nat (length pks) <= max_ops c)%Z ->
  oracle_total orc ->
  Forall (sig_digestable t i c (multisig_code_ops c s sigs)) sigs ->
  (checkmultisig_run orc t i c s idx false = Some OErr <->
   (has_flag c F_STRICTMULTISIG = true /\ dummy <> []) \/
   bad_pair_examined orc t i c (multisig_code_ops c s sigs) pks sigs \/
   (has_flag c F_NULLFAIL = true /\ (exists sg, In sg sigs /\ sg <> []) /\
    ~ monotone_matching (fun sg k => pair_ok orc t i c (multisig_code_ops c s sigs) sg k = true) sigs pks)).
Proof.
  intros Hds Ha Ha' Hb Hb' Hle Hmax Hops Horc Hd.
  rewrite (multisig_eval orc t i c s idx false nk pks ns sigs dummy rest a b Hds Ha Ha' Hb Hb' Hle Hmax Hops).
  set (script := multisig_code_ops c s sigs) in *.
  assert (Hdum : (has_flag c F_STRICTMULTISIG && negb (Nat.eqb (length dummy) 0))%bool = true <->
                 (has_flag c F_STRICTMULTISIG = true /\ dummy <> [])).
  { rewrite andb_true_iff, negb_true_iff. destruct dummy; cbn; split; intros [H1 H2]; split; congruence. }
  destruct (has_flag c F_STRICTMULTISIG && negb (Nat.eqb (length dummy) 0))%bool.
  { split; [intros _; left; apply Hdum; reflexivity|reflexivity]. }
  cbv zeta. rewrite <- ms_loop_initial, (ms_loop_nostop orc t i c script pks sigs Horc Hd).
  pose proof (existsb_bad_iff orc t i c script pks sigs) as Hbad.
  pose proof (greedy_spec (pair_ok orc t i c script) pks sigs) as Hg.
  assert (Hne : existsb (fun sg => Nat.ltb 0 (length sg)) sigs = true <-> exists sg, In sg sigs /\ sg <> []).
  { rewrite existsb_exists. split; intros (sg & Hin & H); exists sg; (split; [exact Hin|]); destruct sg; cbn in *; congruence. }
  destruct (existsb _ (ms_trace orc t i c script sigs pks)).
  { split; [intros _; right; left; apply Hbad; reflexivity|reflexivity]. }
  unfold finish_verify, push_bool, push.
  destruct (greedy (pair_ok orc t i c script) pks sigs).
  - cbn [negb andb]. split; [discriminate|].
    intros [H|[H|(_ & _ & H)]]; [apply Hdum in H; discriminate|apply Hbad in H; discriminate|].
    exfalso. apply H, Hg. reflexivity.
  - cbn [negb andb]. destruct (has_flag c F_NULLFAIL); cbn [andb].
    + destruct (existsb (fun sg => Nat.ltb 0 (length sg)) sigs).
      * split; [intros _|reflexivity]. right. right. split; [reflexivity|]. split; [apply Hne; reflexivity|].
        intros H. apply Hg in H. discriminate.
      * split; [discriminate|].
        intros [H|[H|(_ & H & _)]]; [apply Hdum in H; discriminate|apply Hbad in H; discriminate|].
        apply Hne in H. discriminate.
    + split; [discriminate|].
      intros [H|[H|(H & _)]]; [apply Hdum in H; discriminate|apply Hbad in H; discriminate|discriminate].
Qed.

(** * concrete instances (for the examples of Properties/C06.v) *)
(** a toy oracle: everything parses; a signature verifies under a key iff byte 4 of the signature (the R value of
    30 06 02 01 R 02 01 01) equals byte 1 of the key *)
Definition toy_oracle : sig_oracle :=
  mkOracle (fun _ => true) (fun _ _ => true)
           (fun pk _ sg _ => Some (Byte.eqb (nth 1 pk x00) (nth 4 sg x00))).
(** a 33-byte compressed key 02 r 00..00 (passes the STRICTENC key check); a strict-DER signature with hash type 01 *)
Definition toy_key (r : byte) : bytes := x02 :: r :: repeat x00 31.
Definition toy_sig (r : byte) : bytes := [x30; x06; x02; x01; r; x02; x01; x01; x01].
Definition garbage_key : bytes := [x00].            (* fails check_pubkey_enc under STRICTENC *)
Definition garbage_sig : bytes := [x30; x00].       (* hash type 00: fails check_hash_type under STRICTENC *)
Definition strictenc_ctx : ctx := flags_of true false false false false false.
Definition toy_loop (pks sigs : list bytes) : loop_res :=
  ms_loop toy_oracle ex_tx 1 strictenc_ctx [] pks sigs (S (length pks)) (repeat None (length sigs)) (-1)
          (Z.of_nat (length pks) + 1) 0 (Z.of_nat (length sigs)).
Definition toy_trace (pks sigs : list bytes) : list (nat * nat) := ms_trace toy_oracle ex_tx 1 strictenc_ctx [] sigs pks.
(** the operation on the stack  n :: keys ++ m :: sigs ++ [dummy]  (top first), current script empty *)
Definition toy_state (pks sigs : list bytes) : st :=
  set_ds (init_st []) ([n2b (N.of_nat (length pks))] :: pks ++ [n2b (N.of_nat (length sigs))] :: sigs ++ [[]]).
Definition toy_op (pks sigs : list bytes) : option outcome :=
  checkmultisig_run toy_oracle ex_tx 1 strictenc_ctx (toy_state pks sigs) 0 false.

Lemma toy_oracle_total : oracle_total toy_oracle.
Proof. intros pk h sg der. discriminate. Qed.

Lemma toy_sig_digestable r : sig_digestable ex_tx 1 strictenc_ctx [] (toy_sig r).
Proof.
  unfold sig_digestable, toy_sig. cbn [split_last rev app].
  eexists. eexists. split; [reflexivity|]. vm_compute. reflexivity.
Qed.
Lemma garbage_sig_digestable : sig_digestable ex_tx 1 strictenc_ctx [] garbage_sig.
Proof.
  unfold sig_digestable, garbage_sig. cbn [split_last rev app].
  eexists. eexists. split; [reflexivity|]. vm_compute. reflexivity.
Qed.
