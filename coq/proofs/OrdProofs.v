(** Proofs for C20 (ordinals flows): what SINGLE|ANYONECANPAY and SINGLE commit to (over the digest
    specification, transferred to the library's preimage through C02), the shape of the transactions
    the flows assemble, first-in-first-out routing of the ordinal, fee adequacy, rangeAbove. *)
From Coq Require Import List NArith ZArith Lia ZifyN ZifyNat ZifyBool Bool.
From Coq Require Import Strings.Byte.
From GoBT Require Import lib.Bytes lib.VarInt lib.Sha256 model.Tx gen.Consts spec.FeeSpec model.Fees model.Change
  spec.DigestSpec model.SigHash model.SigHashWire proofs.TxProofs proofs.SigHashProofs proofs.FeesProofs
  proofs.ChangeProofs spec.OrdSpec model.Ord.
Import ListNotations.
Local Open Scope N_scope.
Local Open Scope bool_scope.
Ltac Zify.zify_post_hook ::= Z.div_mod_to_equations.

(** * 1. What the signatures commit to (specification level) *)

(** SINGLE|ANYONECANPAY: the digest is a function of the version, the signed input's own outpoint,
    script code, value and sequence number, the output at the signed input's index, the locktime
    and the hash type — and of nothing else in the transaction *)
Theorem single_acp_depends_only tx n sc amount ht :
  is_single ht = true -> anyone_can_pay ht = true ->
  forkid_preimage tx n sc amount ht =
  option_map (fun inp => single_acp_preimage (t_version tx) (ti_prevout inp) sc amount (ti_sequence inp)
                           (nth_error (t_vout tx) n) (t_locktime tx) ht)
             (nth_error (t_vin tx) n).
Proof.
  intros Hs Ha. unfold forkid_preimage. destruct (nth_error (t_vin tx) n) as [inp|]; [|reflexivity].
  cbn [option_map]. f_equal. unfold digest_bytes, forkid_fields, single_acp_preimage.
  cbn [d_version d_hash_prevouts d_hash_sequence d_outpoint d_script_code d_value d_sequence d_hash_outputs
       d_locktime d_hash_type].
  unfold hash_prevouts, commits_to_all_prevouts, hash_sequence, commits_to_all_sequences, hash_outputs,
    committed_outputs. rewrite Hs, Ha. cbn [negb andb].
  destruct (nth_error (t_vout tx) n); reflexivity.
Qed.

(** re-indexing invariance: the signed input and its matching output may sit at any common index of
    any transaction with the same version and locktime, next to any other inputs and outputs *)
Corollary single_acp_reindex tx1 n1 tx2 n2 i1 i2 sc amount ht :
  is_single ht = true -> anyone_can_pay ht = true ->
  t_version tx1 = t_version tx2 -> t_locktime tx1 = t_locktime tx2 ->
  nth_error (t_vin tx1) n1 = Some i1 -> nth_error (t_vin tx2) n2 = Some i2 ->
  ti_prevout i1 = ti_prevout i2 -> ti_sequence i1 = ti_sequence i2 ->
  nth_error (t_vout tx1) n1 = nth_error (t_vout tx2) n2 ->
  forkid_preimage tx1 n1 sc amount ht = forkid_preimage tx2 n2 sc amount ht.
Proof.
  intros Hs Ha Hv Hl H1 H2 Hp Hq Ho.
  rewrite !single_acp_depends_only by assumption. rewrite H1, H2. cbn [option_map].
  rewrite Hv, Hl, Hp, Hq, Ho. reflexivity.
Qed.

(** SINGLE without ANYONECANPAY: additionally every input's outpoint, and still only the matching output *)
Theorem single_depends_only tx n sc amount ht :
  is_single ht = true -> anyone_can_pay ht = false ->
  forkid_preimage tx n sc amount ht =
  option_map (fun inp => single_preimage (t_version tx) (map ti_prevout (t_vin tx)) (ti_prevout inp) sc amount
                           (ti_sequence inp) (nth_error (t_vout tx) n) (t_locktime tx) ht)
             (nth_error (t_vin tx) n).
Proof.
  intros Hs Ha. unfold forkid_preimage. destruct (nth_error (t_vin tx) n) as [inp|]; [|reflexivity].
  cbn [option_map]. f_equal. unfold digest_bytes, forkid_fields, single_preimage.
  cbn [d_version d_hash_prevouts d_hash_sequence d_outpoint d_script_code d_value d_sequence d_hash_outputs
       d_locktime d_hash_type].
  unfold hash_prevouts, commits_to_all_prevouts, hash_sequence, commits_to_all_sequences, hash_outputs,
    committed_outputs. rewrite Hs, Ha. cbn [negb andb]. rewrite map_map.
  destruct (nth_error (t_vout tx) n); reflexivity.
Qed.

(** a SINGLE signature survives any change to the other outputs and to the unlocking scripts, as long
    as the inputs keep spending the same outpoints *)
Corollary single_stable tx1 tx2 n i1 i2 sc amount ht :
  is_single ht = true -> anyone_can_pay ht = false ->
  t_version tx1 = t_version tx2 -> t_locktime tx1 = t_locktime tx2 ->
  map ti_prevout (t_vin tx1) = map ti_prevout (t_vin tx2) ->
  nth_error (t_vin tx1) n = Some i1 -> nth_error (t_vin tx2) n = Some i2 -> ti_sequence i1 = ti_sequence i2 ->
  nth_error (t_vout tx1) n = nth_error (t_vout tx2) n ->
  forkid_preimage tx1 n sc amount ht = forkid_preimage tx2 n sc amount ht.
Proof.
  intros Hs Ha Hv Hl Hp H1 H2 Hq Ho.
  rewrite !single_depends_only by assumption. rewrite H1, H2. cbn [option_map].
  assert (ti_prevout i1 = ti_prevout i2) as Hpp.
  { assert (nth_error (map ti_prevout (t_vin tx1)) n = nth_error (map ti_prevout (t_vin tx2)) n) as E by (rewrite Hp; reflexivity).
    rewrite !nth_error_map, H1, H2 in E. cbn [option_map] in E. congruence. }
  rewrite Hv, Hl, Hp, Hpp, Hq, Ho. reflexivity.
Qed.

(** * 2. Transfer to the library's CalcInputPreimage / CalcInputSignatureHash (through C02) *)

(** two inputs that differ at most in their unlocking script *)
Definition same_prev (a b : input) : Prop :=
  in_txid a = in_txid b /\ in_vout a = in_vout b /\ in_seq a = in_seq b /\ in_sats a = in_sats b /\
  in_script a = in_script b.

Lemma same_prev_refl a : same_prev a a. Proof. repeat split. Qed.
Lemma same_prev_trans a b c : same_prev a b -> same_prev b c -> same_prev a c.
Proof. unfold same_prev. intuition congruence. Qed.
Lemma same_prev_with_unlock a u : same_prev a (with_unlock a u). Proof. repeat split. Qed.

Lemma wire_nth_in t n i : nth_error (tx_ins t) n = Some i -> nth_error (t_vin (wire_tx t)) n = Some (wire_in i).
Proof. intros H. cbn [wire_tx t_vin]. rewrite nth_error_map, H. reflexivity. Qed.
Lemma wire_nth_out t n : nth_error (t_vout (wire_tx t)) n = option_map wire_out (nth_error (tx_outs t) n).
Proof. cbn [wire_tx t_vout]. apply nth_error_map. Qed.

Definition is_single_acp (ht : N) : Prop := ht < 256 /\ is_single ht = true /\ anyone_can_pay ht = true.
Lemma c3_is_single_acp : is_single_acp 195. Proof. repeat split. Qed.

(** the library's preimage of input [i] of [L] and of input [k] of [A] are the same bytes whenever the
    two inputs agree up to the unlocking script, the outputs at [i] resp. [k] agree, and so do
    version and locktime *)
Theorem lib_single_acp_reindex L A i k ht inpL inpA sc :
  is_single_acp ht -> i < two32 -> k < two32 ->
  N.of_nat (length (tx_outs L)) < two31 -> N.of_nat (length (tx_outs A)) < two31 ->
  nth_error (tx_ins L) (N.to_nat i) = Some inpL -> nth_error (tx_ins A) (N.to_nat k) = Some inpA ->
  same_prev inpL inpA -> in_txid inpL <> [] -> in_script inpL = Some sc ->
  tx_version L = tx_version A -> tx_lock L = tx_lock A ->
  nth_error (tx_outs L) (N.to_nat i) = nth_error (tx_outs A) (N.to_nat k) ->
  fst (calc_input_preimage L i ht) = fst (calc_input_preimage A k ht) /\
  (has_forkid ht = true ->
   fst (calc_input_signature_hash L i ht) = fst (calc_input_signature_hash A k ht)) /\
  exists p, fst (calc_input_preimage A k ht) = SOk p /\
            forkid_preimage (wire_tx A) (N.to_nat k) sc (in_sats inpA) ht = Some p.
Proof.
  intros (Hht & Hs & Ha) Hi Hk HoL HoA HL HA (Et & Ev & Eq & Es & Esc) Hne Hsc Hver Hlock Houts.
  pose proof (forkid_preimage_is_spec L i ht inpL sc Hht Hi HoL HL Hne Hsc) as SL.
  assert (in_txid inpA <> []) as HneA by congruence.
  assert (in_script inpA = Some sc) as HscA by congruence.
  pose proof (forkid_preimage_is_spec A k ht inpA sc Hht Hk HoA HA HneA HscA) as SA.
  assert (forkid_preimage (wire_tx L) (N.to_nat i) sc (in_sats inpL) ht =
          forkid_preimage (wire_tx A) (N.to_nat k) sc (in_sats inpA) ht) as E.
  { rewrite <- Es.
    apply (single_acp_reindex (wire_tx L) (N.to_nat i) (wire_tx A) (N.to_nat k) (wire_in inpL) (wire_in inpA)
             sc (in_sats inpL) ht Hs Ha Hver Hlock (wire_nth_in _ _ _ HL) (wire_nth_in _ _ _ HA)).
    - cbn [wire_in ti_prevout]. rewrite Et, Ev. reflexivity.
    - cbn [wire_in ti_sequence]. exact Eq.
    - rewrite !wire_nth_out, Houts. reflexivity. }
  rewrite E in SL.
  destruct (forkid_preimage (wire_tx A) (N.to_nat k) sc (in_sats inpA) ht) as [p|] eqn:P; cbn [option_map] in *;
    [|discriminate].
  injection SL as SL. injection SA as SA.
  assert (fst (calc_input_preimage L i ht) = fst (calc_input_preimage A k ht)) as EP by congruence.
  split; [exact EP|]. split; [|exists p; split; [congruence|reflexivity]].
  intros Hf. rewrite !forkid_hash_is_sha256d by assumption. rewrite EP. reflexivity.
Qed.

(** * 3. The shape of what the flows assemble *)

Lemma from_utxos_spec : forall us t t', from_utxos t us = Done t' ->
  t' = mkTx (tx_version t) (tx_ins t ++ map input_of us) (tx_outs t) (tx_lock t) /\
  Forall (fun u => length (u_txid u) = 32%nat) us.
Proof.
  induction us as [|u r IH]; intros t t' H; cbn [from_utxos] in H.
  - injection H as <-. cbn [map]. rewrite app_nil_r. destruct t; split; [reflexivity|constructor].
  - destruct (Nat.eqb_spec (length (u_txid u)) 32) as [E|E]; [|discriminate].
    apply IH in H as [-> HF]. cbn [add_input tx_version tx_ins tx_outs tx_lock map].
    rewrite <- app_assoc. split; [reflexivity|constructor; assumption].
Qed.

Lemma move_first_above_spec p : forall us before l, move_first_above p before us = Some l ->
  exists u r, l = u :: r /\ p < u_sats u /\ length l = (length before + length us)%nat.
Proof.
  induction us as [|u r IH]; intros before l H; cbn [move_first_above] in H; [discriminate|].
  destruct (N.ltb_spec p (u_sats u)) as [Hlt|Hge].
  - injection H as <-. exists u, (before ++ r). repeat split; [assumption|].
    cbn [length]. rewrite app_length. lia.
  - apply IH in H as (u' & r' & -> & Hp & Hl). exists u', r'. repeat split; [assumption|].
    rewrite Hl, app_length. cbn [length]. lia.
Qed.

Lemma set_unlock_at_same : forall ins j u, Forall2 same_prev ins (set_unlock_at ins j u).
Proof.
  induction ins as [|i r IH]; intros j u; cbn [set_unlock_at]; [constructor|].
  destruct j; constructor; try apply same_prev_refl; try apply same_prev_with_unlock; auto.
  clear. induction r; constructor; [apply same_prev_refl|assumption].
Qed.

Lemma set_unlock_at_other : forall ins j k u, j <> k -> nth_error (set_unlock_at ins j u) k = nth_error ins k.
Proof.
  induction ins as [|i r IH]; intros j k u H; cbn [set_unlock_at]; [reflexivity|].
  destruct j, k; try reflexivity; try lia. cbn [nth_error]. apply IH. lia.
Qed.

Lemma Forall2_same_prev_refl l : Forall2 same_prev l l.
Proof. induction l; constructor; [apply same_prev_refl|assumption]. Qed.
Lemma Forall2_same_prev_trans a : forall b c, Forall2 same_prev a b -> Forall2 same_prev b c -> Forall2 same_prev a c.
Proof.
  induction a as [|x a IH]; intros b c H1 H2; inversion H1; subst; inversion H2; subst; constructor.
  - eapply same_prev_trans; eassumption.
  - eapply IH; eassumption.
Qed.

Section Shape.
Variable signer : tx -> N -> N -> option bytes.

(** an input after signing: untouched, or carrying a script the signer returned.
    [signed_by] forgets the (transaction, index, flags) the signer saw; the version that remembers them is
    [sign_loop_signs] of proofs/OrdSignProofs.v (C20_sign_loop_signs, C20_*_sign_final_tx) *)
Definition signed_by (a b : input) : Prop :=
  b = a \/ exists t j f u, signer t j f = Some u /\ b = with_unlock a u.

Lemma signed_by_refl l : Forall2 signed_by l l.
Proof. induction l; constructor; [left; reflexivity|assumption]. Qed.

Lemma set_unlock_at_signed t j f u : signer t j f = Some u ->
  forall ins k, Forall2 signed_by ins (set_unlock_at ins k u).
Proof.
  intros Hs. induction ins as [|i r IH]; intros k; cbn [set_unlock_at]; [constructor|].
  destruct k; constructor; auto.
  - right. eauto 6.
  - apply signed_by_refl.
  - left. reflexivity.
Qed.

(** signing twice: the second script wins; both came from the signer *)
Lemma signed_by_trans_ok : forall a b c, Forall2 signed_by a b -> Forall2 signed_by b c -> Forall2 signed_by a c.
Proof.
  induction a as [|x a IH]; intros b c H1 H2; inversion H1; subst; inversion H2; subst; constructor.
  - destruct H3 as [->|(t & j & f & u & Hs & ->)]; [assumption|].
    destruct H4 as [->|(t' & j' & f' & u' & Hs' & ->)]; [right; eauto 6|].
    right. exists t', j', f', u'. split; [assumption|]. reflexivity.
  - eapply IH; eassumption.
Qed.

Lemma fill_input_spec t j f t' : fill_input signer t j f = Done t' ->
  tx_version t' = tx_version t /\ tx_outs t' = tx_outs t /\ tx_lock t' = tx_lock t /\
  Forall2 same_prev (tx_ins t) (tx_ins t') /\ Forall2 signed_by (tx_ins t) (tx_ins t') /\
  (forall k, k <> N.to_nat j -> nth_error (tx_ins t') k = nth_error (tx_ins t) k).
Proof.
  unfold fill_input. destruct (signer t j (if f =? 0 then 65 else f)) as [u|] eqn:Hs; [|discriminate].
  destruct (j <? N.of_nat (length (tx_ins t))); [|discriminate]. intros [= <-].
  cbn [set_ins tx_version tx_ins tx_outs tx_lock]. repeat split.
  - apply set_unlock_at_same.
  - eapply set_unlock_at_signed. exact Hs.
  - intros k Hk. apply set_unlock_at_other. lia.
Qed.

Lemma sign_loop_spec skip flags : forall us t i t', sign_loop signer t us i skip flags = Done t' ->
  tx_version t' = tx_version t /\ tx_outs t' = tx_outs t /\ tx_lock t' = tx_lock t /\
  Forall2 same_prev (tx_ins t) (tx_ins t') /\ Forall2 signed_by (tx_ins t) (tx_ins t') /\
  nth_error (tx_ins t') (N.to_nat skip) = nth_error (tx_ins t) (N.to_nat skip).
Proof.
  induction us as [|u r IH]; intros t i t' H; cbn [sign_loop] in H.
  - injection H as <-. repeat split; [apply Forall2_same_prev_refl|apply signed_by_refl].
  - set (j := if skip <=? i then i + 1 else i) in *.
    destruct (nth_error (tx_ins t) (N.to_nat j)) as [inp|]; [|discriminate].
    destruct (negb (bytes_eqb (u_txid u) (in_txid inp))); [discriminate|].
    destruct (fill_input signer t j flags) as [t1| |] eqn:F; cbn [fbind] in H; try discriminate.
    apply fill_input_spec in F as (V1 & O1 & L1 & S1 & G1 & K1).
    apply IH in H as (V2 & O2 & L2 & S2 & G2 & K2).
    repeat split; try congruence.
    + eapply Forall2_same_prev_trans; eassumption.
    + eapply signed_by_trans_ok; eassumption.
    + rewrite K2. apply K1. subst j. destruct (N.leb_spec skip i); lia.
Qed.

Lemma change_then_check_spec t q s t' : change_then_check t q s = Done t' ->
  tx_version t' = tx_version t /\ tx_ins t' = tx_ins t /\ tx_lock t' = tx_lock t /\
  (tx_outs t' = tx_outs t \/ exists v, tx_outs t' = tx_outs t ++ [mkOutput v s]) /\
  estimate_is_fee_paid_enough t' q = FOk true.
Proof.
  unfold change_then_check. destruct (change_new t q s) as [r t1] eqn:C.
  pose proof (change_preserves_outputs t q s r t1 C) as (V & I & L & O).
  destruct r as [has|e| |]; try discriminate.
  destruct (estimate_is_fee_paid_enough t1 q) as [[|]|e| |] eqn:E; try discriminate.
  intros [= <-]. repeat split; try assumption.
  destruct O as [[_ ->]|[_ (v & ->)]]; [left; reflexivity|right; eauto].
Qed.

Lemma estimate_check_spec t q t' : estimate_check t q = Done t' ->
  t' = t /\ estimate_is_fee_paid_enough t q = FOk true.
Proof.
  unfold estimate_check. destruct (estimate_is_fee_paid_enough t q) as [[|]|e| |]; try discriminate.
  intros [= <-]. split; reflexivity.
Qed.

(** ** ListOrdinalForSale: version 1, locktime 0, the ordinal as only input, the requested output as only output *)
Theorem list_ordinal_shape ou so L : list_ordinal signer ou so = Done L ->
  exists u, signer (mkTx 1 [input_of ou] [so] 0) 0 195 = Some u /\
            L = mkTx 1 [with_unlock (input_of ou) u] [so] 0 /\ length (u_txid ou) = 32%nat.
Proof.
  unfold list_ordinal. destruct (from_utxos new_tx [ou]) as [t| |] eqn:F; cbn [fbind]; try discriminate.
  apply from_utxos_spec in F as [-> HF]. inversion HF as [|? ? H32 _]; subst.
  cbn [new_tx tx_version tx_ins tx_outs tx_lock map app add_output].
  unfold fill_input. cbn [N.eqb tx_ins length].
  destruct (signer _ 0 195) as [u|] eqn:S; [|discriminate].
  cbn [N.of_nat N.ltb N.compare Pos.of_succ_nat]. intros [= <-]. exists u. repeat split; assumption.
Qed.

(** ** AcceptOrdinalSaleListing *)
Theorem accept_listing_shape listed L us buyer dummy chg q A :
  accept_listing signer listed L us buyer dummy chg q = Done A ->
  exists seller_in seller_out u0 rest chg_outs T,
    tx_ins L = [seller_in] /\ tx_outs L = [seller_out] /\
    move_first_above (out_sats seller_out) [] us = Some (u0 :: rest) /\
    out_sats seller_out < u_sats u0 /\
    T = mkTx 1 (input_of u0 :: seller_in :: map input_of rest)
          ([mkOutput (sub64 (u_sats u0) (out_sats seller_out)) dummy; seller_out; mkOutput 1 buyer] ++ chg_outs) 0 /\
    (chg_outs = [] \/ exists v, chg_outs = [mkOutput v chg]) /\
    estimate_is_fee_paid_enough T q = FOk true /\
    tx_version A = 1 /\ tx_lock A = 0 /\ tx_outs A = tx_outs T /\
    Forall2 same_prev (tx_ins T) (tx_ins A) /\ Forall2 signed_by (tx_ins T) (tx_ins A) /\
    nth_error (tx_ins A) 1 = Some seller_in.
Proof.
  unfold accept_listing. destruct (validate_listing listed L) eqn:V; cbn [negb]; [|discriminate].
  unfold validate_listing in V.
  destruct (tx_ins L) as [|seller_in [|? ?]] eqn:EI; try discriminate.
  destruct (tx_outs L) as [|seller_out [|? ?]] eqn:EO; try discriminate.
  destruct (length us <? 2)%nat; [discriminate|].
  destruct (move_first_above (out_sats seller_out) [] us) as [us'|] eqn:M; [|discriminate].
  destruct (move_first_above_spec _ _ _ _ M) as (u0 & rest & -> & Hp & _).
  unfold accept_listing_assemble.
  destruct (from_utxos new_tx [u0]) as [t1| |] eqn:F1; cbn [fbind]; try discriminate.
  apply from_utxos_spec in F1 as [-> _].
  cbn [new_tx tx_version tx_ins tx_outs tx_lock map app add_input].
  destruct (from_utxos _ rest) as [t2| |] eqn:F2; cbn [fbind]; try discriminate.
  apply from_utxos_spec in F2 as [-> _].
  cbn [tx_version tx_ins tx_outs tx_lock app add_output].
  destruct (change_then_check _ q chg) as [t3| |] eqn:C; cbn [fbind]; try discriminate.
  apply change_then_check_spec in C as (V3 & I3 & L3 & O3 & E3).
  cbn [tx_version tx_ins tx_outs tx_lock app add_output add_input] in *.
  intros S. apply sign_loop_spec in S as (V4 & O4 & L4 & S4 & G4 & K4).
  change (N.to_nat 1) with 1%nat in K4.
  exists seller_in, seller_out, u0, rest.
  exists (skipn 3 (tx_outs t3)), t3.
  assert (t3 = mkTx 1 (input_of u0 :: seller_in :: map input_of rest) (tx_outs t3) 0) as Et3.
  { destruct t3; cbn in *; subst; reflexivity. }
  assert (tx_outs t3 = [mkOutput (sub64 (u_sats u0) (out_sats seller_out)) dummy; seller_out; mkOutput 1 buyer] ++
                       skipn 3 (tx_outs t3)) as Eo.
  { destruct O3 as [->|(v & ->)]; reflexivity. }
  repeat split; try assumption; try congruence.
  - rewrite Et3 at 1. f_equal. exact Eo.
  - destruct O3 as [->|(v & ->)]; [left; reflexivity|right; exists v; reflexivity].
  - rewrite K4, I3. reflexivity.
Qed.
End Shape.

(** * 4. From the estimate the flows check to the fee the signed transaction pays *)

(** an input after signing: untouched, or a formerly unsigned input carrying a script no longer than
    the 107-byte dummy the estimate assumed *)
Definition short_signed (a b : input) : Prop :=
  b = a \/ (unsigned a = true /\ exists u, lenN u <= lenN dummy_unlocking_script /\ b = with_unlock a u).

Lemma short_signed_len a b : short_signed a b ->
  lenN (input_bytes false b) <= lenN (input_bytes false (fill_one a)) /\ in_sats b = in_sats a.
Proof.
  intros [->|(U & u & Hu & ->)]; unfold fill_one.
  - split; [|reflexivity]. destruct (unsigned a) eqn:U; [|lia].
    rewrite !lenN_input_bytes. cbn [with_unlock in_txid in_unlock]. rewrite (unsigned_len a U).
    pose proof (varint_len_mono 0 (lenN dummy_unlocking_script) ltac:(lia)). lia.
  - rewrite U, !lenN_input_bytes. cbn [with_unlock in_txid in_unlock in_sats]. split; [|reflexivity].
    pose proof (varint_len_mono (lenN u) (lenN dummy_unlocking_script) Hu). lia.
Qed.

Lemma short_signed_ins ins ins' : Forall2 short_signed ins ins' ->
  ins_len ins' <= ins_len (map fill_one ins) /\ map in_sats ins' = map in_sats ins /\ length ins' = length ins.
Proof.
  induction 1 as [|a b r r' H _ (IH1 & IH2 & IH3)]; [cbn; repeat split; lia|].
  cbn [map length]. rewrite !ins_len_cons. destruct (short_signed_len a b H) as [L S].
  repeat split; [lia|congruence|congruence].
Qed.

Lemma total_in_sats a b : map in_sats (tx_ins a) = map in_sats (tx_ins b) -> total_in a = total_in b.
Proof.
  unfold total_in. generalize 0. generalize (tx_ins b). induction (tx_ins a) as [|x r IH]; intros l acc H.
  - destruct l; [reflexivity|discriminate].
  - destruct l as [|y l]; [discriminate|]. cbn [map] in H. injection H as H1 H2.
    cbn [fold_left]. rewrite H1. apply IH. exact H2.
Qed.

Lemma fees_paid_ok sz q sf df : q_std q = Some sf -> q_data q = Some df -> r_bytes sf <> 0 -> r_bytes df <> 0 ->
  exists f, fees_paid sz q = FOk f.
Proof.
  intros Hs Hd H1 H2. unfold fees_paid, get_fee, fee_of. rewrite Hs, Hd. cbn [obind].
  replace (r_bytes sf =? 0) with false by lia. cbn [obind]. replace (r_bytes df =? 0) with false by lia.
  cbn [obind]. eauto.
Qed.

(** no uint64 product of the fee computation on the estimated transaction wraps *)
Definition fee_fits (q : quote) (te : tx) : Prop :=
  forall sf df, q_std q = Some sf -> q_data q = Some df ->
    let sz := size_with_types te in
    sz_std sz * r_sat sf < two64 /\ sz_data sz * r_sat df < two64 /\
    floor_fee (sz_std sz) sf + floor_fee (sz_data sz) df < two64.

(** if the estimate (every unsigned input carrying the 107-byte dummy) pays the quoted fee, so does the
    transaction in which unsigned inputs received scripts no longer than the dummy *)
Theorem signed_fee_enough T A q :
  wf_tx T -> ~ ambiguous T ->
  estimate_is_fee_paid_enough T q = FOk true ->
  tx_outs A = tx_outs T -> Forall2 short_signed (tx_ins T) (tx_ins A) ->
  (forall te, estimated_final_tx T = FOk te -> fee_fits q te) ->
  is_fee_paid_enough A q = FOk true.
Proof.
  intros W Amb E Ho Hs Hfit.
  destruct (obind_ok _ _ _ E) as (te & Ete & Efee).
  specialize (Hfit te Ete).
  pose proof (proj1 (proj1 (estimate_errors T W Amb) te) Ete) as [_ Hte].
  destruct (est_outs T te W Amb Ete) as (Oe & _ & Ie & Oute).
  (* the quote is complete with non-zero denominators *)
  assert (exists f, fees_paid (size_with_types te) q = FOk f) as (f & Ef).
  { unfold is_fee_paid_enough in Efee. destruct (fees_paid (size_with_types te) q); cbn [obind] in Efee; try discriminate. eauto. }
  destruct (fees_paid_ok_inv _ _ _ Ef) as (sf & df & Qs & Qd & Bs & Bd).
  destruct (Hfit sf df Qs Qd) as (F1 & F2 & F3).
  pose proof (fee_enough_iff te q true sf df Qs Qd F1 F2 F3 Efee) as Bte.
  (* sizes: A is no longer than the estimate, with the same data bytes *)
  destruct (short_signed_ins _ _ Hs) as (Li & Si & Ni).
  assert (tx_size A <= tx_size te) as Hsize.
  { rewrite Hte, !tx_size_eq. cbn [set_ins tx_ins tx_outs]. rewrite map_length, Ho, Ni. lia. }
  assert (sz_data (size_with_types A) = sz_data (size_with_types te)) as Hdata.
  { unfold size_with_types. cbn [sz_data]. rewrite Ho, Oe. reflexivity. }
  assert (sz_std (size_with_types A) <= sz_std (size_with_types te)) as Hstd.
  { unfold size_with_types in *. cbn [sz_std sz_data] in *. rewrite Ho, Oe in *. lia. }
  assert (total_in A = total_in te) as Hin.
  { rewrite Ie. apply total_in_sats. exact Si. }
  assert (total_out A = total_out te) as Hout.
  { rewrite Oute. unfold total_out. rewrite Ho. reflexivity. }
  destruct (fees_paid_ok (size_with_types A) q sf df Qs Qd Bs Bd) as (fa & Efa).
  assert (exists b, is_fee_paid_enough A q = FOk b) as (b & Eb).
  { unfold is_fee_paid_enough. rewrite Efa. cbn [obind]. destruct (total_in A <? total_out A); eauto. }
  pose proof (floor_fee_mono _ _ sf Hstd) as M1.
  assert (sz_std (size_with_types A) * r_sat sf < two64) as G1 by nia.
  assert (sz_data (size_with_types A) * r_sat df < two64) as G2 by (rewrite Hdata; exact F2).
  assert (floor_fee (sz_std (size_with_types A)) sf + floor_fee (sz_data (size_with_types A)) df < two64) as G3
    by (rewrite Hdata; lia).
  pose proof (fee_enough_iff A q b sf df Qs Qd G1 G2 G3 Eb) as Ba.
  rewrite Eb. f_equal. rewrite Ba, Hin, Hout, Hdata.
  symmetry in Bte. apply andb_true_iff in Bte as [B1 B2]. rewrite B1. cbn [andb].
  unfold quoted_fee in *. apply N.leb_le. apply N.leb_le in B2. lia.
Qed.

(** * 5. First-in-first-out numbering *)
Lemma sub64_exact a b : b <= a -> a < two64 -> sub64 a b = a - b.
Proof. intros H1 H2. unfold sub64, two64 in *. lia. Qed.

Lemma add64_exact a b : a + b < two64 -> add64 a b = a + b.
Proof. intros H. unfold add64, two64 in *. lia. Qed.

Lemma sum_firstn_S v r k : sum_list (firstn (S k) (v :: r)) = v + sum_list (firstn k r).
Proof. reflexivity. Qed.

Lemma lands_in_0 v r s : lands_in (v :: r) s 0 <-> s < v.
Proof.
  unfold lands_in. rewrite sum_firstn_S. cbn [firstn sum_list fold_right length]. split; [lia|]. intros H. split; lia.
Qed.
Lemma lands_in_S v r s k : lands_in (v :: r) s (S k) <-> v <= s /\ lands_in r (s - v) k.
Proof.
  unfold lands_in. rewrite !sum_firstn_S. cbn [length]. split.
  - intros [H1 H2]. split; [lia|]. split; lia.
  - intros [H0 [H1 H2]]. split; lia.
Qed.

(** the function and the relation agree *)
Theorem output_of_sat_lands : forall outs s k, output_of_sat outs s = Some k <-> lands_in outs s k.
Proof.
  induction outs as [|v r IH]; intros s k; cbn [output_of_sat].
  - split; [discriminate|]. intros [H _]. cbn in H. lia.
  - destruct k as [|k].
    + rewrite lands_in_0. destruct (N.ltb_spec s v) as [Hlt|Hge].
      * split; [intros _; assumption|reflexivity].
      * split; [|lia]. destruct (output_of_sat r (s - v)); discriminate.
    + rewrite lands_in_S. destruct (N.ltb_spec s v) as [Hlt|Hge].
      * split; [discriminate|lia].
      * rewrite <- IH. destruct (output_of_sat r (s - v)) as [k'|]; cbn [option_map].
        -- split; [intros [= ->]; split; [assumption|reflexivity]|intros [_ [= ->]]; reflexivity].
        -- split; [discriminate|intros [_ H]; discriminate].
Qed.

(** the three-output pattern of the standard flows: [first funding - price; price; 1; ...] with the
    ordinal as second input *)
Lemma fifo_standard u0 p tail : p < u0 ->
  output_of_sat (u0 - p :: p :: 1 :: tail) u0 = Some 2%nat.
Proof.
  intros H. cbn [output_of_sat].
  replace (u0 <? u0 - p) with false by lia.
  replace (u0 - (u0 - p)) with p by lia. replace (p <? p) with false by lia.
  replace (p - p) with 0 by lia. reflexivity.
Qed.

(** the pattern of the two-dummy flows: [dummy 0 + dummy 1; 1; ...] with the ordinal as third input *)
Lemma fifo_two_dummies d tail : output_of_sat (d :: 1 :: tail) d = Some 1%nat.
Proof.
  cbn [output_of_sat]. replace (d <? d) with false by lia. replace (d - d) with 0 by lia. reflexivity.
Qed.

(** * 6. The listing flows *)
Section ListingFlows.
Variable signer : tx -> N -> N -> option bytes.

(** the seller's requested output is the output at the seller's input index, unchanged *)
Theorem seller_output_fixed listed L us buyer dummy chg q A :
  accept_listing signer listed L us buyer dummy chg q = Done A ->
  exists seller_in seller_out, tx_ins L = [seller_in] /\ tx_outs L = [seller_out] /\
    nth_error (tx_outs A) 1 = Some seller_out /\ nth_error (tx_ins A) 1 = Some seller_in /\
    tx_version A = 1 /\ tx_lock A = 0 /\ (3 <= length (tx_outs A) <= 4)%nat.
Proof.
  intros H. destruct (accept_listing_shape signer _ _ _ _ _ _ _ _ H)
    as (si & so & u0 & rest & co & T & EI & EO & _ & _ & -> & Hco & _ & V & Lk & O & _ & _ & K).
  exists si, so. cbn [tx_outs] in O. rewrite O. repeat split; try assumption.
  - destruct Hco as [->|(v & ->)]; cbn; lia.
  - destruct Hco as [->|(v & ->)]; cbn; lia.
Qed.

(** the seller's signature (made over the listing with SINGLE|ANYONECANPAY|FORKID at input 0) is a
    signature over the accepted transaction at input 1: the library computes the same preimage and
    the same signature hash, and that preimage is the specification's digest of the accepted
    transaction *)
Theorem seller_sig_survives listed L us buyer dummy chg q A seller_in sc :
  accept_listing signer listed L us buyer dummy chg q = Done A ->
  tx_version L = 1 -> tx_lock L = 0 ->
  tx_ins L = [seller_in] -> in_txid seller_in <> [] -> in_script seller_in = Some sc ->
  fst (calc_input_preimage L 0 195) = fst (calc_input_preimage A 1 195) /\
  fst (calc_input_signature_hash L 0 195) = fst (calc_input_signature_hash A 1 195) /\
  exists p, fst (calc_input_preimage A 1 195) = SOk p /\
            forkid_preimage (wire_tx A) 1 sc (in_sats seller_in) 195 = Some p.
Proof.
  intros H VL LL EI Hne Hsc.
  destruct (seller_output_fixed _ _ _ _ _ _ _ _ H) as (si & so & EI' & EO & O1 & I1 & VA & LA & Hlen).
  rewrite EI in EI'. injection EI' as <-.
  destruct (lib_single_acp_reindex L A 0 1 195 seller_in seller_in sc c3_is_single_acp) as (P1 & P2 & P3);
    try assumption; try congruence.
  - reflexivity.
  - reflexivity.
  - rewrite EO. cbn. reflexivity.
  - unfold two31. lia.
  - rewrite EI. reflexivity.
  - apply same_prev_refl.
  - rewrite EO. cbn [N.to_nat nth_error]. change (Pos.to_nat 1) with 1%nat. congruence.
  - split; [exact P1|]. split; [apply P2; reflexivity|exact P3].
Qed.

(** first-in-first-out: the first satoshi of the ordinal input (input 1) lands in output 2, which pays
    1 satoshi to the buyer's script *)
Theorem ordinal_fifo_listing listed L us buyer dummy chg q A :
  accept_listing signer listed L us buyer dummy chg q = Done A ->
  Forall (fun i => in_sats i < two64) (tx_ins A) ->
  output_of_sat (map out_sats (tx_outs A)) (first_sat_of_input (map in_sats (tx_ins A)) 1) = Some 2%nat /\
  nth_error (tx_outs A) 2 = Some (mkOutput 1 buyer).
Proof.
  intros H Hwf. destruct (accept_listing_shape signer _ _ _ _ _ _ _ _ H)
    as (si & so & u0 & rest & co & T & EI & EO & _ & Hp & -> & Hco & _ & V & Lk & O & S & _ & K).
  cbn [tx_outs tx_ins] in *. rewrite O. split; [|reflexivity].
  destruct (tx_ins A) as [|b0 rb]; [inversion S|].
  inversion S as [|a0 b0' ra rb' S0 Sr]; subst. destruct S0 as (_ & _ & _ & Es & _).
  cbn [input_of in_sats] in Es. inversion Hwf as [|? ? Hb0 _]; subst.
  cbn [map firstn first_sat_of_input sum_list fold_right app out_sats].
  rewrite <- Es. rewrite sub64_exact by lia. rewrite N.add_0_r.
  apply fifo_standard. exact Hp.
Qed.

(** fee: the flow returns a transaction only after EstimateIsFeePaidEnough said yes to exactly the
    transaction it then signs; hence, when the signer's scripts are no longer than the dummy, the
    signed transaction itself pays the quoted fee *)
Theorem flow_fee_enough_listing listed L us buyer dummy chg q A :
  accept_listing signer listed L us buyer dummy chg q = Done A ->
  exists T, estimate_is_fee_paid_enough T q = FOk true /\
    tx_version A = tx_version T /\ tx_outs A = tx_outs T /\ tx_lock A = tx_lock T /\
    Forall2 same_prev (tx_ins T) (tx_ins A) /\ Forall2 (signed_by signer) (tx_ins T) (tx_ins A) /\
    nth_error (tx_ins A) 1 = nth_error (tx_ins T) 1 /\
    (forall k, k <> 1%nat -> forall i, nth_error (tx_ins T) k = Some i -> unsigned i = true).
Proof.
  intros H. destruct (accept_listing_shape signer _ _ _ _ _ _ _ _ H)
    as (si & so & u0 & rest & co & T & EI & EO & _ & Hp & ET & Hco & E & V & Lk & O & S & G & K).
  exists T. subst T. cbn [tx_version tx_outs tx_lock tx_ins] in *. repeat split; try assumption.
  intros k Hk i Hi. destruct k as [|[|k]]; [injection Hi as <-; reflexivity|lia|].
  cbn [nth_error] in Hi. apply nth_error_In in Hi. apply in_map_iff in Hi as (u & <- & _). reflexivity.
Qed.
End ListingFlows.

(** * 7. From "signed by the signer" to "short-signed" *)
Definition signer_short (signer : tx -> N -> N -> option bytes) : Prop :=
  forall t j f u, signer t j f = Some u -> lenN u <= lenN dummy_unlocking_script.

Lemma signed_to_short signer : signer_short signer -> forall l l', Forall2 (signed_by signer) l l' ->
  (forall k i i', nth_error l k = Some i -> nth_error l' k = Some i' -> unsigned i = true \/ i' = i) ->
  Forall2 short_signed l l'.
Proof.
  intros Hs. induction 1 as [|a b r r' H _ IH]; intros Hk; constructor.
  - destruct (Hk 0%nat a b eq_refl eq_refl) as [U| ->]; [|left; reflexivity].
    destruct H as [->|(t & j & f & u & Su & ->)]; [left; reflexivity|].
    right. split; [assumption|]. exists u. split; [eapply Hs; eassumption|reflexivity].
  - apply IH. intros k i i' H1 H2. apply (Hk (S k) i i'); assumption.
Qed.

(** the bridge used for every flow: the transaction [T] that passed EstimateIsFeePaidEnough and the
    returned transaction [A] differ only in unlocking scripts the signer put on inputs that were
    unsigned *)
Theorem estimate_to_final_gen signer T A q :
  estimate_is_fee_paid_enough T q = FOk true -> tx_outs A = tx_outs T ->
  Forall2 (signed_by signer) (tx_ins T) (tx_ins A) ->
  (forall k i i', nth_error (tx_ins T) k = Some i -> nth_error (tx_ins A) k = Some i' -> unsigned i = true \/ i' = i) ->
  signer_short signer -> wf_tx T -> ~ ambiguous T ->
  (forall te, estimated_final_tx T = FOk te -> fee_fits q te) ->
  is_fee_paid_enough A q = FOk true.
Proof.
  intros E O G K Hs W Amb Fit. apply (signed_fee_enough T A q W Amb E O); [|exact Fit].
  apply (signed_to_short signer Hs _ _ G). exact K.
Qed.

(** ... in the listing flows: every input but the seller's (at [skip], untouched) was unsigned *)
Theorem estimate_to_final signer T A q skip :
  estimate_is_fee_paid_enough T q = FOk true -> tx_outs A = tx_outs T ->
  Forall2 (signed_by signer) (tx_ins T) (tx_ins A) ->
  nth_error (tx_ins A) skip = nth_error (tx_ins T) skip ->
  (forall k, k <> skip -> forall i, nth_error (tx_ins T) k = Some i -> unsigned i = true) ->
  signer_short signer -> wf_tx T -> ~ ambiguous T ->
  (forall te, estimated_final_tx T = FOk te -> fee_fits q te) ->
  is_fee_paid_enough A q = FOk true.
Proof.
  intros E O G K U Hs W Amb Fit. apply (estimate_to_final_gen signer T A q E O G); try assumption.
  intros k i i' H1 H2. destruct (Nat.eq_dec k skip) as [->|Hne].
  - right. congruence.
  - left. eapply U; eassumption.
Qed.

(** * 8. The two-dummy listing flow *)
Section Listing2D.
Variable signer : tx -> N -> N -> option bytes.

Theorem accept_listing_2d_shape listed L us buyer dummy chg q A :
  accept_listing_2d signer listed L us buyer dummy chg q = Done A ->
  exists seller_in seller_out u0 u1 rest chg_outs T,
    tx_ins L = [seller_in] /\ tx_outs L = [seller_out] /\ us = u0 :: u1 :: rest /\
    T = mkTx 1 (input_of u0 :: input_of u1 :: seller_in :: map input_of rest)
          ([mkOutput (add64 (u_sats u0) (u_sats u1)) dummy; mkOutput 1 buyer; seller_out] ++ chg_outs) 0 /\
    (chg_outs = [] \/ exists v, chg_outs = [mkOutput v chg]) /\
    estimate_is_fee_paid_enough T q = FOk true /\
    tx_version A = 1 /\ tx_lock A = 0 /\ tx_outs A = tx_outs T /\
    Forall2 same_prev (tx_ins T) (tx_ins A) /\ Forall2 (signed_by signer) (tx_ins T) (tx_ins A) /\
    nth_error (tx_ins A) 2 = Some seller_in.
Proof.
  unfold accept_listing_2d. destruct (validate_listing listed L) eqn:V; cbn [negb]; [|discriminate].
  unfold validate_listing in V.
  destruct (tx_ins L) as [|seller_in [|? ?]] eqn:EI; try discriminate.
  destruct (tx_outs L) as [|seller_out [|? ?]] eqn:EO; try discriminate.
  destruct (length us <? 3)%nat; [discriminate|].
  unfold accept_listing_2d_assemble. destruct us as [|u0 [|u1 rest]]; try discriminate.
  destruct (from_utxos new_tx [u0; u1]) as [t1| |] eqn:F1; cbn [fbind]; try discriminate.
  apply from_utxos_spec in F1 as [-> _].
  cbn [new_tx tx_version tx_ins tx_outs tx_lock map app add_input].
  destruct (from_utxos _ rest) as [t2| |] eqn:F2; cbn [fbind]; try discriminate.
  apply from_utxos_spec in F2 as [-> _].
  cbn [tx_version tx_ins tx_outs tx_lock app add_output].
  destruct (change_then_check _ q chg) as [t3| |] eqn:C; cbn [fbind]; try discriminate.
  apply change_then_check_spec in C as (V3 & I3 & L3 & O3 & E3).
  cbn [tx_version tx_ins tx_outs tx_lock app add_output add_input] in *.
  intros S. apply sign_loop_spec in S as (V4 & O4 & L4 & S4 & G4 & K4).
  change (N.to_nat 2) with 2%nat in K4.
  exists seller_in, seller_out, u0, u1, rest.
  exists (skipn 3 (tx_outs t3)), t3.
  assert (t3 = mkTx 1 (input_of u0 :: input_of u1 :: seller_in :: map input_of rest) (tx_outs t3) 0) as Et3.
  { destruct t3; cbn in *; subst; reflexivity. }
  assert (tx_outs t3 = [mkOutput (add64 (u_sats u0) (u_sats u1)) dummy; mkOutput 1 buyer; seller_out] ++
                       skipn 3 (tx_outs t3)) as Eo.
  { destruct O3 as [->|(v & ->)]; reflexivity. }
  repeat split; try assumption; try congruence.
  - rewrite Et3 at 1. f_equal. exact Eo.
  - destruct O3 as [->|(v & ->)]; [left; reflexivity|right; exists v; reflexivity].
  - rewrite K4, I3. reflexivity.
Qed.

Theorem seller_output_fixed_2d listed L us buyer dummy chg q A :
  accept_listing_2d signer listed L us buyer dummy chg q = Done A ->
  exists seller_in seller_out, tx_ins L = [seller_in] /\ tx_outs L = [seller_out] /\
    nth_error (tx_outs A) 2 = Some seller_out /\ nth_error (tx_ins A) 2 = Some seller_in /\
    tx_version A = 1 /\ tx_lock A = 0 /\ (3 <= length (tx_outs A) <= 4)%nat.
Proof.
  intros H. destruct (accept_listing_2d_shape _ _ _ _ _ _ _ _ H)
    as (si & so & u0 & u1 & rest & co & T & EI & EO & _ & -> & Hco & _ & V & Lk & O & _ & _ & K).
  exists si, so. cbn [tx_outs] in O. rewrite O. repeat split; try assumption.
  - destruct Hco as [->|(v & ->)]; cbn; lia.
  - destruct Hco as [->|(v & ->)]; cbn; lia.
Qed.

Theorem seller_sig_survives_2d listed L us buyer dummy chg q A seller_in sc :
  accept_listing_2d signer listed L us buyer dummy chg q = Done A ->
  tx_version L = 1 -> tx_lock L = 0 ->
  tx_ins L = [seller_in] -> in_txid seller_in <> [] -> in_script seller_in = Some sc ->
  fst (calc_input_preimage L 0 195) = fst (calc_input_preimage A 2 195) /\
  fst (calc_input_signature_hash L 0 195) = fst (calc_input_signature_hash A 2 195) /\
  exists p, fst (calc_input_preimage A 2 195) = SOk p /\
            forkid_preimage (wire_tx A) 2 sc (in_sats seller_in) 195 = Some p.
Proof.
  intros H VL LL EI Hne Hsc.
  destruct (seller_output_fixed_2d _ _ _ _ _ _ _ _ H) as (si & so & EI' & EO & O1 & I1 & VA & LA & Hlen).
  rewrite EI in EI'. injection EI' as <-.
  destruct (lib_single_acp_reindex L A 0 2 195 seller_in seller_in sc c3_is_single_acp) as (P1 & P2 & P3);
    try assumption; try congruence.
  - reflexivity.
  - reflexivity.
  - rewrite EO. cbn. reflexivity.
  - unfold two31. lia.
  - rewrite EI. reflexivity.
  - apply same_prev_refl.
  - rewrite EO. cbn [N.to_nat nth_error]. change (Pos.to_nat 2) with 2%nat. congruence.
  - split; [exact P1|]. split; [apply P2; reflexivity|exact P3].
Qed.

(** first-in-first-out: the ordinal input is input 2; when the two dummy values do not overflow a
    uint64 its first satoshi lands in output 1, which pays 1 satoshi to the buyer's script *)
Theorem ordinal_fifo_listing_2d listed L us buyer dummy chg q A :
  accept_listing_2d signer listed L us buyer dummy chg q = Done A ->
  first_sat_of_input (map in_sats (tx_ins A)) 2 < two64 ->
  output_of_sat (map out_sats (tx_outs A)) (first_sat_of_input (map in_sats (tx_ins A)) 2) = Some 1%nat /\
  nth_error (tx_outs A) 1 = Some (mkOutput 1 buyer).
Proof.
  intros H Hwf. destruct (accept_listing_2d_shape _ _ _ _ _ _ _ _ H)
    as (si & so & u0 & u1 & rest & co & T & EI & EO & _ & -> & Hco & _ & V & Lk & O & S & _ & K).
  cbn [tx_outs tx_ins] in *. rewrite O. split; [|reflexivity].
  destruct (tx_ins A) as [|b0 [|b1 rb]]; [inversion S|inversion S as [|? ? ? ? ? S']; inversion S'|].
  inversion S as [|a0 b0' ra rb' S0 Sr]; subst. inversion Sr as [|a1 b1' ra1 rb1 S1 Sr1]; subst.
  destruct S0 as (_ & _ & _ & Es0 & _). destruct S1 as (_ & _ & _ & Es1 & _).
  cbn [input_of in_sats] in Es0, Es1.
  cbn [map firstn first_sat_of_input sum_list fold_right app out_sats] in *.
  rewrite <- Es0, <- Es1 in *. rewrite add64_exact by lia. rewrite N.add_0_r.
  apply fifo_two_dummies.
Qed.

Theorem flow_fee_enough_listing_2d listed L us buyer dummy chg q A :
  accept_listing_2d signer listed L us buyer dummy chg q = Done A ->
  exists T, estimate_is_fee_paid_enough T q = FOk true /\
    tx_version A = tx_version T /\ tx_outs A = tx_outs T /\ tx_lock A = tx_lock T /\
    Forall2 same_prev (tx_ins T) (tx_ins A) /\ Forall2 (signed_by signer) (tx_ins T) (tx_ins A) /\
    nth_error (tx_ins A) 2 = nth_error (tx_ins T) 2 /\
    (forall k, k <> 2%nat -> forall i, nth_error (tx_ins T) k = Some i -> unsigned i = true).
Proof.
  intros H. destruct (accept_listing_2d_shape _ _ _ _ _ _ _ _ H)
    as (si & so & u0 & u1 & rest & co & T & EI & EO & _ & ET & Hco & E & V & Lk & O & S & G & K).
  exists T. subst T. cbn [tx_version tx_outs tx_lock tx_ins] in *. repeat split; try assumption.
  intros k Hk i Hi. destruct k as [|[|[|k]]]; [injection Hi as <-; reflexivity|injection Hi as <-; reflexivity|lia|].
  cbn [nth_error] in Hi. apply nth_error_In in Hi. apply in_map_iff in Hi as (u & <- & _). reflexivity.
Qed.
End Listing2D.

(** * 9. The bid flows *)
Lemma set_out_at_comp : forall l k f g, set_out_at (set_out_at l k f) k g = set_out_at l k (fun o => g (f o)).
Proof. induction l as [|o r IH]; intros [|k] f g; cbn [set_out_at]; try reflexivity. rewrite IH. reflexivity. Qed.

Lemma set_out_at_wf : forall l k f, Forall wf_output l -> (forall o, wf_output o -> wf_output (f o)) ->
  Forall wf_output (set_out_at l k f).
Proof.
  induction l as [|o r IH]; intros [|k] f H Hf; cbn [set_out_at]; try assumption;
    inversion H; subst; constructor; auto.
Qed.
Lemma set_out_at_length : forall l k f, length (set_out_at l k f) = length l.
Proof. induction l as [|o r IH]; intros [|k] f; cbn [set_out_at length]; auto. Qed.
Lemma set_in_at_length : forall l k f, length (set_in_at l k f) = length l.
Proof. induction l as [|o r IH]; intros [|k] f; cbn [set_in_at length]; auto. Qed.

Lemma set_in_at_nth_other : forall l k j f, j <> k -> nth_error (set_in_at l k f) j = nth_error l j.
Proof.
  induction l as [|x r IH]; intros [|k] [|j] f H; cbn [set_in_at nth_error]; try reflexivity; try lia.
  apply IH. lia.
Qed.
Lemma set_in_at_nth : forall l k f i, nth_error l k = Some i -> nth_error (set_in_at l k f) k = Some (f i).
Proof.
  induction l as [|x r IH]; intros [|k] f i H; cbn [set_in_at nth_error] in *; try discriminate.
  - injection H as <-. reflexivity.
  - apply IH. exact H.
Qed.
Lemma set_out_at_nth_other : forall l k j f, j <> k -> nth_error (set_out_at l k f) j = nth_error l j.
Proof.
  induction l as [|x r IH]; intros [|k] [|j] f H; cbn [set_out_at nth_error]; try reflexivity; try lia.
  apply IH. lia.
Qed.
Lemma set_out_at_nth : forall l k f o, nth_error l k = Some o -> nth_error (set_out_at l k f) k = Some (f o).
Proof.
  induction l as [|x r IH]; intros [|k] f o H; cbn [set_out_at nth_error] in *; try discriminate.
  - injection H as <-. reflexivity.
  - apply IH. exact H.
Qed.

(** the values of the previous outputs, position by position *)
Lemma same_prev_sats : forall a b, Forall2 same_prev a b -> map in_sats b = map in_sats a.
Proof. induction 1 as [|x y r r' (_ & _ & _ & E & _) _ IH]; [reflexivity|]. cbn [map]. congruence. Qed.

Section BidFlows.
Variable signer : tx -> N -> N -> option bytes.

Lemma change_new_shape t q s r t' : change_new t q s = (r, t') ->
  tx_version t' = tx_version t /\ tx_ins t' = tx_ins t /\ tx_lock t' = tx_lock t /\
  (tx_outs t' = tx_outs t \/ exists v, tx_outs t' = tx_outs t ++ [mkOutput v s]).
Proof.
  intros C. pose proof (change_preserves_outputs t q s r t' C) as (V & I & L & O).
  repeat split; try assumption. destruct O as [[_ ->]|[_ (v & ->)]]; [left; reflexivity|right; eauto].
Qed.

(** MakeBidToBuy1SatOrdinal: inputs [funding 0, placeholder for the ordinal, funding 1..],
    outputs [dummy, payment (placeholder script), buyer's 1 sat, change?] *)
Theorem make_bid_shape bid otx ov us buyer dummy chg q dprev dpay P :
  make_bid signer bid otx ov us buyer dummy chg q dprev dpay = Done P ->
  exists u0 rest co T,
    bid < u_sats u0 /\
    T = mkTx 1 (input_of u0 :: placeholder_input otx ov dprev :: map input_of rest)
          ([mkOutput (sub64 (u_sats u0) bid) dummy; mkOutput bid dpay; mkOutput 1 buyer] ++ co) 0 /\
    (co = [] \/ exists v, co = [mkOutput v chg]) /\
    tx_version P = 1 /\ tx_lock P = 0 /\ tx_outs P = tx_outs T /\
    Forall2 same_prev (tx_ins T) (tx_ins P) /\ Forall2 (signed_by signer) (tx_ins T) (tx_ins P) /\
    nth_error (tx_ins P) 1 = Some (placeholder_input otx ov dprev).
Proof.
  unfold make_bid. destruct (length us <? 2)%nat; [discriminate|].
  destruct (move_first_above bid [] us) as [us'|] eqn:M; [|discriminate].
  destruct (move_first_above_spec _ _ _ _ M) as (u0 & rest & -> & Hp & _).
  destruct (from_utxos new_tx [u0]) as [t1| |] eqn:F1; cbn [fbind]; try discriminate.
  apply from_utxos_spec in F1 as [-> _].
  destruct (Nat.eqb (length otx) 32); cbn [negb]; [|discriminate].
  cbn [new_tx tx_version tx_ins tx_outs tx_lock map app add_input].
  destruct (from_utxos _ rest) as [t2| |] eqn:F2; cbn [fbind]; try discriminate.
  apply from_utxos_spec in F2 as [-> _].
  cbn [tx_version tx_ins tx_outs tx_lock app add_output].
  destruct (change_new _ q chg) as [r t3] eqn:C.
  apply change_new_shape in C as (V3 & I3 & L3 & O3).
  cbn [tx_version tx_ins tx_outs tx_lock app add_output add_input] in *.
  destruct r as [has|e| |]; try discriminate.
  intros S. apply sign_loop_spec in S as (V4 & O4 & L4 & S4 & G4 & K4).
  change (N.to_nat 1) with 1%nat in K4.
  exists u0, rest, (skipn 3 (tx_outs t3)), t3.
  assert (t3 = mkTx 1 (input_of u0 :: placeholder_input otx ov dprev :: map input_of rest) (tx_outs t3) 0) as Et3.
  { destruct t3; cbn in *; subst; reflexivity. }
  assert (tx_outs t3 = [mkOutput (sub64 (u_sats u0) bid) dummy; mkOutput bid dpay; mkOutput 1 buyer] ++
                       skipn 3 (tx_outs t3)) as Eo.
  { destruct O3 as [->|(v & ->)]; reflexivity. }
  repeat split; try assumption; try congruence.
  - rewrite Et3 at 1. f_equal. exact Eo.
  - destruct O3 as [->|(v & ->)]; [left; reflexivity|right; exists v; reflexivity].
  - rewrite K4, I3. reflexivity.
Qed.

(** the transaction AcceptBidToBuy1SatOrdinal(2Dummies) checks and signs, as a function of the bid [P]:
    the seller's script and the bid amount on output [k], the ordinal's previous output on input [k] *)
Definition accepted_unsigned (k : nat) (P : tx) (ou_script : bytes) (ou_sats bid : N) (ss : bytes) : tx :=
  mkTx (tx_version P) (set_in_at (tx_ins P) k (fun i => with_prev i ou_script ou_sats))
       (set_out_at (tx_outs P) k (fun _ => mkOutput bid ss)) (tx_lock P).

Lemma wf_set_out P k bid : wf_tx P -> bid < two64 ->
  wf_tx (set_outs P (set_out_at (tx_outs P) k (fun o => mkOutput bid (out_script o)))).
Proof.
  intros (V & L & I & O & NI & NO) Hb. unfold wf_tx, set_outs. cbn [tx_version tx_lock tx_ins tx_outs].
  rewrite set_out_at_length. repeat split; try assumption.
  apply set_out_at_wf; [assumption|]. intros o [_ Ho]. split; [exact Hb|exact Ho].
Qed.

Theorem accept_bid_shape ou bid eq P ss A :
  accept_bid signer ou bid eq P ss = Done A -> wf_tx P -> bid < two64 ->
  forall T, T = accepted_unsigned 1 P (u_script ou) (u_sats ou) bid ss ->
  estimate_is_fee_paid_enough T eq = FOk true /\
  tx_version A = tx_version T /\ tx_outs A = tx_outs T /\ tx_lock A = tx_lock T /\
  Forall2 same_prev (tx_ins T) (tx_ins A) /\ Forall2 (signed_by signer) (tx_ins T) (tx_ins A) /\
  (forall j, j <> 1%nat -> nth_error (tx_ins A) j = nth_error (tx_ins T) j) /\
  (3 <= length (tx_ins P))%nat /\ (3 <= length (tx_outs P))%nat.
Proof.
  unfold accept_bid, validate_bid. intros H W Hb T ->.
  destruct (length (tx_ins P) <? 3)%nat eqn:E1; [discriminate|].
  destruct (length (tx_outs P) <? 3)%nat eqn:E2; [discriminate|].
  destruct (nth_error (tx_ins P) 1) as [oi|] eqn:EI; [|discriminate].
  destruct (negb (bytes_eqb (in_txid oi) (u_txid ou))); [discriminate|].
  destruct (negb (in_vout oi =? u_vout ou)); [discriminate|].
  set (P' := set_outs P (set_out_at (tx_outs P) 1 (fun o => mkOutput bid (out_script o)))) in *.
  destruct (is_fee_paid_enough P' eq) as [[|]| | |]; try discriminate. cbn [negb] in H.
  assert (wf_tx P') as W' by (apply wf_set_out; assumption).
  assert (~ ambiguous P') as A' by (apply (wf_tx_not_ambiguous P' oi 1); exact EI).
  rewrite (clone_eq P' W' A') in H.
  destruct (is_fee_paid_enough _ eq) as [[|]| | |] eqn:F2; try discriminate.
  destruct (estimate_check _ eq) as [t1| |] eqn:EC; cbn [fbind] in H; try discriminate.
  apply estimate_check_spec in EC as [-> EC].
  apply fill_input_spec in H as (V1 & O1 & L1 & S1 & G1 & K1).
  subst P'. unfold set_outs, set_ins in *. cbn [tx_version tx_ins tx_outs tx_lock] in *.
  rewrite set_out_at_comp in *. cbn [out_sats] in *.
  unfold accepted_unsigned. cbn [tx_version tx_ins tx_outs tx_lock].
  repeat split; try assumption.
  - apply Nat.ltb_ge in E1. exact E1.
  - apply Nat.ltb_ge in E2. exact E2.
Qed.

Lemma restore_prevs_strip g : forall l i skip, (i <= skip)%nat ->
  restore_prevs (set_in_at (map strip_input l) (skip - i) g) l i skip =
  Some (set_in_at l (skip - i) (fun x => g (strip_input x))).
Proof.
  assert (forall l i skip, (skip < i)%nat -> restore_prevs (map strip_input l) l i skip = Some l) as Hafter.
  { induction l as [|x r IH]; intros i skip H; cbn [map restore_prevs]; [reflexivity|].
    rewrite IH by lia. destruct (Nat.eqb_spec i skip); [lia|]. destruct x; reflexivity. }
  induction l as [|x r IH]; intros i skip H; cbn [map set_in_at restore_prevs].
  - destruct (skip - i)%nat; reflexivity.
  - destruct (skip - i)%nat as [|d] eqn:D; cbn [set_in_at restore_prevs].
    + assert (i = skip) as -> by lia. rewrite Hafter by lia. rewrite Nat.eqb_refl. reflexivity.
    + replace d with (skip - S i)%nat by lia. rewrite IH by lia.
      destruct (Nat.eqb_spec i skip); [lia|]. destruct x; reflexivity.
Qed.

Lemma strip_with_prev x s v : with_prev (strip_input x) s v = with_prev x s v.
Proof. destruct x; reflexivity. Qed.

Theorem make_bid_2d_shape bid otx ov us buyer dummy chg q dprev dpay P :
  make_bid_2d signer bid otx ov us buyer dummy chg q dprev dpay = Done P ->
  exists u0 u1 rest co T,
    us = u0 :: u1 :: rest /\
    T = mkTx 1 (input_of u0 :: input_of u1 :: placeholder_input otx ov dprev :: map input_of rest)
          ([mkOutput (add64 (u_sats u0) (u_sats u1)) dummy; mkOutput 1 buyer; mkOutput bid dpay] ++ co) 0 /\
    (co = [] \/ exists v, co = [mkOutput v chg]) /\
    tx_version P = 1 /\ tx_lock P = 0 /\ tx_outs P = tx_outs T /\
    Forall2 same_prev (tx_ins T) (tx_ins P) /\ Forall2 (signed_by signer) (tx_ins T) (tx_ins P) /\
    nth_error (tx_ins P) 2 = Some (placeholder_input otx ov dprev).
Proof.
  unfold make_bid_2d. destruct (length us <? 3)%nat; [discriminate|].
  destruct us as [|u0 [|u1 rest]]; try discriminate.
  destruct (from_utxos new_tx [u0; u1]) as [t1| |] eqn:F1; cbn [fbind]; try discriminate.
  apply from_utxos_spec in F1 as [-> _].
  destruct (Nat.eqb (length otx) 32); cbn [negb]; [|discriminate].
  cbn [new_tx tx_version tx_ins tx_outs tx_lock map app add_input].
  destruct (from_utxos _ rest) as [t2| |] eqn:F2; cbn [fbind]; try discriminate.
  apply from_utxos_spec in F2 as [-> _].
  cbn [tx_version tx_ins tx_outs tx_lock app add_output].
  destruct (change_new _ q chg) as [r t3] eqn:C.
  apply change_new_shape in C as (V3 & I3 & L3 & O3).
  cbn [tx_version tx_ins tx_outs tx_lock app add_output add_input] in *.
  destruct r as [has|e| |]; try discriminate.
  intros S. apply sign_loop_spec in S as (V4 & O4 & L4 & S4 & G4 & K4).
  change (N.to_nat 2) with 2%nat in K4.
  exists u0, u1, rest, (skipn 3 (tx_outs t3)), t3.
  assert (t3 = mkTx 1 (input_of u0 :: input_of u1 :: placeholder_input otx ov dprev :: map input_of rest) (tx_outs t3) 0) as Et3.
  { destruct t3; cbn in *; subst; reflexivity. }
  assert (tx_outs t3 = [mkOutput (add64 (u_sats u0) (u_sats u1)) dummy; mkOutput 1 buyer; mkOutput bid dpay] ++
                       skipn 3 (tx_outs t3)) as Eo.
  { destruct O3 as [->|(v & ->)]; reflexivity. }
  repeat split; try assumption; try congruence.
  - rewrite Et3 at 1. f_equal. exact Eo.
  - destruct O3 as [->|(v & ->)]; [left; reflexivity|right; exists v; reflexivity].
  - rewrite K4, I3. reflexivity.
Qed.

Theorem accept_bid_2d_shape prevs bid eq P ss A :
  accept_bid_2d signer prevs bid eq P ss = Done A -> wf_tx P -> bid < two64 ->
  exists ou, nth_error prevs 2 = Some ou /\
  forall T, T = accepted_unsigned 2 P (u_script ou) (u_sats ou) bid ss ->
  estimate_is_fee_paid_enough T eq = FOk true /\
  tx_version A = tx_version T /\ tx_outs A = tx_outs T /\ tx_lock A = tx_lock T /\
  Forall2 same_prev (tx_ins T) (tx_ins A) /\ Forall2 (signed_by signer) (tx_ins T) (tx_ins A) /\
  (forall j, j <> 2%nat -> nth_error (tx_ins A) j = nth_error (tx_ins T) j) /\
  (4 <= length (tx_ins P))%nat /\ (4 <= length (tx_outs P))%nat.
Proof.
  unfold accept_bid_2d, validate_bid_2d. intros H W Hb.
  destruct (length (tx_ins P) <? 4)%nat eqn:E1; [discriminate|].
  destruct (length (tx_outs P) <? 4)%nat eqn:E2; [discriminate|].
  destruct (negb (Nat.eqb (length prevs) (length (tx_ins P)))); [discriminate|].
  destruct (negb (prevs_match prevs (tx_ins P))); [discriminate|].
  destruct prevs as [|p0 [|p1 prs]]; try discriminate.
  destruct (tx_outs P) as [|o0 outs'] eqn:EO; [discriminate|].
  destruct (negb (add64 (u_sats p0) (u_sats p1) =? out_sats o0)); [discriminate|].
  rewrite <- EO in *.
  set (P' := set_outs P (set_out_at (tx_outs P) 2 (fun o => mkOutput bid (out_script o)))) in *.
  destruct (is_fee_paid_enough P' eq) as [[|]| | |]; try discriminate. cbn [negb] in H.
  destruct (negb (is_p2pkh ss)); [discriminate|].
  assert (wf_tx P') as W' by (apply wf_set_out; assumption).
  apply Nat.ltb_ge in E1. apply Nat.ltb_ge in E2.
  destruct (nth_error (tx_ins P) 0) as [i0|] eqn:EI0; [|apply nth_error_None in EI0; lia].
  assert (~ ambiguous P') as A' by (apply (wf_tx_not_ambiguous P' i0 0); exact EI0).
  rewrite (from_bytes_roundtrip_std P' W' A') in H.
  destruct (nth_error (p0 :: p1 :: prs) 2) as [ou|] eqn:EP; [|discriminate].
  exists ou. split; [reflexivity|]. intros T ->.
  cbn [p_tx strip_tx tx_version tx_ins tx_outs tx_lock set_outs set_ins] in H.
  subst P'. cbn [set_outs tx_ins tx_outs tx_version tx_lock] in H.
  pose proof (restore_prevs_strip (fun i => with_prev i (u_script ou) (u_sats ou)) (tx_ins P) 0 2 ltac:(lia)) as R.
  change (2 - 0)%nat with 2%nat in R. rewrite R in H. clear R.
  destruct (estimate_check _ eq) as [t1| |] eqn:EC; cbn [fbind] in H; try discriminate.
  apply estimate_check_spec in EC as [-> EC].
  apply fill_input_spec in H as (V1 & O1 & L1 & S1 & G1 & K1).
  unfold set_ins in *. cbn [tx_version tx_ins tx_outs tx_lock] in *.
  rewrite set_out_at_comp in *. cbn [out_sats] in *.
  assert (forall l, set_in_at l 2 (fun x => with_prev (strip_input x) (u_script ou) (u_sats ou)) =
                    set_in_at l 2 (fun i => with_prev i (u_script ou) (u_sats ou))) as Es.
  { intros l. destruct l as [|a [|b [|c l]]]; cbn [set_in_at]; try reflexivity. }
  rewrite Es in *.
  unfold accepted_unsigned. cbn [tx_version tx_ins tx_outs tx_lock].
  repeat split; try assumption.
Qed.
End BidFlows.

(** ** bid then accept: routing and fee of the completed transaction *)
Section BidComposed.
Variables bidder seller : tx -> N -> N -> option bytes.

Lemma hd_sats_same a b x y ra rb : a = x :: ra -> b = y :: rb -> Forall2 same_prev a b -> in_sats y = in_sats x.
Proof. intros -> -> H. inversion H as [|? ? ? ? (_ & _ & _ & E & _)]; subst. congruence. Qed.

(** standard variant: the ordinal (input 1) goes to output 2 = 1 satoshi to the buyer's script; output 1
    pays the bid to the seller's script *)
Theorem ordinal_fifo_bid bid otx ov us buyer dummy chg q dprev dpay P ou eq ss A :
  make_bid bidder bid otx ov us buyer dummy chg q dprev dpay = Done P ->
  accept_bid seller ou bid eq P ss = Done A -> wf_tx P -> bid < two64 ->
  Forall (fun i => in_sats i < two64) (tx_ins A) ->
  output_of_sat (map out_sats (tx_outs A)) (first_sat_of_input (map in_sats (tx_ins A)) 1) = Some 2%nat /\
  nth_error (tx_outs A) 2 = Some (mkOutput 1 buyer) /\ nth_error (tx_outs A) 1 = Some (mkOutput bid ss).
Proof.
  intros HM HA W Hb Hwf.
  destruct (make_bid_shape bidder _ _ _ _ _ _ _ _ _ _ _ HM)
    as (u0 & rest & co & T & Hp & -> & Hco & VP & LP & OP & SP & _ & KP).
  destruct (accept_bid_shape seller _ _ _ _ _ _ HA W Hb _ eq_refl) as (_ & VA & OA & LA & SA & _ & KA & _ & _).
  cbn [tx_ins tx_outs accepted_unsigned] in *. rewrite OA, OP. cbn [app set_out_at]. split; [|split; reflexivity].
  destruct (tx_ins P) as [|p0 rp] eqn:EP; [inversion SP|].
  cbn [set_in_at] in SA. destruct rp as [|p1 rp]; [inversion SP as [|? ? ? ? ? S']; inversion S'|].
  cbn [set_in_at] in SA. destruct (tx_ins A) as [|a0 ra] eqn:EA; [inversion SA|].
  pose proof (hd_sats_same _ _ _ _ _ _ eq_refl eq_refl SP) as E1.
  pose proof (hd_sats_same _ _ _ _ _ _ eq_refl eq_refl SA) as E2.
  cbn [input_of in_sats] in E1. inversion Hwf as [|? ? Ha0 _]; subst.
  cbn [map firstn first_sat_of_input sum_list fold_right out_sats].
  rewrite E2, E1 in *. rewrite sub64_exact by lia. rewrite N.add_0_r. apply fifo_standard. exact Hp.
Qed.

(** the completed transaction is the one that passed EstimateIsFeePaidEnough(ExpectedFQ) plus the
    seller's unlocking script on the (until then unsigned) ordinal input *)
Theorem flow_fee_enough_bid bid otx ov us buyer dummy chg q dprev dpay P ou eq ss A :
  make_bid bidder bid otx ov us buyer dummy chg q dprev dpay = Done P ->
  accept_bid seller ou bid eq P ss = Done A -> wf_tx P -> bid < two64 ->
  exists T, estimate_is_fee_paid_enough T eq = FOk true /\ tx_outs A = tx_outs T /\
    Forall2 (signed_by seller) (tx_ins T) (tx_ins A) /\
    (forall k i i', nth_error (tx_ins T) k = Some i -> nth_error (tx_ins A) k = Some i' -> unsigned i = true \/ i' = i).
Proof.
  intros HM HA W Hb.
  destruct (make_bid_shape bidder _ _ _ _ _ _ _ _ _ _ _ HM)
    as (u0 & rest & co & T & Hp & -> & Hco & VP & LP & OP & SP & _ & KP).
  destruct (accept_bid_shape seller _ _ _ _ _ _ HA W Hb _ eq_refl) as (E & VA & OA & LA & SA & GA & KA & _ & _).
  eexists. split; [exact E|]. split; [exact OA|]. split; [exact GA|].
  intros k i i' H1 H2. destruct (Nat.eq_dec k 1) as [->|Hk].
  - left. cbn [accepted_unsigned tx_ins] in H1. rewrite (set_in_at_nth _ _ _ _ KP) in H1. injection H1 as <-. reflexivity.
  - right. rewrite (KA k Hk) in H2. congruence.
Qed.

(** two-dummy variant: the ordinal (input 2) goes to output 1 *)
Theorem ordinal_fifo_bid_2d bid otx ov us buyer dummy chg q dprev dpay P prevs eq ss A :
  make_bid_2d bidder bid otx ov us buyer dummy chg q dprev dpay = Done P ->
  accept_bid_2d seller prevs bid eq P ss = Done A -> wf_tx P -> bid < two64 ->
  first_sat_of_input (map in_sats (tx_ins A)) 2 < two64 ->
  output_of_sat (map out_sats (tx_outs A)) (first_sat_of_input (map in_sats (tx_ins A)) 2) = Some 1%nat /\
  nth_error (tx_outs A) 1 = Some (mkOutput 1 buyer) /\ nth_error (tx_outs A) 2 = Some (mkOutput bid ss).
Proof.
  intros HM HA W Hb Hwf.
  destruct (make_bid_2d_shape bidder _ _ _ _ _ _ _ _ _ _ _ HM)
    as (u0 & u1 & rest & co & T & _ & -> & Hco & VP & LP & OP & SP & _ & KP).
  destruct (accept_bid_2d_shape seller _ _ _ _ _ _ HA W Hb) as (ou & _ & HT).
  destruct (HT _ eq_refl) as (_ & VA & OA & LA & SA & _ & KA & _ & _).
  cbn [tx_ins tx_outs accepted_unsigned] in *. rewrite OA, OP. cbn [app set_out_at]. split; [|split; reflexivity].
  pose proof (same_prev_sats _ _ SP) as M1. pose proof (same_prev_sats _ _ SA) as M2.
  destruct (tx_ins P) as [|p0 [|p1 [|p2 rp]]] eqn:EP; try (cbn in M1; discriminate).
  cbn [set_in_at map] in M2. rewrite M2 in *. cbn [map input_of in_sats] in M1.
  injection M1 as E0 E1 _ _. cbn [map firstn first_sat_of_input sum_list fold_right out_sats] in *.
  rewrite E0, E1 in *. rewrite add64_exact by lia. rewrite N.add_0_r. apply fifo_two_dummies.
Qed.

Theorem flow_fee_enough_bid_2d bid otx ov us buyer dummy chg q dprev dpay P prevs eq ss A :
  make_bid_2d bidder bid otx ov us buyer dummy chg q dprev dpay = Done P ->
  accept_bid_2d seller prevs bid eq P ss = Done A -> wf_tx P -> bid < two64 ->
  exists T, estimate_is_fee_paid_enough T eq = FOk true /\ tx_outs A = tx_outs T /\
    Forall2 (signed_by seller) (tx_ins T) (tx_ins A) /\
    (forall k i i', nth_error (tx_ins T) k = Some i -> nth_error (tx_ins A) k = Some i' -> unsigned i = true \/ i' = i).
Proof.
  intros HM HA W Hb.
  destruct (make_bid_2d_shape bidder _ _ _ _ _ _ _ _ _ _ _ HM)
    as (u0 & u1 & rest & co & T & _ & -> & Hco & VP & LP & OP & SP & _ & KP).
  destruct (accept_bid_2d_shape seller _ _ _ _ _ _ HA W Hb) as (ou & _ & HT).
  destruct (HT _ eq_refl) as (E & VA & OA & LA & SA & GA & KA & _ & _).
  eexists. split; [exact E|]. split; [exact OA|]. split; [exact GA|].
  intros k i i' H1 H2. destruct (Nat.eq_dec k 2) as [->|Hk].
  - left. cbn [accepted_unsigned tx_ins] in H1. rewrite (set_in_at_nth _ _ _ _ KP) in H1. injection H1 as <-. reflexivity.
  - right. rewrite (KA k Hk) in H2. congruence.
Qed.
End BidComposed.
