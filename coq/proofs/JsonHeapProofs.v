(** Proofs about model/JsonHeap.v: unmarshalling a list of UTXOs into a destination that already holds UTXO objects -
    sharing txid buffers and script objects with each other and with anything else on the heap - returns the list
    model/Json.v's value-level [unmarshal_utxos] returns, writes no buffer that existed, and leaves every object that
    is not one of the reused elements as it was. *)
From Coq Require Import List Arith NArith String Bool Lia.
From Coq Require Import Strings.Byte.
From GoBT Require Import lib.Bytes lib.Hex model.Amount model.Json model.JsonHeap proofs.JsonProofs.
Import ListNotations.

(** ** lists *)
Lemma upd_length {A} n (x : A) l : List.length (upd n x l) = List.length l.
Proof. revert n; induction l as [|y l IH]; intros [|n]; cbn; auto. Qed.
Lemma nth_upd_same {A} n (x d : A) l : (n < List.length l)%nat -> nth n (upd n x l) d = x.
Proof. revert n; induction l as [|y l IH]; intros [|n] H; cbn in *; try lia; auto. apply IH; lia. Qed.
Lemma nth_upd_other {A} n m (x d : A) l : n <> m -> nth m (upd n x l) d = nth m l d.
Proof. revert n m; induction l as [|y l IH]; intros [|n] [|m] H; cbn; auto; try congruence. Qed.
Lemma Forall_upd {A} (P : A -> Prop) n x l : Forall P l -> P x -> Forall P (upd n x l).
Proof.
  intros Hl Hx; revert n; induction Hl as [|y l Hy Hl IH]; intros [|n]; cbn; constructor; auto.
Qed.

(** ** reading through references that exist is stable under allocation *)
Lemma read_slice_app bufs ext s : slice_ok (List.length bufs) s -> read_slice (bufs ++ ext) s = read_slice bufs s.
Proof. destruct s as [sl|]; cbn; auto. intros H. rewrite app_nth1 by exact H. reflexivity. Qed.
Lemma read_script_app bufs ext p : ptr_ok (List.length bufs) p -> read_script (bufs ++ ext) p = read_script bufs p.
Proof. destruct p as [a|]; cbn; auto. intros H. rewrite app_nth1 by exact H. reflexivity. Qed.

Lemma obj_ok_mono n m o : (n <= m)%nat -> obj_ok n o -> obj_ok m o.
Proof.
  intros Hnm [H1 H2]; split.
  - destruct (uo_txid o); cbn in *; auto; lia.
  - destruct (uo_lock o); cbn in *; auto; lia.
Qed.
Lemma zero_obj_ok n : obj_ok n zero_obj.
Proof. split; exact I. Qed.
Lemma get_obj_ok h b : heap_ok h -> obj_ok (List.length (h_bufs h)) (get_obj h b).
Proof.
  intros Hok. unfold get_obj. destruct (Nat.lt_ge_cases b (List.length (h_objs h))) as [Hlt|Hge].
  - unfold heap_ok in Hok. rewrite Forall_forall in Hok. apply Hok. apply nth_In. exact Hlt.
  - rewrite nth_overflow by exact Hge. apply zero_obj_ok.
Qed.

(** ** one UnmarshalJSON call *)
Lemma store_bufs h a t s v sa : h_bufs (store h a t s v sa) = h_bufs h ++ [t; s].
Proof. reflexivity. Qed.
Lemma store_objs_length h a t s v sa : List.length (h_objs (store h a t s v sa)) = List.length (h_objs h).
Proof. cbn. apply upd_length. Qed.

Lemma view_store_same h a t s v sa : (a < List.length (h_objs h))%nat ->
  view (store h a t s v sa) a = mkGUtxo t v (Some s) sa (u_seq (view h a)).
Proof.
  intros Ha. unfold view, get_obj. cbn [store h_objs h_bufs]. rewrite nth_upd_same by exact Ha.
  cbn [uo_txid uo_vout uo_lock uo_sats uo_seq u_seq read_slice read_script sl_buf sl_off sl_len].
  rewrite app_nth2 by lia. rewrite Nat.sub_diag. cbn [nth skipn]. rewrite firstn_all.
  rewrite app_nth2 by lia. replace (S (List.length (h_bufs h)) - List.length (h_bufs h))%nat with 1%nat by lia.
  reflexivity.
Qed.

Lemma view_store_other h a b t s v sa : heap_ok h -> b <> a -> view (store h a t s v sa) b = view h b.
Proof.
  intros Hok Hne. pose proof (get_obj_ok h b Hok) as [H1 H2].
  unfold view, get_obj in *. cbn [store h_objs h_bufs]. rewrite nth_upd_other by congruence.
  rewrite read_slice_app by exact H1. rewrite read_script_app by exact H2. reflexivity.
Qed.

Lemma heap_ok_store h a t s v sa : heap_ok h -> heap_ok (store h a t s v sa).
Proof.
  intros Hok. unfold heap_ok. cbn [store h_objs h_bufs]. rewrite app_length. cbn [List.length].
  apply Forall_upd.
  - eapply Forall_impl; [|exact Hok]. intros o Ho. eapply obj_ok_mono; [|exact Ho]. lia.
  - split; cbn; lia.
Qed.

Lemma get_obj_alloc h b : get_obj (fst (alloc h)) b = get_obj h b.
Proof.
  unfold get_obj, alloc. cbn [fst h_objs].
  destruct (Nat.lt_ge_cases b (List.length (h_objs h))) as [Hlt|Hge].
  - apply app_nth1. exact Hlt.
  - rewrite (nth_overflow (h_objs h)) by exact Hge. rewrite app_nth2 by exact Hge.
    destruct (b - List.length (h_objs h))%nat as [|[|k]]; reflexivity.
Qed.
Lemma view_alloc h b : view (fst (alloc h)) b = view h b.
Proof. unfold view. rewrite get_obj_alloc. reflexivity. Qed.
Lemma heap_ok_alloc h : heap_ok h -> heap_ok (fst (alloc h)).
Proof.
  intros Hok. unfold heap_ok, alloc. cbn [fst h_objs h_bufs]. apply Forall_app. split; [exact Hok|].
  constructor; [apply zero_obj_ok|constructor].
Qed.

(** ** the slots *)
Definition hd_slot (backing : list (option nat)) : option nat := match backing with p :: _ => p | [] => None end.
Definition tl_slot (backing : list (option nat)) : list (option nat) := match backing with _ :: r => r | [] => [] end.
Lemma reused_S backing n :
  reused backing (S n) = match hd_slot backing with Some a => a :: reused (tl_slot backing) n | None => reused (tl_slot backing) n end.
Proof.
  unfold reused. destruct backing as [|[a|] r]; cbn; try reflexivity. destruct n; reflexivity.
Qed.

(** what one element decoder has to satisfy: the two of utxojson.go do *)
Section Decode.
Context {J : Type}.
Variable elem : heap -> nat -> J -> jres heap.
Variable velem : gutxo -> J -> jres gutxo.   (* the value-level decoder of model/Json.v *)
Hypothesis elem_spec : forall h a j u, velem zero_utxo j = JOk u ->
  exists t s, elem h a j = JOk (store h a t s (u_vout u) (u_sats u)) /\ u_txid u = t /\ u_lock u = Some s.

Lemma decode_array_spec : forall docs h backing us,
  heap_ok h ->
  NoDup (reused backing (List.length docs)) ->
  Forall (fun a => a < List.length (h_objs h))%nat (reused backing (List.length docs)) ->
  jmapM (velem zero_utxo) docs = JOk us ->
  exists h' l,
    decode_array elem h backing docs = JOk (h', l) /\
    heap_ok h' /\
    map (fun a => fields (view h' a)) l = map fields us /\
    (exists ext, h_bufs h' = h_bufs h ++ ext) /\
    (List.length (h_objs h) <= List.length (h_objs h'))%nat /\
    (forall b, (b < List.length (h_objs h))%nat -> ~ In b (reused backing (List.length docs)) -> view h' b = view h b).
Proof.
  induction docs as [|j docs IH]; intros h backing us Hok Hnd Hlt Hus.
  - cbn in Hus. inversion Hus; subst us. exists h, []. cbn [decode_array map].
    repeat split; auto. exists []. rewrite app_nil_r. reflexivity.
  - cbn [jmapM] in Hus.
    destruct (velem zero_utxo j) as [u| |] eqn:Eu; try discriminate. cbn [jbind] in Hus.
    destruct (jmapM (velem zero_utxo) docs) as [us'| |] eqn:Eus; try discriminate. cbn [jbind] in Hus.
    inversion Hus; subst us. clear Hus.
    cbn [List.length] in Hnd, Hlt. rewrite reused_S in Hnd, Hlt.
    cbn [decode_array]. fold (hd_slot backing). fold (tl_slot backing).
    (* the object decoded into: a reused one or a new one *)
    assert (Hstep : exists h1 a,
      (match hd_slot backing with Some a => (h, a) | None => alloc h end) = (h1, a) /\
      heap_ok h1 /\ (a < List.length (h_objs h1))%nat /\ h_bufs h1 = h_bufs h /\
      (List.length (h_objs h) <= List.length (h_objs h1))%nat /\
      (forall b, view h1 b = view h b) /\
      ~ In a (reused (tl_slot backing) (List.length docs)) /\
      NoDup (reused (tl_slot backing) (List.length docs)) /\
      Forall (fun a => a < List.length (h_objs h1))%nat (reused (tl_slot backing) (List.length docs)) /\
      (forall b, (b < List.length (h_objs h))%nat ->
         ~ In b (match hd_slot backing with Some a => a :: reused (tl_slot backing) (List.length docs) | None => reused (tl_slot backing) (List.length docs) end) ->
         b <> a)).
    { destruct (hd_slot backing) as [a|].
      - exists h, a. inversion Hnd as [|? ? Hnin Hnd']; subst. inversion Hlt as [|? ? Ha Hlt']; subst.
        repeat split; auto. intros b _ Hb ->. apply Hb. left; reflexivity.
      - exists (fst (alloc h)), (List.length (h_objs h)). repeat split.
        + apply heap_ok_alloc; exact Hok.
        + unfold alloc; cbn. rewrite app_length; cbn; lia.
        + unfold alloc; cbn. rewrite app_length; cbn; lia.
        + intros b; apply view_alloc.
        + intros Hin. rewrite Forall_forall in Hlt. specialize (Hlt _ Hin). lia.
        + exact Hnd.
        + eapply Forall_impl; [|exact Hlt]. intros x Hx. cbn beta in Hx. unfold alloc; cbn. rewrite app_length; cbn; lia.
        + intros b Hb _. lia. }
    destruct Hstep as (h1 & a & E1 & Hok1 & Ha1 & Hb1 & Hlen1 & Hview1 & Hnin & Hnd' & Hlt' & Hne).
    rewrite E1.
    destruct (elem_spec h1 a j u Eu) as (t & s & Ee & Et & Es). rewrite Ee. cbn [jbind].
    set (h2 := store h1 a t s (u_vout u) (u_sats u)).
    assert (Hok2 : heap_ok h2) by (apply heap_ok_store; exact Hok1).
    assert (Hlt2 : Forall (fun a => a < List.length (h_objs h2))%nat (reused (tl_slot backing) (List.length docs))).
    { unfold h2. rewrite store_objs_length. exact Hlt'. }
    destruct (IH h2 (tl_slot backing) us' Hok2 Hnd' Hlt2 eq_refl) as (h3 & l & Ed & Hok3 & Hf & (ext & Hext) & Hlen3 & Hfr).
    rewrite Ed. cbn [jbind fst snd]. exists h3, (a :: l). split; [reflexivity|]. split; [exact Hok3|]. split.
    { cbn [map]. f_equal; [|exact Hf].
      assert (Ha2 : (a < List.length (h_objs h2))%nat) by (unfold h2; rewrite store_objs_length; exact Ha1).
      rewrite (Hfr a Ha2 Hnin). unfold h2. rewrite view_store_same by exact Ha1.
      unfold fields. cbn [u_txid u_vout u_lock u_sats script_or_empty]. rewrite Et, Es. reflexivity. }
    split.
    { exists ([t; s] ++ ext). rewrite Hext. unfold h2. rewrite store_bufs, Hb1. rewrite <- app_assoc. reflexivity. }
    split.
    { unfold h2 in Hlen3. rewrite store_objs_length in Hlen3. lia. }
    intros b Hb Hnb. cbn [List.length] in Hnb. rewrite reused_S in Hnb.
    assert (Hba : b <> a) by (apply Hne; assumption).
    assert (Hnb' : ~ In b (reused (tl_slot backing) (List.length docs))).
    { intros Hin. apply Hnb. destruct (hd_slot backing); [right|]; exact Hin. }
    rewrite Hfr; [|unfold h2; rewrite store_objs_length; lia|exact Hnb'].
    unfold h2. rewrite view_store_other by assumption. apply Hview1.
Qed.
End Decode.

(** the two element decoders of utxojson.go *)
Lemma lib_elem_spec : forall h a j u, unmarshal_utxo zero_utxo j = JOk u ->
  exists t s, unmarshal_utxo_at h a j = JOk (store h a t s (u_vout u) (u_sats u)) /\ u_txid u = t /\ u_lock u = Some s.
Proof.
  intros h a j u. unfold unmarshal_utxo, unmarshal_utxo_at.
  destruct (from_hex (uj_txid j)) as [t| |]; try discriminate. destruct (from_hex (uj_lock j)) as [s| |]; try discriminate.
  cbn [jbind]. intros H; inversion H; subst u. exists t, s. repeat split; reflexivity.
Qed.
Lemma node_elem_spec : forall h a j u, node_unmarshal_utxo zero_utxo j = JOk u ->
  exists t s, node_unmarshal_utxo_at h a j = JOk (store h a t s (u_vout u) (u_sats u)) /\ u_txid u = t /\ u_lock u = Some s.
Proof.
  intros h a j u. unfold node_unmarshal_utxo, node_unmarshal_utxo_at.
  destruct (from_hex (un_txid j)) as [t| |]; try discriminate. destruct (from_hex (un_spk j)) as [s| |]; try discriminate.
  cbn [jbind]. intros H; inversion H; subst u. exists t, s. repeat split; reflexivity.
Qed.

(** ** library dialect: json.Unmarshal(doc, &utxos) into a destination with a past *)
Theorem utxos_into_used_destination : forall h backing docs us,
  heap_ok h ->
  NoDup (reused backing (List.length docs)) ->
  Forall (fun a => a < List.length (h_objs h))%nat (reused backing (List.length docs)) ->
  unmarshal_utxos docs = JOk us ->
  exists h' l,
    unmarshal_utxos_into h backing docs = JOk (h', l) /\
    map (fun a => fields (view h' a)) l = map fields us /\
    (exists ext, h_bufs h' = h_bufs h ++ ext) /\
    (forall b, (b < List.length (h_objs h))%nat -> ~ In b (reused backing (List.length docs)) -> view h' b = view h b).
Proof.
  intros h backing docs us Hok Hnd Hlt Hus.
  destruct (decode_array_spec unmarshal_utxo_at unmarshal_utxo lib_elem_spec docs h backing us Hok Hnd Hlt Hus)
    as (h' & l & E & _ & Hf & Hext & _ & Hfr).
  exists h', l. repeat split; assumption.
Qed.

(** ** node dialect: whatever the destination held, nothing of it is touched *)
Theorem node_utxos_into_used_destination : forall h backing docs us,
  heap_ok h ->
  node_unmarshal_utxos docs = JOk us ->
  exists h' l,
    node_unmarshal_utxos_into h backing docs = JOk (h', l) /\
    map (fun a => fields (view h' a)) l = map fields us /\
    (exists ext, h_bufs h' = h_bufs h ++ ext) /\
    (forall b, (b < List.length (h_objs h))%nat -> view h' b = view h b).
Proof.
  intros h backing docs us Hok Hus. unfold node_unmarshal_utxos_into.
  assert (Hr : forall n, reused [] n = []) by (intros [|n]; reflexivity).
  destruct (decode_array_spec node_unmarshal_utxo_at node_unmarshal_utxo node_elem_spec docs h [] us Hok) as (h' & l & E & _ & Hf & Hext & _ & Hfr).
  - rewrite Hr. constructor.
  - rewrite Hr. constructor.
  - exact Hus.
  - exists h', l. repeat split; try assumption. intros b Hb. apply Hfr; [exact Hb|]. rewrite Hr. intros [].
Qed.

(** ** the round trips, into any used destination *)
Lemma jmapM_length {A B} (f : A -> jres B) l l' : jmapM f l = JOk l' -> List.length l' = List.length l.
Proof.
  revert l'; induction l as [|x l IH]; intros l' H; cbn [jmapM] in H.
  - inversion H; reflexivity.
  - destruct (f x); try discriminate. cbn [jbind] in H. destruct (jmapM f l); try discriminate. cbn [jbind] in H.
    inversion H; subst l'. cbn [List.length]. f_equal. apply IH; reflexivity.
Qed.
Theorem utxos_roundtrip_into_used_destination : forall h backing us,
  heap_ok h ->
  NoDup (reused backing (List.length us)) ->
  Forall (fun a => a < List.length (h_objs h))%nat (reused backing (List.length us)) ->
  exists js h' l,
    marshal_utxos us = JOk js /\
    unmarshal_utxos_into h backing js = JOk (h', l) /\
    map (fun a => fields (view h' a)) l = map fields us /\
    (exists ext, h_bufs h' = h_bufs h ++ ext) /\
    (forall b, (b < List.length (h_objs h))%nat -> ~ In b (reused backing (List.length us)) -> view h' b = view h b).
Proof.
  intros h backing us Hok Hnd Hlt.
  destruct (utxos_json_roundtrip us) as (js & Em & Eu).
  pose proof (jmapM_length _ _ _ Em) as Hlen.
  rewrite <- Hlen in Hnd, Hlt.
  destruct (utxos_into_used_destination h backing js _ Hok Hnd Hlt Eu) as (h' & l & E & Hf & Hext & Hfr).
  exists js, h', l. split; [exact Em|]. split; [exact E|]. split.
  { rewrite Hf. rewrite map_map. apply map_ext. intros u. unfold fields, utxo_back. cbn.
    destruct (u_lock u); reflexivity. }
  split; [exact Hext|]. rewrite <- Hlen. exact Hfr.
Qed.

Theorem node_utxos_roundtrip_into_used_destination : forall h backing us,
  heap_ok h -> Forall (fun u => (u_sats u <= max_money)%N) us ->
  exists js h' l,
    node_marshal_utxos us = JOk js /\
    node_unmarshal_utxos_into h backing js = JOk (h', l) /\
    map (fun a => fields (view h' a)) l = map fields us /\
    (exists ext, h_bufs h' = h_bufs h ++ ext) /\
    (forall b, (b < List.length (h_objs h))%nat -> view h' b = view h b).
Proof.
  intros h backing us Hok Hm.
  destruct (utxos_node_roundtrip us Hm) as (js & Em & Eu).
  destruct (node_utxos_into_used_destination h backing js _ Hok Eu) as (h' & l & E & Hf & Hext & Hfr).
  exists js, h', l. split; [exact Em|]. split; [exact E|]. split.
  { rewrite Hf. rewrite map_map. apply map_ext. intros u. unfold fields, utxo_back. cbn.
    destruct (u_lock u); reflexivity. }
  split; assumption.
Qed.

(** ** a single object refreshed again and again (a feed): after each document it reads as that document says, and
    nothing else on the heap changes *)
Theorem utxo_refresh : forall h a j u, heap_ok h -> (a < List.length (h_objs h))%nat ->
  unmarshal_utxo (view h a) j = JOk u ->
  exists h', unmarshal_utxo_at h a j = JOk h' /\ view h' a = u /\ heap_ok h' /\
             (exists ext, h_bufs h' = h_bufs h ++ ext) /\ (forall b, b <> a -> view h' b = view h b).
Proof.
  intros h a j u Hok Ha. unfold unmarshal_utxo, unmarshal_utxo_at.
  destruct (from_hex (uj_txid j)) as [t| |]; try discriminate. destruct (from_hex (uj_lock j)) as [s| |]; try discriminate.
  cbn [jbind]. intros H; inversion H; subst u. eexists; split; [reflexivity|]. split; [apply view_store_same; exact Ha|].
  split; [apply heap_ok_store; exact Hok|]. split; [exists [t; s]; reflexivity|].
  intros b Hb. apply view_store_other; assumption.
Qed.

(** ** why the hypothesis NoDup: encoding/json decodes into the same object twice when the destination holds one pointer
    twice - both elements of the result then read as the LAST document says.  (The node wrapper is not affected.) *)
Definition alias_heap : heap := mkHeap [] [zero_obj].
Definition alias_docs : list utxo_j := [mkUtxoJ "aa" 0 "51" 1; mkUtxoJ "bb" 1 "52" 2].
Example alias_example :
  match unmarshal_utxos_into alias_heap [Some 0%nat; Some 0%nat] alias_docs with
  | JOk (h', l) => map (fun a => u_vout (view h' a)) l = [1%N; 1%N]
  | _ => False
  end.
Proof. vm_compute. reflexivity. Qed.
Example alias_example_node :
  match node_unmarshal_utxos_into alias_heap [Some 0%nat; Some 0%nat]
          [mkUtxoN "aa" 0 "51" (of_sat 1); mkUtxoN "bb" 1 "52" (of_sat 2)] with
  | JOk (h', l) => map (fun a => u_vout (view h' a)) l = [0%N; 1%N] /\ view h' 0%nat = view alias_heap 0%nat
  | _ => False
  end.
Proof. vm_compute. split; reflexivity. Qed.
