(** Proofs about model/Address.v: set58 is fixed-width base conversion, ValidateAddress accepts
    exactly Base58Check P2PKH addresses, the script-building path accepts exactly Base58 of 25
    bytes with a supported version (no checksum), round trips and agreement of the constructors. *)
From Coq Require Import String Ascii List NArith ZArith Bool Lia ZifyN ZifyNat ZifyBool NArithRing.
From Coq Require Import Strings.Byte.
From GoBT Require Import lib.Bytes lib.Hex lib.Str lib.Sha256 lib.Ripemd160 lib.Numeral lib.Base58.
From GoBT Require Import model.Bip276 model.Address spec.Base58Check proofs.Bip276Proofs.
Import ListNotations.
Local Open Scope N_scope.

(** ** lengths of the hashes *)

Lemma ripemd160_length m : List.length (ripemd160 m) = 20%nat.
Proof.
  unfold ripemd160.
  destruct (fold_left rmd_compress _ rmd_iv) as [[[[a b] c] d] e]. reflexivity.
Qed.
Lemma hash160_length m : List.length (hash160 m) = 20%nat.
Proof. apply ripemd160_length. Qed.
Lemma first4_length m : List.length (first4 (sha256d m)) = 4%nat.
Proof. unfold first4, sha256d. rewrite firstn_length, sha256_length. reflexivity. Qed.
Lemma checksum4_length m : List.length (checksum4 m) = 4%nat.
Proof. apply first4_length. Qed.

(** ** set58 *)

Lemma bval_cons x r : bval (x :: r) = b2n x * 256 ^ N.of_nat (List.length r) + bval r.
Proof. unfold bval. cbn [map]. rewrite value_cons by lia. rewrite map_length. reflexivity. Qed.

Lemma bval_nil : bval [] = 0.
Proof. reflexivity. Qed.

Lemma mul58_add_cons x r c :
  mul58_add (x :: r) c =
  (n2b ((snd (mul58_add r c) + 58 * b2n x) mod 256) :: fst (mul58_add r c),
   (snd (mul58_add r c) + 58 * b2n x) / 256).
Proof.
  unfold mul58_add. cbn [fold_right]. unfold mul58_step at 1.
  destruct (fold_right mul58_step ([], c) r). reflexivity.
Qed.

Lemma mul58_add_spec a : forall c a' carry, mul58_add a c = (a', carry) ->
  List.length a' = List.length a /\
  bval a * 58 + c = carry * 256 ^ N.of_nat (List.length a) + bval a'.
Proof.
  induction a as [|x r IH]; intros c a' carry H.
  - cbn in H. injection H as <- <-. split; [reflexivity|]. rewrite bval_nil. cbn [List.length].
    change (N.of_nat 0) with 0. rewrite N.pow_0_r. lia.
  - rewrite mul58_add_cons in H. destruct (mul58_add r c) as [r' c1] eqn:E.
    destruct (IH _ _ _ E) as [Hl Hv]. cbn [fst snd] in H. apply pair_equal_spec in H as [<- <-].
    split; [cbn [List.length]; rewrite Hl; reflexivity|].
    rewrite !bval_cons, Hl. cbn [List.length]. rewrite Nat2N.inj_succ, N.pow_succ_r'.
    set (P := 256 ^ N.of_nat (List.length r)) in *. set (t := c1 + 58 * b2n x).
    rewrite b2n_n2b_small by (apply N.mod_lt; lia).
    assert (Et : t = 256 * (t / 256) + t mod 256) by (apply N.div_mod; lia).
    set (q := t / 256) in *. set (m := t mod 256) in *.
    transitivity ((58 * b2n x + c1) * P + bval r'); [|replace (58 * b2n x + c1) with (256 * q + m) by (subst t; lia); ring].
    replace ((b2n x * P + bval r) * 58 + c) with (58 * b2n x * P + (bval r * 58 + c)) by ring.
    rewrite Hv. ring.
Qed.

Lemma value_acc_ge Bx acc ds : 1 <= Bx -> acc <= value_acc Bx acc ds.
Proof.
  intros HB. revert acc; induction ds as [|d ds IH]; intros acc; [cbn; lia|].
  cbn [value_acc fold_left]. fold (value_acc Bx (acc * Bx + d) ds).
  specialize (IH (acc * Bx + d)). nia.
Qed.

Lemma value_acc_cons Bx acc d ds : value_acc Bx acc (d :: ds) = value_acc Bx (acc * Bx + d) ds.
Proof. reflexivity. Qed.

Lemma b58_digits_cons s1 r : b58_digits (s1 :: r) =
  match b58_index s1, b58_digits r with Some c, Some t => Some (c :: t) | _, _ => None end.
Proof. reflexivity. Qed.

Lemma set58_loop_ok s : forall a a', set58_loop a s = Ok a' ->
  exists ds, b58_digits s = Some ds /\ bval a' = value_acc 58 (bval a) ds /\
             List.length a' = List.length a.
Proof.
  induction s as [|s1 r IH]; intros a a' H.
  - cbn in H. injection H as <-. exists []. repeat split.
  - cbn [set58_loop] in H. destruct (b58_index s1) as [c|] eqn:Ec; [|discriminate].
    destruct (mul58_add a c) as [a1 carry] eqn:Em.
    destruct (N.ltb_spec 0 carry) as [|Hc]; [discriminate|].
    destruct (mul58_add_spec _ _ _ _ Em) as [Hl Hv].
    destruct (IH _ _ H) as (ds & Hd & Hb & Hl').
    exists (c :: ds). rewrite b58_digits_cons, Ec, Hd. repeat split.
    + rewrite value_acc_cons, Hb. f_equal. assert (carry = 0) by lia. subst carry. lia.
    + congruence.
Qed.

Lemma set58_loop_complete s : forall a ds, b58_digits s = Some ds ->
  value_acc 58 (bval a) ds < 256 ^ N.of_nat (List.length a) ->
  exists a', set58_loop a s = Ok a' /\ bval a' = value_acc 58 (bval a) ds /\
             List.length a' = List.length a.
Proof.
  induction s as [|s1 r IH]; intros a ds Hd Hlt.
  - cbn in Hd. injection Hd as <-. exists a. repeat split.
  - rewrite b58_digits_cons in Hd. destruct (b58_index s1) as [c|] eqn:Ec; [|discriminate].
    destruct (b58_digits r) as [t|] eqn:Et; [|discriminate]. injection Hd as <-.
    cbn [set58_loop]. rewrite Ec. destruct (mul58_add a c) as [a1 carry] eqn:Em.
    destruct (mul58_add_spec _ _ _ _ Em) as [Hl Hv].
    rewrite value_acc_cons in Hlt.
    pose proof (value_acc_ge 58 (bval a * 58 + c) t ltac:(lia)) as Hge.
    assert (carry = 0).
    { destruct (N.eq_dec carry 0) as [|Hn]; [assumption|]. exfalso.
      assert (256 ^ N.of_nat (List.length a) <= carry * 256 ^ N.of_nat (List.length a)) by nia. lia. }
    subst carry. destruct (N.ltb_spec 0 0) as [|_]; [lia|].
    assert (Eb : bval a1 = bval a * 58 + c) by lia.
    destruct (IH a1 t eq_refl) as (a' & Hs & Hb & Hl'); [rewrite Eb, Hl; exact Hlt|].
    exists a'. repeat split; [exact Hs | rewrite value_acc_cons, <- Eb; exact Hb | congruence].
Qed.

Lemma bval_zeros : bval (repeat x00 25) = 0.
Proof. reflexivity. Qed.

Lemma set58_ok_iff s a : set58 s = Ok a <->
  exists ds, b58_digits s = Some ds /\ value 58 ds < 256 ^ 25 /\ List.length a = 25%nat /\ bval a = value 58 ds.
Proof.
  unfold set58. split.
  - intros H. destruct (set58_loop_ok _ _ _ H) as (ds & Hd & Hb & Hl).
    rewrite bval_zeros in Hb. rewrite repeat_length in Hl. exists ds. repeat split; auto.
    fold (value 58 ds) in Hb. rewrite <- Hb. pose proof (bval_lt a) as Hlt. rewrite Hl in Hlt. exact Hlt.
  - intros (ds & Hd & Hlt & Hl & Hb).
    destruct (set58_loop_complete s (repeat x00 25) ds Hd) as (a' & Hs & Hb' & Hl').
    + rewrite bval_zeros, repeat_length. exact Hlt.
    + rewrite Hs. f_equal. apply bval_inj; [rewrite Hl', repeat_length; auto|].
      rewrite Hb', bval_zeros, Hb. reflexivity.
Qed.

(** ** ValidateAddress (Base58 branch) accepts exactly the Base58Check P2PKH addresses *)

Lemma b58_encode_of_digits a s ds :
  b58_digits s = Some ds -> bval a = value 58 ds ->
  count_leading x00 a = count_leading alphabet_idx0 s -> b58_encode a = s.
Proof.
  intros Hd Hb Hz. unfold b58_encode. fold (bval a). rewrite Hb, Hz.
  rewrite digits_value_strip by (try lia; apply (b58_digits_all_lt _ _ Hd)).
  symmetry. apply b58_split_leading. exact Hd.
Qed.

Lemma byte_eqb_false a b : byte_eqb a b = false <-> a <> b.
Proof.
  split; intros H.
  - intros ->. unfold byte_eqb in H. rewrite (Byte.byte_dec_lb eq_refl) in H. discriminate.
  - destruct (byte_eqb a b) eqn:E; [|reflexivity]. apply byte_eqb_eq in E. contradiction.
Qed.

Lemma len25_split (a : bytes) : List.length a = 25%nat ->
  exists v rest, a = v :: rest /\ List.length rest = 24%nat.
Proof. destruct a as [|v rest]; [discriminate|]. intros [= H]. eauto. Qed.

Theorem valid_a58_iff s : valid_a58 s = Ok tt <-> is_p2pkh_address s.
Proof.
  unfold valid_a58. split.
  - destruct (set58 s) as [a|e|] eqn:Es; try discriminate.
    apply set58_ok_iff in Es as (ds & Hd & Hlt & Hl & Hb).
    destruct (len25_split a Hl) as (v & rest & -> & Hr).
    destruct (negb (byte_eqb v x00) && negb (byte_eqb v x6f)) eqn:Ev; [discriminate|].
    destruct (bytes_eqb (skipn 21 (v :: rest)) (firstn 4 (sha256d (firstn 21 (v :: rest))))) eqn:Ec; [|discriminate].
    destruct (Nat.eqb_spec (count_leading x00 (v :: rest)) (count_leading alphabet_idx0 s)) as [Ez|]; [|discriminate].
    intros _. apply bytes_eqb_eq in Ec.
    change (skipn 21 (v :: rest)) with (skipn 20 rest) in Ec.
    change (firstn 21 (v :: rest)) with (v :: firstn 20 rest) in Ec.
    exists v, (firstn 20 rest). repeat split.
    + unfold supported_version. apply andb_false_iff in Ev as [Ev|Ev]; apply negb_false_iff, byte_eqb_eq in Ev; auto.
    + rewrite firstn_length. lia.
    + unfold base58check, first4. rewrite <- Ec, firstn_skipn.
      symmetry. apply (b58_encode_of_digits _ _ ds Hd Hb Ez).
  - intros (v & h & Hv & Hh & ->). unfold base58check.
    set (a := v :: h ++ first4 (sha256d (v :: h))).
    assert (Hl : List.length a = 25%nat).
    { unfold a. cbn [List.length]. rewrite app_length, first4_length, Hh. reflexivity. }
    destruct (b58_encode_is_text a) as [ds Hd].
    pose proof (b58_encode_value a ds Hd) as Hb.
    assert (Es : set58 (b58_encode a) = Ok a).
    { apply set58_ok_iff. exists ds. repeat split; auto.
      rewrite Hb. pose proof (bval_lt a) as Hlt. rewrite Hl in Hlt. exact Hlt. }
    rewrite Es. unfold a at 1.
    assert (Ev : negb (byte_eqb v x00) && negb (byte_eqb v x6f) = false).
    { destruct Hv as [->| ->]; reflexivity. }
    rewrite Ev.
    assert (E21 : firstn 21 a = v :: h).
    { unfold a. change 21%nat with (S 20). rewrite firstn_cons. f_equal.
      rewrite <- Hh. rewrite firstn_app, Nat.sub_diag, firstn_all, firstn_O. apply app_nil_r. }
    assert (S21 : skipn 21 a = first4 (sha256d (v :: h))).
    { unfold a. change 21%nat with (S 20). rewrite skipn_cons. rewrite <- Hh.
      rewrite skipn_app, Nat.sub_diag, skipn_all. reflexivity. }
    rewrite S21, E21. unfold first4. rewrite bytes_eqb_refl. cbn [negb].
    rewrite b58_encode_leading. rewrite Nat.eqb_refl. reflexivity.
Qed.

Lemma valid_a58_no_panic s : valid_a58 s <> Panic.
Proof.
  unfold valid_a58. destruct (set58 s) as [a|e|] eqn:Es; try discriminate.
  - apply set58_ok_iff in Es as (ds & _ & _ & Hl & _). destruct a as [|v rest]; [discriminate|].
    destruct (negb (byte_eqb v x00) && negb (byte_eqb v x6f)); [discriminate|].
    destruct (negb (bytes_eqb _ _)); [discriminate|]. destruct (negb (Nat.eqb _ _)); discriminate.
  - exfalso. unfold set58 in Es. revert Es. generalize (repeat x00 25).
    induction s as [|s1 r IH]; intros a H; [discriminate|].
    cbn [set58_loop] in H. destruct (b58_index s1); [|discriminate].
    destruct (mul58_add a n) as [a1 carry]. destruct (0 <? carry); [discriminate|]. eapply IH; eauto.
Qed.

(** ** the script-building path: Base58 of 25 bytes with a supported version, checksum not looked at *)

Lemma slice_1_21 v rest : List.length rest = 24%nat ->
  slice 1 (List.length (v :: rest) - 4) (v :: rest) = firstn 20 rest.
Proof. intros H. unfold slice. cbn [List.length skipn]. rewrite H. reflexivity. Qed.

Theorem address_to_pkh_ok_iff addr pkh : address_to_pkh_str addr = Ok pkh <->
  exists v rest, supported_version v /\ List.length rest = 24%nat /\
    bytes_of_string addr = b58_encode (v :: rest) /\ pkh = hex_of (firstn 20 rest).
Proof.
  unfold address_to_pkh_str. split.
  - destruct (Nat.eqb_spec (List.length (b58_decode (bytes_of_string addr))) 25) as [Hl|]; [|discriminate].
    cbn [negb]. destruct (len25_split _ Hl) as (v & rest & E & Hr). rewrite E.
    assert (Htext : is_b58_text (bytes_of_string addr)) by (apply b58_decode_nonempty; rewrite E; discriminate).
    pose proof (b58_encode_decode _ Htext) as Henc. rewrite E in Henc.
    rewrite slice_1_21 by exact Hr.
    destruct (byte_eqb v hashP2PKH) eqn:E0.
    + apply byte_eqb_eq in E0. intros [= <-]. exists v, rest. unfold supported_version. auto.
    + destruct (byte_eqb v hashTestNetP2PKH) eqn:E1; [|discriminate].
      apply byte_eqb_eq in E1. intros [= <-]. exists v, rest. unfold supported_version. auto.
  - intros (v & rest & Hv & Hr & E & ->). rewrite E, b58_decode_encode.
    cbn [List.length]. rewrite Hr. cbn [Nat.eqb negb]. fold (List.length rest).
    change (S (List.length rest)) with (List.length (v :: rest)).
    replace 24%nat with (List.length rest) at 1 by exact Hr.
    change (S (List.length rest)) with (List.length (v :: rest)).
    rewrite slice_1_21 by exact Hr.
    destruct Hv as [->| ->]; reflexivity.
Qed.

Lemma address_to_pkh_no_panic addr : address_to_pkh_str addr <> Panic.
Proof.
  unfold address_to_pkh_str.
  destruct (Nat.eqb_spec (List.length (b58_decode (bytes_of_string addr))) 25) as [Hl|]; [|discriminate].
  destruct (b58_decode (bytes_of_string addr)) as [|v r]; [discriminate|]. cbn [negb].
  destruct (byte_eqb v hashP2PKH); [discriminate|]. destruct (byte_eqb v hashTestNetP2PKH); discriminate.
Qed.

Theorem from_string_accept_iff addr :
  (exists a, new_address_from_string addr = Ok a) <-> is_base58_25 (bytes_of_string addr).
Proof.
  unfold new_address_from_string, is_base58_25. split.
  - intros [a H]. destruct (address_to_pkh_str addr) as [pkh|e|] eqn:E; try discriminate.
    apply address_to_pkh_ok_iff in E as (v & rest & Hv & Hr & E & _). eauto.
  - intros (v & rest & Hv & Hr & E).
    assert (address_to_pkh_str addr = Ok (hex_of (firstn 20 rest))) as H by (apply address_to_pkh_ok_iff; eauto 8).
    rewrite H. eauto.
Qed.

(** ** round trips and agreement of the constructors *)

Lemma address_string_bytes h mainnet :
  bytes_of_string (a_string (new_address_from_pkh h mainnet)) = base58check (version_byte mainnet) h.
Proof.
  unfold new_address_from_pkh, base58_encode_missing_checksum. cbn [a_string].
  rewrite bytes_of_string_of_bytes. reflexivity.
Qed.

Lemma version_byte_supported mainnet : supported_version (version_byte mainnet).
Proof. destruct mainnet; [left|right]; reflexivity. Qed.

Theorem from_string_of_address h mainnet : List.length h = 20%nat ->
  new_address_from_string (a_string (new_address_from_pkh h mainnet)) = Ok (new_address_from_pkh h mainnet).
Proof.
  intros Hh. unfold new_address_from_string.
  assert (E : address_to_pkh_str (a_string (new_address_from_pkh h mainnet)) = Ok (hex_of h)).
  { apply address_to_pkh_ok_iff.
    exists (version_byte mainnet), (h ++ first4 (sha256d (version_byte mainnet :: h))).
    repeat split.
    - apply version_byte_supported.
    - rewrite app_length, first4_length, Hh. reflexivity.
    - apply address_string_bytes.
    - rewrite <- Hh, firstn_app, Nat.sub_diag, firstn_all. cbn [firstn]. rewrite app_nil_r. reflexivity. }
  rewrite E. reflexivity.
Qed.

Lemma b58_text_no_dash s : is_b58_text s -> ~ In x2d s.
Proof.
  intros [ds H]. revert ds H. induction s as [|c r IH]; intros ds H; [intros []|].
  rewrite b58_digits_cons in H. destruct (b58_index c) as [d|] eqn:Ec; [|discriminate].
  destruct (b58_digits r) as [t|] eqn:Er; [|discriminate].
  intros [->|Hin]; [discriminate Ec | exact (IH t eq_refl Hin)].
Qed.

Lemma has_prefix_bip276_dash s : has_prefix "bitcoin-script:" s = true -> In x2d (bytes_of_string s).
Proof.
  intros H. apply has_prefix_iff in H as [r ->]. rewrite bytes_of_string_app.
  apply in_or_app. left. vm_compute. tauto.
Qed.

Lemma validate_address_b58 s : is_b58_text (bytes_of_string s) ->
  validate_address s = is_ok (valid_a58 (bytes_of_string s)).
Proof.
  intros H. unfold validate_address. apply validate_other_lemma.
  destruct (has_prefix "bitcoin-script:" s) eqn:E; [|reflexivity].
  exfalso. apply (b58_text_no_dash _ H). apply has_prefix_bip276_dash. exact E.
Qed.

Theorem validate_of_address h mainnet : List.length h = 20%nat ->
  validate_address (a_string (new_address_from_pkh h mainnet)) = true.
Proof.
  intros Hh. rewrite validate_address_b58.
  - rewrite address_string_bytes.
    assert (valid_a58 (base58check (version_byte mainnet) h) = Ok tt) as ->; [|reflexivity].
    apply valid_a58_iff. exists (version_byte mainnet), h. repeat split; auto. apply version_byte_supported.
  - rewrite address_string_bytes. apply b58_encode_is_text.
Qed.

Lemma len20 (h : bytes) : List.length h = 20%nat ->
  exists a1 a2 a3 a4 a5 a6 a7 a8 a9 a10 a11 a12 a13 a14 a15 a16 a17 a18 a19 a20,
    h = [a1;a2;a3;a4;a5;a6;a7;a8;a9;a10;a11;a12;a13;a14;a15;a16;a17;a18;a19;a20].
Proof.
  intros H. do 20 (destruct h as [|? h]; [discriminate|]). destruct h; [|discriminate].
  repeat eexists.
Qed.

Lemma p2pkh_from_pkh_spec h : p2pkh_from_pkh h = p2pkh_script h.
Proof. reflexivity. Qed.

Lemma p2pkh_script_length h : List.length h = 20%nat -> List.length (p2pkh_script h) = 25%nat.
Proof. intros H. unfold p2pkh_script. rewrite !app_length, H. reflexivity. Qed.

Lemma is_p2pkh_script h : List.length h = 20%nat -> is_p2pkh (p2pkh_script h) = true.
Proof.
  intros H. destruct (len20 h H) as (a1&a2&a3&a4&a5&a6&a7&a8&a9&a10&a11&a12&a13&a14&a15&a16&a17&a18&a19&a20& ->).
  reflexivity.
Qed.

Lemma public_key_hash_script h : List.length h = 20%nat -> public_key_hash (p2pkh_script h) = Ok h.
Proof.
  intros H. destruct (len20 h H) as (a1&a2&a3&a4&a5&a6&a7&a8&a9&a10&a11&a12&a13&a14&a15&a16&a17&a18&a19&a20& ->).
  reflexivity.
Qed.

Lemma addresses_script h : List.length h = 20%nat ->
  addresses (p2pkh_script h) = Ok [a_string (new_address_from_pkh h true)].
Proof.
  intros H. unfold addresses. rewrite is_p2pkh_script, public_key_hash_script by exact H. reflexivity.
Qed.

Lemma push_data_prefix_20 h : List.length h = 20%nat -> push_data_prefix h = Ok [x14].
Proof. intros H. unfold push_data_prefix, lenN. rewrite H. reflexivity. Qed.

Lemma p2pkh_from_address_of_address h mainnet : List.length h = 20%nat ->
  p2pkh_from_address (a_string (new_address_from_pkh h mainnet)) = Ok (p2pkh_script h).
Proof.
  intros H. unfold p2pkh_from_address. rewrite from_string_of_address by exact H.
  cbn [a_pkh_hex new_address_from_pkh]. rewrite hexdecode_hex_of, push_data_prefix_20 by exact H.
  reflexivity.
Qed.

Lemma p2pkh_from_pubkey_bytes_spec k : List.length k = 33%nat ->
  p2pkh_from_pubkey_bytes k = Ok (p2pkh_script (hash160 k)).
Proof. intros H. unfold p2pkh_from_pubkey_bytes. rewrite H, p2pkh_from_pkh_spec. reflexivity. Qed.

Lemma new_address_from_public_key_spec k mainnet :
  new_address_from_public_key k mainnet = new_address_from_pkh (hash160 k) mainnet.
Proof. reflexivity. Qed.

(** accepted by the script-building path => the script is the canonical one for the hash that the
    string decodes to *)
Lemma p2pkh_from_address_ok addr s : p2pkh_from_address addr = Ok s ->
  exists v rest, supported_version v /\ List.length rest = 24%nat /\
    bytes_of_string addr = b58_encode (v :: rest) /\ s = p2pkh_script (firstn 20 rest).
Proof.
  unfold p2pkh_from_address, new_address_from_string.
  destruct (address_to_pkh_str addr) as [pkh|e|] eqn:E; try discriminate.
  apply address_to_pkh_ok_iff in E as (v & rest & Hv & Hr & E & ->). cbn [a_pkh_hex].
  rewrite hexdecode_hex_of, push_data_prefix_20 by (rewrite firstn_length; lia).
  intros [= <-]. exists v, rest. repeat split; auto.
Qed.

Lemma p2pkh_from_address_accept_iff addr :
  (exists s, p2pkh_from_address addr = Ok s) <-> (exists a, new_address_from_string addr = Ok a).
Proof.
  unfold p2pkh_from_address. split.
  - intros [s H]. destruct (new_address_from_string addr) as [a|e|]; try discriminate. eauto.
  - intros [a H]. rewrite H. unfold new_address_from_string in H.
    destruct (address_to_pkh_str addr) as [pkh|e|] eqn:E; try discriminate. injection H as <-.
    apply address_to_pkh_ok_iff in E as (v & rest & Hv & Hr & E & ->). cbn [a_pkh_hex].
    rewrite hexdecode_hex_of, push_data_prefix_20 by (rewrite firstn_length; lia). eauto.
Qed.

(** ** the checksum gap *)

Definition wrong_checksum_witness : string := "1E7ucTTWRTahCyViPhxSMor2pj4VGQdFMs".

Lemma witness_accepted :
  new_address_from_string wrong_checksum_witness =
    Ok (mkAddress wrong_checksum_witness "8fe80c75c9560e8b56ed64ea3c26e18d2c52211b") /\
  p2pkh_from_address wrong_checksum_witness =
    Ok (p2pkh_script (unhex "8fe80c75c9560e8b56ed64ea3c26e18d2c52211b")).
Proof. split; vm_compute; reflexivity. Qed.

Lemma witness_not_base58check : ~ is_p2pkh_address (bytes_of_string wrong_checksum_witness).
Proof.
  intros H. apply valid_a58_iff in H. revert H. vm_compute. discriminate.
Qed.

(** ** totality of the script decoder used by PublicKeyHash *)

Lemma skipn_length_le {A} n (l : list A) : (List.length (skipn n l) <= List.length l)%nat.
Proof. rewrite skipn_length. lia. Qed.

Lemma decode_parts_fuel_total f : forall b, (List.length b <= f)%nat ->
  (exists ps, decode_parts_fuel f b = Ok ps /\ (b <> [] -> ps <> [])) \/ decode_parts_fuel f b = Err EDataTooSmall.
Proof.
  induction f as [|f IH]; intros b Hb.
  - destruct b; [|cbn in Hb; lia]. left. exists []. split; [reflexivity|congruence].
  - destruct b as [|op rest]; [left; exists []; split; [reflexivity|congruence]|].
    cbn [List.length] in Hb.
    assert (K : forall part b', (List.length b' <= f)%nat ->
      (exists ps, match decode_parts_fuel f b' with Ok ps => Ok (part :: ps) | e => e end = Ok ps /\
                  (op :: rest <> [] -> ps <> [])) \/
      match decode_parts_fuel f b' with Ok ps => Ok (part :: ps) | e => e end = Err EDataTooSmall).
    { intros part b' Hb'. destruct (IH b' Hb') as [(ps & -> & _)| ->]; [left|right; reflexivity].
      exists (part :: ps). split; [reflexivity|discriminate]. }
    assert (Kc : forall hdr l, (1 <= hdr)%nat ->
      (exists ps, (let b1 := skipn hdr (op :: rest) in
         if lenN b1 <? l then Err EDataTooSmall
         else match decode_parts_fuel f (skipn (N.to_nat l) b1) with Ok ps => Ok (firstn (N.to_nat l) b1 :: ps) | e => e end) = Ok ps /\
         (op :: rest <> [] -> ps <> [])) \/
      (let b1 := skipn hdr (op :: rest) in
         if lenN b1 <? l then Err EDataTooSmall
         else match decode_parts_fuel f (skipn (N.to_nat l) b1) with Ok ps => Ok (firstn (N.to_nat l) b1 :: ps) | e => e end) = Err EDataTooSmall).
    { intros hdr l Hh. cbn zeta. destruct (lenN (skipn hdr (op :: rest)) <? l); [right; reflexivity|].
      apply K. rewrite !skipn_length. cbn [List.length]. lia. }
    cbn [decode_parts_fuel].
    destruct (byte_eqb op x4c).
    { destruct (Nat.ltb _ 2); [right; reflexivity|]. apply Kc. lia. }
    destruct (byte_eqb op x4d).
    { destruct (Nat.ltb _ 3); [right; reflexivity|]. apply Kc. lia. }
    destruct (byte_eqb op x4e).
    { destruct (Nat.ltb _ 5); [right; reflexivity|]. apply Kc. lia. }
    destruct ((1 <=? b2n op) && (b2n op <=? 78)).
    { destruct (Nat.ltb _ _); [right; reflexivity|]. apply K. rewrite skipn_length. cbn [List.length]. lia. }
    apply K. lia.
Qed.

Theorem public_key_hash_no_panic s : public_key_hash s <> Panic /\ public_key_hash s <> Err EFuel.
Proof.
  unfold public_key_hash. destruct s as [|s0 r]; [split; discriminate|].
  destruct (negb (byte_eqb s0 OpDUP) || Nat.leb (List.length (s0 :: r)) 2 || negb (byte_eqb (nth 1 (s0 :: r) x00) OpHASH160)) eqn:E;
    [split; discriminate|].
  apply orb_false_iff in E as [E _]. apply orb_false_iff in E as [_ E]. apply Nat.leb_gt in E.
  unfold decode_parts.
  destruct (decode_parts_fuel_total _ (skipn 2 (s0 :: r)) (le_n _)) as [(ps & -> & Hne)| ->]; [|split; discriminate].
  destruct ps as [|p ps]; [|split; discriminate]. exfalso. apply Hne; [|reflexivity].
  intros H. apply (f_equal (@List.length byte)) in H. rewrite skipn_length in H. cbn [List.length] in *. lia.
Qed.

(** ** statements exported by Properties/C15.v *)

Theorem address_roundtrip_lemma h mainnet : List.length h = 20%nat ->
  let a := new_address_from_pkh h mainnet in
  new_address_from_string (a_string a) = Ok a /\ a_pkh_hex a = hex_of h /\
  validate_address (a_string a) = true.
Proof.
  intros Hh a. repeat split; [apply from_string_of_address | apply validate_of_address]; exact Hh.
Qed.

Theorem address_roundtrip_key_lemma k mainnet :
  let a := new_address_from_public_key k mainnet in
  new_address_from_string (a_string a) = Ok a /\ a_pkh_hex a = hex_of (hash160 k) /\
  validate_address (a_string a) = true.
Proof.
  rewrite new_address_from_public_key_spec. apply address_roundtrip_lemma, hash160_length.
Qed.

Theorem constructors_agree_lemma k h mainnet : List.length k = 33%nat -> List.length h = 20%nat ->
  (* from key, from hash, from address: the same canonical 25-byte script *)
  p2pkh_from_pubkey_bytes k = Ok (p2pkh_script (hash160 k)) /\
  p2pkh_from_pkh h = p2pkh_script h /\
  p2pkh_from_pkh_str (hex_of h) = Ok (p2pkh_script h) /\
  p2pkh_from_address (a_string (new_address_from_pkh h mainnet)) = Ok (p2pkh_script h) /\
  List.length (p2pkh_script h) = 25%nat /\ is_p2pkh (p2pkh_script h) = true /\
  (* from which the same hash and address are recovered *)
  public_key_hash (p2pkh_script h) = Ok h /\
  addresses (p2pkh_script h) = Ok [a_string (new_address_from_pkh h true)] /\
  (* the key's address is the address of its hash160, a 20-byte hash *)
  new_address_from_public_key k mainnet = new_address_from_pkh (hash160 k) mainnet /\
  List.length (hash160 k) = 20%nat.
Proof.
  intros Hk Hh. repeat split.
  - apply p2pkh_from_pubkey_bytes_spec, Hk.
  - unfold p2pkh_from_pkh_str. rewrite hexdecode_hex_of. reflexivity.
  - apply p2pkh_from_address_of_address, Hh.
  - apply p2pkh_script_length, Hh.
  - apply is_p2pkh_script, Hh.
  - apply public_key_hash_script, Hh.
  - apply addresses_script, Hh.
  - apply hash160_length.
Qed.

Theorem validate_address_iff s :
  validate_address s = true <->
  (has_prefix "bitcoin-script:" s = true /\ exists v, decode_bip276 s = DOk v) \/
  is_p2pkh_address (bytes_of_string s).
Proof.
  split.
  - intros H. destruct (has_prefix "bitcoin-script:" s) eqn:Ep.
    + left. split; [reflexivity|]. unfold validate_address in H. apply (validate_iff_decodes_lemma _ s Ep) in H. exact H.
    + right. unfold validate_address in H. rewrite validate_other_lemma in H by exact Ep.
      apply valid_a58_iff. destruct (valid_a58 (bytes_of_string s)) as [[]| |]; [reflexivity|discriminate|discriminate].
  - intros [[Ep Hd]|Ha].
    + unfold validate_address. apply (validate_iff_decodes_lemma _ s Ep). exact Hd.
    + assert (Ht : is_b58_text (bytes_of_string s)).
      { destruct Ha as (v & h & _ & _ & ->). apply b58_encode_is_text. }
      rewrite validate_address_b58 by exact Ht. apply valid_a58_iff in Ha. rewrite Ha. reflexivity.
Qed.

(** on strings that are not bitcoin-script: texts (in particular on every Base58 string) *)
Theorem validate_accept_iff_base58check_lemma s : has_prefix "bitcoin-script:" s = false ->
  (validate_address s = true <-> is_p2pkh_address (bytes_of_string s)).
Proof.
  intros Ep. rewrite validate_address_iff. rewrite Ep. split; [|auto].
  intros [[E _]|H]; [discriminate|exact H].
Qed.

Lemma p2pkh_address_is_base58_25 s : is_p2pkh_address s -> is_base58_25 s.
Proof.
  intros (v & h & Hv & Hh & ->). exists v, (h ++ first4 (sha256d (v :: h))). repeat split; auto.
  rewrite app_length, first4_length, Hh. reflexivity.
Qed.

(** the full iff is false for the script-building path *)
Theorem from_address_accept_iff_base58check_refuted_lemma :
  exists addr, (exists a, new_address_from_string addr = Ok a) /\
               (exists s, p2pkh_from_address addr = Ok s) /\
               validate_address addr = false /\
               ~ is_p2pkh_address (bytes_of_string addr).
Proof.
  exists wrong_checksum_witness. destruct witness_accepted as [H1 H2].
  split; [eexists; exact H1|]. split; [eexists; exact H2|]. split.
  - vm_compute. reflexivity.
  - apply witness_not_base58check.
Qed.

(** what does hold: everything but the checksum, in both directions *)
Theorem from_address_accept_partial_lemma addr :
  ((exists a, new_address_from_string addr = Ok a) <-> is_base58_25 (bytes_of_string addr)) /\
  ((exists s, p2pkh_from_address addr = Ok s) <-> is_base58_25 (bytes_of_string addr)) /\
  (is_p2pkh_address (bytes_of_string addr) -> exists a, new_address_from_string addr = Ok a).
Proof.
  split; [apply from_string_accept_iff|]. split.
  - rewrite p2pkh_from_address_accept_iff. apply from_string_accept_iff.
  - intros H. apply from_string_accept_iff, p2pkh_address_is_base58_25, H.
Qed.
