(** Audit D, property C13: the acceptance direction of the two tokenisers and the third decoder.

    [decode_ok_iff_tokens]: DecodeParts accepts exactly the token sequences of the push grammar
    ([tokens], spec/TemplateSpec.v, written without reference to the library).
    [parse_accepts_tokens] / [parse_unparse_wellformed]: Parse (without ErrorOnCheckSig) accepts every
    such sequence at any conditional depth, so Unparse (Parse s) = s for every well-formed script.
    [truncated_push_rejected_decode]: DecodeParts rejects a truncated push after any well-formed prefix,
    OP_RETURN included.  [to_asm_marks_undecodable]: ToASM ends the text of every script that
    DecodeParts rejects with the marker [error].
    [tokens_or_truncated]: every byte string is a token sequence or a token sequence followed by a
    truncated push (the grammar leaves nothing else). *)
From Coq Require Import List NArith Lia ZifyN ZifyNat ZifyBool ZArith Bool String Ascii.
From Coq Require Import Strings.Byte.
From GoBT Require Import lib.Bytes lib.Hex lib.Checked model.Push model.Parser model.Asm model.Classify
  spec.PushSpec spec.TemplateSpec
  proofs.PushProofs proofs.ParserProofs proofs.TokenProofs proofs.ClassifyProofs proofs.TemplateProofs.
Import ListNotations.
Local Open Scope N_scope.

(** ** DecodeParts accepts exactly the token sequences *)
Theorem decode_ok_tokens : forall s, dres_ok (decode_parts s) = true -> tokens s.
Proof.
  induction s as [s IH] using bytes_len_ind. intros Hok.
  destruct s as [|b0 r]; [constructor|].
  rewrite decode_parts_cons in Hok.
  destruct (decode_step_clean (b0 :: r)) as [p rest| |] eqn:Estep; try discriminate Hok.
  rewrite dres_ok_dcons in Hok.
  pose proof (decode_step_clean_shorter _ _ _ Estep) as Hshort.
  specialize (IH rest Hshort Hok).
  destruct (decode_step_inv _ _ _ _ Estep) as [(Hnp & _ & -> & _)|(hdr & Hhdr & -> & _)].
  - apply tok_op; assumption.
  - apply tok_push; assumption.
Qed.

Theorem decode_ok_iff_tokens : forall s, dres_ok (decode_parts s) = true <-> tokens s.
Proof.
  intros s. split; [apply decode_ok_tokens|].
  intros Htok. destruct (tokens_decode s Htok) as [l ->]. reflexivity.
Qed.

(** ** a truncated push after ANY well-formed prefix is an error for DecodeParts *)
Theorem truncated_push_rejected_decode pre t : tokens pre -> truncated_push t ->
  dres_ok (decode_parts (pre ++ t)) = false.
Proof.
  intros Hpre Ht. destruct (truncated_step t Ht) as (b0 & tr & -> & Hb0 & Hstep).
  induction Hpre as [|b r Hb Hr IH|hdr data r Hh Hr IH].
  - cbn [app]. rewrite decode_parts_cons, Hstep. reflexivity.
  - cbn [app]. rewrite decode_parts_op by assumption. rewrite dres_ok_dcons. exact IH.
  - rewrite <- !app_assoc. rewrite decode_parts_push by assumption. rewrite dres_ok_dcons. exact IH.
Qed.

(** ** Parse accepts every well-formed script *)
Theorem parse_accepts_tokens s : tokens s -> forall cb, exists ops, parse_from false cb s = Ok ops.
Proof.
  induction 1 as [|b r Hb Hr IH|hdr data r Hh Hr IH]; intros cb.
  - exists []. apply parse_from_nil.
  - rewrite parse_from_cons. cbn [parse_step_clean andb]. cbv zeta.
    destruct ((b2n b =? OP_RETURN) && (cb_next (b2n b) cb =? 0)%Z); [eexists; reflexivity|].
    pose proof (b2n_lt b) as Hlt. unfold non_push in Hb.
    destruct (push_kind_cases (b2n b) Hlt) as [[E K]|[[E K]|[[E K]|[[E K]|[E K]]]]]; try lia.
    cbn [decode_step_clean]. rewrite K.
    destruct (IH (cb_next (b2n b) cb)) as [ops ->]. eexists; reflexivity.
  - destruct (push_header_first _ _ Hh) as (h0 & htl & Eh & Hh0).
    pose proof (decode_step_push hdr data r Hh) as Hstep. rewrite Eh in *. cbn [app] in *.
    rewrite parse_from_cons. cbn [parse_step_clean andb]. cbv zeta.
    replace (b2n h0 =? OP_RETURN) with false by (unfold OP_RETURN; lia). cbn [andb].
    rewrite Hstep. destruct (IH (cb_next (b2n h0) cb)) as [ops ->]. eexists; reflexivity.
Qed.

Corollary parse_unparse_wellformed s : tokens s -> exists ops, parse false s = Ok ops /\ unparse ops = Ok s.
Proof.
  intros Htok. destruct (parse_accepts_tokens s Htok 0%Z) as [ops E].
  exists ops. rewrite parse_is_parse_from. split; [exact E|].
  eapply unparse_parse. rewrite parse_is_parse_from. exact E.
Qed.

(** ** ToASM marks every script DecodeParts rejects *)
Lemma sapp_snoc_sp (t u : string) : ((t ++ " ") ++ u = t ++ String " " u)%string.
Proof. induction t as [|c t IH]; cbn [String.append]; [reflexivity|]. rewrite IH. reflexivity. Qed.

Theorem to_asm_marks_undecodable s : dres_ok (decode_parts s) = false ->
  exists pre, to_asm s = Ok (pre ++ "[error]")%string.
Proof.
  intros Hbad. unfold to_asm. destruct (lenN s =? 0) eqn:E0.
  { destruct s; [discriminate Hbad|discriminate E0]. }
  destruct s as [|b0 r]; [discriminate|].
  pose proof (decode_parts_total (b0 :: r)) as [T1 T2].
  assert (is_ok (if 1 <? lenN (b0 :: r)
                 then chk (idx (b0 :: r) 0) (fun s0 => if b2n s0 =? 106 then Ok true
                        else if b2n s0 =? 0 then chk (idx (b0 :: r) 1) (fun s1 => Ok (b2n s1 =? 106)) else Ok false)
                 else Ok false)) as [data Hdata].
  { destruct (1 <? lenN (b0 :: r)) eqn:E1; [|auto]. rewrite idx_0. cbn [chk].
    destruct (b2n b0 =? 106); [auto|]. destruct (b2n b0 =? 0); [|auto].
    destruct (idx_some (b0 :: r) 1) as [x ->]; [rewrite lenNg_lenN; lia|]. cbn [chk]. auto. }
  destruct (decode_parts (b0 :: r)) as [parts|parts| |] eqn:D; try congruence; try discriminate Hbad.
  rewrite Hdata; cbn [obind].
  destruct (asm_parts_ok data parts) as (body & Hb & Hne); rewrite Hb; cbn [obind dres_ok].
  destruct parts as [|p ps].
  - cbn [asm_parts] in Hb. injection Hb as <-. exists EmptyString. reflexivity.
  - destruct Hne as [t ->]; [discriminate|]. exists (t ++ " ")%string.
    cbn [String.append str_tail chk]. rewrite sapp_snoc_sp. reflexivity.
Qed.

(** ** every byte string is a token sequence, or one followed by a truncated push *)
Lemma lenN_repeat_byte n b : lenN (repeat_byte n b) = N.of_nat n.
Proof. unfold lenN. rewrite repeat_byte_length. reflexivity. Qed.

Lemma header_of_len (b0 : byte) (h : nat) (bs : bytes) :
  (b0 = x4c /\ h = 1%nat) \/ (b0 = x4d /\ h = 2%nat) \/ (b0 = x4e /\ h = 4%nat) ->
  List.length bs = h -> push_header (b0 :: bs) (le_dec bs).
Proof.
  intros Hk Hl. pose proof (le_dec_lt bs) as Hlt. pose proof (le_enc_dec bs) as Henc. rewrite Hl in Hlt, Henc.
  destruct Hk as [[-> ->]|[[-> ->]|[-> ->]]]; rewrite <- Henc at 1.
  - cbn [le_enc]. apply ph_pd1. exact Hlt.
  - apply ph_pd2. exact Hlt.
  - apply ph_pd4. exact Hlt.
Qed.

Lemma pad_short (r : bytes) (n : N) : lenN r < n ->
  exists pad, pad <> [] /\ lenN (r ++ pad) = n.
Proof.
  intros Hlt. exists (repeat_byte (N.to_nat (n - lenN r)) x00). split.
  - destruct (N.to_nat (n - lenN r)) eqn:E; [lia|discriminate].
  - rewrite lenN_app, lenN_repeat_byte. lia.
Qed.

Lemma truncated_klen (b0 : byte) (h : nat) (r : bytes) :
  (b0 = x4c /\ h = 1%nat) \/ (b0 = x4d /\ h = 2%nat) \/ (b0 = x4e /\ h = 4%nat) ->
  (if lenN r <? N.of_nat h then DSErr else take_data (le_dec (firstn h r)) (skipn h r)) = DSErr ->
  truncated_push (b0 :: r).
Proof.
  intros Hk Herr. destruct (lenN r <? N.of_nat h) eqn:Eh.
  - (* the header itself is cut short *)
    destruct (pad_short r (N.of_nat h)) as (pad & Hpad & Hlen); [apply N.ltb_lt; exact Eh|].
    set (n := le_dec (r ++ pad)).
    exists (b0 :: (r ++ pad)), (repeat_byte (N.to_nat n) x00), (pad ++ repeat_byte (N.to_nat n) x00).
    split.
    + rewrite lenN_repeat_byte, N2Nat.id. apply (header_of_len b0 h (r ++ pad) Hk). unfold lenN in Hlen. lia.
    + split; [discriminate|]. split; [destruct pad; [congruence|discriminate]|].
      cbn [app]. rewrite <- !app_assoc. reflexivity.
  - (* the data is cut short *)
    unfold take_data in Herr.
    destruct (lenN (skipn h r) <? le_dec (firstn h r)) eqn:Ed; [|discriminate Herr].
    destruct (pad_short (skipn h r) (le_dec (firstn h r))) as (pad & Hpad & Hlen); [apply N.ltb_lt; exact Ed|].
    exists (b0 :: firstn h r), (skipn h r ++ pad), pad.
    split.
    + rewrite Hlen. apply (header_of_len b0 h _ Hk). apply firstn_length_le. apply N.ltb_ge in Eh. unfold lenN in Eh. lia.
    + split; [discriminate|]. split; [exact Hpad|].
      cbn [app]. rewrite app_assoc, firstn_skipn. reflexivity.
Qed.

Lemma truncated_of_err b0 r : decode_step_clean (b0 :: r) = DSErr -> truncated_push (b0 :: r).
Proof.
  intros Herr. cbn [decode_step_clean] in Herr. pose proof (b2n_lt b0) as Hlt.
  destruct (push_kind_cases (b2n b0) Hlt) as [[E K]|[[E K]|[[E K]|[[E K]|[E K]]]]]; rewrite K in Herr.
  - apply (truncated_klen b0 1 r); [left; split; [apply b2n_inj; rewrite E; reflexivity|reflexivity]|exact Herr].
  - apply (truncated_klen b0 2 r); [right; left; split; [apply b2n_inj; rewrite E; reflexivity|reflexivity]|exact Herr].
  - apply (truncated_klen b0 4 r); [right; right; split; [apply b2n_inj; rewrite E; reflexivity|reflexivity]|exact Herr].
  - unfold take_data in Herr. destruct (lenN r <? b2n b0) eqn:Ed; [|discriminate Herr].
    destruct (pad_short r (b2n b0)) as (pad & Hpad & Hlen); [apply N.ltb_lt; exact Ed|].
    exists [b0], (r ++ pad), pad. split.
    + rewrite Hlen. rewrite <- (n2b_b2n b0) at 1. apply ph_direct. lia.
    + split; [discriminate|]. split; [exact Hpad|]. reflexivity.
  - discriminate Herr.
Qed.

Theorem tokens_or_truncated : forall s,
  tokens s \/ exists pre t, s = pre ++ t /\ tokens pre /\ truncated_push t.
Proof.
  induction s as [s IH] using bytes_len_ind.
  destruct s as [|b0 r]; [left; constructor|].
  destruct (decode_step_clean (b0 :: r)) as [p rest| |] eqn:Estep.
  - pose proof (decode_step_clean_shorter _ _ _ Estep) as Hshort.
    destruct (decode_step_inv _ _ _ _ Estep) as [(Hnp & _ & -> & _)|(hdr & Hhdr & Es & _)].
    + destruct (IH r Hshort) as [Htok|(pre & t & -> & Hpre & Ht)].
      * left. apply tok_op; assumption.
      * right. exists (b0 :: pre), t. split; [reflexivity|]. split; [apply tok_op; assumption|exact Ht].
    + rewrite Es. destruct (IH rest Hshort) as [Htok|(pre & t & -> & Hpre & Ht)].
      * left. apply tok_push; assumption.
      * right. exists (hdr ++ p ++ pre), t. split; [rewrite <- !app_assoc; reflexivity|].
        split; [apply tok_push; assumption|exact Ht].
  - right. exists [], (b0 :: r). split; [reflexivity|]. split; [constructor|apply truncated_of_err; exact Estep].
  - exfalso. eapply decode_step_clean_no_panic; eauto.
Qed.
