(** C05, the operation-count invariant (thread.executeOpcode: numOps++ for every opcode above OP_16, error when
    numOps > MaxOps; opcodeCheckMultiSig: numOps += numPubKeys with the same test).

    [nops s <= max_ops c] is an invariant of a run: it holds of every state a script starts from (numOps = 0 after
    shiftScript) and one instruction keeps it.  What is needed from the signature operations is that they COUNT what
    they add ([sigops_counted]); it is discharged for [no_sigops] and for the real ones ([mk_sigops], both variants). *)
From Coq Require Import List NArith ZArith Lia Bool.
From Coq Require Import Strings.Byte.
From GoBT Require Import lib.Bytes model.Tx model.SigHash model.ScriptNum model.Interp model.CheckSig proofs.InterpTotal.
Import ListNotations.
Local Open Scope Z_scope.

(** a successful outcome never lowers the counter and stays within the limit *)
Definition counted (c : ctx) (s : st) (o : outcome) : Prop :=
  forall s', (o = OOk s' \/ o = OReturn s') -> nops s <= max_ops c -> nops s <= nops s' <= max_ops c.

(** the condition on the signature operations *)
Definition sigops_counted (so : sigops) : Prop :=
  forall c s idx vf, counted c s (so_checksig so c s idx vf) /\ counted c s (so_checkmultisig so c s idx vf).

Lemma ct_ok c s s' : nops s' = nops s -> counted c s (OOk s').
Proof. intros E s2 [H|H] Hle; inversion H; subst; lia. Qed.
Lemma ct_ret c s s' : nops s' = nops s -> counted c s (OReturn s').
Proof. intros E s2 [H|H] Hle; inversion H; subst; lia. Qed.
Lemma ct_err c s : counted c s OErr.
Proof. intros s2 [H|H]; discriminate. Qed.
Lemma ct_panic c s : counted c s OPanic.
Proof. intros s2 [H|H]; discriminate. Qed.
Lemma ct_push c s s0 x : nops s0 = nops s -> counted c s (push s0 x).
Proof. intros E. apply ct_ok. exact E. Qed.
Lemma ct_push_num c s s0 z : nops s0 = nops s -> counted c s (push_num s0 z).
Proof. intros E. apply ct_ok. exact E. Qed.
Lemma ct_push_bool c s s0 b : nops s0 = nops s -> counted c s (push_bool s0 b).
Proof. intros E. apply ct_ok. exact E. Qed.
Lemma ct_verify c s s0 : nops s0 = nops s -> counted c s (verify_top s0).
Proof.
  intros E. unfold verify_top. destruct (ds s0) as [|t r]; [apply ct_err|].
  destruct (as_bool t); [apply ct_ok; exact E|apply ct_err].
Qed.
Lemma ct_unary c s f : counted c s (unary_num c s f).
Proof.
  unfold unary_num. destruct (ds s) as [|a r]; [apply ct_err|].
  destruct (pop_num c a); [apply ct_push_num; reflexivity|apply ct_err].
Qed.
Lemma ct_binary c s f : counted c s (binary_num c s f).
Proof.
  unfold binary_num. destruct (ds s) as [|a [|b r]]; [apply ct_err| |].
  - destruct (pop_num c a); apply ct_err.
  - destruct (pop_num c a) as [v0|]; [|apply ct_err]. destruct (pop_num c b) as [v1|]; [|apply ct_err].
    destruct (f v0 v1); [apply ct_push_num; reflexivity|apply ct_err].
Qed.
Lemma ct_nop c s : counted c s (nop_like c s).
Proof. unfold nop_like. destruct (has_flag c F_DISCOURAGE_NOPS); [apply ct_err|apply ct_ok; reflexivity]. Qed.

Lemma ct_binary_verify c s f :
  counted c s (match binary_num c s f with OOk s' => verify_top s' | o => o end).
Proof.
  pose proof (ct_binary c s f) as Hk.
  destruct (binary_num c s f) as [s1|s1| |] eqn:E; [|exact Hk|apply ct_err|apply ct_panic].
  intros s' H' Hle. destruct (Hk s1 (or_introl eq_refl) Hle) as [A B].
  assert (Hv : counted c s1 (verify_top s1)) by (apply ct_verify; reflexivity).
  specialize (Hv s' H' B). lia.
Qed.

Lemma pop_if_bool_nops c s ok s1 : pop_if_bool c s = Some (ok, s1) -> nops s1 = nops s.
Proof.
  unfold pop_if_bool. destruct (ds s) as [|b r]; [discriminate|].
  destruct (has_flag c F_MINIMALIF).
  - destruct (Nat.ltb 1 (length b)); [discriminate|]. destruct b as [|x [|y b']].
    + intros [= _ <-]. reflexivity.
    + destruct (b2n x =? 1)%N; [|discriminate]. intros [= _ <-]. reflexivity.
    + intros [= _ <-]. reflexivity.
  - intros [= _ <-]. reflexivity.
Qed.

Lemma ct_if c s (v : N) (x : bool -> N) :
  counted c s
  (if should_exec c s v
   then if branch_executing s
        then match pop_if_bool c s with
             | Some (ok, s0) =>
                 OOk (set_cond s0 (x ok :: cond s0)
                        (if after_genesis c then false :: els s0 else els s0))
             | None => OErr
             end
        else OOk (set_cond s (COND_SKIP :: cond s) (if after_genesis c then false :: els s else els s))
   else OOk (set_cond s (COND_FALSE :: cond s) (if after_genesis c then false :: els s else els s))).
Proof.
  destruct (should_exec c s v); [|apply ct_ok; reflexivity].
  destruct (branch_executing s); [|apply ct_ok; reflexivity].
  destruct (pop_if_bool c s) as [[ok s0]|] eqn:E; [|apply ct_err].
  apply ct_ok. cbn [nops set_cond]. exact (pop_if_bool_nops c s ok s0 E).
Qed.

#[local] Hint Resolve ct_ok ct_ret ct_err ct_panic ct_push ct_push_num ct_push_bool ct_verify
  ct_unary ct_binary ct_nop : cnt.

Ltac ct_tac :=
  repeat first
    [ solve [auto with cnt]
    | solve [apply ct_ok; reflexivity]
    | solve [apply ct_ret; reflexivity]
    | solve [apply ct_push; reflexivity]
    | solve [apply ct_push_num; reflexivity]
    | solve [apply ct_push_bool; reflexivity]
    | break_if
    | break_match ].

(** every handler: only the signature operations touch the counter *)
Lemma handler_counted so c p idx s : sigops_counted so -> counted c s (exec_handler so c p idx s).
Proof.
  intros Hso. unfold exec_handler.
  destruct (negb (p_real p)); [apply ct_panic|].
  assert (Hcs : forall vf, counted c s (so_checksig so c s idx vf)) by (intros vf; apply (Hso c s idx vf)).
  assert (Hcm : forall vf, counted c s (so_checkmultisig so c s idx vf)) by (intros vf; apply (Hso c s idx vf)).
  repeat match goal with
  | |- counted _ _ (if (?v =? ?k)%N then _ else _) => destruct (v =? k)%N eqn:?
  | |- counted _ _ (if (?v <=? ?k)%N then _ else _) => destruct (v <=? k)%N eqn:?
  | |- counted _ _ (if ((?v =? ?k)%N || _) then _ else _) => destruct (v =? k)%N eqn:?; cbn [orb]
  | |- counted _ _ (if (_ || _) then _ else _) => break_if
  end;
  try congruence;
  try solve [apply Hcs]; try solve [apply Hcm];
  try solve [match goal with |- counted _ _ (if should_exec _ _ _ then _ else _) => apply ct_if end];
  try solve [ct_tac].
  apply ct_binary_verify.
Qed.

(** ** One instruction *)
Theorem execute_opcode_counted : forall so c p idx s, sigops_counted so -> counted c s (execute_opcode so c p idx s).
Proof.
  intros so c p idx s Hso. unfold execute_opcode.
  destruct (max_elem c <? lenZ (p_data p)); [apply ct_err|].
  destruct (is_disabled (p_val p) && _); [apply ct_err|].
  destruct (always_illegal (p_val p) && _); [apply ct_err|].
  set (s1 := if (OP_16 <? p_val p)%N then set_nops s (nops s + 1) else s).
  destruct ((OP_16 <? p_val p)%N && (max_ops c <? nops s1)) eqn:Elim; [apply ct_err|].
  assert (H1 : nops s <= nops s1 /\ (nops s <= max_ops c -> nops s1 <= max_ops c)).
  { subst s1. destruct (OP_16 <? p_val p)%N; cbn [andb] in Elim.
    - cbn [nops set_nops] in *. apply Z.ltb_ge in Elim. lia.
    - lia. }
  destruct H1 as [Hmono Hlim].
  assert (Hlift : forall o, counted c s1 o -> counted c s o).
  { intros o Ho s' H' Hle. specialize (Ho s' H' (Hlim Hle)). lia. }
  destruct (negb (branch_executing s1) && _); [apply Hlift, ct_ok; reflexivity|].
  destruct (has_flag c F_MINIMALDATA && _ && _ && _ && _); [apply ct_err|].
  destruct (negb (should_exec c s (p_val p)) && _); [apply Hlift, ct_ok; reflexivity|].
  apply Hlift, handler_counted. exact Hso.
Qed.

(** the counter counts: pushes (everything up to OP_16, OP_RESERVED included) are free, every other opcode costs at
    least one, executed or not *)
Theorem execute_opcode_counts : forall so c p idx s s', sigops_counted so -> nops s <= max_ops c ->
  (execute_opcode so c p idx s = OOk s' \/ execute_opcode so c p idx s = OReturn s') ->
  nops s + (if (OP_16 <? p_val p)%N then 1 else 0) <= nops s' <= max_ops c.
Proof.
  intros so c p idx s s' Hso Hle. unfold execute_opcode.
  destruct (max_elem c <? lenZ (p_data p)); [intros [H|H]; discriminate|].
  destruct (is_disabled (p_val p) && _); [intros [H|H]; discriminate|].
  destruct (always_illegal (p_val p) && _); [intros [H|H]; discriminate|].
  set (s1 := if (OP_16 <? p_val p)%N then set_nops s (nops s + 1) else s).
  destruct ((OP_16 <? p_val p)%N && (max_ops c <? nops s1)) eqn:Elim; [intros [H|H]; discriminate|].
  assert (H1 : nops s1 = nops s + (if (OP_16 <? p_val p)%N then 1 else 0) /\ nops s1 <= max_ops c).
  { subst s1. destruct (OP_16 <? p_val p)%N; cbn [andb] in Elim.
    - cbn [nops set_nops] in *. apply Z.ltb_ge in Elim. lia.
    - lia. }
  destruct H1 as [E1 Hle1]. rewrite <- E1.
  assert (Hc : forall o, counted c s1 o -> (o = OOk s' \/ o = OReturn s') -> nops s1 <= nops s' <= max_ops c).
  { intros o Ho H'. exact (Ho s' H' Hle1). }
  destruct (negb (branch_executing s1) && _); [apply Hc, ct_ok; reflexivity|].
  destruct (has_flag c F_MINIMALDATA && _ && _ && _ && _); [intros [H|H]; discriminate|].
  destruct (negb (should_exec c s (p_val p)) && _); [apply Hc, ct_ok; reflexivity|].
  apply Hc, handler_counted. exact Hso.
Qed.

(** ** Along one script: all the states a run goes through.
    [run_states]: the state after each successfully executed opcode (the one that overflows the stack and an early
    OP_RETURN included), in order. *)
Fixpoint run_states (so : sigops) (c : ctx) (ops : list pop) (idx : nat) (s : st) : list st :=
  match ops with
  | [] => []
  | p :: rest =>
      match execute_opcode so c p idx s with
      | OOk s' => s' :: (if max_stack c <? lenZ (ds s') + lenZ (als s') then [] else run_states so c rest (S idx) s')
      | OReturn s' => [s']
      | _ => []
      end
  end.

Lemma last_nonempty {A} (l : list A) x d d' : last (x :: l) d = last (x :: l) d'.
Proof. revert x. induction l as [|y l IH]; intros x; [reflexivity|]. cbn [last] in *. apply IH. Qed.
Lemma last_shift {A} (l : list A) x d : last l x = last (x :: l) d.
Proof. destruct l as [|y l]; [reflexivity|]. cbn [last]. apply (last_nonempty l y). Qed.

(** [run_states] is the run: the script ends in the last of these states, and every AfterStep snapshot is the
    snapshot of one of them *)
Theorem run_states_is_the_run : forall so c ops idx s acc,
  match fst (run_ops so c ops idx s acc) with
  | SEnd s' | SReturn s' => s' = last (run_states so c ops idx s) s
  | SErr | SPanic => True
  end /\
  exists l, snd (run_ops so c ops idx s acc) = rev (map snap l) ++ acc /\ incl l (run_states so c ops idx s).
Proof.
  intros so c. induction ops as [|p rest IH]; intros idx s acc.
  - cbn. split; [reflexivity|]. exists []. split; [reflexivity|apply incl_refl].
  - cbn [run_ops run_states].
    destruct (execute_opcode so c p idx s) as [s'|s'| |] eqn:Ex; cbn [fst snd];
      try (split; [first [exact I|reflexivity]|]; exists []; split; [reflexivity|apply incl_nil_l]).
    destruct (max_stack c <? lenZ (ds s') + lenZ (als s')); cbn [fst snd];
      [split; [exact I|]; exists []; split; [reflexivity|apply incl_nil_l]|].
    destruct rest as [|q rest2].
    + cbn [fst snd run_states]. split; [reflexivity|]. exists []. split; [reflexivity|apply incl_nil_l].
    + destruct (IH (S idx) s' (snap s' :: acc)) as [Hend (l & Hl & Hin)]. split.
      * destruct (fst (run_ops so c (q :: rest2) (S idx) s' (snap s' :: acc))) as [s2|s2| |]; try exact I.
        -- rewrite Hend. apply last_shift.
        -- rewrite Hend. apply last_shift.
      * exists (s' :: l). split.
        -- rewrite Hl. cbn [map rev]. rewrite <- app_assoc. reflexivity.
        -- intros x [<-|Hx]; [left; reflexivity|right; apply Hin; exact Hx].
Qed.

(** the invariant at every step of a script *)
Theorem run_states_counted : forall so c, sigops_counted so -> forall ops idx s,
  nops s <= max_ops c -> Forall (fun s' => nops s <= nops s' <= max_ops c) (run_states so c ops idx s).
Proof.
  intros so c Hso. induction ops as [|p rest IH]; intros idx s Hle; [constructor|].
  cbn [run_states].
  pose proof (execute_opcode_counted so c p idx s Hso) as Hc.
  destruct (execute_opcode so c p idx s) as [s'|s'| |] eqn:Ex; try constructor.
  - exact (Hc s' (or_introl eq_refl) Hle).
  - destruct (max_stack c <? lenZ (ds s') + lenZ (als s')); [constructor|].
    destruct (Hc s' (or_introl eq_refl) Hle) as [A B].
    eapply Forall_impl; [|apply IH; exact B]. cbn beta. intros x Hx. lia.
  - exact (Hc s' (or_intror eq_refl) Hle).
  - constructor.
Qed.

(** the state a script ends in *)
Corollary run_ops_counted : forall so c, sigops_counted so -> forall ops idx s acc,
  nops s <= max_ops c ->
  match fst (run_ops so c ops idx s acc) with
  | SEnd s' | SReturn s' => nops s <= nops s' <= max_ops c
  | SErr | SPanic => True
  end.
Proof.
  intros so c Hso ops idx s acc Hle.
  destruct (run_states_is_the_run so c ops idx s acc) as [Hend _].
  pose proof (run_states_counted so c Hso ops idx s Hle) as Hall.
  assert (Hlast : nops s <= nops (last (run_states so c ops idx s) s) <= max_ops c).
  { destruct (run_states so c ops idx s) as [|x l] eqn:El; [cbn; lia|].
    assert (Hne : x :: l <> []) by discriminate.
    pose proof (@app_removelast_last _ (x :: l) s Hne) as Hsplit.
    rewrite Hsplit in Hall. apply Forall_app in Hall. destruct Hall as [_ Hl]. inversion Hl; subst. assumption. }
  destruct (fst (run_ops so c ops idx s acc)) as [s'|s'| |]; try exact I; subst s'; exact Hlast.
Qed.

(** every script starts with the counter at zero, which is within the limit *)
Lemma max_ops_pos c : 0 < max_ops c.
Proof. unfold max_ops, max_int32. destruct (after_genesis c); lia. Qed.
Lemma start_counted c script d : nops (set_ds (init_st script) d) <= max_ops c.
Proof. cbn. pose proof (max_ops_pos c). lia. Qed.
Lemma shift_counted c s next : nops (shift_script s next) <= max_ops c.
Proof. cbn. pose proof (max_ops_pos c). lia. Qed.

(** ** The condition holds without signature operations ... *)
Theorem no_sigops_counted : sigops_counted no_sigops.
Proof. intros c s idx vf. split; apply ct_err. Qed.

(** ** ... and for the real ones: OP_CHECKSIG leaves the counter alone, OP_CHECKMULTISIG adds the number of public
    keys after checking the sum against the limit *)
Lemma ct_finish c s vf o : counted c s o -> counted c s (finish_verify vf o).
Proof.
  intros Hk. unfold finish_verify. destruct vf; [|exact Hk].
  destruct o as [s1|s1| |]; try exact Hk.
  intros s' H' Hle. destruct (Hk s1 (or_introl eq_refl) Hle) as [A B].
  assert (Hv : counted c s1 (verify_top s1)) by (apply ct_verify; reflexivity).
  specialize (Hv s' H' B). lia.
Qed.

Lemma checksig_counted orc t i c s idx vf :
  forall x, checksig_run orc t i c s idx vf = Some x -> counted c s x.
Proof.
  unfold checksig_run.
  destruct (ds s) as [|pk [|full r]]; try (intros x [= <-]; apply ct_err).
  set (s1 := set_ds s r).
  assert (Hg : forall b, counted c s (finish_verify vf (push_bool s1 b))).
  { intros b. apply ct_finish, ct_push_bool. reflexivity. }
  assert (Hge : counted c s (finish_verify vf OErr)) by (apply ct_finish, ct_err).
  assert (Hgp : counted c s (finish_verify vf OPanic)) by (apply ct_finish, ct_panic).
  assert (Hgf : counted c s (finish_verify vf (checksig_failed c s1 full))).
  { unfold checksig_failed. destruct (has_flag c F_NULLFAIL && Nat.ltb 0 (length full))%bool; [exact Hge|apply Hg]. }
  intros x Hx.
  repeat match type of Hx with
  | option_map _ (match ?e with _ => _ end) = _ => destruct e
  | option_map _ (if ?e then _ else _) = _ => destruct e
  | option_map _ (let _ := _ in _) = _ => cbv zeta in Hx
  end; cbn [option_map] in Hx; try discriminate Hx; injection Hx as <-;
  first [exact Hge|exact Hgp|exact Hgf|apply Hg].
Qed.

Lemma checkmultisig_counted orc t i c s idx vf :
  forall x, checkmultisig_run orc t i c s idx vf = Some x -> counted c s x.
Proof.
  unfold checkmultisig_run.
  destruct (ds s) as [|nk d1]; [intros x [= <-]; apply ct_err|].
  destruct (pop_count c nk) as [nkz|]; [|intros x [= <-]; apply ct_err]. cbv zeta.
  destruct (to_int32 nkz <? 0) eqn:Eneg; [intros x [= <-]; apply ct_err|].
  destruct (max_pubkeys c <? to_int32 nkz); [intros x [= <-]; apply ct_err|].
  destruct (max_ops c <? nops s + to_int32 nkz) eqn:Elim; [intros x [= <-]; apply ct_err|].
  apply Z.ltb_ge in Eneg. apply Z.ltb_ge in Elim.
  destruct (pop_n (to_int32 nkz) d1) as [[pks d2]|]; [|intros x [= <-]; apply ct_err].
  destruct d2 as [|ns d3]; [intros x [= <-]; apply ct_err|].
  destruct (pop_count c ns) as [nsz|]; [|intros x [= <-]; apply ct_err].
  destruct (to_int32 nsz <? 0); [intros x [= <-]; apply ct_err|].
  destruct (to_int32 nkz <? to_int32 nsz); [intros x [= <-]; apply ct_err|].
  destruct (pop_n (to_int32 nsz) d3) as [[sigs d4]|]; [|intros x [= <-]; apply ct_err].
  destruct d4 as [|dummy d5]; [intros x [= <-]; apply ct_err|].
  destruct (has_flag c F_STRICTMULTISIG && negb (Nat.eqb (length dummy) 0))%bool; [intros x [= <-]; apply ct_err|].
  set (s1 := set_nops (set_ds s d5) (nops s + to_int32 nkz)).
  assert (Hg : forall b, counted c s (finish_verify vf (push_bool s1 b))).
  { intros b. apply ct_finish. intros s' [H|H] Hle; inversion H; subst s'. cbn [nops set_ds set_nops s1]. lia. }
  destruct (ms_loop _ _ _ _ _ _ _ _ _ _ _ _ _) as [b| | | | |]; intros x Hx; try discriminate Hx;
    try (injection Hx as <-; first [apply ct_err|apply ct_panic|apply Hg]).
  destruct (negb b && has_flag c F_NULLFAIL && existsb _ sigs)%bool; injection Hx as <-; [apply ct_err|apply Hg].
Qed.

Theorem mk_sigops_counted : forall orc t i, sigops_counted (mk_sigops orc t i).
Proof.
  intros orc t i c s idx vf. cbn [mk_sigops so_checksig so_checkmultisig].
  pose proof (checksig_counted orc t i c s idx vf) as A.
  pose proof (checkmultisig_counted orc t i c s idx vf) as B.
  split.
  - destruct (checksig_run orc t i c s idx vf) as [o|]; [apply A; reflexivity|apply ct_err].
  - destruct (checkmultisig_run orc t i c s idx vf) as [o|]; [apply B; reflexivity|apply ct_err].
Qed.

Theorem mk_sigops_loud_counted : forall orc t i, sigops_counted (mk_sigops_loud orc t i).
Proof.
  intros orc t i c s idx vf. cbn [mk_sigops_loud so_checksig so_checkmultisig].
  pose proof (checksig_counted orc t i c s idx vf) as A.
  pose proof (checkmultisig_counted orc t i c s idx vf) as B.
  split.
  - destruct (checksig_run orc t i c s idx vf) as [o|]; [apply A; reflexivity|apply ct_panic].
  - destruct (checkmultisig_run orc t i c s idx vf) as [o|]; [apply B; reflexivity|apply ct_panic].
Qed.

Print Assumptions execute_opcode_counted.
Print Assumptions run_states_counted.
Print Assumptions mk_sigops_counted.
