(** C19 — proofs about the instrumented interpreter model (model/Debug.v):
    - the instrumented run computes exactly what the plain run computes (verdict and snapshots), for every
      input and every signature-operation parameter: the callbacks cannot influence the machine;
    - the callback trace is accepted by the lifecycle automaton, in a final state determined by the verdict;
    - the last callback is AfterSuccess iff the verdict is success;
    - there is one snapshot per AfterStep;
    - the snapshots of one script are the states produced by consecutive [execute_opcode]s. *)
From Coq Require Import List NArith ZArith Lia Bool.
From Coq Require Import Strings.Byte.
From GoBT Require Import lib.Bytes model.ScriptNum model.Interp model.Debug spec.LifecycleSpec proofs.InterpTotal.
Import ListNotations.
Local Open Scope Z_scope.

(** ** 1. The debugger is irrelevant: projections of the instrumented run *)
Lemma fst_pre evs r : fst (pre evs r) = fst r.
Proof. destruct r as [[v sn] e]. reflexivity. Qed.

Lemma run_ops_dbg_fst so c : forall ops idx s acc,
  fst (run_ops_dbg so c ops idx s acc) = run_ops so c ops idx s acc.
Proof.
  induction ops as [|p rest IH]; intros idx s acc; [reflexivity|].
  cbn [run_ops_dbg run_ops].
  destruct (execute_opcode so c p idx s) as [s'|s'| |]; try reflexivity.
  destruct (max_stack c <? lenZ (ds s') + lenZ (als s')); [reflexivity|].
  destruct rest as [|p' rest']; [reflexivity|].
  rewrite <- IH.
  destruct (run_ops_dbg so c (p' :: rest') (S idx) s' (snap s' :: acc)) as [[e a] evs]. reflexivity.
Qed.

Lemma finish_dbg_fst c d acc : fst (finish_dbg c d acc) = finish c d acc.
Proof. unfold finish_dbg, finish. destruct (check_error_condition c true d); reflexivity. Qed.

Lemma run_redeem_dbg_fst so c saved s acc :
  fst (run_redeem_dbg so c saved s acc) = run_redeem so c saved s acc.
Proof.
  unfold run_redeem_dbg, run_redeem.
  destruct (negb (check_error_condition c false (ds s))); [reflexivity|].
  destruct saved as [|script below]; [reflexivity|].
  destruct (parse_script (c_err_on_checksig c) script) as [ops|]; [|reflexivity].
  cbv zeta. destruct ops as [|p rest]; [rewrite fst_pre; apply finish_dbg_fst|].
  rewrite <- run_ops_dbg_fst.
  destruct (run_ops_dbg so c (p :: rest) 0 _ _) as [[e a] evs]. cbn [fst].
  destruct e as [s2|s2| |]; try reflexivity.
  - destruct (end_script s2); [|reflexivity]. rewrite fst_pre. apply finish_dbg_fst.
  - rewrite fst_pre. apply finish_dbg_fst.
Qed.

Lemma run_lock_dbg_fst so c bip16 saved lock s acc :
  fst (run_lock_dbg so c bip16 saved lock s acc) = run_lock so c bip16 saved lock s acc.
Proof.
  unfold run_lock_dbg, run_lock. rewrite <- run_ops_dbg_fst.
  destruct (run_ops_dbg so c lock 0 s acc) as [[e a] evs]. cbn [fst].
  destruct e as [s2|s2| |]; try reflexivity.
  - destruct (end_script s2); [|reflexivity].
    destruct (bip16 && negb (after_genesis c)); rewrite fst_pre;
      [apply run_redeem_dbg_fst|apply finish_dbg_fst].
  - rewrite fst_pre. apply finish_dbg_fst.
Qed.

Lemma execute_dbg_fst so c bip16 unlock lock :
  fst (execute_dbg so c bip16 unlock lock) = execute so c bip16 unlock lock.
Proof.
  unfold execute_dbg, execute.
  destruct unlock as [|u urest].
  - destruct lock as [|l lrest]; [reflexivity|]. rewrite fst_pre. apply run_lock_dbg_fst.
  - rewrite <- run_ops_dbg_fst.
    destruct (run_ops_dbg so c (u :: urest) 0 _ _) as [[e a] evs]. cbn [fst].
    destruct e as [s1|s1| |]; try reflexivity.
    + destruct (end_script s1) as [s2|]; [|reflexivity]. cbv zeta.
      destruct lock as [|l lrest]; rewrite fst_pre; [apply finish_dbg_fst|apply run_lock_dbg_fst].
    + cbv zeta. destruct lock as [|l lrest]; rewrite fst_pre; [apply finish_dbg_fst|apply run_lock_dbg_fst].
Qed.

(** the instrumented engine returns the verdict and the snapshots of the plain engine *)
Theorem debugger_irrelevant so i : fst (engine_execute_dbg so i) = engine_execute so i.
Proof.
  unfold engine_execute_dbg, engine_execute, rejected.
  set (c := mkCtx _ _ _ _ _ _).
  assert (Hbody : forall ubytes lbytes,
    fst (if has_flag c F_CLEANSTACK && negb (has_flag c F_BIP16) then (VErr, [], [])
         else if (max_script_size c <? lenZ ubytes) || (max_script_size c <? lenZ lbytes) then (VErr, [], [])
         else match parse_script (c_err_on_checksig c) ubytes with
              | None => (VErr, [], [])
              | Some u =>
                  match parse_script (c_err_on_checksig c) lbytes with
                  | None => (VErr, [], [])
                  | Some l =>
                      if has_flag c F_SIGPUSHONLY && negb (is_push_only u) then (VErr, [], [])
                      else
                        let p2sh := has_flag c F_BIP16 && negb (after_genesis c) && is_p2sh lbytes in
                        if p2sh && negb (is_push_only u) then (VErr, [], [])
                        else execute_dbg so c p2sh u l
                  end
              end) =
    (if has_flag c F_CLEANSTACK && negb (has_flag c F_BIP16) then (VErr, [])
     else if (max_script_size c <? lenZ ubytes) || (max_script_size c <? lenZ lbytes) then (VErr, [])
     else match parse_script (c_err_on_checksig c) ubytes with
          | None => (VErr, [])
          | Some u =>
              match parse_script (c_err_on_checksig c) lbytes with
              | None => (VErr, [])
              | Some l =>
                  if has_flag c F_SIGPUSHONLY && negb (is_push_only u) then (VErr, [])
                  else
                    let p2sh := has_flag c F_BIP16 && negb (after_genesis c) && is_p2sh lbytes in
                    if p2sh && negb (is_push_only u) then (VErr, [])
                    else execute so c p2sh u l
              end
          end)).
  { intros ubytes lbytes.
    destruct (has_flag c F_CLEANSTACK && negb (has_flag c F_BIP16)); [reflexivity|].
    destruct ((max_script_size c <? lenZ ubytes) || (max_script_size c <? lenZ lbytes)); [reflexivity|].
    destruct (parse_script (c_err_on_checksig c) ubytes) as [u|]; [|reflexivity].
    destruct (parse_script (c_err_on_checksig c) lbytes) as [l|]; [|reflexivity].
    destruct (has_flag c F_SIGPUSHONLY && negb (is_push_only u)); [reflexivity|].
    cbv zeta.
    destruct (has_flag c F_BIP16 && negb (after_genesis c) && is_p2sh lbytes && negb (is_push_only u)); [reflexivity|].
    apply execute_dbg_fst. }
  destruct (ei_unlock i) as [|ub ur]; destruct (ei_lock i) as [|lb lr]; try reflexivity; apply Hbody.
Qed.

Corollary debugger_irrelevant_verdict so i : verdict_of (engine_execute_dbg so i) = fst (engine_execute so i).
Proof. unfold verdict_of. rewrite debugger_irrelevant. reflexivity. Qed.
Corollary debugger_irrelevant_snapshots so i : snapshots_of (engine_execute_dbg so i) = snd (engine_execute so i).
Proof. unfold snapshots_of. rewrite debugger_irrelevant. reflexivity. Qed.

(** ** 2. The trace is accepted by the lifecycle automaton; one snapshot per AfterStep *)
Lemma lrun_app : forall a b q,
  lrun q (a ++ b) = match lrun q a with Some q' => lrun q' b | None => None end.
Proof.
  induction a as [|e a IH]; intros b q; [reflexivity|].
  cbn [app lrun]. destruct (lstep q e); [apply IH|reflexivity].
Qed.

Lemma count_AS_app : forall a b, count_AS (a ++ b) = (count_AS a + count_AS b)%nat.
Proof.
  induction a as [|e a IH]; intros b; [reflexivity|].
  cbn [app count_AS]. destruct e; rewrite IH; reflexivity.
Qed.

(** the automaton state in which a run with verdict [v] ends: a panic unwinds through the deferred
    AfterExecute and fires neither AfterSuccess nor AfterError *)
Definition qfinal (v : verdict) : lstate :=
  match v with VOk => QOk | VErr => QErr | VPanic => QAEerr end.

(** [inv q n r]: started in automaton state [q] with [n] snapshots already taken, the continuation [r]
    drives the automaton into the final state of its verdict and takes one snapshot per AfterStep *)
Definition inv (q : lstate) (n : nat) (r : dres) : Prop :=
  lrun q (events_of r) = Some (qfinal (verdict_of r)) /\
  length (snapshots_of r) = (n + count_AS (events_of r))%nat.

Lemma inv_pre q q1 n m evs r :
  lrun q evs = Some q1 -> m = (n + count_AS evs)%nat -> inv q1 m r -> inv q n (pre evs r).
Proof.
  intros Hq -> [Hr Hc]. destruct r as [[v sn] e]. unfold inv, events_of, verdict_of, snapshots_of in *.
  cbn [pre fst snd] in *. rewrite lrun_app, Hq, count_AS_app. split; [exact Hr|lia].
Qed.

Lemma inv_err q q' n acc evs :
  lrun q evs = Some q' -> lstep q' AE = Some QAEerr -> length acc = (n + count_AS evs)%nat ->
  inv q n (err_dbg acc evs).
Proof.
  intros Hq Hs Hc. unfold inv, err_dbg, events_of, verdict_of, snapshots_of. cbn [fst snd qfinal].
  rewrite lrun_app, Hq, count_AS_app, rev_length. cbn [lrun count_AS]. rewrite Hs. cbn. split; [reflexivity|lia].
Qed.

Lemma inv_panic q q' n acc evs :
  lrun q evs = Some q' -> lstep q' AE = Some QAEerr -> length acc = (n + count_AS evs)%nat ->
  inv q n (panic_dbg acc evs).
Proof.
  intros Hq Hs Hc. unfold inv, panic_dbg, events_of, verdict_of, snapshots_of. cbn [fst snd qfinal].
  rewrite lrun_app, Hq, count_AS_app, rev_length. cbn [lrun count_AS]. rewrite Hs. split; [reflexivity|lia].
Qed.

Lemma inv_finish c d acc : inv QLoop (length acc) (finish_dbg c d acc).
Proof.
  unfold inv, finish_dbg, events_of, verdict_of, snapshots_of.
  destruct (check_error_condition c true d); cbn [fst snd qfinal lrun lstep count_AS]; rewrite rev_length;
    split; (reflexivity || lia).
Qed.

(** where [run_ops_dbg] leaves the automaton, and how many snapshots it adds *)
Definition ops_inv (q : lstate) (n : nat) (r : script_end * list snapshot * list ev) : Prop :=
  let '(e, acc', evs) := r in
  length acc' = (n + count_AS evs)%nat /\
  match e with
  | SEnd _ => lrun q evs = Some QAO
  | SReturn _ => lrun q evs = Some QBO
  | SErr | SPanic => exists q', lrun q evs = Some q' /\ lstep q' AE = Some QAEerr
  end.

Lemma run_ops_dbg_inv so c : forall ops idx s acc q,
  ops <> [] -> lstep q BS = Some QBS -> ops_inv q (length acc) (run_ops_dbg so c ops idx s acc).
Proof.
  induction ops as [|p rest IH]; intros idx s acc q Hne Hq; [congruence|].
  cbn [run_ops_dbg].
  destruct (execute_opcode so c p idx s) as [s'|s'| |].
  - destruct (max_stack c <? lenZ (ds s') + lenZ (als s')).
    + cbn [ops_inv lrun count_AS]. rewrite Hq. cbn [lstep]. split; [lia|]. exists QAO. split; reflexivity.
    + destruct rest as [|p' rest'].
      * cbn [ops_inv lrun count_AS]. rewrite Hq. cbn [lstep]. split; [lia|reflexivity].
      * specialize (IH (S idx) s' (snap s' :: acc) QLoop ltac:(discriminate) eq_refl).
        destruct (run_ops_dbg so c (p' :: rest') (S idx) s' (snap s' :: acc)) as [[e a] evs].
        cbn [ops_inv] in *. cbn [lrun count_AS]. rewrite Hq. cbn [lstep]. cbn [length] in IH.
        destruct IH as [Hc He]. split; [lia|exact He].
  - cbn [ops_inv lrun count_AS]. rewrite Hq. cbn [lstep]. split; [lia|reflexivity].
  - cbn [ops_inv lrun count_AS]. rewrite Hq. cbn [lstep]. split; [lia|]. exists QBO. split; reflexivity.
  - cbn [ops_inv lrun count_AS]. rewrite Hq. cbn [lstep]. split; [lia|]. exists QBO. split; reflexivity.
Qed.

Lemma lrun_snoc3 q evs q1 a b c0 q2 :
  lrun q evs = Some q1 -> lrun q1 [a; b; c0] = Some q2 -> lrun q (evs ++ [a; b; c0]) = Some q2.
Proof. intros H1 H2. rewrite lrun_app, H1. exact H2. Qed.

Lemma run_redeem_dbg_inv so c saved s acc : inv QACe (length acc) (run_redeem_dbg so c saved s acc).
Proof.
  unfold run_redeem_dbg.
  destruct (negb (check_error_condition c false (ds s))).
  { eapply inv_err; [reflexivity|reflexivity|cbn; lia]. }
  destruct saved as [|script below].
  { eapply inv_panic; [reflexivity|reflexivity|cbn; lia]. }
  destruct (parse_script (c_err_on_checksig c) script) as [ops|].
  2:{ eapply inv_err; [reflexivity|reflexivity|cbn; lia]. }
  cbv zeta. destruct ops as [|p rest].
  { eapply inv_pre; [reflexivity| |apply inv_finish]. cbn. lia. }
  pose proof (run_ops_dbg_inv so c (p :: rest) 0%nat (set_ds (shift_script s (p :: rest)) below)
                (snap (set_ds (shift_script s (p :: rest)) below) :: acc) QLoop ltac:(discriminate) eq_refl) as H.
  destruct (run_ops_dbg so c (p :: rest) 0 _ _) as [[e a] evs]. cbn [ops_inv length] in H.
  destruct H as [Hc He].
  destruct e as [s2|s2| |].
  - destruct (end_script s2) as [s3|].
    + eapply inv_pre; [| |apply inv_finish].
      * cbn [lrun lstep]. apply lrun_snoc3 with (q1 := QAO); [exact He|reflexivity].
      * cbn [length count_AS]. rewrite count_AS_app. cbn. lia.
    + eapply inv_err with (q' := QAO); [exact He|reflexivity|cbn [count_AS]; lia].
  - eapply inv_pre; [| |apply inv_finish].
    * cbn [lrun lstep]. apply lrun_snoc3 with (q1 := QBO); [exact He|reflexivity].
    * cbn [length count_AS]. rewrite count_AS_app. cbn. lia.
  - destruct He as [q' [H1 H2]]. eapply inv_err; [exact H1|exact H2|cbn [count_AS]; lia].
  - destruct He as [q' [H1 H2]]. eapply inv_panic; [exact H1|exact H2|cbn [count_AS]; lia].
Qed.

Lemma run_lock_dbg_inv so c bip16 saved lock s acc q :
  lock <> [] -> lstep q BS = Some QBS -> inv q (length acc) (run_lock_dbg so c bip16 saved lock s acc).
Proof.
  intros Hne Hq. unfold run_lock_dbg.
  pose proof (run_ops_dbg_inv so c lock 0%nat s acc q Hne Hq) as H.
  destruct (run_ops_dbg so c lock 0 s acc) as [[e a] evs]. cbn [ops_inv] in H. destruct H as [Hc He].
  destruct e as [s2|s2| |].
  - destruct (end_script s2) as [s3|].
    + destruct (bip16 && negb (after_genesis c)).
      * eapply inv_pre with (q1 := QACe); [| |apply run_redeem_dbg_inv].
        -- rewrite lrun_app, He. reflexivity.
        -- rewrite count_AS_app. cbn. lia.
      * eapply inv_pre; [| |apply inv_finish].
        -- apply lrun_snoc3 with (q1 := QAO); [exact He|reflexivity].
        -- cbn [length]. rewrite count_AS_app. cbn. lia.
    + eapply inv_err with (q' := QAO); [exact He|reflexivity|lia].
  - eapply inv_pre; [| |apply inv_finish].
    + apply lrun_snoc3 with (q1 := QBO); [exact He|reflexivity].
    + cbn [length]. rewrite count_AS_app. cbn. lia.
  - destruct He as [q' [H1 H2]]. eapply inv_err; [exact H1|exact H2|lia].
  - destruct He as [q' [H1 H2]]. eapply inv_panic; [exact H1|exact H2|lia].
Qed.

Lemma execute_dbg_inv so c bip16 unlock lock :
  execute_dbg so c bip16 unlock lock = rejected \/ inv QStart 0 (execute_dbg so c bip16 unlock lock).
Proof.
  unfold execute_dbg.
  destruct unlock as [|u urest].
  - destruct lock as [|l lrest]; [left; reflexivity|right].
    eapply inv_pre with (q1 := QBE); [reflexivity|reflexivity|].
    apply (run_lock_dbg_inv so c bip16 [] (l :: lrest) (init_st (l :: lrest)) [] QBE); [discriminate|reflexivity].
  - right.
    pose proof (run_ops_dbg_inv so c (u :: urest) 0%nat (init_st (u :: urest)) [] QBE ltac:(discriminate) eq_refl) as H.
    destruct (run_ops_dbg so c (u :: urest) 0 _ _) as [[e a] evs]. cbn [ops_inv length] in H. destruct H as [Hc He].
    destruct e as [s1|s1| |].
    + destruct (end_script s1) as [s2|].
      * cbv zeta. destruct lock as [|l lrest].
        -- eapply inv_pre; [| |apply inv_finish].
           ++ cbn [lrun lstep]. apply lrun_snoc3 with (q1 := QAO); [exact He|reflexivity].
           ++ cbn [length count_AS]. rewrite count_AS_app. cbn. lia.
        -- eapply inv_pre with (q1 := QLoop); [| |apply run_lock_dbg_inv; [discriminate|reflexivity]].
           ++ cbn [lrun lstep]. apply lrun_snoc3 with (q1 := QAO); [exact He|reflexivity].
           ++ cbn [length count_AS]. rewrite count_AS_app. cbn. lia.
      * eapply inv_err with (q' := QAO); [cbn [lrun lstep]; exact He|reflexivity|cbn [count_AS]; lia].
    + cbv zeta. destruct lock as [|l lrest].
      * eapply inv_pre; [| |apply inv_finish].
        -- cbn [lrun lstep]. apply lrun_snoc3 with (q1 := QBO); [exact He|reflexivity].
        -- cbn [length count_AS]. rewrite count_AS_app. cbn. lia.
      * eapply inv_pre with (q1 := QLoop); [| |apply run_lock_dbg_inv; [discriminate|reflexivity]].
        -- cbn [lrun lstep]. apply lrun_snoc3 with (q1 := QBO); [exact He|reflexivity].
        -- cbn [length count_AS]. rewrite count_AS_app. cbn. lia.
    + destruct He as [q' [H1 H2]]. eapply inv_err; [cbn [lrun lstep]; exact H1|exact H2|cbn [count_AS]; lia].
    + destruct He as [q' [H1 H2]]. eapply inv_panic; [cbn [lrun lstep]; exact H1|exact H2|cbn [count_AS]; lia].
Qed.

(** every run is either rejected before a thread exists (no callbacks, no snapshots, error) or its trace
    drives the lifecycle automaton from the start state into the final state of its verdict *)
Theorem engine_trace_inv so i :
  engine_execute_dbg so i = rejected \/ inv QStart 0 (engine_execute_dbg so i).
Proof.
  unfold engine_execute_dbg.
  set (c := mkCtx _ _ _ _ _ _).
  assert (Hbody : forall ubytes lbytes,
    let r := (if has_flag c F_CLEANSTACK && negb (has_flag c F_BIP16) then rejected
         else if (max_script_size c <? lenZ ubytes) || (max_script_size c <? lenZ lbytes) then rejected
         else match parse_script (c_err_on_checksig c) ubytes with
              | None => rejected
              | Some u =>
                  match parse_script (c_err_on_checksig c) lbytes with
                  | None => rejected
                  | Some l =>
                      if has_flag c F_SIGPUSHONLY && negb (is_push_only u) then rejected
                      else
                        let p2sh := has_flag c F_BIP16 && negb (after_genesis c) && is_p2sh lbytes in
                        if p2sh && negb (is_push_only u) then rejected
                        else execute_dbg so c p2sh u l
                  end
              end) in r = rejected \/ inv QStart 0 r).
  { intros ubytes lbytes. cbv zeta.
    destruct (has_flag c F_CLEANSTACK && negb (has_flag c F_BIP16)); [left; reflexivity|].
    destruct ((max_script_size c <? lenZ ubytes) || (max_script_size c <? lenZ lbytes)); [left; reflexivity|].
    destruct (parse_script (c_err_on_checksig c) ubytes) as [u|]; [|left; reflexivity].
    destruct (parse_script (c_err_on_checksig c) lbytes) as [l|]; [|left; reflexivity].
    destruct (has_flag c F_SIGPUSHONLY && negb (is_push_only u)); [left; reflexivity|].
    destruct (has_flag c F_BIP16 && negb (after_genesis c) && is_p2sh lbytes && negb (is_push_only u)); [left; reflexivity|].
    apply execute_dbg_inv. }
  destruct (ei_unlock i) as [|ub ur]; destruct (ei_lock i) as [|lb lr]; try (left; reflexivity); apply Hbody.
Qed.

(** the documented grammar holds of every trace that is not cut short by a panic ... *)
Theorem trace_grammar_nopanic so i :
  verdict_of (engine_execute_dbg so i) <> VPanic ->
  events_of (engine_execute_dbg so i) = [] \/ lifecycle_ok (events_of (engine_execute_dbg so i)) = true.
Proof.
  intros Hv. destruct (engine_trace_inv so i) as [H|[H _]]; [left; rewrite H; reflexivity|right].
  unfold lifecycle_ok. rewrite H. destruct (verdict_of (engine_execute_dbg so i)); [reflexivity|reflexivity|congruence].
Qed.

(** ... and panics do not happen (C07), given signature operations that do not panic *)
Theorem trace_grammar so i :
  sigops_ok so ->
  events_of (engine_execute_dbg so i) = [] \/ lifecycle_ok (events_of (engine_execute_dbg so i)) = true.
Proof.
  intros Hso. apply trace_grammar_nopanic. rewrite debugger_irrelevant_verdict.
  apply engine_execute_no_panic. exact Hso.
Qed.

(** the trace is empty only when the arguments were rejected (error verdict, no snapshot) *)
Theorem empty_trace_is_rejection so i :
  events_of (engine_execute_dbg so i) = [] -> engine_execute_dbg so i = rejected.
Proof.
  intros He. destruct (engine_trace_inv so i) as [H|[H _]]; [exact H|].
  rewrite He in H. cbn in H. destruct (verdict_of (engine_execute_dbg so i)); discriminate.
Qed.

(** ** 3. The last callback tells the verdict *)
Lemma lrun_last : forall evs q qf, lrun q evs = Some qf -> evs <> [] ->
  exists q', lstep q' (last evs BE) = Some qf.
Proof.
  induction evs as [|e r IH]; intros q qf H Hne; [congruence|].
  cbn [lrun] in H. destruct (lstep q e) as [q1|] eqn:Es; [|discriminate].
  destruct r as [|e' r'].
  - cbn in H. injection H as <-. exists q. exact Es.
  - change (last (e :: e' :: r') BE) with (last (e' :: r') BE). apply (IH q1 qf H). discriminate.
Qed.

Lemma lstep_into_ok q e : lstep q e = Some QOk -> e = EOK.
Proof. destruct q, e; cbn; intros H; try discriminate; reflexivity. Qed.
Lemma lstep_into_err q e : lstep q e = Some QErr -> e = EER.
Proof. destruct q, e; cbn; intros H; try discriminate; reflexivity. Qed.
Lemma lstep_into_aeerr q e : lstep q e = Some QAEerr -> e = AE.
Proof. destruct q, e; cbn; intros H; try discriminate; reflexivity. Qed.

Theorem trace_last_event so i :
  let r := engine_execute_dbg so i in
  events_of r <> [] ->
  last (events_of r) BE = match verdict_of r with VOk => EOK | VErr => EER | VPanic => AE end.
Proof.
  cbv zeta. intros Hne. destruct (engine_trace_inv so i) as [H|[H _]].
  - rewrite H in Hne. cbn in Hne. congruence.
  - destruct (lrun_last _ _ _ H Hne) as [q' Hq'].
    destruct (verdict_of (engine_execute_dbg so i)); cbn [qfinal] in Hq'.
    + eapply lstep_into_ok; eauto.
    + eapply lstep_into_err; eauto.
    + eapply lstep_into_aeerr; eauto.
Qed.

(** AfterSuccess is the last callback iff the verdict is success (for every input, including rejected ones,
    whose trace is empty) *)
Theorem trace_ends_with_verdict so i :
  last (events_of (engine_execute_dbg so i)) BE = EOK <-> verdict_of (engine_execute_dbg so i) = VOk.
Proof.
  destruct (engine_trace_inv so i) as [H|[H _]].
  - rewrite H. cbn. split; discriminate.
  - assert (Hne : events_of (engine_execute_dbg so i) <> []).
    { intros E. rewrite E in H. cbn in H. destruct (verdict_of (engine_execute_dbg so i)); discriminate. }
    rewrite (trace_last_event so i Hne).
    destruct (verdict_of (engine_execute_dbg so i)); split; congruence.
Qed.

(** ** 4. One snapshot per AfterStep *)
Theorem as_count_is_snapshots so i :
  count_AS (events_of (engine_execute_dbg so i)) = length (snapshots_of (engine_execute_dbg so i)).
Proof.
  destruct (engine_trace_inv so i) as [H|[_ H]]; [rewrite H; reflexivity|]. rewrite H. reflexivity.
Qed.

(** ** 5. Snapshots chain: within a script, the snapshots taken are those of the states produced by
    consecutive instructions — the state a snapshot was taken of is the state the next step starts from *)
Section Chain.
  Variable so : sigops.
  Variable c : ctx.

  (** [steps ops idx s l]: executing a prefix of [ops] from [s] produces the states [l], each by
      [execute_opcode] from the previous one, each within the stack limit and none the last of the script *)
  Inductive steps : list pop -> nat -> st -> list st -> Prop :=
  | steps_nil ops idx s : steps ops idx s []
  | steps_cons p rest idx s s' l :
      execute_opcode so c p idx s = OOk s' ->
      (max_stack c <? lenZ (ds s') + lenZ (als s')) = false ->
      rest <> [] ->
      steps rest (S idx) s' l ->
      steps (p :: rest) idx s (s' :: l).

  Lemma run_ops_snapshots_chain : forall ops idx s acc,
    exists l, steps ops idx s l /\ snd (run_ops so c ops idx s acc) = rev (map snap l) ++ acc.
  Proof.
    induction ops as [|p rest IH]; intros idx s acc.
    - exists []. split; [constructor|reflexivity].
    - cbn [run_ops].
      destruct (execute_opcode so c p idx s) as [s'|s'| |] eqn:Ex;
        try (exists []; split; [constructor|reflexivity]).
      destruct (max_stack c <? lenZ (ds s') + lenZ (als s')) eqn:Em;
        [exists []; split; [constructor|reflexivity]|].
      destruct rest as [|p' rest']; [exists []; split; [constructor|reflexivity]|].
      destruct (IH (S idx) s' (snap s' :: acc)) as [l [Hl Hs]].
      exists (s' :: l). split; [constructor; auto; discriminate|].
      rewrite Hs. cbn [map rev]. rewrite <- app_assoc. reflexivity.
  Qed.

  (** the same for the instrumented run (it takes the same snapshots) *)
  Lemma run_ops_dbg_snapshots_chain : forall ops idx s acc,
    exists l, steps ops idx s l /\ snd (fst (run_ops_dbg so c ops idx s acc)) = rev (map snap l) ++ acc.
  Proof. intros. rewrite run_ops_dbg_fst. apply run_ops_snapshots_chain. Qed.
End Chain.

(** ** 6. The automaton decides exactly the grammar of spec/LifecycleSpec.v *)

Lemma complete_step_lrun st q : complete_step st -> lstep q BS = Some QBS -> lrun q st = Some QLoop.
Proof. intros H Hq. destruct H; cbn [lrun]; rewrite Hq; reflexivity. Qed.

Lemma completed_lrun r : completed r -> lrun QLoop r = Some QLoop.
Proof.
  induction 1 as [|st r Hs Hr IH]; [reflexivity|].
  rewrite lrun_app, (complete_step_lrun st QLoop Hs eq_refl). exact IH.
Qed.

Lemma lifecycle_accepted tr : lifecycle tr -> lifecycle_ok tr = true.
Proof.
  intros H. unfold lifecycle_ok. destruct H as [st r Hs Hr|st r Hs Hr|r b Hr Hb]; cbn [lrun lstep].
  - rewrite !lrun_app, (complete_step_lrun st QBE Hs eq_refl). cbv beta iota. rewrite (completed_lrun r Hr). reflexivity.
  - rewrite !lrun_app, (complete_step_lrun st QBE Hs eq_refl). cbv beta iota. rewrite (completed_lrun r Hr). reflexivity.
  - destruct Hr as [|st r Hs Hr].
    + destruct Hb; reflexivity.
    + rewrite <- app_assoc, lrun_app, (complete_step_lrun st QBE Hs eq_refl). cbv beta iota.
      rewrite lrun_app, (completed_lrun r Hr). destruct Hb; reflexivity.
Qed.

Lemma lrun_final_ok t qf : lrun QOk t = Some qf -> t = [] /\ qf = QOk.
Proof. destruct t as [|e t]; cbn; [intros H; injection H as <-; auto|destruct e; discriminate]. Qed.
Lemma lrun_final_err t qf : lrun QErr t = Some qf -> t = [] /\ qf = QErr.
Proof. destruct t as [|e t]; cbn; [intros H; injection H as <-; auto|destruct e; discriminate]. Qed.

(** what the automaton accepts from the loop state *)
Definition loop_shape (tr : list ev) (qf : lstate) : Prop :=
  (exists r, completed r /\ tr = r ++ [AE; EOK] /\ qf = QOk) \/
  (exists r, completed r /\ tr = r ++ [AE; EER] /\ qf = QErr) \/
  (exists r b, completed r /\ interrupted_step b /\ tr = r ++ b ++ [AE; EER] /\ qf = QErr).

Ltac adv H :=
  match type of H with
  | lrun _ ?t = Some _ => destruct t as [|[] ?]; cbn [lrun lstep] in H; try discriminate H
  end.

Lemma loop_shape_step st tr qf : complete_step st -> loop_shape tr qf -> loop_shape (st ++ tr) qf.
Proof.
  intros Hs [[r [Hr [-> ->]]]|[[r [Hr [-> ->]]]|[r [b [Hr [Hb [-> ->]]]]]]].
  - left. exists (st ++ r). rewrite app_assoc. repeat split; auto. constructor; auto.
  - right; left. exists (st ++ r). rewrite app_assoc. repeat split; auto. constructor; auto.
  - right; right. exists (st ++ r), b. rewrite app_assoc. repeat split; auto. constructor; auto.
Qed.

Lemma lrun_loop_shape : forall n tr qf, (length tr <= n)%nat -> (qf = QOk \/ qf = QErr) ->
  lrun QLoop tr = Some qf -> loop_shape tr qf.
Proof.
  induction n as [|n IH]; intros tr qf Hn Hqf H.
  - destruct tr; [|cbn in Hn; lia]. cbn in H. injection H as <-. destruct Hqf; discriminate.
  - adv H.
    + injection H as <-. destruct Hqf; discriminate.
    + (* AE *) adv H.
      * injection H as <-. destruct Hqf; discriminate.
      * apply lrun_final_ok in H as [-> ->]. left. exists []. repeat split. constructor.
      * apply lrun_final_err in H as [-> ->]. right; left. exists []. repeat split. constructor.
    + (* BS *) adv H.
      * injection H as <-. destruct Hqf; discriminate.
      * (* BS AE *) adv H. { injection H as <-. destruct Hqf; discriminate. }
        apply lrun_final_err in H as [-> ->]. right; right. exists [], [BS]. repeat split; constructor.
      * (* BS BO *) adv H.
        { injection H as <-. destruct Hqf; discriminate. }
        { (* BS BO AE *) adv H. { injection H as <-. destruct Hqf; discriminate. }
          apply lrun_final_err in H as [-> ->]. right; right. exists [], [BS; BO]. repeat split; constructor. }
        { (* BS BO AO *) adv H.
          { injection H as <-. destruct Hqf; discriminate. }
          { adv H. { injection H as <-. destruct Hqf; discriminate. }
            apply lrun_final_err in H as [-> ->]. right; right. exists [], [BS; BO; AO]. repeat split; constructor. }
          { (* AS *) apply (loop_shape_step [BS; BO; AO; AS]); [constructor|].
            apply IH; auto. cbn [length] in Hn. lia. }
          { (* BC *) adv H. { injection H as <-. destruct Hqf; discriminate. }
            adv H. { injection H as <-. destruct Hqf; discriminate. }
            { adv H. { injection H as <-. destruct Hqf; discriminate. }
              apply lrun_final_err in H as [-> ->]. right; right. exists [], [BS; BO; AO; BC; AC]. repeat split; constructor. }
            { apply (loop_shape_step [BS; BO; AO; BC; AC; AS]); [constructor|].
              apply IH; auto. cbn [length] in Hn. lia. } } }
        { (* BS BO BC *) adv H. { injection H as <-. destruct Hqf; discriminate. }
          adv H. { injection H as <-. destruct Hqf; discriminate. }
          apply (loop_shape_step [BS; BO; BC; AC; AS]); [constructor|].
          apply IH; auto. cbn [length] in Hn. lia. }
Qed.

Theorem lifecycle_ok_iff tr : lifecycle_ok tr = true <-> lifecycle tr.
Proof.
  split; [|apply lifecycle_accepted].
  unfold lifecycle_ok. intros H.
  destruct (lrun QStart tr) as [qf|] eqn:E; [|discriminate].
  assert (Hqf : qf = QOk \/ qf = QErr) by (destruct qf; try discriminate; auto).
  clear H. adv E. { injection E as <-. destruct Hqf; discriminate. }
  adv E. { injection E as <-. destruct Hqf; discriminate. }
  (* BE BS l0: same as the loop state reading BS *)
  match type of E with lrun QBS ?t = _ => assert (E' : lrun QLoop (BS :: t) = Some qf) by exact E end.
  apply (lrun_loop_shape _ _ _ (le_n _) Hqf) in E'.
  destruct E' as [[r [Hr [Ht ->]]]|[[r [Hr [Ht ->]]]|[r [b [Hr [Hb [Ht ->]]]]]]].
  - destruct Hr as [|st r Hs Hr]; [discriminate Ht|]. rewrite Ht. constructor; auto.
  - destruct Hr as [|st r Hs Hr]; [discriminate Ht|]. rewrite Ht. constructor; auto.
  - rewrite Ht. constructor; auto.
Qed.

(** the trace of every run is a sentence of the documented grammar (or empty: arguments rejected) *)
Theorem trace_in_grammar so i :
  sigops_ok so ->
  events_of (engine_execute_dbg so i) = [] \/ lifecycle (events_of (engine_execute_dbg so i)).
Proof.
  intros Hso. destruct (trace_grammar so i Hso) as [H|H]; [left; exact H|right].
  apply lifecycle_ok_iff. exact H.
Qed.
