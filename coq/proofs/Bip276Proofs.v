(** Proofs about model/Bip276.v: the regular-expression matcher splits at the last colon,
    exact characterisation of the accepted texts, round trip, layout. *)
From Coq Require Import String Ascii List NArith ZArith Bool Lia.
From Coq Require Import Strings.Byte.
From GoBT Require Import lib.Bytes lib.Hex lib.Str lib.Sha256 model.Bip276 spec.Bip276Spec.
Import ListNotations.
Local Open Scope string_scope.

(** ** generic facts *)

Lemma sdrop_sdrop a b s : sdrop a (sdrop b s) = sdrop (b + a) s.
Proof.
  revert s; induction b as [|b IH]; intros s; [reflexivity|].
  destruct s as [|c r]; cbn [sdrop Nat.add]; [destruct a; reflexivity | apply IH].
Qed.

Lemma sha256_length m : List.length (sha256 m) = 32%nat.
Proof.
  unfold sha256.
  destruct (fold_left compress256 _ iv256) as [[[[[[[a b] c] d] e] f] g] h]. reflexivity.
Qed.

Lemma checksum_of_length p : String.length (checksum_of p) = 8.
Proof.
  unfold checksum_of. rewrite hex_of_length, firstn_length.
  unfold sha256d. rewrite sha256_length. reflexivity.
Qed.

Lemma checksum_of_hex p : string_forall is_hexdigit (checksum_of p) = true.
Proof. apply hex_of_all_hex. Qed.

Lemma checksum_text_eq p : checksum_text p = checksum_of p.
Proof. reflexivity. Qed.

Lemma is_hexdigit_colon : is_hexdigit ":" = false.
Proof. reflexivity. Qed.

Lemma tail_not_ok_colon a b : tail_ok (a ++ ":" ++ b) = false.
Proof.
  unfold tail_ok. rewrite string_forall_app. cbn [append string_forall].
  rewrite is_hexdigit_colon. cbn. rewrite andb_false_r. reflexivity.
Qed.

(** ** the lazy prefix search *)

Lemma lazy_prefix_split acc p H :
  acc ++ p <> "" -> no_newline p = true -> tail_ok H = true ->
  lazy_prefix acc (p ++ ":" ++ H) = Some (acc ++ p, H).
Proof.
  revert acc; induction p as [|c p IH]; intros acc Hne Hnl Hok.
  - rewrite sapp_nil_r in *. cbn [append lazy_prefix].
    destruct (String.eqb_spec acc "") as [->|_]; [congruence|].
    rewrite Hok. reflexivity.
  - cbn [append lazy_prefix].
    change (String c (p ++ String ":" H)) with (String c (p ++ ":" ++ H)).
    cbn [no_newline string_forall] in Hnl. apply andb_true_iff in Hnl as [Hc Hnl].
    change (p ++ String ":" H) with (p ++ ":" ++ H).
    rewrite tail_not_ok_colon, andb_false_r.
    unfold newline. apply negb_true_iff in Hc. rewrite Hc.
    rewrite IH; auto.
    + rewrite sapp_assoc. reflexivity.
    + rewrite sapp_assoc. cbn. destruct acc; cbn; discriminate.
Qed.

Lemma lazy_prefix_inv acc s p r :
  lazy_prefix acc s = Some (p, r) ->
  exists q, p = acc ++ q /\ s = q ++ ":" ++ r /\ tail_ok r = true /\ p <> "" /\ no_newline q = true.
Proof.
  revert acc; induction s as [|c s IH]; intros acc H; [discriminate|].
  cbn [lazy_prefix] in H.
  destruct (negb (String.eqb acc "") && Ascii.eqb c ":" && tail_ok s) eqn:E.
  - injection H as <- <-. apply andb_true_iff in E as [E Hok]. apply andb_true_iff in E as [Hne Hc].
    apply Ascii.eqb_eq in Hc as ->. exists "". rewrite sapp_nil_r. repeat split; auto.
    apply negb_true_iff in Hne. intros ->. discriminate.
  - destruct (Ascii.eqb c newline) eqn:Hn; [discriminate|].
    destruct (IH _ H) as (q & -> & -> & Hok & Hne & Hnl).
    exists (String c q). rewrite sapp_assoc. repeat split; auto.
    + rewrite sapp_assoc in Hne. exact Hne.
    + cbn [no_newline string_forall]. unfold newline in Hn. rewrite Hn. exact Hnl.
Qed.

(** the split is at the last colon: nothing after it is a colon *)
Lemma lazy_prefix_last_colon text p r :
  lazy_prefix "" text = Some (p, r) ->
  text = p ++ ":" ++ r /\ string_forall (fun c => negb (Ascii.eqb c ":")) r = true.
Proof.
  intros H. destruct (lazy_prefix_inv _ _ _ _ H) as (q & -> & -> & Hok & _ & _).
  split; [reflexivity|]. unfold tail_ok in Hok. apply andb_true_iff in Hok as [Hh _].
  clear H. induction r as [|c r IH]; [reflexivity|].
  cbn [string_forall] in *. apply andb_true_iff in Hh as [Hc Hh]. rewrite (IH Hh), andb_true_r.
  destruct (Ascii.eqb_spec c ":") as [->|]; [discriminate|reflexivity].
Qed.

(** ** the four hex groups *)

Lemma groups_of g2 g3 g4 c :
  String.length g2 = 2 -> String.length g3 = 2 -> String.length c = 8 ->
  let r := g2 ++ g3 ++ g4 ++ c in
  stake 2 r = g2 /\ stake 2 (sdrop 2 r) = g3 /\
  stake (String.length r - 12) (sdrop 4 r) = g4 /\ sdrop (String.length r - 8) r = c.
Proof.
  intros H2 H3 Hc r. subst r.
  assert (E2 : sdrop 2 (g2 ++ g3 ++ g4 ++ c) = g3 ++ g4 ++ c) by (rewrite <- H2; apply sdrop_app_exact).
  assert (E4 : sdrop 4 (g2 ++ g3 ++ g4 ++ c) = g4 ++ c).
  { change 4 with (2 + 2). rewrite <- sdrop_sdrop, E2, <- H3. apply sdrop_app_exact. }
  repeat split.
  - rewrite <- H2. apply stake_app_exact.
  - rewrite E2, <- H3. apply stake_app_exact.
  - rewrite E4, !slen_app, H2, H3, Hc.
    replace (2 + (2 + (String.length g4 + 8)) - 12) with (String.length g4) by lia.
    apply stake_app_exact.
  - rewrite !slen_app, H2, H3, Hc.
    replace (2 + (2 + (String.length g4 + 8)) - 8) with (4 + String.length g4) by lia.
    rewrite <- sdrop_sdrop, E4. apply sdrop_app_exact.
Qed.

Lemma split_groups r :
  12 <= String.length r ->
  let n := String.length r in
  r = stake 2 r ++ stake 2 (sdrop 2 r) ++ stake (n - 12) (sdrop 4 r) ++ sdrop (n - 8) r /\
  String.length (stake 2 r) = 2 /\ String.length (stake 2 (sdrop 2 r)) = 2 /\
  String.length (stake (n - 12) (sdrop 4 r)) = n - 12 /\
  String.length (sdrop (n - 8) r) = 8.
Proof.
  intros Hn n. subst n. repeat split.
  - replace (sdrop (String.length r - 8) r) with (sdrop (String.length r - 12) (sdrop 4 r))
      by (rewrite sdrop_sdrop; f_equal; lia).
    rewrite stake_sdrop.
    replace (sdrop 4 r) with (sdrop 2 (sdrop 2 r)) by (rewrite sdrop_sdrop; reflexivity).
    rewrite !stake_sdrop. reflexivity.
  - apply stake_length; lia.
  - apply stake_length. rewrite sdrop_length. lia.
  - apply stake_length. rewrite sdrop_length. lia.
  - rewrite sdrop_length. lia.
Qed.

(** ** ParseUint / hex.DecodeString facts *)

Lemma hexval_lt c d : hexval c = Some d -> (d < 16)%N.
Proof.
  unfold hexval. destruct c as [[] [] [] [] [] [] [] []]; intros [= <-]; reflexivity.
Qed.

Lemma hexval_is_hexdigit c : is_hexdigit c = true <-> exists d, hexval c = Some d.
Proof. unfold is_hexdigit. destruct (hexval c); split; eauto; intros; try discriminate. destruct H; discriminate. Qed.

Lemma parse_hex2 a b :
  parse_uint_hex8 (String a (String b "")) =
  match hexval a, hexval b with Some x, Some y => Some (16 * x + y)%N | _, _ => None end.
Proof.
  unfold parse_uint_hex8. cbn [parse_hex_acc].
  destruct (hexval a) as [x|] eqn:Ea; [|reflexivity].
  destruct (hexval b) as [y|] eqn:Eb; [|reflexivity].
  apply hexval_lt in Ea, Eb.
  replace (16 * (16 * 0 + x) + y)%N with (16 * x + y)%N by lia.
  destruct (N.leb_spec (16 * x + y) 255); [reflexivity|lia].
Qed.

Lemma len2_inv s : String.length s = 2 -> exists a b, s = String a (String b "").
Proof. destruct s as [|a [|b [|]]]; cbn; intros; try discriminate; eauto. Qed.

Lemma parse2_hex g n : String.length g = 2 -> parse_uint_hex8 g = Some n ->
  string_forall is_hexdigit g = true.
Proof.
  intros Hl H. destruct (len2_inv _ Hl) as (a & b & ->). rewrite parse_hex2 in H.
  cbn [string_forall]. unfold is_hexdigit.
  destruct (hexval a); [|discriminate]. destruct (hexval b); [|discriminate]. reflexivity.
Qed.

Lemma hex2_parses g : String.length g = 2 -> string_forall is_hexdigit g = true ->
  exists n, parse_uint_hex8 g = Some n.
Proof.
  intros Hl H. destruct (len2_inv _ Hl) as (a & b & ->). rewrite parse_hex2.
  cbn [string_forall] in H. unfold is_hexdigit in H.
  destruct (hexval a); [|discriminate]. destruct (hexval b); [|discriminate]. eauto.
Qed.

Lemma parse_hex2_spec k : (k < 256)%N -> parse_uint_hex8 (hex2 k) = Some k.
Proof.
  intros Hk. unfold hex2. rewrite parse_hex2, !hexval_hexdigit.
  - f_equal. pose proof (N.div_mod k 16). lia.
  - apply N.mod_lt; lia.
  - apply N.div_lt_upper_bound; lia.
Qed.

Lemma hexdecode_even_hex s d : hexdecode s = Some d ->
  Nat.even (String.length s) = true /\ string_forall is_hexdigit s = true.
Proof.
  revert d. remember (String.length s) as n eqn:Hn. revert s Hn.
  induction n as [n IH] using lt_wf_ind. intros s Hn d H.
  destruct s as [|a [|b r]]; [subst; split; reflexivity | discriminate |].
  cbn [hexdecode] in H.
  destruct (hexval a) eqn:Ea; [|discriminate]. destruct (hexval b) eqn:Eb; [|discriminate].
  destruct (hexdecode r) as [t|] eqn:Er; [|discriminate].
  cbn [String.length] in Hn. destruct (IH (String.length r) ltac:(lia) r eq_refl t Er) as [He Hh].
  subst n. split.
  - cbn [Nat.even]. exact He.
  - cbn [string_forall]. rewrite Hh. unfold is_hexdigit. rewrite Ea, Eb. reflexivity.
Qed.

Lemma even_hex_hexdecode s : Nat.even (String.length s) = true -> string_forall is_hexdigit s = true ->
  exists d, hexdecode s = Some d.
Proof.
  remember (String.length s) as n eqn:Hn. revert s Hn.
  induction n as [n IH] using lt_wf_ind. intros s Hn He Hh.
  destruct s as [|a [|b r]]; [eexists; reflexivity | subst; discriminate |].
  cbn [String.length] in Hn. subst n. cbn [Nat.even] in He.
  cbn [string_forall] in Hh. apply andb_true_iff in Hh as [Ha Hh]. apply andb_true_iff in Hh as [Hb Hh].
  destruct (IH (String.length r) ltac:(lia) r eq_refl He Hh) as [t Ht].
  apply hexval_is_hexdigit in Ha as [x Hx]. apply hexval_is_hexdigit in Hb as [y Hy].
  cbn [hexdecode]. rewrite Hx, Hy, Ht. eauto.
Qed.

(** ** exact characterisation of DecodeBIP276 *)

(** the texts that decode to [s]: prefix, colon, any spelling [g2] of the network, any spelling
    [g3] of the version, any spelling [g4] of the data, and the lower-case checksum of exactly
    that preceding text *)
Definition decodes_to (text : string) (s : bip276) : Prop :=
  exists g2 g3 g4 n v,
    text = (b_prefix s ++ ":" ++ g2 ++ g3 ++ g4) ++ checksum_of (b_prefix s ++ ":" ++ g2 ++ g3 ++ g4) /\
    b_prefix s <> "" /\ no_newline (b_prefix s) = true /\
    String.length g2 = 2 /\ String.length g3 = 2 /\
    parse_uint_hex8 g2 = Some n /\ b_network s = Z.of_N n /\
    parse_uint_hex8 g3 = Some v /\ b_version s = Z.of_N v /\
    hexdecode g4 = Some (b_data s).

Lemma decode_accepts text s : decodes_to text s -> decode_bip276 text = DOk s.
Proof.
  intros (g2 & g3 & g4 & n & v & -> & Hne & Hnl & H2 & H3 & Hp2 & Hn & Hp3 & Hv & Hd).
  destruct s as [p ver net d]. cbn [b_prefix b_version b_network b_data] in *. subst ver net.
  pose proof (checksum_of_length (p ++ ":" ++ g2 ++ g3 ++ g4)) as Hc.
  pose proof (checksum_of_hex (p ++ ":" ++ g2 ++ g3 ++ g4)) as Hch.
  set (cs := checksum_of (p ++ ":" ++ g2 ++ g3 ++ g4)) in *.
  assert (Etext : (p ++ ":" ++ g2 ++ g3 ++ g4) ++ cs = p ++ ":" ++ (g2 ++ g3 ++ g4 ++ cs)).
  { rewrite ?sapp_assoc; cbn [append]; rewrite ?sapp_assoc; reflexivity. }
  assert (Hok : tail_ok (g2 ++ g3 ++ g4 ++ cs) = true).
  { unfold tail_ok. rewrite !string_forall_app, !slen_app, H2, H3, Hc.
    rewrite (parse2_hex _ _ H2 Hp2), (parse2_hex _ _ H3 Hp3), Hch.
    destruct (hexdecode_even_hex _ _ Hd) as [_ ->]. cbn [andb].
    apply Nat.leb_le. lia. }
  unfold decode_bip276, find_submatch.
  rewrite Etext at 1. rewrite (lazy_prefix_split "" p _ Hne Hnl Hok). cbn [append].
  destruct (groups_of g2 g3 g4 cs H2 H3 Hc) as (E2 & E3 & E4 & E5). cbn zeta in *.
  rewrite E2, E3, E4, E5, Hp2, Hp3, Hd.
  rewrite slen_app, Hc.
  match goal with |- context [stake (?a + 8 - 8) _] => replace (a + 8 - 8) with a by lia end.
  rewrite stake_app_exact. change (String ":" (g2 ++ g3 ++ g4)) with (":" ++ g2 ++ g3 ++ g4).
  fold cs. rewrite String.eqb_refl. reflexivity.
Qed.

Lemma decode_sound text s : decode_bip276 text = DOk s -> decodes_to text s.
Proof.
  unfold decode_bip276, find_submatch.
  destruct (lazy_prefix "" text) as [[p r]|] eqn:Hl; [|discriminate].
  destruct (lazy_prefix_inv _ _ _ _ Hl) as (q & Hp & -> & Hok & Hne & Hnl). cbn [append] in Hp. subst q.
  unfold tail_ok in Hok. apply andb_true_iff in Hok as [Hh Hlen]. apply Nat.leb_le in Hlen.
  destruct (split_groups r Hlen) as (Er & L2 & L3 & L4 & L5). cbn zeta in *.
  set (g2 := stake 2 r) in *. set (g3 := stake 2 (sdrop 2 r)) in *.
  set (g4 := stake (String.length r - 12) (sdrop 4 r)) in *. set (g5 := sdrop (String.length r - 8) r) in *.
  destruct (parse_uint_hex8 g2) as [n|] eqn:Hp2; [|discriminate].
  destruct (parse_uint_hex8 g3) as [v|] eqn:Hp3; [|discriminate].
  destruct (hexdecode g4) as [d|] eqn:Hd; [|discriminate].
  assert (Etext : p ++ ":" ++ r = (p ++ ":" ++ g2 ++ g3 ++ g4) ++ g5).
  { rewrite Er at 1. rewrite ?sapp_assoc; cbn [append]; rewrite ?sapp_assoc; reflexivity. }
  rewrite Etext. rewrite slen_app, L5.
  match goal with |- context [stake (?a + 8 - 8) _] => replace (a + 8 - 8) with a by lia end.
  rewrite stake_app_exact.
  destruct (String.eqb_spec g5 (checksum_of (p ++ ":" ++ g2 ++ g3 ++ g4))) as [E5|]; [|discriminate].
  cbn [negb]. intros [= <-]. exists g2, g3, g4, n, v. cbn [b_prefix b_version b_network b_data].
  rewrite E5. repeat split; auto.
Qed.

Theorem decode_ok_iff text s : decode_bip276 text = DOk s <-> decodes_to text s.
Proof. split; [apply decode_sound | apply decode_accepts]. Qed.

(** ** format verbs on 1..255 *)

Lemma seq_all (P : nat -> Prop) (f : nat -> bool) n :
  (forall i, f i = true -> P i) -> forallb f (seq 0 n) = true -> forall i, i < n -> P i.
Proof.
  intros Hf H i Hi. apply Hf. rewrite forallb_forall in H. apply H. apply in_seq. lia.
Qed.

Lemma fmt_x2_hex2 k : (k < 256)%N -> fmt_x2 (Z.of_N k) = hex2 k.
Proof.
  intros Hk.
  assert (A : forall i, i < 256 -> fmt_x2 (Z.of_N (N.of_nat i)) = hex2 (N.of_nat i)).
  { apply (seq_all _ (fun i => String.eqb (fmt_x2 (Z.of_N (N.of_nat i))) (hex2 (N.of_nat i)))).
    - intros i. apply String.eqb_eq.
    - vm_compute. reflexivity. }
  specialize (A (N.to_nat k)). rewrite N2Nat.id in A. apply A. lia.
Qed.

Lemma hex2_length k : String.length (hex2 k) = 2.
Proof. reflexivity. Qed.

Lemma hex2_inj a b : (a < 256)%N -> (b < 256)%N -> hex2 a = hex2 b -> a = b.
Proof.
  intros Ha Hb H. apply parse_hex2_spec in Ha, Hb. rewrite H in Ha. congruence.
Qed.

(** ** EncodeBIP276 *)

Definition in_range (z : Z) : Prop := (1 <= z <= 255)%Z.

Lemma encode_in_range p v n d : in_range v -> in_range n ->
  encode_bip276 (mkBip276 p v n d) =
  bip276_layout_text p (Z.to_N n) (Z.to_N v) d.
Proof.
  unfold in_range. intros Hv Hn. unfold encode_bip276. cbn [b_version b_network].
  destruct (Z.ltb_spec v 1); [lia|]. destruct (Z.gtb_spec v 255); [lia|].
  destruct (Z.ltb_spec n 1); [lia|]. destruct (Z.gtb_spec n 255); [lia|].
  cbn [orb]. unfold create_bip276, payload_of, bip276_layout_text. cbn [b_prefix b_version b_network b_data].
  rewrite <- (Z2N.id v), <- (Z2N.id n) by lia.
  rewrite !fmt_x2_hex2 by lia. rewrite !Z2N.id by lia. reflexivity.
Qed.

Lemma encode_out_of_range p v n d : ~ (in_range v /\ in_range n) ->
  encode_bip276 (mkBip276 p v n d) = "ERROR".
Proof.
  unfold in_range, encode_bip276. cbn [b_version b_network]. intros H.
  destruct (Z.ltb_spec v 1); [reflexivity|]. destruct (Z.gtb_spec v 255); [reflexivity|].
  destruct (Z.ltb_spec n 1); [reflexivity|]. destruct (Z.gtb_spec n 255); [reflexivity|]. lia.
Qed.

(** layout, everything but the order of the two header fields *)
Theorem bip276_layout_partial_lemma p v n d : in_range v -> in_range n ->
  encode_bip276 (mkBip276 p v n d) = bip276_spec_text p (Z.to_N n) (Z.to_N v) d.
Proof. apply encode_in_range. Qed.

Theorem bip276_layout_when_equal p v d : in_range v ->
  encode_bip276 (mkBip276 p v v d) = bip276_spec_text p (Z.to_N v) (Z.to_N v) d.
Proof. intros H. apply encode_in_range; exact H. Qed.

(** the specified order fails for every pair of different field values *)
Theorem bip276_layout_fails_when_different p v n d : in_range v -> in_range n -> v <> n ->
  encode_bip276 (mkBip276 p v n d) <> bip276_spec_text p (Z.to_N v) (Z.to_N n) d.
Proof.
  intros Hv Hn Hne. rewrite encode_in_range by assumption.
  unfold bip276_spec_text, bip276_layout_text. cbn zeta. rewrite !sapp_assoc. intros H.
  apply sapp_inv_length in H as [_ H]; [|reflexivity].
  cbn [append] in H. injection H as H. unfold in_range in *.
  assert (hex2 (Z.to_N n) = hex2 (Z.to_N v)) as E.
  { unfold hex2 in *. cbn [append] in H. congruence. }
  apply hex2_inj in E; lia.
Qed.

Theorem bip276_layout_refuted_lemma :
  exists p v n d, in_range v /\ in_range n /\
    encode_bip276 (mkBip276 p v n d) <> bip276_spec_text p (Z.to_N v) (Z.to_N n) d.
Proof.
  exists "bitcoin-script", 1%Z, 2%Z, []. unfold in_range. repeat split; try lia.
  vm_compute. discriminate.
Qed.

(** ** round trip *)

Theorem bip276_roundtrip_lemma p v n d :
  p <> "" -> no_newline p = true -> in_range v -> in_range n ->
  decode_bip276 (encode_bip276 (mkBip276 p v n d)) = DOk (mkBip276 p v n d).
Proof.
  intros Hne Hnl Hv Hn. rewrite encode_in_range by assumption. unfold in_range in *.
  apply decode_accepts.
  exists (hex2 (Z.to_N n)), (hex2 (Z.to_N v)), (hex_of d), (Z.to_N n), (Z.to_N v).
  cbn [b_prefix b_version b_network b_data].
  repeat split; auto; try (apply parse_hex2_spec; lia); try (rewrite Z2N.id; lia);
    try apply hexdecode_hex_of.
Qed.

(** the prefixes the property names *)
Lemma script_prefix_ok : "bitcoin-script" <> "" /\ no_newline "bitcoin-script" = true.
Proof. split; [discriminate|reflexivity]. Qed.
Lemma template_prefix_ok : "bitcoin-template" <> "" /\ no_newline "bitcoin-template" = true.
Proof. split; [discriminate|reflexivity]. Qed.

(** the hypotheses on the prefix are necessary, not just convenient *)
Theorem bip276_roundtrip_needs_prefix v n d : in_range v -> in_range n ->
  decode_bip276 (encode_bip276 (mkBip276 "" v n d)) <> DOk (mkBip276 "" v n d).
Proof.
  intros Hv Hn H. apply decode_sound in H. destruct H as (? & ? & ? & ? & ? & _ & Hne & _).
  apply Hne. reflexivity.
Qed.

(** ** rejection *)

Lemma decodes_to_layout text s : decodes_to text s ->
  wellformed_layout text /\
  sdrop (String.length text - 8) text = checksum_of (stake (String.length text - 8) text).
Proof.
  intros (g2 & g3 & g4 & n & v & -> & Hne & Hnl & H2 & H3 & Hp2 & _ & Hp3 & _ & Hd).
  set (P := b_prefix s ++ ":" ++ g2 ++ g3 ++ g4).
  pose proof (checksum_of_length P) as Hc.
  split.
  - exists (b_prefix s), g2, g3, g4, (checksum_of P). repeat split; auto.
    + subst P. rewrite ?sapp_assoc; cbn [append]; rewrite ?sapp_assoc; reflexivity.
    + apply (hexdecode_even_hex _ _ Hd).
    + rewrite !string_forall_app, (parse2_hex _ _ H2 Hp2), (parse2_hex _ _ H3 Hp3), checksum_of_hex.
      destruct (hexdecode_even_hex _ _ Hd) as [_ ->]. reflexivity.
  - rewrite slen_app, Hc. replace (String.length P + 8 - 8) with (String.length P) by lia.
    rewrite sdrop_app_exact, stake_app_exact. reflexivity.
Qed.

(** any text whose last eight characters are not the lower-case hex of the first four bytes of
    the double SHA-256 of everything in front of them is rejected *)
Theorem bad_checksum_rejected_lemma text :
  sdrop (String.length text - 8) text <> checksum_of (stake (String.length text - 8) text) ->
  exists e, decode_bip276 text = DErr e.
Proof.
  intros H. destruct (decode_bip276 text) as [s|e] eqn:E; [|eauto].
  apply decode_sound, decodes_to_layout in E. tauto.
Qed.

(** any text that is not laid out prefix / colon / 2+2 hex digits / hex bytes / 8 hex digits is rejected *)
Theorem malformed_rejected_lemma text :
  ~ wellformed_layout text -> exists e, decode_bip276 text = DErr e.
Proof.
  intros H. destruct (decode_bip276 text) as [s|e] eqn:E; [|eauto].
  apply decode_sound, decodes_to_layout in E. tauto.
Qed.

(** ... and nothing else is: acceptance is exactly "well-formed layout with the right checksum" *)
Theorem decode_accepts_iff text :
  (exists s, decode_bip276 text = DOk s) <->
  wellformed_layout text /\
  sdrop (String.length text - 8) text = checksum_of (stake (String.length text - 8) text).
Proof.
  split.
  - intros [s E]. apply decode_sound, decodes_to_layout in E. exact E.
  - intros [(p & g2 & g3 & g4 & c & -> & Hne & Hnl & H2 & H3 & Hc & He & Hh) Hck].
    rewrite !string_forall_app in Hh.
    apply andb_true_iff in Hh as [Hh2 Hh]. apply andb_true_iff in Hh as [Hh3 Hh].
    apply andb_true_iff in Hh as [Hh4 Hhc].
    destruct (hex2_parses _ H2 Hh2) as [n Hn]. destruct (hex2_parses _ H3 Hh3) as [v Hv].
    destruct (even_hex_hexdecode _ He Hh4) as [d Hd].
    assert (Etext : p ++ ":" ++ g2 ++ g3 ++ g4 ++ c = (p ++ ":" ++ g2 ++ g3 ++ g4) ++ c).
    { rewrite ?sapp_assoc; cbn [append]; rewrite ?sapp_assoc; reflexivity. }
    rewrite Etext in Hck |- *. rewrite slen_app, Hc in Hck.
    replace (String.length (p ++ ":" ++ g2 ++ g3 ++ g4) + 8 - 8)
      with (String.length (p ++ ":" ++ g2 ++ g3 ++ g4)) in Hck by lia.
    rewrite sdrop_app_exact, stake_app_exact in Hck. subst c.
    exists (mkBip276 p (Z.of_N v) (Z.of_N n) d). apply decode_accepts.
    exists g2, g3, g4, n, v. cbn [b_prefix b_version b_network b_data]. repeat split; auto.
Qed.

(** an accepted text is the encoder's output for the decoded value, up to the letter case of the
    hex digits in front of the checksum; in particular lower-case accepted texts with fields in
    1..255 are exactly the encoder's outputs *)
Theorem decode_then_encode text s :
  decode_bip276 text = DOk s -> in_range (b_version s) -> in_range (b_network s) ->
  (forall g2 g3 g4 c, text = b_prefix s ++ ":" ++ g2 ++ g3 ++ g4 ++ c ->
     String.length g2 = 2 -> String.length g3 = 2 -> String.length c = 8 ->
     g2 = hex2 (Z.to_N (b_network s)) -> g3 = hex2 (Z.to_N (b_version s)) -> g4 = hex_of (b_data s) ->
     encode_bip276 s = text).
Proof.
  intros Hd Hv Hn g2 g3 g4 c -> H2 H3 Hc -> -> ->.
  destruct s as [p v n d]. cbn [b_prefix b_version b_network b_data] in *.
  rewrite encode_in_range by assumption.
  apply decode_sound, decodes_to_layout in Hd as [_ Hck].
  assert (Etext : p ++ ":" ++ hex2 (Z.to_N n) ++ hex2 (Z.to_N v) ++ hex_of d ++ c =
                  (p ++ ":" ++ hex2 (Z.to_N n) ++ hex2 (Z.to_N v) ++ hex_of d) ++ c).
  { rewrite ?sapp_assoc; cbn [append]; rewrite ?sapp_assoc; reflexivity. }
  rewrite Etext in Hck |- *. rewrite slen_app, Hc in Hck.
  match type of Hck with context [?a + 8 - 8] => replace (a + 8 - 8) with a in Hck by lia end.
  rewrite sdrop_app_exact, stake_app_exact in Hck. subst c. reflexivity.
Qed.

(** ** ValidateAddress *)

Theorem validate_iff_decodes_lemma valid_a58 address :
  has_prefix "bitcoin-script:" address = true ->
  (validate_address_with valid_a58 address = true <-> exists s, decode_bip276 address = DOk s).
Proof.
  intros Hp. unfold validate_address_with. rewrite Hp.
  destruct (decode_bip276 address) as [s|e]; split; eauto; intros; try discriminate.
  destruct H as [s H]; discriminate.
Qed.

Theorem validate_other_lemma valid_a58 address :
  has_prefix "bitcoin-script:" address = false ->
  validate_address_with valid_a58 address = valid_a58 address.
Proof. intros Hp. unfold validate_address_with. rewrite Hp. reflexivity. Qed.
