(** Proofs about model/Classify.v, part 1: no inspection query panics (or runs out of fuel) on any
    byte string. *)
From Coq Require Import List NArith Lia ZifyN ZifyNat ZifyBool ZArith Bool String.
From Coq Require Import Strings.Byte.
From GoBT Require Import lib.Bytes lib.Hex lib.Checked model.Push model.Asm model.Classify spec.PushSpec proofs.PushProofs.
Import ListNotations.
Ltac Zify.zify_post_hook ::= Z.div_mod_to_equations.
Local Open Scope N_scope.
Local Open Scope bool_scope.

(** ** outcomes *)
Definition safe {A} (o : outcome A) : Prop := o <> Panic /\ o <> Fuel.
Definition is_ok {A} (o : outcome A) : Prop := exists a, o = Ok a.

Lemma is_ok_safe {A} (o : outcome A) : is_ok o -> safe o.
Proof. intros [a ->]. split; discriminate. Qed.
Lemma safe_ok {A} (a : A) : safe (Ok a).
Proof. split; discriminate. Qed.
Lemma safe_err {A} : safe (@Err A).
Proof. split; discriminate. Qed.
Lemma is_ok_ok {A} (a : A) : is_ok (Ok a).
Proof. eexists; reflexivity. Qed.
Global Hint Resolve safe_ok safe_err is_ok_ok : core.

Lemma obind_safe {A B} (o : outcome A) (f : A -> outcome B) :
  safe o -> (forall a, o = Ok a -> safe (f a)) -> safe (obind o f).
Proof. intros [H1 H2] H. destruct o; cbn; auto; try congruence. Qed.
Lemma obind_ok {A B} (o : outcome A) (f : A -> outcome B) :
  is_ok o -> (forall a, o = Ok a -> is_ok (f a)) -> is_ok (obind o f).
Proof. intros [a ->] H. cbn. apply H. reflexivity. Qed.
Lemma chk_ok {A B} (o : option A) (f : A -> outcome B) :
  (exists a, o = Some a) -> (forall a, o = Some a -> is_ok (f a)) -> is_ok (chk o f).
Proof. intros [a ->] H. cbn. apply H. reflexivity. Qed.
Lemma chk_safe {A B} (o : option A) (f : A -> outcome B) :
  (exists a, o = Some a) -> (forall a, o = Some a -> safe (f a)) -> safe (chk o f).
Proof. intros [a ->] H. cbn. apply H. reflexivity. Qed.

Lemma oand_ok a b : is_ok a -> (a = Ok true -> is_ok b) -> is_ok (oand a b).
Proof. intros [[|] ->] H; cbn; auto. Qed.
Lemma oor_ok a b : is_ok a -> (a = Ok false -> is_ok b) -> is_ok (oor a b).
Proof. intros [[|] ->] H; cbn; auto. Qed.
Lemma oand_true a b : oand a b = Ok true -> a = Ok true /\ b = Ok true.
Proof. destruct a as [[|]| | |]; cbn; intros H; try discriminate; auto. Qed.
Lemma oand_false_l b : oand (Ok false) b = Ok false.
Proof. reflexivity. Qed.
Lemma oand_true_l b : oand (Ok true) b = b.
Proof. reflexivity. Qed.

(** ** checked accesses that are in range *)
Lemma lenNg_cons {A} (a : A) l : lenNg (a :: l) = 1 + lenNg l.
Proof. unfold lenNg. cbn [List.length]. lia. Qed.
Lemma lenNg_app {A} (a b : list A) : lenNg (a ++ b) = lenNg a + lenNg b.
Proof. unfold lenNg. rewrite app_length. lia. Qed.
Lemma lenNg_nil {A} : lenNg (@nil A) = 0.
Proof. reflexivity. Qed.

Lemma idx_cons_pos {A} (a : A) l p : idx (a :: l) (Npos p) = idx l (N.pred (Npos p)).
Proof. rewrite <- (N.succ_pred (Npos p)) at 1 by discriminate. apply idx_succ. Qed.
Lemma idx_lt {A} (l : list A) i a : idx l i = Some a -> i < lenNg l.
Proof. unfold idx. destruct (i <? lenNg l) eqn:E; [lia|discriminate]. Qed.
Lemma idx_none {A} (l : list A) i : lenNg l <= i -> idx l i = None.
Proof. intros H. unfold idx. replace (i <? lenNg l) with false by lia. reflexivity. Qed.
Lemma idx_app_l {A} (l r : list A) i : i < lenNg l -> idx (l ++ r) i = idx l i.
Proof.
  intros H. unfold idx. rewrite lenNg_app. replace (i <? lenNg l + lenNg r) with true by lia.
  replace (i <? lenNg l) with true by lia. apply nth_error_app1. unfold lenNg in H. lia.
Qed.
Lemma idx_app_r {A} (l r : list A) i : lenNg l <= i -> idx (l ++ r) i = idx r (i - lenNg l).
Proof.
  intros H. unfold idx. rewrite lenNg_app.
  destruct (i - lenNg l <? lenNg r) eqn:E.
  - replace (i <? lenNg l + lenNg r) with true by lia. rewrite nth_error_app2 by (unfold lenNg in H; lia).
    f_equal. unfold lenNg. lia.
  - replace (i <? lenNg l + lenNg r) with false by lia. reflexivity.
Qed.

Lemma byte_is_ok b i v : i < lenN b -> is_ok (byte_is b i v).
Proof. intros H. unfold byte_is. destruct (idx_some b i) as [x ->]; [exact H|]. cbn. auto. Qed.
Lemma part_len_ok parts i : i < lenNg parts -> is_ok (part_len parts i).
Proof. intros H. unfold part_len. destruct (idx_some parts i H) as [p ->]. cbn. auto. Qed.
Lemma part_nonempty_ok parts i : i < lenNg parts -> is_ok (part_nonempty parts i).
Proof. intros H. unfold part_nonempty. destruct (part_len_ok parts i H) as [l ->]. cbn. auto. Qed.
Lemma part_nonempty_true parts i : part_nonempty parts i = Ok true ->
  exists p, idx parts i = Some p /\ 0 < lenN p.
Proof.
  unfold part_nonempty, part_len. destruct (idx parts i) as [p|]; cbn; [|discriminate].
  intros [= H]. exists p. split; [reflexivity|lia].
Qed.
Lemma part_byte_ok parts i j p : idx parts i = Some p -> j < lenN p -> is_ok (part_byte parts i j).
Proof. intros Hp Hj. unfold part_byte. rewrite Hp. cbn. destruct (idx_some p j Hj) as [x ->]. cbn. auto. Qed.
Lemma part_byte_is_ok parts i j v p : idx parts i = Some p -> j < lenN p -> is_ok (part_byte_is parts i j v).
Proof. intros Hp Hj. unfold part_byte_is. destruct (part_byte_ok parts i j p Hp Hj) as [x ->]. cbn. auto. Qed.
Lemma part_byte_is_ok_ne parts i v : part_nonempty parts i = Ok true -> is_ok (part_byte_is parts i 0 v).
Proof. intros H. destruct (part_nonempty_true _ _ H) as (p & Hp & Hl). eapply part_byte_is_ok; eauto. Qed.

(** ** DecodeParts as used by the queries *)
Lemma decoded_ok s : is_ok (decoded s).
Proof.
  unfold decoded. destruct (decode_parts_total s) as [H1 H2].
  destruct (decode_parts s); try congruence; auto.
Qed.
Lemma decoded_some s parts : decoded s = Ok (Some parts) -> decode_parts s = DOk parts.
Proof. unfold decoded. destruct (decode_parts s); intros H; try discriminate. injection H as <-. reflexivity. Qed.

Lemma dcons_ok_inv p r l : dcons p r = DOk l -> exists l', r = DOk l' /\ l = p :: l'.
Proof. destruct r; cbn; intros H; try discriminate. injection H as <-. eauto. Qed.

Lemma decode_ok_nonempty b0 r parts : decode_parts (b0 :: r) = DOk parts -> parts <> [].
Proof.
  rewrite decode_parts_cons. destruct (decode_step_clean (b0 :: r)); try discriminate.
  intros H. apply dcons_ok_inv in H as (l' & _ & ->). discriminate.
Qed.

(** ** the byte-level predicates *)
Lemma is_p2pkh_ok b : is_ok (is_p2pkh b).
Proof.
  unfold is_p2pkh. destruct (lenN b =? 25) eqn:E.
  - rewrite oand_true_l. repeat (apply oand_ok; [|intros _]); apply byte_is_ok; lia.
  - cbn. auto.
Qed.
Lemma is_p2sh_ok b : is_ok (is_p2sh b).
Proof.
  unfold is_p2sh. destruct (lenN b =? 23) eqn:E.
  - rewrite oand_true_l. repeat (apply oand_ok; [|intros _]); apply byte_is_ok; lia.
  - cbn. auto.
Qed.
Lemma is_data_ok b : is_ok (is_data b).
Proof.
  unfold is_data. apply oor_ok; [|intros _].
  - destruct (0 <? lenN b) eqn:E; [rewrite oand_true_l; apply byte_is_ok; lia|cbn; auto].
  - destruct (1 <? lenN b) eqn:E; [|cbn; auto]. rewrite oand_true_l.
    apply oand_ok; [|intros _]; apply byte_is_ok; lia.
Qed.

(** ** IsP2PK *)
Lemma is_p2pk_ok s : is_ok (is_p2pk s).
Proof.
  unfold is_p2pk. apply obind_ok; [apply decoded_ok|]. intros [parts|] _; [|auto].
  destruct (lenNg parts =? 2) eqn:E2.
  - rewrite oand_true_l.
    assert (is_ok (part_nonempty parts 0 &&& part_nonempty parts 1 &&& part_byte_is parts 1 0 OpCHECKSIG)) as G.
    { apply oand_ok; [apply oand_ok; [|intros _]; apply part_nonempty_ok; lia|].
      intros H. apply oand_true in H as [_ H1]. apply part_byte_is_ok_ne. exact H1. }
    destruct G as [g Hg]. rewrite Hg. cbn [obind]. destruct g; [|auto].
    apply oand_true in Hg as [Hg _]. apply oand_true in Hg as [H0 _].
    destruct (part_nonempty_true _ _ H0) as (p & Hp & Hl). rewrite Hp. cbn [chk].
    destruct (idx_some p 0 Hl) as [v ->]. cbn [chk].
    destruct (_ && _); [auto|]. destruct (_ && _); auto.
  - cbn. auto.
Qed.

(** ** IsMultiSigOut *)
Lemma middle_nonempty_ok parts : forall k i, i + N.of_nat k <= lenNg parts -> is_ok (middle_nonempty parts i k).
Proof.
  induction k as [|k IH]; intros i H; cbn [middle_nonempty]; [auto|].
  apply obind_ok; [apply part_len_ok; lia|]. intros l _. destruct (l <? 1); [auto|]. apply IH. lia.
Qed.

Lemma is_multisig_out_ok s : is_ok (is_multisig_out s).
Proof.
  unfold is_multisig_out. apply obind_ok; [apply is_data_ok|]. intros [|] _; [auto|].
  apply obind_ok; [apply decoded_ok|]. intros [parts|] _; [|auto]. cbv zeta.
  destruct (lenNg parts <? 3) eqn:E3; [auto|].
  apply obind_ok.
  { unfold part_len. destruct (idx_some parts 0) as [p Hp]; [lia|]. rewrite Hp. cbn [chk obind].
    destruct (lenN p <? 1) eqn:El; [auto|]. apply obind_ok; [|intros; auto].
    eapply part_byte_ok; eauto. lia. }
  intros [|] _; [auto|].
  apply obind_ok; [apply middle_nonempty_ok; lia|]. intros mid _. destruct (negb mid); [auto|].
  apply oand_ok; [apply oand_ok; [apply oand_ok|]|].
  - apply part_nonempty_ok. lia.
  - intros H. destruct (part_nonempty_true _ _ H) as (p & Hp & Hl).
    apply obind_ok; [|intros; auto]. eapply part_byte_ok; eauto.
  - intros _. apply part_nonempty_ok. lia.
  - intros H. apply oand_true in H as [_ H]. apply part_byte_is_ok_ne. exact H.
Qed.

(** ** isP2PKHInscriptionHelper *)
Lemma all_nonempty_ok parts : forall is, Forall (fun i => i < lenNg parts) is -> is_ok (all_nonempty parts is).
Proof.
  induction is as [|i r IH]; intros H; cbn [all_nonempty]; [auto|]. inversion H; subst.
  apply obind_ok; [apply part_len_ok; assumption|]. intros l _. destruct (l =? 0); auto.
Qed.
Lemma all_nonempty_true parts : forall is, all_nonempty parts is = Ok true ->
  Forall (fun i => part_nonempty parts i = Ok true) is.
Proof.
  induction is as [|i r IH]; cbn [all_nonempty]; intros H; [constructor|].
  destruct (part_len parts i) as [l| | |] eqn:EL; cbn [obind] in H; try discriminate.
  destruct (l =? 0) eqn:E; [discriminate|].
  constructor; [unfold part_nonempty; rewrite EL; cbn [obind]; f_equal; lia|apply IH; exact H].
Qed.

Lemma inscription_helper_ok parts : is_ok (inscription_helper parts).
Proof.
  unfold inscription_helper. destruct (lenNg parts <? 13) eqn:E13; [auto|].
  apply obind_ok.
  { apply all_nonempty_ok. repeat constructor; lia. }
  intros ne Hne. destruct ne; [|cbn; auto]. cbn [negb].
  apply all_nonempty_true in Hne.
  assert (forall i, In i [0; 1; 3; 4; 5; 6; 8; 10; 12] -> part_nonempty parts i = Ok true) as NE.
  { intros i Hi. rewrite Forall_forall in Hne. apply Hne. exact Hi. }
  unfold part_len at 1. destruct (idx_some parts 7) as [p7 Hp7]; [lia|]. rewrite Hp7. cbn [chk obind].
  destruct (lenN p7 <? 3) eqn:E7; [auto|].
  apply obind_ok.
  { repeat (apply oand_ok; [|intros _]);
      try (apply part_byte_is_ok_ne; apply NE; cbn; tauto);
      (eapply part_byte_is_ok; [exact Hp7|lia]). }
  intros v _. destruct (13 <? lenNg parts) eqn:E14; [|auto].
  apply oand_ok; [apply oand_ok|]; [apply part_nonempty_ok; lia| |intros; auto].
  intros H. apply part_byte_is_ok_ne. exact H.
Qed.

Lemma is_p2pkh_inscription_ok s : is_ok (is_p2pkh_inscription s).
Proof.
  unfold is_p2pkh_inscription. apply obind_ok; [apply decoded_ok|]. intros [parts|] _; [|auto].
  apply inscription_helper_ok.
Qed.

(** ** ScriptType *)
Theorem script_type_ok s : is_ok (script_type s).
Proof.
  unfold script_type. destruct (lenN s =? 0); [auto|].
  apply obind_ok; [apply is_p2pkh_ok|]. intros [|] _; [auto|].
  apply obind_ok; [apply is_p2pk_ok|]. intros [|] _; [auto|].
  apply obind_ok; [apply is_data_ok|]. intros [|] _; [auto|].
  apply obind_ok; [apply is_multisig_out_ok|]. intros [|] _; [auto|].
  apply obind_ok; [apply is_p2pkh_inscription_ok|]. intros [|] _; auto.
Qed.

(** ** PublicKeyHash, Addresses *)
Theorem public_key_hash_safe s : safe (public_key_hash s).
Proof.
  unfold public_key_hash. destruct (lenN s =? 0) eqn:E0; [auto|].
  apply obind_safe; [apply is_ok_safe, byte_is_ok; lia|]. intros d _. destruct (negb d); [auto|].
  destruct (lenN s <=? 2) eqn:E2; [auto|].
  apply obind_safe; [apply is_ok_safe, byte_is_ok; lia|]. intros h _. destruct (negb h); [auto|].
  rewrite slice_from_ok by (rewrite lenNg_lenN; lia). cbn [chk].
  apply obind_safe; [apply is_ok_safe, decoded_ok|]. intros [parts|] Hd; [|auto].
  apply decoded_some in Hd.
  destruct (skipn (N.to_nat 2) s) as [|t0 tr] eqn:Et.
  { apply (f_equal (@List.length byte)) in Et. rewrite skipn_length in Et. cbn in Et. unfold lenN in E2. lia. }
  pose proof (decode_ok_nonempty _ _ _ Hd) as Hne. destruct parts as [|p ps]; [congruence|].
  rewrite idx_0. cbn. auto.
Qed.

Theorem addresses_safe s : safe (addresses s).
Proof.
  unfold addresses. apply obind_safe; [apply is_ok_safe, is_p2pkh_ok|]. intros [|] _; [|auto].
  apply obind_safe; [apply public_key_hash_safe|]. intros; auto.
Qed.

(** ** ToASM *)
Lemma asm_part_ok data p : is_ok (asm_part data p).
Proof.
  unfold asm_part. destruct (lenN p =? 1) eqn:E.
  - destruct (idx_some p 0) as [x ->]; [rewrite lenNg_lenN; lia|]. cbn [chk]. destruct (_ && _); auto.
  - destruct (_ && _); auto.
Qed.
Lemma asm_parts_ok data : forall parts, exists body, asm_parts data parts = Ok body /\
  (parts <> [] -> exists t, body = String sp t).
Proof.
  induction parts as [|p r [u [Hu _]]]; [exists EmptyString; split; [reflexivity|congruence]|].
  destruct (asm_part_ok data p) as [t Ht]. exists (String sp (t ++ u)). split.
  - cbn [asm_parts]. rewrite Ht. cbn [obind]. rewrite Hu. reflexivity.
  - intros _. eauto.
Qed.

Theorem to_asm_ok s : is_ok (to_asm s).
Proof.
  unfold to_asm. destruct (lenN s =? 0) eqn:E0; [auto|].
  destruct s as [|b0 r]; [discriminate|].
  pose proof (decode_parts_total (b0 :: r)) as [T1 T2].
  assert (is_ok (if 1 <? lenN (b0 :: r)
                 then chk (idx (b0 :: r) 0) (fun s0 => if b2n s0 =? 106 then Ok true
                        else if b2n s0 =? 0 then chk (idx (b0 :: r) 1) (fun s1 => Ok (b2n s1 =? 106)) else Ok false)
                 else Ok false)) as [data Hdata].
  { destruct (1 <? lenN (b0 :: r)) eqn:E1; [|auto]. rewrite idx_0. cbn [chk].
    destruct (b2n b0 =? 106); [auto|]. destruct (b2n b0 =? 0); [|auto].
    destruct (idx_some (b0 :: r) 1) as [x ->]; [rewrite lenNg_lenN; lia|]. cbn. auto. }
  destruct (decode_parts (b0 :: r)) as [parts|parts| |] eqn:D; try congruence; rewrite Hdata; cbn [obind];
    destruct (asm_parts_ok data parts) as (body & Hb & Hne); rewrite Hb; cbn [obind dres_ok].
  - destruct (Hne (decode_ok_nonempty _ _ _ D)) as [t ->]. cbn. auto.
  - destruct parts as [|p ps].
    + cbn in Hb. injection Hb as <-. cbn. auto.
    + destruct Hne as [t ->]; [discriminate|]. cbn. auto.
Qed.

(** ** ParseInscription: isOpZeroPart walks the script exactly as DecodeParts tokenised it *)
Lemma skipn_cons_idx (b0 : bytes) pos c cr : skipn (N.to_nat pos) b0 = c :: cr ->
  idx b0 pos = Some c /\ pos < lenN b0.
Proof.
  intros H. assert (N.to_nat pos < List.length b0)%nat as L.
  { destruct (Nat.lt_ge_cases (N.to_nat pos) (List.length b0)) as [?|G]; [assumption|].
    rewrite skipn_all2 in H by exact G. discriminate. }
  split; [|unfold lenN; lia]. unfold idx. replace (pos <? lenNg b0) with true by (unfold lenNg; lia).
  rewrite <- (firstn_skipn (N.to_nat pos) b0) at 1. rewrite nth_error_app2 by (rewrite firstn_length; lia).
  rewrite firstn_length. replace (N.to_nat pos - Nat.min (N.to_nat pos) (List.length b0))%nat with 0%nat by lia.
  rewrite H. reflexivity.
Qed.

Lemma skipn_skipn_N (b0 : bytes) pos n : skipn (N.to_nat (pos + n)) b0 = skipn (N.to_nat n) (skipn (N.to_nat pos) b0).
Proof.
  replace (N.to_nat (pos + n)) with (N.to_nat pos + N.to_nat n)%nat by lia. revert b0.
  induction (N.to_nat pos) as [|k IH]; intros b0; [reflexivity|]. destruct b0; [rewrite !skipn_nil; reflexivity|]. cbn. apply IH.
Qed.

Lemma skipn_app_exact (a b : bytes) n : n = lenN a -> skipn (N.to_nat n) (a ++ b) = b.
Proof.
  intros ->. unfold lenN. rewrite Nat2N.id, skipn_app, Nat.sub_diag, skipn_all. reflexivity.
Qed.

Lemma walk_spec b0 : forall ps pos rest, decode_parts (skipn (N.to_nat pos) b0) = DOk (ps ++ rest) ->
  exists pos', walk_parts b0 ps pos = Ok pos' /\ decode_parts (skipn (N.to_nat pos') b0) = DOk rest.
Proof.
  induction ps as [|part r IH]; intros pos rest H.
  - exists pos. split; [reflexivity|exact H].
  - cbn [app] in H. destruct (skipn (N.to_nat pos) b0) as [|c cr] eqn:Es; [discriminate H|].
    destruct (skipn_cons_idx _ _ _ _ Es) as [Hi Hlt].
    rewrite decode_parts_cons in H.
    destruct (decode_step_clean (c :: cr)) as [p' rest'| |] eqn:ED; try discriminate.
    apply dcons_ok_inv in H as (l' & Hl' & El). injection El as E1 E2. subst p' l'.
    cbn [walk_parts]. rewrite Hi. cbn [chk]. cbv zeta.
    pose proof (b2n_lt c) as Hc.
    assert (exists step, (if (1 <=? b2n c) && (b2n c <=? 75) then 1 + lenN part
                          else if b2n c =? 76 then 2 + lenN part
                          else if b2n c =? 77 then 3 + lenN part
                          else if b2n c =? 78 then 5 + lenN part else 1) = step /\
                         skipn (N.to_nat step) (c :: cr) = rest') as (step & -> & Hstep).
    { destruct (decode_step_inv _ _ _ _ ED) as [(Hnp & -> & -> & K)|(hdr & Hh & Es' & K)].
      - unfold non_push in Hnp. exists 1. split; [|reflexivity].
        replace ((1 <=? b2n c) && (b2n c <=? 75)) with false by lia.
        replace (b2n c =? 76) with false by lia. replace (b2n c =? 77) with false by lia.
        replace (b2n c =? 78) with false by lia. reflexivity.
      - exists (lenN hdr + lenN part). split.
        + inversion Hh as [n Hn E1 E2|n Hn E1 E2|n Hn E1 E2|n Hn E1 E2]; subst n; rewrite <- E1 in Es'; cbn [app] in Es';
            injection Es' as Ec _; subst c.
          * rewrite b2n_n2b_small by lia. replace ((1 <=? lenN part) && (lenN part <=? 75)) with true by lia. reflexivity.
          * change (b2n x4c) with 76. reflexivity.
          * change (b2n x4d) with 77. cbn [andb N.leb N.eqb Pos.eqb N.compare Pos.compare Pos.compare_cont].
            rewrite lenN_cons, lenN_le_enc. reflexivity.
          * change (b2n x4e) with 78. cbn [andb N.leb N.eqb Pos.eqb N.compare Pos.compare Pos.compare_cont].
            rewrite lenN_cons, lenN_le_enc. reflexivity.
        + rewrite Es', app_assoc. apply skipn_app_exact. rewrite lenN_app. reflexivity. }
    destruct (IH (pos + step) rest) as (pos' & Hw & Hd).
    { rewrite skipn_skipn_N, Es, Hstep. exact Hl'. }
    exists pos'. split; assumption.
Qed.

Lemma is_op_zero_part_ok s parts i : decode_parts s = DOk parts -> i < lenNg parts ->
  is_ok (is_op_zero_part s parts i).
Proof.
  intros D Hi. unfold is_op_zero_part. rewrite slice_to_ok by lia. cbn [chk].
  destruct (walk_spec s (firstn (N.to_nat i) parts) 0 (skipn (N.to_nat i) parts)) as (pos' & Hw & Hd).
  { cbn [N.to_nat skipn]. rewrite firstn_skipn. exact D. }
  rewrite Hw. cbn [obind].
  destruct (skipn (N.to_nat i) parts) as [|q qs] eqn:Eq.
  { apply (f_equal (@List.length bytes)) in Eq. rewrite skipn_length in Eq. cbn in Eq. unfold lenNg in Hi. lia. }
  destruct (skipn (N.to_nat pos') s) as [|c cr] eqn:Es; [discriminate Hd|].
  destruct (skipn_cons_idx _ _ _ _ Es) as [_ Hlt]. apply byte_is_ok. exact Hlt.
Qed.

Lemma inscription_helper_len parts : inscription_helper parts = Ok true -> 13 <= lenNg parts.
Proof. unfold inscription_helper. destruct (lenNg parts <? 13) eqn:E; [discriminate|]. lia. Qed.

Theorem parse_inscription_safe s : safe (parse_inscription s).
Proof.
  unfold parse_inscription. apply obind_safe; [apply is_ok_safe, decoded_ok|]. intros [p|] Hd; [|auto].
  apply decoded_some in Hd. destruct (lenN s <? 25) eqn:E25; [auto|].
  apply obind_safe; [apply is_ok_safe, is_p2pkh_ok|]. intros isp _. destruct isp; [|cbn; auto]. cbn [negb].
  apply obind_safe; [apply is_ok_safe, inscription_helper_ok|]. intros ok Hok. destruct ok; [|cbn; auto]. cbn [negb].
  pose proof (inscription_helper_len _ Hok) as L.
  destruct (idx_some p 11) as [d0 ->]; [lia|]. destruct (idx_some p 9) as [c0 ->]; [lia|]. cbn [chk].
  apply obind_safe; [apply is_ok_safe, is_op_zero_part_ok; [assumption|lia]|]. intros z11 _.
  apply obind_safe; [apply is_ok_safe, is_op_zero_part_ok; [assumption|lia]|]. intros z9 _.
  rewrite slice_ok by (rewrite ?lenNg_lenN; lia). cbn. auto.
Qed.

(** ** node JSON of an output *)
Theorem node_output_safe s : safe (node_output s).
Proof.
  unfold node_output. apply obind_safe; [apply is_ok_safe, to_asm_ok|]. intros asm _.
  apply obind_safe; [apply addresses_safe|]. intros a _.
  apply obind_safe; [apply is_ok_safe, script_type_ok|]. intros; auto.
Qed.

(** every inspection query, on every byte string: a value or an error, never a panic *)
Theorem inspect_no_panic s :
  script_type s <> Panic /\ is_p2pkh s <> Panic /\ is_p2pk s <> Panic /\ is_p2sh s <> Panic /\ is_data s <> Panic /\
  is_multisig_out s <> Panic /\ is_p2pkh_inscription s <> Panic /\ public_key_hash s <> Panic /\
  addresses s <> Panic /\ parse_inscription s <> Panic /\ to_asm s <> Panic /\ node_output s <> Panic.
Proof.
  repeat split;
    try (apply is_ok_safe; first [apply script_type_ok|apply is_p2pkh_ok|apply is_p2pk_ok|apply is_p2sh_ok|apply is_data_ok
                                 |apply is_multisig_out_ok|apply is_p2pkh_inscription_ok|apply to_asm_ok]);
    first [apply public_key_hash_safe|apply addresses_safe|apply parse_inscription_safe|apply node_output_safe].
Qed.
(** ... and the model's fuel is never the reason for a result *)
Theorem inspect_no_fuel s :
  script_type s <> Fuel /\ is_p2pk s <> Fuel /\ is_multisig_out s <> Fuel /\ is_p2pkh_inscription s <> Fuel /\
  public_key_hash s <> Fuel /\ addresses s <> Fuel /\ parse_inscription s <> Fuel /\ to_asm s <> Fuel /\ node_output s <> Fuel.
Proof.
  repeat split;
    try (apply is_ok_safe; first [apply script_type_ok|apply is_p2pk_ok|apply is_multisig_out_ok|apply is_p2pkh_inscription_ok|apply to_asm_ok]);
    first [apply public_key_hash_safe|apply addresses_safe|apply parse_inscription_safe|apply node_output_safe].
Qed.
