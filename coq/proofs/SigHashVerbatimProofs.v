(** C03, round 8: the script code is in the legacy preimage AS IT IS.

    [legacy_signature_hash] (spec/DigestSpec.v) is parametric in the script code and never looks into it: no
    OP_CODESEPARATOR removal, no FindAndDelete, no stop at OP_RETURN or at a push that does not fit - those are the
    caller's job (property text).  Stated as a fact about bytes: whatever the script code is, the preimage is
    [a ++ CompactSize (length sc) ++ sc ++ b]; and, through [legacy_preimage_is_spec], so is what the model of
    CalcInputPreimageLegacy returns for the recorded previous script of the signed input (or it is the constant of the
    SINGLE bug).  The Go harness states the same predicate on every call of its script-code family
    (harness/sighash/c03_scriptcode.go, site CalcInputPreimageLegacy/script-code-not-verbatim). *)
From Coq Require Import List NArith Bool.
From Coq Require Import Strings.Byte.
From GoBT Require Import lib.Bytes lib.VarInt model.Tx spec.DigestSpec model.SigHash model.SigHashWire
  proofs.SigHashProofs.
Import ListNotations.
Local Open Scope N_scope. Local Open Scope bool_scope.

Lemma ser_vector_in {A} (f : A -> bytes) l1 x l2 :
  exists a b, ser_vector f (l1 ++ x :: l2) = a ++ f x ++ b.
Proof.
  unfold ser_vector.
  exists (compact_size (N.of_nat (length (l1 ++ x :: l2))) ++ concat (map f l1)), (concat (map f l2)).
  rewrite map_app, concat_app. cbn [map concat]. rewrite <- !app_assoc. reflexivity.
Qed.

(** the signed input of the copy that is serialised carries the script code, whatever the type *)
Lemma legacy_copy_vin sc tx nIn inp ht :
  exists l1 l2, t_vin (legacy_tx_copy sc tx nIn inp ht) = l1 ++ with_script sc inp :: l2.
Proof.
  unfold legacy_tx_copy. cbn [t_vin]. destruct (anyone_can_pay ht).
  - exists [], []. reflexivity.
  - eexists _, _. reflexivity.
Qed.

Theorem legacy_preimage_contains_script_code sc tx nIn ht p :
  legacy_signature_hash sc tx nIn ht = LegacyPreimage p ->
  exists a b, p = a ++ ser_script sc ++ b.
Proof.
  unfold legacy_signature_hash. destruct (nth_error (t_vin tx) nIn) as [inp|]; [|discriminate].
  destruct (is_single ht && Nat.leb (length (t_vout tx)) nIn); [discriminate|].
  intros H. assert (p = ser_transaction (legacy_tx_copy sc tx nIn inp ht) ++ u32 ht) as -> by congruence. clear H.
  destruct (legacy_copy_vin sc tx nIn inp ht) as (l1 & l2 & Hv).
  unfold ser_transaction. rewrite Hv.
  destruct (ser_vector_in ser_txin l1 (with_script sc inp) l2) as (a & b & ->).
  unfold ser_txin, with_script. cbn [ti_script_sig ti_prevout ti_sequence].
  exists (u32 (t_version (legacy_tx_copy sc tx nIn inp ht)) ++ a ++ ser_outpoint (ti_prevout inp)).
  eexists. rewrite <- !app_assoc. reflexivity.
Qed.

(** on the model of the Go function: the constant of the SINGLE bug, or a preimage that contains the recorded
    previous script of the signed input behind its CompactSize length *)
Theorem legacy_model_script_code_verbatim t i ht inp sc :
  wf_tx t -> ht < 256 -> i + 1 < two32 ->
  nth_error (tx_ins t) (N.to_nat i) = Some inp -> in_script inp = Some sc ->
  fst (calc_input_preimage_legacy t i ht) = SOk default_hex \/
  exists a b, fst (calc_input_preimage_legacy t i ht) = SOk (a ++ varint_bytes (lenN sc) ++ sc ++ b).
Proof.
  intros Hwf Hht Hi Hn Hsc.
  rewrite (legacy_preimage_is_spec t i ht inp sc Hwf Hht Hi Hn Hsc). unfold legacy_expected.
  destruct (legacy_signature_hash sc (wire_tx t) (N.to_nat i) ht) as [|p] eqn:E.
  - left. reflexivity.
  - right. destruct (legacy_preimage_contains_script_code _ _ _ _ _ E) as (a & b & ->).
    exists a, b. unfold ser_script, compact_size. rewrite <- app_assoc. reflexivity.
Qed.

(** the statement is about a script code the walker of an OP_CODESEPARATOR-stripping implementation would change:
    OP_1 OP_CODESEPARATOR OP_DROP <2 bytes ab ab> OP_CODESEPARATOR, as an opcode and inside push data *)
Example script_code_with_codeseparators_is_kept :
  let sc := [x51; xab; x75; x02; xab; xab; xab] in
  let tx := mkTransaction 1 [mkTxIn (mkOutPoint (repeat x11 32) 0) [x51] 4294967295] [mkTxOut 1 [x51]] 0 in
  legacy_signature_hash sc tx 0 1 =
  LegacyPreimage (u32 1 ++ [x01] ++ repeat x11 32 ++ u32 0 ++ [x07] ++ sc ++ u32 4294967295 ++
                  [x01] ++ u64 1 ++ [x01; x51] ++ u32 0 ++ u32 1).
Proof. vm_compute. reflexivity. Qed.
