(** Audit A, C09: the allocation of the decoders is bounded by the bytes they CONSUMED (what the
    internal invariant [Q] of proofs/AllocProofs.v says), not merely by the bytes supplied: a small
    transaction at the head of a long stream costs little. *)
From Coq Require Import List NArith ZArith Lia Bool.
From Coq Require Import Strings.Byte.
From GoBT Require Import lib.Bytes lib.Parse lib.VarInt model.Tx proofs.TxProofs model.Alloc proofs.AllocProofs.
Import ListNotations.
Local Open Scope N_scope.

(** [al <= 32 * consumed + 16384], on success and on error; never the fuel artefact.
    (A panic has allocated nothing that matters any more; proofs/AllocProofs.v section 5 shows there is none
    for inputs up to [input_limit], see [alloc_consumed_answers] below.) *)
Definition alloc_vs_consumed {A} (r : ares A) : Prop :=
  match r with
  | AOk _ n _ al => al <= alloc_c * n + alloc_k
  | AErr n al => al <= alloc_c * n + alloc_k
  | AFuel => False
  | APanic => True
  end.

Lemma Q_alloc_vs_consumed {A} D E (r : ares A) :
  Q D E r -> r <> AFuel -> (D <= 16384)%Z -> (E <= 16384)%Z -> alloc_vs_consumed r.
Proof.
  unfold alloc_vs_consumed, alloc_c, alloc_k.
  destruct r as [a n rest al|n al| |]; cbn [Q]; intros HQ HF HD HE; try lia; congruence.
Qed.


Theorem alloc_consumed_tx bs : alloc_vs_consumed (a_read_tx bs).
Proof.
  apply (Q_alloc_vs_consumed _ _ _ (Q_read_tx bs)); try lia.
  apply (a_decode_total bs).
Qed.
Theorem alloc_consumed_stream bs : alloc_vs_consumed (a_tx_from_stream bs).
Proof.
  apply (Q_alloc_vs_consumed _ _ _ (Q_tx_from_stream bs)); try lia.
  apply (a_decode_total bs).
Qed.
Theorem alloc_consumed_txs bs : alloc_vs_consumed (a_read_txs bs).
Proof.
  apply (Q_alloc_vs_consumed _ _ _ (Q_read_txs bs)); try lia.
  apply (a_decode_total bs).
Qed.
Theorem alloc_consumed_input ext bs : alloc_vs_consumed (a_read_input ext bs).
Proof.
  apply (Q_alloc_vs_consumed _ _ _ (Q_read_input ext bs)); try lia.
  destruct ext; apply (a_decode_total bs).
Qed.
Theorem alloc_consumed_output bs : alloc_vs_consumed (a_read_output bs).
Proof.
  apply (Q_alloc_vs_consumed _ _ _ (Q_read_output bs)); try lia.
  apply (a_decode_total bs).
Qed.

(** the same with the panic excluded, for inputs up to [input_limit]: a value or an error, and
    allocated <= 32 * consumed + 16384 *)
Definition alloc_vs_consumed_strict {A} (r : ares A) : Prop :=
  match r with
  | AOk _ n _ al => al <= alloc_c * n + alloc_k
  | AErr n al => al <= alloc_c * n + alloc_k
  | AFuel => False
  | APanic => False
  end.

Lemma strict_intro {A} (r : ares A) : alloc_vs_consumed r -> r <> APanic -> alloc_vs_consumed_strict r.
Proof. destruct r; cbn; auto. Qed.

Theorem alloc_consumed_answers bs : lenN bs <= input_limit ->
  alloc_vs_consumed_strict (a_read_tx bs) /\ alloc_vs_consumed_strict (a_tx_from_stream bs) /\
  alloc_vs_consumed_strict (a_read_txs bs) /\
  (forall ext, alloc_vs_consumed_strict (a_read_input ext bs)) /\ alloc_vs_consumed_strict (a_read_output bs).
Proof.
  intros H. repeat split; intros; apply strict_intro;
    auto using alloc_consumed_tx, alloc_consumed_stream, alloc_consumed_txs, alloc_consumed_input, alloc_consumed_output,
               no_panic_tx, no_panic_stream, no_panic_txs, no_panic_input, no_panic_output.
Qed.
