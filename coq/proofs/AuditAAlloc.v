(** Audit A, C09: the allocation of the decoders is bounded by the bytes they CONSUMED (what the
    internal invariant [Q] of proofs/AllocProofs.v says), not merely by the bytes supplied: a small
    transaction at the head of a long stream costs little. *)
From Coq Require Import List NArith ZArith Lia Bool.
From Coq Require Import Strings.Byte.
From GoBT Require Import lib.Bytes lib.Parse lib.VarInt model.Tx proofs.TxProofs model.Alloc proofs.AllocProofs.
Import ListNotations.
Local Open Scope N_scope.

(** [al <= 32 * consumed + 16384], on success and on error; never the fuel artefact *)
Definition alloc_vs_consumed {A} (r : ares A) : Prop :=
  match r with
  | AOk _ n _ al => al <= alloc_c * n + alloc_k
  | AErr n al => al <= alloc_c * n + alloc_k
  | AFuel => False
  end.

Lemma Q_alloc_vs_consumed {A} D E (r : ares A) :
  Q D E r -> r <> AFuel -> (D <= 16384)%Z -> (E <= 16384)%Z -> alloc_vs_consumed r.
Proof.
  unfold alloc_vs_consumed, alloc_c, alloc_k.
  destruct r as [a n rest al|n al|]; cbn [Q]; intros HQ HF HD HE; try lia. congruence.
Qed.

Lemma not_fuel_of_erase {A} (r : ares A) : erase r <> PFuel -> r <> AFuel.
Proof. intros H E. apply H. rewrite E. reflexivity. Qed.

Theorem alloc_consumed_tx bs : alloc_vs_consumed (a_read_tx bs).
Proof.
  apply (Q_alloc_vs_consumed _ _ _ (Q_read_tx bs)); try lia.
  apply not_fuel_of_erase. rewrite erase_read_tx. apply read_tx_never_out_of_fuel.
Qed.
Theorem alloc_consumed_stream bs : alloc_vs_consumed (a_tx_from_stream bs).
Proof.
  apply (Q_alloc_vs_consumed _ _ _ (Q_tx_from_stream bs)); try lia.
  apply not_fuel_of_erase. rewrite erase_tx_from_stream. apply read_tx_never_out_of_fuel.
Qed.
Theorem alloc_consumed_txs bs : alloc_vs_consumed (a_read_txs bs).
Proof.
  apply (Q_alloc_vs_consumed _ _ _ (Q_read_txs bs)); try lia.
  apply not_fuel_of_erase. rewrite erase_read_txs. apply read_txs_never_out_of_fuel.
Qed.
Theorem alloc_consumed_input ext bs : alloc_vs_consumed (a_read_input ext bs).
Proof.
  apply (Q_alloc_vs_consumed _ _ _ (Q_read_input ext bs)); try lia.
  apply not_fuel_of_erase. rewrite erase_read_input. apply read_input_nf.
Qed.
Theorem alloc_consumed_output bs : alloc_vs_consumed (a_read_output bs).
Proof.
  apply (Q_alloc_vs_consumed _ _ _ (Q_read_output bs)); try lia.
  apply not_fuel_of_erase. rewrite erase_read_output. apply read_output_nf.
Qed.
