(** stack.PopByteArray (bscript/interpreter/stack.go), as printed from the Go source: removes the top item and returns it; fails on the empty stack.
    The Go stack is [rev d], [d] being the stack of model/Interp.v (top first). *)
From Coq Require Import List ZArith NArith Bool Lia ZifyN ZifyNat ZifyBool.
From Coq Require Import Strings.Byte.
From GoBT Require Import lib.Bytes lib.GoSem lib.GoInterp gen.Funcs proofs.GenFuncsTac proofs.GenFuncsInterpTac proofs.GenFuncs_stack_nipN.
From GoBT Require model.Interp model.ScriptNum.
Import ListNotations.
Ltac Zify.zify_post_hook ::= Z.div_mod_to_equations.
Local Open Scope Z_scope.

Lemma stack_PopByteArray_spec (d : list bytes) : Interp.lenZ d < 2147483648 ->
  stack_PopByteArray (rev d) = Val (go_st (pop_model d)).
Proof.
  intros Hd. unfold stack_PopByteArray. rewrite stack_nipN_spec by (unfold in31; lia). rewrite nip_model_0.
  destruct d as [|x r]; reflexivity.
Qed.

#[global] Hint Rewrite stack_PopByteArray_spec using stk_small : stk.
