(** Proofs about model/StackCells.v: the two writers of a stack's storage never write an array the stack is not a view
    of, a stack built by pushing lives in an array of its own, and both writers mean on the items what stack.go says. *)
From Coq Require Import List Arith Lia Bool.
From GoBT Require Import model.StackCells.
Import ListNotations.

Section Proofs.
Variable A : Type.
Variable dflt : A.
Variable grow : nat -> nat.

Notation mem := (mem A).
Notation go_append := (go_append A dflt grow).
Notation go_nip := (go_nip A).
Notation step := (step A dflt grow).
Notation run := (run A dflt grow).
Notation view := (view A).
Notation arr_of := (arr_of A).
Notation wf := (wf A).
Notation pure_op := (pure_op A).

(** ** lists *)
Lemma upd_length : forall X (l : list X) i x, length (upd l i x) = length l.
Proof. induction l as [|h t IH]; intros [|i] x; simpl; auto. Qed.

Lemma nth_upd_other : forall X (l : list X) a b x d, a <> b -> nth b (upd l a x) d = nth b l d.
Proof.
  induction l as [|h t IH]; intros a b x d Hab; simpl; auto.
  destruct a as [|a]; destruct b as [|b]; simpl; auto; try congruence.
Qed.

Lemma nth_upd_same : forall X (l : list X) a x d, a < length l -> nth a (upd l a x) d = x.
Proof.
  induction l as [|h t IH]; intros a x d Ha; simpl in *; [lia|].
  destruct a as [|a]; simpl; auto. apply IH. lia.
Qed.

Lemma firstn_upd_ge : forall X (l : list X) i n x, n <= i -> firstn n (upd l i x) = firstn n l.
Proof.
  induction l as [|h t IH]; intros i n x Hn; simpl; auto.
  destruct i as [|i]; destruct n as [|n]; simpl; auto; try lia. f_equal. apply IH. lia.
Qed.

Lemma firstn_upd_snoc : forall X (l : list X) i x, i < length l -> firstn (S i) (upd l i x) = firstn i l ++ [x].
Proof.
  induction l as [|h t IH]; intros i x Hi; simpl in *; [lia|].
  destruct i as [|i]; simpl; auto. f_equal. apply IH. lia.
Qed.

Lemma upd_many_length : forall xs (l : list A) i, length (upd_many A l i xs) = length l.
Proof. induction xs as [|x t IH]; intros l i; simpl; auto. rewrite IH. apply upd_length. Qed.

Lemma upd_spec : forall X (l : list X) i x, i < length l -> upd l i x = firstn i l ++ x :: skipn (S i) l.
Proof.
  induction l as [|h t IH]; intros i x Hi; simpl in *; [lia|].
  destruct i as [|i]; simpl; auto. f_equal. apply IH. lia.
Qed.

Lemma skipn_upd_lt : forall X (l : list X) i n x, i < n -> skipn n (upd l i x) = skipn n l.
Proof.
  induction l as [|h t IH]; intros i n x Hn; [reflexivity|].
  destruct i as [|i]; destruct n as [|n]; try lia; cbn [upd skipn]; [reflexivity|]. apply IH. lia.
Qed.

Lemma upd_many_spec : forall xs (l : list A) i, i + length xs <= length l ->
  upd_many A l i xs = firstn i l ++ xs ++ skipn (i + length xs) l.
Proof.
  induction xs as [|x t IH]; intros l i Hl; cbn [upd_many length app] in *.
  - rewrite Nat.add_0_r. symmetry. apply firstn_skipn.
  - rewrite IH by (rewrite upd_length; lia).
    rewrite firstn_upd_snoc by lia.
    rewrite skipn_upd_lt by lia.
    rewrite <- app_assoc. cbn [app].
    replace (S i + length t) with (i + S (length t)) by lia. reflexivity.
Qed.

(** ** an array the stack is not a view of is never written, whatever is done to the stack *)
Lemma step_untouched : forall o (m : mem) s a,
  a < length m -> s_arr s <> a ->
  let '(m', s') := step o m s in
  nth a m' [] = nth a m [] /\ s_arr s' <> a /\ length m <= length m'.
Proof.
  intros [x|idx] m s a Ha Hs; simpl.
  - unfold StackCells.go_append. destruct (s_len s <? s_cap s); simpl.
    + rewrite nth_upd_other by exact Hs. rewrite upd_length. auto.
    + rewrite app_nth1 by exact Ha. rewrite app_length. simpl. repeat split; lia.
  - unfold StackCells.go_nip.
    destruct (s_len s <=? idx); [auto|].
    destruct (idx =? 0); [simpl; auto|].
    destruct (idx =? s_len s - 1); simpl.
    + rewrite app_nth1 by exact Ha. rewrite app_length. simpl. repeat split; lia.
    + rewrite nth_upd_other by exact Hs. rewrite upd_length. auto.
Qed.

Theorem run_untouched : forall ops (m : mem) s a,
  a < length m -> s_arr s <> a ->
  nth a (fst (run ops m s)) [] = nth a m [] /\ s_arr (snd (run ops m s)) <> a /\ length m <= length (fst (run ops m s)).
Proof.
  induction ops as [|o t IH]; intros m s a Ha Hs; simpl; [auto|].
  pose proof (step_untouched o m s a Ha Hs) as H.
  destruct (step o m s) as [m' s']. destruct H as (H1 & H2 & H3).
  destruct (IH m' s' a ltac:(lia) H2) as (I1 & I2 & I3).
  rewrite I1, H1. repeat split; auto; lia.
Qed.

(** ** the resumed stack: built by pushing, it lives in arrays that did not exist before; the frame the caller keeps -
    its array, hence every view of it - reads after ANY sequence of stack operations of the resumed run as before *)
Theorem resumed_stack_never_writes_the_frame : forall (m : mem) frame ops,
  s_arr frame < length m ->
  let '(m1, s1) := set_state_push A dflt grow m (view m frame) in
  let '(m2, _) := run ops m1 s1 in
  arr_of m2 (s_arr frame) = arr_of m (s_arr frame) /\ view m2 frame = view m frame.
Proof.
  intros m frame ops Hf. unfold set_state_push, new_stack.
  set (items := map (SPush A) (view m frame)).
  assert (Ha : s_arr frame < length (m ++ [[]])) by (rewrite app_length; simpl; lia).
  assert (Hs : s_arr (mkS (length m) 0 0) <> s_arr frame) by (simpl; lia).
  pose proof (run_untouched items (m ++ [[]]) (mkS (length m) 0 0) (s_arr frame) Ha Hs) as (H1 & H2 & H3).
  destruct (run items (m ++ [[]]) (mkS (length m) 0 0)) as [m1 s1] eqn:E1. simpl in *.
  pose proof (run_untouched ops m1 s1 (s_arr frame) ltac:(lia) H2) as (J1 & _ & _).
  destruct (run ops m1 s1) as [m2 s2]. simpl in *.
  assert (E : arr_of m2 (s_arr frame) = arr_of m (s_arr frame)).
  { unfold StackCells.arr_of. rewrite J1, H1. apply app_nth1. exact Hf. }
  split; [exact E|]. unfold StackCells.view. rewrite E. reflexivity.
Qed.

(** ** what the two writers mean on the items *)
Lemma arr_of_upd_same : forall (m : mem) a l, a < length m -> arr_of (upd m a l) a = l.
Proof. intros. unfold StackCells.arr_of. apply nth_upd_same. assumption. Qed.

Lemma arr_of_app_new : forall (m : mem) l, arr_of (m ++ [l]) (length m) = l.
Proof. intros. unfold StackCells.arr_of. rewrite app_nth2 by lia. rewrite Nat.sub_diag. reflexivity. Qed.

Ltac sl := cbn [s_arr s_len s_cap fst snd StackCells.step].

Theorem step_view : forall o (m : mem) s, wf m s ->
  let '(m', s') := step o m s in wf m' s' /\ view m' s' = pure_op (view m s) o.
Proof.
  intros [x|idx] m s (Wa & Wc & Wl); sl.
  - assert (Lv : length (view m s) = s_len s) by (unfold StackCells.view; apply firstn_length_le; lia).
    unfold StackCells.go_append, StackCells.pure_op. destruct (s_len s <? s_cap s) eqn:E.
    + apply Nat.ltb_lt in E. unfold StackCells.wf, StackCells.view. sl.
      rewrite upd_length, arr_of_upd_same, upd_length by exact Wa.
      split; [repeat split; auto; lia|].
      apply firstn_upd_snoc. lia.
    + apply Nat.ltb_ge in E. unfold StackCells.wf. sl.
      rewrite app_length, arr_of_app_new. cbn [length].
      split.
      * repeat split; try lia.
        rewrite app_length. cbn [length]. rewrite repeat_length, Lv. lia.
      * unfold StackCells.view at 1. sl. rewrite arr_of_app_new.
        replace (S (s_len s)) with (length (view m s ++ [x])) at 1 by (rewrite app_length; cbn [length]; lia).
        change (view m s ++ x :: repeat dflt (Nat.max (grow (s_cap s)) (S (s_len s)) - S (s_len s)))
          with (view m s ++ [x] ++ repeat dflt (Nat.max (grow (s_cap s)) (S (s_len s)) - S (s_len s))).
        rewrite app_assoc.
        rewrite firstn_app, Nat.sub_diag, firstn_all. cbn [firstn]. apply app_nil_r.
  - assert (Lv : length (view m s) = s_len s) by (unfold StackCells.view; apply firstn_length_le; lia).
    unfold StackCells.go_nip, StackCells.pure_op. rewrite Lv.
    destruct (s_len s <=? idx) eqn:E0; [split; [repeat split; auto|reflexivity]|].
    apply Nat.leb_gt in E0.
    destruct (idx =? 0) eqn:E1.
    + apply Nat.eqb_eq in E1. subst idx. unfold StackCells.wf. sl.
      split; [repeat split; auto; lia|].
      rewrite Nat.sub_0_r.
      rewrite (skipn_all2 (view m s)) by lia. rewrite app_nil_r.
      unfold StackCells.view. sl. rewrite firstn_firstn. f_equal. lia.
    + apply Nat.eqb_neq in E1.
      destruct (idx =? s_len s - 1) eqn:E2.
      * apply Nat.eqb_eq in E2. unfold StackCells.wf. sl.
        rewrite app_length, arr_of_app_new. cbn [length].
        assert (Ls : length (skipn 1 (view m s)) = s_len s - 1) by (rewrite skipn_length; lia).
        split; [repeat split; try lia|].
        unfold StackCells.view at 1. sl. rewrite arr_of_app_new.
        rewrite <- Ls at 1. rewrite firstn_all.
        replace (s_len s - idx - 1) with 0 by lia. cbn [firstn app]. f_equal. lia.
      * apply Nat.eqb_neq in E2. unfold StackCells.wf. sl.
        rewrite upd_length, arr_of_upd_same by exact Wa.
        set (arr := arr_of m (s_arr s)) in *.
        assert (Ls1 : length (firstn idx (skipn (s_len s - idx) arr)) = idx).
        { apply firstn_length_le. rewrite skipn_length. lia. }
        rewrite upd_many_length.
        split; [repeat split; auto; lia|].
        unfold StackCells.view at 1. sl. rewrite arr_of_upd_same by exact Wa. fold arr.
        rewrite upd_many_spec by (rewrite Ls1; lia).
        rewrite Ls1.
        replace (s_len s - 1) with ((s_len s - idx - 1) + idx) at 1 by lia.
        rewrite firstn_app, firstn_firstn, Nat.min_r by lia.
        rewrite firstn_length_le by lia.
        replace (s_len s - idx - 1 + idx - (s_len s - idx - 1)) with idx by lia.
        rewrite firstn_app, Ls1, Nat.sub_diag. cbn [firstn]. rewrite app_nil_r.
        rewrite <- Ls1 at 2. rewrite firstn_all.
        unfold StackCells.view. fold arr.
        rewrite firstn_firstn, Nat.min_l by lia. f_equal.
        rewrite firstn_skipn_comm. f_equal. f_equal. lia.
Qed.

Theorem run_view : forall ops (m : mem) s, wf m s ->
  wf (fst (run ops m s)) (snd (run ops m s)) /\ view (fst (run ops m s)) (snd (run ops m s)) = fold_left pure_op ops (view m s).
Proof.
  induction ops as [|o t IH]; intros m s W; simpl; [auto|].
  pose proof (step_view o m s W) as H. destruct (step o m s) as [m' s']. destruct H as (W' & V').
  destruct (IH m' s' W') as (I1 & I2). rewrite I2, V'. auto.
Qed.

Lemma fold_pushes : forall items acc, fold_left pure_op (map (SPush A) items) acc = acc ++ items.
Proof.
  induction items as [|x t IH]; intros acc; cbn [map fold_left StackCells.pure_op]; [symmetry; apply app_nil_r|].
  rewrite IH, <- app_assoc. reflexivity.
Qed.

(** the resumed stack holds the frame's items *)
Theorem set_state_push_view : forall (m : mem) items,
  let '(m1, s1) := set_state_push A dflt grow m items in wf m1 s1 /\ view m1 s1 = items.
Proof.
  intros m items. unfold set_state_push, new_stack.
  assert (W : wf (m ++ [[]]) (mkS (length m) 0 0)).
  { unfold StackCells.wf. simpl. rewrite app_length, arr_of_app_new. simpl. repeat split; lia. }
  pose proof (run_view (map (SPush A) items) _ _ W) as (R1 & R2).
  destruct (run (map (SPush A) items) (m ++ [[]]) (mkS (length m) 0 0)) as [m1 s1]. simpl in *.
  split; [exact R1|]. rewrite R2, fold_pushes. unfold StackCells.view. reflexivity.
Qed.

End Proofs.

(** ** the alternative does write the caller's array: a frame of four items adopted as the running stack, one item
    taken out of the middle (OP_NIP is nipN 1; OP_ROT nipN 2 and a push), one pushed (OP_1): the array of the frame the caller
    keeps now holds other items, and the frame reads differently *)
Example adopted_frame_is_overwritten :
  let m := [[1; 2; 3; 4]] in
  let frame := mkS 0 4 4 in
  let '(m0, s0) := set_state_adopt nat m frame in
  let '(m1, _) := StackCells.run nat 0 (fun c => 2 * c) [SNip nat 1; SPush nat 9] m0 s0 in
  StackCells.view nat m1 frame = [1; 2; 4; 9] /\ StackCells.view nat m frame = [1; 2; 3; 4].
Proof. vm_compute. split; reflexivity. Qed.

(** the same history on the stack built by pushing: the frame reads as before, the stack holds what the operations mean *)
Example pushed_frame_is_kept :
  let m := [[1; 2; 3; 4]] in
  let frame := mkS 0 4 4 in
  let '(m0, s0) := set_state_push nat 0 (fun c => 2 * c) m (StackCells.view nat m frame) in
  let '(m1, s1) := StackCells.run nat 0 (fun c => 2 * c) [SNip nat 1; SPush nat 9] m0 s0 in
  StackCells.view nat m1 frame = [1; 2; 3; 4] /\ StackCells.view nat m1 s1 = [1; 2; 4; 9].
Proof. vm_compute. split; reflexivity. Qed.
