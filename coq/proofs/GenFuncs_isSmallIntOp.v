(** isSmallIntOp (bscript/script.go), as printed from the Go source, is [is_small_int_op] of model/Classify.v (all 256 byte values). *)
From Coq Require Import List ZArith NArith Bool Lia ZifyN ZifyNat ZifyBool.
From Coq Require Import Strings.Byte.
From GoBT Require Import lib.Bytes lib.GoSem gen.Funcs proofs.GenFuncsTac.
Import ListNotations.
Ltac Zify.zify_post_hook ::= Z.div_mod_to_equations.
Local Open Scope Z_scope.

From GoBT Require model.Classify.

Lemma isSmallIntOp_is_model (v : N) : (v < 256)%N -> isSmallIntOp (Z.of_N v) = Val (Classify.is_small_int_op v).
Proof.
  intros Hv. apply M_eqb_bool_eq.
  apply (all256_spec (fun v => M_eqb Bool.eqb (isSmallIntOp (Z.of_N v)) (Val (Classify.is_small_int_op v)))); [vm_compute; reflexivity|exact Hv].
Qed.
