(** stack.OverN (bscript/interpreter/stack.go), as printed from the Go source, for EVERY argument: on a stack of fewer than
    2^31 items, for every int32 [n] such that the stack with the n copies still has fewer than 2^31 items (stack.go computes
    sizes in int32) or the stack has fewer than 2n items anyway -- in particular for every n on a stack of fewer than 2^30
    items, and for n <= 16 on a stack of fewer than 2^31 - 16 items --, the printed function is the model's general primitive [Interp.over_n] (the n items below the top n copied to the top, in order;
    specified by [over_n_spec] / [over_n_none] of proofs/ShiftProofs.v), and an error for n < 1.  The loop runs n times
    (the fuel suffices); each iteration copies the item 2n-1 places below the top to the top. *)
From Coq Require Import List ZArith NArith Bool Lia ZifyN ZifyNat ZifyBool.
From Coq Require Import Strings.Byte.
From GoBT Require Import lib.Bytes lib.GoSem lib.GoInterp gen.Funcs proofs.GenFuncsTac proofs.GenFuncsInterpTac proofs.GenFuncsStackLoopTac proofs.GenFuncs_stack_PeekByteArray proofs.GenFuncs_stack_PushByteArray.
From GoBT Require model.Interp model.ScriptNum.
Import ListNotations.
Ltac Zify.zify_post_hook ::= Z.div_mod_to_equations.
Local Open Scope Z_scope.

(** n iterations of "copy the item 2n-1 places below the top to the top" are [over_n n] *)
Lemma iter_pick_over (n : nat) (e : Z) (d : list bytes) : (1 <= n)%nat -> Interp.lenZ d < 2147483648 ->
  (2 * Z.of_nat n <= Interp.lenZ d -> e = 2 * Z.of_nat n - 1) ->
  (Interp.lenZ d < 2 * Z.of_nat n -> e < 0 \/ Interp.lenZ d <= e) ->
  iter_step (Interp.pick_n e) n d = Interp.over_n n d.
Proof.
  intros Hn Hd He1 He2. unfold Interp.over_n. destruct (Nat.ltb_spec (length d) (2 * n)) as [Hlt|Hge].
  - destruct n as [|k]; [lia|]. apply iter_fails. apply pick_n_out. apply He2. unfold Interp.lenZ. lia.
  - destruct (cut2 n n d ltac:(lia)) as [Hcut [HX HY]].
    rewrite Hcut at 1.
    rewrite (iter_pick e n) by (unfold Interp.lenZ in *; rewrite ?HX; lia).
    rewrite <- Hcut. reflexivity.
Qed.

Lemma stack_OverN_all_n (n : Z) (d : list bytes) : Interp.lenZ d < 2147483648 -> in31 n ->
  Interp.lenZ d + n < 2147483648 \/ Interp.lenZ d < 2 * n ->
  st_view (stack_OverN n (rev d)) = Val (if n <? 1 then None else Interp.over_n (Z.to_nat n) d).
Proof.
  intros Hs Hn Hfit. unfold in31 in *. unfold stack_OverN. destruct (n <? 1) eqn:E1; [reflexivity|]. cbv zeta.
  (* the index the loop body hands to PeekByteArray: whatever expression the source computes it with *)
  match goal with |- context [stack_PeekByteArray ?ee] => remember ee as e eqn:He end.
  assert (Hin : in31 e) by (subst e; unfold in31, go_sub, go_mul, go_add, go_conv, go_wrap; lia).
  match goal with |- context [go_for ?fuel (n, rev d) ?cnd ?bdy ?pst] =>
    set (CND := cnd); set (BDY := bdy); set (PST := pst); set (FUEL := fuel)
  end.
  destruct (go_for_count_down (Interp.pick_n e)
              (fun k d0 => Interp.lenZ d0 < 2147483648 /\ (Interp.lenZ d0 + Z.of_nat k < 2147483648 \/ e < 0 \/ Interp.lenZ d0 <= e))
              CND BDY PST) with (fuel := FUEL) (k := Z.to_nat n) (d := d)
    as [r [Hr Hres]].
  - intros i g. reflexivity.
  - intros i g Hi. subst PST. cbv beta iota zeta. apply Val_inj. f_equal. unfold go_sub, go_add, go_conv, go_wrap. lia.
  - intros k d0 [Hinv1 Hinv2]. subst BDY. cbv beta iota.
    rewrite stack_PeekByteArray_spec by assumption. rewrite peek_model_pick.
    pose proof (pick_n_length e d0) as Hlen. rewrite peek_model_pick in Hlen.
    assert (Hout := pick_n_out e d0). rewrite peek_model_pick in Hout.
    destruct (peek_model e d0) as [x [|]]; cbn [bind fst snd].
    + eexists. reflexivity.
    + rewrite stack_PushByteArray_spec. cbn [bind]. split; [reflexivity|]. rewrite (Hlen _ eq_refl).
      destruct Hinv2 as [H|H]; [lia|]. specialize (Hout H). discriminate.
  - subst FUEL. lia.
  - lia.
  - split; [lia|]. destruct Hfit as [Hfit|Hfit]; [left; lia|right; subst e; unfold go_sub, go_mul, go_add, go_conv, go_wrap; lia].
  - rewrite Z2Nat.id in Hr by lia. rewrite Hr. loop_finish r.
    rewrite <- (iter_pick_over (Z.to_nat n) e d); [exact Hres|lia|lia| |]; intros H; subst e; unfold go_sub, go_mul, go_add, go_conv, go_wrap; lia.
Qed.

(** every n on a stack of fewer than 2^30 items *)
Corollary stack_OverN_all_n_small (n : Z) (d : list bytes) : Interp.lenZ d < 1073741824 -> in31 n ->
  st_view (stack_OverN n (rev d)) = Val (if n <? 1 then None else Interp.over_n (Z.to_nat n) d).
Proof. intros Hd Hn. apply stack_OverN_all_n; [lia|exact Hn|]. destruct (Z.le_gt_cases (2 * n) (Interp.lenZ d)); [left; lia|right; lia]. Qed.

(** the instances the opcode handlers use (OP_OVER, OP_2OVER), on any stack the interpreter can hold *)
Corollary stack_OverN_handlers (n : Z) (d : list bytes) : small d -> n = 1 \/ n = 2 ->
  st_view (stack_OverN n (rev d)) = Val (Interp.over_n (Z.to_nat n) d).
Proof.
  intros Hd Hn. unfold small in Hd. rewrite stack_OverN_all_n by (unfold in31; lia).
  replace (n <? 1) with false by lia. reflexivity.
Qed.
