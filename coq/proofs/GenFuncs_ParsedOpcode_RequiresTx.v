(** ParsedOpcode.RequiresTx (bscript/interpreter/opcodeparser.go), as printed from the Go source, is [requires_tx] of model/Interp.v on every opcode value (256-case sweep). *)
From Coq Require Import List ZArith NArith Bool Lia ZifyN ZifyNat ZifyBool.
From Coq Require Import Strings.Byte.
From GoBT Require Import lib.Bytes lib.GoSem gen.Funcs proofs.GenFuncsTac.
Import ListNotations.
Ltac Zify.zify_post_hook ::= Z.div_mod_to_equations.
Local Open Scope Z_scope.

From GoBT Require model.Interp.

Lemma ParsedOpcode_RequiresTx_is_model (v : N) : (v < 256)%N -> ParsedOpcode_RequiresTx (Z.of_N v) = Val (Interp.requires_tx v).
Proof.
  intros Hv. apply M_eqb_bool_eq.
  apply (all256_spec (fun v => M_eqb Bool.eqb (ParsedOpcode_RequiresTx (Z.of_N v)) (Val (Interp.requires_tx v)))); [vm_compute; reflexivity|exact Hv].
Qed.

From GoBT Require model.Parser.
(** the same predicate as the C13 parser model states it *)
Lemma ParsedOpcode_RequiresTx_is_parser_model (v : N) : (v < 256)%N -> ParsedOpcode_RequiresTx (Z.of_N v) = Val (Parser.requires_tx v).
Proof.
  intros Hv. apply M_eqb_bool_eq.
  apply (all256_spec (fun v => M_eqb Bool.eqb (ParsedOpcode_RequiresTx (Z.of_N v)) (Val (Parser.requires_tx v)))); [vm_compute; reflexivity|exact Hv].
Qed.
