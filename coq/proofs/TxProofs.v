(** Proofs about the transaction codec model (model/Tx.v). *)
From Coq Require Import List NArith Lia ZifyN ZifyNat ZifyBool Bool.
From Coq Require Import Strings.Byte.
From GoBT Require Import lib.Bytes lib.Parse lib.VarInt lib.Sha256 model.Tx.
Import ListNotations.
Local Open Scope N_scope.

(** ** Every parser reports exactly what it consumed (success) and never more than it was given (error) *)

Lemma pret_ok {A} (a : A) bs : consumed_ok bs (pret a bs).
Proof. cbn. exists []. split; auto. Qed.

Lemma read_script_safe_ok bs : consumed_ok bs (read_script_safe bs).
Proof.
  unfold read_script_safe. apply pbind_ok; [apply read_varint_ok|]. intros lm r.
  destruct (lenN r <? fst lm); [cbn; lia|].
  apply pbind_ok; [apply read_exact_ok|]. intros; apply pret_ok.
Qed.

Lemma read_input_ok ext bs : consumed_ok bs (read_input ext bs).
Proof.
  unfold read_input.
  repeat (apply pbind_ok; [first [apply read_exact_ok | apply read_script_safe_ok]|]; intros).
  destruct ext.
  - repeat (apply pbind_ok; [first [apply read_exact_ok | apply read_script_safe_ok]|]; intros). apply pret_ok.
  - apply pret_ok.
Qed.

Lemma read_output_ok bs : consumed_ok bs (read_output bs).
Proof.
  unfold read_output.
  repeat (apply pbind_ok; [first [apply read_exact_ok | apply read_script_safe_ok]|]; intros). apply pret_ok.
Qed.

Lemma read_many_ok {A} fuel (p : parser (A * bool)) count bs :
  (forall b, consumed_ok b (p b)) -> consumed_ok bs (read_many fuel p count bs).
Proof.
  intros Hp. revert count bs. induction fuel as [|f IH]; intros count bs; cbn [read_many].
  - destruct (count =? 0); [apply pret_ok|exact I].
  - destruct (count =? 0); [apply pret_ok|].
    apply pbind_ok; [apply Hp|]. intros. apply pbind_ok; [apply IH|]. intros; apply pret_ok.
Qed.

Lemma read_tx_body_ok fuel ver ext ic oc m0 bs : consumed_ok bs (read_tx_body fuel ver ext ic oc m0 bs).
Proof.
  unfold read_tx_body.
  apply pbind_ok; [apply read_many_ok; apply read_input_ok|]. intros.
  apply pbind_ok; [destruct oc; [apply pret_ok|apply read_varint_ok]|]. intros.
  apply pbind_ok; [apply read_many_ok; apply read_output_ok|]. intros.
  apply pbind_ok; [apply read_exact_ok|]. intros. apply pret_ok.
Qed.

Theorem read_tx_ok bs : consumed_ok bs (read_tx bs).
Proof.
  unfold read_tx.
  apply pbind_ok; [apply read_exact_ok|]. intros ver r1.
  apply pbind_ok; [apply read_varint_ok|]. intros ic r2.
  destruct (fst ic =? 0); [|apply read_tx_body_ok].
  apply pbind_ok; [apply read_varint_ok|]. intros oc r3.
  destruct (fst oc =? 0); [|apply read_tx_body_ok].
  apply pbind_ok; [apply read_exact_ok|]. intros lt r4.
  destruct (be_dec lt =? 239); [|apply pret_ok].
  apply pbind_ok; [apply read_varint_ok|]. intros. apply read_tx_body_ok.
Qed.

Theorem read_txs_ok bs : consumed_ok bs (read_txs bs).
Proof.
  unfold read_txs. apply pbind_ok; [apply read_varint_ok|]. intros.
  apply pbind_ok; [|intros; apply pret_ok].
  apply read_many_ok. intros b. pose proof (read_tx_ok b) as H.
  destruct (read_tx b); cbn in *; auto.
Qed.

(** ** Fuel is never exhausted: every item consumes at least one byte *)

Definition progresses {A} (p : parser A) : Prop :=
  forall bs a n rest, p bs = POk a n rest -> (length rest < length bs)%nat.

Lemma read_exact_progress k : (0 < k)%nat -> progresses (read_exact k).
Proof.
  intros Hk bs a n rest H. apply read_exact_inv in H. destruct H as (-> & Hl & _).
  rewrite app_length. lia.
Qed.

Lemma pbind_len {A B} (p : pres A) (f : A -> bytes -> pres B) b m r :
  pbind p f = POk b m r -> exists a n rest m', p = POk a n rest /\ f a rest = POk b m' r /\ m = n + m'.
Proof.
  destruct p as [a n rest|?|]; cbn; try discriminate.
  destruct (f a rest) as [b' m' r'|?|] eqn:E; try discriminate.
  intros [= <- <- <-]. eauto 8.
Qed.

Lemma consumed_ok_len {A} bs (a : A) n rest : consumed_ok bs (POk a n rest) -> (length rest <= length bs)%nat.
Proof. cbn. intros (pre & -> & _). rewrite app_length. lia. Qed.

Lemma read_input_progress ext : progresses (read_input ext).
Proof.
  intros bs a n rest H. unfold read_input in H.
  apply pbind_len in H. destruct H as (x & n1 & r1 & m1 & H1 & H & _).
  apply (read_exact_progress 32) in H1; [|lia].
  assert (length rest <= length r1)%nat; [|lia].
  assert (Hc : consumed_ok r1 (POk a m1 rest)).
  { rewrite <- H.
    repeat (apply pbind_ok; [first [apply read_exact_ok | apply read_script_safe_ok]|]; intros).
    destruct ext.
    - repeat (apply pbind_ok; [first [apply read_exact_ok | apply read_script_safe_ok]|]; intros). apply pret_ok.
    - apply pret_ok. }
  apply consumed_ok_len in Hc. exact Hc.
Qed.

Lemma read_output_progress : progresses read_output.
Proof.
  intros bs a n rest H. unfold read_output in H.
  apply pbind_len in H. destruct H as (x & n1 & r1 & m1 & H1 & H & _).
  apply (read_exact_progress 8) in H1; [|lia].
  assert (Hc : consumed_ok r1 (POk a m1 rest)).
  { rewrite <- H.
    repeat (apply pbind_ok; [first [apply read_exact_ok | apply read_script_safe_ok]|]; intros). apply pret_ok. }
  apply consumed_ok_len in Hc. lia.
Qed.

Definition no_fuel {A} (p : parser A) : Prop := forall bs, p bs <> PFuel.

Lemma read_exact_nf k : no_fuel (read_exact k).
Proof. intros bs. unfold read_exact. destruct (Nat.leb _ _); discriminate. Qed.

Lemma pbind_nf {A B} (p : pres A) (f : A -> bytes -> pres B) :
  p <> PFuel -> (forall a r, f a r <> PFuel) -> pbind p f <> PFuel.
Proof.
  intros Hp Hf. destruct p as [a n r|?|]; cbn; try congruence.
  specialize (Hf a r). destruct (f a r); congruence.
Qed.

Lemma read_varint_nf : no_fuel read_varint.
Proof.
  intros bs. unfold read_varint. apply pbind_nf; [apply read_exact_nf|]. intros b r.
  repeat match goal with |- context [if ?c then _ else _] => destruct c end;
    try (apply pbind_nf; [apply read_exact_nf|]; intros; discriminate); discriminate.
Qed.

Lemma read_script_safe_nf : no_fuel read_script_safe.
Proof.
  intros bs. unfold read_script_safe. apply pbind_nf; [apply read_varint_nf|]. intros lm r.
  destruct (lenN r <? fst lm); [discriminate|].
  apply pbind_nf; [apply read_exact_nf|]. intros; discriminate.
Qed.

Lemma read_input_nf ext : no_fuel (read_input ext).
Proof.
  intros bs. unfold read_input.
  repeat (apply pbind_nf; [first [apply read_exact_nf | apply read_script_safe_nf]|]; intros).
  destruct ext; [|discriminate].
  repeat (apply pbind_nf; [first [apply read_exact_nf | apply read_script_safe_nf]|]; intros). discriminate.
Qed.

Lemma read_output_nf : no_fuel read_output.
Proof.
  intros bs. unfold read_output.
  repeat (apply pbind_nf; [first [apply read_exact_nf | apply read_script_safe_nf]|]; intros). discriminate.
Qed.

Lemma read_many_nf {A} (p : parser (A * bool)) :
  progresses p -> no_fuel p -> forall fuel count bs, (length bs < fuel)%nat -> read_many fuel p count bs <> PFuel.
Proof.
  intros Hp Hn. induction fuel as [|f IH]; intros count bs Hf; [lia|].
  cbn [read_many]. destruct (count =? 0); [discriminate|].
  destruct (p bs) as [xm n r|?|] eqn:E; cbn [pbind]; [|discriminate|exfalso; eapply Hn; eauto].
  specialize (Hp _ _ _ _ E). specialize (IH (count - 1) r ltac:(lia)).
  destruct (read_many f p (count - 1) r); cbn; congruence.
Qed.

Lemma pbind_POk_len {A B} bs (p : parser A) (f : A -> bytes -> pres B) :
  (forall b, consumed_ok b (p b)) -> forall a n r, p bs = POk a n r -> (length r <= length bs)%nat.
Proof. intros H a n r E. specialize (H bs). rewrite E in H. eapply consumed_ok_len; eauto. Qed.

Lemma read_tx_body_nf fuel ver ext ic oc m0 bs :
  (length bs < fuel)%nat -> read_tx_body fuel ver ext ic oc m0 bs <> PFuel.
Proof.
  intros Hf. unfold read_tx_body.
  destruct (read_many fuel (read_input ext) ic bs) as [ins n1 ra|?|] eqn:E1; cbn [pbind];
    [|discriminate|exfalso; revert E1; apply read_many_nf; auto using read_input_progress, read_input_nf].
  assert (length ra <= length bs)%nat as L1.
  { pose proof (read_many_ok fuel (read_input ext) ic bs (read_input_ok ext)) as H. rewrite E1 in H.
    eapply consumed_ok_len; eauto. }
  set (pc := match oc with Some c => pret (c, true) | None => read_varint end).
  destruct (pc ra) as [ocv n2 rb|?|] eqn:E2; cbn [pbind]; [|discriminate|].
  2:{ exfalso. subst pc. destruct oc; [discriminate|]. eapply read_varint_nf; eauto. }
  assert (length rb <= length ra)%nat as L2.
  { assert (H : consumed_ok ra (pc ra)) by (subst pc; destruct oc; [apply pret_ok|apply read_varint_ok]).
    rewrite E2 in H. eapply consumed_ok_len; eauto. }
  destruct (read_many fuel read_output (fst ocv) rb) as [outs n3 rc|?|] eqn:E3; cbn [pbind];
    [|discriminate|exfalso; revert E3; apply read_many_nf; auto using read_output_progress, read_output_nf; lia].
  destruct (read_exact 4 rc) as [lt n4 rd|?|] eqn:E4; cbn; try discriminate.
  exfalso; eapply read_exact_nf; eauto.
Qed.

(** Termination half of the decoder model: the fuel chosen by [read_tx] always suffices. *)
Theorem read_tx_never_out_of_fuel bs : read_tx bs <> PFuel.
Proof.
  unfold read_tx.
  destruct (read_exact 4 bs) as [ver n1 r1|?|] eqn:E1; cbn [pbind]; [|discriminate|exfalso; eapply read_exact_nf; eauto].
  assert (L1 : (length r1 <= length bs)%nat).
  { pose proof (read_exact_ok 4 bs) as H. rewrite E1 in H. eapply consumed_ok_len; eauto. }
  destruct (read_varint r1) as [ic n2 r2|?|] eqn:E2; cbn [pbind]; [|discriminate|exfalso; eapply read_varint_nf; eauto].
  assert (L2 : (length r2 <= length r1)%nat).
  { pose proof (read_varint_ok r1) as H. rewrite E2 in H. eapply consumed_ok_len; eauto. }
  assert (forall X, (match X with POk b m r => POk b (n1 + (n2 + m)) r | PErr m => PErr (n1 + (n2 + m)) | PFuel => @PFuel parsed end) = PFuel -> X = PFuel) as K
    by (intros [| |]; congruence).
  assert (G : forall X : pres parsed, X <> PFuel ->
     match match X with POk b m r => POk b (n2 + m) r | PErr m => PErr (n2 + m) | PFuel => PFuel end with
     | POk b m r => POk b (n1 + m) r | PErr m => PErr (n1 + m) | PFuel => PFuel end <> PFuel)
    by (intros [| |]; congruence).
  apply G.
  destruct (fst ic =? 0); [|apply read_tx_body_nf; lia].
  destruct (read_varint r2) as [oc n3 r3|?|] eqn:E3; cbn [pbind]; [|discriminate|exfalso; eapply read_varint_nf; eauto].
  assert (L3 : (length r3 <= length r2)%nat).
  { pose proof (read_varint_ok r2) as H. rewrite E3 in H. eapply consumed_ok_len; eauto. }
  assert (G3 : forall X : pres parsed, X <> PFuel ->
     match X with POk b m r => POk b (n3 + m) r | PErr m => PErr (n3 + m) | PFuel => PFuel end <> PFuel)
    by (intros [| |]; congruence).
  apply G3.
  destruct (fst oc =? 0); [|apply read_tx_body_nf; lia].
  destruct (read_exact 4 r3) as [lt n4 r4|?|] eqn:E4; cbn [pbind]; [|discriminate|exfalso; eapply read_exact_nf; eauto].
  assert (L4 : (length r4 <= length r3)%nat).
  { pose proof (read_exact_ok 4 r3) as H. rewrite E4 in H. eapply consumed_ok_len; eauto. }
  assert (G4 : forall X : pres parsed, X <> PFuel ->
     match X with POk b m r => POk b (n4 + m) r | PErr m => PErr (n4 + m) | PFuel => PFuel end <> PFuel)
    by (intros [| |]; congruence).
  apply G4.
  destruct (be_dec lt =? 239); [|discriminate].
  destruct (read_varint r4) as [ic2 n5 r5|?|] eqn:E5; cbn [pbind]; [|discriminate|exfalso; eapply read_varint_nf; eauto].
  assert (L5 : (length r5 <= length r4)%nat).
  { pose proof (read_varint_ok r4) as H. rewrite E5 in H. eapply consumed_ok_len; eauto. }
  assert (G5 : forall X : pres parsed, X <> PFuel ->
     match X with POk b m r => POk b (n5 + m) r | PErr m => PErr (n5 + m) | PFuel => PFuel end <> PFuel)
    by (intros [| |]; congruence).
  apply G5. apply read_tx_body_nf. lia.
Qed.

(** ** encode-then-decode *)

Lemma lenN_app (a b : bytes) : lenN (a ++ b) = lenN a + lenN b.
Proof. unfold lenN. rewrite app_length. lia. Qed.

Lemma read_script_safe_app s rest : wf_script s ->
  exists n, read_script_safe (script_bytes s ++ rest) = POk (s, true) n rest.
Proof.
  intros Hs. unfold read_script_safe, script_bytes. rewrite <- app_assoc.
  rewrite varint_roundtrip by exact Hs. cbn [pbind fst snd].
  destruct (N.ltb_spec (lenN (s ++ rest)) (lenN s)) as [H|H]; [rewrite lenN_app in H; lia|].
  rewrite read_exact_app by (unfold lenN; symmetry; apply Nat2N.id). cbn. eauto.
Qed.

Definition conv_input (ext : bool) (i : input) : input := if ext then norm_input i else strip_input i.

Lemma read_input_app ext i rest : wf_input i ->
  exists n, read_input ext (input_bytes ext i ++ rest) = POk (conv_input ext i, true) n rest.
Proof.
  intros (Htx & Hv & Hs & Hsat & Hu & Hp). unfold read_input, input_bytes.
  rewrite <- !app_assoc.
  rewrite read_exact_app by (rewrite rev_length; exact Htx). cbn [pbind].
  rewrite read_exact_app by apply le_enc_length. cbn [pbind].
  destruct (read_script_safe_app (in_unlock i) (le_enc 4 (in_seq i) ++
     (if ext then le_enc 8 (in_sats i) ++ match in_script i with Some s => script_bytes s | None => [x00] end else []) ++ rest) Hu) as [n1 H1].
  rewrite H1. cbn [pbind].
  rewrite read_exact_app by apply le_enc_length. cbn [pbind fst snd].
  rewrite rev_involutive, !le_dec_enc by (rewrite ?pow256_4; assumption).
  destruct ext.
  - rewrite <- !app_assoc. rewrite read_exact_app by apply le_enc_length. cbn [pbind].
    rewrite le_dec_enc by (rewrite pow256_8; assumption).
    destruct (in_script i) as [s|] eqn:Es.
    + destruct (read_script_safe_app s rest Hp) as [n2 H2]. rewrite H2. cbn.
      unfold norm_input. rewrite Es. eauto.
    + destruct (read_script_safe_app [] rest) as [n2 H2]; [unfold wf_script, lenN, two64; cbn; lia|].
      change (script_bytes []) with [x00] in H2. rewrite H2. cbn.
      unfold norm_input. rewrite Es. eauto.
  - cbn. unfold strip_input. eauto.
Qed.

Lemma read_output_app o rest : wf_output o ->
  exists n, read_output (output_bytes o ++ rest) = POk (o, true) n rest.
Proof.
  intros (Hs & Hsc). unfold read_output, output_bytes. rewrite <- app_assoc.
  rewrite read_exact_app by apply le_enc_length. cbn [pbind].
  destruct (read_script_safe_app (out_script o) rest Hsc) as [n H]. rewrite H. cbn [pbind pret fst snd].
  rewrite le_dec_enc by (rewrite pow256_8; assumption). destruct o as [sats scr]; cbn. eauto.
Qed.

Lemma read_many_app {A B} (p : parser (B * bool)) (enc : A -> bytes) (conv : A -> B) (wf : A -> Prop) :
  (forall x rest, wf x -> exists n, p (enc x ++ rest) = POk (conv x, true) n rest) ->
  forall xs fuel rest, Forall wf xs -> (length xs <= fuel)%nat ->
  exists n, read_many fuel p (N.of_nat (length xs)) (concat (map enc xs) ++ rest) = POk (map conv xs, true) n rest.
Proof.
  intros Hp. induction xs as [|x xs IH]; intros fuel rest Hwf Hf.
  - destruct fuel; cbn; unfold pret; eauto.
  - destruct fuel as [|f]; [cbn in Hf; lia|].
    cbn [length map concat read_many].
    destruct (N.eqb_spec (N.of_nat (S (length xs))) 0) as [E|_]; [lia|].
    rewrite <- app_assoc. inversion Hwf as [|? ? Hx Hxs]; subst.
    destruct (Hp x (concat (map enc xs) ++ rest) Hx) as [n1 H1]. rewrite H1. cbn [pbind].
    replace (N.of_nat (S (length xs)) - 1) with (N.of_nat (length xs)) by lia.
    destruct (IH f rest Hxs ltac:(cbn in Hf; lia)) as [n2 H2]. rewrite H2. cbn. eauto.
Qed.

Lemma concat_length_ge {A} (enc : A -> bytes) xs :
  (forall x, (1 <= length (enc x))%nat) -> (length xs <= length (concat (map enc xs)))%nat.
Proof.
  intros H. induction xs as [|x xs IH]; cbn; [lia|]. rewrite app_length. specialize (H x). lia.
Qed.

Lemma input_bytes_nonempty ext i : length (in_txid i) = 32%nat -> (1 <= length (input_bytes ext i))%nat.
Proof. intros H. unfold input_bytes. rewrite app_length, rev_length, H. lia. Qed.
Lemma output_bytes_nonempty o : (1 <= length (output_bytes o))%nat.
Proof. unfold output_bytes. rewrite app_length, le_enc_length. lia. Qed.

Lemma concat_inputs_length ext ins : Forall wf_input ins ->
  (length ins <= length (concat (map (input_bytes ext) ins)))%nat.
Proof.
  induction 1 as [|i ins Hi Hins IH]; cbn; [lia|]. rewrite app_length.
  pose proof (input_bytes_nonempty ext i (proj1 Hi)). lia.
Qed.

Lemma read_tx_body_app fuel ver ext ins outs lock m0 (oc : bool) rest :
  Forall wf_input ins -> Forall wf_output outs -> lock < two32 ->
  N.of_nat (length outs) < two64 ->
  (length ins <= fuel)%nat -> (length outs <= fuel)%nat ->
  exists n,
    read_tx_body fuel ver ext (N.of_nat (length ins))
      (if oc then Some (N.of_nat (length outs)) else None) m0
      (concat (map (input_bytes ext) ins) ++
       (if oc then [] else varint_bytes (N.of_nat (length outs))) ++
       concat (map output_bytes outs) ++ le_enc 4 lock ++ rest)
    = POk (mkParsed (mkTx (le_dec ver) (map (conv_input ext) ins) outs lock) ext m0) n rest.
Proof.
  intros Hi Ho Hl Hno Hfi Hfo. unfold read_tx_body.
  destruct (read_many_app (read_input ext) (input_bytes ext) (conv_input ext) wf_input
              (read_input_app ext) ins fuel
              ((if oc then [] else varint_bytes (N.of_nat (length outs))) ++
                 concat (map output_bytes outs) ++ le_enc 4 lock ++ rest) Hi Hfi) as [n1 H1].
  rewrite H1. cbn [pbind fst snd].
  destruct (read_many_app read_output output_bytes (fun o => o) wf_output read_output_app outs fuel
              (le_enc 4 lock ++ rest) Ho Hfo) as [n3 H3].
  rewrite map_id in H3.
  destruct oc.
  - cbn [app pret pbind fst snd]. rewrite H3. cbn [pbind].
    rewrite read_exact_app by apply le_enc_length. cbn [pbind pret fst snd].
    rewrite le_dec_enc by (rewrite pow256_4; assumption).
    rewrite !andb_true_r. eauto.
  - rewrite varint_roundtrip by assumption. cbn [pbind fst snd]. rewrite H3. cbn [pbind].
    rewrite read_exact_app by apply le_enc_length. cbn [pbind pret fst snd].
    rewrite le_dec_enc by (rewrite pow256_4; assumption).
    rewrite !andb_true_r. eauto.
Qed.

Lemma read_tx_body_app_noins fuel ver outs lock m0 rest :
  Forall wf_output outs -> lock < two32 -> N.of_nat (length outs) < two64 -> (length outs <= fuel)%nat ->
  exists n,
    read_tx_body fuel ver false 0 (Some (N.of_nat (length outs))) m0
      (concat (map output_bytes outs) ++ le_enc 4 lock ++ rest)
    = POk (mkParsed (mkTx (le_dec ver) [] outs lock) false m0) n rest.
Proof.
  intros Ho Hl Hno Hfo.
  exact (read_tx_body_app fuel ver false [] outs lock m0 true rest (Forall_nil _) Ho Hl Hno (PeanoNat.Nat.le_0_l _) Hfo).
Qed.

Lemma varint_zero : varint_bytes 0 = [x00]. Proof. reflexivity. Qed.
Lemma marker_split r : ext_marker ++ r = varint_bytes 0 ++ varint_bytes 0 ++ [x00; x00; x00; xef] ++ r.
Proof. reflexivity. Qed.

Lemma le4_be_239 lock : lock < two32 -> (be_dec (le_enc 4 lock) =? 239) = true -> be_dec (le_enc 4 lock) = 239.
Proof. intros _ H. apply N.eqb_eq in H. exact H. Qed.

Theorem tx_roundtrip_exists ext t rest : wf_tx t -> (ext = false -> ~ ambiguous t) ->
  exists n, read_tx (tx_bytes ext t ++ rest) =
            POk (mkParsed (mkTx (tx_version t) (map (conv_input ext) (tx_ins t)) (tx_outs t) (tx_lock t)) ext true) n rest.
Proof.
  intros (Hv & Hl & Hi & Ho & Hni & Hno) Hamb.
  destruct t as [ver ins outs lock]; cbn [tx_version tx_ins tx_outs tx_lock] in *.
  unfold read_tx, tx_bytes; cbn [tx_version tx_ins tx_outs tx_lock].
  set (whole := (le_enc 4 ver ++ _) ++ rest).
  assert (Hlen : (length ins <= S (length whole))%nat /\ (length outs <= S (length whole))%nat).
  { subst whole. pose proof (concat_inputs_length ext ins Hi).
    pose proof (concat_length_ge output_bytes outs output_bytes_nonempty).
    rewrite !app_length. lia. }
  destruct Hlen as [Hfi Hfo]. generalize dependent (S (length whole)). intros fuel Hfi Hfo.
  subst whole. rewrite <- !app_assoc.
  rewrite read_exact_app by apply le_enc_length. cbn [pbind].
  rewrite (le_dec_enc 4 ver) by (rewrite pow256_4; assumption).
  assert (Hver : forall X Y : pres parsed, X = Y -> forall k, match X with POk b m r => POk b (k + m) r | PErr m => PErr (k + m) | PFuel => PFuel end = match Y with POk b m r => POk b (k + m) r | PErr m => PErr (k + m) | PFuel => PFuel end) by (intros; subst; auto).
  destruct ext.
  - (* extended: marker 00 00 00 00 00 EF *)
    rewrite marker_split.
    rewrite varint_roundtrip by (unfold two64; lia). cbn [pbind fst snd N.eqb].
    rewrite varint_roundtrip by (unfold two64; lia). cbn [pbind fst snd N.eqb].
    rewrite (read_exact_app 4 [x00; x00; x00; xef]) by reflexivity. cbn [pbind].
    change (be_dec [x00; x00; x00; xef] =? 239) with true. cbv iota.
    rewrite varint_roundtrip by assumption. cbn [pbind fst snd andb].
    destruct (read_tx_body_app fuel (le_enc 4 ver) true ins outs lock true false rest Hi Ho Hl Hno Hfi Hfo) as [n H].
    cbn [app] in H. rewrite H. rewrite (le_dec_enc 4 ver) by (rewrite pow256_4; assumption). cbn. eauto.
  - cbn [app].
    destruct ins as [|i ins'].
    + cbn [length map concat app N.of_nat]. rewrite varint_zero.
      change ([x00] ++ ?r) with (varint_bytes 0 ++ r). rewrite varint_roundtrip by (unfold two64; lia).
      cbn [pbind fst snd N.eqb].
      rewrite varint_roundtrip by assumption. cbn [pbind fst snd andb].
      destruct (N.eqb_spec (N.of_nat (length outs)) 0) as [E|E].
      * assert (outs = []) by (destruct outs; [reflexivity|cbn in E; lia]). subst outs.
        cbn [length N.of_nat N.eqb map concat app].
        rewrite read_exact_app by apply le_enc_length. cbn [pbind].
        destruct (be_dec (le_enc 4 lock) =? 239) eqn:E2.
        { exfalso. apply (Hamb eq_refl). unfold ambiguous; cbn. apply N.eqb_eq in E2. auto. }
        cbn [pret pbind andb]. rewrite le_dec_enc by (rewrite pow256_4; assumption). cbn [map]. eauto.
      * destruct (read_tx_body_app_noins fuel (le_enc 4 ver) outs lock true rest Ho Hl Hno Hfo) as [n H].
        rewrite H. rewrite (le_dec_enc 4 ver) by (rewrite pow256_4; assumption). cbn. eauto.
    + rewrite varint_roundtrip by assumption. cbn [pbind fst snd].
      destruct (N.eqb_spec (N.of_nat (length (i :: ins'))) 0) as [E|_]; [cbn in E; lia|].
      destruct (read_tx_body_app fuel (le_enc 4 ver) false (i :: ins') outs lock true false rest Hi Ho Hl Hno Hfi Hfo) as [n H].
      rewrite H. rewrite (le_dec_enc 4 ver) by (rewrite pow256_4; assumption). cbn. eauto.
Qed.

(** ** decode-then-encode: accepted input with minimal length prefixes re-serialises to itself *)

Lemma le_enc_dec_len k x : length x = k -> le_enc k (le_dec x) = x.
Proof. intros <-. apply le_enc_dec. Qed.

Lemma read_script_safe_inv bs s m n rest :
  read_script_safe bs = POk (s, m) n rest -> m = true -> bs = script_bytes s ++ rest.
Proof.
  unfold read_script_safe. intros H Hm.
  apply pbind_len in H. destruct H as ([l lm] & n1 & r1 & m1 & H1 & H & _). cbn [fst snd] in H.
  destruct (lenN r1 <? l); [discriminate|].
  apply pbind_len in H. destruct H as (x & n2 & r2 & m2 & H2 & H & _).
  cbn in H. injection H as <- <- _ <-. subst lm.
  apply read_varint_canonical in H1. destruct H1 as (-> & _ & _).
  apply read_exact_inv in H2. destruct H2 as (-> & Hl & _).
  unfold script_bytes. rewrite <- app_assoc. f_equal. f_equal.
  unfold lenN. rewrite Hl. lia.
Qed.

Lemma read_input_inv ext bs i m n rest :
  read_input ext bs = POk (i, m) n rest -> m = true -> bs = input_bytes ext i ++ rest.
Proof.
  unfold read_input. intros H Hm.
  apply pbind_len in H. destruct H as (tx & ? & r1 & ? & H1 & H & _).
  apply pbind_len in H. destruct H as (vo & ? & r2 & ? & H2 & H & _).
  apply pbind_len in H. destruct H as ([us um] & ? & r3 & ? & H3 & H & _).
  apply pbind_len in H. destruct H as (sq & ? & r4 & ? & H4 & H & _).
  apply read_exact_inv in H1. destruct H1 as (-> & L1 & _).
  apply read_exact_inv in H2. destruct H2 as (-> & L2 & _).
  apply read_exact_inv in H4. destruct H4 as (-> & L4 & _).
  cbn [fst snd] in H. unfold input_bytes.
  destruct ext.
  - apply pbind_len in H. destruct H as (sa & ? & r5 & ? & H5 & H & _).
    apply pbind_len in H. destruct H as ([ps pm] & ? & r6 & ? & H6 & H & _).
    apply read_exact_inv in H5. destruct H5 as (-> & L5 & _).
    cbn in H. injection H as <- <- _ <-.
    apply andb_true_iff in Hm. destruct Hm as [-> ->].
    apply read_script_safe_inv in H3; auto. apply read_script_safe_inv in H6; auto. subst.
    cbn [in_txid in_vout in_unlock in_seq in_sats in_script].
    rewrite rev_involutive, !le_enc_dec_len by assumption. rewrite <- !app_assoc. reflexivity.
  - cbn in H. injection H as <- <- _ <-. subst um.
    apply read_script_safe_inv in H3; auto. subst.
    cbn [in_txid in_vout in_unlock in_seq in_sats in_script].
    rewrite rev_involutive, !le_enc_dec_len by assumption. rewrite <- !app_assoc. cbn [app]. reflexivity.
Qed.

Lemma read_output_inv bs o m n rest :
  read_output bs = POk (o, m) n rest -> m = true -> bs = output_bytes o ++ rest.
Proof.
  unfold read_output. intros H Hm.
  apply pbind_len in H. destruct H as (sa & ? & r1 & ? & H1 & H & _).
  apply pbind_len in H. destruct H as ([s sm] & ? & r2 & ? & H2 & H & _).
  apply read_exact_inv in H1. destruct H1 as (-> & L1 & _).
  cbn in H. injection H as <- <- _ <-. subst sm.
  apply read_script_safe_inv in H2; auto. subst. unfold output_bytes. cbn [out_sats out_script].
  rewrite le_enc_dec_len by assumption. rewrite <- app_assoc. reflexivity.
Qed.

Lemma read_many_inv {A} (p : parser (A * bool)) (enc : A -> bytes) :
  (forall bs x m n rest, p bs = POk (x, m) n rest -> m = true -> bs = enc x ++ rest) ->
  forall fuel count bs xs m n rest, read_many fuel p count bs = POk (xs, m) n rest -> m = true ->
    bs = concat (map enc xs) ++ rest /\ count = N.of_nat (length xs).
Proof.
  intros Hp. induction fuel as [|f IH]; intros count bs xs m n rest H Hm; cbn [read_many] in H.
  - destruct (N.eqb_spec count 0); [|discriminate]. cbn in H. injection H as <- _ _ <-. cbn. auto.
  - destruct (N.eqb_spec count 0) as [->|Hc].
    + cbn in H. injection H as <- _ _ <-. cbn. auto.
    + apply pbind_len in H. destruct H as ([x xm] & ? & r1 & ? & H1 & H & _).
      apply pbind_len in H. destruct H as ([xs' sm] & ? & r2 & ? & H2 & H & _).
      cbn in H. injection H as <- <- _ <-.
      apply andb_true_iff in Hm. destruct Hm as [-> ->].
      apply Hp in H1; auto. apply IH in H2; auto. destruct H2 as [-> Hcnt]. subst bs.
      cbn [map concat length]. rewrite <- app_assoc. split; [reflexivity|]. lia.
Qed.

Lemma read_tx_body_inv fuel ver ext ic (oc : option N) m0 bs p n rest :
  length ver = 4%nat ->
  read_tx_body fuel ver ext ic oc m0 bs = POk p n rest -> p_min p = true ->
  p_ext p = ext /\ m0 = true /\ tx_version (p_tx p) = le_dec ver /\
  ic = N.of_nat (length (tx_ins (p_tx p))) /\
  match oc with Some c => c = N.of_nat (length (tx_outs (p_tx p))) | None => True end /\
  bs = concat (map (input_bytes ext) (tx_ins (p_tx p))) ++
       (match oc with Some _ => [] | None => varint_bytes (N.of_nat (length (tx_outs (p_tx p)))) end) ++
       concat (map output_bytes (tx_outs (p_tx p))) ++ le_enc 4 (tx_lock (p_tx p)) ++ rest.
Proof.
  intros Lv H Hm. unfold read_tx_body in H.
  apply pbind_len in H. destruct H as ([ins im] & ? & ra & ? & H1 & H & _).
  apply pbind_len in H. destruct H as ([ocv om] & ? & rb & ? & H2 & H & _).
  apply pbind_len in H. destruct H as ([outs outm] & ? & rc & ? & H3 & H & _).
  apply pbind_len in H. destruct H as (lt & ? & rd & ? & H4 & H & _).
  cbn in H. injection H as <- _ <-. cbn [p_min p_ext p_tx tx_version tx_ins tx_outs tx_lock] in *.
  apply andb_true_iff in Hm. destruct Hm as [Hm ->].
  apply andb_true_iff in Hm. destruct Hm as [Hm ->].
  apply andb_true_iff in Hm. destruct Hm as [-> ->].
  apply (read_many_inv _ (input_bytes ext) (read_input_inv ext)) in H1; auto. destruct H1 as [-> ->].
  apply (read_many_inv _ output_bytes read_output_inv) in H3; auto. destruct H3 as [-> Hoc]. cbn [fst] in Hoc.
  apply read_exact_inv in H4. destruct H4 as (-> & L4 & _).
  rewrite le_enc_dec_len by assumption.
  destruct oc as [c|].
  - cbn in H2. injection H2 as <- _ <-. repeat split; auto.
  - apply read_varint_canonical in H2. destruct H2 as (-> & _ & _). subst ocv.
    repeat split; auto.
Qed.

Theorem read_tx_canonical bs p n rest :
  read_tx bs = POk p n rest -> p_min p = true -> bs = tx_bytes (p_ext p) (p_tx p) ++ rest.
Proof.
  unfold read_tx. intros H Hm.
  apply pbind_len in H. destruct H as (ver & ? & r1 & ? & H1 & H & _).
  apply pbind_len in H. destruct H as ([ic icm] & ? & r2 & ? & H2 & H & _).
  apply read_exact_inv in H1. destruct H1 as (-> & Lv & _).
  cbn [fst snd] in H.
  destruct (N.eqb_spec ic 0) as [->|Hic].
  - apply pbind_len in H. destruct H as ([oc ocm] & ? & r3 & ? & H3 & H & _). cbn [fst snd] in H.
    destruct (N.eqb_spec oc 0) as [->|Hoc].
    + apply pbind_len in H. destruct H as (lt & ? & r4 & ? & H4 & H & _).
      apply read_exact_inv in H4. destruct H4 as (-> & L4 & _).
      destruct (N.eqb_spec (be_dec lt) 239) as [E|E].
      * apply pbind_len in H. destruct H as ([ic2 ic2m] & ? & r5 & ? & H5 & H & _). cbn [fst snd] in H.
        apply (read_tx_body_inv _ _ _ _ _ _ _ _ _ _ Lv) in H; auto.
        destruct H as (-> & Hm0 & Hv & Hicn & _ & ->).
        apply andb_true_iff in Hm0. destruct Hm0 as [Hm0 ->].
        apply andb_true_iff in Hm0. destruct Hm0 as [-> ->].
        apply read_varint_canonical in H2. destruct H2 as (-> & _ & _).
        apply read_varint_canonical in H3. destruct H3 as (-> & _ & _).
        apply read_varint_canonical in H5. destruct H5 as (-> & _ & _).
        unfold tx_bytes. rewrite Hv, le_enc_dec_len by assumption. subst ic2.
        assert (lt = [x00; x00; x00; xef]) as ->.
        { rewrite <- (be_enc_dec lt), L4, E. reflexivity. }
        rewrite <- !app_assoc. reflexivity.
      * cbn in H. injection H as <- _ <-. cbn [p_min p_ext p_tx] in *.
        apply andb_true_iff in Hm. destruct Hm as [-> ->].
        apply read_varint_canonical in H2. destruct H2 as (-> & _ & _).
        apply read_varint_canonical in H3. destruct H3 as (-> & _ & _).
        unfold tx_bytes. cbn [tx_version tx_ins tx_outs tx_lock length map concat N.of_nat app].
        rewrite !le_enc_dec_len by assumption. rewrite <- !app_assoc. reflexivity.
    + apply (read_tx_body_inv _ _ _ _ _ _ _ _ _ _ Lv) in H; auto.
      destruct H as (-> & Hm0 & Hv & Hicn & Hocn & ->).
      apply andb_true_iff in Hm0. destruct Hm0 as [-> ->].
      apply read_varint_canonical in H2. destruct H2 as (-> & _ & _).
      apply read_varint_canonical in H3. destruct H3 as (-> & _ & _).
      unfold tx_bytes. rewrite Hv, le_enc_dec_len by assumption. rewrite <- Hicn, <- Hocn.
      destruct (tx_ins (p_tx p)); [|cbn in Hicn; lia].
      cbn [map concat app]. rewrite <- !app_assoc. reflexivity.
  - apply (read_tx_body_inv _ _ _ _ _ _ _ _ _ _ Lv) in H; auto.
    destruct H as (-> & -> & Hv & Hicn & _ & ->).
    apply read_varint_canonical in H2. destruct H2 as (-> & _ & _).
    unfold tx_bytes. rewrite Hv, le_enc_dec_len by assumption. rewrite <- Hicn.
    cbn [app]. rewrite <- !app_assoc. reflexivity.
Qed.

(** ** Final forms *)

Lemma consumed_exact {A} (a : A) n rest pre :
  consumed_ok (pre ++ rest) (POk a n rest) -> n = lenN pre.
Proof.
  cbn. intros (pre' & E & ->). apply app_inv_tail in E. subst. reflexivity.
Qed.

Lemma conv_std_is_strip t :
  mkTx (tx_version t) (map (conv_input false) (tx_ins t)) (tx_outs t) (tx_lock t) = strip_tx t.
Proof. reflexivity. Qed.
Lemma conv_ext_is_norm t :
  mkTx (tx_version t) (map (conv_input true) (tx_ins t)) (tx_outs t) (tx_lock t) = norm_tx t.
Proof. reflexivity. Qed.

Theorem tx_std_roundtrip t rest : wf_tx t -> ~ ambiguous t ->
  read_tx (tx_bytes false t ++ rest) = POk (mkParsed (strip_tx t) false true) (lenN (tx_bytes false t)) rest.
Proof.
  intros Hwf Ha. destruct (tx_roundtrip_exists false t rest Hwf (fun _ => Ha)) as [n H].
  rewrite conv_std_is_strip in H. rewrite H. f_equal.
  pose proof (read_tx_ok (tx_bytes false t ++ rest)) as Hok. rewrite H in Hok.
  eapply consumed_exact; eauto.
Qed.

Theorem tx_ext_roundtrip t rest : wf_tx t ->
  read_tx (tx_bytes true t ++ rest) = POk (mkParsed (norm_tx t) true true) (lenN (tx_bytes true t)) rest.
Proof.
  intros Hwf. destruct (tx_roundtrip_exists true t rest Hwf ltac:(discriminate)) as [n H].
  rewrite conv_ext_is_norm in H. rewrite H. f_equal.
  pose proof (read_tx_ok (tx_bytes true t ++ rest)) as Hok. rewrite H in Hok.
  eapply consumed_exact; eauto.
Qed.

Lemma input_bytes_strip i : input_bytes false (strip_input i) = input_bytes false i.
Proof. reflexivity. Qed.
Lemma input_bytes_norm i : input_bytes true (norm_input i) = input_bytes true i.
Proof. unfold input_bytes, norm_input; cbn. destruct (in_script i); reflexivity. Qed.

Theorem reserialise_std t : tx_bytes false (strip_tx t) = tx_bytes false t.
Proof.
  unfold tx_bytes, strip_tx; cbn. rewrite map_length, map_map.
  rewrite (map_ext _ (input_bytes false) input_bytes_strip). reflexivity.
Qed.
Theorem reserialise_ext t : tx_bytes true (norm_tx t) = tx_bytes true t.
Proof.
  unfold tx_bytes, norm_tx; cbn. rewrite map_length, map_map.
  rewrite (map_ext _ (input_bytes true) input_bytes_norm). reflexivity.
Qed.

(** accepted input is consumed exactly: what is reported is the length of the prefix taken, the
    remainder is untouched (so stream / list parsing continues at the next transaction) *)
Theorem parse_consumes_exactly bs p n rest :
  read_tx bs = POk p n rest -> exists pre, bs = pre ++ rest /\ n = lenN pre /\ n <= lenN bs.
Proof.
  intros H. pose proof (read_tx_ok bs) as Hok. rewrite H in Hok. destruct Hok as (pre & -> & ->).
  exists pre. repeat split. rewrite lenN_app. lia.
Qed.

Theorem parse_error_consumed_le bs n : read_tx bs = PErr n -> n <= lenN bs.
Proof. intros H. pose proof (read_tx_ok bs) as Hok. rewrite H in Hok. exact Hok. Qed.

Theorem from_bytes_iff bs p : tx_from_bytes bs = ROk p <-> read_tx bs = POk p (lenN bs) [].
Proof.
  unfold tx_from_bytes. split.
  - destruct (read_tx bs) as [q n rest|?|] eqn:E; try discriminate.
    destruct (N.eqb_spec n (lenN bs)) as [->|]; [|discriminate]. intros [= ->].
    apply parse_consumes_exactly in E. destruct E as (pre & Hb & Hn & _).
    f_equal. subst bs. rewrite lenN_app in Hn. destruct rest; [reflexivity|].
    unfold lenN in Hn. cbn in Hn. lia.
  - intros ->. rewrite N.eqb_refl. reflexivity.
Qed.

Theorem from_bytes_roundtrip_std t : wf_tx t -> ~ ambiguous t ->
  tx_from_bytes (tx_bytes false t) = ROk (mkParsed (strip_tx t) false true).
Proof.
  intros Hwf Ha. apply from_bytes_iff.
  pose proof (tx_std_roundtrip t [] Hwf Ha) as H. rewrite app_nil_r in H. exact H.
Qed.

Theorem from_bytes_roundtrip_ext t : wf_tx t ->
  tx_from_bytes (tx_bytes true t) = ROk (mkParsed (norm_tx t) true true).
Proof.
  intros Hwf. apply from_bytes_iff.
  pose proof (tx_ext_roundtrip t [] Hwf) as H. rewrite app_nil_r in H. exact H.
Qed.

Lemma map_combine_strip ins :
  map (fun ab : input * input =>
         mkInput (in_txid (fst ab)) (in_vout (fst ab)) (in_unlock (fst ab)) (in_seq (fst ab))
                 (in_sats (snd ab)) (in_script (snd ab)))
      (combine (map strip_input ins) ins) = ins.
Proof. induction ins as [|i ins IH]; cbn; [reflexivity|]. rewrite IH. destruct i; reflexivity. Qed.

(** Tx.Clone returns an equal transaction (previous-output fields copied across) *)
Theorem clone_eq t : wf_tx t -> ~ ambiguous t -> clone t = ROk t.
Proof.
  intros Hwf Ha. unfold clone. rewrite from_bytes_roundtrip_std by assumption.
  cbn [p_tx strip_tx tx_version tx_ins tx_outs tx_lock]. rewrite map_combine_strip. destruct t; reflexivity.
Qed.

Theorem txid_def t : txid t = rev (sha256 (sha256 (tx_bytes false t))).
Proof. reflexivity. Qed.

(** block list: count, then the transactions back to back, each in either format *)
Definition list_item_ok (et : bool * tx) : Prop := wf_tx (snd et) /\ (fst et = false -> ~ ambiguous (snd et)).
Definition list_item_parsed (et : bool * tx) : parsed :=
  mkParsed (if fst et then norm_tx (snd et) else strip_tx (snd et)) (fst et) true.

Lemma tx_bytes_nonempty ext t : (1 <= length (tx_bytes ext t))%nat.
Proof. unfold tx_bytes. rewrite app_length, le_enc_length. lia. Qed.

Theorem txs_roundtrip l rest : Forall list_item_ok l -> N.of_nat (length l) < two64 ->
  exists n, read_txs (txs_bytes l ++ rest) = POk (map list_item_parsed l, true) n rest /\
            n = lenN (txs_bytes l).
Proof.
  intros Hl Hn. unfold read_txs, txs_bytes. rewrite <- app_assoc.
  rewrite varint_roundtrip by assumption. cbn [pbind fst snd].
  set (fuel := S _).
  assert (Hf : (length l <= fuel)%nat).
  { subst fuel. rewrite !app_length.
    pose proof (concat_length_ge (fun et : bool * tx => tx_bytes (fst et) (snd et)) l
                  (fun et => tx_bytes_nonempty (fst et) (snd et))). lia. }
  destruct (read_many_app (fun b => pmap (fun p => (p, p_min p)) (read_tx b))
              (fun et : bool * tx => tx_bytes (fst et) (snd et)) list_item_parsed list_item_ok) with
    (xs := l) (fuel := fuel) (rest := rest) as [n2 H2]; auto.
  { intros [e t] r (Hwf & Ha). cbn [fst snd] in *.
    destruct (tx_roundtrip_exists e t r Hwf Ha) as [n H]. rewrite H. cbn.
    unfold list_item_parsed. cbn [fst snd]. destruct e; eauto. }
  rewrite H2. cbn [pbind pret fst snd andb]. eexists. split; [reflexivity|].
  pose proof (read_txs_ok ((varint_bytes (N.of_nat (length l)) ++
       concat (map (fun et : bool * tx => tx_bytes (fst et) (snd et)) l)) ++ rest)) as Hok.
  unfold read_txs in Hok. rewrite <- app_assoc in Hok.
  rewrite varint_roundtrip in Hok by assumption. cbn [pbind fst snd] in Hok.
  fold fuel in Hok. rewrite H2 in Hok. cbn [pbind pret fst snd andb] in Hok.
  destruct Hok as (pre & E & ->). rewrite app_assoc in E. apply app_inv_tail in E. subst pre.
  reflexivity.
Qed.
